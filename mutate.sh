#!/bin/bash
# usage: mutate.sh <worktree> <file> <python-regex-old> <new> <check ids...>
# Applies one textual mutation inside a scratch worktree, runs the given quick checks against it
# (VERIF_REPO), prints exit codes, and reverts the worktree.
WT=$1; F=$2; OLD=$3; NEW=$4; shift 4
cd $WT || exit 9
python3 - "$F" "$OLD" "$NEW" <<'PY' || exit 9
import re,sys
f,old,new=sys.argv[1:4]
s=open(f).read()
s2,n=re.subn(old,new,s,count=1,flags=re.S)
if n!=1: print("MUTATION DID NOT APPLY"); sys.exit(1)
open(f,'w').write(s2)
PY
git diff --stat | tail -1
. /verif/env.sh
if ! go build ./$(dirname $F)/ 2>/tmp/mut_build.log; then echo "MUTANT DOES NOT COMPILE"; head -5 /tmp/mut_build.log; git checkout -q -- .; exit 8; fi
for id in "$@"; do
  ( cd /verif && VERIF_REPO=$WT timeout 1500 ./vf check $id > /tmp/mut_$id.log 2>&1; echo "check $id exit=$? $(grep -c VIOLATION /tmp/mut_$id.log) violations; $(grep -m1 'FAILED job' /tmp/mut_$id.log)" )
done
git checkout -q -- .
