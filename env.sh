export GOFLAGS=-mod=mod GOPROXY=off GOSUMDB=off GOTOOLCHAIN=local
