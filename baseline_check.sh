#!/bin/bash
# Runs the repository's own test suite (hooks/guard off: there are none in /repo) and compares with /root/.vp/BASELINE.json.
# usage: baseline_check.sh [repo dir]   (default /repo)
R=${1:-/repo}
export GOFLAGS=-mod=mod GOPROXY=off GOSUMDB=off GOTOOLCHAIN=local
OUT=$(mktemp /tmp/baseline.XXXXXX.json)
(cd $R && go test -json -vet=off -count=1 -timeout 25m ./... > $OUT 2>/tmp/baseline.err)
python3 - "$OUT" <<'PY'
import json,sys
passed=set(); failed=set()
for l in open(sys.argv[1]):
    try: e=json.loads(l)
    except Exception: continue
    if e.get("Test") and e.get("Action") in ("pass","fail"):
        n=e["Package"]+"::"+e["Test"]
        (passed if e["Action"]=="pass" else failed).add(n)
b=json.load(open('/root/.vp/BASELINE.json'))
sp=set(b['stable_pass'])
missing=sorted(sp-passed)
print("baseline stable_pass:",len(sp),"passed now:",len(passed&sp),"missing:",len(missing))
for m in missing[:40]: print("  NOT PASSING:",m, "(failed)" if m in failed else "(absent)")
newfail=sorted(f for f in failed if f not in b.get('always_fail',[]))
print("failed tests (excluding baseline always_fail):",newfail[:40])
sys.exit(1 if missing else 0)
PY
rc=$?
rm -f $OUT
git -C $R status --short | grep -v '^??' | head -5
exit $rc
