"""C15 job table: Fiat-Shamir transcript vs its sequential specification."""
from conf.common import *  # noqa

HASHES = ["sha256", "mimc"]
# the rest of the hash family: digest sizes 20, 28, 48, 64 bytes (stdlib) and MiMC over a second 4-limb field (32 bytes),
# a 5-limb field (bw6-633 fr, 40 bytes) and a 6-limb field (bw6-761 fr, 48 bytes)
MORE = ["sha1", "sha224", "sha384", "sha512", "mimc_bls12381", "mimc_bw6633", "mimc_bw6761",
        # every other curve's fr/mimc package: each is its own (generated) code
        "mimc_bls12377", "mimc_bls24315", "mimc_bls24317", "mimc_grumpkin"]
MIMCS = ["mimc"] + [h for h in MORE if h.startswith("mimc_")]

PROP = dict(
    rule=("a call history on one transcript (Bind / ComputeChallenge on declared and undeclared names, caller-side "
          "overwriting of slices handed to Bind or returned by ComputeChallenge), compared with the model after every "
          "step and closed by three rounds of compute-all + overwrite-all; a history is non-trivial when it contains "
          "an illegal step (Bind to an undeclared or already computed challenge, ComputeChallenge of an undeclared name "
          "or before its predecessor), a recomputation, or an effective mutation event; distinct = distinct histories "
          "(enumerated histories are distinct by construction, rapid histories by hash of names+calls)"),
    assumptions=[
        "specification = harness/internal/ref/transcript.go (no gnark-crypto code): c_p = H(name_p || c_{p-1} if p>0 || bound values in order)",
        "the hash is a black box: SHA-256 = crypto/sha256 of the concatenation; MiMC (bn254) = a fresh library MiMC instance fed one Write per "
        "chunk (MiMC itself is decided by C14), inputs restricted to what MiMC.Write documents: empty, < 32 bytes, or whole canonical blocks",
        "hash family: SHA-1/224/256/384/512 (crypto/*; digests 20..64 bytes) and MiMC over bn254, bls12-381 (32 bytes), bw6-633 (40) and "
        "bw6-761 (48) and over bls12-377, bls24-315, bls24-317, grumpkin (32): the transcript takes any hash.Hash and must not assume a digest size",
        "caller-side mutation = append to (1, n, 2n+1 bytes, then every byte of the spare capacity) and overwrite in place every slice "
        "handed to Bind (handed over as a window of a larger caller buffer, which Bind must leave untouched) and every slice returned "
        "by ComputeChallenge; the model is never told",
        "every slice ComputeChallenge ever returned (first computation and recomputation) is kept by the harness and compared, over its "
        "full capacity, with its snapshot after every later Bind / ComputeChallenge of the history: a challenge the caller holds must not "
        "change behind its back (e.g. through a hash whose Sum returns a view of an internal buffer)",
        "errors are compared by presence only (the error values are unexported)",
        "challenge names are distinct; duplicate names are undocumented by NewTranscript and only checked for absence of panics",
    ],
    # generator health: every digest-size class and every caller-side mutation kind must occur in each run
    mandatory_all=["digest:<32", "digest:=32", "digest:>32", "mut:overwrite_bound", "mut:append_bound",
                   "mut:overwrite_returned", "mut:append_returned"]
                  # one class per MiMC instance: the rapid machine, and the many-bindings sweep
                  + MIMCS + [h + ":many_bindings" for h in MIMCS],
    jobs=[
        dict(name="exhaustive", pkg="c15", run="^TestC15_Exhaustive$", rapid=False, shards=HASHES, seeds=(8, 16),
             timeout=(600, 3000)),
        dict(name="exhaustive_more", pkg="c15", run="^TestC15_Exhaustive$", rapid=False, shards=MORE, seeds=(1, 2),
             timeout=(600, 3000)),
        dict(name="machine", pkg="c15", run="^TestC15_Machine$", shards=HASHES, checks=(30000, 400000), seeds=(2, 4)),
        dict(name="machine_more", pkg="c15", run="^TestC15_Machine$", shards=MORE, checks=(5000, 60000)),
        dict(name="rejected", pkg="c15", run="^TestC15_RejectedBinding$", checks=(5000, 100000)),
        dict(name="dupnames", pkg="c15", run="^TestC15_DuplicateNames$", checks=(5000, 50000)),
        dict(name="bursts", pkg="c15", run="^TestC15_Bursts$", rapid=False, shards=HASHES + MORE),
        dict(name="regress", pkg="c15", run="^TestC15_(Anchor|Regress.*)$", rapid=False),
    ],
)

PROP.update(
    technique=("model-based testing: bounded-exhaustive enumeration of all call histories up to a length bound plus a rapid "
               "state machine for long random histories, both in lock step with a reference state machine"),
    level_text=("Every history of length <= 6 (quick) / 7 (thorough) over a 14-symbol alphabet (3 declared names, one undeclared, "
                "2 values, 2 aliasing events) is executed against the library and the specification and compared after every call "
                "(SHA-256; MiMC/bn254 to length 4/5; seven more hashes with digests of 20..64 bytes to length 4/5 resp. 3/4); longer histories with 1..4 arbitrary names (including the empty name) and arbitrary "
                "values are sampled with a rapid state machine. Exhaustive within the bound, exploration beyond it."),
    level_note="trusts crypto/sha256 and (for the MiMC instance) the library's MiMC as a black-box hash; error kinds are not distinguished",
)
