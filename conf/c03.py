"""C03 job table: scalar multiplication equals repeated addition for every integer scalar."""
from conf.common import *  # noqa

G1 = [c + "/G1" for c in CURVES]
G2_FAST = [c + "/G2" for c in ("bn254", "bls12-377", "bls12-381", "bw6-633", "bw6-761")]
G2_E4 = ["bls24-315/G2", "bls24-317/G2"]
EDWARDS = ["bn254/twistededwards", "bls12-377/twistededwards", "bls12-381/twistededwards", "bls12-381/bandersnatch",
           "bls24-315/twistededwards", "bls24-317/twistededwards", "bw6-633/twistededwards", "bw6-761/twistededwards"]
NO_BATCH = {"stark-curve/G1"}          # hand-written package without BatchScalarMultiplicationG1
NO_GLV = {"stark-curve/G1"}            # plain windowed multiplication

_MAND = []
for _g in G1 + G2_FAST + G2_E4:
    _MAND += ["%s|%s" % (_g, c) for c in ("s_outside_[2,r-2]", "bitlen(s)>bitlen(r)", "s<0", "P=O", "s_wider_than_fr_limbs")]
    if _g not in NO_GLV:
        _MAND += ["%s|glv_subscalar_at_bound" % _g]
    if _g not in NO_BATCH:
        _MAND += ["%s|batch_len=0" % _g, "%s|batch_len=1" % _g]
for _e in EDWARDS:
    _MAND += ["%s|%s" % (_e, c) for c in ("s_outside_[2,r-2]", "bitlen(s)>bitlen(r)", "s<0", "P=O", "s_wider_than_fr_limbs")]
# measured with both candidate eigenvalues (conservative), hence rarer: required globally and for bandersnatch
_MAND += ["glv_subscalar_negative", "bls12-381/bandersnatch|glv_subscalar_negative"]

PROP = dict(
    rule=("rapid-generated (subgroup point P = [k]G incl. O, scalar s) with s from the integer lattice around r (0, ±1, r-1, r, r+1, kr±1, "
          "2^k±1, all-ones, negatives, up to 4*bitlen(r) bits quick / 4096+ bits thorough) or synthesised from GLV sub-scalars k1+k2*λ at "
          "and just above the lattice bound with every sign pattern; joint pairs (s1,s2) incl. s2=±s1, P2=±P1; batches of 0..64 (thorough: "
          "..4096) reduced scalars incl. constant c-bit digit patterns. A case is non-trivial when s is outside [2,r-2], longer than r, has a "
          "negative, bound-length or over-long GLV sub-scalar (measured with ecc.SplitScalar for both candidate eigenvalues), P=O, or the batch length is "
          "0 or 1; distinct = distinct (group, entry-point family, point, scalars) hashes"),
    assumptions=["oracle = double-and-add on |s| with sign in the affine reference model (no gnark-crypto code); scalars longer than 2*bitlen(r)+64 bits "
                 "and batch outputs are evaluated as [s*k mod r]G from the known discrete log k of P — sound because the reference validated [r]G=O",
                 "points are subgroup points (GLV, batch and joint multiplication document no subgroup check; DESIGN §11)",
                 "eigenvalues and lattice bases used to synthesise GLV scalars are derived from r alone (cube roots of unity / sqrt(-2)), "
                 "ecc.SplitScalar is used to label cases only",
                 "batches longer than 64: outputs checked at 4 boundary and 28 drawn indices"],
    mandatory_all=_MAND,
    jobs=[
        dict(name="mul", pkg="c03", run="^TestC03_Mul$", shards=G1, checks=(300, 4500), timeout=(900, 3600)),
        dict(name="mul2", pkg="c03", run="^TestC03_Mul$", shards=G2_FAST, checks=(200, 3000), timeout=(900, 3600)),
        dict(name="mul4", pkg="c03", run="^TestC03_Mul$", shards=G2_E4, checks=(50, 500), timeout=(900, 3600), seeds=(2, 3)),
        dict(name="joint", pkg="c03", run="^TestC03_Joint$", shards=G1, checks=(200, 3000), timeout=(900, 3600)),
        dict(name="batch", pkg="c03", run="^TestC03_Batch$", shards=[g for g in G1 if g not in NO_BATCH], checks=(60, 500), timeout=(900, 3600)),
        dict(name="batch2", pkg="c03", run="^TestC03_Batch$", shards=G2_FAST, checks=(40, 300), timeout=(900, 3600)),
        dict(name="batch4", pkg="c03", run="^TestC03_Batch$", shards=G2_E4, checks=(12, 60), timeout=(900, 3600), seeds=(2, 3)),
        dict(name="edmul", pkg="c03", run="^TestC03_EdMul$", shards=EDWARDS, checks=(400, 6000), timeout=(900, 3600)),
        dict(name="regress", pkg="c03", run="^TestC03_Regress", rapid=False),
        # scalar multiplication as the FIRST use of an Edwards package in a fresh process (lazily initialised curve parameters): every
        # point method, ScalarMultiplication included, cold vs warm vs reference (test shared with C02/C18)
        dict(name="coldstart-edwards", pkg="c02/uninit", run="^TestC02_ColdStart$", rapid=False),
        # white-box (optional): mulGLV against mulWindowed on the same inputs
        dict(name="wb.bn254", kind="overlay", pkg="ecc/bn254", run="^TestVerifC03_", checks=(300, 5000), optional=True),
        dict(name="wb.bls12-381", kind="overlay", pkg="ecc/bls12-381", run="^TestVerifC03_", checks=(200, 3000), optional=True),
        dict(name="wb.bw6-761", kind="overlay", pkg="ecc/bw6-761", run="^TestVerifC03_", checks=(100, 1500), optional=True),
        dict(name="wb.secp256k1", kind="overlay", pkg="ecc/secp256k1", run="^TestVerifC03_", checks=(300, 5000), optional=True),
    ],
)

PROP.update(
    technique=("property-based testing (rapid) of every scalar-multiplication entry point against reference double-and-add; "
               "lattice and GLV-synthesised scalar generators; white-box overlay comparing mulGLV with mulWindowed"),
    level_text=("Generated-input search over (subgroup point, integer scalar) for G1/G2 of the 10 curves and the 8 twisted-Edwards "
                "companions: single, fixed-base, joint, batch and Edwards multiplications are compared with an independent affine "
                "double-and-add on scalars that are zero, negative, above r, thousands of bits long, or engineered to sit on the "
                "GLV decomposition bounds. Exploration, not proof."),
    level_note="trusts math/big, the validated curve constants and the reflective adapters",
)
