"""C09 job table: results do not depend on the CPU-specific code path."""
from conf.common import *  # noqa

VARIANTS = [
    dict(name="purego", tags="purego"),
    dict(name="noadx", env={"GODEBUG": "cpu.adx=off"}),
    dict(name="noavx512", env={"GODEBUG": "cpu.avx512=off"}),
]


def _groups(names, k, prefix="^[A-Z]+/"):
    """k shards, each a regex alternative over names (op names are '<KIND>/<instance>[/...]')."""
    out = []
    for i in range(k):
        part = names[i::k]
        if part:
            out.append(dict(name="g%d" % i, inst=prefix + "(" + "|".join(part) + ")(/|$)"))
    return out


PROP = dict(
    rule=("live differential: each rapid-generated call (op id + serialised operands) is executed in the default "
          "assembly process and in three worker processes (purego build; GODEBUG=cpu.adx=off; GODEBUG=cpu.avx512=off) and "
          "byte-exact outputs and panic-or-not are compared; in addition the reference-oracle suite of C01 is re-run under each "
          "variant. A case is non-trivial when an operand lies on the limb-boundary lattice, has a zero sub-coordinate (towers), "
          "or the vector length is 0, not a multiple of the 16-lane block, or above the 112-element switch; distinct = distinct "
          "(op, operands) hashes"),
    assumptions=["host has ADX and AVX-512 (checked by the C09_Variants test); arm64 assembly is not executed",
                 "workers are pure functions of their request (no state between requests)"],
    technique="differential property-based testing (rapid) across CPU-path variants with shrinking through worker processes; reference-oracle suites re-run per variant",
    level_text=("Generated-input search with a differential oracle across the four amd64 configurations (asm+ADX+AVX512, no AVX-512, "
                "no ADX, purego) for every field, vector, tower, FFT, Poseidon2 and SIS entry point, plus C01's math/big oracle executed "
                "under each configuration. Exploration: the configurations are enumerated completely, the inputs are sampled from "
                "boundary lattices and all vector lengths/tails."),
    level_note="arm64 not reachable on this host; GODEBUG=cpu.*=off is honoured by golang.org/x/sys/cpu as used by utils/cpu (asserted at start-up)",
    jobs=[
        dict(name="variants", pkg="c09", run="^TestC09_Variants$", rapid=False, workers=VARIANTS),
        dict(name="field", pkg="c09", run="^TestC09_Field$", workers=VARIANTS, checks=(6000, 120000),
             shards=_groups(FIELDS, 4)),
        dict(name="vector", pkg="c09", run="^TestC09_Vector$", workers=VARIANTS, checks=(2500, 50000),
             shards=_groups(FIELDS, 4)),
        dict(name="tower", pkg="c09", run="^TestC09_Tower$", workers=VARIANTS, checks=(600, 12000),
             shards=_groups(PAIRING, 4)),
        dict(name="kernels", pkg="c09", run="^TestC09_Kernels$", workers=VARIANTS, checks=(1500, 30000), seeds=(2, 4)),
    ] + [
        # white-box (overlay), same process: exported (assembly) entry points vs their portable *Generic twins
        dict(name="wb-twins." + f.replace("/", "_"), kind="overlay", pkg=FIELD_PKG[f], run="^TestVerifC09_", checks=(1500, 30000))
        for f in FIELDS
    ] + [
        dict(name="c01-%s-%s" % (t, v["name"]), pkg="c01", run="^TestC01_%s$" % t.capitalize(), tags=v.get("tags", ""),
             env=v.get("env", {}), checks=(c // 2, c * 5), shards=_groups(FIELDS, 2, prefix="^"))
        for v in VARIANTS for (t, c) in (("unary", 3000), ("binary", 3000), ("vector", 500))
    ],
)
