"""C16 job table: Merkle trees (accumulator/merkletree and the Vortex Poseidon2 tree) vs reference tree hashes."""
from conf.common import *  # noqa

PROP = dict(
    rule=("exhaustive sweep over (hash, leaf flavour, n, i): root and proof set of every construction path (Push, "
          "Prove after every Push, PushSubTree decompositions with the documented refusals, ReadAll / BuildReaderProof / "
          "ReaderRoot over a stream with a short last segment) compared with the recursive RFC-6962-shaped reference, then "
          "every single-component tampering of (root, proof elements incl. the leaf, index, proof length) and out-of-range "
          "indices judged against the reference verifier; Vortex: every power-of-two size to 2^9 and every padded size to 40. "
          "A case is non-trivial when n is not a power of two, or i lies in the last incomplete sub-tree, or the object is "
          "tampered, or the tree was built through PushSubTree/ReadAll; distinct = distinct (hash, flavour, path|tamper kind, "
          "n, i, variant) tuples, counted as enumerated"),
    assumptions=[
        "reference = harness/internal/ref/merkle.go (no gnark-crypto code): MTH/PATH recursion of RFC 6962 §2.1 with the repository's "
        "rules leaf = H(data), node = H(left || right) (its 0x00/0x01 prefixes are commented out in tree.go)",
        "hashes are black boxes: crypto/sha256; MiMC bn254 and vortex.CompressPoseidon2 are the library's (decided by C14) and are "
        "fed only chunks they document (MiMC: shorter than a block or whole canonical blocks)",
        "the leaf count is not tampered (property statement: it only fixes the tree shape)",
        "no leaf/node domain separation exists in the library (prefixes commented out): a 64-byte leaf equal to left||right of a node "
        "is a two-component change (leaf and proof length) and is outside the single-component tamper list",
        "leaf contents are a deterministic function of VERIF_SEED (SHA-256 counter mode)",
        "Root() and Prove() are documented as pure observations: they are read after every single Push / PushSubTree / ReadAll "
        "(and after refused PushSubTree calls) in the PushSubTree sweeps and in the rapid decomposition machine, each compared with "
        "the reference root/proof of the leaves so far",
        "refused calls are part of the histories: SetIndex on a non-empty tree (documented error), refused PushSubTree calls, Prove() on a "
        "tree without SetIndex (documented usage panic); after any of them the tree must behave exactly as if the call had not been made "
        "(Root, Prove incl. the usage panic, index, later pushes)",
        "leaves / proof elements that the hash refuses (MiMC and the Poseidon2 Merkle-Damgard hasher over bn254: non-canonical blocks, for MiMC "
        "also lengths that are no multiple of the block): panic and error are accepted (fail closed), only normal returns are asserted — no "
        "common root for two different sequences, no acceptance of a refused element that differs from the committed one",
        "slices are handed over as windows of larger populated caller buffers (leaves to Push, sums to PushSubTree, root and proof "
        "sets to VerifyProof, leaf hashes to vortex.BuildMerkleTree, proofs to MerkleProof.Verify): results must not depend on, and "
        "calls must not write to, what lies outside the window",
    ],
    # cross-cutting classes that must be populated in every run (generator health)
    mandatory_all=["observe_mid:after_push", "observe_mid:after_pushsubtree", "observe_mid:after_readall",
                   "observe_mid:after_refused_pushsubtree", "input:slice_with_dirty_spare_capacity",
                   "refused_call_then_continue:SetIndex", "refused_call_then_continue:PushSubTree",
                   "refused_call_then_continue:Prove", "inadmissible_leaf:mimc", "inadmissible_leaf:poseidon2"],
    jobs=[
        dict(name="acc_sha256", pkg="c16", run="^TestC16_Accumulator$", rapid=False, shards=["sha256"], seeds=(2, 8),
             timeout=(900, 3600)),
        dict(name="acc_mimc", pkg="c16", run="^TestC16_Accumulator$", rapid=False, shards=["mimc"], seeds=(14, 16),
             timeout=(900, 5400)),
        dict(name="incremental", pkg="c16", run="^TestC16_Incremental$", rapid=False, shards=["sha256", "mimc"], seeds=(1, 4),
             timeout=(900, 3600)),
        dict(name="readers_sha256", pkg="c16", run="^TestC16_Readers$", rapid=False, shards=["sha256"], seeds=(1, 4),
             timeout=(900, 3600)),
        dict(name="readers_mimc", pkg="c16", run="^TestC16_Readers$", rapid=False, shards=["mimc"], seeds=(6, 16),
             timeout=(900, 5400)),
        dict(name="vortex", pkg="c16", run="^TestC16_Vortex$", rapid=False, seeds=(4, 8), timeout=(900, 3600)),
        dict(name="decompose", pkg="c16", run="^TestC16_Decompose$", shards=["sha256", "mimc"], checks=(6000, 80000)),
        dict(name="inadmissible", pkg="c16", run="^TestC16_InadmissibleLeaves$", rapid=False),
        dict(name="regress", pkg="c16", run="^TestC16_Regress", rapid=False),
    ],
)

PROP.update(
    technique=("exhaustive enumeration of tree shapes, positions, construction decompositions and single-component tamperings "
               "against independent recursive reference trees and reference verifiers; rapid for mixed Push/PushSubTree/ReadAll histories"),
    level_text=("Every (n,i) with n <= 130 (thorough 520) for SHA-256 and MiMC, every power-of-two Vortex tree to 2^9 (thorough 2^10): "
                "roots and proofs are compared byte for byte with trees computed recursively from the RFC 6962 definition, and the "
                "library verifier must agree with a reference verifier on each enumerated tampering, so duplicate leaves cannot raise "
                "false alarms. Exhaustive within the size bound; exploration (rapid) over call decompositions."),
    level_note="trusts crypto/sha256 and, as black boxes, the library's MiMC and Poseidon2 compression; collision resistance is assumed when a tampered object is expected to fail",
)
