"""C18 job table: calls are pure, repeatable and safe to run concurrently on shared inputs."""
import re

from conf.common import *  # noqa

FULL_CURVES = ["bn254", "bls12-381"]
LIGHT_CURVES = ["bw6-761", "bls24-315"]
EXTRA_CURVES = ["bls12-377", "bls24-317", "bw6-633"]   # same (lighter) registry; quick: sequential + concurrent, thorough: everything
PLAIN_CURVES = ["grumpkin", "secp256k1", "stark-curve"]   # no pairing: plain.tmpl (group law, MSM, codecs, hash-to-curve, ECDSA, fields)
SMALL = ["koalabear", "babybear", "goldilocks"]
GROUPS = FULL_CURVES + LIGHT_CURVES + SMALL + ["misc"]

# lazily initialised / pooled globals: one fresh process each (names = registerFirstUse in harness/c18)
FIRST_USE = (
    ["%s/%s" % (c, g) for c in FULL_CURVES + LIGHT_CURVES
     for g in ("twistededwards.initOnce", "mimc.once", "mimc.GetConstants", "poseidon2.GetDefaultParameters",
               "polynomial.lagrangeBasis", "pool.BigInt", "fptower.bigIntPool")]
    + ["%s/%s" % (f, g) for f in SMALL for g in ("poseidon2.GetDefaultParameters", "pool.BigInt")]
    + ["koalabear/vortex.compressPerm+spongePerm", "bls12-381/bandersnatch.initOnce", "hash.registry"]
)

RACE_ENV = {"GORACE": "halt_on_error=1"}
# the pool stress run (48 / 64 goroutines inside slow-path conversions) is part of every group's "conc*" job and of the
# cheap -race jobs; the other build variants of the concurrent suite skip it
NO_STRESS = {"GORACE": "halt_on_error=1", "VERIF_C18_STRESS": "0"}


FIRST_USE_EXTRA = ["%s/%s" % (c, g) for c in EXTRA_CURVES
                   for g in ("twistededwards.initOnce", "mimc.once", "mimc.GetConstants", "poseidon2.GetDefaultParameters",
                             "polynomial.lagrangeBasis", "pool.BigInt", "fptower.bigIntPool")]


FIRST_USE_PLAIN = (["%s/pool.BigInt" % c for c in PLAIN_CURVES]
                   + ["grumpkin/" + g for g in ("mimc.once", "poseidon2.GetDefaultParameters", "polynomial.lagrangeBasis")])


def _first_use_shards(tier):
    names = FIRST_USE + FIRST_USE_PLAIN + (FIRST_USE_EXTRA if tier == "thorough" else [])
    return [dict(name=re.sub(r"[^A-Za-z0-9_.-]", "_", n), inst="^" + re.escape(n) + "$") for n in names]


def _race_extra_shards(tier):
    return [dict(name=c, inst="^" + re.escape(c) + "$", env={}) for c in EXTRA_CURVES]


def _race_curve_shards(tier):
    # quick: the reduced registry (entries flagged light); thorough: the full registry under -race
    env = {"VERIF_C18_REDUCED": "1"} if tier == "quick" else {}
    return [dict(name=c, inst="^" + re.escape(c) + "$", env=env) for c in FULL_CURVES]


def _race_light_shards(tier):
    env = {"VERIF_C18_REDUCED": "1"} if tier == "quick" else {}
    return [dict(name=c, inst="^" + re.escape(c) + "$", env=env) for c in LIGHT_CURVES]


def _race_purego_curve_shards(tier):
    if tier == "quick":
        return [dict(name="bn254", inst="^bn254$", env={"VERIF_C18_REDUCED": "1"})]
    return [dict(name=c, inst="^" + re.escape(c) + "$", env={"VERIF_C18_REDUCED": "1"}) for c in FULL_CURVES + LIGHT_CURVES]


PROP = dict(
    rule=("a case is (a) a history: 1..5 distinct entry points of one group, each called k in 2..5 times on the same shared "
          "argument objects, interleaved in a drawn order; (b) a concurrent run: g in {2,3,8,64} goroutines x GOMAXPROCS in "
          "{1,2,3,8,16}, released by a barrier, each executing a drawn list of entry points (everybody the same one, two, or any) "
          "on the same shared objects; (c) a first use of a lazily initialised global made concurrently by 8..64 goroutines in a "
          "fresh process. Every case is non-trivial by the rule of DESIGN C18 (>= 2 uses of one object, >= 2 concurrent callers, or "
          "first-use concurrency); distinct = distinct (entry sequence | g, GOMAXPROCS, per-goroutine lists | global, g)"),
    assumptions=[
        "oracles: deep snapshot (reflective walk incl. unexported fields, SHA-256 of the raw memory, slices by content) of every shared "
        "argument before/after; byte equality of the canonical serialisation of every result with the first sequential result of the "
        "entry in the process; the Go race detector (jobs built with -race, GORACE=halt_on_error=1)",
        "returned values belong to the caller: for every entry point whose result holds references (pointers, slices, maps, big.Ints: "
        "GetEdwardsCurve of all 8 Edwards packages, mimc.GetConstants, poseidon2.GetDefaultParameters/NewParameters, Modulus/ScalarField/"
        "BaseField, hash Sum/State outputs, Compress, Batch* results, BatchOpenSinglePoint, InterpolateOnRange, fr.Hash, BatchInvert, "
        "MarshalBinary, Sign, PublicKey.Bytes) the harness overwrites the returned value in place after every call (class scribble_returned: "
        "flat slice/array memory and big.Int limbs inverted, struct fields zeroed; only memory a caller can reach: references held by "
        "unexported fields are dropped, not written through) and the next call must return the first result, sequentially and concurrently",
        "exempt from scribbling, reported as notes: receiver accessors of caller-owned objects that hand out the receiver's storage "
        "(fft.Domain.Twiddles/TwiddlesInv/CosetTable/CosetTableInv: undocumented, probed; iop.Polynomial.Coefficients: documented "
        "'returns a slice on the underlying data structure'); types exposing exported fields only (kzg.SRS)",
        "purity is checked against EVERY shared object of the group after EVERY call (not only the callee's arguments): an argument "
        "leaked into a pool or cache by one call and overwritten by a later call of another entry point is attributed at that later call; "
        "one history in four (and the concurrent mode 'pool') is drawn only among entry points borrowing from process-wide pools "
        "(GT Exp/CyclotomicExp/ExpGLV with positive and negative shared exponents, field Exp/Sqrt/Legendre/Text/SetString/SetBigInt)",
        "a call that never returns yields no result: a watchdog (240 s, 10^4..10^5 times the duration of any entry) reports it with the dump of "
        "the goroutines blocked inside the library instead of letting the job end as an inconclusive timeout; it is not used as a timing oracle",
        "bls12-377, bls24-317, bw6-633 run the lighter registry sequentially and concurrently in quick; -race and first-use jobs for them in thorough",
        "grumpkin, secp256k1 and stark-curve have their own registries (plain.tmpl: 71 / 53 / 46 entry points): every exported group-law, "
        "scalar-multiplication, batch, MultiExp/Fold, codec (RawBytes/SetBytes, Marshal/Unmarshal/Bytes, Encoder/Decoder where they exist), "
        "hash-to-curve, Pedersen-hash (stark-curve), ECDSA (Verify, Sign, HashToInt, key/signature codecs, SignForRecover/RecoverFrom) entry "
        "point and the fp/fr conversions, under all the oracles and all the suites (sequential, concurrent, -race, -race purego, first use)",
        "decoder-like entry points (point SetBytes/Unmarshal and Decoder.Decode over a bytes.Reader on the caller's buffer, compressed and raw, "
        "G1/G2, slices of points; GT.SetBytes; field SetBytes/SetBytesCanonical/UnmarshalJSON/SetString and Vector.UnmarshalBinary/ReadFrom; "
        "Edwards points; EdDSA/ECDSA keys and signatures; kzg and Pedersen keys and proofs read from a caller-held buffer) are fed from a shared "
        "pool of INPUT BUFFERS derived from valid encodings by mutation: leading element = p, > p, trailing element = p, all ones, all zero, each "
        "of the 8 values of the three metadata bits, infinity encodings with dirt, neighbours of X / damaged tails (no square root, off the curve), "
        "on the curve but outside the subgroup (obtained by decoding without the subgroup check), truncated by one byte and by half, one byte too "
        "long, empty. The buffers are shared arguments: bytes identical after every call whether it fails or not, same verdict and value on "
        "repetition and for concurrent callers. Which verdict is right is C07's question, not asked here; length prefixes are never mutated "
        "(a huge prefix is allocated as told, DESIGN 11)",
        "entry points taking an io.Writer / io.Reader together with a shared object (kzg SRS WriteTo/WriteRawTo/WriteDump with maxPkPoints absent, "
        "below, equal and above len, ProvingKey, VerifyingKey, proofs, Pedersen keys, fft.Domain, iop.Polynomial, Vector, Encoder over shared "
        "slices; the ReadFrom/UnsafeReadFrom/ReadDump family) run in four variants: plain; with a writer that fails permanently at its k-th Write "
        "(k = 1..8, 11, 17, 33, 70), fails once and recovers, or writes short, the serialised object being snapshotted after EVERY fault and "
        "probed for behaviour (Commit of a full-size polynomial on the SRS, FFT on the Domain, Evaluate on the Polynomial ...); with a writer that "
        "blocks between Writes while the harness uses the same object and requires the solo result at that point (deterministic: the serialising "
        "call is provably in progress); readers failing at the k-th Read, once, or returning one byte per Read, over a shared source buffer. "
        "Whether a swallowed stream error is acceptable is not asked here (C07)",
        "exponent / scalar arguments: besides small, full, wide and negative-full, every Exp / ExpGLV / CyclotomicExp / ScalarMultiplication "
        "family (fields, extension towers of the small fields, GT, G1/G2/Edwards points) runs the boundary set {0, 1, -1, two distinct one-word "
        "negatives, small, 2^63, -2^63, 2^64-1, -(2^64-1), 2^64, full, -full, wider than the modulus}, each exponent a shared big.Int of its own "
        "under the group-wide purity check, and after every call users of the process-wide big.Int pool from the OTHER packages run (SetString / "
        "Text / String / SetBigInt / UnmarshalJSON of small values and one-word negative Exp in fr and fp), so that a temporary aliasing the "
        "caller's exponent and leaked into field/pool is written to before the check",
        "slice arguments come as prefixes of larger arrays: every drawn byte string, every shared vector of field elements or points, every "
        "encoded blob and decoder input has spare capacity whose tail holds a sentinel pattern, dst and msg of the hash-to-field/curve entries sit "
        "next to each other in one record (dst first), and argument snapshots cover len..cap of every flat slice (results are digested up to len only)",
        "pool stress: in every group's concurrent job, before the sweeps, 48 and then 64 goroutines (GOMAXPROCS = g, so each has a P of its own) "
        "are released by a barrier into slow-path conversions of the fields of the group (fr and fp together: the big.Int pool of field/pool is "
        "process-wide): SetBytes of 32 KB strings repeated 60 times (the conversion then holds two scratch values almost all the time), SetString / "
        "SetInterface of 65 536-digit hexadecimal numerals, SetBigInt of a huge negative value, UnmarshalJSON / SetString of 16 384- and 8 192-digit "
        "decimal numerals; every result must equal the sequentially computed one and a panic in any goroutine is a failure reported with its stack",
        "Element.SetInterface is called with every dynamic type its switch accepts (Element, *Element, uint8/16/32/64, uint, int8/16/32/64, int, "
        "string, *big.Int, big.Int by value, []byte; nil, a nil pointer and unsupported types are errors) and values inside and outside [0,q), "
        "negative and wider than the modulus; the big.Int arguments are shared objects of their own for the pointer and the by-value entries "
        "(the by-value copy aliases the caller's limbs: argument snapshots cover the limb array up to cap and the sign)",
        "goroutine scheduling is the only input not controlled by the rapid seed; a race needing an interleaving the runtime does not "
        "produce under the varied g / GOMAXPROCS / yields / -race instrumentation can be missed; timing is never used as a signal",
        "shared inputs are a deterministic function of VERIF_SEED (SHA-256 counter stream); ECDSA signatures are produced once with the "
        "library's crypto/rand nonce and only verdicts depend on them; BatchVerifyMultiPoints and ECDSA Sign are compared by verdict only",
        "objects documented as single-owner are not shared: hashers (one per call), polynomial.Pool ('not thread safe'), FFT data "
        "(each caller transforms its own copy), destinations; iop polynomials are used through Clone",
        "JointScalarMultiplication with scalars wider than the scalar field (F2, decided by C03) is not part of the registry",
        "quick tier: the -race concurrency suite of the four curves runs on the reduced registry (entries flagged light), the small "
        "fields and misc run their full registry under -race; the thorough tier runs every registry in full under -race",
        "the race detector does not see memory accesses made by assembly kernels; the race-purego jobs rebuild with -tags purego so that "
        "the portable Go kernels are instrumented (small fields + misc in full, bn254 reduced in quick; all four curves reduced in thorough)",
        "every entry point is also exercised deterministically (sweep): 3 interleaved sequential calls and 4 concurrent goroutines x 2 calls",
    ],
    mandatory_all=["pool_stress:g>=48"] + ["setinterface:" + t for t in (
        "Element", "*Element", "uint", "int", "string", "*big.Int", "big.Int", "[]byte", "nil/unsupported")] + [
        "arg:spare_capacity_sentinel", "exp:boundary_exponents", "exp:negative_one_word", "exp:negative_one_word/field",
                   "exp:negative_one_word/tower", "exp:negative_one_word/gt", "exp:negative_one_word/point", "writer:fails_at_k", "writer:fails_once", "writer:short_write", "writer:slow_with_concurrent_use",
                   "reader:fails_at_k", "reader:fails_once", "reader:one_byte", "decode_pool"] + ["decode:" + c for c in (
        "valid", "x_eq_p", "x_gt_p", "last_eq_p", "all_ones", "all_zero", "inf_dirty", "off_curve", "not_in_subgroup",
        "trunc_1", "trunc_half", "long_1", "empty", "flag_0", "flag_1", "flag_2", "flag_3", "flag_4", "flag_5", "flag_6", "flag_7")] + [
        "scribble_returned", "pool_interleave", "mode:pool", "g=2", "g=3", "g=8", "g=64", "P=1", "P=2", "P=3", "P=8", "P=16", "k=2", "k=5", "mode:same", "mode:pair", "mode:mix"],
    jobs=[
        # lazily initialised Edwards parameters: every point method cold vs warm, one fresh process per method (shared with C02)
        dict(name="coldstart-edwards", pkg="c02/uninit", run="^TestC02_ColdStart$", rapid=False),
        dict(name="coldstart-hashes", pkg="c14", run="^TestC14_ColdStart$", rapid=False, weight=4),
        # -race suite (asm build): shared-object concurrency under the race detector
        dict(name="race", pkg="c18", run="^TestC18_Concurrent$", race=True, shards=_race_curve_shards, env=NO_STRESS,
             checks=(60, 1500), timeout=(1800, 5400), weight=9),
        dict(name="race-light", pkg="c18", run="^TestC18_Concurrent$", race=True, shards=_race_light_shards, env=NO_STRESS,
             checks=(22, 600), timeout=(1800, 5400), weight=10),
        dict(name="race-small", pkg="c18", run="^TestC18_Concurrent$", race=True, shards=SMALL + ["misc"], env=RACE_ENV,
             checks=(250, 4000), timeout=(1800, 5400), weight=6),
        # -race -tags purego: the assembly kernels are invisible to the race detector, the portable Go code is not
        dict(name="race-purego", pkg="c18", run="^TestC18_Concurrent$", race=True, tags="purego", shards=SMALL + ["misc"],
             env=NO_STRESS, checks=(100, 1500), timeout=(1800, 5400), weight=8),
        dict(name="race-purego-curve", pkg="c18", run="^TestC18_Concurrent$", race=True, tags="purego", shards=_race_purego_curve_shards,
             env=NO_STRESS, checks=(15, 300), timeout=(1800, 7200), weight=11),
        dict(name="race-seq", pkg="c18", run="^TestC18_Sequential$", race=True, shards=GROUPS + EXTRA_CURVES + PLAIN_CURVES, env=RACE_ENV,
             checks=(15, 300), timeout=(1800, 5400), weight=7, tiers=("thorough",)),
        # the three remaining pairing curves: a change confined to one curve's generated copy must not be invisible
        dict(name="seq-extra", pkg="c18", run="^TestC18_Sequential$", shards=EXTRA_CURVES, checks=(180, 8000), timeout=(1800, 5400), weight=5),
        dict(name="conc-extra", pkg="c18", run="^TestC18_Concurrent$", shards=EXTRA_CURVES, checks=(80, 3000), timeout=(1800, 5400), weight=5),
        dict(name="race-extra", pkg="c18", run="^TestC18_Concurrent$", race=True, shards=_race_extra_shards, env=NO_STRESS,
             checks=(30, 600), timeout=(1800, 5400), weight=9, tiers=("thorough",)),
        # the curves without pairing (plain.tmpl): cheap registries, every suite in quick with modest counts
        dict(name="seq-plain", pkg="c18", run="^TestC18_Sequential$", shards=PLAIN_CURVES, checks=(450, 10000), timeout=(1800, 5400), weight=3),
        dict(name="conc-plain", pkg="c18", run="^TestC18_Concurrent$", shards=PLAIN_CURVES, checks=(250, 4000), timeout=(1800, 5400), weight=3),
        dict(name="race-plain", pkg="c18", run="^TestC18_Concurrent$", race=True, shards=PLAIN_CURVES, env=RACE_ENV,
             checks=(60, 2500), timeout=(1800, 5400), weight=6),
        dict(name="race-purego-plain", pkg="c18", run="^TestC18_Concurrent$", race=True, tags="purego", shards=PLAIN_CURVES,
             env=NO_STRESS, checks=(25, 800), timeout=(1800, 5400), weight=8),
        dict(name="conc", pkg="c18", run="^TestC18_Concurrent$", shards=GROUPS, checks=(300, 5000), timeout=(1800, 5400), weight=5),
        dict(name="seq", pkg="c18", run="^TestC18_Sequential$", shards=FULL_CURVES + SMALL + ["misc"], checks=(1050, 20000), timeout=(1800, 5400), weight=4),
        dict(name="seq-light", pkg="c18", run="^TestC18_Sequential$", shards=LIGHT_CURVES, checks=(480, 8000), timeout=(1800, 5400), weight=5),
        dict(name="firstuse", pkg="c18", run="^TestC18_FirstUse$", race=True, rapid=False, shards=_first_use_shards, env=RACE_ENV,
             timeout=(1200, 1800), weight=2),
        dict(name="regress", pkg="c18", run="^TestC18_Regress", rapid=False, weight=1),
    ],
)

PROP.update(
    technique=("property-based testing over call histories and schedules: a registry of ~1950 exported entry points closed over shared "
               "argument objects (7 pairing curves, grumpkin / secp256k1 / stark-curve with their group law, MSM, codecs, hash-to-curve, ECDSA "
               "and fields, 3 small fields, hash registry, bandersnatch), rapid-drawn histories and "
               "goroutine mixes, deep argument snapshots, the Go race detector, fresh-process first-use races"),
    level_text=("Generated histories and schedules against three oracles (argument snapshots, byte-identical results, race detector). "
                "Exploration, not proof: the quantifiers are over histories and interleavings; histories are sampled by rapid, "
                "interleavings are those the Go scheduler yields under varied goroutine counts, GOMAXPROCS, task-count options, "
                "drawn yields and -race instrumentation."),
    level_note=("no deterministic scheduler: a race needing a rare interleaving can be missed; sizes are small (SRS <= 128, MSM <= 300 "
                "points plus one 4500-point MSM with skewed scalars on bn254/bls12-381, FFT <= 512; "
                "64-point MSMs on the curves without pairing); the group-law methods (Add/AddAssign/AddMixed/Double...) are exercised on "
                "shared operands for grumpkin, secp256k1 and stark-curve only (the pairing curves share the same generated code)"),
)
