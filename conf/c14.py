"""C14 job table: algebraic hashes match their specifications and honour streaming semantics."""
from conf.common import *  # noqa

_CURVES8 = ["bn254", "bls12-377", "bls12-381", "bls24-315", "bls24-317", "bw6-633", "bw6-761", "grumpkin"]
MIMC = ["mimc/" + c for c in _CURVES8]
P2 = ["poseidon2/" + c for c in _CURVES8 + ["koalabear", "babybear", "goldilocks"]]
SIS = ["sis/" + f for f in ("koalabear", "babybear", "goldilocks", "bls12-377")]


def _cold_classes():
    """Class labels of TestC14_ColdStart: one per (package, entry point), see harness/c14/coldstart_test.go."""
    out = ["cold_start"]
    for c in _CURVES8:
        for e in ("Sum", "NewMiMC.Write.Sum", "NewMiMC(WithByteOrder(BigEndian))", "NewMiMC(WithByteOrder(LittleEndian))", "registry.New",
                  "GetConstants", "NewMiMC.SetState.Write.Sum", "NewMiMC.Write.State", "NewMiMC.WriteString.Sum"):
            out.append("cold_start:mimc/%s:%s" % (c, e))
    dflt = {"bls12-377": (2, 6, 26), "bls24-317": (2, 6, 40), "koalabear": (16, 6, 21), "babybear": (16, 8, 13), "goldilocks": (8, 6, 17)}
    second = {"koalabear": (24, 6, 21), "babybear": (24, 8, 21), "goldilocks": (12, 6, 17)}
    for c in _CURVES8 + ["koalabear", "babybear", "goldilocks"]:
        d, w = dflt.get(c, (2, 6, 50)), second.get(c, (3, 8, 56))
        for e in ("NewPermutation(%d,%d,%d).Permutation" % d, "NewPermutation(%d,%d,%d).Permutation" % w,
                  "NewPermutation(%d,4,3).Permutation" % d[0], "NewPermutationWithSeed.Permutation", "NewPermutation.Compress",
                  "NewMerkleDamgardHasher.Write.Sum", "registry.New", "GetDefaultParameters", "NewParameters"):
            out.append("cold_start:poseidon2/%s:%s" % (c, e))
    for f in ("koalabear", "babybear", "goldilocks", "bls12-377"):
        fast = "NewRSis(5,6,16,12).Hash" if f in ("goldilocks", "bls12-377") else "NewRSis(5,9,16,300).Hash"
        out += ["cold_start:sis/%s:NewRSis(5,3,8,10).Hash" % f, "cold_start:sis/%s:%s" % (f, fast)]
    return out


PROP = dict(
    rule=("one-shot cases: a (hash instance, constructor, parameter set, message) tuple with blocks from the field boundary "
          "lattice; streaming cases: one rapid history of Write/Sum/Reset/State/SetState/WriteString/re-split calls per case, "
          "non-trivial when it has >= 2 writes, or a Sum/State/SetState/Reset between writes, or an inadmissible write / "
          "invalid state, or a slice with poisoned spare capacity; SIS cases are non-trivial when more than one input length is "
          "hashed or a length is not a multiple of the polynomial size; distinct = distinct canonical case texts (hashed)"),
    assumptions=[
        "references (harness/internal/ref: mimc.go, poseidon2.go, sis.go, md.go) share no code with gnark-crypto; they use math/big, "
        "legacy Keccak-256 and blake2b from golang.org/x/crypto and SHA-256 from the standard library",
        "reference anchors: ecc/bn254/fr/mimc/test_vectors/vectors.json, the Plonky3 CSV vectors and HorizenLabs round constants shipped "
        "with field/babybear/poseidon2, the pinned permutation vectors of the koalabear/babybear/goldilocks package tests, the "
        "sage/python generated sis test_cases.json of all four sis packages, RFC 9380 K.1, hand-computed tiny instances",
        "MiMC exponent d, number of rounds and seed string per curve, Poseidon2 default parameters, seed-string format and the goldilocks "
        "internal diagonals are transcribed from the package sources/comments (they are the documented parameters); the S-box degree of "
        "Poseidon2 is cross-checked with DegreeSBox(), MiMC constants with GetConstants()",
        "Merkle-Damgard wrapper: a short final block of a Write is zero-padded on the left (as implemented and as the MiMC package "
        "documents for short values; the doc comment only says 'zero-padded')",
        "hasher families driven by the streaming, instances and cold-start jobs (all in the quick tier): MiMC of bn254, bls12-377, "
        "bls12-381, bls24-315, bls24-317, bw6-633, bw6-761, grumpkin (constructors: default, WithByteOrder(BigEndian), "
        "WithByteOrder(LittleEndian), registry id) and the Poseidon2 Merkle-Damgard hashers of the same eight curves plus koalabear, "
        "babybear, goldilocks (constructors: NewMerkleDamgardHasher, registry id) - 19 families, every package with a mimc/poseidon2 hasher",
        "a refused Write does not end the history: the model keeps what the tree documents as accepted - MiMC: nothing of the refused "
        "call ('do not keep a partially absorbed input'), n=0; Merkle-Damgard wrapper: the blocks before the refused one are absorbed "
        "and counted in n (io.Writer); a refused MiMC SetState leaves the hasher unchanged",
        "SIS limbs are scaled by 2^-(8*Bytes) exactly as the shipped sage/python generators specify ('careful Montgomery constant')",
        "amd64 host with AVX-512: the vectorised Poseidon2/SIS kernels are the code under test for their parameter sets; other "
        "configurations are decided by C09",
    ],
    mandatory_all=["write:empty", "write:short", "write:one", "write:multi", "write:nonmultiple", "write:noncanonical",
                   "write:spare_capacity_poison", "write:admissible=false", "sum:nil", "sum:prefix", "sum:prefix_block", "sum:prefix_spare",
                   "op:reset", "op:state", "op:resplit", "op:writestring", "resplit:other_ctor", "setstate:saved", "setstate:canonical",
                   "setstate:bad_length", "setstate:noncanonical", "ctor:registry", "ctor:LE", "ctor:direct", "noncanonical:q",
                   "noncanonical:2^8n-1", "blocks:0", "blocks:1", "blocks:>4", "elem:special", "elem:mont_limbs",
                   "t=2", "t=3", "t=8", "t=12", "t=16", "t=24", "unsupported_width", "seeded", "params:default_or_fastpath",
                   "compress_bad:noncanonical", "compress_bad:short", "compress_odd_width", "rp=0",
                   "bound=8", "bound=16", "bound=32", "bound=64", "logDeg=1", "logDeg=9", "fastpath_params", "every_length",
                   "sampled_lengths", "max>256", "ctor_rejects_bound", "id", "sis_sage_koalabear", "poseidon2_plonky3_csv",
                   "mimc_bn254_vectors_json",
                   # every slice input also comes as the prefix of a larger array with a poisoned tail, per hash family
                   "mimc:spare_capacity_poison", "perm:spare_capacity_poison", "compress:spare_capacity_poison",
                   "sis:spare_capacity_poison", "sis:spare+fastpath+len%256!=0", "sis:spare+len_not_multiple_of_poly",
                   "setstate:spare_capacity_poison",
                   # independent instances: two or more hashers through the same constructor, interleaved
                   "instances:package_ctor", "instances:new_midway", "instances:n=3", "instances:n=4",
                   "instances:second_obtained_after_write"]
                  + ["instances:registry:MIMC_" + c.upper().replace("-", "_") for c in _CURVES8]
                  + ["instances:registry:POSEIDON2_" + c.upper().replace("-", "_") for c in _CURVES8 + ["koalabear", "babybear", "goldilocks"]]
                  # per hasher family: a refused Write while accepted data is pending, then the stream continues; every slice
                  # returned by Sum/State kept across later calls (on all instances), scribbled over and appended to
                  + ["%s:%s" % (c, f) for c in ("refused_write_with_pending_data", "sum_nil_kept_across_calls", "returned_scribbled")
                     for f in MIMC + P2]
                  + ["sum:prefix_exact"]
                  + _cold_classes(),
    jobs=[
        dict(name="anchors", pkg="c14", run="^TestC14_Anchors$", rapid=False),
        # regressions of the defects found (F9, F10, F61, F62), the registry, and the seed corpus of the fuzz target (no fuzzing)
        dict(name="regress", pkg="c14", run="^(TestC14_Regress|TestC14_Registry|FuzzC14_.*)$", rapid=False),
        # every exported entry point of every hash package as the FIRST use of its package in a fresh child process:
        # cold result == reference model == result after the lazy initialisation was forced through the other paths
        dict(name="coldstart", pkg="c14", run="^TestC14_ColdStart$", rapid=False, weight=4),
        dict(name="mimc", pkg="c14", run="^TestC14_MiMC_OneShot$", shards=MIMC, checks=(1500, 20000)),
        dict(name="p2perm", pkg="c14", run="^TestC14_Poseidon2_Perm$", shards=P2, checks=(1500, 20000)),
        dict(name="sis", pkg="c14", run="^TestC14_SIS$", shards=SIS, checks=(600, 8000), seeds=(2, 4)),
        dict(name="stream", pkg="c14", run="^TestC14_Stream$", shards=MIMC + P2, checks=(1000, 30000)),
        # two to four hashers obtained through the same constructor (registry id or package constructor), interleaved calls with
        # different messages, further instances obtained mid-way: each keeps the digest of its own stream
        dict(name="instances", pkg="c14", run="^TestC14_Instances$", shards=MIMC + P2, checks=(300, 5000)),
        # white-box only in the sense that it must live in a binary importing nothing but hash/all: what does hash/all register?
        dict(name="all", kind="overlay", pkg="hash/all", run="^TestVerifC14_AllRegistered$", rapid=False),
        # thorough tier only: time-boxed coverage-guided native fuzzing of the Write/Sum/State byte paths, oracle inside the target
        dict(name="fuzz-write", pkg="c14", run="^TestC14_NativeFuzz$", rapid=False, tiers=("thorough",), timeout=(900, 900),
             env=dict(VERIF_C14_FUZZTIME="120s"), weight=5),
    ],
)

PROP.update(
    technique=("property-based testing (rapid): one-shot differential against independent reference models of MiMC / Poseidon2 / "
               "ring-SIS / Merkle-Damgard, and model-based state machines over the streaming API of all 19 registered hashers"),
    level_text=("Generated-input search: every MiMC, Poseidon2 (permutation, compression, Merkle-Damgard wrapper) and ring-SIS instance is "
                "compared with a reference written from the specification (itself anchored on shipped third-party vectors), and every "
                "streaming hasher is driven through generated call histories against a sequential model (split independence, Sum "
                "idempotence/append semantics, Reset, State/SetState round trips, aliasing, inadmissible input => error without panic, "
                "poisoned spare capacity). Exploration, not proof: the right level for functions over 2^254-element block spaces and "
                "unbounded call histories whose failures cluster at block/length boundaries that the generators construct."),
    level_note="trusts math/big, x/crypto Keccak/blake2b and the transcribed documented parameters; arm64/purego paths are C09's",
)
