"""Shared lists for the per-property job tables."""


CURVES = ["bn254", "bls12-377", "bls12-381", "bls24-315", "bls24-317", "bw6-633", "bw6-761",
          "secp256k1", "stark-curve", "grumpkin"]
PAIRING = CURVES[:7]
FIELDS = [c + "/" + f for c in CURVES for f in ("fp", "fr")] + ["goldilocks", "koalabear", "babybear"]

