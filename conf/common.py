"""Shared lists for the per-property job tables."""


CURVES = ["bn254", "bls12-377", "bls12-381", "bls24-315", "bls24-317", "bw6-633", "bw6-761",
          "secp256k1", "stark-curve", "grumpkin"]
PAIRING = CURVES[:7]
FIELDS = [c + "/" + f for c in CURVES for f in ("fp", "fr")] + ["goldilocks", "koalabear", "babybear"]


# field name -> package path inside /repo
FIELD_PKG = {f: ("ecc/" + f if "/" in f else "field/" + f) for f in FIELDS}


def has_func(pkg, signature):
    """True if a non-test Go file of /repo/<pkg> contains the given text (used to plan white-box jobs)."""
    import glob, os
    repo = os.environ.get("VERIF_REPO", "/repo")
    for f in glob.glob(os.path.join(repo, pkg, "*.go")):
        if not f.endswith("_test.go") and signature in open(f).read():
            return True
    return False
