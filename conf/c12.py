"""C12 job table: EdDSA and ECDSA — every honest signature verifies, nothing else does."""
from conf.common import *  # noqa

ECDSA_CORE = ["secp256k1", "bn254", "bls12-381", "bw6-761"]
ECDSA_REST = [c for c in CURVES if c not in ECDSA_CORE]
RECOVER = ["secp256k1", "bn254", "stark-curve"]
EDDSA_ALL = ["bn254/twistededwards", "bls12-377/twistededwards", "bls12-381/twistededwards", "bls12-381/bandersnatch",
             "bls24-315/twistededwards", "bls24-317/twistededwards", "bw6-633/twistededwards", "bw6-761/twistededwards"]
EDDSA_CORE = ["bn254/twistededwards", "bls12-381/twistededwards", "bls12-381/bandersnatch"]
EDDSA_REST = [c for c in EDDSA_ALL if c not in EDDSA_CORE]


def _cold_classes():
    """Class labels of TestC12_ColdStart: one per (package, entry point), see harness/c12/coldstart_test.go."""
    out = ["coldstart"]
    common = ["PublicKey.SetBytes", "PrivateKey.SetBytes", "Signature.SetBytes", "Verify", "Verify(corrupted)", "GenerateKey", "Sign+Verify"]
    for c in CURVES:
        es = common + ["HashToInt"] + (["RecoverFrom", "SignForRecover+RecoverFrom"] if c in RECOVER else [])
        out += ["coldstart:ecdsa/%s:%s" % (c, e) for e in es]
    for c in EDDSA_ALL:
        out += ["coldstart:eddsa/%s:%s" % (c, e) for e in common]
    return out


def _sh(prefix, names):
    return [dict(name=n.replace("/", "_"), inst="^%s/%s$" % (prefix, n.replace(".", r"\."))) for n in names]


PROP = dict(
    rule=("one case = one candidate (public key, signature string, message, hash) decided both by the library's Verify and by "
          "an independent implementation of the verification equation (ECDSA: SEC 1 4.1.4 on ref.Curve; EdDSA: the documented "
          "cofactored equation on ref.Edwards with the documented range checks); candidates are honest signatures (library "
          "signer and a reference signer with a drawn nonce) and ~40 mutation/forgery classes per scheme; a case is non-trivial "
          "when the candidate is not an honest triple, or the message is empty / multi-block / longer than the hash block, or the "
          "key went through its byte encoding; recovery cases: RecoverFrom compared with SEC 1 4.1.6 on the reference curve; "
          "HashToInt cases: compared with FIPS 186-4 bits2int; volume cases: honest (key, counter message) pairs verified "
          "under the deserialised public key; aliasing cases: scribble histories on keys/signatures; history cases: call sequences on one shared hash object; distinct = distinct (instance, hash, key, signature, message) hashes"),
    assumptions=[
        "reference = harness/internal/ref (ref.Curve / ref.Edwards / ref.MiMC over math/big, no gnark-crypto code); SHA-2 from the Go standard library",
        "all keys come from rapid-drawn seeds through a deterministic io.Reader, or from SetBytes of generated encodings; the ECDSA signer draws its "
        "nonce from crypto/rand, so library-made ECDSA signatures are used for their verdict only and every mutation starts from a reference-made "
        "signature with a rapid-drawn nonce (EdDSA signing is deterministic)",
        "ECDSA: the integer e is the library's HashToInt of the digest (its deviation from FIPS 186-4 is decided separately by the HashToInt check, finding F13)",
        "ECDSA without a hash: the message is the digest (documented in signature.PublicKey); RecoverFrom is given the digest",
        "no low-s rule is documented: (r, n-s) is asserted valid like the textbook equation says",
        "the point at infinity as an ECDSA public key is not excluded by any doc comment: only agreement of Verify with the equation is asserted",
        "EdDSA: documented extra strictness is mirrored (R.y = 0 and S = 0 are refused by Signature.SetBytes)",
        "MiMC messages: empty, shorter than a block (documented left padding) or whole blocks; blocks >= q must give an error; other lengths are not generated (C14, F9)",
        "ecc/bls12-381/bandersnatch/eddsa imports (and documents) the curve of ecc/bls12-381/twistededwards; it is checked against that curve",
        "volume job: the EdDSA reference signer uses the documented nonce blake2b-512(randSrc || M)[:size] and compares S byte for byte on every "
        "message, R = [r]B and the full equation on a subsample and on every signature with >= 2 leading zero bytes; ECDSA signing mixes "
        "crypto/rand entropy, so there only the verdict (and the reference equation on a subsample) is used",
        "history clause: Sign, SignForRecover and Verify of every package call Reset() on the hash before writing and no doc comment asks the caller "
        "to hand in a clean object, so a shared hash.Hash object may be dirty (caller Write/Sum, a previous Verify, a failed MiMC Write) when it is "
        "passed in; every signature made on the shared object must verify with a fresh object and satisfy the reference equation, every Verify "
        "verdict on the shared object must equal the fresh-object verdict and the reference verdict",
        "cold-start clause: one fresh child process per (package, entry); the child's first library call is the entry (public keys for Verify are "
        "assembled from coordinates through the field setters, inputs are bytes made beforehand by the parent and cross-checked against the reference "
        "equation); cold answer = answer after warming the package through all other paths = expectation built from the stored bytes; signatures of a "
        "cold ECDSA signer are decided by the reference equation; package init() functions of all imported library packages have run (Go semantics)",
        "aliasing clause: SHA-256 only; after every scribble step the source key must serialise identically, and at the end sign for its original "
        "public key (library Verify and reference equation) and agree with a copy reloaded from the saved bytes",
        "public-key recovery exists only in the secp256k1, bn254 and stark-curve packages",
    ],
    jobs=[
        dict(name="ecdsa", pkg="c12", run="^TestC12_ECDSA$", shards=_sh("ecdsa", ECDSA_CORE), checks=(60, 1000), weight=3),
        dict(name="ecdsa_rest", pkg="c12", run="^TestC12_ECDSA$", shards=_sh("ecdsa", ECDSA_REST), checks=(14, 250)),
        dict(name="eddsa", pkg="c12", run="^TestC12_EdDSA$", shards=_sh("eddsa", EDDSA_CORE), checks=(60, 1000), weight=3),
        dict(name="eddsa_rest", pkg="c12", run="^TestC12_EdDSA$", shards=_sh("eddsa", EDDSA_REST), checks=(14, 250)),
        dict(name="recover", pkg="c12", run="^TestC12_Recover$", shards=_sh("ecdsa", RECOVER), checks=(50, 800)),
        dict(name="hashtoint", pkg="c12", run="^TestC12_HashToInt$", checks=(400, 8000)),
        # high-volume honest signing (rapid-free, fixed key per VERIF_SEED, counter messages, SHA-256): N per instance is
        # max(base, 6/p), p = P(a component has >= 2 leading zero bytes); split over VERIF_SHARD processes
        dict(name="vol_eddsa", pkg="c12", run="^TestC12_HonestVolume_EdDSA$", rapid=False, shards=_sh("eddsa", EDDSA_ALL), seeds=(2, 8),
             timeout=(900, 3600)),
        dict(name="vol_ecdsa_wide", pkg="c12", run="^TestC12_HonestVolume_ECDSA$", rapid=False,
             shards=_sh("ecdsa", ["secp256k1", "bls12-381", "bls24-317"]), seeds=(8, 16), timeout=(900, 3600)),
        dict(name="vol_ecdsa_mid", pkg="c12", run="^TestC12_HonestVolume_ECDSA$", rapid=False,
             shards=_sh("ecdsa", ["bn254", "grumpkin", "bls12-377", "bls24-315"]), seeds=(3, 8), timeout=(900, 3600)),
        dict(name="vol_ecdsa", pkg="c12", run="^TestC12_HonestVolume_ECDSA$", rapid=False,
             shards=_sh("ecdsa", ["stark-curve", "bw6-633", "bw6-761"]), seeds=(1, 4), timeout=(900, 3600)),
        dict(name="history_ecdsa", pkg="c12", run="^TestC12_History_ECDSA$", shards=_sh("ecdsa", CURVES), checks=(20, 300)),
        dict(name="history_eddsa", pkg="c12", run="^TestC12_History_EdDSA$", shards=_sh("eddsa", EDDSA_ALL), checks=(20, 300)),
        dict(name="alias_ecdsa", pkg="c12", run="^TestC12_Alias_ECDSA$", checks=(25, 400)),
        dict(name="alias_eddsa", pkg="c12", run="^TestC12_Alias_EdDSA$", checks=(25, 400)),
        # every entry point as the FIRST use of its package in a fresh process (one child process per entry)
        dict(name="coldstart", pkg="c12", run="^TestC12_ColdStart$", rapid=False, weight=4),
        dict(name="regress", pkg="c12", run="^TestC12_(Regress.*|Probe.*|Anchor.*|Dispatch)$", rapid=False),
    ],
    mandatory_all=[
        "honest_lib", "honest_ref", "key:from_bytes", "msg:empty", "msg:longer_than_block", "msg:multi_block",
        "hash:nil", "hash:sha256", "hash:sha512", "hash:mimc",
        "verdict:accept", "verdict:reject", "verdict:error",
        # ECDSA
        "sig_bitflip", "r_zero", "s_zero", "r_eq_n", "s_eq_n", "r_n_plus_1", "s_n_plus_1", "r_plus_n", "s_negated", "swapped_halves",
        "len_minus_1", "len_plus_1", "R_infinity", "xR_ge_n", "xR_ge_n_unreduced_r", "msg_mutated", "pk_bitflip", "pk_offcurve",
        "pk_not_in_subgroup", "pk_infinity", "pk_other",
        "recover_honest_lib", "recover_honest_ref", "v_parity_flipped", "x_overflow_constructed", "recover:error",
        # EdDSA
        "sig_bitflip_R", "sig_bitflip_S", "S_zero", "S_eq_l", "S_l_plus_1", "S_plus_l", "R_offcurve", "R_noncanonical_y",
        "R_small_order", "R_plus_torsion_resigned", "R_signbit_x0", "pk_noncanonical_y", "pk_small_order", "pk_plus_torsion",
        "leading_zero_bit",
        # (cold-start classes are appended below)
        # one hash object shared by a sequence of calls
        "history:shared_hash_object", "history:verify_then_sign", "history:dirty_hash_before_sign", "hstep:sign_for_recover",
        "hstep:caller_write", "hstep:verify_inadmissible",
        # volume and aliasing
        "volume_honest_eddsa", "volume_honest_ecdsa", "sig:leading_zero_bytes>=1", "sig:leading_zero_bytes>=2", "S:leading_zero_bytes>=2",
        "alias:public_of_private", "alias:public_of_private_invalid", "alias:bytes_slice", "alias:setbytes_input", "alias:public_of_loaded",
    ],
)

PROP["mandatory_all"] += _cold_classes()

PROP.update(
    technique=("property-based testing (rapid): accept-iff-equation differential between the library verifiers and independent math/big "
               "implementations of the ECDSA and EdDSA verification equations, over honest signatures and constructed forgery/mutation classes; "
               "18 scheme instances"),
    level_text=("Generated-input search with an independent oracle in both directions: every candidate is decided by the textbook equation on a "
                "naive affine reference curve and the library must return exactly that verdict (true / false / error), so a verifier that accepts "
                "more than the equation, less than it, or errs on well-formed input is caught on the classes the generator constructs (range "
                "boundaries, malleability twins, x(R) >= n, commitment at infinity, small-order and torsion-shifted points, non-canonical and "
                "off-curve encodings, single-bit mutations). Exploration, not proof: the input space is 2^500+ per instance."),
    level_note="trusts math/big, crypto/sha256/sha512, x/crypto Keccak (MiMC constants) and the reference curve models; ECDSA e = library HashToInt",
)
