"""C02 job table: the group law in every coordinate system, exact predicates."""
from conf.common import *  # noqa

G1 = [c + "/G1" for c in CURVES]
G2_FAST = [c + "/G2" for c in ("bn254", "bls12-377", "bls12-381", "bw6-633", "bw6-761")]
G2_E4 = ["bls24-315/G2", "bls24-317/G2"]
EDWARDS = ["bn254/twistededwards", "bls12-377/twistededwards", "bls12-381/twistededwards", "bls12-381/bandersnatch",
           "bls24-315/twistededwards", "bls24-317/twistededwards", "bw6-633/twistededwards", "bw6-761/twistededwards"]
# cofactor 1 (Hasse bound): no curve point outside the subgroup exists
PRIME_ORDER = {"bn254/G1", "secp256k1/G1", "stark-curve/G1", "grumpkin/G1"}

_LAW = ["P=O", "Q=O", "P=Q", "P=-Q", "Z!=1", "same_pt_diff_rep"]
_MAND = []
for _g in G1 + G2_FAST + G2_E4:
    _MAND += ["%s|%s" % (_g, c) for c in _LAW + ["off_curve", "inf_zero_value_operand", "rep_000"]]
    if _g not in PRIME_ORDER:
        _MAND.append(_g + "|non_subgroup")
for _e in EDWARDS:
    _MAND += ["%s|%s" % (_e, c) for c in _LAW + ["off_curve", "non_subgroup"]]

PROP = dict(
    rule=("rapid-generated pairs (P,Q) of curve points built by the reference model (subgroup points [k]G with k on the integer "
          "lattice, lifted abscissae/ordinates from the field boundary lattice, cofactor-group points [r]R, order-3/order-2 points, "
          "sums of these) with Q in {O, P, -P, 2P, independent}, Jacobian/projective/extended representatives with Z from the "
          "field lattice and the infinity encodings (1,1,0) (library), (t^2,t^3,0) and the zero value (0,0,0) (also as an explicit operand on either "
          "side of every binary Jacobian entry point in every case); a case is non-trivial when it hits one of: P=O, Q=O, P=Q, P=-Q, a Z!=1 "
          "representative, the identity as (0,0,0), the same point in two different representatives, a curve point outside the prime-order subgroup or a "
          "point off the curve given to a predicate; distinct = distinct (group, points, representatives) hashes"),
    assumptions=["reference = affine chord-and-tangent / unified Edwards law over math/big towers (harness/internal/ref, no gnark-crypto code); "
                 "curve constants transcribed from the package docs and validated (generator on curve, [r]G=O, r prime)",
                 "IsOnCurve on Jacobian Z=0 representatives is asserted only when Y^2=X^3 (DESIGN §11)",
                 "IsInSubGroup oracle = on curve and [r]P=O by reference double-and-add (subgroup membership of [k]G follows from [r]G=O)",
                 "on the incomplete curve bandersnatch (a non-square) pairs whose affine unified law has a vanishing denominator are skipped (class exceptional_unified_*)",
                 "F41 (bw6-633 G1 / bw6-761 G2 IsInSubGroup accepts order-3 components) is excluded by construction when listed as known; the probe re-observes it"],
    mandatory_all=_MAND + ["hugebatch", "hugebatch:n/NumCPU>4096=true"],
    jobs=[
        dict(name="law", pkg="c02", run="^TestC02_Law$", shards=G1, checks=(1000, 20000), timeout=(900, 3600)),
        dict(name="law2", pkg="c02", run="^TestC02_Law$", shards=G2_FAST, checks=(600, 12000), timeout=(900, 3600)),
        dict(name="law4", pkg="c02", run="^TestC02_Law$", shards=G2_E4, checks=(300, 4000), timeout=(900, 3600), seeds=(2, 4)),
        # the same law on the other code paths of the coordinate fields: ADX off (mulGenericE2/squareGenericE2 fallbacks of the
        # tower assembly) and -tags purego (portable base field); C09 compares the variants operation by operation, these jobs
        # decide the group law itself on them
        dict(name="law-noadx", pkg="c02", run="^TestC02_Law$", shards=G1 + G2_FAST + G2_E4, checks=(200, 3000), env={"GODEBUG": "cpu.adx=off"},
             timeout=(900, 3600)),
        dict(name="law-purego", pkg="c02", run="^TestC02_Law$", shards=G1 + G2_FAST + G2_E4, checks=(200, 3000), tags="purego",
             timeout=(900, 3600)),
        dict(name="edlaw-noadx", pkg="c02", run="^TestC02_EdLaw$", shards=EDWARDS, checks=(300, 5000), env={"GODEBUG": "cpu.adx=off"},
             timeout=(900, 3600)),
        dict(name="edlaw-purego", pkg="c02", run="^TestC02_EdLaw$", shards=EDWARDS, checks=(300, 5000), tags="purego",
             timeout=(900, 3600)),
        dict(name="pred", pkg="c02", run="^TestC02_Pred$", shards=G1, checks=(1000, 20000), timeout=(900, 3600)),
        dict(name="pred2", pkg="c02", run="^TestC02_Pred$", shards=G2_FAST, checks=(600, 12000), timeout=(900, 3600)),
        dict(name="pred4", pkg="c02", run="^TestC02_Pred$", shards=G2_E4, checks=(300, 4000), timeout=(900, 3600), seeds=(2, 4)),
        dict(name="edlaw", pkg="c02", run="^TestC02_EdLaw$", shards=EDWARDS, checks=(2000, 40000), timeout=(900, 3600)),
        dict(name="edpred", pkg="c02", run="^TestC02_EdPred$", shards=EDWARDS, checks=(1500, 30000), timeout=(900, 3600)),
        # batches around k*NumCPU*4096 points: every slot of BatchJacobianToAffine against its input's reference image (chunking of the
        # shared parallel helper depends on len/NumCPU and on the remainders)
        dict(name="hugebatch", pkg="c02", run="^TestC02_HugeBatch$", shards=G1 + G2_FAST + G2_E4, rapid=False, timeout=(900, 3600)),
        dict(name="regress", pkg="c02", run="^TestC02_Regress", rapid=False),
        dict(name="regress_uninit", pkg="c02/uninit", run="^TestC02_RegressF52$", rapid=False),
        # every Edwards point method, each in a fresh child process: cold call == warm call (lazy-init on every path)
        dict(name="coldstart", pkg="c02/uninit", run="^TestC02_ColdStart$", rapid=False),
        dict(name="probe", pkg="c02", run="^TestC02_ProbeF41$", rapid=False),
        # white-box (optional: a build failure degrades to the black-box part): extended-Jacobian bucket arithmetic
        dict(name="wb.bn254", kind="overlay", pkg="ecc/bn254", run="^TestVerifC02_", checks=(600, 10000), optional=True),
        dict(name="wb.bls12-381", kind="overlay", pkg="ecc/bls12-381", run="^TestVerifC02_", checks=(400, 6000), optional=True),
        dict(name="wb.bw6-761", kind="overlay", pkg="ecc/bw6-761", run="^TestVerifC02_", checks=(300, 4000), optional=True),
        dict(name="wb.secp256k1", kind="overlay", pkg="ecc/secp256k1", run="^TestVerifC02_", checks=(600, 10000), optional=True),
        dict(name="wb.stark-curve", kind="overlay", pkg="ecc/stark-curve", run="^TestVerifC02_", checks=(600, 10000), optional=True),
    ],
)

PROP.update(
    technique=("property-based testing (rapid) against an independent affine reference model of each curve; constructive generators for "
               "special pairs, representatives and non-members; white-box overlay for the unexported extended-Jacobian bucket arithmetic"),
    level_text=("Generated-input search: every exported group-law entry point and predicate of G1/G2 of the 10 curves and of the 8 "
                "twisted-Edwards companions is compared with a textbook affine model on constructed pairs that hit the exceptional "
                "branches (identity, equal, opposite, rescaled representatives, non-members). Exploration, not proof."),
    level_note="trusts math/big, the transcribed-and-validated curve constants and the reflective adapters",
)
