"""C08 job table: field-element conversions round-trip; strict decoders reject non-canonical input."""
from conf.common import *  # noqa

PROP = dict(
    rule=("rapid-generated conversion cases per field (23 fields) plus deterministic sweeps. Values come from the shared two-domain limb "
          "lattice and from the boundaries of the conversions themselves (q-k for k around 1..65537, 2^(8k)+-1, 2^(limb k)+-1, 2^64 and "
          "10^15 neighbourhoods, top-byte patterns); integers of any sign up to 4x (thorough 16x) the limb width incl. exact multiples "
          "of q; byte strings of length 0..2*Bytes+1 and longer; exact-length encodings concentrated on the acceptance boundary of the "
          "modulus comparison (q-2..q+2, 2^(8*Bytes)-1, 2^bits, and for every limb and every byte position the strings equal to q above "
          "it and +-1 / 0 / max at it); numerals with sign, base prefix, digit case and underscores; malformed text/JSON; vector streams "
          "of every length 0..300 with an invalid entry at every position, cuts at every offset, over-announced length prefixes "
          "(capped at 2^22) and six reader behaviours. A case is NON-TRIVIAL when the value or byte string lies on a boundary "
          "(>= q, within 4 of 0 or q, a small negative, a 2^(8k)/limb boundary, length != Bytes, negative, multiple of q), the text is "
          "malformed or uses sign/underscore/prefix variants, or the vector stream carries an invalid entry, a cut, a wrong prefix, "
          "trailing bytes, a non-trivial reader or has length 0; fault sweeps (a sink failing permanently / once / partially / with a short write at every Write call for lengths 0..40 and at sampled calls for lengths up to 1100, and a reader failing once at every Read call) count each run once; every history case (2-4 conversions that return a slice/string/big.Int/array, "
          "called on different values before any earlier result is compared, decoded, then scribbled over) is non-trivial. distinct = distinct (field, operation, input) hashes; the sweeps "
          "count each enumerated stream / encoding once."),
    assumptions=["reference = math/big only (big-endian integer interpretation, v mod q, a numeral parser written from the SetString doc comment "
                 "and cross-checked against math/big's base-0 parser; disagreeing inputs are not asserted)",
                 "FitsOnOneWord and BitLen are asserted on the stored limbs (documented 'caller converts from Montgomery form' convention, "
                 "which the package's own test follows) and on regular-form limbs against the integer; Uint64 only when IsUint64",
                 "Text(base) outside 2..36 panics by documentation and is not generated; Text(16) has no prefix, the round trip goes through SetString(\"0x\"+s)",
                 "UnmarshalJSON: asserted are 'numeral or quoted numeral of at most 3*Bits characters is accepted with the residue' and "
                 "'whatever is accepted denotes a number and decodes to its residue'; null, unbalanced quotes and over-long inputs must only not panic",
                 "SetInterface: types handled by the implementation but absent from the documented list (uint8..int64) are only required to give the right value when accepted",
                 "length prefixes above 2^22 elements are not generated (the decoders allocate the announced length before reading: allocator/OS dependent)",
                 "state of the receiver after a failed strict decode is not asserted (undocumented), except SetString's documented 'leaves z unchanged'"],
    mandatory_all=["enc=q", "enc=q+1", "enc=q-1", "enc=2^(8B)-1", "len=0", "len=2B+1", "len>2B+1", "int<0", "int=0 mod q",
                   "bad=q", "bad=q+1", "bad=2^(8B)-1", "bad@first", "bad@last", "bad@middle", "n=0",
                   "trunc:in_prefix", "trunc:element_boundary", "trunc:inside_element", "mut:prefix_larger",
                   "reader:onebyte", "reader:chunks", "reader:dataerr", "setstring:rejected", "json:rejected", "iface:unsupported",
                   "v=-uint16", "json:string", "json:number",
                   "history:results_outlive_later_calls", "history:same_conversion_twice",
                   "sweep:sink_once", "sweep:sink_perm", "sweep:sink_partial", "sweep:sink_short", "sweep:reader_fail_once", "sink:once"],
    jobs=[
        dict(name="roundtrip", pkg="c08", run="^TestC08_RoundTrip$", shards=FIELDS, checks=(4000, 60000)),
        dict(name="lenient", pkg="c08", run="^TestC08_Lenient$", shards=FIELDS, checks=(6000, 100000)),
        dict(name="strict", pkg="c08", run="^TestC08_Strict$", shards=FIELDS, checks=(6000, 100000)),
        dict(name="text", pkg="c08", run="^TestC08_Text$", shards=FIELDS, checks=(4000, 60000)),
        dict(name="vector", pkg="c08", run="^TestC08_VectorCodec$", shards=FIELDS, checks=(2500, 40000)),
        # history dimension ("results stay valid"); never run this job with race=True (sync.Pool drops items at random under -race)
        dict(name="history", pkg="c08", run="^TestC08_History$", shards=FIELDS, checks=(2500, 40000)),
        dict(name="sweep", pkg="c08", run="^TestC08_(VectorSweep|TruncSweep|StrictSweep|FaultSweep)$", shards=FIELDS, rapid=False, weight=3),
        # regression + documented nil-receiver behaviour + the seed corpus (hostile constants) of the fuzz targets, no fuzzing
        dict(name="fixed", pkg="c08", run="^(TestC08_(NilReceiver|RefParseSelfCheck|Regress.*)|FuzzC08_.*)$", rapid=False),
        # thorough tier only: time-boxed coverage-guided native fuzzing with the oracle inside the target. The driver's binaries
        # carry no fuzz instrumentation, so TestC08_NativeFuzz runs `go test -fuzz` on the package in a child process.
        dict(name="fuzz-setbytes", pkg="c08", run="^TestC08_NativeFuzz$", rapid=False, tiers=("thorough",), timeout=(900, 900),
             env=dict(VERIF_C08_FUZZ="FuzzC08_SetBytesCanonical", VERIF_C08_FUZZTIME="90s"), weight=5),
        dict(name="fuzz-vector", pkg="c08", run="^TestC08_NativeFuzz$", rapid=False, tiers=("thorough",), timeout=(900, 900),
             env=dict(VERIF_C08_FUZZ="FuzzC08_VectorReadFrom", VERIF_C08_FUZZTIME="90s"), weight=5),
    ],
)

PROP.update(
    technique=("property-based testing (rapid) of every conversion of all 23 fields against math/big, acceptance-boundary generators for "
               "the strict decoders, exhaustive (length, position) sweeps of the vector codec with hostile readers"),
    level_text=("Generated-input search with an explicit oracle: each outward conversion is compared with the math/big rendering of the "
                "element's integer, each lenient setter with v mod q, and each strict decoder (SetBytesCanonical, ByteOrder.Element, "
                "Vector.ReadFrom / AsyncReadFrom / UnmarshalBinary) with the predicate 'exact length and integer < q' in both directions, "
                "including the reported byte counts. The acceptance boundary (one comparison per limb) and the (vector length, position of "
                "the invalid entry) space up to 300 are enumerated completely; the rest of the universally quantified input space is explored, not proved."),
    level_note="trusts math/big and the harness adapters; length prefixes above 2^22 and 32-bit platforms (setBigInt word splitting) are not exercised",
)
