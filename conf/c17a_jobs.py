"""C17 part A (pairing-based schemes): job list for the vf driver. The lead merges JOBS / RULE / ASSUMPTIONS into conf/c17.py."""

CORE = ["bn254", "bls12-381", "bls24-315", "bw6-761"]
ALL = ["bn254", "bls12-377", "bls12-381", "bls24-315", "bls24-317", "bw6-633", "bw6-761"]


NONCORE = [c for c in ALL if c not in CORE]


def _curves(tier):
    # quick: the 4 core curves at full counts here, the 3 others at half counts through the "*.nc" jobs below
    return CORE if tier == "quick" else ALL


RULE = ("part A (Pedersen PoK, SHPLONK, fflonk, mpcsetup update proofs, kzg.MpcSetup): a case is one verifier call on (i) an honest proof of a "
        "rapid-drawn admissible statement, (ii) a deep copy of it with one reflectively discovered component (field element, G1/G2 point, byte "
        "string, integer, slice length; unexported fields included) replaced by {random, zero/identity, the same component of another honest proof, "
        "+1 / +generator, negation, + a point of order coprime to r}, or (iii) a statement/proof assembled by the harness from known discrete "
        "logarithms (accepting and near-miss, multi-component forgeries); non-trivial = every forged/tampered/trapdoor-made case, and honest cases of "
        "minimal or non-power-of-two size; (iv) history cases: a key / SRS / proof / ceremony object is used, reloaded with other material through its own "
        "ReadFrom / UnsafeReadFrom (or field assignment where the fields are plain exported data) and used again — every verdict must be the oracle's for the "
        "new material and equal to a freshly constructed object's; distinct = distinct (scheme, curve, statement, site, mutation) hashes")

ASSUMPTIONS = [
    "part A oracle = the verifier's pairing equation evaluated as a scalar identity mod r in math/big: the harness creates every setup itself "
    "(kzg.NewSRS(size, tau), Pedersen keys from sigma, ceremony contributions from a known secret written into the unexported fields), remembers the "
    "logarithm of every group element it hands out, re-derives SHPLONK's challenges with the reference transcript over crypto/sha256, and "
    "recomputes the honest SHPLONK/fflonk proof points from the definition (the prover is deterministic)",
    "part A trusts: the library's scalar multiplication / Marshal / HashToG2 for building inputs (properties C03, C07, C13), math/big, crypto/sha256",
    "only forgery classes whose rejection is deterministic or fails with probability <= degree/r are asserted; tampered objects for which the "
    "relation still holds (constant polynomials, rho = 0, surplus claimed values, empty MpcSetup challenge) are asserted to be ACCEPTED",
    "documented non-checks are not asserted: KZG/SHPLONK/fflonk perform no subgroup check on digests and proof points; mpcsetup.UpdateProof.Verify "
    "does not subgroup-check the representations; components of kzg.MpcSetup that WriteTo/ReadFrom do not transport (Pk.G1[0], Vk.G2[0], Vk.G1, Vk.Lines) "
    "are tampered but not asserted",
    "verifier panics on length-tampered proofs (shplonk/fflonk index out of range) are counted as rejections and listed in the notes, not reported as violations",
    "known finding F15 (SHPLONK/fflonk claimed values not bound to the transcript): the adaptive joint-shift forgery class is excluded from the asserting "
    "generators while listed in known_findings.json; the probe TestC17a_ProbeF15 re-observes it on every run. The exclusion is pinned: the excluded object "
    "must satisfy the verifier's relation in the exponent, only its verdict is tolerated, and the same shift with the compensation off by one is asserted to be "
    "rejected (class adaptive_shift_miscompensated); every other forgery is decided by the exact relation oracle as before",
    "optional transcript data of shplonk/fflonk (the only part-A entry points with a dataTranscript argument; kzg's is C11's): proofs made with data A in "
    "{none, one, several, with an empty element, long} are verified with A and with every variant B (none vs some, one bit changed, byte dropped/appended, "
    "element added/dropped, elements swapped, split/merged/empty-element framings). The documented layout (data 'appended at the end of the original "
    "transcript', challenge = H(name || previous || bound values...)) makes the challenge a function of the concatenated bytes, so same-bytes framings are "
    "the same transcript (asserted accepted via the relation oracle) and every B with other bytes is asserted rejected, except for statements whose honest "
    "proof does not depend on the challenges at all (e.g. one polynomial of degree <= 1 at one point), which the relation oracle accepts",
    "SameRatioMany: a group in which no slice starts with a non-zero element is rejected whatever the argument order (the function documents and checks "
    "'need a nonzero representative in both groups'); otherwise acceptance = the bilinear same-ratio relation",
]

def _kind(name, run, q, t, **kw):
    """one job kind: core curves (quick) / all curves (thorough) at full counts + the non-core curves at half counts in quick"""
    return [dict(name=name, pkg="c17a", run=run, shards=_curves, checks=(q, t), timeout=(1500, 5000), **kw),
            dict(name=name + ".nc", pkg="c17a", run=run, shards=NONCORE, checks=(max(q // 2, 1), t), timeout=(1500, 5000), tiers=("quick",), **kw)]


JOBS = (
    _kind("a.pedersen", "^TestC17a_Pedersen(Batch|Setup)?$", 60, 600)
    + _kind("a.shplonk", "^TestC17a_Shplonk$", 70, 800)
    + _kind("a.fflonk", "^TestC17a_Fflonk$", 70, 800)
    + _kind("a.mpcupdate", "^TestC17a_MpcUpdate$", 60, 600)
    + _kind("a.sameratio", "^TestC17a_SameRatioMany$", 400, 5000)
    + _kind("a.kzgmpc", "^TestC17a_KzgMpcSetup$", 24, 300, weight=2)
    + _kind("a.kzgmpclib", "^TestC17a_KzgMpcSetupLib$", 30, 300)
    + [dict(name="a.history", pkg="c17a", run="^TestC17a_History$", shards=ALL, checks=(12, 120), timeout=(1500, 5000)),
       dict(name="a.regress", pkg="c17a", run="^TestC17a_(Regress.*|ProbeF15)$", rapid=False, timeout=(1500, 3000))]
)

# classes that every (complete) run must populate
MANDATORY = ["history:key_object_reloaded"] + ["history:key_object_reloaded:" + s for s in (
    "pedersen_vk", "pedersen_pk", "shplonk_srs", "fflonk_srs", "shplonk_proof", "fflonk_proof", "mpcsetup_proof", "kzg_mpcsetup")] + [
    # SameRatioMany: zero / identity substitutions per slice and per whole group, every argument order, the documented guard
    "srm_sub:" + s for s in ("zero_first_one_g1_slice", "zero_first_one_g2_slice", "zero_first_all_g1", "zero_first_all_g2",
                             "all_infinity_one_g1_slice", "all_infinity_one_g2_slice", "all_infinity_all_g1", "all_infinity_all_g2",
                             "all_infinity_both_groups")] + [
    "srm_order:all_g1_before_g2", "srm_order:all_g2_before_g1", "srm_order:interleaved", "srm_no_nonzero_first_element_in_a_group",
    # degenerate (identity) sides through UpdateProof.Verify and through the public kzg.MpcSetup.Verify path
    "forgery:identity_first_of_each_next_slice", "forgery:identity_all_g2_next", "forgery:identity_all_g1_next", "forgery:identity_all_prev",
    "forgery:identity_all_prev_and_next",
    "forgery:g2_all_infinity_g1_arbitrary", "forgery:g2_starts_with_infinity_g1_arbitrary", "forgery:degenerate_prev_g2_all_infinity_g1_arbitrary",
    "forgery:g1_all_infinity",
    # the neighbour of the known-finding class F15 that must stay rejected
    "adaptive_shift_miscompensated",
    # optional extra transcript data (dataTranscript ...[]byte) of shplonk and fflonk
    "extra_data:same_accept", "extra_data:different_reject", "extra_data:same_bytes_other_framing_accept",
    "extra_data:same_accept:shplonk", "extra_data:different_reject:shplonk", "extra_data:same_accept:fflonk", "extra_data:different_reject:fflonk",
    "extra_data_kind:none", "extra_data_kind:one_element", "extra_data_kind:several_elements", "extra_data_kind:empty_element", "extra_data_kind:long_element",
]
