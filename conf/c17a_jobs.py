"""C17 part A (pairing-based schemes): job list for the vf driver. The lead merges JOBS / RULE / ASSUMPTIONS into conf/c17.py."""

CORE = ["bn254", "bls12-381", "bls24-315", "bw6-761"]
ALL = ["bn254", "bls12-377", "bls12-381", "bls24-315", "bls24-317", "bw6-633", "bw6-761"]


def _curves(tier):
    return CORE if tier == "quick" else ALL


RULE = ("part A (Pedersen PoK, SHPLONK, fflonk, mpcsetup update proofs, kzg.MpcSetup): a case is one verifier call on (i) an honest proof of a "
        "rapid-drawn admissible statement, (ii) a deep copy of it with one reflectively discovered component (field element, G1/G2 point, byte "
        "string, integer, slice length; unexported fields included) replaced by {random, zero/identity, the same component of another honest proof, "
        "+1 / +generator, negation, + a point of order coprime to r}, or (iii) a statement/proof assembled by the harness from known discrete "
        "logarithms (accepting and near-miss, multi-component forgeries); non-trivial = every forged/tampered/trapdoor-made case, and honest cases of "
        "minimal or non-power-of-two size; distinct = distinct (scheme, curve, statement, site, mutation) hashes")

ASSUMPTIONS = [
    "part A oracle = the verifier's pairing equation evaluated as a scalar identity mod r in math/big: the harness creates every setup itself "
    "(kzg.NewSRS(size, tau), Pedersen keys from sigma, ceremony contributions from a known secret written into the unexported fields), remembers the "
    "logarithm of every group element it hands out, re-derives SHPLONK's challenges with the reference transcript over crypto/sha256, and "
    "recomputes the honest SHPLONK/fflonk proof points from the definition (the prover is deterministic)",
    "part A trusts: the library's scalar multiplication / Marshal / HashToG2 for building inputs (properties C03, C07, C13), math/big, crypto/sha256",
    "only forgery classes whose rejection is deterministic or fails with probability <= degree/r are asserted; tampered objects for which the "
    "relation still holds (constant polynomials, rho = 0, surplus claimed values, empty MpcSetup challenge) are asserted to be ACCEPTED",
    "documented non-checks are not asserted: KZG/SHPLONK/fflonk perform no subgroup check on digests and proof points; mpcsetup.UpdateProof.Verify "
    "does not subgroup-check the representations; components of kzg.MpcSetup that WriteTo/ReadFrom do not transport (Pk.G1[0], Vk.G2[0], Vk.G1, Vk.Lines) "
    "are tampered but not asserted",
    "verifier panics on length-tampered proofs (shplonk/fflonk index out of range) are counted as rejections and listed in the notes, not reported as violations",
    "known finding F15 (SHPLONK/fflonk claimed values not bound to the transcript): the adaptive joint-shift forgery class is excluded from the asserting "
    "generators while listed in known_findings.json; the probe TestC17a_ProbeF15 re-observes it on every run",
]

JOBS = [
    dict(name="a.pedersen", pkg="c17a", run="^TestC17a_Pedersen(Batch|Setup)?$", shards=_curves, checks=(60, 600), timeout=(1500, 5000)),
    dict(name="a.shplonk", pkg="c17a", run="^TestC17a_Shplonk$", shards=_curves, checks=(80, 800), timeout=(1500, 5000)),
    dict(name="a.fflonk", pkg="c17a", run="^TestC17a_Fflonk$", shards=_curves, checks=(80, 800), timeout=(1500, 5000)),
    dict(name="a.mpcupdate", pkg="c17a", run="^TestC17a_MpcUpdate$", shards=_curves, checks=(60, 600), timeout=(1500, 5000)),
    dict(name="a.sameratio", pkg="c17a", run="^TestC17a_SameRatioMany$", shards=_curves, checks=(500, 5000), timeout=(1500, 5000)),
    dict(name="a.kzgmpc", pkg="c17a", run="^TestC17a_KzgMpcSetup(Lib)?$", shards=_curves, checks=(30, 300), timeout=(1500, 5000), weight=2),
    dict(name="a.regress", pkg="c17a", run="^TestC17a_(Regress.*|ProbeF15)$", rapid=False, timeout=(1500, 3000)),
]
