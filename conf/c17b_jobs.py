"""C17 part B (hash/field-based and polynomial-IOP schemes): job list for conf/c17.py.

The lead merges JOBS / RULE / ASSUMPTIONS / MANDATORY into conf/c17.py (PROP["jobs"] += JOBS ...).
"""
from conf.common import PAIRING

C17B_CORE = ["bn254", "bls12-381", "bw6-761"]
C17B_REST = [c for c in PAIRING if c not in C17B_CORE]


def c17b_curves(tier):
    return C17B_CORE if tier == "quick" else PAIRING


# quick: the core curves get the full counts, the four other pairing curves (same generated code, separate
# copies) a reduced count — every targeted forgery class still occurs on every curve (see MANDATORY).
JOBS = [
    dict(name="b-permutation", pkg="c17b", run="^TestC17b_Permutation$", shards=c17b_curves, checks=(40, 300), weight=3),
    dict(name="b-lookupvector", pkg="c17b", run="^TestC17b_LookupVector$", shards=c17b_curves, checks=(20, 110), weight=4),
    dict(name="b-lookuptables", pkg="c17b", run="^TestC17b_LookupTables$", shards=c17b_curves, checks=(12, 50), weight=5),
    dict(name="b-fri", pkg="c17b", run="^TestC17b_FRI$", shards=c17b_curves, checks=(150, 1200), weight=2),
    dict(name="b-permutation-x", pkg="c17b", run="^TestC17b_Permutation$", shards=C17B_REST, checks=(14, 14), tiers=("quick",), weight=2),
    dict(name="b-lookupvector-x", pkg="c17b", run="^TestC17b_LookupVector$", shards=C17B_REST, checks=(10, 10), tiers=("quick",), weight=3),
    dict(name="b-lookuptables-x", pkg="c17b", run="^TestC17b_LookupTables$", shards=C17B_REST, checks=(5, 5), tiers=("quick",), weight=4),
    dict(name="b-fri-x", pkg="c17b", run="^TestC17b_FRI$", shards=C17B_REST, checks=(50, 50), tiers=("quick",), weight=1),
    dict(name="b-vortex", pkg="c17b", run="^TestC17b_Vortex$", checks=(300, 1500), seeds=(2, 4), weight=2),
    dict(name="b-regress", pkg="c17b", run="^TestC17b_Regress", rapid=False),
]

RULE = ("part B: per scheme (permutation, plookup vector/tables, FRI proximity+opening, Vortex) an honest proof for a rapid-drawn "
        "admissible statement, then every leaf of the proof object found by a reflective walk (unexported fields included) mutated "
        "{random, zero/identity, same component of another honest proof, +1 / one byte, slice length -1/+1}, false statements with an "
        "honestly run prover, and targeted consistent forgeries (Vortex claims of another polynomial + shifted UAlpha, UAlpha + "
        "non-codeword vanishing at x and on the opened columns; FRI wrong fold committed at one step, wrong final evaluation with "
        "consistent queries, neighbour leaf under its own Merkle root; plookup tables with an unrelated table commitment / permutation "
        "proof); a case is non-trivial when it is a forged instance (mutation that changes the value and is not in a documented "
        "not-asserted class) or an honest instance of minimal or non-power-of-two size; distinct = distinct (scheme, field, statement, "
        "site path, mutation, new value) hashes")

ASSUMPTIONS = [
    "part B: rejection is asserted only for deterministic or negligible-error (<= 2^-100) classes; FRI has one query round (nbRounds=1, "
    "rho=8), so 'far functions are rejected' is NOT asserted: for an honest-run proof of a provably far function the verdict is "
    "computed (accept iff the single query hits the announced evaluation) and compared in both directions",
    "part B: mutations that leave the proof valid are asserted to be ACCEPTED (identical substitution; FRI numLeaves when a reference "
    "RFC-6962 audit-path evaluation still accepts; opening a position whose leaf and path are equal; Vortex x'/alpha'/column index when "
    "the reference shows the checks still hold); auxiliary proof fields that no relation determines (permutation/plookup size and g on "
    "degenerate witnesses, fri OpeningProof.index, ProofOfProximity.ID, trailing slice elements that are never read) are counted as "
    "not_asserted:<reason>",
    "part B: a verifier panic on a proof whose slice lengths were changed counts as rejection (class rejected_by_panic(len)); a panic "
    "on a same-shape proof is a failure",
    "part B: Vortex claimed values come from a math/big reference (Lagrange evaluation over E4); the FRI reference prover (math/big + "
    "sha256 + the library's Fiat-Shamir transcript) must reproduce the library's proof byte for byte before its cheating modes are used; "
    "challenge-binding forgeries recompute the hypothesised (defective) challenge from the documented sha256 transcript layout with one bound "
    "message left out (also: only the first / only the last / nothing bound); FRI challenges x_i, i>=1, have no adaptive forgery with a "
    "deterministic verdict and are covered by the transcript-conformance fallback only; Vortex derives no challenge (alpha, x, columns are inputs); "
    "the KZG folding challenge gamma inside kzg.BatchVerifySinglePoint belongs to the kzg checks; "
    "KZG SRS with a fixed public trapdoor; SIS keys (logDegree, logBound) in {(4,8),(5,8),(6,16),(9,16)}",
]

# classes that every run must populate (generator health)
MANDATORY = [
    "F11_forgery|claims_of_another_polynomial+shifted_UAlpha",
    "F17_forgery|neighbour_leaf_under_its_own_root",
    "fri_proximity|wrong_fold_committed_at_step",
    "fri_proximity|wrong_final_evaluation(consistent_queries)",
    "fri_opening|ClaimedValue:felt|plus1",
    "plookup_tables|ts[*]:point|random",
    "plookup_tables|permutationProof:struct|other",
    "false_stmt:rejected",
    "forgery:degenerate_generator",
    "forgery:degenerate_generator(plookup)",
    "false_stmt|zero_accumulator_consistent_openings",
    "false_stmt|lookup_proof_in_unrelated_table",
    "positions_model_ok",
    "refprover_accepted",
] + [lab + "@" + c for c in PAIRING for lab in (
    "forgery:degenerate_generator", "zero_accumulator",                       # permutation
    "forgery:degenerate_generator(plookup)",                                    # plookup vector
    "plookup_tables|ts[*]:point|random", "plookup_tables|permutationProof:struct|other", "spliced_lookup_proof",  # F91 classes
    "fri_opening|ClaimedValue:felt|plus1",                                      # F16
    "F17_forgery", "far_function",                                              # F17, far function
    "fri_proximity|wrong_fold_committed_at_step", "fri_proximity|wrong_final_evaluation(consistent_queries)",
)] + [
    # challenge binding (adaptive prover per challenge and bound message), every class at least once per run
    "binding|permutation|epsilon!<-t1", "binding|permutation|epsilon!<-t2", "binding|permutation|omega!<-z", "binding|permutation|eta!<-q",
    "binding|plookup_vector|beta!<-t", "binding|plookup_vector|beta!<-f", "binding|plookup_vector|beta!<-h1", "binding|plookup_vector|beta!<-h2",
    "binding|plookup_vector|alpha!<-z", "binding|plookup_vector|nu!<-h",
    "binding|plookup_tables|lambda!<-fs", "binding|plookup_tables|lambda!<-ts",
    "binding|fri|x0!<-root0", "binding|fri|s0!<-evaluation",
] + [lab + "@" + c for c in PAIRING for lab in (
    "binding|permutation|epsilon!<-t1", "binding|permutation|epsilon!<-t2", "binding|permutation|omega!<-z", "binding|permutation|eta!<-q",
    "binding|plookup_vector", "binding|plookup_tables", "binding|fri|x0!<-root0", "binding|fri|s0!<-evaluation",
)]
