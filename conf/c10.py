"""C10 job table: FFT equals the DFT for every domain, option and task count."""
from conf.common import *  # noqa

# every package found by `find /repo -type d -name fft` (harness/gen_inst_fft.py → inst.FFTs()); no fp has one
FFTS = [c + "/fr" for c in PAIRING] + ["goldilocks", "koalabear", "babybear"]

# CPU-path configurations (the property quantifies over configurations): the reference-oracle jobs dft + sched are re-run
# for the fields that have configuration-specific FFT code (AVX-512 kernels of koalabear/babybear, their generic fall-backs,
# goldilocks) and one 4-word curve field, under each non-default amd64 configuration (same mechanism as conf/c09.py)
VARIANTS = [
    dict(name="purego", tags="purego"),
    dict(name="noadx", env={"GODEBUG": "cpu.adx=off"}),
    dict(name="noavx512", env={"GODEBUG": "cpu.avx512=off"}),
]
VARIANT_FFTS = ["koalabear", "babybear", "goldilocks", "bn254/fr"]

# generous: a deadline only makes a run inconclusive, and the host is shared with other checks
T = (1200, 7200)

PROP = dict(
    rule=("a transform case (field, direction, n, decimation, coset, precompute, shift, nbTasks, input vector) is "
          "non-trivial when n >= 32 and (coset on, or precompute off, or the effective nbTasks is not in {1,16}, or the "
          "recursion reaches an unrolled 32/256-point kernel at a stage >= twiddlesStartStage); a Domain (de)serialisation "
          "case is non-trivial when the reader is chunked (anything but one whole-buffer reader) or the receiver of ReadFrom "
          "is not a zero-value Domain; a Domain.WriteTo case is non-trivial when the sink fails a Write; Generator(m) cases "
          "are non-trivial for the order checks and for m not a power of two; BitReverse for n >= 4; "
          "distinct = distinct (field, configuration, input) hashes"),
    assumptions=[
        "reference = harness/internal/ref/dft.go: O(n^2) sum / Horner / closed-form basis images over math/big, no gnark-crypto "
        "code; itself anchored on a hand-computed transform over F_17 and on mutual agreement of its three routes",
        "a DFT is defined relative to a primitive root: the domain's exported Generator is used after the reference has validated "
        "it (w^n = 1, w^(n/2) = -1), likewise GeneratorInv, CardinalityInv, the coset shift and its inverse",
        "ordering as documented: DIF natural in / bit-reversed out, DIT bit-reversed in / natural out; permutations are done "
        "with the reference bit reversal, not with fft.BitReverse",
        "schedules: only those the Go scheduler yields for GOMAXPROCS in {1,2,3,8,16}, nbTasks in 1..512 and (thorough) -race",
        "sizes above 2^16 (quick) / 2^20 (thorough) are not executed; BitReverse additionally at 2^21 (2^22 thorough)",
        "amd64 host with ADX and AVX-512; the dft and sched jobs are repeated for koalabear, babybear, goldilocks and bn254/fr under "
        "GODEBUG=cpu.avx512=off, GODEBUG=cpu.adx=off and -tags purego (the other fields' variants are decided by C09); arm64 not executed",
    ],
    mandatory_all=["dec=DIT", "dec=DIF", "coset=on", "coset=off", "precompute=off", "precompute=on", "shift=custom",
                   "nbTasks=3", "nbTasks=17", "nbTasks=512", "nbTasks=default", "kernel=32", "kernel=256", "dir=inv",
                   "reader=onebyte", "reader=half", "reader=chunks", "reader=dataerr", "GOMAXPROCS=3",
                   "readfrom_into:zero", "readfrom_into:other_size", "readfrom_into:same_size_other_shift",
                   "readfrom_into:same_size_other_shift_used", "readfrom_into:same_size_noprecompute", "readfrom_into:after_readfrom",
                   "recv_tables:larger_than_decoded", "recv_tables:same_size_as_decoded", "recv_tables:smaller_than_decoded",
                   "sink:fail_at", "sink:fail_once_at", "sink:short_at", "sink:capacity_partial", "sink:capacity_reject",
                   "sink_outcome:write_failed", "sink_outcome:complete",
                   "variant=purego", "variant=noadx", "variant=noavx512", "variant=default",
                   "generator:error_beyond_two_adicity", "generator:order_ok_at_two_adicity", "check=sampled", "check=full"],
    jobs=[
        dict(name="matrix", pkg="c10", run="^TestC10_Matrix$", shards=FFTS, rapid=False, weight=2, timeout=T),
        dict(name="dft", pkg="c10", run="^TestC10_DFT$", shards=FFTS, checks=(3000, 20000), weight=6, timeout=T),
        dict(name="large", pkg="c10", run="^TestC10_Large$", shards=FFTS, checks=(120, 250), weight=4, timeout=T),
        dict(name="roundtrip", pkg="c10", run="^TestC10_RoundTrip$", shards=FFTS, checks=(3000, 30000), weight=3, timeout=T),
        dict(name="io", pkg="c10", run="^TestC10_(DomainIO|BitReverseRandom|Generator)$", shards=FFTS, checks=(600, 6000), timeout=T),
        dict(name="bitreverse", pkg="c10", run="^TestC10_BitReverse$", shards=FFTS, rapid=False),
        # one specialised cobra routine per size 2^21..2^27: all slots, small-element fields
        dict(name="bitreverse_large", pkg="c10", run="^TestC10_BitReverseLarge$", shards=["koalabear", "goldilocks"], rapid=False, weight=5),
        dict(name="sched", pkg="c10", run="^TestC10_Sched$", shards=FFTS, rapid=False, weight=5, timeout=T),
        dict(name="race", pkg="c10", run="^TestC10_Sched$", shards=FFTS, rapid=False, race=True, tiers=("thorough",), weight=8,
             timeout=T),
        # Domain.WriteTo against fault-injecting sinks (every failure position, every capacity), all fields in one process
        dict(name="writefaults", pkg="c10", run="^TestC10_DomainWriteFaults$", rapid=False),
        dict(name="regress", pkg="c10", run="^TestC10_(Regress_F6|Regress_F6b|RefSelf)$", rapid=False),
    ] + [
        dict(name="dft-" + v["name"], pkg="c10", run="^TestC10_DFT$", shards=VARIANT_FFTS, tags=v.get("tags", ""),
             env=dict(v.get("env", {}), VERIF_C10_VARIANT=v["name"]), checks=(600, 6000), weight=2, timeout=T)
        for v in VARIANTS
    ] + [
        dict(name="sched-" + v["name"], pkg="c10", run="^TestC10_Sched$", shards=VARIANT_FFTS, tags=v.get("tags", ""),
             env=dict(v.get("env", {}), VERIF_C10_VARIANT=v["name"], VERIF_C10_SCHED="lite"), rapid=False, weight=2, timeout=T)
        for v in VARIANTS
    ],
)

PROP.update(
    technique=("bounded-exhaustive option-matrix enumeration with all basis vectors + property-based testing (rapid) against a "
               "math/big reference DFT; round-trip and reader-chunking properties; GOMAXPROCS/nbTasks/-race schedule variation"),
    level_text=("Generated-input search with an independent oracle. The transform is a linear map per configuration, so for "
                "log n <= 7 (thorough: 10) every point of the option matrix {DIT,DIF} x {coset} x {precompute} x {shift} x "
                "nbTasks x {FFT,FFTInverse} is decided on ALL basis vectors against closed-form values (complete for those sizes, "
                "given field arithmetic is linear: C01). Larger sizes (to 2^16 / 2^20), dense and lattice vectors, option "
                "combinations, inverse pairings, serialisation through every reader chunking and Generator(m) are explored with "
                "rapid; schedules by varying GOMAXPROCS, task counts and -race. Exploration, not proof, above the enumerated sizes."),
    level_note=("trusts math/big, the reference DFT (anchored by hand-computed vectors) and the harness adapters; schedules limited to "
                "what the Go runtime yields; sizes above 2^20 and the arm64 bit-reversal path not executed"),
)
