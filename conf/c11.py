"""C11 job table: KZG openings are complete and verification accepts exactly the true claims."""
from conf.common import *  # noqa

CORE = ["bn254", "bls12-381", "bls24-315", "bw6-761"]
REST = [c for c in PAIRING if c not in CORE]

# test -> (quick core, quick rest, thorough core, thorough rest) rapid case counts per curve
_T = [
    ("complete",      "^TestC11_Complete$",      (40, 15, 800, 300)),
    ("alllengths",    "^TestC11_AllLengths$",    (4, 2, 40, 20)),
    ("batch",         "^TestC11_Batch$",         (25, 10, 500, 200)),
    ("batchunequal",  "^TestC11_BatchUnequal$",  (8, 4, 100, 50)),
    ("multi",         "^TestC11_Multi$",         (15, 6, 300, 120)),
    ("frontier",      "^TestC11_Frontier$",      (80, 30, 1600, 600)),
    ("frontierbatch", "^TestC11_FrontierBatch$", (50, 20, 1000, 400)),
    ("frontiermulti", "^TestC11_FrontierMulti$", (40, 15, 800, 300)),
    ("tamper",        "^TestC11_Tamper$",        (10, 4, 200, 80)),
    ("tamperbatch",   "^TestC11_TamperBatch$",   (8, 3, 160, 60)),
    ("tampermulti",   "^TestC11_TamperMulti$",   (8, 3, 160, 60)),
    ("serialsrs",     "^TestC11_SerialSRS$",     (8, 3, 120, 50)),
    ("serialproofs",  "^TestC11_SerialProofs$",  (10, 4, 200, 80)),
    ("serialmulti",   "^TestC11_SerialMultiProofs$", (30, 15, 600, 300)),
    ("mpc",           "^TestC11_Mpc$",           (5, 2, 60, 25)),
    ("vkreuse",       "^TestC11_VkReuse$",       (10, 4, 200, 80)),
    ("srs",           "^TestC11_SRS$",           (6, 3, 60, 25)),
    ("generic",       "^TestC11_GenericSRS$",    (4, 4, 40, 40)),
    ("dumpstream",    "^TestC11_DumpStream$",    (2, 2, 20, 20)),
]

_jobs = []
for _n, _run, (_qc, _qr, _tc, _tr) in _T:
    _jobs.append(dict(name=_n, pkg="c11", run=_run, shards=CORE, checks=(_qc, _tc), timeout=(900, 5400)))
    _jobs.append(dict(name=_n + ".rest", pkg="c11", run=_run, shards=REST, checks=(_qr, _tr), timeout=(900, 5400)))
_jobs.append(dict(name="regress", pkg="c11", run="^TestC11_(Regress.*|BatchArity|MimcTranscriptProbe|GenericSRSTypes)$", shards=PAIRING, rapid=False))

PROP = dict(
    rule=("a case is non-trivial when the polynomial has 1 or size coefficients, or is the zero polynomial, or the "
          "evaluation point is a root of it or the trapdoor itself, or the tuple handed to a verifier is not an honestly "
          "generated one (exponent tuples, near misses, tampered proofs), or the batch has >= 2 members; serialisation and "
          "key-reuse histories count as non-trivial; distinct = distinct (curve, trapdoor, inputs) hashes"),
    assumptions=[
        "oracle = verification in the exponent (harness/internal/ref/exponent.go, math/big only): every SRS has a rapid-drawn known "
        "trapdoor tau in [1,r-1] (or the documented alpha=-1 SRS whose order-4 trapdoor is recovered by the reference), every group "
        "element given to a verifier is [k]G1 with k known, so the pairing equation is the scalar identity c - v = (tau - z) h",
        "group elements are built by the reference curve arithmetic (affine law over math/big, curve constants from the documentation) "
        "in about half of the cases and by the library's ScalarMultiplicationBase otherwise; all inputs are subgroup points "
        "(KZG verification documents no subgroup check, DESIGN section 11)",
        "the folding challenge gamma is recomputed with crypto/sha256 from the documented transcript layout "
        "(\"gamma\" | point | digests | claimed values | extra data) using the library's point/scalar encodings (C07/C08/C15 decide those)",
        "hash = SHA-256 on every curve. MiMC is not an admissible transcript hash for KZG in general (the 2*fp.Bytes point encodings "
        "bound into the transcript are not lists of canonical fr blocks: deriveGamma returns an error on 6 of the 7 curves) and the "
        "library never uses it there; on bn254, where fp and fr have the same size and p - r < 2^128, it happens to be admissible and is "
        "exercised in a quarter of the batch cases with gamma recomputed through the library's fiat-shamir package and MiMC (C14/C15 decide those)",
        "BatchVerifyMultiPoints draws fresh randomness inside the library: only the verdict is compared (a false batch passes with probability 1/r)",
        "MpcSetup.Contribute draws its secret from crypto/rand inside the library: the round-trip/seal assertions hold for every secret; "
        "soundness of MpcSetup.Verify belongs to C17",
        "batches of unequal-length polynomials are outside the documented precondition: behaviour recorded in the histogram, not asserted",
        "UnsafeReadFrom / ReadDump are exercised on honest data only (documented as unchecked)",
        "the curve-agnostic package kzg exports only NewSRS(curveID) and the SRS/Serializable/BinaryDumper interfaces: every pairing-curve ID "
        "must yield that curve's *kzg.SRS and restore that curve's SRS from every encoding; IDs without a KZG package panic in the source "
        "but nothing is documented, so that is recorded, not asserted",
        "the multi-point proof objects built on KZG (shplonk.OpeningProof, fflonk.OpeningProof) are round-tripped on arbitrary table shapes "
        "(ragged, empty, nil) and arbitrary subgroup points, not only honest proofs; their soundness belongs to C17",
        "receiver histories: every decoder (SRS ReadFrom/UnsafeReadFrom/ReadDump, ProvingKey, VerifyingKey, OpeningProof, BatchOpeningProof, "
        "MpcSetup, shplonk/fflonk OpeningProof) is run, in every case, on a fresh receiver and on used receivers that already hold other "
        "material of a smaller, an equal and a larger size than the decoded object (VerifyingKey and OpeningProof have no size: fresh/used); "
        "afterwards the receiver must equal the source field by field incl. lengths, re-encode byte-exactly, and verify / seal / commit-open-verify",
        "input purity: after every Verify / FoldProof / BatchVerifySinglePoint / BatchVerifyMultiPoints call the adapter compares the native "
        "digests, proof (H and every claimed value), points, extra transcript data and the verifying key bit by bit with snapshots taken before "
        "the call, then makes the same call again on the same native objects and requires the same verdict (and folded value)",
        "batch sizes include 15, 16, 17, 31, 32, 33, 64 (block / window thresholds) in the honest, frontier, tamper and key-reuse jobs",
        "SRS dumps are read from seekable readers (bytes.Reader, a file) and from plain / short-read wrappers, for maxPkPoints absent, <, = and > "
        "the stored length: a complete dump leaves the reader exactly at its end (the following object on the stream decodes), every truncated "
        "dump (in the header, in the kept points, at the boundary, in the skipped tail, one byte short) is an error",
        "every job runs on all 7 pairing curves in both tiers (no rotation); the four core curves only get more cases",
    ],
    mandatory_all=["len:1", "len:size", "p:zero", "z:root", "z:tau", "tuple:accept", "tuple:reject", "batch>=2",
                   "honest:single", "honest:batch", "honest:multi", "frontier:single", "frontier:batch", "frontier:multi",
                   "tamper:single", "tamper:batch", "tamper:multi", "tamper:still_true", "serial:dump", "serial:MpcSetup",
                   "serial:MpcSetup:seal", "serial:OpeningProof", "serial:BatchOpeningProof", "serial:shplonk.OpeningProof",
                   "serial:fflonk.OpeningProof", "serial:fflonk.OpeningProof:truncated", "table:has_empty", "history:vk_reuse",
                   "srs:minus1", "srs:structure", "points:reference", "points:library", "H=infinity", "digest:infinity"]
                  + ["generic_kzg:" + c for c in PAIRING]
                  + ["recv:%s:%s" % (o, r) for o in ("SRS", "ProvingKey", "SRS.dump", "BatchOpeningProof", "MpcSetup",
                                                     "shplonk.OpeningProof", "fflonk.OpeningProof")
                     for r in ("fresh", "smaller", "equal", "larger")]
                  + ["dump:seekable_reader", "dump:truncated_in_skipped_tail", "dump:truncated_at_boundary", "dump:truncated_in_kept_points",
                     "dump:truncated_one_byte_short", "dump:max<len", "dump:max=len", "dump:max>len", "dump:maxabsent",
                     "batch>=16", "purity:proof_after_verify", "purity:same_call_repeated"]
                  + ["recv:VerifyingKey:fresh", "recv:VerifyingKey:used", "recv:OpeningProof:fresh", "recv:OpeningProof:used"],
    jobs=_jobs,
)

PROP.update(
    technique=("property-based testing (rapid) with a known-trapdoor 'verification in the exponent' oracle over math/big, "
               "constructive boundary generators, exhaustive single-component tamper enumeration, byte-exact codec round trips, "
               "7 pairing curves"),
    level_text=("Generated-input search against an exact oracle: with a known trapdoor the accept/reject decision of Verify, "
                "BatchVerifySinglePoint and BatchVerifyMultiPoints is a scalar identity the harness evaluates in math/big, so both "
                "directions (accept every true claim, reject every false one, including near misses and claims that satisfy plausible "
                "wrong relations) are decided per case; completeness is checked output by output (digest, claimed value, quotient) for "
                "every polynomial length 1..size including constants, zero, roots and z = tau. Exploration, not proof: the quantifier "
                "ranges over F_r^4 tuples and all polynomials; the generators construct the boundary classes and measure them."),
    level_note=("trusts math/big, crypto/sha256 and the reference curve law; SRS sizes <= 64 quick / <= 4096 thorough; MiMC transcripts "
                "not applicable; MpcSetup.Verify soundness is decided by C17"),
)
