"""C19 job table: receiver and operands may alias in every arithmetic method."""
from conf.common import *  # noqa

# one process per package family / curve (VERIF_INST is matched against "<family>/<instance>")
_G = ["bn254|bls12-377|bls12-381", "bls24-315|bls24-317|bw6-633", "bw6-761|secp256k1|stark-curve|grumpkin"]
SHARDS = ([dict(name="field_%d" % i, inst="^field/(%s)/" % g) for i, g in enumerate(_G)]
          + [dict(name="vector_%d" % i, inst="^vector/(%s)/" % g) for i, g in enumerate(_G)]
          + [dict(name="field_small", inst="^field/[a-z]+$"), dict(name="vector_small", inst="^vector/[a-z]+$")]
          + [dict(name="tower_" + c, inst="^tower/%s$" % c) for c in PAIRING]
          + [dict(name="point_" + c, inst="^point/%s$" % c) for c in CURVES]
          + [dict(name="edwards", inst="^edwards/"), dict(name="poly", inst="^poly/"), dict(name="ext", inst="^ext/")])

PROP = dict(
    rule=("one case = (type, method, set partition of the receiver / pointer / slice positions of one type, operand values); "
          "every case has at least one aliased group (the partition with all positions distinct is the oracle run, not a case), "
          "so every case is non-trivial; distinct = distinct (instance, type, method, partition, operand values) hashes. "
          "Methods and partitions are enumerated exhaustively from the reflected method sets (at most 24 partitions per case are "
          "drawn when a method has more); values are rapid draws. In addition every non-accumulating method is run once per value "
          "tuple on all-distinct objects from two different prior receiver values (class check:receiver_prior_independence, counted "
          "as evaluations but not as non-trivial cases)"),
    assumptions=[
        "oracle = the same method on fresh distinct copies holding the same values (metamorphic: distinct vs aliased); whether the distinct "
        "run itself is arithmetically right is decided by C01/C02/C06",
        "receiver-prior independence: a method with an operand of the receiver's type whose name does not end in Assign/InPlace and that is not "
        "a listed partial writer (CyclotomicSquareCompressed) is required to leave the same value in its receiver whatever the receiver held "
        "before, unless it leaves the receiver untouched (predicates, failed Sqrt); this catches 'operand read through the receiver' code "
        "that is right only under z = x, which the same-prior-value distinct run cannot see",
        "a method that writes a non-receiver operand on distinct objects is reported (none exists in the pinned tree)",
        "whole-object aliasing only: pointers into sub-fields of another operand and partially overlapping slices are not generated (DESIGN §11)",
        "methods are discovered from the exported method sets of Element/Vector (23 fields), every tower type reachable from the exported "
        "aliases and from GT (7 pairing curves), G1/G2 Affine/Jac (10 curves), PointAffine/Proj/Extended (8 Edwards packages), "
        "Polynomial/MultiLin (8 packages), E2/E4 of the small-field extensions; the allow/deny table is printed in the notes (job 'table')",
        "points are valid subgroup points (reference-computed multiples of the validated generator); scalars are at most as long as the group order",
        "methods documented for cyclotomic / compressed inputs (CyclotomicSquare*, Expt*, DecompressKarabina, InverseUnitary, MixedDouble) are run "
        "on arbitrary field elements / representatives: they are straight-line formulas, so the distinct-vs-aliased relation holds regardless",
        "a call that panics identically on distinct and on aliased operands is counted (outcome:panic_in_both_runs) and noted, not failed: "
        "it is not an aliasing effect",
        "mixed-type operands (G1Jac.AddMixed(*G1Affine), FromAffine, FromJacobian, MulBy034(*E2...) vs the E12 receiver) cannot be the same "
        "object as the receiver; same-typed operands among them (c0=c3=c4) are aliased with each other",
        "unexported g1JacExtended/g2JacExtended bucket arithmetic is not covered (no white-box overlay in this round)",
    ],
    mandatory_all=["check:receiver_prior_independence", "outcome:independent", "outcome:receiver_untouched", "family:field", "family:vector", "family:tower", "family:point", "family:edwards", "family:poly", "family:ext",
                   "partition:z=a", "partition:z=b", "partition:a=b", "partition:z=a=b", "partition:a=b=c",
                   "value:k=0(infinity)", "value:rel:same_point", "value:rel:opposite", "value:Z=lattice", "value:Z=1",
                   "value:zero", "value:sparse", "value:dense", "value:len:0", "value:len:1", "value:len:16", "value:len:17",
                   "value:len:112", "value:len:256", "value:len:257"],
    jobs=[
        dict(name="alias", pkg="c19", run="^TestC19_Alias$", shards=SHARDS, checks=(300, 3000), timeout=(900, 5400)),
        # the same relation on the other code paths of the arithmetic: ADX disabled (the assembly jumps to the portable
        # _mulGeneric / mulGenericE2 fallbacks, which must be alias-safe too), AVX-512 disabled (generic vector loops) and the
        # purego build; fields, vectors, towers, points and the small-field extensions at reduced counts
        dict(name="alias-noadx", pkg="c19", run="^TestC19_Alias$", shards=[x for x in SHARDS if x["name"].split("_")[0] in ("field", "tower", "point", "ext", "edwards")],
             checks=(100, 1000), env={"GODEBUG": "cpu.adx=off"}, timeout=(900, 5400)),
        dict(name="alias-noavx512", pkg="c19", run="^TestC19_Alias$", shards=[x for x in SHARDS if x["name"].split("_")[0] in ("vector", "ext")],
             checks=(150, 1500), env={"GODEBUG": "cpu.avx512=off"}, timeout=(900, 5400)),
        dict(name="alias-purego", pkg="c19", run="^TestC19_Alias$", shards=[x for x in SHARDS if x["name"].split("_")[0] in ("field", "vector", "tower", "ext")],
             checks=(100, 1000), tags="purego", timeout=(900, 5400)),
        dict(name="table", pkg="c19", run="^TestC19_Table$", rapid=False),
        dict(name="regress", pkg="c19", run="^TestC19_Regress", rapid=False),
    ],
)

PROP.update(
    technique=("metamorphic property-based testing (rapid) driven by reflection: every exported arithmetic method x every aliasing "
               "pattern, aliased call compared with the call on fresh distinct copies"),
    level_text=("Generated-input search over a mechanically enumerated method x alias-partition matrix: all ~1430 qualifying methods of 146 "
                "types and all of their ~2600 aliasing patterns are executed (that dimension is exhaustive), each on operand values drawn "
                "from the boundary lattice / zero-sub-coordinate / special-point generators (that dimension is sampled). Exploration, not "
                "proof: an aliasing defect that needs a specific operand value outside the generated classes can be missed; defects that are "
                "independent of the values (the typical 'result written before an operand is fully read') are found on the first case."),
    level_note=("compares the library with itself under the distinct-vs-aliased relation by design; reflection-based calls; "
                "unexported extended-Jacobian types not reached; amd64 assembly paths only (purego/arm64 not executed here)"),
)
