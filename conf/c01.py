"""C01 job table."""
from conf.common import *  # noqa

PROP = dict(
    rule=("rapid-generated (op, operand tuple) per field from the two-domain boundary lattice; a case is "
          "non-trivial when an operand or the exact result (canonical or Montgomery form) has a limb in "
          "{0, 2^w-1, limb of q} or lies within 2 of 0/q, the unreduced sum/difference is within 1 of q/0, "
          "an exponent is outside [2,q-2], or a vector length is 0, not a multiple of 16, or >= 112; "
          "distinct = distinct (field, op, operands) hashes"),
    assumptions=["reference = math/big modular arithmetic (harness/internal/ref, no gnark-crypto code)",
                 "operands are reduced elements (constructed through SetBigInt of a reduced value)",
                 "amd64 host with ADX and AVX-512; other code paths are decided by C09"],
    jobs=[
        dict(name="unary", pkg="c01", run="^TestC01_Unary$", shards=FIELDS, checks=(4000, 60000)),
        dict(name="binary", pkg="c01", run="^TestC01_Binary$", shards=FIELDS, checks=(6000, 80000)),
        dict(name="vector", pkg="c01", run="^TestC01_Vector$", shards=FIELDS, checks=(700, 10000)),
        dict(name="regress", pkg="c01", run="^TestC01_Regress", rapid=False),
        # the property quantifies over configurations: the portable (purego) code paths are decided here too
        # (C09 additionally runs these suites with ADX / AVX-512 switched off and compares all variants live)
        dict(name="unary-purego", pkg="c01", run="^TestC01_Unary$", tags="purego", shards=FIELDS, checks=(2500, 40000)),
        dict(name="binary-purego", pkg="c01", run="^TestC01_Binary$", tags="purego", shards=FIELDS, checks=(4000, 60000)),
        dict(name="vector-purego", pkg="c01", run="^TestC01_Vector$", tags="purego", shards=FIELDS, checks=(400, 6000)),
        # exhaustive sweeps of the 31-bit fields: all q inputs of every unary op (+ Mul/Add/Sub by 16 constants)
        dict(name="exh-koalabear", pkg="c01", run="^TestC01_Exhaustive_koalabear$", rapid=False, tiers=("thorough",),
             seeds=(1, 16), timeout=(600, 3000), weight=10),
        dict(name="exh-babybear", pkg="c01", run="^TestC01_Exhaustive_babybear$", rapid=False, tiers=("thorough",),
             seeds=(1, 16), timeout=(600, 3000), weight=10),
    ] + [
        # white-box (overlay): the inversion fall-back inverseExp called directly
        dict(name="wb-inverseexp." + f.replace("/", "_"), kind="overlay", pkg=FIELD_PKG[f], run="^TestVerifC01_", checks=(3000, 50000))
        for f in FIELDS if has_func(FIELD_PKG[f], "func (z *Element) inverseExp(")
    ],
)

PROP.update(
    technique="property-based testing (rapid) against a math/big reference model, boundary-lattice generators, all 23 fields",
    level_text=("Generated-input search: every arithmetic entry point of all 23 fields is compared with an independent "
                "math/big model on operands drawn from a two-domain (canonical and Montgomery) limb-boundary lattice, and "
                "every result is checked for canonical representation. Exploration, not proof: the right level for a "
                "property quantified over 2^254..2^761-element input spaces whose failures cluster on carry/borrow boundaries "
                "that the lattice constructs."),
    level_note="trusts math/big and the harness adapters; arm64 assembly not executed (amd64 host)",
)

