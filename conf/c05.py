"""C05 job table: pairings are bilinear, non-degenerate and identical across computation variants."""
from conf.common import *  # noqa

CORE = ["bn254", "bls12-381", "bls24-315", "bw6-761"]
OTHER = [c for c in PAIRING if c not in CORE]

PROP = dict(
    rule=("rapid-generated (k, scalar vectors a_i, b_i in Z_r^k, partition of the pairs) per pairing curve; the points "
          "[a_i]G1, [b_i]G2 come from the reference curve model; every case runs Pair, PairingCheck, MillerLoop+"
          "FinalExponentiation, the split product, the product of singles and the three fixed-Q entry points, so by the "
          "DESIGN rule (k>=2, or an infinity pair, or a constructed-zero sum, or a fixed-Q variant) every case is non-trivial; "
          "distinct = distinct (curve, a, b, partition) hashes; the size/empty sweep is exhaustive over len(P),len(Q) in 0..4 "
          "x 3 contents x 6 entry points, plus mismatches at 64/65, 128/129; the many-pairs job runs every entry point once per "
          "size k in {63,64,65,66,127,128,129,200} and curve (x8 in thorough)"),
    assumptions=[
        "reference = harness/internal/ref tower (schoolbook F_p^k arithmetic, ref.Exp) and affine curve model; no gnark-crypto code",
        "the points [a]G1,[b]G2 are computed by the reference (ref.Curve.Mul/Add/Neg on the validated generators) and loaded "
        "through SetBigInt; the library's scalar multiplication (C03) is not part of the trusted base",
        "e(G1,G2) is the library value Pair(G1,G2); the reference establishes e(G1,G2) != 1 and e(G1,G2)^r = 1 (r prime, so exact "
        "order r), which makes 'value = e(G1,G2)^(sum a_i b_i)' equivalent to the accept-iff-sum-vanishes clause",
        "inputs are subgroup points only (the API documents no subgroup check)",
        "one PrecomputeLines result is re-used across MillerLoopFixedQ, PairFixedQ, PairingCheckFixedQ and a second P vector, and must "
        "stay unchanged (F25: before the repair in fixes/F25-fixedq-lines-inplace.patch the entry points scaled the caller's lines in "
        "place; regression test TestC05_RegressFixedQLinesReuse)",
        "inputs are read-only: the point slices, the precomputed lines and the Miller-loop outputs handed to FinalExponentiation "
        "(single and variadic form) are compared with copies after every call, and the outputs are finished a second time",
        "many pairs (k up to 200): scalars from a small set of reference multiples plus one solved G1 multiple; value still exact",
        "empty input (0 pairs): undocumented; only 'no panic, and error or the empty product' is asserted",
        "product of singles is multiplied by the reference GT field, not by the library's Mul (C06)",
        "the absolute value of the pairing is anchored through FinalExponentiation(z) = z^d, d = s(p^k-1)/r with the cofactor s and seed "
        "x0 transcribed from the doc comments (without it any fixed power of the pairing coprime to r would satisfy every other clause)",
    ],
    mandatory_all=["k=1", "k=2", "k>=3", "infG1@first", "infG1@middle", "infG1@last", "infG2@first", "infG2@middle",
                   "infG2@last", "sum:zero_constructed", "sum:zero_with_finite_pairs", "sum:nonzero", "sum:off_by_one",
                   "variant:fixedQ", "variant:fixedQ_lines_reused_other_P", "size:mismatch", "generator:order_r", "fe:uniform_field_element",
                   "regress:F25_lines_reuse", "k>=65", "k>=129", "inf_at>=64", "inf_at>=64:G1", "inf_at>=64:G2",
                   "many:inf_last:G1", "many:inf_last:G2", "many:several_infinity_pairs",
                   "many:sum_zero", "many:sum_nonzero", "variant:fixedQ_many_pairs", "variant:MillerLoopDirect_many_pairs",
                   "variant:FinalExp_outputs_reused", "size:mismatch_large"],
    jobs=[
        # 150 cases per core curve (quick), 3000 per curve (thorough); bls24 reference exponentiations cost ~0.6 s each
        dict(name="pair", pkg="c05", run="^TestC05_Pairing$", shards=CORE, checks=(50, 750), seeds=(3, 4), weight=3,
             timeout=(900, 5400)),
        dict(name="pairx", pkg="c05", run="^TestC05_Pairing$", shards=OTHER, checks=(30, 750), seeds=(1, 4), weight=2,
             timeout=(900, 5400)),
        # exact-value anchor: FinalExponentiation(z...) = (prod z)^d for the documented d (one reference power of a
        # (k*log p)-bit exponent per case: 1-5 s, ~50 s on the bls24 towers)
        dict(name="finalexp", pkg="c05", run="^TestC05_FinalExp$", shards=[c for c in PAIRING if not c.startswith("bls24")],
             checks=(3, 20), weight=2, timeout=(900, 5400)),
        dict(name="finalexp24", pkg="c05", run="^TestC05_FinalExp$", shards=[c for c in PAIRING if c.startswith("bls24")],
             checks=(1, 6), weight=4, timeout=(900, 5400)),
        # many pairs: every entry point on k in {63,64,65,66,127,128,129,200} pairs with infinities around the word boundaries;
        # one rapid.Check per size (so every size is reached in every run), checks = cases per size and curve; 3-14 s per curve
        dict(name="many", pkg="c05", run="^TestC05_ManyPairs$", shards=PAIRING, checks=(1, 8), weight=2, timeout=(900, 5400)),
        dict(name="sizes", pkg="c05", run="^TestC05_Sizes$", rapid=False),
        dict(name="generator", pkg="c05", run="^TestC05_Generator$", rapid=False),
        dict(name="regress", pkg="c05", run="^TestC05_Regress", rapid=False),
    ],
)

PROP.update(
    technique=("property-based testing (rapid) with exact metamorphic oracles evaluated in an independent reference tower: "
               "accept-iff-sum-vanishes, value = e(G1,G2)^(sum a_i b_i), byte-equality of all computation variants"),
    level_text=("Generated-input search over the number of pairs (1..6, covering the k=1 / k=2 / k>=3 code paths, and 63..200 around "
                "the machine-word boundaries with infinities at index >= 64 / >= 128 on either side), scalar vectors "
                "with infinity at every position on either side, sums constructed to vanish (solved, cancelling couples/triples) or to "
                "miss by one / by a small multiple, on all 7 pairing curves. Each case is decided exactly: the library value must equal "
                "the reference power of the generator pairing, and every computation variant must serialise to the same bytes. "
                "Exploration, not proof: the input space is Z_r^(2k); failures of a Miller loop or final exponentiation are not "
                "input-sparse (a wrong line or exponent breaks almost every input), which is what the mutants confirm."),
    level_note="trusts math/big, the reference tower/curve constants (validated at start-up) and the reflective adapters",
)
