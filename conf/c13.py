"""C13 job table: hash-to-field / hash-to-curve are total, valid and conform to RFC 9380."""
from conf.common import *  # noqa

# (curve, group) pairs that export a map (TestC13_Params asserts the reflective discovery finds exactly these 17)
SUITES = ["bn254/G1", "bn254/G2", "bls12-377/G1", "bls12-377/G2", "bls12-381/G1", "bls12-381/G2",
          "bls24-315/G1", "bls24-315/G2", "bls24-317/G1", "bls24-317/G2", "bw6-633/G1", "bw6-633/G2",
          "bw6-761/G1", "bw6-761/G2", "secp256k1/G1", "stark-curve/G1", "grumpkin/G1"]
# reference arithmetic over Fp4 / Fp2 / 761-bit Fp is slow: fewer cases there
SLOW = {"bls24-315/G2": 0.12, "bls24-317/G2": 0.12, "bls12-381/G2": 0.3, "bls12-377/G2": 0.4, "bn254/G2": 0.5,
        "bw6-761/G1": 0.5, "bw6-761/G2": 0.5, "bw6-633/G1": 0.6, "bw6-633/G2": 0.6}


def _suite_jobs(name, run, q, th):
    return [dict(name=name, pkg="c13", run=run, shards=[s], checks=(max(30, int(q * SLOW.get(s, 1.0))), max(300, int(th * SLOW.get(s, 1.0)))),
                 weight=3 if s in ("bls24-315/G2", "bls24-317/G2", "bls12-381/G2") else 1, timeout=(900, 3600)) for s in SUITES]


WRAPPED = [c + "/" + f for c in ("bn254", "bls12-377", "bls12-381", "bls24-315", "bls24-317", "bw6-633", "bw6-761", "grumpkin") for f in ("fp", "fr")]

PROP = dict(
    rule=("a case is non-trivial when the requested expansion length is < 32 or not a multiple of 32 (or > 8160: error), when count is 0/1 "
          "on a field with L < 32, when the DST length is 0, 255 or > 255, or when the map input u is 0, +-1, a root of the exceptional "
          "polynomial of the map computed by the reference (SSWU: Z^2u^4+Zu^2; SvdW: (1-c1u^2)(1+c1u^2)), a neighbour of such a root, or a "
          "field-boundary-lattice value, or a NEAR-exceptional input constructed by solving in the reference for a u whose tested temporary "
          "(SSWU: tv2 = Z^2u^4+Zu^2; SvdW: tv1, tv2, tv1*tv2) has all stored (Montgomery) or canonical limbs zero except one; distinct = distinct (function, instantiation, inputs) hashes"),
    assumptions=[
        "oracles (harness/internal/ref, no gnark-crypto code): RFC 9380 5.3.1 expand_message_xmd over crypto/sha256, 5.2 hash_to_field, 4.1 sgn0, "
        "6.6.2 simplified SWU and 6.6.1 Shallue-van de Woestijne in their definitional (non straight-line) form, Appendix H find_z_*, Appendix E "
        "rational maps, affine group law; anchored on RFC 9380 K.1, J.9.1/J.9.2/J.10.1/J.10.2 and the RFC-style BN254 SVDW vectors (copies shipped in "
        "/repo test files), which the reference reproduces (TestC13_Anchor)",
        "suite parameters (E' = (A',B'), Z, isogeny coefficients; SvdW z, c1..c4) are transcribed from internal/generator/config by gen_h2c.py and "
        "validated numerically (E' non-singular, Z criteria of RFC 6.6.2, rational map is a homomorphism E'->E on sample points, SvdW Z = find_z_svdw "
        "and c1..c4 = RFC formulas) and compared with the getters of the generated hash_to_curve packages",
        "cofactor clearing: compared with [h_eff]Q by the reference where an effective cofactor is documented (BLS G1: 1-x0, ClearCofactor comment "
        "eprint 2019/403 s.5; bls12-381 G2: h_eff of RFC 8.8.2); elsewhere (bn254 G2, bls12-377 G2, bw6 G1/G2, bls24 G2) only "
        "MapToG = ClearCofactor(isogeny(MapToCurve)) with the library's ClearCofactor, on-curve and [r]P = O by the reference are decided",
        "bls24-315/317 G2 are hand-written draft-06 SvdW code: x-coordinate selection is compared with the SvdW reference, validity and the "
        "hash/encode relations are decided; its sign rule (not the RFC's sgn0) is not asserted; u is packed as (e0,0,e1,0) as the code does",
        "concurrent section: 2/8/32 goroutines released by a barrier hash their own inputs repeatedly and compare with sequentially precomputed reference "
        "values; it explores only the interleavings the Go scheduler produces (a probabilistic detector for shared-scratch defects, not a proof)",
        "negative count / negative lenInBytes are outside the quantifier of C13 and are not generated (they panic in make)",
        "hash_to_field.New(dst) with len(dst) > 255 is not generated (Sum has no error result and documents the panic in its body)",
        "SSWU criterion 3 of RFC 6.6.2 (g(x)-Z irreducible) only concerns the output distribution; a configured Z failing it is reported in the notes, not asserted",
    ],
    jobs=[
        dict(name="params", pkg="c13", run="^(TestC13_(Params|Anchor|Vectors|FieldL|WrapperInventory|RegressF8|RegressF72|ExceptionalProbe)|FuzzC13_.*)$", rapid=False, timeout=(900, 1800), weight=2),
        dict(name="xmdsweep", pkg="c13", run="^TestC13_XmdSweep$", rapid=False),
        dict(name="xmd", pkg="c13", run="^TestC13_Xmd$", checks=(6000, 100000), seeds=(2, 4)),
        dict(name="fieldhash", pkg="c13", run="^TestC13_(FieldHash|ConcurrentFieldHash)$", shards=FIELDS, checks=(1500, 25000)),
        dict(name="wrapper", pkg="c13", run="^TestC13_HashWrapper$", shards=WRAPPED, checks=(400, 6000)),
        # thorough tier only: time-boxed coverage-guided native fuzzing (oracle inside the target); the quick tier runs its seed corpus in "params"
        dict(name="fuzz-expandhash", pkg="c13", run="^TestC13_NativeFuzz$", rapid=False, tiers=("thorough",), timeout=(900, 900),
             env=dict(VERIF_C13_FUZZTIME="120s"), weight=5),
        # constructed near-exceptional inputs: the tested temporary has a single non-zero limb (every limb, stored and canonical reading)
        dict(name="nearexc", pkg="c13", run="^TestC13_NearExceptionalSweep$", rapid=False, shards=SUITES, timeout=(900, 1800), weight=2),
    ] + _suite_jobs("map", "^TestC13_MapToCurve$", 500, 5000) + _suite_jobs("hash", "^TestC13_(HashToGroup|ConcurrentHashToCurve)$", 150, 1500),
    mandatory_all=["u:0", "u:exceptional_root", "u:-1", "len:0", "len:1..31", "len:not_multiple_of_32", "len:>8160", "dst_len:0", "dst_len:255",
                   "small_field_count01", "branch:x3", "branch:exc:x1",
                   "first_chunk>=1024+continued", "streamed_through_reused_buffer", "concurrent_hash",
                   "sum_nil_kept_across_calls", "returned_scribbled", "prefix_with_spare_capacity", "second_instance", "helper_slice_kept",
                   "u:near_exceptional", "u:coefficient_single_limb", "near_exceptional:mont", "near_exceptional:canon", "near_exceptional:top_limb"]
                  + ["near_exceptional:limb%d" % j for j in range(12)]
                  + ["near_exceptional:suite:" + s for s in SUITES]
                  + ["concurrent_hash:" + x for x in FIELDS + SUITES],
)

PROP.update(
    technique=("property-based testing (rapid) and exhaustive length sweeps against RFC 9380 reference models written over math/big and crypto/sha256; "
               "exceptional map inputs constructed by solving the exceptional polynomials in the reference; all 23 fields, all 17 (curve, group) maps"),
    level_text=("Generated-input search with an independent oracle: expand_message_xmd is compared byte-exactly for every output length 0..8160 and on "
                "rapid-generated (msg, dst, len) around the SHA-256 block and the RFC's admissibility boundaries; <field>.Hash for all 23 fields against "
                "OS2IP mod q of the reference expansion with canonicity of the results; every map is compared with the definitional RFC map on inputs "
                "that include 0, +-1 and the solved roots of the exceptional polynomials; group-level functions are checked for validity (on curve, "
                "[r]P = O), determinism and the RFC composition relations; published vectors are reproduced by both the library and the reference. "
                "Exploration, not proof: the input spaces are 2^254..2^761 elements; the measure-zero exceptional sets are reached by construction."),
    level_note=("trusts crypto/sha256, math/big and the reference models (anchored on RFC vectors); cofactor clearing of bn254 G2, bls12-377 G2, bw6 and "
                "bls24 G2 is only decided for validity and composition, not against an independent effective cofactor"),
)
