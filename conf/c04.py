"""C04 job table: MultiExp / Fold = exact linear combination for every input, config and schedule."""
from conf.common import *  # noqa

G1 = [c + "/G1" for c in CURVES if c != "stark-curve"]          # stark-curve has no MultiExp
G2 = [c + "/G2" for c in PAIRING]
GROUPS = G1 + G2


def _sh(group, cmax=None, maxn=None):
    env = {}
    if cmax is not None:
        env["VERIF_C04_CMAX"] = str(cmax)
    if maxn is not None:
        env["VERIF_C04_MAXN"] = str(maxn)
    return dict(name=group.replace("/", "_"), inst="^(%s)$" % group.replace("/", "/"), env=env)


# quick tier: G1 of the 4-limb-scalar curves reach every window size 4..13 (n up to 50 000);
# G2 and the BW6 curves (restricted window sets {4,5,6,8,12,16} / {4,5,8,10,16}, wide base fields) stop earlier.
def _window_fast(tier):
    if tier == "thorough":
        return [_sh(g) for g in GROUPS if g not in ("bls24-315/G2", "bls24-317/G2")]
    out = []
    for g in G1:
        if g == "bw6-633/G1":
            out.append(_sh(g, 12, 9000))
        elif g == "bw6-761/G1":
            out.append(_sh(g, 10, 4000))
        else:
            out.append(_sh(g, 13, 50000))
    for g in G2:
        if g.startswith("bls24"):
            continue
        if g == "bw6-633/G2":
            out.append(_sh(g, 12, 9000))
        elif g == "bw6-761/G2":
            out.append(_sh(g, 10, 4000))
        else:
            out.append(_sh(g, 11, 10500))
    return out


def _window_slow(tier):  # G2 over Fp4: reference and library are both an order of magnitude slower
    if tier == "thorough":
        return [_sh(g) for g in ("bls24-315/G2", "bls24-317/G2")]
    return [_sh(g, 10, 4500) for g in ("bls24-315/G2", "bls24-317/G2")]


def _race(tier):
    return [_sh(g, 10, 5000) for g in GROUPS]


_CS_QUICK = ["c:%d" % c for c in range(4, 14)] + ["c:16"]
_COMMON = [
    "proc:batch-affine", "proc:jacobian-extended", "nbtasks:default", "nbtasks:sem", "nbtasks:ge_ncpu",
    "nbtasks:>1024_error", "len_mismatch_error", "multiset:repeat", "multiset:opposite", "multiset:infinity",
    "multiset:distinct", "scalar:zero_present", "scalar:r-1_present", "overweight_chunk_split",
    "overweight_chunk_split+semaphore", "carry_into_last_window", "split:recursive",
    "batch-affine:bucket_collisions_with_repeat_or_opposite", "fold",
    "gomaxprocs:1", "gomaxprocs:2", "gomaxprocs:3", "gomaxprocs:8", "gomaxprocs:16", "recv:aff", "recv:jac",
    "meta:split", "meta:permutation", "meta:config_independent", "n:0", "n:1", "n:2", "n:3",
    "watchdog:deadlock_proven", "watchdog:alive_not_deadlock", "watchdog:busy_nontermination_proven",
    # NbTasks < 0 ("not set") through every entry point
    "nbtasks:negative", "nbtasks:zero",
] + ["nbtasks:negative/%s/%s%s" % (g, e, r) for g in ("G1", "G2") for e in ("", "fold_") for r in ("aff", "jac")]

# the error clause as a product: entry point x size class x error kind (Fold has no scalar vector: task count only;
# a scalar vector cannot be shorter than an empty point vector)
_ERR = ["err:%s/n=%s/%s%s.MultiExp" % (k, n, g, r)
        for k in ("nbtasks", "len_short", "len_long", "len_short+nbtasks", "len_long+nbtasks")
        for n in ("0", "1", "2", "small", "large") for g in ("G1", "G2") for r in ("Affine", "Jac")
        if not (k.startswith("len_short") and n == "0")]
_ERR += ["err:nbtasks/n=%s/%s%s.Fold" % (n, g, r) for n in ("0", "1", "2", "small", "large")
         for g in ("G1", "G2") for r in ("Affine", "Jac")]
# constructed cancellations (total / upper-vs-lower window / weighted bucket sum / embedded variants / one leaf of a halved call)
_CANCEL = ["result:O_by_cancellation"]
for _k in ("total", "windows", "buckets", "emb_windows", "emb_buckets", "emb_leaf"):
    _CANCEL += ["points:cancel:" + _k, "cancel:%s/recv:aff" % _k, "cancel:%s/recv:jac" % _k, "cancel:%s/n>=769" % _k]
_COMMON += _ERR + _CANCEL

# white-box processor table as a product: every entry of getChunkProcessorG1/G2 (one extended-Jacobian entry per window
# size incl. the last-window sizes, one batch-affine entry per window size >= 10) of every curve must have been executed
_FR_BITS = {"bn254": 254, "bls12-377": 253, "bls12-381": 255, "bls24-315": 253, "bls24-317": 255, "bw6-633": 315,
            "bw6-761": 377, "secp256k1": 256, "grumpkin": 254}
_CS = {c: list(range(4, 17)) for c in _FR_BITS}
_CS.update({"bw6-633": [4, 5, 6, 8, 12, 16], "bw6-761": [4, 5, 8, 10, 16], "secp256k1": list(range(4, 16))})


def _last_c(c, bits):
    return c + 1 - (-(-bits // c) * c - bits)


_PROC = []
for _c in _FR_BITS:
    for _g in (("G1", "G2") if _c in PAIRING else ("G1",)):
        _ent = set()
        for _w in _CS[_c]:
            _ent.add((_w, "jacobian"))
            _ent.add((_last_c(_w, _FR_BITS[_c]), "jacobian"))
            if _w >= 10:
                _ent.add((_w, "batchaffine"))
        _PROC += ["wb:inner/%s/%s/c:%d/processor:%s" % (_c, _g, w, k) for (w, k) in sorted(_ent)]
_COMMON += _PROC

PROP = dict(
    rule=("one evaluation = one MultiExp/Fold call (receiver G1Affine/G1Jac/G2Affine/G2Jac) on a generated (points, scalars, NbTasks, "
          "GOMAXPROCS) compared with the reference value; non-trivial when n >= 2 and at least one of: a repeated, opposite or "
          "infinite point, a zero or r-1 scalar, NbTasks < NumCPU (semaphore path), the batch-affine processor selected "
          "(c >= 10 and enough buckets filled), an overweight chunk (split in two), a constructed cancellation (total, window, "
          "bucket or leaf sum exactly O); error cases (length mismatch, NbTasks > 1024) "
          "count as non-trivial; distinct = distinct (group, inputs hash, config) keys"),
    assumptions=[
        "reference = ref.Curve affine chord-and-tangent law over math/big (no gnark-crypto code); every input point has a discrete "
        "logarithm known to the harness with respect to the generator validated by inst.GetCurve (on the documented curve, prime order r): "
        "pool points are [a_k]G computed by the reference, the all-distinct table [1..n]G comes from the library's "
        "BatchScalarMultiplication and is validated against the reference (every entry up to 2^15 by the reference addition chain, "
        "a sample of 260 entries above); expected value = [sum ±s_i·dlog_i mod r]G by one reference multiplication",
        "inputs are subgroup points (MSM documents no subgroup check), scalars are reduced fr.Element values",
        "schedules: only those the Go runtime produces under GOMAXPROCS in {1,2,3,8,16}, NbTasks over the lattice "
        "{<=0, 1..NumCPU-1, NumCPU.., 1024}, and -race instrumentation in the thorough tier; no systematic interleaving exploration",
        "class labels (window size c, processor, overweight split, recursion) come from a harness re-implementation of the documented "
        "cost formulas and digit recoding; for n >= 20000 the window size of unsplit calls is confirmed black-box from the bytes allocated "
        "by the call (label c:N/confirmed_by_allocation); labels never decide a verdict",
        "termination: a call is a violation only when (a) a goroutine dump proves a deadlock (every gnark-crypto goroutine parked, two "
        "identical snapshots) or (b) it has consumed more process CPU time than max(120 CPU-s, 1000 x median CPU of same-shape calls) "
        "+ 2 CPU-ms per input point and is still running inside gnark-crypto at two probes >= 10 s apart (busy non-termination; CPU time "
        "does not depend on machine load); a wall-clock deadline (max(60 s, 100 x median) + 3 ms per point, extended up to 10x while the "
        "call is alive and below its CPU allowance) without either proof is reported as inconclusive (exit 2), never as a violation",
        "white-box overlay (unexported partitionScalars/_innerMsmG1/_innerMsmG2): G1 against a big.Int affine reference written inside the "
        "overlay file; G2 (processor-table sweep) against [sum s_i k_i]G2 by one public ScalarMultiplication on dlog-known multiples of the "
        "G2 generator and against the same call with window size 4",
        "stark-curve has no MultiExp; bw6-633 implements c in {4,5,6,8,12,16}, bw6-761 {4,5,8,10,16}, secp256k1 4..15",
    ],
    mandatory=dict(quick=_CS_QUICK + _COMMON, thorough=["c:%d" % c for c in range(4, 17)] + _COMMON),
    jobs=[
        dict(name="basic", pkg="c04", run="^TestC04_(Small|Fold|Errors)$", shards=GROUPS, checks=(120, 1500), weight=2,
             timeout=(3600, 14400)),
        dict(name="errors", pkg="c04", run="^TestC04_ErrorsProduct$", shards=GROUPS, checks=(3, 25), weight=1,
             timeout=(3600, 14400)),
        dict(name="window", pkg="c04", run="^TestC04_Window$", shards=_window_fast, checks=(160, 1500), weight=5,
             timeout=(3600, 14400)),
        dict(name="window_fp4", pkg="c04", run="^TestC04_Window$", shards=_window_slow, checks=(50, 400), weight=6,
             timeout=(3600, 14400)),
        dict(name="big16", pkg="c04", run="^TestC04_Big$", tiers=("quick",), shards=[_sh("bn254/G1")], checks=(4, 4),
             env={"VERIF_C04_CMIN": "16", "VERIF_C04_CMAX": "16"}, weight=9, timeout=(3600, 14400)),
        dict(name="big", pkg="c04", run="^TestC04_Big$", tiers=("thorough",), shards=GROUPS, checks=(12, 12), weight=9,
             timeout=(3600, 14400)),
        dict(name="race", pkg="c04", run="^TestC04_(Small|Window)$", tiers=("thorough",), race=True, shards=_race,
             checks=(60, 300), weight=4, timeout=(3600, 14400)),
        dict(name="selftest", pkg="c04", run="^TestC04_WatchdogSelfTest$", rapid=False, timeout=(3600, 14400)),
        dict(name="regress", pkg="c04", run="^TestC04_Regress", rapid=False),
    ] + [
        # white-box (overlay): signed-digit recoding identity for every c, and _innerMsmG1 called directly with every
        # implemented window size (c = 14..16 and their batch-affine processors on a few thousand points)
        dict(name="wb." + c, kind="overlay", pkg="ecc/" + c, run="^TestVerifC04_(Digits|InnerMsm)$", checks=(100, 1500), weight=3,
             timeout=(3600, 14400))
        for c in CURVES if c != "stark-curve"
    ] + [
        # white-box processor-table sweep: every (window size, processor kind) entry of G1 and G2, once per iteration
        dict(name="wbproc." + c, kind="overlay", pkg="ecc/" + c, run="^TestVerifC04_Processors", checks=(1, 6), weight=4,
             timeout=(3600, 14400))
        for c in CURVES if c != "stark-curve"
    ],
)

PROP.update(
    technique=("property-based testing (rapid) of MultiExp/Fold against a math/big reference curve model with dlog-known inputs, "
               "structured point-multiset and scalar generators, sizes derived from the window-size cost formula, NbTasks x GOMAXPROCS "
               "sweep, metamorphic relations, goroutine-dump deadlock watchdog, -race build in the thorough tier"),
    level_text=("Generated-input search: every MultiExp/Fold receiver of the 16 curve groups is compared with an independent reference on "
                "inputs constructed to hit the bucket method's special paths (repeats, P/-P, infinity, digit-boundary scalars, overweight "
                "chunks, every implemented window size) under varied task counts and GOMAXPROCS. Exploration, not proof: the input and "
                "schedule spaces are unbounded; the structured generators reach the paths random tests do not."),
    level_note="trusts math/big, the reference curve law and the harness adapters; interleavings limited to what the Go scheduler yields",
)
