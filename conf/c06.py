"""C06 job table: extension-field and GT operations agree with generic arithmetic in F_p^k."""
from conf.common import *  # noqa

_TOWERS = {
    "bn254": ["E2", "E6", "E12"], "bls12-377": ["E2", "E6", "E12"], "bls12-381": ["E2", "E6", "E12"],
    "bls24-315": ["E2", "E4", "E12", "E24"], "bls24-317": ["E2", "E4", "E12", "E24"],
    "bw6-761": ["E3", "E6"], "bw6-633": ["E3", "E6"],
    "koalabear": ["E2", "E4"], "babybear": ["E2", "E4"], "goldilocks": ["E2"],
}
_CORE = ["bn254", "bls12-381", "bls24-315", "bw6-761"]
_REST = ["bls12-377", "bls24-317", "bw6-633"]
_SMALL = ["koalabear", "babybear", "goldilocks"]
_HI = {"E12", "E24"}          # 12- and 24-dimensional levels (reference product 144 / 576 base multiplications)


def _levels(curves, hi):
    return [c + "/" + l for c in curves for l in _TOWERS[c] if (l in _HI) == hi]


def _wb(curves, checks):
    return [dict(name="wb." + c, kind="overlay", pkg="ecc/%s/internal/fptower" % c, run="^TestVerifC06_", checks=checks)
            for c in curves]


PROP = dict(
    rule=("rapid-generated (tower level, method, operands): every exported method of every tower type is discovered by reflection and "
          "compared with the math/big reference tower; operands come from the field boundary lattice with every zero pattern of "
          "sub-coordinates, 0, 1, -1, embedded base-field and subfield elements, unit monomials. A case is non-trivial when an operand "
          "has at least one zero sub-coordinate (first-extension granularity), or a cyclotomic / GT / constructed-Karabina-witness input "
          "goes to a specialised routine, or it is a sparse product, square root or exponentiation; distinct = distinct "
          "(level, method, operands) hashes"),
    assumptions=[
        "reference = nested schoolbook extensions over math/big (harness/internal/ref/tower.go), evaluated through its own tabulated "
        "basis products (ref/tabfld.go, cross-checked against the schoolbook product at start-up); Frobenius maps by exponentiation x^(p^k)",
        "tower constants (non-residues, twist coefficient) and seeds are transcribed from the package documentation and validated "
        "numerically (irreducibility, r(x0) = r, generator on the twist)",
        "package-level routines of the internal tower packages (BatchInvertE*, Mul034By034/Mul014By014/..., BatchDecompressKarabina, "
        "Batch(De)CompressTorus, E6D of bw6-761) are compared white-box with the generic routine of the same package, which the "
        "black-box part compares with the reference",
        "cyclotomic-only routines receive cyclotomic inputs only (reference easy part, reference powers of the library pairing value "
        "e(G1,G2) validated to have order r, small-order elements, closed-form witnesses with g3=0 / g5=0); E2/E4.Sqrt is asserted only "
        "on squares (documented: the caller must test with Legendre)",
        "amd64 host with ADX and AVX-512; other code paths are decided by C09",
    ],
    mandatory_all=["compressed_pattern_g1g2g3g5:xx0x", "compressed_pattern_g1g2g3g5:xxx0", "excluded_input_error",
                   "member:true", "member:false", "x:zero", "x:minus_one", "karabina_g3_zero", "karabina_g5_zero", "len=0",
                   "glv:short_long", "glv:long_short", "glv:zero_long", "glv:long_zero", "glv:short_short", "glv:long_long",
                   "acc:cancel_all,len%4=0", "acc:cancel_coord,len%4=0", "acc:coord_qm1,len%4=0", "acc:coord_one,len%4=0", "acc:max_sum_2q-2,len%4=0",
                   "kwords:00x0", "kwords:0x00", "kwords:x000", "kwords:xxx0", "kwords:xx0x", "kwords:x0xx", "kwords:0xxx", "kwords_negative",
                   "glv_len:short_over", "glv_len:w64_over", "glv_len:over_short", "glv_len:over_w64", "glv_len:w64_long", "glv_len:long_w64"],
    jobs=[
        dict(name="ring_lo", pkg="c06", run="^TestC06_Ring$", shards=_levels(_CORE + _SMALL, False), checks=(6000, 40000)),
        dict(name="ring_hi", pkg="c06", run="^TestC06_Ring$", shards=_levels(_CORE, True), checks=(3500, 25000), weight=3),
        dict(name="ring_lo_rest", pkg="c06", run="^TestC06_Ring$", shards=_levels(_REST, False), checks=(1000, 40000)),
        dict(name="ring_hi_rest", pkg="c06", run="^TestC06_Ring$", shards=_levels(_REST, True), checks=(600, 25000), weight=2),
        dict(name="cyclo", pkg="c06", run="^TestC06_Cyclo$", shards=["bn254", "bls12-381", "bw6-761"], checks=(1100, 5000), seeds=(3, 6), weight=4),
        dict(name="cyclo24", pkg="c06", run="^TestC06_Cyclo$", shards=["bls24-315"], checks=(350, 2500), seeds=(5, 10), weight=5),
        dict(name="cyclo_rest", pkg="c06", run="^TestC06_Cyclo$", shards=["bls12-377", "bw6-633"], checks=(300, 5000), seeds=(2, 6), weight=3),
        dict(name="cyclo24_rest", pkg="c06", run="^TestC06_Cyclo$", shards=["bls24-317"], checks=(150, 2500), seeds=(3, 10), weight=4),
        dict(name="glv", pkg="c06", run="^TestC06_GLVExp$", shards=["bn254", "bls12-381", "bw6-761"], checks=(700, 6000), seeds=(2, 4), weight=3),
        dict(name="glv24", pkg="c06", run="^TestC06_GLVExp$", shards=["bls24-315"], checks=(150, 1500), seeds=(2, 4), weight=3),
        dict(name="glv_rest", pkg="c06", run="^TestC06_GLVExp$", shards=["bls12-377", "bw6-633"], checks=(300, 6000), seeds=(1, 4), weight=2),
        dict(name="glv24_rest", pkg="c06", run="^TestC06_GLVExp$", shards=["bls24-317"], checks=(100, 1500), seeds=(1, 4), weight=2),
        dict(name="small", pkg="c06", run="^TestC06_SmallKernels$", shards=_SMALL, checks=(4000, 60000)),
        dict(name="regress", pkg="c06", run="^TestC06_Regress", shards=PAIRING, rapid=False, weight=2),
    ] + _wb(_CORE, (1500, 20000)) + _wb(_REST, (500, 20000)),
)

PROP.update(
    technique="property-based testing (rapid) against a math/big reference tower; reflective discovery of every tower method; "
              "self-calibrated sparse embeddings; constructed cyclotomic witnesses for the Karabina special case",
    level_text=("Generated-input search: every exported method of every extension level (E2/E6/E12, E2/E4/E12/E24, E3/E6 of the seven "
                "pairing curves; E2/E4 of koalabear, babybear, goldilocks) is compared with an independent reference tower on operands with "
                "constructed zero patterns, and every specialised routine (sparse products, cyclotomic and compressed squarings with "
                "decompression, torus compression, fixed-seed / 2-NAF / GLV exponentiation, batch inversion, multiply-accumulate kernels, "
                "GT membership) with the generic reference computation on cyclotomic / GT inputs including closed-form witnesses for the "
                "measure-zero branches. Exploration, not proof: appropriate for a property quantified over fields of 2^62..2^7600 elements "
                "whose failures sit on algebraically special operands that the generators construct."),
    level_note="trusts math/big and the reflective adapters; internal package-level routines only relative to the generic routines; "
               "arm64 assembly not executed (amd64 host)",
)
