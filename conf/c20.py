"""C20 job table: polynomial values are invariant under every change of representation."""
from conf.common import *  # noqa

def _curves(tier):
    """All seven instantiations in both tiers (the quick tier costs about 6 CPU-minutes, well inside its budget;
    a rotating subset would leave a defect in one generated copy unseen at a given seed)."""
    return list(PAIRING)


def _poly_fields(tier):
    """fr/polynomial also exists for grumpkin (no iop/fft there)."""
    return _curves(tier) + ["grumpkin"]


PROP = dict(
    rule=("a case is one history (initial form, operation sequence, probes) of one polynomial object, or one call of a derived "
          "builder / fr/polynomial function; non-trivial when the history has >= 2 basis/layout conversions, or a probe uses a "
          "shift != 0, or evaluates at a domain/coset point (incl. 1), or the size is 1, or the history contains a "
          "WriteTo->ReadFrom round-trip; every builder / fr/polynomial case is compared with its definition and counts as "
          "non-trivial unless the definition is undefined there (zero denominator); distinct = distinct (curve, history/inputs) hashes"),
    assumptions=[
        "reference = coefficient list over math/big (harness/internal/ref/poly.go): Horner evaluation, evaluation tables on "
        "<w> and s<w> point by point, interpolation by the Lagrange product formula, multilinear extension by the sum formula; "
        "no FFT and no gnark-crypto code",
        "w = Domain.Generator and s = Domain.FrMultiplicativeGen are taken from the library and validated by the reference "
        "(w has order exactly n, s^n != 1, fft.Generator(n) = w, Generator(2n)^2 = Generator(n))",
        "Evaluate in LagrangeCoset basis is asserted only after ToLagrangeCoset has stored the coset (DESIGN §11); domains are "
        "created with precomputed tables",
        "conversion on a larger domain (grow) is generated for Canonical objects in both layouts, incl. objects wrapping buf[:n] of a "
        "buffer with non-zero spare capacity; for Lagrange/LagrangeCoset objects the domain passed must be the one the values live "
        "on (the object does not record it): another cardinality is a caller error, not generated (the library does not reject it)",
        "coset shifts: every conversion of an object that is not in LagrangeCoset basis is handed a domain whose coset shift is one "
        "of {package default, two fft.WithShift constants}, an object in LagrangeCoset basis the domain of its coset; "
        "DivideByXMinusOne gets a small and a big domain with independent shifts (the numerator lives on the coset of the big one); "
        "the reference always computes with the shift of the domain actually involved",
        "a polynomial is one record of a stream: WriteTo/ReadFrom are asserted to write/consume exactly their encoding and to return "
        "that count (also on failing writers and truncated streams), which is how callers store several objects on one stream",
        "sizes that are not a power of two (3, 5, 6, 7, 12, 13, 17, 31, 33) are objects like any other: the bare coefficient vector "
        "(Canonical/Regular, convertible only on a larger domain) and every form on the next power of two with SetSize; Shift(k) "
        "means p(w^k X) with w = fft.Generator(size) of order NextPowerOfTwo(size) (what Evaluate implements), for every int k; the "
        "uint32 shift field of the encoding keeps k modulo 2^32, which is congruent modulo that order, so every int shift must "
        "survive WriteTo->ReadFrom (checked on the decoded object before anything else touches its shift)",
        "GetCoeff in Canonical basis is asserted for shift 0 only (the doc comment does not define shifted coefficients)",
        "the layout left behind by a basis conversion is not documented: the model adopts the flag the object reports and asserts "
        "that flag and stored entries agree",
        "not asserted (undocumented): Polynomial.Sub / Equal on mismatching lengths, Add/Eval/InterpolateOnRange on empty input, "
        "MultiLin.Evaluate with fewer coordinates than variables, ratio builders when a denominator factor vanishes; "
        "fr/polynomial exported functions not called: Pool.PrintPoolStats (prints to stdout), MultiLin.FoldParallel's untouched upper half",
        "fix patches /verif/fixes/F12[a-g,i]-*.patch are applied to the /repo working tree (defect cluster F12, DESIGN §6)",
    ],
    mandatory_all=["eval_x:domain", "eval_x:coset", "eval_shift:neg", "eval_shift:gt5", "eval_shift:ge_size", "coeff_shift:neg",
                   "last_op:WriteRead", "last_op:GrowCoset", "size:1", "op:ShallowClone", "mode:pipeline", "mode:satisfied",
                   "mode:shuffled", "reuse_same_n", "other_n_after_cached", "op:Fold", "op:Eq", "linear_lagrange_semantic",
                   "F12a", "F12b", "F12c", "F12d", "F12e", "F12f", "F12g",
                   "grow_from:canonical/bitreverse", "grow_from:canonical/regular", "grow_into_spare", "init_spare_capacity",
                   "polys:7+", "eval_after_Clone:lagrangecoset/regular", "eval_after_Clone:lagrangecoset/bitreverse",
                   "eval_after_ShallowClone:lagrangecoset/regular", "eval_after_WriteRead:lagrangecoset/bitreverse",
                   "shift:small", "shift:big", "shift:both_diff", "shift:both_same", "domshift:custom", "domshift_changes",
                   "op:FoldParallel", "op:FoldParallelPool", "chunk:odd_start_odd_len", "chunk:odd_start_even_len",
                   "chunk:even_start_odd_len", "op:PoolClone",
                   "reader:plain_wrapper", "reader:one_byte", "reader:data_err", "reader:bufio.Reader", "stream:two_objects",
                   "stream:foreign_bytes_between", "stream:truncated", "writer:failing_partial=true",
                   "roundtrip:size_not_pow2+shift_outside_[0,size)", "roundtrip:negative_shift", "roundtrip:shift_ge_nextpow2",
                   "roundtrip:shift_beyond_uint32", "size_not_pow2", "init_bare_vector", "size:3", "size:12", "F12i"],
    jobs=[
        dict(name="regress", pkg="c20", run="^TestC20_(Regress.*|RefSelf)$", rapid=False),
        dict(name="exhaustive", pkg="c20", run="^TestC20_Exhaustive$", rapid=False, shards=_curves, seeds=(3, 8),
             timeout=(900, 7200), weight=10),
        dict(name="machine", pkg="c20", run="^TestC20_Machine$", shards=_curves, checks=(2500, 30000), weight=3),
        dict(name="builders", pkg="c20", run="^TestC20_(Expr|Quotient|RatioShuffled|RatioCopy)$", shards=_curves,
             checks=(700, 7000), weight=4),
        dict(name="stream", pkg="c20", run="^TestC20_Stream$", shards=_curves, checks=(1500, 15000)),
        dict(name="interpolate", pkg="c20", run="^TestC20_Interpolate$", shards=_poly_fields, checks=(300, 3000), weight=3),
        dict(name="frpoly", pkg="c20", run="^TestC20_(Poly|MultiLin)$", shards=_poly_fields, checks=(3000, 30000)),
    ],
)

PROP.update(
    technique=("bounded-exhaustive enumeration of conversion histories + rapid state machine + rapid properties of the derived "
               "builders, all against a coefficient-list reference polynomial over math/big; 7 scalar fields (+ grumpkin for fr/polynomial)"),
    level_text=("Generated-input search with an independent model: every operation sequence up to length 4 (5 thorough) over "
                "{ToCanonical, ToLagrange, ToLagrangeCoset, ToRegular, ToBitReverse, Clone, ShallowClone, WriteTo->ReadFrom, grow} "
                "from each of the 6 forms and sizes 1..64 (..1024 thorough) is executed and the object is compared after every step "
                "with a reference polynomial (stored entries, GetCoeff, Evaluate under 13 shifts at random, 0, 1, domain and coset "
                "points); longer histories by a rapid state machine; the derived builders and fr/polynomial against their "
                "definitions. The bounded history space is enumerated completely; coefficients, points and builder inputs are "
                "sampled, so the level is exploration."),
    level_note=("trusts math/big and the harness adapters; shifts beyond the listed classes, sizes above 2^10 and domains without "
                "precomputed tables are not visited"),
)
