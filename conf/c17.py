"""C17 job table: argument-system verifiers accept honest proofs and reject well-formed forgeries.
Part A (pairing-based: Pedersen, SHPLONK, fflonk, mpcsetup, kzg.MpcSetup) = harness/c17a, conf/c17a_jobs.py;
part B (permutation, plookup, FRI, Vortex) = harness/c17b, conf/c17b_jobs.py."""
from conf.common import *  # noqa
from conf import c17a_jobs as A
from conf import c17b_jobs as B

PROP = dict(
    rule=A.RULE + " || " + B.RULE,
    assumptions=A.ASSUMPTIONS + B.ASSUMPTIONS,
    mandatory_all=list(getattr(A, "MANDATORY", [])) + list(getattr(B, "MANDATORY", [])),
    jobs=A.JOBS + B.JOBS,
    level="fault_enumeration",
    technique=("property-based testing (rapid) with systematic forgery/tamper enumeration: reflective single-component substitution over every "
               "proof field (unexported included), targeted consistent forgeries per verifier check, and accept-iff-relation oracles evaluated "
               "'in the exponent' with a known trapdoor"),
    level_text=("Fault enumeration over proof objects: for each of the 8 schemes honest proofs of generated statements must verify, and every "
                "reflectively discovered component of the proof (and statement) is replaced by random / identity / donor / neighbour values; "
                "the expected verdict of every tampered object is computed by an independent oracle (scalar identity mod r for pairing-based "
                "schemes, math/big re-evaluation of the verifier's relations and a reference Merkle/FRI prover for the hash-based ones), so "
                "rejection is asserted exactly when the statement became false. Scheme-specific consistent forgeries cover each verifier check "
                "individually (one mutant per check was used to confirm necessity is detected). Not a soundness proof: statistical soundness "
                "(e.g. FRI with its single query round) is deliberately not asserted per instance."),
    level_note=("trusts math/big, crypto/sha256, the reference transcript/Merkle models, and (part A) the library's scalar multiplication and "
                "encoders for building inputs; known finding F15 (SHPLONK/fflonk claimed values unbound) is excluded and re-observed by a probe"),
)
