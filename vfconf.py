"""Job tables of the vf driver: which test binaries/tests decide which property, at which size."""

CURVES = ["bn254", "bls12-377", "bls12-381", "bls24-315", "bls24-317", "bw6-633", "bw6-761",
          "secp256k1", "stark-curve", "grumpkin"]
PAIRING = CURVES[:7]
FIELDS = [c + "/" + f for c in CURVES for f in ("fp", "fr")] + ["goldilocks", "koalabear", "babybear"]

PROPS = {}

PROPS["C01"] = dict(
    rule=("rapid-generated (op, operand tuple) per field from the two-domain boundary lattice; a case is "
          "non-trivial when an operand or the exact result (canonical or Montgomery form) has a limb in "
          "{0, 2^w-1, limb of q} or lies within 2 of 0/q, the unreduced sum/difference is within 1 of q/0, "
          "an exponent is outside [2,q-2], or a vector length is 0, not a multiple of 16, or >= 112; "
          "distinct = distinct (field, op, operands) hashes"),
    assumptions=["reference = math/big modular arithmetic (harness/internal/ref, no gnark-crypto code)",
                 "operands are reduced elements (constructed through SetBigInt of a reduced value)",
                 "amd64 host with ADX and AVX-512; other code paths are decided by C09"],
    jobs=[
        dict(name="unary", pkg="c01", run="^TestC01_Unary$", shards=FIELDS, checks=(4000, 60000)),
        dict(name="binary", pkg="c01", run="^TestC01_Binary$", shards=FIELDS, checks=(4000, 60000)),
        dict(name="vector", pkg="c01", run="^TestC01_Vector$", shards=FIELDS, checks=(700, 10000)),
        dict(name="regress", pkg="c01", run="^TestC01_Regress$", rapid=False),
    ],
)

PROPS["C01"].update(
    technique="property-based testing (rapid) against a math/big reference model, boundary-lattice generators, all 23 fields",
    level_text=("Generated-input search: every arithmetic entry point of all 23 fields is compared with an independent "
                "math/big model on operands drawn from a two-domain (canonical and Montgomery) limb-boundary lattice, and "
                "every result is checked for canonical representation. Exploration, not proof: the right level for a "
                "property quantified over 2^254..2^761-element input spaces whose failures cluster on carry/borrow boundaries "
                "that the lattice constructs."),
    level_note="trusts math/big and the harness adapters; arm64 assembly not executed (amd64 host)",
)

MANIFEST_BASE = dict(
    version=1,
    setup_cmd="./vf setup",
    hooks=dict(
        guard="verif",
        enable="none needed: black-box harness module (replace => /repo) and white-box test files injected with "
               "`go test -tags verif -vet=off -overlay .build/overlay.json -modfile /verif/overlay/go.mod`; no hook lives in /repo",
        baseline_off_cmd="cd /repo && GOFLAGS=-mod=mod GOPROXY=off GOSUMDB=off GOTOOLCHAIN=local go test -json -vet=off -count=1 -timeout 25m ./...",
        source_commits=[],
        add_only=True,
    ),
    engines=[dict(name="vf", path="/verif/vf", serves_properties=[], kind_free_text=(
        "python driver: builds rapid/native-fuzz test binaries of /verif/harness against /repo's working tree, shards them over "
        "the cores, classifies outcomes, saves shrunk failures as replay files, merges coverage reports into evidence"))],
    notes="See DESIGN.md. Exit 2 of a check means inconclusive (timeout/build problem), never a violation.",
)

# properties not (yet) claimed, with the reason
NOT_CLAIMED = {
    "C%02d" % i: "check not implemented yet in this round (planned, see DESIGN.md §5/§12); no verdict is claimed"
    for i in range(1, 21)
}
