"""Job tables of the vf driver: one module conf/cNN.py per property, each defining PROP (a dict).

PROP keys: rule, assumptions, technique, level_text, level_note, [level], [mandatory_all], jobs=[...]
job keys:  name, pkg (harness package dir, or /repo package path when kind="overlay"), run (test regex),
           [kind="harness"|"overlay"], [tags], [race], [rapid=True], [shards=[inst names | {name,inst,env}]],
           [checks=(quick,thorough)], [seeds=(q,t) number of PRNG shards], [timeout=(q,t) seconds], [tiers],
           [env], [extra], [weight], [shrinktime]
"""
import glob, importlib, os

from conf.common import *  # noqa

PROPS = {}
for _f in sorted(glob.glob(os.path.join(os.path.dirname(os.path.abspath(__file__)), "conf", "c[0-9][0-9].py"))):
    _n = os.path.basename(_f)[:-3]
    _m = importlib.import_module("conf." + _n)
    PROPS[_n.upper()] = _m.PROP

MANIFEST_BASE = dict(
    version=1,
    setup_cmd="./vf setup",
    hooks=dict(
        guard="verif",
        enable="none needed: black-box harness module (replace => /repo) and white-box test files injected with "
               "`go test -tags verif -vet=off -overlay .build/overlay.json -modfile /verif/overlay/go.mod`; no hook lives in /repo",
        baseline_off_cmd="cd /repo && GOFLAGS=-mod=mod GOPROXY=off GOSUMDB=off GOTOOLCHAIN=local go test -json -vet=off -count=1 -timeout 25m ./...",
        source_commits=[],
        add_only=True,
    ),
    engines=[dict(name="vf", path="/verif/vf", serves_properties=[], kind_free_text=(
        "python driver: builds rapid/native-fuzz test binaries of /verif/harness against /repo's working tree, shards them over "
        "the cores, classifies outcomes, saves shrunk failures as replay files, merges coverage reports into evidence"))],
    notes="See DESIGN.md. Exit 2 of a check means inconclusive (timeout/build problem), never a violation.",
)

# properties not claimed, with the reason (none: every listed property is decided by a check)
NOT_CLAIMED = {}
