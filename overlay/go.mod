module github.com/consensys/gnark-crypto

go 1.23.0

toolchain go1.23.8

require (
	pgregory.net/rapid v1.3.0
	github.com/bits-and-blooms/bitset v1.20.0
	github.com/consensys/bavard v0.1.31-0.20250406004941-2db259e4b582
	github.com/leanovate/gopter v0.2.11
	github.com/mmcloughlin/addchain v0.4.0
	github.com/spf13/cobra v1.8.1
	github.com/stretchr/testify v1.10.0
	golang.org/x/crypto v0.35.0
	golang.org/x/sync v0.11.0
	golang.org/x/sys v0.30.0
	gopkg.in/yaml.v2 v2.4.0
)

require (
	github.com/davecgh/go-spew v1.1.1 // indirect
	github.com/inconshreveable/mousetrap v1.1.0 // indirect
	github.com/kr/pretty v0.3.1 // indirect
	github.com/pmezard/go-difflib v1.0.0 // indirect
	github.com/spf13/pflag v1.0.6 // indirect
	gopkg.in/check.v1 v1.0.0-20201130134442-10cb98267c6c // indirect
	gopkg.in/yaml.v3 v3.0.1 // indirect
	rsc.io/tmplfunc v0.0.3 // indirect
)
