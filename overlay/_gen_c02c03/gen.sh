#!/bin/bash
# gen.sh <curve dir> <package name> <groups...>
set -e
cd /verif/overlay/_gen_c02c03
dir=$1; pkg=$2; shift 2
out=/verif/overlay/ecc/$dir
mkdir -p $out
for prop in c02 c03; do
  f=$out/zz_verif_${prop}_test.go
  : > $f
done
for G in "$@"; do
  g=$(echo $G | tr 'G' 'g')
  for prop in c02 c03; do
    tmp=$(mktemp)
    sed -e "s/PKGID/$dir/g" -e "s/PKG/$pkg/g" -e "s/GROUP/$G/g" -e "s/gNJac/${g}Jac/g" -e "s/GN/$G/g" \
        -e "s#VERIF_FR#github.com/consensys/gnark-crypto/ecc/$dir/fr#" c0${prop:2}_g1.go.txt > $tmp
    if [ "$dir" = "stark-curve" ]; then
      sed -i -e 's/VERIF_SETINF/e.X.SetOne(); e.Y.SetOne()/' -e 's/VERIF_UNSAFE//' $tmp
    else
      sed -i -e 's/VERIF_SETINF/e.SetInfinity()/' -e "s/VERIF_UNSAFE/if !e.ZZ.IsZero() {\n\t\tvar u ${G}Jac\n\t\tu.unsafeFromJacExtended(e)\n\t\tb.FromJacobian(\&u)\n\t\tif !b.Equal(want) {\n\t\t\tt.Fatalf(\"%s: unsafeFromJacExtended = %s want %s\", what, b.String(), want.String())\n\t\t}\n\t}/" $tmp
    fi
    echo $tmp $G $prop
    mv $tmp $out/zz_verif_${prop}_${g}_test.go
  done
done
rm -f $out/zz_verif_c02_test.go $out/zz_verif_c03_test.go
gofmt -l $out || true
