#!/usr/bin/env python3
"""Generates the white-box overlay tests of the field packages (C01 inverseExp fall-back, C09 generic-vs-asm twins).
Files land in /verif/overlay/<package path>/zz_verif_*_test.go and are injected with `go test -overlay`."""
import os, re, glob

REPO = "/repo"
CURVES = ["bn254","bls12-377","bls12-381","bls24-315","bls24-317","bw6-633","bw6-761","secp256k1","stark-curve","grumpkin"]
PKGS = ["ecc/%s/%s" % (c, f) for c in CURVES for f in ("fp", "fr")] + ["field/goldilocks", "field/koalabear", "field/babybear"]

REP = '''//go:build verif

package %(pkg)s

// Minimal stand-alone copy of the harness reporting (the library module cannot import the harness module).

import (
	"encoding/binary"
	"encoding/json"
	"hash/fnv"
	"os"
	"sort"
	"sync"
	"testing"
)

type verifStats struct {
	Evaluations int64               `json:"evaluations"`
	NonTrivial  int64               `json:"nontrivial"`
	Classes     map[string]int64    `json:"classes"`
	Samples     map[string][]string `json:"samples"`
}

var (
	verifMu     sync.Mutex
	verifTests  = map[string]*verifStats{}
	verifHashes = map[uint64]struct{}{}
)

func verifCase(test, key string, nontrivial bool, classes ...string) {
	verifMu.Lock()
	defer verifMu.Unlock()
	s := verifTests[test]
	if s == nil {
		s = &verifStats{Classes: map[string]int64{}, Samples: map[string][]string{}}
		verifTests[test] = s
	}
	s.Evaluations++
	if nontrivial {
		s.NonTrivial++
		h := fnv.New64a()
		h.Write([]byte(test + "\\x00" + key))
		verifHashes[h.Sum64()] = struct{}{}
	}
	for _, c := range classes {
		s.Classes[c]++
		if len(s.Samples[c]) < 2 {
			if len(key) > 300 {
				key = key[:300]
			}
			s.Samples[c] = append(s.Samples[c], key)
		}
	}
}

func TestMain(m *testing.M) {
	code := m.Run()
	if p := os.Getenv("VERIF_REPORT"); p != "" {
		out := map[string]interface{}{"tests": verifTests, "distinct_hashed": len(verifHashes), "bulk_distinct": 0, "known_findings": []string{}}
		b, _ := json.Marshal(out)
		os.WriteFile(p, b, 0o644)
		hs := make([]uint64, 0, len(verifHashes))
		for h := range verifHashes {
			hs = append(hs, h)
		}
		sort.Slice(hs, func(i, j int) bool { return hs[i] < hs[j] })
		buf := make([]byte, 8*len(hs))
		for i, h := range hs {
			binary.LittleEndian.PutUint64(buf[8*i:], h)
		}
		os.WriteFile(p+".hashes", buf, 0o644)
	}
	os.Exit(code)
}
'''

HEAD = '''//go:build verif

package %(pkg)s

import (
	"fmt"
	"math/big"
	"testing"

	"pgregory.net/rapid"
)

// verifElem draws a reduced element from the limb-boundary lattice (canonical or Montgomery domain) or uniformly.
func verifElem(t *rapid.T, label string) (Element, *big.Int) {
	q := Modulus()
	var v *big.Int
	mode := rapid.IntRange(0, 3).Draw(t, label+"m")
	switch mode {
	case 0:
		v = rapid.SampledFrom([]*big.Int{big.NewInt(0), big.NewInt(1), big.NewInt(2), new(big.Int).Sub(q, big.NewInt(1)), new(big.Int).Sub(q, big.NewInt(2)), new(big.Int).Rsh(q, 1), new(big.Int).Add(new(big.Int).Rsh(q, 1), big.NewInt(1))}).Draw(t, label+"s")
	case 1, 2:
		v = new(big.Int)
		for i := 0; i < Limbs; i++ {
			var l uint64
			switch rapid.IntRange(0, 5).Draw(t, label+"l") {
			case 0:
				l = 0
			case 1:
				l = 1
			case 2:
				l = ^uint64(0)
			case 3:
				l = 1 << 63
			case 4:
				l = new(big.Int).Rsh(q, uint(64*(Limbs-1-i))).Uint64()
			default:
				l = rapid.Uint64().Draw(t, label+"v")
			}
			v.Lsh(v, 64).Or(v, new(big.Int).SetUint64(l))
		}
		v.Mod(v, q)
	default:
		b := rapid.SliceOfN(rapid.Byte(), Bytes+8, Bytes+8).Draw(t, label+"u")
		v = new(big.Int).SetBytes(b)
		v.Mod(v, q)
	}
	var e Element
	if mode == 2 { // lattice applied to the Montgomery limbs: write them raw
		var bs [Bytes]byte
		v.FillBytes(bs[:])
		for i := 0; i < Limbs && Bytes >= 8; i++ {
			e[i] = %(limbcast)s(new(big.Int).Rsh(v, uint(64*i)).Uint64())
		}
		if Bytes < 8 {
			e[0] = %(limbcast)s(v.Uint64())
		}
		v = e.BigInt(new(big.Int))
	} else {
		e.SetBigInt(v)
	}
	return e, v
}

func verifCanon(t *rapid.T, what string, z *Element) {
	if !z.smallerThanModulus() {
		t.Fatalf("%%s: result not reduced: %%v", what, [Limbs]%(limbtype)s(*z))
	}
}
'''

INVEXP = '''
// C01: the inversion fall-back (plain exponentiation) is almost never reached through Inverse; call it directly.
func TestVerifC01_InverseExp(t *testing.T) {
	rapid.Check(t, func(t *rapid.T) {
		x, xv := verifElem(t, "x")
		var z Element
		z.inverseExp(x)
		verifCanon(t, "inverseExp", &z)
		want := new(big.Int)
		if xv.Sign() != 0 {
			want.ModInverse(xv, Modulus())
		}
		if g := z.BigInt(new(big.Int)); g.Cmp(want) != 0 {
			t.Fatalf("inverseExp(%%s) = %%s, want %%s", xv, g, want)
		}
		var w Element
		w.Inverse(&x)
		if !w.Equal(&z) {
			t.Fatalf("Inverse(%%s) != inverseExp", xv)
		}
		verifCase("C01_WB_InverseExp/%(name)s", "%(name)s inverseExp("+xv.Text(16)+")", true, "inverseExp")
	})
}
'''

GENERIC = '''
// C09 (same process): every assembly-backed entry point equals its portable twin on the same operands.
func TestVerifC09_GenericTwins(t *testing.T) {
	rapid.Check(t, func(t *rapid.T) {
		x, xv := verifElem(t, "x")
		y, yv := verifElem(t, "y")
		key := fmt.Sprintf("%(name)s twins(%%s,%%s)", xv.Text(16), yv.Text(16))
%(body)s
		verifCase("C09_WB_GenericTwins/%(name)s", key, true, "generic_twins")
	})
}

func TestVerifC09_VectorTwins(t *testing.T) {
	rapid.Check(t, func(t *rapid.T) {
		n := rapid.OneOf(rapid.IntRange(0, 80), rapid.IntRange(100, 140), rapid.SampledFrom([]int{255, 256, 257, 512, 513})).Draw(t, "n")
		oa := rapid.IntRange(0, 7).Draw(t, "oa")
		a, b := make(Vector, n+oa)[oa:], make(Vector, n)
		k := rapid.IntRange(1, 4).Draw(t, "k")
		pool := make([]Element, k)
		for i := range pool {
			pool[i], _ = verifElem(t, "p")
		}
		ia := rapid.SliceOfN(rapid.IntRange(0, k-1), n, n).Draw(t, "ia")
		ib := rapid.SliceOfN(rapid.IntRange(0, k-1), n, n).Draw(t, "ib")
		for i := 0; i < n; i++ {
			a[i], b[i] = pool[ia[i]], pool[ib[i]]
		}
		r1, r2 := make(Vector, n), make(Vector, n)
		eq := func(op string) {
			for i := range r1 {
				if !r1[i].Equal(&r2[i]) || !r1[i].smallerThanModulus() {
					t.Fatalf("Vector.%%s[%%d/%%d]: exported %%v != generic %%v", op, i, n, r1[i], r2[i])
				}
			}
		}
		r1.Add(a, b)
		addVecGeneric(r2, a, b)
		eq("Add")
		r1.Sub(a, b)
		subVecGeneric(r2, a, b)
		eq("Sub")
		r1.Mul(a, b)
		mulVecGeneric(r2, a, b)
		eq("Mul")
		var c Element
		c = pool[0]
		r1.ScalarMul(a, &c)
		scalarMulVecGeneric(r2, a, &c)
		eq("ScalarMul")
		s1 := a.Sum()
		var s2 Element
		sumVecGeneric(&s2, a)
		if !s1.Equal(&s2) || !s1.smallerThanModulus() {
			t.Fatalf("Vector.Sum n=%%d: exported %%v != generic %%v", n, s1, s2)
		}
		p1 := a.InnerProduct(b)
		var p2 Element
		innerProductVecGeneric(&p2, a, b)
		if !p1.Equal(&p2) || !p1.smallerThanModulus() {
			t.Fatalf("Vector.InnerProduct n=%%d: exported %%v != generic %%v", n, p1, p2)
		}
		verifCase("C09_WB_VectorTwins/%(name)s", fmt.Sprintf("%(name)s n=%%d off=%%d", n, oa), n == 0 || n%%16 != 0 || n >= 112, "vector_twins")
	})
}
'''

for p in PKGS:
    src = "".join(open(f).read() for f in glob.glob(os.path.join(REPO, p, "*.go")) if not f.endswith("_test.go"))
    pkg = re.search(r"^package (\w+)", open(os.path.join(REPO, p, "element.go")).read(), re.M).group(1)
    small = "type Element [1]uint32" in src
    d = dict(pkg=pkg, name=p.replace("ecc/", "").replace("field/", ""), limbcast="uint32" if small else "uint64", limbtype="uint32" if small else "uint64")
    body = []
    if "func _mulGeneric(" in src:
        body.append('\t\tvar z1, z2 Element\n\t\tz1.Mul(&x, &y)\n\t\t_mulGeneric(&z2, &x, &y)\n\t\tif !z1.Equal(&z2) || !z2.smallerThanModulus() {\n\t\t\tt.Fatalf("Mul != _mulGeneric on %s: %v vs %v", key, z1, z2)\n\t\t}\n\t\tz1.Square(&x)\n\t\t_mulGeneric(&z2, &x, &x)\n\t\tif !z1.Equal(&z2) {\n\t\t\tt.Fatalf("Square != _mulGeneric(x,x) on %s", key)\n\t\t}')
    if "func _fromMontGeneric(" in src:
        body.append('\t\tf1, f2 := x, x\n\t\tf1.fromMont()\n\t\t_fromMontGeneric(&f2)\n\t\tif f1 != f2 {\n\t\t\tt.Fatalf("fromMont != _fromMontGeneric on %s", key)\n\t\t}')
    if "func _butterflyGeneric(" in src:
        body.append('\t\ta1, b1, a2, b2 := x, y, x, y\n\t\tButterfly(&a1, &b1)\n\t\t_butterflyGeneric(&a2, &b2)\n\t\tif a1 != a2 || b1 != b2 {\n\t\t\tt.Fatalf("Butterfly != _butterflyGeneric on %s", key)\n\t\t}')
    if "func _reduceGeneric(" in src:
        body.append('\t\tr1, r2 := x, x\n\t\treduce(&r1)\n\t\t_reduceGeneric(&r2)\n\t\tif r1 != r2 {\n\t\t\tt.Fatalf("reduce != _reduceGeneric on %s", key)\n\t\t}')
    d["body"] = "\n".join(body)
    out = HEAD % d
    if "func (z *Element) inverseExp(" in src:
        out += INVEXP % d
    out += GENERIC % d
    dst = os.path.join("/verif/overlay", p)
    os.makedirs(dst, exist_ok=True)
    open(os.path.join(dst, "zz_verif_rep_test.go"), "w").write(REP % d)
    open(os.path.join(dst, "zz_verif_wb_test.go"), "w").write(out)
print("generated", len(PKGS))
