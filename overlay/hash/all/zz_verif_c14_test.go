//go:build verif

package all

// C14 (registry): "To register all known hash functions in gnark-crypto, import the
// github.com/consensys/gnark-crypto/hash/all package" (doc of hash.RegisterHash and of package hash).
// This test binary imports nothing but hash/all (this package) and hash, so Available() shows exactly
// what hash/all registers.

import (
	"encoding/json"
	"os"
	"testing"

	"github.com/consensys/gnark-crypto/hash"
)

func TestVerifC14_AllRegistered(t *testing.T) {
	n := 0
	var missing []string
	for id := hash.Hash(0); id.String() != "unknown hash function"; id++ {
		n++
		if !id.Available() {
			missing = append(missing, id.String())
			continue
		}
		h := id.New()
		if h.Size() != id.Size() || len(h.Sum(nil)) != id.Size() {
			t.Errorf("%s: Hash.Size()=%d hasher.Size()=%d len(Sum(nil))=%d", id, id.Size(), h.Size(), len(h.Sum(nil)))
		}
	}
	if n < 19 {
		t.Fatalf("only %d hash identifiers enumerated", n)
	}
	if len(missing) > 0 {
		t.Errorf("importing hash/all does not register: %v", missing)
	}
	// minimal report in the format of verif/harness/internal/rep (the overlay module cannot import it)
	if p := os.Getenv("VERIF_REPORT"); p != "" {
		type st struct {
			Evaluations int64               `json:"evaluations"`
			NonTrivial  int64               `json:"nontrivial"`
			Classes     map[string]int64    `json:"classes"`
			Samples     map[string][]string `json:"samples"`
		}
		out := map[string]interface{}{
			"tests": map[string]st{"C14_AllRegistered(overlay hash/all)": {int64(n), int64(n), map[string]int64{"registry_id": int64(n)},
				map[string][]string{"registry_id": {"every hash.Hash id is Available() after importing only hash/all"}}}},
			"distinct_hashed": 0, "bulk_distinct": n, "known_findings": []string{},
		}
		b, _ := json.Marshal(out)
		os.WriteFile(p, b, 0o644)
	}
}
