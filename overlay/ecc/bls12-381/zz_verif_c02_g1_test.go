//go:build verif

package bls12381

// White-box part of C02 (G1): the unexported extended-Jacobian bucket arithmetic
// (g1JacExtended add, double, addMixed, subMixed, doubleMixed, doubleNegMixed, fromJacExtended,
// unsafeFromJacExtended) against the package's own affine group law, which the black-box part of
// C02 validates against the reference model. Generated from one template for G1 and G2.

import (
	"fmt"
	"math/big"
	"testing"

	"pgregory.net/rapid"
)

func verifC02G1Scalar(t *rapid.T, label string) *big.Int {
	switch rapid.IntRange(0, 3).Draw(t, label+"m") {
	case 0:
		return big.NewInt(int64(rapid.IntRange(-3, 3).Draw(t, label+"s")))
	case 1:
		return big.NewInt(rapid.Int64().Draw(t, label+"w"))
	default:
		b := rapid.SliceOfN(rapid.Byte(), 1, 40).Draw(t, label+"b")
		return new(big.Int).SetBytes(b)
	}
}

// verifC02G1Point draws a subgroup point (infinity included) in affine form.
func verifC02G1Point(t *rapid.T, label string) G1Affine {
	var p G1Affine
	if rapid.IntRange(0, 6).Draw(t, label+"inf") == 0 {
		return p
	}
	p.ScalarMultiplicationBase(verifC02G1Scalar(t, label))
	return p
}

// verifC02G1Ext returns an extended-Jacobian representative (x l^2, y l^3, l^2, l^3) of p.
func verifC02G1Ext(t *rapid.T, p *G1Affine, label string) (g1JacExtended, string) {
	var e g1JacExtended
	if p.IsInfinity() {
		e.SetInfinity()
		if rapid.Bool().Draw(t, label+"dirty") {
			// any (X,Y,0,0) is infinity
			var q G1Affine
			q.ScalarMultiplicationBase(big.NewInt(5))
			e.X, e.Y = q.X, q.Y
		}
		return e, "inf"
	}
	l := p.X // a field element of the right type
	cls := "ZZ!=1"
	switch rapid.IntRange(0, 3).Draw(t, label+"lm") {
	case 0:
		l.SetOne()
		cls = "ZZ=1"
	case 1:
		l.SetOne()
		l.Neg(&l)
	case 2:
		var q G1Affine
		q.ScalarMultiplicationBase(verifC02G1Scalar(t, label+"l"))
		l = q.Y
		if l.IsZero() {
			l.SetOne()
			cls = "ZZ=1"
		}
	default:
		l.Double(&l)
		if l.IsZero() {
			l.SetOne()
			cls = "ZZ=1"
		}
	}
	e.ZZ.Square(&l)
	e.ZZZ.Mul(&e.ZZ, &l)
	e.X.Mul(&p.X, &e.ZZ)
	e.Y.Mul(&p.Y, &e.ZZZ)
	return e, cls
}

func verifC02G1Check(t *rapid.T, what string, e *g1JacExtended, want *G1Affine) {
	var a, b G1Affine
	a.fromJacExtended(e)
	if !a.Equal(want) {
		t.Fatalf("%s: fromJacExtended (affine) = %s want %s", what, a.String(), want.String())
	}
	var j G1Jac
	j.fromJacExtended(e)
	b.FromJacobian(&j)
	if !b.Equal(want) {
		t.Fatalf("%s: fromJacExtended (Jacobian) = %s want %s", what, b.String(), want.String())
	}
	if !e.ZZ.IsZero() {
		var u G1Jac
		u.unsafeFromJacExtended(e)
		b.FromJacobian(&u)
		if !b.Equal(want) {
			t.Fatalf("%s: unsafeFromJacExtended = %s want %s", what, b.String(), want.String())
		}
	}
}

func TestVerifC02_G1JacExtended(t *testing.T) {
	rapid.Check(t, func(t *rapid.T) {
		P := verifC02G1Point(t, "P")
		var Q G1Affine
		rel := rapid.SampledFrom([]string{"O", "=P", "=P", "=-P", "=-P", "=2P", "indep", "indep", "indep"}).Draw(t, "rel")
		switch rel {
		case "O":
		case "=P":
			Q = P
		case "=-P":
			Q.Neg(&P)
		case "=2P":
			Q.Add(&P, &P)
		default:
			Q = verifC02G1Point(t, "Q")
		}
		var sum, diff, dbl, ndbl G1Affine
		sum.Add(&P, &Q)
		diff.Sub(&P, &Q)
		dbl.Add(&P, &P)
		ndbl.Neg(&dbl)

		pe, pc := verifC02G1Ext(t, &P, "pe")
		qe, qc := verifC02G1Ext(t, &Q, "qe")
		verifC02G1Check(t, "representative of P ["+pc+"]", &pe, &P)

		e := pe
		e.add(&qe)
		verifC02G1Check(t, "add ["+pc+","+qc+"] "+rel, &e, &sum)
		var d g1JacExtended
		d.double(&pe)
		verifC02G1Check(t, "double ["+pc+"]", &d, &dbl)
		e = pe
		e.addMixed(&Q)
		verifC02G1Check(t, "addMixed ["+pc+"] "+rel, &e, &sum)
		e = pe
		e.subMixed(&Q)
		verifC02G1Check(t, "subMixed ["+pc+"] "+rel, &e, &diff)
		e = qe // receiver content must not matter
		e.doubleMixed(&P)
		verifC02G1Check(t, "doubleMixed", &e, &dbl)
		e = qe
		e.doubleNegMixed(&P)
		verifC02G1Check(t, "doubleNegMixed", &e, &ndbl)

		var cls []string
		if P.IsInfinity() {
			cls = append(cls, "wb_P=O")
		}
		if Q.IsInfinity() {
			cls = append(cls, "wb_Q=O")
		}
		if P.Equal(&Q) && !P.IsInfinity() {
			cls = append(cls, "wb_P=Q")
		}
		if !P.IsInfinity() && !P.Equal(&Q) && sum.IsInfinity() {
			cls = append(cls, "wb_P=-Q")
		}
		if pc == "ZZ!=1" || qc == "ZZ!=1" {
			cls = append(cls, "wb_ZZ!=1")
		}
		verifCase("C02_WB_G1JacExtended/bls12-381", fmt.Sprintf("%s %s %s %s", P.String(), Q.String(), pe.ZZ.String(), qe.ZZ.String()), len(cls) > 0, cls...)
	})
}
