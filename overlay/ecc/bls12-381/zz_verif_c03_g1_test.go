//go:build verif

package bls12381

// White-box part of C03 (G1): mulGLV and mulWindowed agree on the same inputs (any integer
// scalar, any representative of a subgroup point). mulGLV is what the exported
// ScalarMultiplication calls and is validated against the reference by the black-box part.

import (
	"fmt"
	"math/big"
	"testing"

	"pgregory.net/rapid"

	"github.com/consensys/gnark-crypto/ecc/bls12-381/fr"
)

func verifC03G1Scalar(t *rapid.T) (*big.Int, string) {
	r := fr.Modulus()
	var s *big.Int
	cls := ""
	switch rapid.IntRange(0, 6).Draw(t, "sm") {
	case 0:
		s, cls = big.NewInt(int64(rapid.IntRange(0, 3).Draw(t, "tiny"))), "tiny"
	case 1:
		s, cls = new(big.Int).Add(r, big.NewInt(int64(rapid.IntRange(-2, 2).Draw(t, "d")))), "near_r"
	case 2:
		e := rapid.IntRange(0, 4*r.BitLen()).Draw(t, "e")
		s = new(big.Int).Lsh(big.NewInt(1), uint(e))
		s.Add(s, big.NewInt(int64(rapid.IntRange(-1, 1).Draw(t, "d"))))
		cls = "pow2"
	case 3:
		n := rapid.IntRange(1, 4*r.BitLen()/8).Draw(t, "n")
		s, cls = new(big.Int).SetBytes(rapid.SliceOfN(rapid.Byte(), n, n).Draw(t, "b")), "wide"
	default:
		n := (r.BitLen() + 7) / 8
		s = new(big.Int).SetBytes(rapid.SliceOfN(rapid.Byte(), n, n).Draw(t, "b"))
		s.Mod(s, r)
		cls = "mod_r"
	}
	if rapid.IntRange(0, 3).Draw(t, "neg") == 0 {
		s.Neg(s)
		cls = "neg_" + cls
	}
	return s, cls
}

func TestVerifC03_G1MulGLVvsWindowed(t *testing.T) {
	rapid.Check(t, func(t *rapid.T) {
		var pa G1Affine
		inf := rapid.IntRange(0, 7).Draw(t, "inf") == 0
		if !inf {
			pa.ScalarMultiplicationBase(new(big.Int).SetBytes(rapid.SliceOfN(rapid.Byte(), 1, 40).Draw(t, "k")))
		}
		var p G1Jac
		p.FromAffine(&pa)
		if !inf && rapid.Bool().Draw(t, "rescale") {
			// (X l^2, Y l^3, Z l) with l = 2Y
			l := pa.Y
			l.Double(&l)
			if !l.IsZero() {
				var l2, l3 = l, l
				l2.Square(&l)
				l3.Mul(&l2, &l)
				p.X.Mul(&p.X, &l2)
				p.Y.Mul(&p.Y, &l3)
				p.Z.Mul(&p.Z, &l)
			}
		}
		s, sc := verifC03G1Scalar(t)
		var a, b G1Jac
		a.mulGLV(&p, s)
		b.mulWindowed(&p, s)
		if !a.Equal(&b) {
			t.Fatalf("mulGLV != mulWindowed for s=%s (%s), P=%s: %s vs %s", s.Text(16), sc, pa.String(), a.String(), b.String())
		}
		nt := inf || s.Sign() <= 0 || s.BitLen() > fr.Modulus().BitLen()
		verifCase("C03_WB_G1MulGLVvsWindowed/bls12-381", fmt.Sprintf("%s %s", s.Text(16), pa.String()), nt, "wb_s:"+sc)
	})
}
