//go:build verif

package fr

import (
	"fmt"
	"math/big"
	"testing"

	"pgregory.net/rapid"
)

// verifElem draws a reduced element from the limb-boundary lattice (canonical or Montgomery domain) or uniformly.
func verifElem(t *rapid.T, label string) (Element, *big.Int) {
	q := Modulus()
	var v *big.Int
	mode := rapid.IntRange(0, 3).Draw(t, label+"m")
	switch mode {
	case 0:
		v = rapid.SampledFrom([]*big.Int{big.NewInt(0), big.NewInt(1), big.NewInt(2), new(big.Int).Sub(q, big.NewInt(1)), new(big.Int).Sub(q, big.NewInt(2)), new(big.Int).Rsh(q, 1), new(big.Int).Add(new(big.Int).Rsh(q, 1), big.NewInt(1))}).Draw(t, label+"s")
	case 1, 2:
		v = new(big.Int)
		for i := 0; i < Limbs; i++ {
			var l uint64
			switch rapid.IntRange(0, 5).Draw(t, label+"l") {
			case 0:
				l = 0
			case 1:
				l = 1
			case 2:
				l = ^uint64(0)
			case 3:
				l = 1 << 63
			case 4:
				l = new(big.Int).Rsh(q, uint(64*(Limbs-1-i))).Uint64()
			default:
				l = rapid.Uint64().Draw(t, label+"v")
			}
			v.Lsh(v, 64).Or(v, new(big.Int).SetUint64(l))
		}
		v.Mod(v, q)
	default:
		b := rapid.SliceOfN(rapid.Byte(), Bytes+8, Bytes+8).Draw(t, label+"u")
		v = new(big.Int).SetBytes(b)
		v.Mod(v, q)
	}
	var e Element
	if mode == 2 { // lattice applied to the Montgomery limbs: write them raw
		var bs [Bytes]byte
		v.FillBytes(bs[:])
		for i := 0; i < Limbs && Bytes >= 8; i++ {
			e[i] = uint64(new(big.Int).Rsh(v, uint(64*i)).Uint64())
		}
		if Bytes < 8 {
			e[0] = uint64(v.Uint64())
		}
		v = e.BigInt(new(big.Int))
	} else {
		e.SetBigInt(v)
	}
	return e, v
}

func verifCanon(t *rapid.T, what string, z *Element) {
	if !z.smallerThanModulus() {
		t.Fatalf("%s: result not reduced: %v", what, [Limbs]uint64(*z))
	}
}

// C01: the inversion fall-back (plain exponentiation) is almost never reached through Inverse; call it directly.
func TestVerifC01_InverseExp(t *testing.T) {
	rapid.Check(t, func(t *rapid.T) {
		x, xv := verifElem(t, "x")
		var z Element
		z.inverseExp(x)
		verifCanon(t, "inverseExp", &z)
		want := new(big.Int)
		if xv.Sign() != 0 {
			want.ModInverse(xv, Modulus())
		}
		if g := z.BigInt(new(big.Int)); g.Cmp(want) != 0 {
			t.Fatalf("inverseExp(%s) = %s, want %s", xv, g, want)
		}
		var w Element
		w.Inverse(&x)
		if !w.Equal(&z) {
			t.Fatalf("Inverse(%s) != inverseExp", xv)
		}
		verifCase("C01_WB_InverseExp/bls12-381/fr", "bls12-381/fr inverseExp("+xv.Text(16)+")", true, "inverseExp")
	})
}

// C09 (same process): every assembly-backed entry point equals its portable twin on the same operands.
func TestVerifC09_GenericTwins(t *testing.T) {
	rapid.Check(t, func(t *rapid.T) {
		x, xv := verifElem(t, "x")
		y, yv := verifElem(t, "y")
		key := fmt.Sprintf("bls12-381/fr twins(%s,%s)", xv.Text(16), yv.Text(16))
		var z1, z2 Element
		z1.Mul(&x, &y)
		_mulGeneric(&z2, &x, &y)
		if !z1.Equal(&z2) || !z2.smallerThanModulus() {
			t.Fatalf("Mul != _mulGeneric on %s: %v vs %v", key, z1, z2)
		}
		z1.Square(&x)
		_mulGeneric(&z2, &x, &x)
		if !z1.Equal(&z2) {
			t.Fatalf("Square != _mulGeneric(x,x) on %s", key)
		}
		f1, f2 := x, x
		f1.fromMont()
		_fromMontGeneric(&f2)
		if f1 != f2 {
			t.Fatalf("fromMont != _fromMontGeneric on %s", key)
		}
		a1, b1, a2, b2 := x, y, x, y
		Butterfly(&a1, &b1)
		_butterflyGeneric(&a2, &b2)
		if a1 != a2 || b1 != b2 {
			t.Fatalf("Butterfly != _butterflyGeneric on %s", key)
		}
		r1, r2 := x, x
		reduce(&r1)
		_reduceGeneric(&r2)
		if r1 != r2 {
			t.Fatalf("reduce != _reduceGeneric on %s", key)
		}
		verifCase("C09_WB_GenericTwins/bls12-381/fr", key, true, "generic_twins")
	})
}

func TestVerifC09_VectorTwins(t *testing.T) {
	rapid.Check(t, func(t *rapid.T) {
		n := rapid.OneOf(rapid.IntRange(0, 80), rapid.IntRange(100, 140), rapid.SampledFrom([]int{255, 256, 257, 512, 513})).Draw(t, "n")
		oa := rapid.IntRange(0, 7).Draw(t, "oa")
		a, b := make(Vector, n+oa)[oa:], make(Vector, n)
		k := rapid.IntRange(1, 4).Draw(t, "k")
		pool := make([]Element, k)
		for i := range pool {
			pool[i], _ = verifElem(t, "p")
		}
		ia := rapid.SliceOfN(rapid.IntRange(0, k-1), n, n).Draw(t, "ia")
		ib := rapid.SliceOfN(rapid.IntRange(0, k-1), n, n).Draw(t, "ib")
		for i := 0; i < n; i++ {
			a[i], b[i] = pool[ia[i]], pool[ib[i]]
		}
		r1, r2 := make(Vector, n), make(Vector, n)
		eq := func(op string) {
			for i := range r1 {
				if !r1[i].Equal(&r2[i]) || !r1[i].smallerThanModulus() {
					t.Fatalf("Vector.%s[%d/%d]: exported %v != generic %v", op, i, n, r1[i], r2[i])
				}
			}
		}
		r1.Add(a, b)
		addVecGeneric(r2, a, b)
		eq("Add")
		r1.Sub(a, b)
		subVecGeneric(r2, a, b)
		eq("Sub")
		r1.Mul(a, b)
		mulVecGeneric(r2, a, b)
		eq("Mul")
		var c Element
		c = pool[0]
		r1.ScalarMul(a, &c)
		scalarMulVecGeneric(r2, a, &c)
		eq("ScalarMul")
		s1 := a.Sum()
		var s2 Element
		sumVecGeneric(&s2, a)
		if !s1.Equal(&s2) || !s1.smallerThanModulus() {
			t.Fatalf("Vector.Sum n=%d: exported %v != generic %v", n, s1, s2)
		}
		p1 := a.InnerProduct(b)
		var p2 Element
		innerProductVecGeneric(&p2, a, b)
		if !p1.Equal(&p2) || !p1.smallerThanModulus() {
			t.Fatalf("Vector.InnerProduct n=%d: exported %v != generic %v", n, p1, p2)
		}
		verifCase("C09_WB_VectorTwins/bls12-381/fr", fmt.Sprintf("bls12-381/fr n=%d off=%d", n, oa), n == 0 || n%16 != 0 || n >= 112, "vector_twins")
	})
}
