//go:build verif

package starkcurve

// Minimal stand-alone copy of the harness reporting (the library module cannot import the harness module).

import (
	"encoding/binary"
	"encoding/json"
	"hash/fnv"
	"os"
	"sort"
	"sync"
	"testing"
)

type verifStats struct {
	Evaluations int64               `json:"evaluations"`
	NonTrivial  int64               `json:"nontrivial"`
	Classes     map[string]int64    `json:"classes"`
	Samples     map[string][]string `json:"samples"`
}

var (
	verifMu     sync.Mutex
	verifTests  = map[string]*verifStats{}
	verifHashes = map[uint64]struct{}{}
)

func verifCase(test, key string, nontrivial bool, classes ...string) {
	verifMu.Lock()
	defer verifMu.Unlock()
	s := verifTests[test]
	if s == nil {
		s = &verifStats{Classes: map[string]int64{}, Samples: map[string][]string{}}
		verifTests[test] = s
	}
	s.Evaluations++
	if nontrivial {
		s.NonTrivial++
		h := fnv.New64a()
		h.Write([]byte(test + "\x00" + key))
		verifHashes[h.Sum64()] = struct{}{}
	}
	for _, c := range classes {
		s.Classes[c]++
		if len(s.Samples[c]) < 2 {
			if len(key) > 300 {
				key = key[:300]
			}
			s.Samples[c] = append(s.Samples[c], key)
		}
	}
}

func TestMain(m *testing.M) {
	code := m.Run()
	if p := os.Getenv("VERIF_REPORT"); p != "" {
		out := map[string]interface{}{"tests": verifTests, "distinct_hashed": len(verifHashes), "bulk_distinct": 0, "known_findings": []string{}}
		b, _ := json.Marshal(out)
		os.WriteFile(p, b, 0o644)
		hs := make([]uint64, 0, len(verifHashes))
		for h := range verifHashes {
			hs = append(hs, h)
		}
		sort.Slice(hs, func(i, j int) bool { return hs[i] < hs[j] })
		buf := make([]byte, 8*len(hs))
		for i, h := range hs {
			binary.LittleEndian.PutUint64(buf[8*i:], h)
		}
		os.WriteFile(p+".hashes", buf, 0o644)
	}
	os.Exit(code)
}
