//go:build verif

package starkcurve

import (
	"math/big"
	"testing"
)

// TestVerifC02_RegressF54: g1JacExtended.doubleMixed / doubleNegMixed added a·(receiver.ZZ)² instead
// of a·1 to the tangent numerator, so addMixed(P) on a bucket already holding P in a representative
// with ZZ != 1 (and doubleMixed on a zero-valued receiver) returned a wrong point. Rapid-free.
func TestVerifC02_RegressF54(t *testing.T) {
	var p, want, got G1Affine
	p.ScalarMultiplicationBase(big.NewInt(7))
	want.Add(&p, &p)
	for _, zz := range []uint64{0, 1, 2, 9} {
		var e g1JacExtended
		e.ZZ.SetUint64(zz)
		e.doubleMixed(&p)
		if got.fromJacExtended(&e); !got.Equal(&want) {
			t.Errorf("doubleMixed with receiver ZZ=%d: got %s want %s", zz, got.String(), want.String())
		}
		var n G1Affine
		n.Neg(&want)
		e = g1JacExtended{}
		e.ZZ.SetUint64(zz)
		e.doubleNegMixed(&p)
		if got.fromJacExtended(&e); !got.Equal(&n) {
			t.Errorf("doubleNegMixed with receiver ZZ=%d: got %s want %s", zz, got.String(), n.String())
		}
	}
	// bucket holding 7G scaled by l=3, then addMixed(7G)
	var b g1JacExtended
	b.ZZ.SetUint64(9)
	b.ZZZ.SetUint64(27)
	b.X.Mul(&p.X, &b.ZZ)
	b.Y.Mul(&p.Y, &b.ZZZ)
	b.addMixed(&p)
	if got.fromJacExtended(&b); !got.Equal(&want) {
		t.Errorf("addMixed(P) on a bucket holding P with ZZ=9: got %s want %s", got.String(), want.String())
	}
	verifCase("C02_WB_RegressF54", "stark-curve", true, "regress_F54")
}
