//go:build verif

package fr

import (
	"testing"

	"pgregory.net/rapid"
)

func TestVerifSmoke(t *testing.T) {
	rapid.Check(t, func(t *rapid.T) {
		var x, a, b Element
		x.SetUint64(rapid.Uint64().Draw(t, "x"))
		a.Inverse(&x)
		b.inverseExp(x)
		if !a.Equal(&b) {
			t.Fatalf("inverse mismatch")
		}
	})
}
