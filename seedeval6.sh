#!/bin/bash
# usage: seedeval6.sh <Cxx> <n> [more check ids...]      (round-6 copy of seedeval.sh; safe to run several at once)
# Confirms a seeded change (/tmp/seed_Cxx.out/<n>/) in a scratch worktree and runs the quick checks against it:
#  1. demonstration passes on the pristine tree,   2. patch applies and builds,   3. demonstration fails with it,
#  4. tests of the touched packages still pass,    5. ./vf check <ids> with VERIF_REPO -> expect exit 1.
# Copies patch/demo/README and writes meta.json into /verif/seeded/<Cxx>-<n>/.
ID=$1; N=$2; shift 2; CHECKS="$ID $*"
SRC=/tmp/seed_$ID.out/$N; DST=/verif/seeded/$ID-$N; WT=/tmp/sv6_${ID}_$N; L=/tmp/sv6log_${ID}_$N; mkdir -p $L
export GOFLAGS=-mod=mod GOPROXY=off GOSUMDB=off GOTOOLCHAIN=local
[ -f $SRC/patch.diff ] || { echo "no patch in $SRC"; exit 9; }
git -C /repo worktree remove --force $WT 2>/dev/null; git -C /repo worktree prune
git -C /repo worktree add -q $WT HEAD || exit 9
demo_clean=skipped; demo_mut=skipped
if [ -x $SRC/run_demo.sh ]; then ( $SRC/run_demo.sh $WT > $L/demo0.log 2>&1 ); demo_clean=$?; fi
( cd $WT && git apply $SRC/patch.diff ) || { echo "PATCH DOES NOT APPLY"; git -C /repo worktree remove --force $WT; exit 8; }
touched=$(cd $WT && git diff --name-only | xargs -n1 dirname | sort -u)
( cd $WT && go build ./... > $L/build.log 2>&1 ) || { echo "MUTANT DOES NOT BUILD"; head -5 $L/build.log; git -C /repo worktree remove --force $WT; exit 8; }
if [ -x $SRC/run_demo.sh ]; then ( $SRC/run_demo.sh $WT > $L/demo1.log 2>&1 ); demo_mut=$?; fi
pk=""; for d in $touched; do pk="$pk ./$d/..."; done
( cd $WT && go test -vet=off -count=1 -timeout 25m $pk > $L/pkgtests.log 2>&1 ); pkgtests=$?
( cd $WT && git status --short | grep -v '^ M' | head -3 )
results=""
for c in $CHECKS; do
  ( cd /verif && VERIF_REPO=$WT timeout 3000 ./vf check $c > $L/$c.log 2>&1 ); rc=$?
  first=$(grep -m1 'FAILED job' $L/$c.log | sed 's/\[vf\] //')
  results="$results{\"check\":\"$c\",\"exit\":$rc,\"first_failed_job\":\"$first\"},"
  echo "  $ID-$N check $c exit=$rc $first"
done
mkdir -p $DST; cp -r $SRC/. $DST/ 2>/dev/null
cat > $DST/meta.json <<JSON
{"property":"$ID","seed_no":"$N","round":6,"repo_head":"$(git -C /repo log --format=%h -1)","verif_head":"$(git -C /verif log --format=%h -1)",
 "demo_exit_pristine":"$demo_clean","demo_exit_with_change":"$demo_mut","touched_packages_tests_exit":$pkgtests,
 "touched":"$(echo $touched | tr '\n' ' ')",
 "how_evaluated":"seedeval6.sh: fresh worktree of /repo HEAD; run_demo.sh on the pristine tree (must pass); git apply patch.diff; go build ./...; run_demo.sh (must fail); go test of the touched packages; VERIF_REPO=<worktree> ./vf check <ids> (quick tier)",
 "checks":[${results%,}]}
JSON
echo "$ID-$N demo pristine=$demo_clean mutated=$demo_mut pkgtests=$pkgtests"
git -C /repo worktree remove --force $WT
