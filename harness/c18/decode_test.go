package c18

// Decoder-like entry points get a shared INPUT BUFFER pool: besides valid encodings it holds byte strings
// of every rejection class, built by mutating a valid encoding (self-contained: no oracle here says what the
// right verdict is — that is C07's business). The C18 clauses applied to the buffers as arguments: the bytes
// are identical after the call whether it succeeds or fails, a repeated call gives the same verdict and the
// same value, concurrent callers decoding the same buffers see the same.

import (
	"bytes"
	"fmt"
	"math/big"
	"strings"
)

// decBuf is one input of a decoder pool.
type decBuf struct {
	class string // rejection kind (or "valid")
	b     []byte
}

// layout describes where the leading field element of an encoding sits, which is what the boundary
// mutations need: its byte length, the modulus of that field, and whether the top bits of byte 0 carry flags.
type layout struct {
	elemLen int
	mod     *big.Int
	flags   bool // top 3 bits of the first byte are metadata (compressed / infinity / sign)
}

func beBytes(v *big.Int, n int) []byte {
	b := v.Bytes()
	if len(b) >= n {
		return b[len(b)-n:]
	}
	return append(make([]byte, n-len(b)), b...)
}

// mutations returns the valid encoding and one or more byte strings per rejection class derived from it.
func mutations(valid []byte, l layout) []decBuf {
	cp := func() []byte { return append([]byte(nil), valid...) }
	var r []decBuf
	add := func(class string, b []byte) { r = append(r, decBuf{class, b}) }
	add("valid", cp())
	n := len(valid)
	if l.elemLen > 0 && l.elemLen <= n && l.mod != nil {
		withFlags := func(x []byte) []byte {
			b := cp()
			copy(b, x)
			if l.flags {
				b[0] = (b[0] & 0x1f) | (valid[0] & 0xe0)
			}
			return b
		}
		// the leading element at and above the modulus (flag bits of the valid encoding kept)
		add("x_eq_p", withFlags(beBytes(l.mod, l.elemLen)))
		add("x_gt_p", withFlags(beBytes(new(big.Int).Add(l.mod, big.NewInt(1)), l.elemLen)))
		top := new(big.Int).Lsh(big.NewInt(1), uint(8*l.elemLen))
		add("x_gt_p", withFlags(beBytes(top.Sub(top, big.NewInt(1)), l.elemLen)))
		// the trailing element at the modulus (second coordinate / last coefficient)
		if n >= 2*l.elemLen {
			b := cp()
			copy(b[n-l.elemLen:], beBytes(l.mod, l.elemLen))
			add("last_eq_p", b)
		}
		// neighbours of the leading element: about half of them have no square root / are off the curve
		for i := 1; i <= 4; i++ {
			b := cp()
			b[l.elemLen-1] += byte(i)
			add("off_curve", b)
		}
	}
	if n > 0 {
		b := cp()
		b[n-1] ^= 0x55 // damaged tail: second coordinate off the curve, or another value
		add("off_curve", b)
		add("all_ones", bytes.Repeat([]byte{0xff}, n))
		add("all_zero", make([]byte, n))
		for k := 0; k < 8; k++ { // each of the 8 patterns of the three metadata bits
			b := cp()
			b[0] = (b[0] & 0x1f) | byte(k<<5)
			add(fmt.Sprintf("flag_%d", k), b)
			if !l.flags { // encodings keeping their metadata in the last byte (Edwards points)
				b = cp()
				b[n-1] = (b[n-1] & 0x1f) | byte(k<<5)
				add(fmt.Sprintf("flag_%d", k), b)
			}
		}
		add("trunc_1", cp()[:n-1])
		add("trunc_half", cp()[:n/2])
		add("long_1", append(cp(), 0x01))
		add("empty", []byte{})
	}
	return r
}

// dirtyInfinity derives "infinity flag with dirt" inputs from an encoding of the point at infinity.
func dirtyInfinity(inf []byte) []decBuf {
	var r []decBuf
	r = append(r, decBuf{"valid", append([]byte(nil), inf...)})
	for _, pos := range []int{len(inf) - 1, len(inf) / 2, 1} {
		if pos <= 0 || pos >= len(inf) {
			continue
		}
		b := append([]byte(nil), inf...)
		b[pos] |= 0x01
		r = append(r, decBuf{"inf_dirty", b})
	}
	b := append([]byte(nil), inf...)
	b[0] |= 0x01 // dirt in the byte holding the flags
	r = append(r, decBuf{"inf_dirty", b})
	return r
}

// addDecoder registers one decoder over a pool: every call decodes every buffer (each into a destination of
// its own) and serialises verdict and value; the pool is the shared argument.
func (b *builder) addDecoder(name string, pool []decBuf, dec func(buf []byte) []byte) *entry {
	bufs := make([][]byte, len(pool))
	seen := map[string]bool{}
	var classes []string
	for i, p := range pool {
		bufs[i] = spareOf(p.b, 8) // own copy per decoder, with a sentinel tail behind the input
		if c := "decode:" + p.class; !seen[c] {
			seen[c] = true
			classes = append(classes, c)
		}
	}
	e := b.add("decode:"+name, func() []byte {
		var o out
		for i := range bufs {
			o.s(pool[i].class).b(dec(bufs[i]))
		}
		return o.Bytes()
	}, sh("pool:"+name, bufs))
	e.classes = append(classes, "decode_pool")
	return e
}

func poolOf(sets ...[]decBuf) []decBuf {
	var r []decBuf
	for _, s := range sets {
		r = append(r, s...)
	}
	return r
}

// splice returns copies of frame in which frame[off:off+len(m.b)] is replaced by each same-length mutation m
// (a mutated item inside a longer stream: slice of points, key file).
func splice(frame []byte, off int, muts []decBuf) []decBuf {
	var r []decBuf
	for _, m := range muts {
		if off+len(m.b) > len(frame) || len(m.b) == 0 || m.class == "valid" {
			continue
		}
		if m.class == "trunc_1" || m.class == "trunc_half" || m.class == "long_1" {
			continue
		}
		b := append([]byte(nil), frame...)
		copy(b[off:], m.b)
		r = append(r, decBuf{m.class, b})
	}
	n := len(frame)
	r = append(r, decBuf{"valid", append([]byte(nil), frame...)},
		decBuf{"trunc_1", append([]byte(nil), frame[:n-1]...)},
		decBuf{"trunc_half", append([]byte(nil), frame[:n/2]...)},
		decBuf{"long_1", append(append([]byte(nil), frame...), 1)})
	return r
}

// ---- boundary exponents ------------------------------------------------------------------------------
//
// The exponent / scalar objects of every Exp-, ExpGLV-, CyclotomicExp- and ScalarMultiplication-like entry
// point: each one is a shared *big.Int of its own (an argument under the group-wide purity check). The
// one-word negative ones matter most: a callee that builds |k| by aliasing k's limbs and hands the temporary
// to a process-wide pool lets the next pool user — of ANY package — write into the caller's exponent.
type bexp struct {
	name string
	k    *big.Int
}

func boundaryExps(mod *big.Int, d *detReader) []bexp {
	two63 := new(big.Int).Lsh(big.NewInt(1), 63)
	two64 := new(big.Int).Lsh(big.NewInt(1), 64)
	full := new(big.Int).SetBytes(d.bytes((mod.BitLen() + 7) / 8))
	full.Mod(full, mod)
	n := func(x *big.Int) *big.Int { return new(big.Int).Neg(x) }
	return []bexp{
		{"0", big.NewInt(0)},
		{"1", big.NewInt(1)},
		{"-1", big.NewInt(-1)},
		{"-small", big.NewInt(-int64(5 + d.intn(1000)))},
		{"-word", big.NewInt(-int64(1<<40 + d.intn(1<<30)))},
		{"small", big.NewInt(int64(3 + d.intn(1000)))},
		{"2^63", two63},
		{"-2^63", n(two63)},
		{"2^64-1", new(big.Int).Sub(two64, big.NewInt(1))},
		{"-(2^64-1)", n(new(big.Int).Sub(two64, big.NewInt(1)))},
		{"2^64", two64},
		{"full", full},
		{"-full", n(new(big.Int).Sub(full, big.NewInt(7)))},
		{"wide", new(big.Int).SetBytes(d.bytes(2*((mod.BitLen()+7)/8) + 3))},
	}
}

func bexpArgs(prefix string, es []bexp) []arg {
	var r []arg
	for _, e := range es {
		r = append(r, sh(prefix+":"+e.name, e.k))
	}
	return r
}

// expClasses: class labels of an entry running the boundary exponents of one family (field, tower, gt, point).
func expClasses(family string) []string {
	return []string{"exp:negative_one_word", "exp:negative_one_word/" + family, "exp:boundary_exponents"}
}

// ---- SetInterface over every accepted dynamic type -----------------------------------------------------

// setInterfaceElt is what a generated field element offers for this purpose.
type setInterfaceElt[T any] interface {
	*T
	SetInterface(interface{}) (*T, error)
	Marshal() []byte
}

// addSetInterface registers one entry per dynamic type accepted by Element.SetInterface (read off the generated
// switch: Element, *Element, uint8/16/32/64, uint, int8/16/32/64, int, string, *big.Int, big.Int by value, []byte;
// nil and anything else are errors), with values inside and outside [0,q), negative, and wider than the modulus.
// Every argument object is shared and under the purity oracle; for a big.Int passed BY VALUE the shared object is
// the caller's variable, whose limb array the copy aliases (argument snapshots cover the limbs up to cap, and the sign).
func addSetInterface[T any, PT setInterfaceElt[T]](b *builder, pkg string, mod *big.Int, elems []T, d *detReader) {
	set := func(o *out, v interface{}) {
		var z T
		_, err := PT(&z).SetInterface(v)
		o.err(err)
		if err == nil {
			o.b(PT(&z).Marshal())
		}
	}
	one := big.NewInt(1)
	wide := new(big.Int).SetBytes(d.bytes(2*((mod.BitLen()+7)/8) + 5))
	newBigs := func() []*big.Int {
		return []*big.Int{
			big.NewInt(0), big.NewInt(5), new(big.Int).Sub(mod, one), new(big.Int).Set(mod), new(big.Int).Add(mod, one),
			new(big.Int).Add(mod, mod), new(big.Int).Neg(new(big.Int).Sub(mod, one)), big.NewInt(-1), big.NewInt(-77),
			new(big.Int).Set(wide), new(big.Int).Neg(wide), new(big.Int).Lsh(one, 64), new(big.Int).Neg(new(big.Int).Lsh(one, 63)),
		}
	}
	bigsP, bigsV := newBigs(), newBigs() // distinct objects for the pointer and the by-value entries
	bigArgs := func(prefix string, bs []*big.Int) []arg {
		var r []arg
		for i, x := range bs {
			r = append(r, sh(fmt.Sprintf("%s:%s:%d", pkg, prefix, i), x))
		}
		return r
	}
	var strs []string
	var byteVals [][]byte
	for _, x := range bigsP {
		strs = append(strs, x.String(), "0x"+new(big.Int).Abs(x).Text(16))
		byteVals = append(byteVals, spareOf(new(big.Int).Abs(x).Bytes(), 8))
	}
	strs = append(strs, "", "not a number", "-0b101", "0o17")
	byteVals = append(byteVals, spareOf([]byte{}, 4))
	add := func(typ string, args []arg, run func(o *out)) {
		e := b.add(pkg+".SetInterface["+typ+"]", func() []byte {
			var o out
			run(&o)
			return o.Bytes()
		}, args...)
		e.classes = []string{"setinterface:" + typ}
	}
	pool, light := b.pool, b.light
	b.pool, b.light = true, true
	add("Element", []arg{sh(pkg+":siElems", elems)}, func(o *out) {
		for i := range elems {
			set(o, elems[i])
		}
	})
	add("*Element", []arg{sh(pkg+":siElems", elems)}, func(o *out) {
		for i := range elems {
			set(o, &elems[i])
		}
		set(o, PT(nil))
	})
	b.light = false
	add("uint", nil, func(o *out) {
		for _, v := range []uint64{0, 1, 255, 1 << 31, 1<<63 + 3, ^uint64(0)} {
			set(o, uint8(v))
			set(o, uint16(v))
			set(o, uint32(v))
			set(o, uint(v))
			set(o, v)
		}
	})
	add("int", nil, func(o *out) {
		for _, v := range []int64{0, 1, -1, 127, -128, 1 << 40, -(1 << 40), 1<<63 - 1, -(1 << 63)} {
			set(o, int8(v))
			set(o, int16(v))
			set(o, int32(v))
			set(o, int(v))
			set(o, v)
		}
	})
	add("string", nil, func(o *out) {
		for _, s := range strs {
			set(o, s)
		}
	})
	b.light = true
	add("*big.Int", bigArgs("siBigPtr", bigsP), func(o *out) {
		for _, x := range bigsP {
			set(o, x)
		}
		set(o, (*big.Int)(nil))
	})
	add("big.Int", bigArgs("siBigVal", bigsV), func(o *out) {
		for _, x := range bigsV {
			set(o, *x) // by value: the copy shares x's limbs
		}
	})
	add("[]byte", []arg{sh(pkg+":siBytes", byteVals)}, func(o *out) {
		for _, x := range byteVals {
			set(o, x)
		}
	})
	b.light = false
	add("nil/unsupported", nil, func(o *out) {
		set(o, nil)
		set(o, 3.5)
		set(o, []int{1})
		set(o, struct{}{})
	})
	b.pool, b.light = pool, light
}

// ---- pool stress -------------------------------------------------------------------------------------------

// stressOp is one slow-path conversion that holds scratch values of the process-wide big.Int pool for a long
// time (numerals of tens of thousands of digits). The concurrent suite runs 48 and 64 goroutines of them at once.
type stressOp struct {
	name string
	run  func() []byte
	want []byte
}

func (b *builder) addStress(name string, run func() []byte) {
	b.g.stress = append(b.g.stress, &stressOp{name: b.g.name + "/" + name, run: run})
}

// hugeNumeral returns a decimal numeral of n digits.
func hugeNumeral(d *detReader, n int) string {
	raw := d.bytes(n)
	for i := range raw {
		raw[i] = '0' + raw[i]%10
	}
	if raw[0] == '0' {
		raw[0] = '7'
	}
	return string(raw)
}

// addFieldStress registers the slow-path conversions of one field package.
func addFieldStress[T any, PT interface {
	*T
	SetString(string) (*T, error)
	SetBigInt(*big.Int) *T
	SetBytes([]byte) *T
	UnmarshalJSON([]byte) error
	SetInterface(interface{}) (*T, error)
	Text(int) string
	Marshal() []byte
}](b *builder, pkg string, d *detReader) {
	// The scratch values must be held by MANY goroutines at the same moment. A conversion holds one scratch value
	// while it parses its input and a second one while it reduces the parsed value (the nested SetBigInt). SetBytes of
	// a long string parses in no time, so a goroutine looping over it holds TWO values almost all the time; the
	// other conversions (hexadecimal / decimal numerals, JSON, huge negative big.Int) are mixed in.
	const n = 65536
	hexNum := "0x" + strings.Repeat("9abcdef012345678", n/16)
	num := hugeNumeral(d, n/8)
	big1, _ := new(big.Int).SetString(hexNum, 0)
	big1.Neg(big1)
	js := []byte(hugeNumeral(d, n/4))
	for k := 0; k < 4; k++ {
		raw := d.bytes(n/2 + 1000*k)
		b.addStress(fmt.Sprintf("%s.SetBytes[%d bytes x60]#%d", pkg, len(raw), k), func() []byte {
			var y T
			for r := 0; r < 60; r++ {
				PT(&y).SetBytes(raw)
			}
			return new(out).b(PT(&y).Marshal()).s(PT(&y).Text(16)).Bytes()
		})
	}
	b.addStress(pkg+".SetString/SetInterface(hex numeral)", func() []byte {
		var z, y T
		var err, err2 error
		for r := 0; r < 3; r++ {
			_, err = PT(&z).SetString(hexNum)
			_, err2 = PT(&y).SetInterface(hexNum)
		}
		return new(out).err(err).err(err2).b(PT(&z).Marshal()).b(PT(&y).Marshal()).s(PT(&z).Text(10)).Bytes()
	})
	b.addStress(pkg+".SetBigInt(huge negative)/UnmarshalJSON/SetString(decimal numerals)", func() []byte {
		var z, y, w T
		for r := 0; r < 20; r++ {
			PT(&z).SetBigInt(big1)
		}
		err := PT(&w).UnmarshalJSON(js)
		_, err2 := PT(&y).SetString(num)
		return new(out).err(err).err(err2).b(PT(&z).Marshal()).b(PT(&y).Marshal()).b(PT(&w).Marshal()).Bytes()
	})
}
