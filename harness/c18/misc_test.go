package c18

// Group "misc": the hash registry (hash.Hash.New for every registered id), the bandersnatch
// companion curve with its own lazily initialised parameters, and secp256k1 (ECDSA, MSM).

import (
	"crypto/sha256"
	"fmt"
	"math/big"

	"github.com/consensys/gnark-crypto/ecc"
	mimc377 "github.com/consensys/gnark-crypto/ecc/bls12-377/fr/mimc"
	te377 "github.com/consensys/gnark-crypto/ecc/bls12-377/twistededwards"
	"github.com/consensys/gnark-crypto/ecc/bls12-381/bandersnatch"
	bseddsa "github.com/consensys/gnark-crypto/ecc/bls12-381/bandersnatch/eddsa"
	bsfr "github.com/consensys/gnark-crypto/ecc/bls12-381/fr"
	mimc317 "github.com/consensys/gnark-crypto/ecc/bls24-317/fr/mimc"
	te317 "github.com/consensys/gnark-crypto/ecc/bls24-317/twistededwards"
	mimc633 "github.com/consensys/gnark-crypto/ecc/bw6-633/fr/mimc"
	te633 "github.com/consensys/gnark-crypto/ecc/bw6-633/twistededwards"
	grfp "github.com/consensys/gnark-crypto/ecc/grumpkin/fp"
	grfr "github.com/consensys/gnark-crypto/ecc/grumpkin/fr"
	mimcGr "github.com/consensys/gnark-crypto/ecc/grumpkin/fr/mimc"
	"github.com/consensys/gnark-crypto/ecc/secp256k1"
	secdsa "github.com/consensys/gnark-crypto/ecc/secp256k1/ecdsa"
	secfp "github.com/consensys/gnark-crypto/ecc/secp256k1/fp"
	secfr "github.com/consensys/gnark-crypto/ecc/secp256k1/fr"
	starkfp "github.com/consensys/gnark-crypto/ecc/stark-curve/fp"
	starkfr "github.com/consensys/gnark-crypto/ecc/stark-curve/fr"
	ghash "github.com/consensys/gnark-crypto/hash"
	_ "github.com/consensys/gnark-crypto/hash/all"
)

// smallWords returns n bytes in which only every 4th byte is non-zero, so that any split into
// big-endian words of 4, 8, 32, 48 ... bytes yields canonical (reduced) field elements.
func smallWords(d *detReader, n int) []byte {
	b := make([]byte, n)
	for i := 3; i < n; i += 4 {
		b[i] = d.bytes(1)[0]
	}
	return b
}

const nHashIDs = 32 // upper bound of the id space scanned through Available()

func init() {
	registerGroup("misc", buildMisc)

	registerFirstUse("bls12-381/bandersnatch.initOnce", func() []byte {
		c := bandersnatch.GetEdwardsCurve()
		var p bandersnatch.PointAffine
		p.ScalarMultiplication(&c.Base, big.NewInt(7654321))
		d := snapshot(&c)
		return new(out).b(d[:]).b(p.Marshal()).bool(p.IsOnCurve()).Bytes()
	})
	registerFirstUse("hash.registry", func() []byte {
		var o out
		for id := ghash.Hash(0); id < nHashIDs; id++ {
			if !id.Available() {
				continue
			}
			h := id.New()
			msg := make([]byte, 2*h.BlockSize())
			msg[len(msg)-1] = byte(id) + 1
			_, err := h.Write(msg)
			o.s(id.String()).b(h.Sum(nil)).err(err)
		}
		return o.Bytes()
	})
}

func buildMisc(b *builder) {
	rnd := newDet("misc")

	// ---- hash registry: a fresh hasher per call ------------------------------------------------
	for id := ghash.Hash(0); id < nHashIDs; id++ {
		id := id
		if !id.Available() {
			continue
		}
		bs := id.New().BlockSize()
		msg := smallWords(rnd, 5*bs)
		b.light = true
		b.addRet("hash."+id.String()+".New/Write/Sum", func() ([]byte, []interface{}) {
			h := id.New()
			_, err := h.Write(msg[:2*bs])
			_, err2 := h.Write(msg[2*bs:])
			s1 := h.Sum(nil)
			h.Reset()
			h.Write(msg[:bs])
			s2 := h.Sum(nil)
			return new(out).b(s1).b(s2).err(err).err(err2).int(h.Size()).Bytes(), []interface{}{&s1, &s2}
		}, sh("msg:"+id.String(), msg))
	}

	// ---- bandersnatch ------------------------------------------------------------------------
	base := bandersnatch.GetEdwardsCurve().Base
	k := new(big.Int).SetBytes(rnd.bytes(40))
	kNeg := new(big.Int).Neg(new(big.Int).SetBytes(rnd.bytes(20)))
	b.addRet("bandersnatch.GetEdwardsCurve", func() ([]byte, []interface{}) {
		c := bandersnatch.GetEdwardsCurve()
		d := snapshot(&c)
		var p bandersnatch.PointAffine
		p.ScalarMultiplication(&c.Base, &c.Order)
		return new(out).b(d[:]).bool(p.IsZero()).Bytes(), []interface{}{&c}
	})
	// the Edwards companions of the curves without a registry of their own (with the four curve groups and
	// bandersnatch: all 8 Edwards packages)
	b.addRet("bls12-377/twistededwards.GetEdwardsCurve", func() ([]byte, []interface{}) {
		c := te377.GetEdwardsCurve()
		d := snapshot(&c)
		var p te377.PointAffine
		p.ScalarMultiplication(&c.Base, &c.Order)
		return new(out).b(d[:]).bool(p.IsZero()).Bytes(), []interface{}{&c}
	})
	b.addRet("bls24-317/twistededwards.GetEdwardsCurve", func() ([]byte, []interface{}) {
		c := te317.GetEdwardsCurve()
		d := snapshot(&c)
		var p te317.PointAffine
		p.ScalarMultiplication(&c.Base, &c.Order)
		return new(out).b(d[:]).bool(p.IsZero()).Bytes(), []interface{}{&c}
	})
	b.addRet("bw6-633/twistededwards.GetEdwardsCurve", func() ([]byte, []interface{}) {
		c := te633.GetEdwardsCurve()
		d := snapshot(&c)
		var p te633.PointAffine
		p.ScalarMultiplication(&c.Base, &c.Order)
		return new(out).b(d[:]).bool(p.IsZero()).Bytes(), []interface{}{&c}
	})
	// the remaining MiMC constant tables, Poseidon2 defaults and moduli
	b.addRet("bls12-377+bls24-317+bw6-633+grumpkin mimc.GetConstants", func() ([]byte, []interface{}) {
		c1, c2, c3, c4 := mimc377.GetConstants(), mimc317.GetConstants(), mimc633.GetConstants(), mimcGr.GetConstants()
		var o out
		for _, c := range [][]big.Int{c1, c2, c3, c4} {
			for i := range c {
				o.b(c[i].Bytes())
			}
		}
		return o.Bytes(), []interface{}{&c1, &c2, &c3, &c4}
	})
	b.addRet("secp256k1/stark-curve/grumpkin Modulus", func() ([]byte, []interface{}) {
		ms := []*big.Int{secfr.Modulus(), secfp.Modulus(), starkfr.Modulus(), starkfp.Modulus(), grfr.Modulus(), grfp.Modulus(),
			ecc.BLS12_377.ScalarField(), ecc.BLS24_317.BaseField(), ecc.BW6_633.ScalarField(), ecc.GRUMPKIN.BaseField(), ecc.SECP256K1.ScalarField(), ecc.STARK_CURVE.BaseField()}
		var o out
		for _, m := range ms {
			o.b(m.Bytes())
		}
		var x secfr.Element
		x.SetBigInt(new(big.Int).Add(ms[0], big.NewInt(3)))
		return o.s(x.String()).Bytes(), []interface{}{&ms}
	})
	for _, kc := range []struct {
		n string
		k *big.Int
	}{{"wide", k}, {"neg", kNeg}} {
		kc := kc
		b.add("bandersnatch.ScalarMultiplication["+kc.n+"]", func() []byte {
			var a, a2, a3 bandersnatch.PointAffine
			var pp, pr bandersnatch.PointProj
			var pe, er bandersnatch.PointExtended
			a.ScalarMultiplication(&base, kc.k)
			pr.ScalarMultiplication(pp.FromAffine(&base), kc.k)
			er.ScalarMultiplication(pe.FromAffine(&base), kc.k)
			a2.FromProj(&pr)
			a3.FromExtended(&er)
			return new(out).b(a.Marshal()).b(a2.Marshal()).b(a3.Marshal()).bool(a.IsOnCurve()).Bytes()
		}, sh("bsBase", &base), sh("bsK:"+kc.n, kc.k))
	}
	bsPriv, err := bseddsa.GenerateKey(newDet("misc/bandersnatch/eddsa"))
	if err != nil {
		panic(err)
	}
	var m bsfr.Element
	m.SetBytes(rnd.bytes(20))
	mb := m.Bytes()
	bsMsg := mb[:]
	bsSig, err := bsPriv.Sign(bsMsg, ghash.MIMC_BLS12_381.New())
	if err != nil {
		panic(err)
	}
	b.add("bandersnatch/eddsa.Verify", func() []byte {
		ok, err := bsPriv.PublicKey.Verify(bsSig, bsMsg, ghash.MIMC_BLS12_381.New())
		return new(out).bool(ok).err(err).Bytes()
	}, sh("bsPub", &bsPriv.PublicKey), sh("bsSig", bsSig), sh("bsMsg", bsMsg))
	b.add("bandersnatch/eddsa.Sign", func() []byte {
		s, err := bsPriv.Sign(bsMsg, ghash.MIMC_BLS12_381.New())
		return new(out).b(s).err(err).Bytes()
	}, sh("bsPriv", bsPriv), sh("bsMsg", bsMsg))

	// decoders of the bandersnatch companion over a shared pool of input buffers
	{
		lr := layout{elemLen: bsfr.Bytes, mod: bsfr.Modulus()}
		bb := base.Bytes()
		var inf bandersnatch.PointAffine
		inf.Y.SetOne()
		ib := inf.Bytes()
		b.addDecoder("bandersnatch.PointAffine.SetBytes/Unmarshal", poolOf(mutations(bb[:], lr), dirtyInfinity(ib[:])), func(buf []byte) []byte {
			var p, q bandersnatch.PointAffine
			n, err := p.SetBytes(buf)
			err2 := q.Unmarshal(buf)
			return new(out).int(n).err(err).err(err2).b(p.Marshal()).bool(p.Equal(&q)).Bytes()
		})
		b.addDecoder("bandersnatch/eddsa.PublicKey/PrivateKey/Signature.SetBytes", poolOf(mutations(bsPriv.PublicKey.Bytes(), lr), mutations(bsPriv.Bytes(), lr), mutations(bsSig, lr)), func(buf []byte) []byte {
			var pk bseddsa.PublicKey
			var sk bseddsa.PrivateKey
			var sg bseddsa.Signature
			n1, err1 := pk.SetBytes(buf)
			n2, err2 := sk.SetBytes(buf)
			n3, err3 := sg.SetBytes(buf)
			o := new(out).int(n1).int(n2).int(n3).err(err1).err(err2).err(err3)
			if err1 == nil {
				o.b(pk.Bytes())
			}
			if err3 == nil {
				o.b(sg.Bytes())
			}
			return o.Bytes()
		})
	}

	// ---- secp256k1 ---------------------------------------------------------------------------
	secPriv, err := secdsa.GenerateKey(newDet("misc/secp256k1/ecdsa"))
	if err != nil {
		panic(err)
	}
	secMsg := rnd.bytes(45)
	// the nonce comes from crypto/rand: the signature bytes differ from run to run, the verdicts do not
	secSig, err := secPriv.Sign(secMsg, sha256.New())
	if err != nil {
		panic(err)
	}
	b.add("secp256k1/ecdsa.Verify", func() []byte {
		ok, err := secPriv.PublicKey.Verify(secSig, secMsg, sha256.New())
		return new(out).bool(ok).err(err).Bytes()
	}, sh("secPub", &secPriv.PublicKey), sh("secSig", secSig), sh("secMsg", secMsg))
	b.add("secp256k1/ecdsa.Sign+Verify", func() []byte {
		s, err := secPriv.Sign(secMsg, sha256.New())
		if err != nil {
			return new(out).err(err).Bytes()
		}
		ok, err := secPriv.PublicKey.Verify(s, secMsg, sha256.New())
		return new(out).bool(ok).err(err).Bytes()
	}, sh("secPriv", secPriv), sh("secMsg", secMsg)).note = "verdict only"
	_, g := secp256k1.Generators()
	sc := make([]secfr.Element, 70)
	for i := range sc {
		sc[i].SetBytes(rnd.bytes(40))
	}
	pts := secp256k1.BatchScalarMultiplicationG1(&g, sc)
	for _, nb := range []int{0, 1, 3} {
		nb := nb
		b.light = nb == 3
		b.add(fmt.Sprintf("secp256k1.G1Affine.MultiExp[NbTasks=%d]", nb), func() []byte {
			var p secp256k1.G1Affine
			_, err := p.MultiExp(pts, sc, ecc.MultiExpConfig{NbTasks: nb})
			raw := p.RawBytes()
			return new(out).b(raw[:]).err(err).Bytes()
		}, sh("secPts", pts), sh("secScalars", sc))
	}
}
