package c18

// First-use races of lazily initialised / pooled globals. The driver starts ONE fresh process per
// global (shards -> VERIF_INST, -test.run ^TestC18_FirstUse$): nothing in this process has touched
// the global before g goroutines, released by a barrier, use it at the same time. The binary is
// built with -race, so an unsynchronised lazy initialisation is reported by the race detector
// (GORACE=halt_on_error=1 makes the process exit, the driver classifies "WARNING: DATA RACE" as a
// failure). Values: all goroutines must agree, must agree with a later sequential use in this
// process, and with the value a sequential child process (same binary, single use) prints.

import (
	"bytes"
	"encoding/hex"
	"fmt"
	"os"
	"os/exec"
	"regexp"
	"runtime"
	"sort"
	"strconv"
	"strings"
	"sync"
	"testing"

	"verif/harness/internal/rep"
)

var (
	firstUseMu sync.Mutex
	firstUses  = map[string]func() []byte{}
)

func registerFirstUse(name string, run func() []byte) {
	firstUseMu.Lock()
	defer firstUseMu.Unlock()
	firstUses[name] = run
}

func firstUseNames() []string {
	var ns []string
	for n := range firstUses {
		ns = append(ns, n)
	}
	sort.Strings(ns)
	return ns
}

const childMarker = "C18CHILD "

// TestC18_FirstUseChild is the sequential reference: it uses the global named by VERIF_C18_CHILD
// once, alone, and prints the result.
func TestC18_FirstUseChild(t *testing.T) {
	name := os.Getenv("VERIF_C18_CHILD")
	if name == "" {
		t.Skip("helper process of TestC18_FirstUse")
	}
	run := firstUses[name]
	if run == nil {
		t.Fatalf("unknown global %q", name)
	}
	fmt.Println(childMarker + hex.EncodeToString(run()))
}

func childValue(name string) ([]byte, error) {
	cmd := exec.Command(os.Args[0], "-test.run", "^TestC18_FirstUseChild$", "-test.v", "-test.count=1")
	for _, kv := range os.Environ() {
		if strings.HasPrefix(kv, "VERIF_REPORT=") || strings.HasPrefix(kv, "VERIF_C18_CHILD=") {
			continue
		}
		cmd.Env = append(cmd.Env, kv)
	}
	cmd.Env = append(cmd.Env, "VERIF_C18_CHILD="+name)
	outp, err := cmd.CombinedOutput()
	if err != nil {
		return nil, fmt.Errorf("child process: %v\n%s", err, outp)
	}
	for _, l := range strings.Split(string(outp), "\n") {
		if i := strings.Index(l, childMarker); i >= 0 {
			return hex.DecodeString(strings.TrimSpace(l[i+len(childMarker):]))
		}
	}
	return nil, fmt.Errorf("child process printed no value:\n%s", outp)
}

func TestC18_FirstUse(t *testing.T) {
	pat := os.Getenv("VERIF_INST")
	var sel []string
	for _, n := range firstUseNames() {
		if ok, _ := regexp.MatchString(pat, n); ok && pat != "" {
			sel = append(sel, n)
		}
	}
	if len(sel) != 1 {
		t.Fatalf("TestC18_FirstUse needs VERIF_INST to select exactly one global (a fresh process per global); %q selects %v of %v",
			pat, sel, firstUseNames())
	}
	name := sel[0]
	run := firstUses[name]
	seed, _ := strconv.Atoi(os.Getenv("VERIF_SEED"))
	idx := sort.SearchStrings(firstUseNames(), name)
	g := []int{8, 16, 32, 64}[(seed+idx)%4]
	if runtime.GOMAXPROCS(0) < 4 {
		runtime.GOMAXPROCS(4)
	}
	test := "C18_FirstUse"
	rep.Note(test, "one fresh process per global; g goroutines behind a barrier perform the first use; g is a function of VERIF_SEED and the global")

	results := make([][]byte, g)
	panics := make([]string, g)
	var ready, done sync.WaitGroup
	start := make(chan struct{})
	ready.Add(g)
	done.Add(g)
	for i := 0; i < g; i++ {
		go func(i int) {
			defer done.Done()
			defer func() {
				if r := recover(); r != nil {
					panics[i] = fmt.Sprint(r)
				}
			}()
			ready.Done()
			<-start
			results[i] = run()
		}(i)
	}
	ready.Wait()
	close(start)
	done.Wait()

	after := run() // sequential use in this process, after the race phase
	for i := range results {
		if panics[i] != "" {
			t.Fatalf("FIRST-USE %s: goroutine %d of %d panicked: %s", name, i, g, panics[i])
		}
		if !bytes.Equal(results[i], after) {
			t.Fatalf("FIRST-USE %s: goroutine %d of %d obtained %s during the concurrent first use, a later sequential use gives %s",
				name, i, g, short(results[i]), short(after))
		}
	}
	ref, err := childValue(name)
	if err != nil {
		t.Fatalf("FIRST-USE %s: %v", name, err)
	}
	if !bytes.Equal(ref, after) {
		t.Fatalf("FIRST-USE %s: after a concurrent first use the global yields %s, a process that used it sequentially gets %s",
			name, short(after), short(ref))
	}
	rep.Case(test, fmt.Sprintf("%s g=%d", name, g), true, "firstuse:"+name, fmt.Sprintf("firstuse g=%d", g))
}
