package c18

// Rapid-free regression tests for defects this property found on the unchanged tree.

import (
	"bytes"
	"testing"

	"github.com/consensys/gnark-crypto/ecc/bls12-377"
	"github.com/consensys/gnark-crypto/ecc/bls12-381"
	"github.com/consensys/gnark-crypto/ecc/bls24-315"
	"github.com/consensys/gnark-crypto/ecc/bls24-317"
	"github.com/consensys/gnark-crypto/ecc/bn254"
	"github.com/consensys/gnark-crypto/ecc/bw6-633"
	"github.com/consensys/gnark-crypto/ecc/bw6-761"
)

// fixedQTwice: F25 — MillerLoopFixedQ / PairFixedQ / PairingCheckFixedQ scaled the caller's
// precomputed lines in place, so a second call with the same lines returned a wrong pairing (and
// concurrent callers sharing the lines raced). The lines must be left untouched and every call
// must return e(P0,Q0)·e(P1,Q1).
func fixedQTwice[P, Q, L, T any](t *testing.T, name string, gens func() (P, Q), pre func(Q) L,
	pairFixed func([]P, []L) (T, error), miller func([]P, []L) (T, error), check func([]P, []L) (bool, error),
	pair func([]P, []Q) (T, error), ser func(*T) []byte) {
	t.Run(name, func(t *testing.T) {
		p, q := gens()
		ps, qs := []P{p, p, p}, []Q{q, q, q}
		lines := []L{pre(q), pre(q), pre(q)}
		before := snapshot(lines)
		for n := 1; n <= 3; n++ {
			want, err := pair(ps[:n], qs[:n])
			if err != nil {
				t.Fatal(err)
			}
			var firstML []byte
			for call := 1; call <= 3; call++ {
				got, err := pairFixed(ps[:n], lines[:n])
				if err != nil {
					t.Fatal(err)
				}
				if !bytes.Equal(ser(&got), ser(&want)) {
					t.Fatalf("%s: PairFixedQ with %d pair(s), call #%d on the same lines != Pair", name, n, call)
				}
				ml, err := miller(ps[:n], lines[:n])
				if err != nil {
					t.Fatal(err)
				}
				if firstML == nil {
					firstML = ser(&ml)
				} else if !bytes.Equal(firstML, ser(&ml)) {
					t.Fatalf("%s: MillerLoopFixedQ with %d pair(s), call #%d differs from the first call", name, n, call)
				}
				if _, err := check(ps[:n], lines[:n]); err != nil {
					t.Fatal(err)
				}
				if snapshot(lines) != before {
					t.Fatalf("%s: the caller's precomputed lines were modified (n=%d, call #%d)", name, n, call)
				}
			}
		}
	})
}

func TestC18_Regress_FixedQLinesUntouched(t *testing.T) {
	fixedQTwice(t, "bn254", func() (bn254.G1Affine, bn254.G2Affine) { _, _, a, b := bn254.Generators(); return a, b },
		bn254.PrecomputeLines, bn254.PairFixedQ, bn254.MillerLoopFixedQ, bn254.PairingCheckFixedQ, bn254.Pair,
		func(z *bn254.GT) []byte { b := z.Bytes(); return b[:] })
	fixedQTwice(t, "bls12-377", func() (bls12377.G1Affine, bls12377.G2Affine) { _, _, a, b := bls12377.Generators(); return a, b },
		bls12377.PrecomputeLines, bls12377.PairFixedQ, bls12377.MillerLoopFixedQ, bls12377.PairingCheckFixedQ, bls12377.Pair,
		func(z *bls12377.GT) []byte { b := z.Bytes(); return b[:] })
	fixedQTwice(t, "bls12-381", func() (bls12381.G1Affine, bls12381.G2Affine) { _, _, a, b := bls12381.Generators(); return a, b },
		bls12381.PrecomputeLines, bls12381.PairFixedQ, bls12381.MillerLoopFixedQ, bls12381.PairingCheckFixedQ, bls12381.Pair,
		func(z *bls12381.GT) []byte { b := z.Bytes(); return b[:] })
	fixedQTwice(t, "bls24-315", func() (bls24315.G1Affine, bls24315.G2Affine) { _, _, a, b := bls24315.Generators(); return a, b },
		bls24315.PrecomputeLines, bls24315.PairFixedQ, bls24315.MillerLoopFixedQ, bls24315.PairingCheckFixedQ, bls24315.Pair,
		func(z *bls24315.GT) []byte { b := z.Bytes(); return b[:] })
	fixedQTwice(t, "bls24-317", func() (bls24317.G1Affine, bls24317.G2Affine) { _, _, a, b := bls24317.Generators(); return a, b },
		bls24317.PrecomputeLines, bls24317.PairFixedQ, bls24317.MillerLoopFixedQ, bls24317.PairingCheckFixedQ, bls24317.Pair,
		func(z *bls24317.GT) []byte { b := z.Bytes(); return b[:] })
	fixedQTwice(t, "bw6-633", func() (bw6633.G1Affine, bw6633.G2Affine) { _, _, a, b := bw6633.Generators(); return a, b },
		bw6633.PrecomputeLines, bw6633.PairFixedQ, bw6633.MillerLoopFixedQ, bw6633.PairingCheckFixedQ, bw6633.Pair,
		func(z *bw6633.GT) []byte { b := z.Bytes(); return b[:] })
	fixedQTwice(t, "bw6-761", func() (bw6761.G1Affine, bw6761.G2Affine) { _, _, a, b := bw6761.Generators(); return a, b },
		bw6761.PrecomputeLines, bw6761.PairFixedQ, bw6761.MillerLoopFixedQ, bw6761.PairingCheckFixedQ, bw6761.Pair,
		func(z *bw6761.GT) []byte { b := z.Bytes(); return b[:] })
}
