// Package c18: calls are pure, repeatable and safe to run concurrently on shared inputs.
//
// A registry of entry points, each a closure over SHARED argument objects (built once per process
// from VERIF_SEED), is exercised three ways:
//
//	TestC18_Sequential  purity (deep snapshot of every shared argument before/after every call) and
//	                    repeatability (k = 2..5 calls, interleaved with other entries in a drawn order,
//	                    all byte-identical with the first result ever obtained for the entry)
//	TestC18_Concurrent  g goroutines x GOMAXPROCS, released by a barrier, each running a drawn mix of
//	                    entries on the same shared objects; every result must equal the sequential one
//	                    and no shared argument may change. Built with -race by the "race" jobs.
//	TestC18_FirstUse    one lazily initialised global per fresh process; its very first use is
//	                    concurrent (under -race); results are compared with the value a sequential child
//	                    process obtains.
//
// Only value mismatches, argument mutations and race-detector reports count; timing never does.
package c18

import (
	"bytes"
	"crypto/sha256"
	"encoding/binary"
	"encoding/hex"
	"fmt"
	"os"
	"reflect"
	"regexp"
	"runtime"
	"sort"
	"strconv"
	"strings"
	"sync"
	"sync/atomic"
	"testing"
	"time"

	"pgregory.net/rapid"

	"verif/harness/internal/rep"
)

func TestMain(m *testing.M) { rep.Main(m) }

func selected(name string) bool {
	p := os.Getenv("VERIF_INST")
	if p == "" {
		return true
	}
	ok, _ := regexp.MatchString(p, name)
	return ok
}

// ---- deterministic pseudo-random bytes for the shared inputs (function of VERIF_SEED only) ------

type detReader struct {
	key [32]byte
	ctr uint64
	buf []byte
}

// newDet returns a deterministic byte stream labelled by label (SHA-256 in counter mode).
func newDet(label string) *detReader {
	seed := os.Getenv("VERIF_SEED")
	if seed == "" {
		seed = "1"
	}
	return &detReader{key: sha256.Sum256([]byte("c18|" + seed + "|" + label))}
}

func (d *detReader) Read(p []byte) (int, error) {
	for i := range p {
		if len(d.buf) == 0 {
			var c [8]byte
			binary.LittleEndian.PutUint64(c[:], d.ctr)
			d.ctr++
			s := sha256.Sum256(append(d.key[:], c[:]...))
			d.buf = s[:]
		}
		p[i] = d.buf[0]
		d.buf = d.buf[1:]
	}
	return len(p), nil
}

func (d *detReader) bytes(n int) []byte {
	b := make([]byte, n)
	d.Read(b)
	return spareOf(b, 16) // every drawn byte string is a prefix of a larger array with a sentinel tail
}

func (d *detReader) intn(n int) int {
	b := d.bytes(8)
	return int(binary.LittleEndian.Uint64(b) % uint64(n))
}

// ---- registry --------------------------------------------------------------------------------

type arg struct {
	name  string
	obj   interface{} // pointer, slice or map: the shared object handed to the library
	spare bool        // a slice with spare capacity (its tail holds the sentinel pattern and is part of the snapshot)
}

type entry struct {
	name  string // group/api[variant]
	call  func() []byte
	args  []arg
	light bool   // member of the reduced registry (quick-tier -race suite)
	heavy bool   // several ms per call: not used in 64-goroutine mixes
	note  string // e.g. "verdict only"
	// ret, when set, performs the call and also hands out pointers to every reference-bearing value the
	// library returned (pointers, slices, maps, big.Ints); call is then derived from it
	ret     func() ([]byte, []interface{})
	classes []string // extra class labels of the cases this entry takes part in (e.g. the rejection kinds of a decoder pool)
	pool    bool     // borrows from a process-wide pool (big.Int pools): interleaved with its likes in the histories
	// filled by the group
	first []byte // result of the very first call in this process (sequential)
	idx   int
	g     *group
}

type group struct {
	name    string
	build   func(b *builder)
	once    sync.Once
	entries []*entry
	// purity violations observed while recording the first result of each entry
	firstCallImpure []string
	notes           []string // exemptions / observations of the build (emitted as rep.Note by the tests)
	// world: digest of EVERY shared object of the group, taken before the first call. It is compared after every
	// call of any entry: an argument may be damaged by a later call of another entry (e.g. through a pool)
	world *snapSet
	// slow-path conversions for the pool stress runs of the concurrent suite
	stress []*stressOp
}

// damaged returns the shared objects of the group that no longer have their original content.
func (g *group) damaged() []string { return g.world.changed() }

// blame explains a purity violation observed right after a call of e.
func blame(e *entry, changed []string) string {
	own := map[string]bool{}
	for _, a := range e.args {
		own[a.name] = true
	}
	var mine, others []string
	for _, c := range changed {
		if own[c] {
			mine = append(mine, c)
		} else {
			others = append(others, c)
		}
	}
	msg := ""
	if len(mine) > 0 {
		msg += fmt.Sprintf("%s modified its shared argument(s) %v (or returned a value aliasing them)", e.name, mine)
	}
	if len(others) > 0 {
		if msg != "" {
			msg += "; "
		}
		msg += fmt.Sprintf("after the call of %s the shared object(s) %v, arguments of OTHER entry points, are changed: an earlier call leaked them "+
			"into state this call wrote to (pool, cache) or this call wrote outside its arguments", e.name, others)
	}
	return msg
}

var (
	groupsMu sync.Mutex
	groups   = map[string]*group{}
)

func registerGroup(name string, build func(b *builder)) {
	groupsMu.Lock()
	defer groupsMu.Unlock()
	groups[name] = &group{name: name, build: build}
}

func groupNames() []string {
	groupsMu.Lock()
	defer groupsMu.Unlock()
	var ns []string
	for n := range groups {
		ns = append(ns, n)
	}
	sort.Strings(ns)
	return ns
}

type builder struct {
	g     *group
	light bool
	heavy bool
	pool  bool
}

// add registers one entry point. args are the shared objects the call must leave untouched.
func (b *builder) add(name string, call func() []byte, args ...arg) *entry {
	e := &entry{name: b.g.name + "/" + name, call: call, args: args, light: b.light, heavy: b.heavy, pool: b.pool, g: b.g}
	b.g.entries = append(b.g.entries, e)
	return e
}

// addRet registers an entry point whose result holds references: after every call the harness
// overwrites the returned values in place (scribble) — they belong to the caller — and later calls
// must still return the first result.
func (b *builder) note(text string) { b.g.notes = append(b.g.notes, text) }

func (b *builder) addRet(name string, ret func() ([]byte, []interface{}), args ...arg) *entry {
	e := b.add(name, func() []byte { s, _ := ret(); return s }, args...)
	e.ret = ret
	return e
}

// run performs one call of e; for entries that return references the returned values are scribbled over.
func (e *entry) run() []byte {
	if e.ret == nil {
		return e.call()
	}
	s, vals := e.ret()
	scribble(vals...)
	return s
}

// afterScribble re-runs a reference-returning entry right after its result was overwritten: "" if
// it still returns the first result.
func afterScribble(e *entry) string {
	if e.ret == nil {
		return ""
	}
	again, pan := func() (r []byte, p string) {
		defer func() {
			if x := recover(); x != nil {
				p = fmt.Sprint(x)
			}
		}()
		return e.call(), ""
	}()
	if pan != "" {
		return fmt.Sprintf("SCRIBBLE_RETURNED: after the value returned by %s was overwritten in place, the next call panics: %s", e.name, pan)
	}
	if !bytes.Equal(again, e.first) {
		return fmt.Sprintf("SCRIBBLE_RETURNED: after the value returned by %s was overwritten in place (it belongs to the caller), the next call "+
			"returns %s instead of %s: the returned value aliases state the library keeps", e.name, short(again), short(e.first))
	}
	return ""
}

func scribbleHint(e *entry) string {
	if e.ret == nil {
		return ""
	}
	return " (SCRIBBLE_RETURNED: every caller overwrites the values returned to it; they must not alias state the library keeps)"
}

func retClass(es ...*entry) []string {
	var r []string
	scr := false
	seen := map[string]bool{}
	for _, e := range es {
		if e.ret != nil && !scr {
			scr = true
			r = append(r, "scribble_returned")
		}
		for _, c := range e.classes {
			if !seen[c] {
				seen[c] = true
				r = append(r, c)
			}
		}
		for _, a := range e.args {
			if a.spare && !seen["arg:spare_capacity_sentinel"] {
				seen["arg:spare_capacity_sentinel"] = true
				r = append(r, "arg:spare_capacity_sentinel")
			}
		}
	}
	return r
}

// keyDefaultParams: known-finding key under which poseidon2.GetDefaultParameters handing out the process-wide
// singleton would be excluded from the scribble oracle (see the report; not listed unless the lead decides so).
const keyDefaultParams = "poseidon2-getdefaultparameters-returns-shared-singleton"

func sh(name string, obj interface{}) arg {
	v := reflect.ValueOf(obj)
	return arg{name, obj, v.Kind() == reflect.Slice && v.Cap() > v.Len()}
}

// get builds the group (once) and records the first, sequential result of every entry.
func (g *group) get() []*entry {
	g.once.Do(func() {
		b := &builder{g: g}
		g.build(b)
		for _, s := range g.stress {
			s.want = s.run() // sequential result
		}
		g.world = snapArgs(g.entries...)
		known := map[string]bool{}
		for i, e := range g.entries {
			e.idx = i
			// the very first call of an entry in this process is where lazily built caches get written into
			// shared arguments: it runs under the purity oracle too (all shared objects of the group)
			var pan string
			e.first, pan = safeCall(e)
			if pan != "" {
				g.firstCallImpure = append(g.firstCallImpure, fmt.Sprintf("first call of %s: %s", e.name, pan))
				if hung.Load() {
					break // the process is wedged: nothing after this call can be decided
				}
			}
			var fresh []string
			for _, c := range g.damaged() {
				if !known[c] {
					known[c] = true
					fresh = append(fresh, c)
				}
			}
			if len(fresh) > 0 {
				g.firstCallImpure = append(g.firstCallImpure, "PURITY: on its first call: "+blame(e, fresh))
			}
			if e.ret != nil {
				if again := e.call(); !bytes.Equal(again, e.first) {
					g.firstCallImpure = append(g.firstCallImpure, fmt.Sprintf("SCRIBBLE_RETURNED: after the value returned by the first call of %s "+
						"was overwritten in place, the next call returns %s instead of %s: the result aliases state the library keeps", e.name, short(again), short(e.first)))
				}
			}
		}
	})
	return g.entries
}

// reduced reports whether only the reduced registry is to be used (quick-tier race jobs).
func reduced() bool { return os.Getenv("VERIF_C18_REDUCED") == "1" }

func (g *group) usable() []*entry {
	es := g.get()
	if !reduced() {
		return es
	}
	var r []*entry
	for _, e := range es {
		if e.light {
			r = append(r, e)
		}
	}
	return r
}

func forGroups(t *testing.T, f func(t *testing.T, g *group)) {
	n := 0
	for _, name := range groupNames() {
		if !selected(name) {
			continue
		}
		n++
		g := groups[name]
		t.Run(name, func(t *testing.T) { f(t, g) })
	}
	if n == 0 {
		t.Fatalf("VERIF_INST=%q selects no group (have %v)", os.Getenv("VERIF_INST"), groupNames())
	}
}

// ---- result serialisation helpers --------------------------------------------------------------

type out struct{ bytes.Buffer }

func (o *out) b(p []byte) *out {
	var l [4]byte
	binary.LittleEndian.PutUint32(l[:], uint32(len(p)))
	o.Write(l[:])
	o.Write(p)
	return o
}
func (o *out) s(s string) *out { return o.b([]byte(s)) }
func (o *out) err(e error) *out {
	if e == nil {
		return o.s("ok")
	}
	return o.s("err:" + e.Error())
}
func (o *out) bool(v bool) *out {
	if v {
		return o.s("T")
	}
	return o.s("F")
}
func (o *out) int(v int) *out { return o.s(fmt.Sprint(v)) }

func short(b []byte) string {
	h := sha256.Sum256(b)
	return fmt.Sprintf("%d bytes sha256=%s", len(b), hex.EncodeToString(h[:8]))
}

// safeCall runs e.call and converts a panic into an error text (a panic is a failure, with a
// readable message instead of a crashed process).
func safeCall(e *entry) (res []byte, panicked string) {
	if hung.Load() {
		return nil, "NO RESULT: an earlier call in this process never returned (see the first failure)"
	}
	type outcome struct {
		res []byte
		pan string
	}
	ch := make(chan outcome, 1)
	go func() {
		defer func() {
			if r := recover(); r != nil {
				buf := make([]byte, 4096)
				buf = buf[:runtime.Stack(buf, false)]
				ch <- outcome{nil, fmt.Sprintf("%v\n%s", r, buf)}
			}
		}()
		ch <- outcome{e.run(), ""}
	}()
	select {
	case o := <-ch:
		return o.res, o.pan
	case <-time.After(deadline()):
		hung.Store(true)
		return nil, fmt.Sprintf("NO RESULT: %s did not return within %v (its calls take milliseconds); goroutines blocked in the library:\n%s",
			e.name, deadline(), blockedDump())
	}
}

// A call that never returns gives no result at all. The watchdog is not a timing oracle: the deadline is
// 10^4..10^5 times the duration of any registry entry and only turns a hang (which would otherwise end as an
// inconclusive job timeout) into a readable failure with the goroutine dump that proves the deadlock.
var hung atomic.Bool

func deadline() time.Duration {
	if s, err := strconv.Atoi(os.Getenv("VERIF_C18_DEADLINE_S")); err == nil && s > 0 {
		return time.Duration(s) * time.Second
	}
	return 240 * time.Second
}

// blockedDump returns the stacks of the goroutines that are blocked inside gnark-crypto.
func blockedDump() string {
	buf := make([]byte, 1<<22)
	buf = buf[:runtime.Stack(buf, true)]
	var keep []string
	for _, g := range strings.Split(string(buf), "\n\n") {
		if strings.Contains(g, "gnark-crypto") && (strings.Contains(g, "[chan ") || strings.Contains(g, "[semacquire") ||
			strings.Contains(g, "[select") || strings.Contains(g, "[sync.")) {
			if len(g) > 1500 {
				g = g[:1500] + " ..."
			}
			keep = append(keep, g)
		}
		if len(keep) >= 6 {
			break
		}
	}
	if len(keep) == 0 {
		return "(no goroutine is blocked on a channel or lock inside the library: the call is still computing)"
	}
	return strings.Join(keep, "\n\n")
}

type snapSet struct {
	names []string
	objs  []interface{}
	dig   []digest
}

// snapArgs digests the shared arguments of the given entries (each distinct object once).
func snapArgs(es ...*entry) *snapSet {
	s := &snapSet{}
	seen := map[string]bool{}
	for _, e := range es {
		for _, a := range e.args {
			if seen[a.name] {
				continue
			}
			seen[a.name] = true
			s.names = append(s.names, a.name)
			s.objs = append(s.objs, a.obj)
			s.dig = append(s.dig, snapshotArg(a.obj))
		}
	}
	return s
}

// changed returns the names of the objects whose digest differs now.
func (s *snapSet) changed() []string {
	var r []string
	for i, o := range s.objs {
		if snapshotArg(o) != s.dig[i] {
			r = append(r, s.names[i])
		}
	}
	return r
}

// ---- (1)+(2) purity and repeatability ----------------------------------------------------------

func TestC18_Sequential(t *testing.T) {
	forGroups(t, func(t *testing.T, g *group) {
		es := g.usable()
		test := "C18_Sequential/" + g.name
		rep.Note(test, fmt.Sprintf("%d entry points in group %s", len(es), g.name))
		if len(g.firstCallImpure) > 0 {
			for _, m := range g.firstCallImpure {
				t.Errorf("%s", m)
			}
			t.FailNow()
		}
		for _, n := range g.notes {
			rep.Note(test, n)
		}
		sweepSequential(t, test, es)
		rapid.Check(t, func(rt *rapid.T) { propSequential(rt, test, es) })
	})
}

// sweepSequential is the deterministic floor under the sampled histories: every entry point of the
// group is called three times, interleaved with its successor (a b a b a b), with the purity and
// repeatability oracles on every call, so no entry depends on being drawn.
func sweepSequential(t *testing.T, test string, es []*entry) {
	for i, e := range es {
		pair := []*entry{e, es[(i+1)%len(es)]}
		for n := 0; n < 6; n++ {
			c := pair[n%2]
			res, pan := safeCall(c)
			if pan != "" {
				t.Fatalf("sweep: %s panicked: %s", c.name, pan)
			}
			if ch := c.g.damaged(); len(ch) > 0 {
				t.Fatalf("PURITY: sweep (%s interleaved with %s): %s", pair[0].name, pair[1].name, blame(c, ch))
			}
			if msg := afterScribble(c); msg != "" {
				t.Fatalf("%s", msg)
			}
			if !bytes.Equal(res, c.first) {
				t.Fatalf("REPEATABILITY: sweep: call %d of %s (interleaved with %s) returned %s, its first call in this process returned %s",
					n/2+1, c.name, pair[1-n%2].name, short(res), short(c.first))
			}
		}
		rep.Case(test, "sweep:"+pair[0].name+";"+pair[1].name, true, append([]string{"sweep", "entry:" + e.name, "k=3"}, retClass(pair...)...)...)
	}
}

func propSequential(rt *rapid.T, test string, es []*entry) {
	// one history in four is drawn among the entry points that borrow from process-wide pools only, so that pool
	// users meet each other (a pooled object dirtied or leaked by one is picked up by the next)
	focus := false
	if pu := poolUsers(es); len(pu) >= 2 && rapid.IntRange(0, 3).Draw(rt, "poolFocus") == 0 {
		es, focus = pu, true
	}
	m := rapid.IntRange(1, 5).Draw(rt, "distinct")
	if m > len(es) {
		m = len(es)
	}
	perm := pickDistinct(rt, len(es), m)
	var seq []int
	reps := make([]int, m)
	for i := range perm {
		reps[i] = rapid.IntRange(2, 5).Draw(rt, "k")
		for j := 0; j < reps[i]; j++ {
			seq = append(seq, perm[i])
		}
	}
	if len(seq) > 1 {
		seq = rapid.Permutation(seq).Draw(rt, "order")
	}
	var chosen []*entry
	classes := []string{}
	kmax := 0
	for i, p := range perm {
		chosen = append(chosen, es[p])
		classes = append(classes, "entry:"+es[p].name, fmt.Sprintf("k=%d", reps[i]))
		if reps[i] > kmax {
			kmax = reps[i]
		}
	}
	classes = append(classes, fmt.Sprintf("distinct=%d", m))
	if focus {
		classes = append(classes, "pool_interleave")
	}
	var key strings.Builder
	for n, p := range seq {
		e := es[p]
		fmt.Fprintf(&key, "%s;", e.name)
		res, pan := safeCall(e)
		if pan != "" {
			rt.Fatalf("step %d: %s panicked: %s", n, e.name, pan)
		}
		if ch := e.g.damaged(); len(ch) > 0 {
			rt.Fatalf("PURITY: step %d: %s (history %s)", n, blame(e, ch), key.String())
		}
		if msg := afterScribble(e); msg != "" {
			rt.Fatalf("step %d: %s", n, msg)
		}
		if !bytes.Equal(res, e.first) {
			rt.Fatalf("REPEATABILITY: step %d: %s returned %s, its first call in this process returned %s (history %s)",
				n, e.name, short(res), short(e.first), key.String())
		}
	}
	rep.Case(test, key.String(), true, uniq(append(classes, retClass(chosen...)...))...)
}

func poolUsers(es []*entry) []*entry {
	var r []*entry
	for _, e := range es {
		if e.pool {
			r = append(r, e)
		}
	}
	return r
}

// pickDistinct draws m distinct indices below n (partial Fisher-Yates over rapid draws).
func pickDistinct(rt *rapid.T, n, m int) []int {
	rest := make([]int, n)
	for i := range rest {
		rest[i] = i
	}
	var r []int
	for i := 0; i < m; i++ {
		j := rapid.IntRange(0, len(rest)-1).Draw(rt, "pick")
		r = append(r, rest[j])
		rest = append(rest[:j], rest[j+1:]...)
	}
	return r
}

func uniq(s []string) []string {
	seen := map[string]bool{}
	var r []string
	for _, x := range s {
		if !seen[x] {
			seen[x] = true
			r = append(r, x)
		}
	}
	return r
}

// ---- (3)+(4) concurrency ----------------------------------------------------------------------

var gChoices = []int{2, 3, 8, 64}
var pChoices = []int{1, 2, 3, 8, 16}

type step struct {
	e     *entry
	yield bool
}

func TestC18_Concurrent(t *testing.T) {
	forGroups(t, func(t *testing.T, g *group) {
		es := g.usable()
		test := "C18_Concurrent/" + g.name
		if reduced() {
			rep.Note(test, fmt.Sprintf("reduced registry (%d of %d entry points of %s) for the quick-tier -race build; "+
				"the full registry runs under -race in the thorough tier", len(es), len(g.get()), g.name))
		}
		if len(g.firstCallImpure) > 0 { // found while building the registry: everything after it is a consequence
			for _, m := range g.firstCallImpure {
				t.Errorf("%s", m)
			}
			t.FailNow()
		}
		defer runtime.GOMAXPROCS(runtime.GOMAXPROCS(0))
		stressPool(t, test, g)
		sweepConcurrent(t, test, es)
		rapid.Check(t, func(rt *rapid.T) { propConcurrent(rt, test, es) })
	})
}

// runPlans executes plans[i] on goroutine i, all released by one barrier, and returns the results.
func runPlans(p int, plans [][]step) (results [][][]byte, panics []string) {
	g := len(plans)
	runtime.GOMAXPROCS(p)
	results = make([][][]byte, g)
	panics = make([]string, g)
	var ready, done sync.WaitGroup
	start := make(chan struct{})
	ready.Add(g)
	done.Add(g)
	for i := 0; i < g; i++ {
		go func(i int) {
			defer done.Done()
			ready.Done()
			<-start // barrier
			for _, s := range plans[i] {
				r, pan := safeCall(s.e)
				if pan != "" {
					panics[i] = s.e.name + ": " + pan
					return
				}
				results[i] = append(results[i], r)
				if s.yield {
					runtime.Gosched()
				}
			}
		}(i)
	}
	ready.Wait()
	close(start)
	done.Wait()
	return
}

// stressPool: 48 and 64 goroutines, each on a P of its own (GOMAXPROCS = g, the OS interleaves the threads),
// released by a barrier, all inside slow-path conversions that hold scratch values of the process-wide big.Int
// pool for milliseconds (fields of different packages in the same run). Every result must equal the sequential
// one; a panic in any goroutine is a failure, reported with its stack.
func stressPool(t *testing.T, test string, g *group) {
	if len(g.stress) == 0 {
		return
	}
	if os.Getenv("VERIF_C18_STRESS") == "0" {
		return // jobs that repeat the concurrent suite in another build variant skip the stress run (conf/c18.py)
	}
	rounds := 2
	for _, n := range []int{48, 64} {
		runtime.GOMAXPROCS(n)
		type res struct {
			op  *stressOp
			out []byte
			pan string
		}
		results := make([][]res, n)
		var ready, done sync.WaitGroup
		start := make(chan struct{})
		ready.Add(n)
		done.Add(n)
		for i := 0; i < n; i++ {
			go func(i int) {
				defer done.Done()
				ready.Done()
				<-start
				for r := 0; r < rounds; r++ {
					op := g.stress[(i*7+r*5)%len(g.stress)]
					func() {
						defer func() {
							if x := recover(); x != nil {
								buf := make([]byte, 6000)
								buf = buf[:runtime.Stack(buf, false)]
								results[i] = append(results[i], res{op, nil, fmt.Sprintf("%v\n%s", x, buf)})
							}
						}()
						results[i] = append(results[i], res{op, op.run(), ""})
					}()
				}
			}(i)
		}
		ready.Wait()
		close(start)
		done.Wait()
		for i := range results {
			for _, r := range results[i] {
				if r.pan != "" {
					t.Fatalf("POOL STRESS: %d goroutines inside slow-path conversions: goroutine %d panicked in %s: %s", n, i, r.op.name, r.pan)
				}
				if !bytes.Equal(r.out, r.op.want) {
					t.Fatalf("POOL STRESS: %d goroutines inside slow-path conversions: goroutine %d obtained %s from %s, alone it returns %s",
						n, i, short(r.out), r.op.name, short(r.op.want))
				}
			}
		}
		if ch := g.damaged(); len(ch) > 0 {
			t.Fatalf("PURITY: shared object(s) %v changed during the pool stress run", ch)
		}
		rep.Case(test, fmt.Sprintf("pool-stress g=%d", n), true, "pool_stress:g>=48", fmt.Sprintf("pool_stress:g=%d", n))
	}
}

// sweepConcurrent is the deterministic floor under the sampled mixes: every entry point is run by
// 4 goroutines at once, twice each, on its shared objects (GOMAXPROCS cycling through the set).
func sweepConcurrent(t *testing.T, test string, es []*entry) {
	for i, e := range es {
		p := pChoices[1+i%(len(pChoices)-1)] // 2,3,8,16: real parallelism
		plans := make([][]step, 4)
		for j := range plans {
			plans[j] = []step{{e, j%2 == 0}, {e, false}}
		}
		results, panics := runPlans(p, plans)
		for j := range plans {
			if panics[j] != "" {
				t.Fatalf("CONCURRENCY: sweep: panic in %s", panics[j])
			}
		}
		if ch := e.g.damaged(); len(ch) > 0 {
			t.Fatalf("PURITY: sweep: while 4 goroutines ran %s: %s", e.name, blame(e, ch))
		}
		for j := range plans {
			for _, r := range results[j] {
				if !bytes.Equal(r, e.first) {
					t.Fatalf("CONCURRENCY: sweep: 4 goroutines (GOMAXPROCS=%d) all running %s: one obtained %s, alone it returns %s%s",
						p, e.name, short(r), short(e.first), scribbleHint(e))
				}
			}
		}
		rep.Case(test, "sweep:"+e.name, true, append([]string{"sweep", "entry:" + e.name, "g=4(sweep)", fmt.Sprintf("P=%d", p), "mode:same"}, retClass(e)...)...)
	}
}

func propConcurrent(rt *rapid.T, test string, es []*entry) {
	g := rapid.SampledFrom(gChoices).Draw(rt, "g")
	p := rapid.SampledFrom(pChoices).Draw(rt, "P")
	mode := rapid.SampledFrom([]string{"same", "pair", "mix", "pool"}).Draw(rt, "mode")
	pool := es
	if g == 64 {
		pool = nil
		for _, e := range es {
			if !e.heavy {
				pool = append(pool, e)
			}
		}
	}
	maxLen := 3
	if g >= 8 {
		maxLen = 2
	}
	// the alphabet of this case: one entry (everybody hammers the same objects), two, or any
	var alpha []*entry
	switch mode {
	case "same":
		alpha = []*entry{pool[rapid.IntRange(0, len(pool)-1).Draw(rt, "entry")]}
	case "pair":
		alpha = []*entry{pool[rapid.IntRange(0, len(pool)-1).Draw(rt, "entry")], pool[rapid.IntRange(0, len(pool)-1).Draw(rt, "entry2")]}
	case "pool": // only entry points borrowing from process-wide pools: they meet each other on every P
		if alpha = poolUsers(pool); len(alpha) < 2 {
			alpha, mode = pool, "mix"
		}
	default:
		alpha = pool
	}
	plans := make([][]step, g)
	used := map[*entry]bool{}
	var key strings.Builder
	fmt.Fprintf(&key, "g=%d P=%d %s:", g, p, mode)
	for i := range plans {
		n := rapid.IntRange(1, maxLen).Draw(rt, "len")
		for j := 0; j < n; j++ {
			e := alpha[rapid.IntRange(0, len(alpha)-1).Draw(rt, "e")]
			y := rapid.Bool().Draw(rt, "yield")
			plans[i] = append(plans[i], step{e, y})
			used[e] = true
			if i < 8 {
				fmt.Fprintf(&key, " %d:%s", i, e.name)
			}
		}
	}
	var ul []*entry
	for e := range used {
		ul = append(ul, e)
	}
	sort.Slice(ul, func(i, j int) bool { return ul[i].idx < ul[j].idx })

	results, panics := runPlans(p, plans)

	for i := range plans {
		if panics[i] != "" {
			rt.Fatalf("CONCURRENCY: goroutine %d of %d (GOMAXPROCS=%d): panic in %s", i, g, p, panics[i])
		}
	}
	if ch := es[0].g.damaged(); len(ch) > 0 {
		rt.Fatalf("PURITY: shared object(s) %v changed during concurrent use (g=%d P=%d mode %s) of %s", ch, g, p, mode, key.String())
	}
	for i := range plans {
		for j, s := range plans[i] {
			if !bytes.Equal(results[i][j], s.e.first) {
				rt.Fatalf("CONCURRENCY: goroutine %d of %d (GOMAXPROCS=%d, mode %s): %s returned %s, alone it returns %s%s",
					i, g, p, mode, s.e.name, short(results[i][j]), short(s.e.first), scribbleHint(s.e))
			}
		}
	}
	classes := []string{fmt.Sprintf("g=%d", g), fmt.Sprintf("P=%d", p), "mode:" + mode, fmt.Sprintf("g=%d,P=%d", g, p)}
	for _, e := range ul {
		classes = append(classes, "entry:"+e.name)
	}
	classes = append(classes, retClass(ul...)...)
	rep.Case(test, key.String(), true, classes...)
}

func sliceOf[T any](xs ...T) []T { return xs }

func equalFr(a, b []byte) bool { return bytes.Equal(a, b) }
