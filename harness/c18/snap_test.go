package c18

// Deep snapshots: a digest of everything reachable from an argument object, including unexported
// fields (reached with unsafe), slices by content (len elements), maps order-independently.
// Two snapshots of one object are equal iff no byte reachable from it changed in between
// (modulo SHA-256 collisions). Synchronisation primitives (package sync, sync/atomic), funcs and
// channels carry no value and are skipped. Pointer *addresses* are not hashed, only nil-ness and
// the pointee, so the digest describes the value, not the allocation.

import (
	"crypto/sha256"
	"encoding/binary"
	"hash"
	"math/big"
	"math/bits"
	"reflect"
	"sync"
	"unsafe"
)

type digest [32]byte

type snapWalker struct {
	tails   bool // argument snapshots: the bytes behind len up to cap of every flat slice belong to the caller, too
	h       hash.Hash
	visited map[visitKey]int
	buf     [9]byte
}

type visitKey struct {
	p unsafe.Pointer
	t reflect.Type
}

var (
	flatMu    sync.Mutex
	flatCache = map[reflect.Type]bool{}
)

// flat reports whether values of type t are plain memory: no pointers, no padding, no
// synchronisation words. Such values are hashed as raw bytes.
func flat(t reflect.Type) bool {
	flatMu.Lock()
	v, ok := flatCache[t]
	flatMu.Unlock()
	if ok {
		return v
	}
	v = flatUncached(t)
	flatMu.Lock()
	flatCache[t] = v
	flatMu.Unlock()
	return v
}

func skipType(t reflect.Type) bool {
	switch t.PkgPath() {
	case "sync", "sync/atomic", "internal/sync":
		return true
	}
	return false
}

func flatUncached(t reflect.Type) bool {
	if skipType(t) {
		return false
	}
	switch t.Kind() {
	case reflect.Bool, reflect.Int, reflect.Int8, reflect.Int16, reflect.Int32, reflect.Int64,
		reflect.Uint, reflect.Uint8, reflect.Uint16, reflect.Uint32, reflect.Uint64, reflect.Uintptr,
		reflect.Float32, reflect.Float64, reflect.Complex64, reflect.Complex128:
		return true
	case reflect.Array:
		return flat(t.Elem())
	case reflect.Struct:
		var sum uintptr
		for i := 0; i < t.NumField(); i++ {
			f := t.Field(i)
			if !flat(f.Type) {
				return false
			}
			sum += f.Type.Size()
		}
		return sum == t.Size() // no padding
	}
	return false
}

func (w *snapWalker) tag(b byte, n uint64) {
	w.buf[0] = b
	binary.LittleEndian.PutUint64(w.buf[1:], n)
	w.h.Write(w.buf[:])
}

func (w *snapWalker) raw(p unsafe.Pointer, n uintptr) {
	if n == 0 {
		return
	}
	if n >= 1<<12 && uintptr(p)%8 == 0 {
		// large flat memory (point/scalar vectors, tables): four lanes of a multiply-rotate word hash, whose
		// 32-byte state goes into the SHA-256 stream. The snapshots are taken after every call, on every shared
		// object of the group, and SHA-256 of megabytes per call would dominate the run.
		words := unsafe.Slice((*uint64)(p), n/8)
		l := [4]uint64{0x9e3779b97f4a7c15, 0xbf58476d1ce4e5b9, 0x94d049bb133111eb, 0x2545f4914f6cdd1d}
		i := 0
		for ; i+4 <= len(words); i += 4 {
			l[0] = bits.RotateLeft64((l[0]^words[i])*0xff51afd7ed558ccd, 29)
			l[1] = bits.RotateLeft64((l[1]^words[i+1])*0xc4ceb9fe1a85ec53, 31)
			l[2] = bits.RotateLeft64((l[2]^words[i+2])*0x9fb21c651e98df25, 27)
			l[3] = bits.RotateLeft64((l[3]^words[i+3])*0xd6e8feb86659fd93, 33)
		}
		for ; i < len(words); i++ {
			l[0] = bits.RotateLeft64((l[0]^words[i])*0xff51afd7ed558ccd, 29)
		}
		var st [32]byte
		for k := range l {
			binary.LittleEndian.PutUint64(st[8*k:], l[k])
		}
		w.h.Write(st[:])
		if tail := n % 8; tail != 0 {
			w.h.Write(unsafe.Slice((*byte)(unsafe.Add(p, n-tail)), tail))
		}
		return
	}
	w.h.Write(unsafe.Slice((*byte)(p), n))
}

// addressable returns an addressable, read-write view of v.
func addressable(v reflect.Value) reflect.Value {
	if v.CanAddr() {
		return reflect.NewAt(v.Type(), unsafe.Pointer(v.UnsafeAddr())).Elem()
	}
	nv := reflect.New(v.Type()).Elem()
	nv.Set(v)
	return nv
}

func (w *snapWalker) walk(v reflect.Value) {
	t := v.Type()
	if skipType(t) {
		w.tag('S', 0)
		return
	}
	switch t.Kind() {
	case reflect.Ptr:
		if v.IsNil() {
			w.tag('n', 0)
			return
		}
		k := visitKey{v.UnsafePointer(), t}
		if id, ok := w.visited[k]; ok {
			w.tag('r', uint64(id))
			return
		}
		w.visited[k] = len(w.visited)
		w.tag('p', 0)
		w.walk(v.Elem())
	case reflect.Slice:
		if v.IsNil() {
			w.tag('N', 0)
			return
		}
		n := v.Len()
		w.tag('s', uint64(n))
		et := t.Elem()
		if w.tails && v.Cap() > n && flat(et) && et.Size() > 0 {
			// spare capacity: a callee appending to (or scribbling behind) a slice argument writes here
			w.tag('T', uint64(v.Cap()-n))
			w.raw(unsafe.Add(v.UnsafePointer(), uintptr(n)*et.Size()), uintptr(v.Cap()-n)*et.Size())
		}
		if n == 0 {
			return
		}
		if flat(et) {
			w.raw(v.UnsafePointer(), uintptr(n)*et.Size())
			return
		}
		for i := 0; i < n; i++ {
			w.walk(v.Index(i))
		}
	case reflect.Array:
		w.tag('a', uint64(v.Len()))
		if !v.CanAddr() {
			v = addressable(v)
		}
		if flat(t) {
			w.raw(unsafe.Pointer(v.UnsafeAddr()), t.Size())
			return
		}
		for i := 0; i < v.Len(); i++ {
			w.walk(v.Index(i))
		}
	case reflect.Struct:
		v = addressable(v)
		if flat(t) {
			w.tag('f', uint64(t.Size()))
			w.raw(unsafe.Pointer(v.UnsafeAddr()), t.Size())
			return
		}
		w.tag('{', uint64(t.NumField()))
		for i := 0; i < t.NumField(); i++ {
			w.walk(addressable(v.Field(i)))
		}
	case reflect.Map:
		if v.IsNil() {
			w.tag('M', 0)
			return
		}
		w.tag('m', uint64(v.Len()))
		// order-independent: sum of the digests of the (key, value) pairs
		var acc [32]byte
		it := v.MapRange()
		for it.Next() {
			sub := &snapWalker{h: sha256.New(), visited: map[visitKey]int{}}
			sub.walk(addressable(it.Key()))
			sub.walk(addressable(it.Value()))
			var d [32]byte
			sub.h.Sum(d[:0])
			var carry uint16
			for i := range acc {
				s := uint16(acc[i]) + uint16(d[i]) + carry
				acc[i] = byte(s)
				carry = s >> 8
			}
		}
		w.h.Write(acc[:])
	case reflect.Interface:
		if v.IsNil() {
			w.tag('I', 0)
			return
		}
		e := v.Elem()
		w.tag('i', uint64(len(e.Type().String())))
		w.h.Write([]byte(e.Type().String()))
		if e.Kind() == reflect.Ptr {
			w.walk(e)
		} else {
			w.walk(addressable(e))
		}
	case reflect.String:
		s := v.String()
		w.tag('"', uint64(len(s)))
		w.h.Write([]byte(s))
	case reflect.Func, reflect.Chan, reflect.UnsafePointer:
		if v.IsNil() {
			w.tag('z', 0)
		} else {
			w.tag('Z', 0)
		}
	case reflect.Bool:
		if v.Bool() {
			w.tag('b', 1)
		} else {
			w.tag('b', 0)
		}
	case reflect.Int, reflect.Int8, reflect.Int16, reflect.Int32, reflect.Int64:
		w.tag('d', uint64(v.Int()))
	case reflect.Uint, reflect.Uint8, reflect.Uint16, reflect.Uint32, reflect.Uint64, reflect.Uintptr:
		w.tag('u', v.Uint())
	case reflect.Float32, reflect.Float64:
		w.tag('g', uint64(int64(v.Float()*1e6)))
	default:
		w.tag('?', uint64(t.Kind()))
	}
}

// snapshot digests everything reachable from x. x must be a pointer, a slice or a map (the shared
// objects are always handed over by reference, otherwise they could not be mutated by a callee).
func snapshot(x interface{}) digest {
	w := &snapWalker{h: sha256.New(), visited: map[visitKey]int{}}
	w.walk(reflect.ValueOf(x))
	var d digest
	w.h.Sum(d[:0])
	return d
}

// snapshotArg is snapshot for shared ARGUMENTS: it also covers the spare capacity (len..cap) of every flat
// slice reachable from x. Results and returned values are digested by snapshot (their spare capacity is
// allocator garbage).
func snapshotArg(x interface{}) digest {
	w := &snapWalker{tails: true, h: sha256.New(), visited: map[visitKey]int{}}
	w.walk(reflect.ValueOf(x))
	var d digest
	w.h.Sum(d[:0])
	return d
}

const sentinel = 0xa5

// spareOf returns a copy of s that is a prefix of a larger array (extra more elements) whose tail holds the
// sentinel pattern: what an argument looks like when it is a field of a record, a window into a pooled buffer
// or a tag shared by several callers. T must be a flat type (bytes, field elements, points).
func spareOf[T any](s []T, extra int) []T {
	full := make([]T, len(s)+extra)
	copy(full, s)
	if extra > 0 {
		var z T
		tail := unsafe.Slice((*byte)(unsafe.Pointer(&full[len(s)])), uintptr(extra)*unsafe.Sizeof(z))
		for i := range tail {
			tail[i] = sentinel
		}
	}
	return full[:len(s)]
}

// adjacent places first and second next to each other in one backing array followed by a sentinel tail:
// first = rec[0:len(first)] keeps the capacity of the whole record, so that a callee appending to first writes
// into second.
func adjacent(first, second []byte) ([]byte, []byte) {
	rec := spareOf(append(append([]byte(nil), first...), second...), 24)
	return rec[:len(first)], rec[len(first) : len(first)+len(second)]
}

// ---- scribbling over returned values ------------------------------------------------------------
//
// scribble overwrites, in place, everything a caller can reach from a value the library RETURNED
// to it: every byte of flat slice/array memory and of big.Int limb arrays is inverted (through
// exported fields, slices, pointers, maps), then struct fields are zeroed. References held by
// unexported fields are not written through (no caller could), only dropped. A returned value is the caller's to use as it likes (e.g. as the
// destination of its own arithmetic); if that damages anything the library keeps (a lazily
// initialised global, a cache, pooled state), later calls return something else.

type scribbler struct {
	visited map[visitKey]bool
}

func scribble(vals ...interface{}) {
	s := &scribbler{visited: map[visitKey]bool{}}
	for _, v := range vals {
		if v == nil {
			continue
		}
		s.walk(reflect.ValueOf(v))
	}
}

func flip(p unsafe.Pointer, n uintptr) {
	b := unsafe.Slice((*byte)(p), n)
	for i := range b {
		b[i] = ^b[i]
	}
}

func (s *scribbler) walk(v reflect.Value) {
	t := v.Type()
	if skipType(t) {
		return
	}
	switch t.Kind() {
	case reflect.Ptr:
		if v.IsNil() {
			return
		}
		k := visitKey{v.UnsafePointer(), t}
		if s.visited[k] {
			return
		}
		s.visited[k] = true
		s.walk(v.Elem())
	case reflect.Slice:
		n := v.Len()
		if v.IsNil() || n == 0 {
			return
		}
		et := t.Elem()
		k := visitKey{v.UnsafePointer(), t}
		if s.visited[k] {
			return
		}
		s.visited[k] = true
		if flat(et) {
			flip(v.UnsafePointer(), uintptr(n)*et.Size())
			return
		}
		for i := 0; i < n; i++ {
			s.walk(v.Index(i))
		}
	case reflect.Array:
		if !v.CanAddr() {
			return // a copy: nothing the library could still see
		}
		if flat(t) {
			flip(unsafe.Pointer(v.UnsafeAddr()), t.Size())
			return
		}
		for i := 0; i < v.Len(); i++ {
			s.walk(v.Index(i))
		}
	case reflect.Struct:
		if !v.CanAddr() {
			return
		}
		v = addressable(v)
		if flat(t) {
			flip(unsafe.Pointer(v.UnsafeAddr()), t.Size())
			return
		}
		if t.PkgPath() == "math/big" && t.Name() == "Int" {
			// the caller can rewrite the limbs in place with any arithmetic that uses the value as destination
			if w := v.Addr().Interface().(*big.Int).Bits(); len(w) > 0 {
				flip(unsafe.Pointer(&w[0]), uintptr(len(w))*unsafe.Sizeof(w[0]))
			}
			return
		}
		for i := 0; i < t.NumField(); i++ {
			f := addressable(v.Field(i))
			if skipType(f.Type()) {
				continue
			}
			// only what a caller can reach: it may write through the references held by exported fields;
			// unexported fields can at most be dropped (by assigning a zero value to the whole struct)
			if t.Field(i).IsExported() {
				s.walk(f)
			}
			switch f.Kind() {
			case reflect.Func, reflect.Chan, reflect.UnsafePointer:
			default:
				if !flat(f.Type()) {
					f.Set(reflect.Zero(f.Type())) // drop the references held by the returned value
				}
			}
		}
	case reflect.Map:
		if v.IsNil() {
			return
		}
		it := v.MapRange()
		for it.Next() {
			val := it.Value()
			if val.Kind() == reflect.Ptr || val.Kind() == reflect.Slice || val.Kind() == reflect.Map || val.Kind() == reflect.Interface {
				s.walk(val)
			}
		}
		v.Clear()
	case reflect.Interface:
		if v.IsNil() {
			return
		}
		e := v.Elem()
		if e.Kind() == reflect.Ptr || e.Kind() == reflect.Slice || e.Kind() == reflect.Map {
			s.walk(e)
		}
	}
}
