package c18

// Entry points that take an io.Writer or io.Reader together with a shared object. The serialised object is an
// argument: whatever the stream does — fail at its k-th Write, fail once and recover, write short, block between
// Writes while others use the object — the object must stay bit-identical and behave as before, and users of the
// object that run while the serialising call is in progress must get their solo results. For readers the SOURCE
// buffer is the argument (the receiver is a destination and only has to stay usable).

import (
	"bytes"
	"errors"
	"fmt"
	"io"
)

var errInjected = errors.New("c18: injected stream fault")

// faultWriter fails at its at-th Write (1-based): permanently, once (then recovers) or by a short write.
type faultWriter struct {
	at    int
	mode  string // "perm", "once", "short"
	n     int    // Writes seen
	bytes int    // bytes accepted
}

func (w *faultWriter) Write(p []byte) (int, error) {
	w.n++
	hit := w.n == w.at || (w.mode == "perm" && w.n > w.at)
	if hit {
		switch w.mode {
		case "short":
			h := len(p) / 2
			w.bytes += h
			return h, io.ErrShortWrite
		default:
			return 0, errInjected
		}
	}
	w.bytes += len(p)
	return len(p), nil
}

// faultReader fails at its at-th Read: permanently or once.
type faultReader struct {
	r    io.Reader
	at   int
	mode string
	n    int
}

func (r *faultReader) Read(p []byte) (int, error) {
	r.n++
	if r.n == r.at || (r.mode == "perm" && r.n > r.at) {
		return 0, errInjected
	}
	return r.r.Read(p)
}

// fault positions: every early Write/Read and a few later ones (beyond the last one nothing fails)
var faultAt = []int{1, 2, 3, 4, 5, 6, 7, 8, 11, 17, 33}

// slowWriter hands control to the harness between Writes: the serialising call is provably in progress
// (blocked inside Write) while the harness uses the object.
type slowWriter struct {
	tick chan int
	ack  chan struct{}
	n    int
}

func (w *slowWriter) Write(p []byte) (int, error) {
	w.n++
	w.tick <- w.n
	<-w.ack
	return len(p), nil
}

// addWriter registers the serialising call `write` of the shared objects objs in four variants:
// plain (bytes.Buffer), with stream faults, and with users of the object (probe) running while the call is
// blocked between its Writes. probe must be a read-only use of the same objects with a deterministic result.
func (b *builder) addWriter(name string, write func(w io.Writer) error, probe func() []byte, objs ...arg) {
	snapObjs := func() []digest {
		d := make([]digest, len(objs))
		for i, a := range objs {
			d[i] = snapshotArg(a.obj)
		}
		return d
	}
	check := func(before []digest, what string) {
		for i, a := range objs {
			if snapshotArg(a.obj) != before[i] {
				panic(fmt.Sprintf("PURITY: %s: the serialised object %q is modified after %s", name, a.name, what))
			}
		}
	}
	// positions of the injected faults: the early Writes and, counted from the end, the last ones (a serialiser
	// often writes a long header first and touches the object only for its tail), plus the middle
	cw := &faultWriter{at: 1 << 30, mode: "perm"}
	if err := write(cw); err != nil {
		panic(fmt.Sprintf("%s: %v", name, err))
	}
	total := cw.n
	ats := append([]int(nil), faultAt...)
	for _, a := range []int{total, total - 1, total - 2, total - 3, total - 4, total / 2, total + 1} {
		dup := a < 1
		for _, x := range ats {
			dup = dup || x == a
		}
		if !dup {
			ats = append(ats, a)
		}
	}
	light := b.light
	b.add("write:"+name, func() []byte {
		var w bytes.Buffer
		err := write(&w)
		return new(out).b(w.Bytes()).err(err).b(probe()).Bytes()
	}, objs...)
	b.light = false
	e := b.add("write-fault:"+name, func() []byte {
		var o out
		before := snapObjs()
		for _, mode := range []string{"perm", "once", "short"} {
			for _, at := range ats {
				w := &faultWriter{at: at, mode: mode}
				err := write(w)
				check(before, fmt.Sprintf("a writer that fails (%s) at its Write #%d", mode, at))
				o.s(mode).int(at).bool(err != nil).int(w.bytes)
			}
			// the object behaves as before
			o.b(probe())
		}
		return o.Bytes()
	}, objs...)
	e.classes = []string{"writer:fails_at_k", "writer:fails_once", "writer:short_write"}
	b.light = light
	want := probe()
	heavy := b.heavy
	b.heavy = true // several probes per call: kept out of the 64-goroutine mixes
	defer func() { b.heavy = heavy }()
	e = b.add("write-slow:"+name, func() []byte {
		w := &slowWriter{tick: make(chan int), ack: make(chan struct{})}
		done := make(chan error, 1)
		go func() { done <- write(w) }()
		probes := 0
		for {
			select {
			case n := <-w.tick:
				// the call is blocked inside its Write #n: use the object now (first Writes, then ever sparser)
				if n <= 3 || n&(n-1) == 0 || n > total-4 {
					probes++
					if got := probe(); !bytes.Equal(got, want) {
						w.ack <- struct{}{}
						<-drain(w, done)
						panic(fmt.Sprintf("CONCURRENCY: while %s was in progress (blocked in its Write #%d) a user of the same object obtained %s, alone it obtains %s",
							name, n, short(got), short(want)))
					}
				}
				w.ack <- struct{}{}
			case err := <-done:
				return new(out).err(err).int(w.n).bool(probes > 0).b(probe()).Bytes()
			}
		}
	}, objs...)
	e.classes = []string{"writer:slow_with_concurrent_use"}
}

// drain lets a serialising call run to its end after a failure was observed.
func drain(w *slowWriter, done chan error) chan struct{} {
	fin := make(chan struct{})
	go func() {
		for {
			select {
			case <-w.tick:
				w.ack <- struct{}{}
			case <-done:
				close(fin)
				return
			}
		}
	}()
	return fin
}

// addReader registers the deserialising call `read` over the shared source bytes: plain and with reader faults.
// read returns a serialisation of verdict and value.
func (b *builder) addReader(name string, src []byte, read func(r io.Reader) []byte) {
	cr := &faultReader{r: bytes.NewReader(src), at: 1 << 30, mode: "perm"}
	read(cr)
	ats := append([]int(nil), faultAt...)
	for _, a := range []int{cr.n, cr.n - 1, cr.n - 2, cr.n / 2} {
		dup := a < 1
		for _, x := range ats {
			dup = dup || x == a
		}
		if !dup {
			ats = append(ats, a)
		}
	}
	light := b.light
	b.add("read:"+name, func() []byte { return read(bytes.NewReader(src)) }, sh("src:"+name, src))
	b.light = false
	e := b.add("read-fault:"+name, func() []byte {
		var o out
		for _, mode := range []string{"perm", "once"} {
			for _, at := range ats {
				o.s(mode).int(at).b(read(&faultReader{r: bytes.NewReader(src), at: at, mode: mode}))
			}
		}
		// tiny reads: every Read returns one byte
		o.b(read(oneByteReader{bytes.NewReader(src)}))
		return o.Bytes()
	}, sh("src:"+name, src))
	e.classes = []string{"reader:fails_at_k", "reader:fails_once", "reader:one_byte"}
	b.light = light
}

type oneByteReader struct{ r io.Reader }

func (o oneByteReader) Read(p []byte) (int, error) {
	if len(p) == 0 {
		return 0, nil
	}
	return o.r.Read(p[:1])
}
