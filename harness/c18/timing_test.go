package c18

import (
	"os"
	"testing"
	"time"
)

// TestC18_Timing prints the cost of every entry point (a development aid for sizing the jobs; it
// asserts nothing and is not part of any job: timing is never an oracle).
func TestC18_Timing(t *testing.T) {
	if os.Getenv("VERIF_C18_TIMING") == "" {
		t.Skip("set VERIF_C18_TIMING=1")
	}
	forGroups(t, func(t *testing.T, g *group) {
		t0 := time.Now()
		es := g.get()
		t.Logf("%s: %d entries, build+first calls %v", g.name, len(es), time.Since(t0))
		var tot, totLight time.Duration
		nl := 0
		for _, e := range es {
			t1 := time.Now()
			e.call()
			d := time.Since(t1)
			t2 := time.Now()
			snapArgs(e)
			ds := time.Since(t2)
			tot += d
			if e.light {
				totLight += d
				nl++
			}
			if d > 2*time.Millisecond || ds > time.Millisecond {
				t.Logf("  %-60s call %8v snap %8v light=%v heavy=%v", e.name, d, ds, e.light, e.heavy)
			}
		}
		t.Logf("%s: sum of calls %v; light: %d entries %v", g.name, tot, nl, totLight)
	})
}
