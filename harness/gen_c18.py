#!/usr/bin/env python3
# Generates c18/zz_<inst>_gen_test.go from c18/curve.tmpl, c18/plain.tmpl and c18/small.tmpl (the per-curve and
# per-small-field C18 registries: the packages differ only by import path, so one template is
# instantiated textually). Lines between "//#if <flag>" and "//#endif" are kept only when the flag is set.
import os, re, subprocess
here = os.path.dirname(os.path.abspath(__file__))


def cond(text, flags):
    out, keep = [], [True]
    for line in text.split("\n"):
        m = re.match(r"\s*//#if (\w+)", line)
        if m:
            keep.append(keep[-1] and m.group(1) in flags)
            continue
        if re.match(r"\s*//#endif", line):
            keep.pop()
            continue
        if keep[-1]:
            out.append(line)
    return "\n".join(out)


outs = []
tmpl = open(os.path.join(here, "c18", "curve.tmpl")).read()
# (path, identifier, full registry?, MiMC id, Poseidon2 id)
CURVES = [
    ("bn254", "Bn254", True, "MIMC_BN254", "POSEIDON2_BN254", "BN254"),
    ("bls12-381", "Bls12381", True, "MIMC_BLS12_381", "POSEIDON2_BLS12_381", "BLS12_381"),
    ("bw6-761", "Bw6761", False, "MIMC_BW6_761", "POSEIDON2_BW6_761", "BW6_761"),
    ("bls24-315", "Bls24315", False, "MIMC_BLS24_315", "POSEIDON2_BLS24_315", "BLS24_315"),
    ("bls12-377", "Bls12377", False, "MIMC_BLS12_377", "POSEIDON2_BLS12_377", "BLS12_377"),
    ("bls24-317", "Bls24317", False, "MIMC_BLS24_317", "POSEIDON2_BLS24_317", "BLS24_317"),
    ("bw6-633", "Bw6633", False, "MIMC_BW6_633", "POSEIDON2_BW6_633", "BW6_633"),
]
for path, ident, full, mimc, pos2, eccid in CURVES:
    s = (tmpl.replace("@@PATH@@", path).replace("@@ID@@", ident).replace("@@FULL@@", "true" if full else "false")
         .replace("@@MIMC@@", mimc).replace("@@POS2@@", pos2).replace("@@ECCID@@", eccid))
    out = os.path.join(here, "c18", "zz_%s_gen_test.go" % path.replace("-", ""))
    open(out, "w").write(s)
    outs.append(out)

tmpl = open(os.path.join(here, "c18", "small.tmpl")).read()
# (path, identifier, Poseidon2 id, widths, flags)
SMALL = [
    ("koalabear", "Koalabear", "POSEIDON2_KOALABEAR", (16, 24), {"vortex", "e4", "p16x24"}),
    ("babybear", "Babybear", "POSEIDON2_BABYBEAR", (16, 24), {"e4"}),
    ("goldilocks", "Goldilocks", "POSEIDON2_GOLDILOCKS", (8, 12), set()),
]
for path, ident, pos2, (w1, w2), flags in SMALL:
    s = cond(tmpl, flags)
    s = (s.replace("@@PATH@@", path).replace("@@ID@@", ident).replace("@@POS2@@", pos2)
         .replace("@@W1@@", str(w1)).replace("@@W2@@", str(w2)))
    out = os.path.join(here, "c18", "zz_%s_gen_test.go" % path)
    open(out, "w").write(s)
    outs.append(out)
tmpl = open(os.path.join(here, "c18", "plain.tmpl")).read()
# curves without pairing: (path, identifier, ecc id, MiMC id, Poseidon2 id, flags)
PLAIN = [
    ("grumpkin", "Grumpkin", "GRUMPKIN", "MIMC_GRUMPKIN", "POSEIDON2_GRUMPKIN", {"codec", "codecfull", "msm", "affdouble", "frhash", "jointaff"}),
    ("secp256k1", "Secp256k1", "SECP256K1", "", "", {"msm", "affdouble", "recover", "jointaff"}),
    ("stark-curve", "Starkcurve", "STARK_CURVE", "", "", {"codec", "recover", "pedersen", "jointjac"}),
]
for path, ident, eccid, mimc, pos2, flags in PLAIN:
    s = cond(tmpl, flags)
    s = (s.replace("@@PATH@@", path).replace("@@ID@@", ident).replace("@@ECCID@@", eccid)
         .replace("@@MIMC@@", mimc).replace("@@POS2@@", pos2))
    out = os.path.join(here, "c18", "zz_%s_gen_test.go" % path.replace("-", ""))
    open(out, "w").write(s)
    outs.append(out)
subprocess.run(["gofmt", "-w"] + outs, check=False)
