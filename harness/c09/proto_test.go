// Package c09: results do not depend on the CPU-specific code path.
//
// The property runs in the default (assembly, ADX, AVX-512) process. For every generated call it
// sends (op id, serialised operands) to long-lived worker processes — the same op table built with
// -tags purego, and run under GODEBUG=cpu.adx=off / cpu.avx512=off — and compares byte-exact
// outputs and panic-or-not. Workers are pure functions of their input, so rapid shrinking works
// across processes and the replay file is an ordinary rapid fail file.
package c09

import (
	"bufio"
	"bytes"
	"encoding/json"
	"fmt"
	"io"
	"os"
	"os/exec"
	"sort"
	"strings"
	"sync"
	"testing"
	"unsafe"

	"pgregory.net/rapid"

	"verif/harness/internal/guard"
	"verif/harness/internal/rep"
)

type req struct {
	Op   string   `json:"op"`
	Args [][]byte `json:"args"`
}

type resp struct {
	Out   [][]byte `json:"out"`
	Panic string   `json:"panic,omitempty"`
}

// op is one entry of the op table.
type op struct {
	name string
	gen  func(t *rapid.T) (args [][]byte, classes []string, nontrivial bool)
	run  func(args [][]byte) [][]byte
	// cold: fixed requests run once, before any generated case, as the FIRST uses of the op in every process
	// (lazily initialised tables differ between code paths only on a first use); phase 0 requests of all ops run
	// before phase 1 requests
	cold [2][][][]byte
}

var (
	ops     = map[string]*op{}
	opNames []string
)

func register(o *op) {
	if _, dup := ops[o.name]; dup {
		panic("duplicate op " + o.name)
	}
	ops[o.name] = o
	opNames = append(opNames, o.name)
}

// Operands of the SIMD kernels are placed flush against an inaccessible page (see internal/guard): a kernel that
// reads or writes past the end of a slice faults, the fault becomes a panic of this variant only, and the
// comparison reports it. The regions of one request are released when it is done.
var guardFrees []func()

func guardSlice[T any](n int) []T {
	var z T
	mem, free := guard.Alloc(n*int(unsafe.Sizeof(z)), guard.AtEnd)
	guardFrees = append(guardFrees, free)
	return unsafe.Slice((*T)(unsafe.Pointer(unsafe.SliceData(mem))), n)
}

func exec1(r req) (out resp) {
	defer func() {
		for _, f := range guardFrees {
			f()
		}
		guardFrees = guardFrees[:0]
	}()
	defer guard.PanicOnFault()()
	defer func() {
		if p := recover(); p != nil {
			out = resp{Panic: fmt.Sprint(p)}
			if out.Panic == "" {
				out.Panic = "panic"
			}
		}
	}()
	o := ops[r.Op]
	if o == nil {
		return resp{Panic: "unknown op " + r.Op}
	}
	return resp{Out: o.run(r.Args)}
}

// workerLoop serves requests on stdin/stdout (JSON lines).
func workerLoop() {
	in := bufio.NewReaderSize(os.Stdin, 1<<20)
	out := bufio.NewWriter(os.Stdout)
	dec := json.NewDecoder(in)
	enc := json.NewEncoder(out)
	for {
		var r req
		if err := dec.Decode(&r); err != nil {
			return
		}
		enc.Encode(exec1(r))
		out.Flush()
	}
}

type worker struct {
	name string
	cmd  *exec.Cmd
	in   io.WriteCloser
	enc  *json.Encoder
	dec  *json.Decoder
	mu   sync.Mutex
}

var workers []*worker

type workerSpec struct {
	Name string            `json:"name"`
	Bin  string            `json:"bin"`
	Env  map[string]string `json:"env"`
}

func startWorkers() error {
	js := os.Getenv("VERIF_WORKERS")
	if js == "" {
		return nil
	}
	var specs []workerSpec
	if err := json.Unmarshal([]byte(js), &specs); err != nil {
		return err
	}
	for _, s := range specs {
		cmd := exec.Command(s.Bin, "-test.run=^$")
		cmd.Env = append(os.Environ(), "VERIF_WORKER=1", "VERIF_REPORT=")
		for k, v := range s.Env {
			cmd.Env = append(cmd.Env, k+"="+v)
		}
		in, err := cmd.StdinPipe()
		if err != nil {
			return err
		}
		outp, err := cmd.StdoutPipe()
		if err != nil {
			return err
		}
		cmd.Stderr = io.Discard
		if err := cmd.Start(); err != nil {
			return fmt.Errorf("worker %s: %v", s.Name, err)
		}
		workers = append(workers, &worker{name: s.Name, cmd: cmd, in: in, enc: json.NewEncoder(in), dec: json.NewDecoder(bufio.NewReaderSize(outp, 1<<20))})
	}
	return nil
}

func (w *worker) call(r req) (resp, error) {
	w.mu.Lock()
	defer w.mu.Unlock()
	if err := w.enc.Encode(r); err != nil {
		return resp{}, err
	}
	var out resp
	if err := w.dec.Decode(&out); err != nil {
		return resp{}, err
	}
	return out, nil
}

func TestMain(m *testing.M) {
	if os.Getenv("VERIF_WORKER") == "1" {
		workerLoop()
		os.Exit(0)
	}
	if err := startWorkers(); err != nil {
		fmt.Println("c09: cannot start workers:", err)
		os.Exit(3)
	}
	sort.Strings(opNames)
	code := m.Run()
	for _, w := range workers {
		w.in.Close()
		w.cmd.Wait()
	}
	rep.Flush()
	os.Exit(code)
}

func sameResp(a, b resp) bool {
	if (a.Panic != "") != (b.Panic != "") {
		return false
	}
	if len(a.Out) != len(b.Out) {
		return false
	}
	for i := range a.Out {
		if !bytes.Equal(a.Out[i], b.Out[i]) {
			return false
		}
	}
	return true
}

func describe(r resp) string {
	if r.Panic != "" {
		return "panic: " + r.Panic
	}
	var sb strings.Builder
	for i, o := range r.Out {
		if i > 0 {
			sb.WriteString(" | ")
		}
		if len(o) > 48 {
			fmt.Fprintf(&sb, "%x…(%d bytes)", o[:48], len(o))
		} else {
			fmt.Fprintf(&sb, "%x", o)
		}
	}
	return sb.String()
}

// firstDiff names the first output slot that differs.
func firstDiff(a, b resp) string {
	for i := range a.Out {
		if i >= len(b.Out) {
			break
		}
		if !bytes.Equal(a.Out[i], b.Out[i]) {
			j := 0
			for j < len(a.Out[i]) && j < len(b.Out[i]) && a.Out[i][j] == b.Out[i][j] {
				j++
			}
			return fmt.Sprintf("output slot %d differs at byte %d", i, j)
		}
	}
	return "shape/panic differs"
}

// differential is the C09 property body for ops whose name has the given prefix.
func differential(t *rapid.T, names []string, test string) {
	name := rapid.SampledFrom(names).Draw(t, "op")
	o := ops[name]
	args, classes, nt := o.gen(t)
	r := req{Op: name, Args: args}
	local := exec1(r)
	for _, w := range workers {
		got, err := w.call(r)
		if err != nil {
			t.Fatalf("worker %s died on op %s: %v", w.name, name, err)
		}
		if !sameResp(local, got) {
			t.Fatalf("C09: op %s differs between default(asm) and %s: %s\n  asm:    %s\n  %s: %s\n  args: %s",
				name, w.name, firstDiff(local, got), describe(local), w.name, describe(got), describe(resp{Out: args}))
		}
	}
	key := name + " " + describe(resp{Out: args})
	cl := append([]string{strings.SplitN(name, "/", 2)[0]}, classes...)
	if local.Panic != "" {
		cl = append(cl, "panics_in_all_variants")
	}
	rep.Case(test, key, nt, cl...)
}

// coldPrologue runs the fixed first-use requests of the selected ops in this process and in every worker and
// compares them like generated cases. Odd PRNG shards swap the two phases, so both orders of first use are seen.
func coldPrologue(t *testing.T, names []string, test string) {
	phases := []int{0, 1}
	if strings.HasPrefix(os.Getenv("VERIF_SHARD"), "1/") || strings.HasPrefix(os.Getenv("VERIF_SHARD"), "3/") {
		phases = []int{1, 0}
	}
	sorted := append([]string(nil), names...)
	sort.Strings(sorted)
	for _, ph := range phases {
		for _, name := range sorted {
			for i, args := range ops[name].cold[ph] {
				r := req{Op: name, Args: args}
				local := exec1(r)
				for _, w := range workers {
					got, err := w.call(r)
					if err != nil {
						t.Fatalf("worker %s died on cold request %d of op %s: %v", w.name, i, name, err)
					}
					if !sameResp(local, got) {
						t.Fatalf("C09: FIRST USE of op %s (cold request %d, phase %d) differs between default(asm) and %s: %s\n  asm:    %s\n  %s: %s\n  args: %s",
							name, i, ph, w.name, firstDiff(local, got), describe(local), w.name, describe(got), describe(resp{Out: args}))
					}
				}
				rep.Case(test, fmt.Sprintf("cold %s phase=%d #%d", name, ph, i), true, "cold_first_use", fmt.Sprintf("cold_phase_order:%v", phases))
			}
		}
	}
}

func namesWithPrefix(p string) []string {
	var out []string
	for _, n := range opNames {
		if strings.HasPrefix(n, p) && selected(n) {
			out = append(out, n)
		}
	}
	return out
}
