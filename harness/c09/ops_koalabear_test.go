package c09

import (
	"crypto/sha256"
	"encoding/binary"

	"pgregory.net/rapid"

	fr "github.com/consensys/gnark-crypto/field/koalabear"
	ext "github.com/consensys/gnark-crypto/field/koalabear/extensions"
	"github.com/consensys/gnark-crypto/field/koalabear/fft"
	"github.com/consensys/gnark-crypto/field/koalabear/poseidon2"
	"github.com/consensys/gnark-crypto/field/koalabear/sis"
)

// Kernels of the koalabear field that have AVX-512 bodies: E4 multiply-accumulate, FFT kernels,
// Poseidon2 permutations (16, 24, 16x24 batched), ring-SIS hashing (incl. the fast 512/16 instance).

func koalabearElems(b []byte) []fr.Element {
	out := guardSlice[fr.Element](len(b) / 4)
	for i := range out {
		out[i].SetUint64(uint64(binary.LittleEndian.Uint32(b[4*i:])))
	}
	return out
}

func koalabearDump(v []fr.Element) []byte {
	b := make([]byte, 4*len(v))
	for i := range v {
		binary.LittleEndian.PutUint32(b[4*i:], v[i][0])
	}
	return b
}

// smallVals draws n 32-bit values with boundary weight (0, 1, q-1, q, 2^31-1, 2^32-1 reduced by SetUint64).
func koalabearVals(t *rapid.T, n int, label string) []byte {
	q := uint32(fr.Modulus().Uint64())
	pool := []uint32{0, 1, 2, q - 1, q - 2, (q - 1) / 2, (q + 1) / 2, 1 << 30, 1<<31 - 1, q, ^uint32(0)}
	k := rapid.IntRange(1, 6).Draw(t, label+"k")
	vals := make([]uint32, k)
	for i := range vals {
		if rapid.Bool().Draw(t, label+"b") {
			vals[i] = rapid.SampledFrom(pool).Draw(t, label+"p")
		} else {
			vals[i] = rapid.Uint32().Draw(t, label+"u")
		}
	}
	idx := rapid.SliceOfN(rapid.IntRange(0, k-1), n, n).Draw(t, label+"i")
	b := make([]byte, 4*n)
	for i := 0; i < n; i++ {
		binary.LittleEndian.PutUint32(b[4*i:], vals[idx[i]])
	}
	return b
}

func init() {
	register(&op{
		name: "K/koalabear/MulAccE4",
		gen: func(t *rapid.T) ([][]byte, []string, bool) {
			n := rapid.OneOf(rapid.IntRange(0, 40), rapid.SampledFrom([]int{0, 4, 8, 16, 64, 128, 252, 256, 260})).Draw(t, "n")
			return [][]byte{koalabearVals(t, 4, "alpha"), koalabearVals(t, n, "scale"), koalabearVals(t, 4*n, "res")},
				[]string{lenClassK(n, 4)}, n == 0 || n%4 != 0 || n >= 16
		},
		run: func(a [][]byte) [][]byte {
			al := koalabearElems(a[0])
			alpha := ext.E4{B0: ext.E2{A0: al[0], A1: al[1]}, B1: ext.E2{A0: al[2], A1: al[3]}}
			scale := koalabearElems(a[1])
			rv := koalabearElems(a[2])
			res := guardSlice[ext.E4](len(scale))
			for i := range res {
				res[i] = ext.E4{B0: ext.E2{A0: rv[4*i], A1: rv[4*i+1]}, B1: ext.E2{A0: rv[4*i+2], A1: rv[4*i+3]}}
			}
			ext.MulAccE4(&alpha, scale, res)
			var out []fr.Element
			for i := range res {
				out = append(out, res[i].B0.A0, res[i].B0.A1, res[i].B1.A0, res[i].B1.A1)
			}
			return [][]byte{koalabearDump(out)}
		},
	})
	register(&op{
		name: "K/koalabear/E4ops",
		gen: func(t *rapid.T) ([][]byte, []string, bool) {
			return [][]byte{koalabearVals(t, 4, "x"), koalabearVals(t, 4, "y")}, nil, true
		},
		run: func(a [][]byte) [][]byte {
			mk := func(b []byte) ext.E4 {
				v := koalabearElems(b)
				return ext.E4{B0: ext.E2{A0: v[0], A1: v[1]}, B1: ext.E2{A0: v[2], A1: v[3]}}
			}
			x, y := mk(a[0]), mk(a[1])
			var out []fr.Element
			add := func(z *ext.E4) { out = append(out, z.B0.A0, z.B0.A1, z.B1.A0, z.B1.A1) }
			var z ext.E4
			add(z.Mul(&x, &y))
			add(z.Square(&x))
			add(z.Add(&x, &y))
			add(z.Sub(&x, &y))
			add(z.Inverse(&x))
			add(z.Div(&x, &y))
			add(z.MulByElement(&x, &y.B0.A0))
			var w ext.E2
			w.Mul(&x.B0, &y.B1)
			out = append(out, w.A0, w.A1)
			w.Square(&x.B1)
			out = append(out, w.A0, w.A1)
			w.Inverse(&x.B0)
			out = append(out, w.A0, w.A1)
			return [][]byte{koalabearDump(out)}
		},
	})
	register(&op{
		name: "K/koalabear/FFT",
		gen: func(t *rapid.T) ([][]byte, []string, bool) {
			lg := rapid.IntRange(0, 11).Draw(t, "logn")
			n := 1 << lg
			dec := rapid.IntRange(0, 1).Draw(t, "dec")
			coset := rapid.IntRange(0, 1).Draw(t, "coset")
			inv := rapid.IntRange(0, 1).Draw(t, "inv")
			nopre := rapid.IntRange(0, 1).Draw(t, "noprecompute")
			tasks := rapid.SampledFrom([]int{1, 2, 3, 5, 8, 16, 17, 64}).Draw(t, "tasks")
			return [][]byte{{byte(lg), byte(dec), byte(coset), byte(inv), byte(nopre), byte(tasks)}, koalabearVals(t, n, "v")},
				[]string{"fft_logn>=5:" + b2s(lg >= 5), "fft_logn>=8:" + b2s(lg >= 8)}, n >= 32
		},
		run: func(a [][]byte) [][]byte {
			p := a[0]
			var dopts []fft.DomainOption
			if p[4] == 1 {
				dopts = append(dopts, fft.WithoutPrecompute())
			}
			d := fft.NewDomain(1<<p[0], dopts...)
			v := koalabearElems(a[1])
			opts := []fft.Option{fft.WithNbTasks(int(p[5]))}
			if p[2] == 1 {
				opts = append(opts, fft.OnCoset())
			}
			dec := fft.DIF
			if p[1] == 1 {
				dec = fft.DIT
			}
			if p[3] == 1 {
				d.FFTInverse(v, dec, opts...)
			} else {
				d.FFT(v, dec, opts...)
			}
			return [][]byte{koalabearDump(v)}
		},
	})
	for _, w := range []int{16, 24} {
		w := w
		register(&op{
			name: "K/koalabear/Poseidon2_" + itoa(w),
			// first uses: every fast-path parameter set of either small field, seeded (phase 0) and default (phase 1)
			cold: func() (c [2][][][]byte) {
				in := make([]byte, 4*w)
				for i := range in {
					in[i] = byte(7*i + 1)
				}
				for _, p := range [][2]byte{{6, 21}, {8, 13}, {8, 21}} {
					c[0] = append(c[0], [][]byte{{p[0], p[1], 1}, in})
					c[1] = append(c[1], [][]byte{{p[0], p[1], 0}, in})
				}
				return
			}(),
			gen: func(t *rapid.T) ([][]byte, []string, bool) {
				// parameter sets around the AVX-512 fast-path gate (width, 6 full, 21 partial rounds), seeded or not
				rf := rapid.SampledFrom([]int{6, 6, 6, 8}).Draw(t, "rf")
				rp := rapid.SampledFrom([]int{21, 21, 22, 23, 40, 13}).Draw(t, "rp")
				seeded := rapid.IntRange(0, 1).Draw(t, "seeded")
				fast := rf == 6 && rp == 21
				// buffer length: the width, or a length the permutation must refuse on every code path
				n := w
				if rapid.IntRange(0, 9).Draw(t, "badlen") < 3 {
					n = rapid.SampledFrom([]int{0, 1, w - 1, w + 1, 2 * w}).Draw(t, "n")
				}
				return [][]byte{{byte(rf), byte(rp), byte(seeded)}, koalabearVals(t, n, "s")},
					[]string{"p2_fast_params:" + b2s(fast), "p2_seeded:" + b2s(seeded == 1), "p2_buffer_len_is_width:" + b2s(n == w)}, true
			},
			run: func(a [][]byte) [][]byte {
				rf, rp := int(a[0][0]), int(a[0][1])
				var h *poseidon2.Permutation
				if a[0][2] == 1 {
					h = poseidon2.NewPermutationWithSeed(w, rf, rp, "verif-c09")
				} else {
					h = poseidon2.NewPermutation(w, rf, rp)
				}
				// the buffer sits inside a larger array: what lies behind it must not be touched
				in := koalabearElems(a[1])
				back := make([]fr.Element, len(in)+32)
				copy(back, in)
				for i := len(in); i < len(back); i++ {
					back[i].SetUint64(uint64(i)*2654435761 + 7)
				}
				v := back[:len(in):len(in)]
				if err := h.Permutation(v); err != nil {
					return [][]byte{[]byte(err.Error()), koalabearDump(back)}
				}
				out := [][]byte{koalabearDump(back)}
				if len(v) != w {
					return out
				}
				if w == 24 {
					var m [24][16]fr.Element
					for i := 0; i < 24; i++ {
						for j := 0; j < 16; j++ {
							m[i][j] = koalabearElems(a[1])[i]
							m[i][j].Add(&m[i][j], &v[(i+j)%24])
						}
					}
					h.Permutation16x24(&m)
					var o []fr.Element
					for i := 0; i < 24; i++ {
						o = append(o, m[i][:]...)
					}
					out = append(out, koalabearDump(o))
				}
				return out
			},
		})
	}
	register(&op{
		name: "K/koalabear/Poseidon2_16x24",
		gen: func(t *rapid.T) ([][]byte, []string, bool) {
			return [][]byte{koalabearVals(t, 24*16, "m")}, nil, true
		},
		run: func(a [][]byte) [][]byte {
			h := poseidon2.NewPermutation(24, 6, 21)
			v := koalabearElems(a[0])
			var m [24][16]fr.Element
			for i := 0; i < 24; i++ {
				copy(m[i][:], v[16*i:16*i+16])
			}
			h.Permutation16x24(&m)
			var out []fr.Element
			for i := 0; i < 24; i++ {
				out = append(out, m[i][:]...)
			}
			return [][]byte{koalabearDump(out)}
		},
	})
	register(&op{
		name: "K/koalabear/SIS",
		gen: func(t *rapid.T) ([][]byte, []string, bool) {
			cfg := rapid.SampledFrom([][2]int{{9, 16}, {9, 16}, {9, 16}, {9, 8}, {6, 16}, {6, 8}, {2, 16}, {3, 8}, {5, 16}}).Draw(t, "cfg") // the 512/16 instance has its own kernels: weight 3
			maxN := rapid.SampledFrom([]int{1, 7, 64, 256, 300, 512, 1024}).Draw(t, "max")
			n := rapid.OneOf(rapid.IntRange(0, maxN), rapid.Just(maxN), rapid.Just(maxN+1)).Draw(t, "n")
			// the output slice is caller-owned: fresh (zero) or holding earlier contents (e.g. a previous hash)
			dirty := rapid.IntRange(0, 2).Draw(t, "dirty_res")
			spare := rapid.IntRange(0, 1).Draw(t, "input_spare_capacity")
			// the instance is long-lived in real use: an earlier Hash of another (often longer) message on the SAME
			// instance must not influence this one (scratch buffers kept on the instance, lazily built tables)
			prev := rapid.IntRange(0, 2).Draw(t, "prev_hash")
			prevN := 0
			if prev != 0 {
				prevN = rapid.OneOf(rapid.IntRange(0, maxN), rapid.IntRange(n, maxN+1)).Draw(t, "prev_n")
				if n%256 != 0 && n%256 != 255 && rapid.Bool().Draw(t, "prev_longer_tail") {
					// constructed: the earlier message ends in a longer partial block of 256 than this one
					prevN = 256*rapid.IntRange(0, maxN/256).Draw(t, "prev_blk") + rapid.IntRange(n%256+1, 255).Draw(t, "prev_tail")
					for prevN > maxN && prevN >= 256 {
						prevN -= 256
					}
				}
				if prevN > maxN {
					prevN = maxN
				}
			}
			return [][]byte{{byte(cfg[0]), byte(cfg[1]), byte(dirty), byte(spare), byte(prev)}, u32(maxN), koalabearVals(t, n, "v"), u32(prevN)},
				[]string{"sis_fast512_16:" + b2s(cfg[0] == 9 && cfg[1] == 16), "sis_dirty_res:" + itoa(dirty), "sis_input_dirty_spare_capacity:" + itoa(spare),
					"sis_prev_hash_same_instance:" + itoa(prev), "sis_prev_longer_partial_block:" + b2s(prev != 0 && prevN%256 > n%256 && n%256 != 0)}, true
		},
		run: func(a [][]byte) [][]byte {
			r, err := sis.NewRSis(5, int(a[0][0]), int(a[0][1]), gu32(a[1]))
			if err != nil {
				return [][]byte{[]byte("new: " + err.Error())}
			}
			v := koalabearElems(a[2])
			if len(a[0]) > 3 && a[0][3] == 1 { // the input is a prefix of a larger buffer whose tail holds other data
				w := make([]fr.Element, len(v)+300)
				copy(w, v)
				for i := len(v); i < len(w); i++ {
					w[i].SetUint64(uint64(i)*40503 + 11)
				}
				v = w[:len(v)]
			}
			if len(a[0]) > 4 && a[0][4] != 0 && len(a) > 3 { // an earlier hash of another message on the same instance
				pv := make([]fr.Element, gu32(a[3]))
				for i := range pv {
					if a[0][4] == 1 {
						pv[i].SetUint64(uint64(i)*2246822519 + 3)
					} else {
						pv[i].SetUint64(uint64(i%65535) + 1) // within the norm bound of every configuration
					}
				}
				_ = r.Hash(pv, make([]fr.Element, r.Degree))
			}
			res := guardSlice[fr.Element](r.Degree)
			// the key material is exported (A, Ag): what the constructor leaves there, and what is there after
			// hashing, is part of the result
			keyDigest := func() []byte {
				h := sha256.New()
				for _, m := range [][][]fr.Element{r.A, r.Ag} {
					h.Write(u32(len(m)))
					for _, p := range m {
						h.Write(u32(len(p)))
						h.Write(koalabearDump(p))
					}
				}
				return h.Sum(nil)
			}
			key0 := keyDigest()
			switch a[0][2] {
			case 1: // reuse the buffer of a previous hash
				if err := r.Hash(v, res); err != nil {
					return [][]byte{[]byte("hash: " + err.Error())}
				}
			case 2: // arbitrary non-zero contents
				for i := range res {
					res[i].SetUint64(uint64(i)*2654435761 + 1)
				}
			}
			if err := r.Hash(v, res); err != nil {
				return [][]byte{[]byte("hash: " + err.Error())}
			}
			return [][]byte{koalabearDump(res), key0, keyDigest()}
		},
	})
}
