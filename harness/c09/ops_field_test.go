package c09

import (
	"encoding/binary"
	"fmt"
	"math/big"
	"os"
	"reflect"
	"regexp"
	"sort"
	"strings"
	"testing"

	"pgregory.net/rapid"

	"verif/harness/internal/gen"
	"verif/harness/internal/inst"
	"verif/harness/internal/reg"
)

func selected(name string) bool {
	p := os.Getenv("VERIF_INST")
	if p == "" {
		return true
	}
	ok, _ := regexp.MatchString(p, name)
	return ok
}

func spec(f inst.Field) gen.FieldSpec {
	return gen.FieldSpec{Q: f.Q(), NLimbs: f.NLimbs(), LimbBits: f.LimbBits()}
}

func rawBytes(e inst.E) []byte {
	l := e.Raw()
	b := make([]byte, 8*len(l))
	for i, x := range l {
		binary.LittleEndian.PutUint64(b[8*i:], x)
	}
	return b
}

func fromBytes(f inst.Field, b []byte) inst.E { return f.New().SetBig(new(big.Int).SetBytes(b)) }

func u32(n int) []byte { b := make([]byte, 4); binary.BigEndian.PutUint32(b, uint32(n)); return b }
func gu32(b []byte) int { return int(binary.BigEndian.Uint32(b)) }

func init() {
	for _, f := range inst.Fields() {
		f := f
		s := spec(f)
		// ---- element ops: one call evaluates every arithmetic entry point on (x, y, k, n)
		register(&op{
			name: "F/" + f.Name(),
			gen: func(t *rapid.T) ([][]byte, []string, bool) {
				xv, xc := s.Elem(t, "x")
				yv, yc := s.Related(t, xv, "y")
				k, kc := gen.Int(t, f.Q(), 2*f.Q().BitLen(), "k")
				n := rapid.IntRange(0, 32).Draw(t, "n")
				sign := []byte{0}
				if k.Sign() < 0 {
					sign[0] = 1
				}
				return [][]byte{xv.Bytes(), yv.Bytes(), new(big.Int).Abs(k).Bytes(), sign, u32(n)},
					[]string{"x:" + xc, "y:" + yc, "k:" + kc}, s.OnBoundary(xv) || s.OnBoundary(yv)
			},
			run: func(a [][]byte) [][]byte {
				x, y := fromBytes(f, a[0]), fromBytes(f, a[1])
				k := new(big.Int).SetBytes(a[2])
				if a[3][0] == 1 {
					k.Neg(k)
				}
				n := uint32(gu32(a[4]))
				var out [][]byte
				add := func(e inst.E) { out = append(out, rawBytes(e)) }
				z := f.New()
				add(z.Add(x, y))
				add(z.Sub(x, y))
				add(z.Mul(x, y))
				add(z.Div(x, y))
				add(z.Square(x))
				add(z.Neg(x))
				add(z.Double(x))
				add(z.Inverse(x))
				z.Set(x)
				z.Halve()
				add(z)
				z.Set(x)
				z.MulBy3()
				add(z)
				z.Set(x)
				z.MulBy5()
				add(z)
				z.Set(x)
				z.MulBy13()
				add(z)
				z.SetZero()
				ok := z.Sqrt(x)
				add(z)
				out = append(out, []byte{b2b(ok), byte(x.Legendre() + 1), byte(x.Cmp(y) + 1), b2b(x.LexicographicallyLargest()), b2b(x.Equal(y)), b2b(x.IsZero()), b2b(x.IsOne())})
				add(z.Exp(x, k))
				a1, b1 := x.Clone(), y.Clone()
				f.Butterfly(a1, b1)
				add(a1)
				add(b1)
				add(z.Select(int(n), x, y))
				if f.HasMul2ExpNegN() {
					z.Mul2ExpNegN(x, n)
					add(z)
				}
				out = append(out, x.Big().Bytes(), []byte(x.Text(10)), x.Marshal(), []byte{b2b(x.IsUint64()), b2b(x.FitsOnOneWord()), byte(x.BitLen())})
				add(z.SetBytes(append(a[0], a[1]...)))
				return out
			},
		})
		// ---- vector ops at every length/alignment
		register(&op{
			name: "V/" + f.Name(),
			gen: func(t *rapid.T) ([][]byte, []string, bool) {
				n := vecLen(t)
				oa := rapid.IntRange(0, 15).Draw(t, "offA")
				ob := rapid.IntRange(0, 15).Draw(t, "offB")
				k := rapid.IntRange(1, 5).Draw(t, "pool")
				pool := make([][]byte, k)
				for i := range pool {
					v, _ := s.Elem(t, "p")
					pool[i] = v.Bytes()
				}
				ia := rapid.SliceOfN(rapid.IntRange(0, k-1), n, n).Draw(t, "ia")
				ib := rapid.SliceOfN(rapid.IntRange(0, k-1), n, n).Draw(t, "ib")
				// length mismatches (documented panic): the receiver and/or the second operand longer than the first
				// operand, by a whole number of 16-lane blocks or by one — panic-or-not must agree across variants
				dr := rapid.SampledFrom([]int{0, 0, 0, 0, 0, 0, 16, 1, 32}).Draw(t, "dlenR")
				db := rapid.SampledFrom([]int{0, 0, 0, 0, 0, 0, 0, 16, 1}).Draw(t, "dlenB")
				args := [][]byte{u32(n), u32(oa), u32(ob), u32(k), u32(dr), u32(db)}
				args = append(args, pool...)
				idx := make([]byte, 2*n)
				for i := 0; i < n; i++ {
					idx[i], idx[n+i] = byte(ia[i]), byte(ib[i])
				}
				args = append(args, idx)
				cl := []string{lenClass(n)}
				if dr != 0 || db != 0 {
					cl = append(cl, "length_mismatch")
				}
				return args, cl, n == 0 || n%16 != 0 || n >= 112 || dr != 0 || db != 0
			},
			run: func(a [][]byte) [][]byte {
				n, oa, ob, k := gu32(a[0]), gu32(a[1]), gu32(a[2]), gu32(a[3])
				dr, db := gu32(a[4]), gu32(a[5])
				pool := a[6 : 6+k]
				idx := a[6+k]
				nb := n + db
				A := f.NewVec(n + oa).Slice(oa, oa+n)
				B := f.NewVec(nb + ob).Slice(ob, ob+nb)
				for i := 0; i < n; i++ {
					A.At(i).SetBig(new(big.Int).SetBytes(pool[idx[i]]))
					B.At(i).SetBig(new(big.Int).SetBytes(pool[idx[n+i]]))
				}
				for i := n; i < nb; i++ {
					B.At(i).SetUint64(uint64(i) + 3)
				}
				dump := func(v inst.Vec) []byte {
					var b []byte
					for i := 0; i < v.Len(); i++ {
						b = append(b, rawBytes(v.At(i))...)
					}
					return b
				}
				// every sub-operation runs under its own recover: a (documented) panic of one of them is an
				// observation to be compared across variants, not the end of the case
				try := func(fn func() []byte) []byte {
					var o []byte
					func() {
						defer func() {
							if p := recover(); p != nil {
								o = []byte("PANIC")
							}
						}()
						o = fn()
					}()
					return o
				}
				var out [][]byte
				nr := n + dr
				r := f.NewVec(nr + 3).Slice(3, 3+nr)
				out = append(out, try(func() []byte { r.Add(A, B); return dump(r) }))
				out = append(out, try(func() []byte { r.Sub(A, B); return dump(r) }))
				out = append(out, try(func() []byte { r.Mul(A, B); return dump(r) }))
				c := f.New()
				if n > 0 {
					c.Set(B.At(0))
				} else {
					c.SetUint64(7)
				}
				out = append(out, try(func() []byte { r.ScalarMul(A, c); return dump(r) }))
				out = append(out, try(func() []byte { return rawBytes(A.Sum()) }))
				out = append(out, try(func() []byte { return rawBytes(A.InnerProduct(B)) }))
				out = append(out, try(func() []byte { return dump(A.BatchInvert()) }))
				return out
			},
		})
	}
	registerTowers()
}

func b2b(b bool) byte {
	if b {
		return 1
	}
	return 0
}

func vecLen(t *rapid.T) int {
	switch rapid.IntRange(0, 5).Draw(t, "lenclass") {
	case 0:
		return rapid.IntRange(0, 3).Draw(t, "n")
	case 1:
		return rapid.IntRange(0, 4*16+15).Draw(t, "n")
	case 2:
		return 112 + rapid.IntRange(-17, 40).Draw(t, "n")
	case 3:
		return 16*rapid.IntRange(1, 20).Draw(t, "n") + rapid.SampledFrom([]int{0, 0, 1, 15}).Draw(t, "tail")
	case 4:
		return rapid.SampledFrom([]int{255, 256, 257, 511, 512, 513}).Draw(t, "n")
	default:
		return rapid.IntRange(0, 600).Draw(t, "n")
	}
}

func lenClass(n int) string {
	switch {
	case n == 0:
		return "n=0"
	case n < 16:
		return "n<16"
	case n%16 == 0:
		return "n%16=0"
	case n >= 112:
		return "n>=112,tail"
	default:
		return "n>=16,tail"
	}
}

// ---- towers (E2 has assembly on five curves; the upper levels are built on it) -------------------

type towerType struct {
	curve string
	name  string
	typ   reflect.Type
	deg   int
	spec  gen.FieldSpec
	// methods with signature func(*T, *T...) *T (1 or 2 operands), sorted
	meths []string
}

func registerTowers() {
	for _, cn := range inst.PairingNames {
		pkg := reg.Get("ecc/" + cn)
		fp := inst.FieldByName(cn + "/fp")
		seen := map[reflect.Type]bool{}
		var walk func(name string, t reflect.Type)
		walk = func(name string, t reflect.Type) {
			if seen[t] || t.Kind() != reflect.Struct || strings.HasSuffix(t.String(), ".Element") {
				return
			}
			seen[t] = true
			for i := 0; i < t.NumField(); i++ {
				walk(t.Field(i).Type.Name(), t.Field(i).Type)
			}
			tt := &towerType{curve: cn, name: name, typ: t, deg: reg.Degree(t), spec: spec(fp)}
			pt := reflect.PtrTo(t)
			for i := 0; i < pt.NumMethod(); i++ {
				m := pt.Method(i)
				mt := m.Type
				if strings.Contains(m.Name, "Random") || mt.NumIn() < 2 || mt.NumIn() > 3 || mt.NumOut() != 1 || mt.Out(0) != pt {
					continue
				}
				okm := true
				for j := 1; j < mt.NumIn(); j++ {
					if mt.In(j) != pt {
						okm = false
					}
				}
				if okm {
					tt.meths = append(tt.meths, m.Name)
				}
			}
			sort.Strings(tt.meths)
			registerTower(tt)
		}
		walk("GT", pkg.Types["GT"])
	}
}

var allTowers []*towerType

func registerTower(tt *towerType) {
	allTowers = append(allTowers, tt)
	name := fmt.Sprintf("T/%s/%s", tt.curve, tt.typ.Name())
	register(&op{
		name: name,
		gen: func(t *rapid.T) ([][]byte, []string, bool) {
			// coordinates from the lattice with a high weight on zero sub-coordinates
			mk := func(label string) ([]byte, bool) {
				var b []byte
				zero := false
				w := (tt.spec.Q.BitLen() + 7) / 8
				for i := 0; i < tt.deg; i++ {
					var v *big.Int
					if rapid.IntRange(0, 3).Draw(t, label+"z") == 0 {
						v = new(big.Int)
						zero = true
					} else {
						v, _ = tt.spec.Elem(t, label)
					}
					b = append(b, v.FillBytes(make([]byte, w))...)
				}
				return b, zero
			}
			x, zx := mk("x")
			var y []byte
			zy := false
			switch rapid.IntRange(0, 3).Draw(t, "rel") {
			case 0:
				y = x
			default:
				y, zy = mk("y")
			}
			cl := []string{}
			if zx || zy {
				cl = append(cl, "zero_subcoord")
			}
			// previous content of the receiver (a distinct object): zero value, or an earlier result with every
			// coordinate (and, half of the time, every limb) non-zero - a result must not depend on it
			prior := make([]byte, 0, len(x))
			w := (tt.spec.Q.BitLen() + 7) / 8
			switch rapid.IntRange(0, 3).Draw(t, "prior") {
			case 0:
				prior = make([]byte, len(x))
				cl = append(cl, "recv_prior:zero")
			case 1:
				qm1 := new(big.Int).Sub(tt.spec.Q, big.NewInt(1))
				for i := 0; i < tt.deg; i++ {
					prior = append(prior, qm1.FillBytes(make([]byte, w))...)
				}
				cl = append(cl, "recv_prior:all_q-1")
			default:
				for i := 0; i < tt.deg; i++ {
					v := tt.spec.Uniform(t, "prior")
					if v.Sign() == 0 {
						v.SetInt64(1)
					}
					prior = append(prior, v.FillBytes(make([]byte, w))...)
				}
				cl = append(cl, "recv_prior:random_nonzero")
			}
			return [][]byte{x, y, prior}, cl, zx || zy
		},
		run: func(a [][]byte) [][]byte {
			w := (tt.spec.Q.BitLen() + 7) / 8
			load := func(b []byte) interface{} {
				vals := make([]*big.Int, tt.deg)
				for i := range vals {
					vals[i] = new(big.Int).SetBytes(b[i*w : (i+1)*w])
				}
				p := reflect.New(tt.typ).Interface()
				reg.Unflatten(p, vals)
				return p
			}
			var out [][]byte
			for _, m := range tt.meths {
				x, y := load(a[0]), load(a[1])
				z := reflect.ValueOf(load(a[2]))
				mv := z.MethodByName(m)
				var in []reflect.Value
				in = append(in, reflect.ValueOf(x))
				if mv.Type().NumIn() == 2 {
					in = append(in, reflect.ValueOf(y))
				}
				r := func() (o []byte) {
					defer func() {
						if p := recover(); p != nil {
							o = []byte("panic in " + m)
						}
					}()
					mv.Call(in)
					var b []byte
					for _, c := range reg.Flatten(z.Interface()) {
						b = append(b, c.FillBytes(make([]byte, w))...)
					}
					return b
				}()
				out = append(out, r)
			}
			return out
		},
	})
}

func TestC09_Field(t *testing.T) {
	names := namesWithPrefix("F/")
	if len(names) == 0 {
		t.Skip("no ops selected")
	}
	rapid.Check(t, func(t *rapid.T) { differential(t, names, "C09_Field") })
}

func TestC09_Vector(t *testing.T) {
	names := namesWithPrefix("V/")
	if len(names) == 0 {
		t.Skip("no ops selected")
	}
	rapid.Check(t, func(t *rapid.T) { differential(t, names, "C09_Vector") })
}

func TestC09_Tower(t *testing.T) {
	names := namesWithPrefix("T/")
	if len(names) == 0 {
		t.Skip("no ops selected")
	}
	rapid.Check(t, func(t *rapid.T) { differential(t, names, "C09_Tower") })
}

// TestC09_Workers fails (inconclusively for the driver: exit code 3 in TestMain) when no worker is configured.
func TestC09_Workers(t *testing.T) {
	if len(workers) == 0 {
		t.Skip("no workers configured (VERIF_WORKERS empty): differential is vacuous")
	}
	t.Logf("%d workers", len(workers))
}
