package c09

import (
	"math/big"
	"strconv"
	"testing"

	"pgregory.net/rapid"

	"github.com/consensys/gnark-crypto/utils/cpu"

	bnfr "github.com/consensys/gnark-crypto/ecc/bn254/fr"
	bnfft "github.com/consensys/gnark-crypto/ecc/bn254/fr/fft"
	gl "github.com/consensys/gnark-crypto/field/goldilocks"
	glfft "github.com/consensys/gnark-crypto/field/goldilocks/fft"

	"verif/harness/internal/inst"
	"verif/harness/internal/rep"
)

func itoa(i int) string { return strconv.Itoa(i) }
func b2s(b bool) string {
	if b {
		return "y"
	}
	return "n"
}

func lenClassK(n, block int) string {
	switch {
	case n == 0:
		return "n=0"
	case n%block == 0:
		return "n%block=0"
	default:
		return "tail"
	}
}

func init() {
	register(&op{
		name: "cpu",
		gen:  func(t *rapid.T) ([][]byte, []string, bool) { return nil, nil, false },
		run:  func(a [][]byte) [][]byte { return [][]byte{{b2b(cpu.SupportADX), b2b(cpu.SupportAVX512)}} },
	})
	// FFT over a 4-limb field (generic kernels, field arithmetic differs per variant) and goldilocks
	register(&op{
		name: "K/bn254fr/FFT",
		gen: func(t *rapid.T) ([][]byte, []string, bool) {
			f := inst.FieldByName("bn254/fr")
			s := spec(f)
			lg := rapid.IntRange(0, 9).Draw(t, "logn")
			n := 1 << lg
			k := rapid.IntRange(1, 4).Draw(t, "pool")
			pool := make([][]byte, k)
			for i := range pool {
				v, _ := s.Elem(t, "p")
				pool[i] = v.Bytes()
			}
			idx := rapid.SliceOfN(rapid.IntRange(0, k-1), n, n).Draw(t, "i")
			ib := make([]byte, n)
			for i := range ib {
				ib[i] = byte(idx[i])
			}
			p := []byte{byte(lg), byte(rapid.IntRange(0, 1).Draw(t, "dec")), byte(rapid.IntRange(0, 1).Draw(t, "coset")), byte(rapid.IntRange(0, 1).Draw(t, "inv")), byte(rapid.SampledFrom([]int{1, 3, 16}).Draw(t, "tasks"))}
			return append([][]byte{p, ib}, pool...), nil, n >= 32
		},
		run: func(a [][]byte) [][]byte {
			p := a[0]
			n := 1 << p[0]
			v := make([]bnfr.Element, n)
			for i := range v {
				v[i].SetBigInt(new(big.Int).SetBytes(a[2+int(a[1][i])]))
			}
			d := bnfft.NewDomain(uint64(n))
			opts := []bnfft.Option{bnfft.WithNbTasks(int(p[4]))}
			if p[2] == 1 {
				opts = append(opts, bnfft.OnCoset())
			}
			dec := bnfft.DIF
			if p[1] == 1 {
				dec = bnfft.DIT
			}
			if p[3] == 1 {
				d.FFTInverse(v, dec, opts...)
			} else {
				d.FFT(v, dec, opts...)
			}
			var out []byte
			for i := range v {
				b := v[i].Bytes()
				out = append(out, b[:]...)
			}
			return [][]byte{out}
		},
	})
	register(&op{
		name: "K/goldilocks/FFT",
		gen: func(t *rapid.T) ([][]byte, []string, bool) {
			lg := rapid.IntRange(0, 10).Draw(t, "logn")
			n := 1 << lg
			vals := rapid.SliceOfN(rapid.OneOf(rapid.Uint64(), rapid.SampledFrom([]uint64{0, 1, 0xffffffff00000000, 0xffffffff00000001, 0xffffffff, 1 << 32, ^uint64(0)})), n, n).Draw(t, "v")
			b := make([]byte, 0, 8*n)
			for _, x := range vals {
				b = append(b, new(big.Int).SetUint64(x).FillBytes(make([]byte, 8))...)
			}
			p := []byte{byte(lg), byte(rapid.IntRange(0, 1).Draw(t, "dec")), byte(rapid.IntRange(0, 1).Draw(t, "coset")), byte(rapid.IntRange(0, 1).Draw(t, "inv")), byte(rapid.SampledFrom([]int{1, 3, 16}).Draw(t, "tasks"))}
			return [][]byte{p, b}, nil, n >= 32
		},
		run: func(a [][]byte) [][]byte {
			p := a[0]
			n := 1 << p[0]
			v := make([]gl.Element, n)
			for i := range v {
				v[i].SetBytes(a[1][8*i : 8*i+8])
			}
			d := glfft.NewDomain(uint64(n))
			opts := []glfft.Option{glfft.WithNbTasks(int(p[4]))}
			if p[2] == 1 {
				opts = append(opts, glfft.OnCoset())
			}
			dec := glfft.DIF
			if p[1] == 1 {
				dec = glfft.DIT
			}
			if p[3] == 1 {
				d.FFTInverse(v, dec, opts...)
			} else {
				d.FFT(v, dec, opts...)
			}
			var out []byte
			for i := range v {
				b := v[i].Bytes()
				out = append(out, b[:]...)
			}
			return [][]byte{out}
		},
	})
}

func TestC09_Kernels(t *testing.T) {
	names := namesWithPrefix("K/")
	if len(names) == 0 {
		t.Skip("no ops selected")
	}
	coldPrologue(t, names, "C09_Kernels")
	rapid.Check(t, func(t *rapid.T) { differential(t, names, "C09_Kernels") })
}

// TestC09_Variants asserts that the four configurations really are four different code paths.
func TestC09_Variants(t *testing.T) {
	if !cpu.SupportADX || !cpu.SupportAVX512 {
		rep.Note("C09_Variants", "host lacks ADX or AVX-512: the default process does not run the assembly/AVX-512 paths; differential coverage is reduced")
		t.Skipf("host: ADX=%v AVX512=%v", cpu.SupportADX, cpu.SupportAVX512)
	}
	want := map[string][2]byte{"purego": {0, 0}, "noadx": {0, 0}, "noavx512": {1, 0}}
	if len(workers) == 0 {
		t.Fatalf("no workers configured")
	}
	for _, w := range workers {
		r, err := w.call(req{Op: "cpu"})
		if err != nil {
			t.Fatalf("worker %s: %v", w.name, err)
		}
		exp, ok := want[w.name]
		if ok && (r.Out[0][0] != exp[0] || r.Out[0][1] != exp[1]) {
			t.Fatalf("worker %s reports ADX=%d AVX512=%d, expected %v: the variant switch does not take effect", w.name, r.Out[0][0], r.Out[0][1], exp)
		}
		rep.Case("C09_Variants", "worker "+w.name+" ADX="+itoa(int(r.Out[0][0]))+" AVX512="+itoa(int(r.Out[0][1])), true, "variant:"+w.name)
	}
}
