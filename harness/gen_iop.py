#!/usr/bin/env python3
# Generates internal/inst/iop_gen.go: one concrete copy of the C20 adapters per scalar field (iop+fft+polynomial for the
# seven pairing curves, fr/polynomial alone for grumpkin)
# (the library packages are generated, strongly typed and differ only by import path).
import os, subprocess

CURVES = ["bn254", "bls12-377", "bls12-381", "bls24-315", "bls24-317", "bw6-633", "bw6-761"]
for c in CURVES:
    for sub in ("fr/iop", "fr/polynomial", "fr/fft"):
        assert os.path.isdir("/repo/ecc/%s/%s" % (c, sub)), (c, sub)

TEMPLATE = r'''
// ---- @NAME@ ------------------------------------------------------------------------------------

type iop_@C@ struct{ frpoly_@C@ }
type iopDom_@C@ struct{ d *fft_@C@.Domain }
type iopPoly_@C@ struct{ p *iop_@C@_pkg.Polynomial }

func form_@C@(f IopForm) iop_@C@_pkg.Form {
	var r iop_@C@_pkg.Form
	switch f.Basis {
	case Canonical:
		r.Basis = iop_@C@_pkg.Canonical
	case Lagrange:
		r.Basis = iop_@C@_pkg.Lagrange
	case LagrangeCoset:
		r.Basis = iop_@C@_pkg.LagrangeCoset
	default:
		panic("inst: bad basis code")
	}
	switch f.Layout {
	case Regular:
		r.Layout = iop_@C@_pkg.Regular
	case BitReverse:
		r.Layout = iop_@C@_pkg.BitReverse
	default:
		panic("inst: bad layout code")
	}
	return r
}
func polys_@C@(xs []IopPoly) []*iop_@C@_pkg.Polynomial {
	out := make([]*iop_@C@_pkg.Polynomial, len(xs))
	for i, x := range xs {
		out[i] = x.(*iopPoly_@C@).p
	}
	return out
}
func dom_@C@(d IopDomain) *fft_@C@.Domain {
	if d == nil {
		return nil
	}
	return d.(*iopDom_@C@).d
}
func wrapPoly_@C@(p *iop_@C@_pkg.Polynomial, err error) (IopPoly, error) {
	if p == nil {
		return nil, err
	}
	return &iopPoly_@C@{p}, err
}

func (iop_@C@) NewDomain(n uint64, shift *big.Int, precompute bool) IopDomain {
	var opts []fft_@C@.DomainOption
	if shift != nil {
		opts = append(opts, fft_@C@.WithShift(e_@C@(shift)))
	}
	if !precompute {
		opts = append(opts, fft_@C@.WithoutPrecompute())
	}
	return &iopDom_@C@{fft_@C@.NewDomain(n, opts...)}
}
func (iop_@C@) FFTGenerator(m uint64) (*big.Int, error) {
	g, err := fft_@C@.Generator(m)
	if err != nil {
		return nil, err
	}
	return b_@C@(&g), nil
}
func (iop_@C@) NewPoly(entries []*big.Int, f IopForm) IopPoly {
	c := ev_@C@(entries)
	return &iopPoly_@C@{iop_@C@_pkg.NewPolynomial(&c, form_@C@(f))}
}
func (iop_@C@) NewPolySpare(entries []*big.Int, f IopForm, spare int) IopPoly {
	buf := garbage_@C@(len(entries) + spare)
	copy(buf, ev_@C@(entries))
	c := buf[:len(entries)]
	return &iopPoly_@C@{iop_@C@_pkg.NewPolynomial(&c, form_@C@(f))}
}
func (iop_@C@) ReadPoly(r io.Reader) (IopPoly, int64, error) {
	p := new(iop_@C@_pkg.Polynomial)
	n, err := p.ReadFrom(r)
	return &iopPoly_@C@{p}, n, err
}
func (iop_@C@) EvaluateExpr(f IopExpr, withR bool, rLen int, form IopForm, xs []IopPoly) (IopPoly, error) {
	var r []fr_@C@.Element
	if withR {
		r = garbage_@C@(rLen)
	}
	expr := func(i int, x ...fr_@C@.Element) fr_@C@.Element { return e_@C@(f(i, bv_@C@(x))) }
	return wrapPoly_@C@(iop_@C@_pkg.Evaluate(expr, r, form_@C@(form), polys_@C@(xs)...))
}
func (iop_@C@) DivideByXMinusOne(a IopPoly, small, big IopDomain) (IopPoly, error) {
	return wrapPoly_@C@(iop_@C@_pkg.DivideByXMinusOne(a.(*iopPoly_@C@).p, [2]*fft_@C@.Domain{dom_@C@(small), dom_@C@(big)}))
}
func (iop_@C@) BuildRatioShuffledVectors(num, den []IopPoly, beta *big.Int, form IopForm, d IopDomain) (IopPoly, error) {
	return wrapPoly_@C@(iop_@C@_pkg.BuildRatioShuffledVectors(polys_@C@(num), polys_@C@(den), e_@C@(beta), form_@C@(form), dom_@C@(d)))
}
func (iop_@C@) BuildRatioCopyConstraint(entries []IopPoly, perm []int64, beta, gamma *big.Int, form IopForm, d IopDomain) (IopPoly, error) {
	return wrapPoly_@C@(iop_@C@_pkg.BuildRatioCopyConstraint(polys_@C@(entries), perm, e_@C@(beta), e_@C@(gamma), form_@C@(form), dom_@C@(d)))
}
func (iop_@C@) ErrName(err error) string {
	switch err {
	case iop_@C@_pkg.ErrMustBeRegular:
		return "ErrMustBeRegular"
	case iop_@C@_pkg.ErrMustBeCanonical:
		return "ErrMustBeCanonical"
	case iop_@C@_pkg.ErrMustBeLagrangeCoset:
		return "ErrMustBeLagrangeCoset"
	case iop_@C@_pkg.ErrInconsistentFormat:
		return "ErrInconsistentFormat"
	case iop_@C@_pkg.ErrInconsistentSize:
		return "ErrInconsistentSize"
	case iop_@C@_pkg.ErrNumberPolynomials:
		return "ErrNumberPolynomials"
	case iop_@C@_pkg.ErrSizeNotPowerOfTwo:
		return "ErrSizeNotPowerOfTwo"
	case iop_@C@_pkg.ErrInconsistentSizeDomain:
		return "ErrInconsistentSizeDomain"
	case iop_@C@_pkg.ErrIncorrectNumberOfVariables:
		return "ErrIncorrectNumberOfVariables"
	}
	return ""
}

func (d *iopDom_@C@) Cardinality() int     { return int(d.d.Cardinality) }
func (d *iopDom_@C@) Generator() *big.Int  { return b_@C@(&d.d.Generator) }
func (d *iopDom_@C@) CosetShift() *big.Int { return b_@C@(&d.d.FrMultiplicativeGen) }
func (d *iopDom_@C@) Native() interface{}  { return d.d }

func (p *iopPoly_@C@) Native() interface{} { return p.p }
func (p *iopPoly_@C@) Form() IopForm {
	var f IopForm
	switch p.p.Basis {
	case iop_@C@_pkg.Canonical:
		f.Basis = Canonical
	case iop_@C@_pkg.Lagrange:
		f.Basis = Lagrange
	case iop_@C@_pkg.LagrangeCoset:
		f.Basis = LagrangeCoset
	default:
		panic(fmt.Sprintf("inst: polynomial has Basis=%d, none of the exported constants", p.p.Basis))
	}
	switch p.p.Layout {
	case iop_@C@_pkg.Regular:
		f.Layout = Regular
	case iop_@C@_pkg.BitReverse:
		f.Layout = BitReverse
	default:
		panic(fmt.Sprintf("inst: polynomial has Layout=%d, none of the exported constants", p.p.Layout))
	}
	return f
}
func (p *iopPoly_@C@) Size() int                { return p.p.Size() }
func (p *iopPoly_@C@) SetSize(n int)            { p.p.SetSize(n) }
func (p *iopPoly_@C@) Shift(k int)              { p.p.Shift(k) }
func (p *iopPoly_@C@) Len() int                 { return len(p.p.Coefficients()) }
func (p *iopPoly_@C@) Cap() int                 { return cap(p.p.Coefficients()) }
func (p *iopPoly_@C@) Coefficients() []*big.Int { return bv_@C@(p.p.Coefficients()) }
func (p *iopPoly_@C@) Poison()                  { copy(p.p.Coefficients(), garbage_@C@(len(p.p.Coefficients()))) }
func (p *iopPoly_@C@) Evaluate(x *big.Int) *big.Int {
	r := p.p.Evaluate(e_@C@(x))
	return b_@C@(&r)
}
func (p *iopPoly_@C@) GetCoeff(i int) *big.Int {
	r := p.p.GetCoeff(i)
	return b_@C@(&r)
}
func (p *iopPoly_@C@) Clone(capacity ...int) IopPoly { return &iopPoly_@C@{p.p.Clone(capacity...)} }
func (p *iopPoly_@C@) ShallowClone() IopPoly         { return &iopPoly_@C@{p.p.ShallowClone()} }
func (p *iopPoly_@C@) ToRegular()                    { p.p.ToRegular() }
func (p *iopPoly_@C@) ToBitReverse()                 { p.p.ToBitReverse() }
func (p *iopPoly_@C@) ToLagrange(d IopDomain, nbTasks ...int) {
	p.p.ToLagrange(dom_@C@(d), nbTasks...)
}
func (p *iopPoly_@C@) ToCanonical(d IopDomain, nbTasks ...int) {
	p.p.ToCanonical(dom_@C@(d), nbTasks...)
}
func (p *iopPoly_@C@) ToLagrangeCoset(d IopDomain)        { p.p.ToLagrangeCoset(dom_@C@(d)) }
func (p *iopPoly_@C@) WriteTo(w io.Writer) (int64, error) { return p.p.WriteTo(w) }
func (p *iopPoly_@C@) ReadFrom(r io.Reader) (int64, error) { return p.p.ReadFrom(r) }
'''

FR_TEMPLATE = r'''
// ---- @NAME@: fr/polynomial ----------------------------------------------------------------------

type frpoly_@C@ struct{}

func (frpoly_@C@) Name() string { return "@NAME@" }
func (frpoly_@C@) Q() *big.Int  { return fr_@C@.Modulus() }

var pool_@C@ = pol_@C@.NewPool(64, 4096)

func e_@C@(v *big.Int) fr_@C@.Element {
	var e fr_@C@.Element
	e.SetBigInt(v)
	return e
}
func b_@C@(e *fr_@C@.Element) *big.Int { return e.BigInt(new(big.Int)) }
func ev_@C@(v []*big.Int) []fr_@C@.Element {
	if v == nil {
		return nil
	}
	out := make([]fr_@C@.Element, len(v))
	for i := range v {
		out[i].SetBigInt(v[i])
	}
	return out
}
func bv_@C@(v []fr_@C@.Element) []*big.Int {
	out := make([]*big.Int, len(v))
	for i := range v {
		out[i] = v[i].BigInt(new(big.Int))
	}
	return out
}
func garbage_@C@(n int) []fr_@C@.Element {
	out := make([]fr_@C@.Element, n)
	for i := range out {
		out[i].SetUint64(uint64(0xbad0000 + i))
	}
	return out
}
// fr/polynomial

func (frpoly_@C@) PolEval(c []*big.Int, x *big.Int) *big.Int {
	p := pol_@C@.Polynomial(ev_@C@(c))
	xe := e_@C@(x)
	r := p.Eval(&xe)
	return b_@C@(&r)
}
func (frpoly_@C@) PolDegree(c []*big.Int) uint64 {
	p := pol_@C@.Polynomial(ev_@C@(c))
	return p.Degree()
}
func (frpoly_@C@) PolClone(c []*big.Int) []*big.Int {
	p := pol_@C@.Polynomial(ev_@C@(c))
	q := p.Clone()
	copy(p, garbage_@C@(len(p)))
	return bv_@C@(q)
}
func (frpoly_@C@) PolSet(dstLen int, src []*big.Int) (dst, srcAfter []*big.Int) {
	p := pol_@C@.Polynomial(garbage_@C@(dstLen))
	s := pol_@C@.Polynomial(ev_@C@(src))
	p.Set(s)
	dst = bv_@C@(p)
	copy(p, garbage_@C@(len(p))) // writing to the destination afterwards must not reach the source
	return dst, bv_@C@(s)
}
func (frpoly_@C@) PolAddConstantInPlace(c []*big.Int, k *big.Int) []*big.Int {
	p := pol_@C@.Polynomial(ev_@C@(c))
	ke := e_@C@(k)
	p.AddConstantInPlace(&ke)
	return bv_@C@(p)
}
func (frpoly_@C@) PolSubConstantInPlace(c []*big.Int, k *big.Int) []*big.Int {
	p := pol_@C@.Polynomial(ev_@C@(c))
	ke := e_@C@(k)
	p.SubConstantInPlace(&ke)
	return bv_@C@(p)
}
func (frpoly_@C@) PolScaleInPlace(c []*big.Int, k *big.Int) []*big.Int {
	p := pol_@C@.Polynomial(ev_@C@(c))
	ke := e_@C@(k)
	p.ScaleInPlace(&ke)
	return bv_@C@(p)
}
func (frpoly_@C@) PolScale(dstLen int, k *big.Int, p0 []*big.Int) (dst, p0After []*big.Int) {
	p := pol_@C@.Polynomial(garbage_@C@(dstLen))
	s := pol_@C@.Polynomial(ev_@C@(p0))
	ke := e_@C@(k)
	p.Scale(&ke, s)
	return bv_@C@(p), bv_@C@(s)
}
func (frpoly_@C@) PolAdd(alias, dstLen int, p1, p2 []*big.Int) (res, p1After, p2After []*big.Int, retIsReceiver bool) {
	a := pol_@C@.Polynomial(ev_@C@(p1))
	b := pol_@C@.Polynomial(ev_@C@(p2))
	var ret *pol_@C@.Polynomial
	switch alias {
	case 1:
		ret = a.Add(a, b)
		return bv_@C@(a), nil, bv_@C@(b), ret == &a
	case 2:
		ret = b.Add(a, b)
		return bv_@C@(b), bv_@C@(a), nil, ret == &b
	}
	p := pol_@C@.Polynomial(garbage_@C@(dstLen))
	ret = p.Add(a, b)
	return bv_@C@(p), bv_@C@(a), bv_@C@(b), ret == &p
}
func (frpoly_@C@) PolSub(dstLen int, p1, p2 []*big.Int) (res []*big.Int, isNil bool) {
	p := pol_@C@.Polynomial(garbage_@C@(dstLen))
	ret := p.Sub(pol_@C@.Polynomial(ev_@C@(p1)), pol_@C@.Polynomial(ev_@C@(p2)))
	return bv_@C@(p), ret == nil
}
func (frpoly_@C@) PolEqual(a, b []*big.Int, aNil, bNil bool) bool {
	var pa, pb pol_@C@.Polynomial
	if !aNil {
		pa = pol_@C@.Polynomial(ev_@C@(a))
		if pa == nil {
			pa = pol_@C@.Polynomial{}
		}
	}
	if !bNil {
		pb = pol_@C@.Polynomial(ev_@C@(b))
		if pb == nil {
			pb = pol_@C@.Polynomial{}
		}
	}
	return pa.Equal(pb)
}
func (frpoly_@C@) PolSetZero(c []*big.Int) []*big.Int {
	p := pol_@C@.Polynomial(ev_@C@(c))
	p.SetZero()
	return bv_@C@(p)
}
func (frpoly_@C@) PolText(c []*big.Int, base int) string {
	return pol_@C@.Polynomial(ev_@C@(c)).Text(base)
}
func (frpoly_@C@) InterpolateOnRange(v []*big.Int) []*big.Int {
	return bv_@C@(pol_@C@.InterpolateOnRange(ev_@C@(v)))
}
func (frpoly_@C@) MLFold(table []*big.Int, r *big.Int) []*big.Int {
	m := pol_@C@.MultiLin(ev_@C@(table))
	m.Fold(e_@C@(r))
	return bv_@C@(m)
}
func (frpoly_@C@) MLFoldParallel(table []*big.Int, r *big.Int, chunks [][2]int, concurrent bool) ([]*big.Int, int) {
	m := pol_@C@.MultiLin(ev_@C@(table))
	task := m.FoldParallel(e_@C@(r))
	lenAfterCall := len(m)
	if concurrent {
		var wg sync.WaitGroup
		for _, c := range chunks {
			c := c
			wg.Add(1)
			go func() { defer wg.Done(); task(c[0], c[1]) }()
		}
		wg.Wait()
	} else {
		for _, c := range chunks {
			task(c[0], c[1])
		}
	}
	return bv_@C@(m), lenAfterCall
}
func (frpoly_@C@) MLFoldParallelPool(table []*big.Int, r *big.Int, minBlock int) []*big.Int {
	m := pol_@C@.MultiLin(ev_@C@(table))
	task := m.FoldParallel(e_@C@(r))
	workerPool().Submit(len(m), task, minBlock).Wait()
	return bv_@C@(m)
}
func (frpoly_@C@) PoolClone(v []*big.Int) (clone []*big.Int, makeLen int) {
	src := ev_@C@(v)
	scratch := pool_@C@.Make(len(v)) // a second live slice of the same class
	makeLen = len(scratch)
	copy(scratch, garbage_@C@(len(scratch)))
	c := pool_@C@.Clone(src)
	copy(src, garbage_@C@(len(src)))
	clone = bv_@C@(c)
	pool_@C@.Dump(scratch, c)
	return clone, makeLen
}
func (frpoly_@C@) MLEvaluate(table, coords []*big.Int, usePool bool) (*big.Int, []*big.Int) {
	m := pol_@C@.MultiLin(ev_@C@(table))
	var pl *pol_@C@.Pool
	if usePool {
		pl = &pool_@C@
	}
	r := m.Evaluate(ev_@C@(coords), pl)
	return b_@C@(&r), bv_@C@(m)
}
func (frpoly_@C@) MLClone(table []*big.Int) []*big.Int {
	m := pol_@C@.MultiLin(ev_@C@(table))
	c := m.Clone()
	copy(m, garbage_@C@(len(m)))
	return bv_@C@(c)
}
func (frpoly_@C@) MLAdd(left, right []*big.Int) []*big.Int {
	m := pol_@C@.MultiLin(garbage_@C@(len(left)))
	m.Add(pol_@C@.MultiLin(ev_@C@(left)), pol_@C@.MultiLin(ev_@C@(right)))
	return bv_@C@(m)
}
func (frpoly_@C@) MLEq(m0 *big.Int, q []*big.Int) []*big.Int {
	m := pol_@C@.MultiLin(garbage_@C@(1 << len(q)))
	m[0] = e_@C@(m0)
	m.Eq(ev_@C@(q))
	return bv_@C@(m)
}
func (frpoly_@C@) MLSum(table []*big.Int) *big.Int {
	r := pol_@C@.MultiLin(ev_@C@(table)).Sum()
	return b_@C@(&r)
}
func (frpoly_@C@) MLNumVars(table []*big.Int) int { return pol_@C@.MultiLin(ev_@C@(table)).NumVars() }
func (frpoly_@C@) EvalEq(q, h []*big.Int) *big.Int {
	r := pol_@C@.EvalEq(ev_@C@(q), ev_@C@(h))
	return b_@C@(&r)
}
'''


FR_ONLY = ["grumpkin"]
for c in FR_ONLY:
    assert os.path.isdir("/repo/ecc/%s/fr/polynomial" % c), c

def ident(c):
    return c.replace("-", "")

out = ["// Code generated by /verif/harness/gen_iop.py; DO NOT EDIT.", "package inst", "", "import (",
       '\t"fmt"', '\t"io"', '\t"math/big"', '\t"sync"', "", '\t"github.com/consensys/gnark-crypto/utils"', ""]
for c in CURVES + FR_ONLY:
    a = ident(c)
    base = "github.com/consensys/gnark-crypto/ecc/%s/fr" % c
    out.append('\tfr_%s "%s"' % (a, base))
    if c in CURVES:
        out.append('\tfft_%s "%s/fft"' % (a, base))
        out.append('\tiop_%s_pkg "%s/iop"' % (a, base))
    out.append('\tpol_%s "%s/polynomial"' % (a, base))
out.append(")\n")
out.append("""var (
	wpOnce sync.Once
	wp     *utils.WorkerPool
)

// workerPool returns the process-wide utils.WorkerPool (NumCPU+2 workers; never stopped).
func workerPool() *utils.WorkerPool {
	wpOnce.Do(func() { wp = utils.NewWorkerPool() })
	return wp
}
""")
out.append("var allIops = []Iop{" + ", ".join("iop_%s{}" % ident(c) for c in CURVES) + "}")
out.append("var allFrPolys = []FrPoly{" + ", ".join("frpoly_%s{}" % ident(c) for c in CURVES + FR_ONLY) + "}")
for c in CURVES + FR_ONLY:
    out.append(FR_TEMPLATE.replace("@C@", ident(c)).replace("@NAME@", c))
    if c in CURVES:
        out.append(TEMPLATE.replace("@C@", ident(c)).replace("@NAME@", c))
path = "/verif/harness/internal/inst/iop_gen.go"
open(path, "w").write("\n".join(out) + "\n")
subprocess.run(["gofmt", "-w", path], check=True)
