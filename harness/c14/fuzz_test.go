package c14

// Native fuzz target for the byte-level Write paths (thorough tier only, through TestC14_NativeFuzz;
// in the quick tier only the seed corpus is executed). The semantic oracle — the same sequential
// model as the rapid state machine — lives inside the target, so a coverage-guided mutation that
// makes Write panic, read beyond len(p), accept inadmissible input or change a digest is a crash.

import (
	"bytes"
	"fmt"
	"math/big"
	"os"
	"os/exec"
	"path/filepath"
	"regexp"
	"runtime"
	"strconv"
	"strings"
	"sync"
	"testing"

	"verif/harness/internal/rep"
)

var (
	fuzzStreamsOnce sync.Once
	fuzzStreams     []*streamInst
)

func fuzzInst(sel uint8) (*streamInst, ctor) {
	fuzzStreamsOnce.Do(func() {
		for _, m := range allMiMC {
			fuzzStreams = append(fuzzStreams, mimcStream(m))
		}
		for _, p := range allP2 {
			fuzzStreams = append(fuzzStreams, mdStream(p))
		}
	})
	si := fuzzStreams[int(sel)%len(fuzzStreams)]
	return si, si.ctors[int(sel/uint8(len(fuzzStreams)))%len(si.ctors)]
}

// runScript interprets script as a call history:
//
//	op%6 = 0,1  Write: next byte n, next byte flags (bit0: spare capacity with poison), next n bytes data
//	       2    Sum(prefix): next byte k (mod 40), next k bytes prefix
//	       3    Reset
//	       4    State → scribble → SetState(copy) round trip
//	       5    Sum(nil), scribble over the result
func runScript(t *testing.T, si *streamInst, c ctor, script []byte) (writes, bad int) {
	h := c.new()
	state := append([]byte{}, si.iv...)
	take := func(n int) []byte {
		if n > len(script) {
			n = len(script)
		}
		b := script[:n]
		script = script[n:]
		return b
	}
	check := func(why string) {
		if d := h.Sum(nil); !bytes.Equal(d, state) {
			t.Fatalf("%s[%s] %s: Sum(nil) = %x, model %x", si.name, c.name, why, d, state)
		}
	}
	for len(script) > 0 {
		op := take(1)[0] % 6
		switch op {
		case 0, 1:
			hdr := take(2)
			if len(hdr) < 2 {
				return
			}
			data := take(int(hdr[0]))
			var arg, backing []byte
			if hdr[1]&1 == 1 {
				backing = make([]byte, len(data)+si.blockSize+1)
				copy(backing, data)
				for i := len(data); i < len(backing); i++ {
					backing[i] = 0x01
				}
				arg = backing[:len(data)]
			} else {
				arg = append(make([]byte, 0, len(data)), data...)
				backing = arg
			}
			before := append([]byte{}, backing...)
			next, ok := si.absorb(state, data, c.le)
			var n int
			var err error
			if msg := guard(func() { n, err = h.Write(arg) }); msg != "" {
				t.Fatalf("%s[%s]: Write(len=%d cap=%d) panicked: %s", si.name, c.name, len(arg), cap(arg), msg)
			}
			if !bytes.Equal(before, backing) {
				t.Fatalf("%s[%s]: Write modified its argument", si.name, c.name)
			}
			writes++
			if ok {
				if err != nil || n != len(arg) {
					t.Fatalf("%s[%s]: Write(%x) = (%d, %v) on admissible input", si.name, c.name, data, n, err)
				}
				state = next
			} else {
				bad++
				if err == nil {
					t.Fatalf("%s[%s]: Write(%x) accepted inadmissible input", si.name, c.name, data)
				}
				// the stream continues: the model keeps what was accepted before the refused block
				st, wn := si.refused(state, data, c.le)
				if n != wn {
					t.Fatalf("%s[%s]: refused Write(%x) returned n=%d, expected %d", si.name, c.name, data, n, wn)
				}
				state = st
			}
		case 2:
			k := take(1)
			if len(k) == 0 {
				return
			}
			prefix := append([]byte{}, take(int(k[0])%40)...)
			out := h.Sum(append([]byte{}, prefix...))
			if !bytes.Equal(out, append(append([]byte{}, prefix...), state...)) {
				t.Fatalf("%s[%s]: Sum(%x) = %x, want prefix‖%x", si.name, c.name, prefix, out, state)
			}
		case 3:
			h.Reset()
			state = append([]byte{}, si.iv...)
		case 4:
			s := h.State()
			if !bytes.Equal(s, state) {
				t.Fatalf("%s[%s]: State() = %x, model %x", si.name, c.name, s, state)
			}
			cp := append([]byte{}, s...)
			for i := range s {
				s[i] ^= 0xFF
			}
			check("after scribbling over State()")
			if err := h.SetState(cp); err != nil {
				t.Fatalf("%s[%s]: SetState(State()): %v", si.name, c.name, err)
			}
			for i := range cp {
				cp[i] ^= 0xFF
			}
		case 5:
			d := h.Sum(nil)
			if !bytes.Equal(d, state) {
				t.Fatalf("%s[%s]: Sum(nil) = %x, model %x", si.name, c.name, d, state)
			}
			for i := range d {
				d[i] ^= 0xFF
			}
		}
	}
	check("end of script")
	return
}

func FuzzC14_HashWrite(f *testing.F) {
	// seed corpus: for every hasher family a history with canonical blocks, a short write, a
	// non-multiple write without spare capacity, a non-canonical block, Sum(prefix), State/SetState
	n := len(allMiMC) + len(allP2)
	for i := 0; i < n; i++ {
		si, c := fuzzInst(uint8(i))
		B := si.blockSize
		one := make([]byte, B)
		one[B-1] = 1
		if c.le {
			one[B-1], one[0] = 0, 1
		}
		var s []byte
		s = append(s, 0, byte(B), 0)
		s = append(s, one...) // Write(one block)
		s = append(s, 5, 4)   // Sum(nil), State/SetState
		s = append(s, 1, byte(2*B), 1)
		s = append(s, one...)
		s = append(s, one...)        // Write(two blocks, spare capacity)
		s = append(s, 0, 1, 0, 7)    // short write
		s = append(s, 2, 3, 9, 9, 9) // Sum(prefix)
		s = append(s, 0, byte(B+1), 0)
		s = append(s, one...)
		s = append(s, 1) // non-multiple, exact capacity
		s = append(s, 0, byte(B), 1)
		s = append(s, bytes.Repeat([]byte{0xFF}, B)...) // non-canonical block
		s = append(s, 3, 5)
		f.Add(uint8(i), s)
		f.Add(uint8(i+n), s) // second constructor of the same family
	}
	f.Fuzz(func(t *testing.T, sel uint8, script []byte) {
		if len(script) > 4096 {
			script = script[:4096]
		}
		si, c := fuzzInst(sel)
		w, bad := runScript(t, si, c, script)
		cl := []string{"fuzz:script"}
		if bad > 0 {
			cl = append(cl, "fuzz:inadmissible_write")
		}
		rep.Case("C14_FuzzHashWrite", fmt.Sprintf("%s[%s] %x", si.name, c.name, script), w >= 2 || bad > 0, cl...)
	})
}

// TestC14_NativeFuzz (thorough tier) runs the fuzz target with coverage guidance. The driver's test
// binaries carry no fuzz instrumentation, so the campaign runs through `go test -fuzz` on the package in
// a child process; a crasher makes this test fail and is kept under c14/testdata/fuzz/<target>/, where
// every later run (quick tier included) re-executes it as a seed.
//
//	VERIF_C14_FUZZTIME  go duration, default 90s
func TestC14_NativeFuzz(t *testing.T) {
	if !rep.Thorough() {
		t.Skip("native fuzzing runs in the thorough tier only")
	}
	const target = "FuzzC14_HashWrite"
	dur := os.Getenv("VERIF_C14_FUZZTIME")
	if dur == "" {
		dur = "90s"
	}
	_, file, _, _ := runtime.Caller(0)
	cmd := exec.Command("go", "test", "-vet=off", "-run", "^$", "-fuzz", "^"+target+"$", "-fuzztime", dur, ".")
	cmd.Dir = filepath.Dir(file)
	for _, e := range os.Environ() {
		if !strings.HasPrefix(e, "VERIF_REPORT=") && !strings.HasPrefix(e, "VERIF_INST=") {
			cmd.Env = append(cmd.Env, e)
		}
	}
	out, err := cmd.CombinedOutput()
	s := string(out)
	var execs, interesting int64
	for _, m := range regexp.MustCompile(`execs: (\d+) \(\d+/sec\), new interesting: \d+ \(total: (\d+)\)`).FindAllStringSubmatch(s, -1) {
		execs, _ = strconv.ParseInt(m[1], 10, 64)
		interesting, _ = strconv.ParseInt(m[2], 10, 64)
	}
	tail := s
	if len(tail) > 3000 {
		tail = tail[len(tail)-3000:]
	}
	if err != nil {
		t.Fatalf("native fuzzing of %s failed (%v):\n%s", target, err, tail)
	}
	if !strings.Contains(s, "new interesting") {
		t.Fatalf("native fuzzing of %s ran without coverage guidance or did not run:\n%s", target, tail)
	}
	rep.Count("C14_NativeFuzz/"+target, "fuzz:execs", execs, interesting,
		fmt.Sprintf("%s: %d coverage-guided executions in %s, corpus of %d coverage-distinct inputs (counted as distinct)", target, execs, dur, interesting))
}

var _ = big.NewInt
