package c14

// Anchors of the reference models: fixed vectors that do not come from running the library in this
// test — vectors shipped in the repository (MiMC vectors.json, the Plonky3 CSV files, the
// sage-generated SIS test_cases.json, the pinned permutation KATs of the package tests, the RFC 9380
// K.1 vectors), well-known digests, and tiny instances computed by hand (the arithmetic is written
// out in the comments).

import (
	"embed"
	"encoding/csv"
	"encoding/hex"
	"encoding/json"
	"math/big"
	"strings"
	"testing"

	"golang.org/x/crypto/blake2b"

	"verif/harness/internal/ref"
	"verif/harness/internal/rep"
)

//go:embed testdata/*.json testdata/*.csv
var testdata embed.FS

func readJSON(t testing.TB, name string, v interface{}) {
	b, err := testdata.ReadFile("testdata/" + name)
	if err != nil {
		t.Fatalf("HARNESS: %v", err)
	}
	if err := json.Unmarshal(b, v); err != nil {
		t.Fatalf("HARNESS: %s: %v", name, err)
	}
}

func dec(s string) *big.Int {
	v, ok := new(big.Int).SetString(s, 0)
	if !ok {
		panic("bad integer " + s)
	}
	return v
}

func ints(v ...int64) []*big.Int {
	out := make([]*big.Int, len(v))
	for i, x := range v {
		out[i] = big.NewInt(x)
	}
	return out
}

func TestC14_Anchors(t *testing.T) {
	const T = "C14_Anchors"
	// --- primitives --------------------------------------------------------------------------
	if g := hex.EncodeToString(ref.LegacyKeccak256(nil)); g != "c5d2460186f7233c927e7db2dcc703c0e500b653ca82273b7bfad8045d85a470" {
		t.Fatalf("legacy Keccak-256(\"\") = %s", g)
	}
	if g := blake2b.Sum256([]byte("abc")); hex.EncodeToString(g[:]) != "bddd813c634239723171ef3fee98579b94964e3bb1cb3e427262c8c068d52319" {
		t.Fatalf("blake2b-256(abc) = %x", g)
	}
	// RFC 9380 K.1 (copied from field/hash/hashutils_test.go)
	for _, c := range [][2]string{
		{"", "68a985b87eb6b46952128911f2a4412bbc302a9d759667f87f7a21d803f07235"},
		{"abc", "d8ccab23b5985ccea865c6c97b6e5b8350e794e603b4b97902f53a8a0d605615"},
		{"abcdef0123456789", "eff31487c770a893cfb36f912fbfcbff40d5661771ca4b2cb4eafe524333f5c1"},
	} {
		if g := hex.EncodeToString(ref.MiMCExpandXMD([]byte(c[0]), []byte("QUUX-V01-CS02-with-expander-SHA256-128"), 32)); g != c[1] {
			t.Fatalf("expand_message_xmd(%q) = %s want %s", c[0], g, c[1])
		}
	}
	rep.Count(T, "primitive_kat", 5, 0, "keccak256(\"\"), blake2b(abc), RFC 9380 K.1 ×3")

	// --- MiMC: by hand over F_11, d=3, constants (1,2) -------------------------------------------
	// E_0(3): (3+0+1)^3 = 64 = 9 ; (9+0+2)^3 = 1331 = 0 ; +k = 0        h1 = 0 + 0 + 3 = 3
	// E_3(4): (4+3+1)^3 = 512 = 6 ; (6+3+2)^3 = 11^3 = 0 ; +k = 3        h2 = 3 + 3 + 4 = 10
	toy := ref.NewMiMCWith(big.NewInt(11), 3, ints(1, 2), 1)
	if g := toy.Encrypt(big.NewInt(3), big.NewInt(4)); g.Int64() != 3 {
		t.Fatalf("toy MiMC E_3(4) = %s want 3", g)
	}
	if g := toy.Hash(ints(3)); g.Int64() != 3 {
		t.Fatalf("toy MiMC hash(3) = %s want 3", g)
	}
	if g := toy.Hash(ints(3, 4)); g.Int64() != 10 {
		t.Fatalf("toy MiMC hash(3,4) = %s want 10", g)
	}
	rep.Count(T, "mimc_hand", 3, 0, "F_11 d=3 c=(1,2): hash(3)=3 hash(3,4)=10")

	// --- MiMC bn254: vectors.json shipped in ecc/bn254/fr/mimc/test_vectors --------------------
	var mv []struct {
		In  []string `json:"in"`
		Out string   `json:"out"`
	}
	readJSON(t, "mimc_bn254_vectors.json", &mv)
	bn := ref.NewMiMC(mimcSpec("bn254"))
	for i, v := range mv {
		var in []*big.Int
		for _, s := range v.In {
			in = append(in, dec(s))
		}
		if g := bn.Hash(in); g.Cmp(dec(v.Out)) != 0 {
			t.Fatalf("ref.MiMC(bn254) vector %d: got %s want %s", i, g.Text(16), v.Out)
		}
	}
	if len(mv) < 5 {
		t.Fatalf("HARNESS: only %d MiMC vectors", len(mv))
	}
	rep.Count(T, "mimc_bn254_vectors_json", int64(len(mv)), 0, "ecc/bn254/fr/mimc/test_vectors/vectors.json")
	// every spec: prime modulus, block size = byte length of q
	for _, s := range ref.MiMCSpecs {
		q := dec(s.Q)
		if !q.ProbablyPrime(32) {
			t.Fatalf("HARNESS: MiMC %s modulus not prime", s.Name)
		}
		if new(big.Int).GCD(nil, nil, big.NewInt(int64(s.D)), new(big.Int).Sub(q, big.NewInt(1))).Int64() != 1 {
			// not part of C14 (the documented exponent is what is checked), but worth recording
			rep.Note(T, "observation: MiMC/"+s.Name+": x^"+itoa(s.D)+" is not a permutation of F_q (gcd(d,q-1) != 1)")
		}
		if (q.BitLen()+7)/8 != s.BlockSize {
			t.Fatalf("HARNESS: MiMC %s block size", s.Name)
		}
	}

	// --- Poseidon2 by hand over F_11, d=3 --------------------------------------------------------
	// t=2, RF=2, RP=1, keys (1,2) | 3 | (4,5); M_E=[[2,1],[1,2]], M_I=[[2,1],[1,3]]; x=(1,2)
	//   M_E x = (4,5)
	//   full:    +(1,2) = (5,7); cubes (125,343) = (4,2); M_E = (10,8)
	//   partial: x0 = 10+3 = 2, cube 8 → (8,8); M_I = (24,32) = (2,10)
	//   full:    +(4,5) = (6,4); cubes (216,64) = (7,9); M_E = (23,25) = (1,3)
	cd := ref.Poseidon2Specs[0].Diag
	q11 := big.NewInt(11)
	p2 := &ref.Poseidon2{F: ref.NewFp(q11), T: 2, RF: 2, RP: 1, D: 3, RC: [][]*big.Int{ints(1, 2), ints(3), ints(4, 5)},
		ME: ref.Poseidon2External(2, nil), MI: ref.Poseidon2Internal(cd(q11, 2)), ElemBytes: 1}
	if g := p2.Permute(ints(1, 2)); !eqBigs(g, ints(1, 3)) {
		t.Fatalf("toy Poseidon2 t=2: got %s want [1 3]", bigs(g))
	}
	if g := p2.CompressElems(ints(1), ints(2)); !eqBigs(g, ints(5)) { // 3 + 2
		t.Fatalf("toy Poseidon2 compress: got %s want [5]", bigs(g))
	}
	// t=3, keys (1,2,3) | 4 | (5,6,7); M_E=circ(2,1,1), M_I=[[2,1,1],[1,2,1],[1,1,3]]; x=(1,2,3)
	//   M_E x = (7,8,9)
	//   full:    +(1,2,3) = (8,10,1); cubes (6,10,1); sum 17 → (23,27,18) = (1,5,7)
	//   partial: x0 = 1+4 = 5, cube 125 = 4 → (4,5,7); sum 16 → (20,21,30) = (9,10,8)
	//   full:    +(5,6,7) = (3,5,4); cubes (27,125,64) = (5,4,9); sum 18 → (23,22,27) = (1,0,5)
	p3 := &ref.Poseidon2{F: ref.NewFp(q11), T: 3, RF: 2, RP: 1, D: 3, RC: [][]*big.Int{ints(1, 2, 3), ints(4), ints(5, 6, 7)},
		ME: ref.Poseidon2External(3, nil), MI: ref.Poseidon2Internal(cd(q11, 3)), ElemBytes: 1}
	if g := p3.Permute(ints(1, 2, 3)); !eqBigs(g, ints(1, 0, 5)) {
		t.Fatalf("toy Poseidon2 t=3: got %s want [1 0 5]", bigs(g))
	}
	// circ(2·M4, M4) with the paper's M4: first and sixth rows written out
	me8 := ref.Poseidon2External(8, [][]int64{{5, 7, 1, 3}, {4, 6, 1, 1}, {1, 3, 5, 7}, {1, 1, 4, 6}})
	if !eqBigs(me8[0], ints(10, 14, 2, 6, 5, 7, 1, 3)) || !eqBigs(me8[5], ints(4, 6, 1, 1, 8, 12, 2, 2)) {
		t.Fatalf("external matrix t=8: rows %s %s", bigs(me8[0]), bigs(me8[5]))
	}
	rep.Count(T, "poseidon2_hand", 4, 0, "F_11 d=3: t=2 (1,2)->(1,3); t=3 (1,2,3)->(1,0,5)")

	// rational diagonals of the comments == numeric tables of hash.go ("from Plonky3")
	for _, s := range ref.Poseidon2Specs {
		if s.M4 == nil {
			continue
		}
		for _, w := range s.Widths {
			mu := s.Diag(s.Modulus(), w)
			tab := ref.Poseidon2DocDiag[s.Name+"/"+itoa(w)]
			if len(mu) != w || len(tab) != w {
				t.Fatalf("HARNESS: %s/%d diagonal length", s.Name, w)
			}
			for i := range mu {
				if mu[i].Cmp(new(big.Int).SetUint64(tab[i])) != 0 {
					t.Fatalf("HARNESS: %s/%d diagonal entry %d: comment form %s, table %d", s.Name, w, i, mu[i], tab[i])
				}
			}
		}
	}

	// --- Poseidon2 babybear: Plonky3 vectors (CSV) with the HorizenLabs round constants ----------
	var hk map[string]struct {
		EI [][]uint64 `json:"external_initial"`
		In []uint64   `json:"internal"`
		EF [][]uint64 `json:"external_final"`
	}
	readJSON(t, "babybear_horizen_round_keys.json", &hk)
	bb := p2Spec("babybear")
	for _, w := range []int{16, 24} {
		k := hk[itoa(w)]
		rp := len(k.In)
		p := ref.NewPoseidon2(bb, w, 8, rp)
		var rc [][]*big.Int
		u := func(v []uint64) []*big.Int {
			o := make([]*big.Int, len(v))
			for i := range v {
				o[i] = new(big.Int).SetUint64(v[i])
			}
			return o
		}
		for _, r := range k.EI {
			rc = append(rc, u(r))
		}
		for _, c := range k.In {
			rc = append(rc, u([]uint64{c}))
		}
		for _, r := range k.EF {
			rc = append(rc, u(r))
		}
		if len(rc) != 8+rp {
			t.Fatalf("HARNESS: horizen keys %d", len(rc))
		}
		p.RC = rc
		b, _ := testdata.ReadFile("testdata/poseidon2_babybear_" + itoa(w) + "_test_vectors.csv")
		recs, err := csv.NewReader(strings.NewReader(string(b))).ReadAll()
		if err != nil || len(recs) < 10 {
			t.Fatalf("HARNESS: csv %v", err)
		}
		for li, r := range recs[1:] {
			var in, want []*big.Int
			for i := 0; i < w; i++ {
				in = append(in, dec(r[i]))
				want = append(want, dec(r[w+i]))
			}
			if g := p.Permute(in); !eqBigs(g, want) {
				t.Fatalf("ref.Poseidon2 babybear/%d vs Plonky3 vector %d:\n got %s\nwant %s", w, li, bigs(g), bigs(want))
			}
		}
		rep.Count(T, "poseidon2_plonky3_csv", int64(len(recs)-1), 0, "field/babybear/poseidon2/poseidon2_babybear_"+itoa(w)+"_test_vectors.csv")
	}

	// --- Poseidon2 small fields: permutation vectors pinned in the packages' own tests -----------
	// (these also pin the Keccak round-key derivation of the reference)
	var kats []struct {
		Field           string
		T, RF, RP       int
		Input, Expected []string
		Source          string
	}
	readJSON(t, "poseidon2_pinned_kats.json", &kats)
	for _, k := range kats {
		p := ref.NewPoseidon2(p2Spec(k.Field), k.T, k.RF, k.RP)
		var in, want []*big.Int
		for i := range k.Input {
			in = append(in, dec(k.Input[i]))
			want = append(want, dec(k.Expected[i]))
		}
		if g := p.Permute(in); !eqBigs(g, want) {
			t.Fatalf("ref.Poseidon2 %s/%d vs pinned vector of %s:\n got %s\nwant %s", k.Field, k.T, k.Source, bigs(g), bigs(want))
		}
	}
	if len(kats) != 6 {
		t.Fatalf("HARNESS: %d pinned KATs", len(kats))
	}
	rep.Count(T, "poseidon2_pinned_kat", int64(len(kats)), 0, "TestPoseidon2Width* of the koalabear/babybear/goldilocks packages")

	// --- SIS by hand: F_17, one 8-bit limb per element (RR = 256 = 1 mod 17), d=2 -----------------
	// sage key, seed 2: A0 = 4 + 16X (2², 4²), A1 = 9 + 13X (3², 9²=81=13); input (1,2,3): m0 = 1+2X, m1 = 3
	//   A0·m0 = 4 + 24X + 32X² = (4-32) + 24X = 6 + 7X ;  A1·m1 = 27 + 39X = 10 + 5X ;  sum = 16 + 12X
	ts := ref.NewSISSageKey(ref.SISFieldSpec{Name: "toy", Q: "17", ElemBytes: 1, Bits: 5}, 2, 1, 8, 4)
	if g, err := ts.Hash(ints(1, 2, 3)); err != nil || !eqBigs(g, ints(16, 12)) {
		t.Fatalf("toy SIS: got %s %v want [16 12]", bigs(g), err)
	}
	if _, err := ts.Hash(ints(1, 2, 3, 4, 5)); err == nil {
		t.Fatalf("toy SIS: 5 > max 4 elements must be an error")
	}
	rep.Count(T, "sis_hand", 2, 0, "F_17 d=2 bound 8: (1,2,3) -> (16,12)")

	// --- SIS: sage/python generated test_cases.json of the four packages --------------------------
	for _, f := range ref.SISFields {
		var tc struct {
			Inputs  []string `json:"inputs"`
			Entries []struct {
				Params struct {
					Seed                int64 `json:"seed"`
					LogTwoDegree        int   `json:"logTwoDegree"`
					LogTwoBound         int   `json:"logTwoBound"`
					MaxNbElementsToHash int   `json:"maxNbElementsToHash"`
				} `json:"params"`
				Expected []string `json:"expected"`
			} `json:"entries"`
		}
		readJSON(t, "sis_"+f.Name+".json", &tc)
		var in []*big.Int
		for _, s := range tc.Inputs {
			in = append(in, dec(s))
		}
		used := 0
		for _, e := range tc.Entries {
			p := e.Params
			if !f.SISAcceptsBound(p.LogTwoBound) {
				continue // the packages skip these, too (bound not a multiple of 8 / too large)
			}
			if !rep.Thorough() && p.LogTwoDegree > 9 {
				continue
			}
			s := ref.NewSISSageKey(f, p.Seed, p.LogTwoDegree, p.LogTwoBound, p.MaxNbElementsToHash)
			got, err := s.Hash(in)
			if err != nil {
				t.Fatalf("ref.SIS %s %+v: %v", f.Name, p, err)
			}
			var want []*big.Int
			for _, x := range e.Expected {
				want = append(want, dec(x))
			}
			if !eqBigs(got, want) {
				t.Fatalf("ref.SIS %s %+v differs from the sage result\n got %s\nwant %s", f.Name, p, bigs(got[:4]), bigs(want[:4]))
			}
			used++
		}
		if used < 2 {
			t.Fatalf("HARNESS: only %d usable SIS cases for %s", used, f.Name)
		}
		rep.Count(T, "sis_sage_"+f.Name, int64(used), 0, "test_cases.json of the "+f.Name+" sis package")
	}

	// --- Merkle–Damgård by hand: B=2, IV=(1,2), F(l,r)_i = l_i + 2 r_i mod 256 --------------------
	// write (3,4,5): blocks (3,4),(0,5): (1+6, 2+8) = (7,10); (7+0, 10+10) = (7,20)
	md := &ref.MD{BlockSize: 2, IV: []byte{1, 2}, F: func(l, r []byte) ([]byte, bool) {
		return []byte{l[0] + 2*r[0], l[1] + 2*r[1]}, true
	}}
	if g, _ := md.Hash([]byte{3, 4, 5}); g[0] != 7 || g[1] != 20 {
		t.Fatalf("toy MD: %v want [7 20]", g)
	}
	if g, _ := md.Hash([]byte{3, 4}, nil, []byte{5}); g[0] != 7 || g[1] != 20 {
		t.Fatalf("toy MD (split writes): %v want [7 20]", g)
	}
	if g, _ := md.Hash(); g[0] != 1 || g[1] != 2 {
		t.Fatalf("toy MD (empty): %v want IV", g)
	}
	rep.Count(T, "md_hand", 3, 0, "B=2 IV=(1,2) F=l+2r: (3,4,5) -> (7,20)")
}

func itoa(i int) string { return big.NewInt(int64(i)).String() }
