// Package c14: algebraic hashes match their specifications and honour streaming semantics.
package c14

import (
	"fmt"
	"math/big"
	"os"
	"regexp"
	"testing"

	"github.com/consensys/gnark-crypto/hash"
	_ "github.com/consensys/gnark-crypto/hash/all"

	"verif/harness/internal/gen"
	"verif/harness/internal/inst"
	"verif/harness/internal/ref"
	"verif/harness/internal/rep"
)

func TestMain(m *testing.M) { rep.Main(m) }

func selected(name string) bool {
	p := os.Getenv("VERIF_INST")
	if p == "" {
		return true
	}
	ok, _ := regexp.MatchString(p, name)
	return ok
}

// ---- type-erased adapters (the generated registry inst_gen_test.go instantiates them) ----------

type felt[E any] interface {
	*E
	SetBigInt(*big.Int) *E
	BigInt(*big.Int) *big.Int
}

type mimcInst struct {
	name, curve          string
	id                   hash.Hash
	blockSize            int
	newDef, newBE, newLE func() hash.StateStorer
	sum                  func([]byte) ([]byte, error)
	consts               func() []big.Int
	modulus              func() *big.Int
}

type p2Perm interface {
	Permute(in []*big.Int) ([]*big.Int, error)
	// PermuteSpare passes the buffer as the prefix of a larger array whose tail (spare elements) holds
	// non-zero poison; a touched tail is reported as *tailError.
	PermuteSpare(in []*big.Int, spare int) ([]*big.Int, error)
	Compress(l, r []byte) ([]byte, error)
	BlockSize() int
}

// tailError: the library read-modified or wrote elements beyond len(slice) (inside the spare capacity).
type tailError struct{ msg string }

func (e *tailError) Error() string { return e.msg }

// poisonVal is the value put into spare-capacity element i (non-zero, canonical in every field).
func poisonVal(i int) *big.Int { return big.NewInt(int64(0x5A5A5A00 + i%251 + 1)) }

type permLib[E any] interface {
	Permutation([]E) error
	Compress(l, r []byte) ([]byte, error)
	BlockSize() int
}

type permAd[E any, PE felt[E], P permLib[E]] struct{ p P }

func (a permAd[E, PE, P]) Permute(in []*big.Int) ([]*big.Int, error) { return a.PermuteSpare(in, 0) }

func (a permAd[E, PE, P]) PermuteSpare(in []*big.Int, spare int) ([]*big.Int, error) {
	back := make([]E, len(in)+spare)
	for i := range in {
		PE(&back[i]).SetBigInt(in[i])
	}
	for i := len(in); i < len(back); i++ {
		PE(&back[i]).SetBigInt(poisonVal(i))
	}
	v := back[:len(in)]
	err := a.p.Permutation(v)
	for i := len(in); i < len(back); i++ {
		if PE(&back[i]).BigInt(new(big.Int)).Cmp(poisonVal(i)) != 0 {
			return nil, &tailError{fmt.Sprintf("Permutation on a buffer of len %d (cap %d) modified element %d beyond len", len(in), len(back), i)}
		}
	}
	if err != nil {
		return nil, err
	}
	out := make([]*big.Int, len(v))
	for i := range v {
		out[i] = PE(&v[i]).BigInt(new(big.Int))
	}
	return out, nil
}
func (a permAd[E, PE, P]) Compress(l, r []byte) ([]byte, error) { return a.p.Compress(l, r) }
func (a permAd[E, PE, P]) BlockSize() int                       { return a.p.BlockSize() }

func rkBig[E any, PE felt[E]](rk [][]E) [][]*big.Int {
	out := make([][]*big.Int, len(rk))
	for i := range rk {
		out[i] = make([]*big.Int, len(rk[i]))
		for j := range rk[i] {
			out[i][j] = PE(&rk[i][j]).BigInt(new(big.Int))
		}
	}
	return out
}

type p2Inst struct {
	name, field string
	id          hash.Hash
	modulus     func() *big.Int
	degree      func() int
	newPerm     func(t, rf, rp int) p2Perm
	newPermSeed func(t, rf, rp int, seed string) p2Perm
	newMD       func() hash.StateStorer
	roundKeys   func(t, rf, rp int, seed string, withSeed bool) (string, [][]*big.Int)
	defaults    func() (int, int, int, [][]*big.Int)
}

type sisLib interface {
	Hash(v []*big.Int, resLen int) ([]*big.Int, error)
	// HashSpare passes v and res as prefixes of larger arrays whose tails hold non-zero poison.
	HashSpare(v []*big.Int, resLen, spareIn, spareRes int) ([]*big.Int, error)
	Key() [][]*big.Int
	Degree() int
	LogBound() int
}

type sisAd[E any, PE felt[E]] struct {
	hash     func(v, res []E) error
	key      [][]E
	degree   int
	logBound int
}

func (a sisAd[E, PE]) Hash(v []*big.Int, resLen int) ([]*big.Int, error) {
	return a.HashSpare(v, resLen, 0, 0)
}

func (a sisAd[E, PE]) HashSpare(v []*big.Int, resLen, spareIn, spareRes int) ([]*big.Int, error) {
	inBack := make([]E, len(v)+spareIn)
	for i := range v {
		PE(&inBack[i]).SetBigInt(v[i])
	}
	for i := len(v); i < len(inBack); i++ {
		PE(&inBack[i]).SetBigInt(poisonVal(i))
	}
	in := inBack[:len(v)]
	resBack := make([]E, resLen+spareRes)
	for i := range resBack { // poison: Hash must overwrite res, not accumulate, and leave the tail alone
		PE(&resBack[i]).SetBigInt(poisonVal(i))
	}
	res := resBack[:resLen]
	if err := a.hash(in, res); err != nil {
		return nil, err
	}
	// the input (and the elements beyond its length) must not be modified
	for i := range inBack {
		w := poisonVal(i)
		if i < len(v) {
			w = v[i]
		}
		if PE(&inBack[i]).BigInt(new(big.Int)).Cmp(w) != 0 {
			return nil, &tailError{fmt.Sprintf("sis.Hash modified element %d of its input array (len %d, cap %d)", i, len(v), len(inBack))}
		}
	}
	for i := resLen; i < len(resBack); i++ {
		if PE(&resBack[i]).BigInt(new(big.Int)).Cmp(poisonVal(i)) != 0 {
			return nil, &tailError{fmt.Sprintf("sis.Hash wrote element %d beyond len(res)=%d", i, resLen)}
		}
	}
	out := make([]*big.Int, len(res))
	for i := range res {
		out[i] = PE(&res[i]).BigInt(new(big.Int))
	}
	return out, nil
}
func (a sisAd[E, PE]) Key() [][]*big.Int { return rkBig[E, PE](a.key) }
func (a sisAd[E, PE]) Degree() int       { return a.degree }
func (a sisAd[E, PE]) LogBound() int     { return a.logBound }

type sisInst struct {
	name, field string
	modulus     func() *big.Int
	new         func(seed int64, logDeg, logBound, maxElems int) (sisLib, error)
}

// ---- shared helpers ---------------------------------------------------------------------------

// fieldSpec returns the boundary-lattice generator spec of a field by the name used in inst.Fields().
func fieldSpec(name string) gen.FieldSpec {
	for _, f := range inst.Fields() {
		if f.Name() == name {
			return gen.FieldSpec{Q: f.Q(), NLimbs: f.NLimbs(), LimbBits: f.LimbBits()}
		}
	}
	panic("c14: unknown field " + name)
}

// frName maps a hash package's curve/field name to the inst.Fields() name of its scalar field.
func frName(n string) string {
	switch n {
	case "koalabear", "babybear", "goldilocks":
		return n
	}
	return n + "/fr"
}

func mimcSpec(curve string) ref.MiMCSpec {
	for _, s := range ref.MiMCSpecs {
		if s.Name == curve {
			return s
		}
	}
	panic("c14: no MiMC spec for " + curve)
}

func p2Spec(field string) ref.Poseidon2Spec {
	for _, s := range ref.Poseidon2Specs {
		if s.Name == field {
			return s
		}
	}
	panic("c14: no Poseidon2 spec for " + field)
}

func sisSpec(field string) ref.SISFieldSpec {
	for _, s := range ref.SISFields {
		if s.Name == field {
			return s
		}
	}
	panic("c14: no SIS spec for " + field)
}

// mustQ cross-checks a transcribed modulus against the library (a mismatch is a harness
// configuration error, not a property violation).
func mustQ(t testing.TB, what, doc string, lib *big.Int) *big.Int {
	q, ok := new(big.Int).SetString(doc, 10)
	if !ok || !q.ProbablyPrime(32) {
		t.Fatalf("HARNESS: %s: transcribed modulus is not a prime", what)
	}
	if q.Cmp(lib) != 0 {
		t.Fatalf("HARNESS: %s: transcribed modulus %s differs from the library's %s", what, q, lib)
	}
	return q
}

func bigs(v []*big.Int) string {
	s := "["
	for i, e := range v {
		if i > 0 {
			s += " "
		}
		s += e.Text(16)
	}
	return s + "]"
}

func eqBigs(a, b []*big.Int) bool {
	if len(a) != len(b) {
		return false
	}
	for i := range a {
		if a[i].Cmp(b[i]) != 0 {
			return false
		}
	}
	return true
}

// guard runs f and converts a panic into an error string ("must not panic" made readable).
func guard(f func()) (panicked string) {
	defer func() {
		if r := recover(); r != nil {
			panicked = fmt.Sprint(r)
		}
	}()
	f()
	return ""
}
