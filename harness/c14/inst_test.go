// Package c14: algebraic hashes match their specifications and honour streaming semantics.
package c14

import (
	"fmt"
	"math/big"
	"os"
	"regexp"
	"testing"

	"github.com/consensys/gnark-crypto/hash"
	_ "github.com/consensys/gnark-crypto/hash/all"

	"verif/harness/internal/gen"
	"verif/harness/internal/inst"
	"verif/harness/internal/ref"
	"verif/harness/internal/rep"
)

func TestMain(m *testing.M) { rep.Main(m) }

func selected(name string) bool {
	p := os.Getenv("VERIF_INST")
	if p == "" {
		return true
	}
	ok, _ := regexp.MatchString(p, name)
	return ok
}

// ---- type-erased adapters (the generated registry inst_gen_test.go instantiates them) ----------

type felt[E any] interface {
	*E
	SetBigInt(*big.Int) *E
	BigInt(*big.Int) *big.Int
}

type mimcInst struct {
	name, curve          string
	id                   hash.Hash
	blockSize            int
	newDef, newBE, newLE func() hash.StateStorer
	sum                  func([]byte) ([]byte, error)
	consts               func() []big.Int
	modulus              func() *big.Int
}

type p2Perm interface {
	Permute(in []*big.Int) ([]*big.Int, error)
	Compress(l, r []byte) ([]byte, error)
	BlockSize() int
}

type permLib[E any] interface {
	Permutation([]E) error
	Compress(l, r []byte) ([]byte, error)
	BlockSize() int
}

type permAd[E any, PE felt[E], P permLib[E]] struct{ p P }

func (a permAd[E, PE, P]) Permute(in []*big.Int) ([]*big.Int, error) {
	v := make([]E, len(in))
	for i := range in {
		PE(&v[i]).SetBigInt(in[i])
	}
	if err := a.p.Permutation(v); err != nil {
		return nil, err
	}
	out := make([]*big.Int, len(v))
	for i := range v {
		out[i] = PE(&v[i]).BigInt(new(big.Int))
	}
	return out, nil
}
func (a permAd[E, PE, P]) Compress(l, r []byte) ([]byte, error) { return a.p.Compress(l, r) }
func (a permAd[E, PE, P]) BlockSize() int                       { return a.p.BlockSize() }

func rkBig[E any, PE felt[E]](rk [][]E) [][]*big.Int {
	out := make([][]*big.Int, len(rk))
	for i := range rk {
		out[i] = make([]*big.Int, len(rk[i]))
		for j := range rk[i] {
			out[i][j] = PE(&rk[i][j]).BigInt(new(big.Int))
		}
	}
	return out
}

type p2Inst struct {
	name, field string
	id          hash.Hash
	modulus     func() *big.Int
	degree      func() int
	newPerm     func(t, rf, rp int) p2Perm
	newPermSeed func(t, rf, rp int, seed string) p2Perm
	newMD       func() hash.StateStorer
	roundKeys   func(t, rf, rp int, seed string, withSeed bool) (string, [][]*big.Int)
	defaults    func() (int, int, int, [][]*big.Int)
}

type sisLib interface {
	Hash(v []*big.Int, resLen int) ([]*big.Int, error)
	Key() [][]*big.Int
	Degree() int
	LogBound() int
}

type sisAd[E any, PE felt[E]] struct {
	hash     func(v, res []E) error
	key      [][]E
	degree   int
	logBound int
}

func (a sisAd[E, PE]) Hash(v []*big.Int, resLen int) ([]*big.Int, error) {
	in := make([]E, len(v))
	for i := range v {
		PE(&in[i]).SetBigInt(v[i])
	}
	res := make([]E, resLen)
	for i := range res { // poison: Hash must overwrite, not accumulate
		PE(&res[i]).SetBigInt(big.NewInt(0xdead + int64(i)))
	}
	if err := a.hash(in, res); err != nil {
		return nil, err
	}
	// the input must not be modified
	for i := range v {
		if PE(&in[i]).BigInt(new(big.Int)).Cmp(v[i]) != 0 {
			return nil, fmt.Errorf("HARNESS: sis.Hash modified its input at %d", i)
		}
	}
	out := make([]*big.Int, len(res))
	for i := range res {
		out[i] = PE(&res[i]).BigInt(new(big.Int))
	}
	return out, nil
}
func (a sisAd[E, PE]) Key() [][]*big.Int { return rkBig[E, PE](a.key) }
func (a sisAd[E, PE]) Degree() int       { return a.degree }
func (a sisAd[E, PE]) LogBound() int     { return a.logBound }

type sisInst struct {
	name, field string
	modulus     func() *big.Int
	new         func(seed int64, logDeg, logBound, maxElems int) (sisLib, error)
}

// ---- shared helpers ---------------------------------------------------------------------------

// fieldSpec returns the boundary-lattice generator spec of a field by the name used in inst.Fields().
func fieldSpec(name string) gen.FieldSpec {
	for _, f := range inst.Fields() {
		if f.Name() == name {
			return gen.FieldSpec{Q: f.Q(), NLimbs: f.NLimbs(), LimbBits: f.LimbBits()}
		}
	}
	panic("c14: unknown field " + name)
}

// frName maps a hash package's curve/field name to the inst.Fields() name of its scalar field.
func frName(n string) string {
	switch n {
	case "koalabear", "babybear", "goldilocks":
		return n
	}
	return n + "/fr"
}

func mimcSpec(curve string) ref.MiMCSpec {
	for _, s := range ref.MiMCSpecs {
		if s.Name == curve {
			return s
		}
	}
	panic("c14: no MiMC spec for " + curve)
}

func p2Spec(field string) ref.Poseidon2Spec {
	for _, s := range ref.Poseidon2Specs {
		if s.Name == field {
			return s
		}
	}
	panic("c14: no Poseidon2 spec for " + field)
}

func sisSpec(field string) ref.SISFieldSpec {
	for _, s := range ref.SISFields {
		if s.Name == field {
			return s
		}
	}
	panic("c14: no SIS spec for " + field)
}

// mustQ cross-checks a transcribed modulus against the library (a mismatch is a harness
// configuration error, not a property violation).
func mustQ(t testing.TB, what, doc string, lib *big.Int) *big.Int {
	q, ok := new(big.Int).SetString(doc, 10)
	if !ok || !q.ProbablyPrime(32) {
		t.Fatalf("HARNESS: %s: transcribed modulus is not a prime", what)
	}
	if q.Cmp(lib) != 0 {
		t.Fatalf("HARNESS: %s: transcribed modulus %s differs from the library's %s", what, q, lib)
	}
	return q
}

func bigs(v []*big.Int) string {
	s := "["
	for i, e := range v {
		if i > 0 {
			s += " "
		}
		s += e.Text(16)
	}
	return s + "]"
}

func eqBigs(a, b []*big.Int) bool {
	if len(a) != len(b) {
		return false
	}
	for i := range a {
		if a[i].Cmp(b[i]) != 0 {
			return false
		}
	}
	return true
}

// guard runs f and converts a panic into an error string ("must not panic" made readable).
func guard(f func()) (panicked string) {
	defer func() {
		if r := recover(); r != nil {
			panicked = fmt.Sprint(r)
		}
	}()
	f()
	return ""
}
