package c14

// (2) Streaming semantics: a rapid state machine per hasher against a model that holds the chaining
// value of the admissible input since the last Reset/restore.

import (
	"bytes"
	"fmt"
	"math/big"
	"strings"
	"testing"

	"pgregory.net/rapid"

	"github.com/consensys/gnark-crypto/hash"

	"verif/harness/internal/gen"
	"verif/harness/internal/ref"
	"verif/harness/internal/rep"
)

type ctor struct {
	name string
	le   bool
	new  func() hash.StateStorer
}

// streamInst describes one hasher family for the state machine.
type streamInst struct {
	name       string
	kind       string // "mimc" | "md"
	blockSize  int
	elemBytes  int // a block is blockSize/elemBytes field elements
	fs         gen.FieldSpec
	ctors      []ctor
	iv         []byte
	digestSize int
	// absorb folds one Write argument into the state; ok=false ⇒ the library must return an error.
	absorb func(state, p []byte, le bool) ([]byte, bool)
	// refused describes what a refused Write leaves behind (what the tree documents/does): the new state and
	// the byte count the call reports. MiMC: "do not keep a partially absorbed input" — nothing, n=0.
	// Merkle–Damgård wrapper: the blocks before the refused one are compressed into the state and
	// counted in n (io.Writer: n = bytes written before the error).
	refused func(state, p []byte, le bool) ([]byte, int)
	// validState: SetState of arbitrary bytes is documented (MiMC); nil ⇒ only saved states are restored.
	validState func(b []byte) bool
	// shortTail: a Write may end with a short block after full blocks (Merkle–Damgård wrapper).
	shortTail bool
	mimc      *ref.MiMC
	idName    string // name of the hash.Hash identifier the "registry" constructor goes through
}

func mimcStream(m *mimcInst) *streamInst {
	R := ref.NewMiMC(mimcSpec(m.curve))
	return &streamInst{
		name: m.name, kind: "mimc", blockSize: m.blockSize, elemBytes: m.blockSize, fs: fieldSpec(frName(m.curve)),
		ctors: []ctor{{"default", false, m.newDef}, {"BE", false, m.newBE}, {"LE", true, m.newLE},
			{"registry", false, func() hash.StateStorer { return m.id.New().(hash.StateStorer) }}},
		iv: make([]byte, m.blockSize), digestSize: m.blockSize, mimc: R, idName: m.id.String(),
		absorb: func(state, p []byte, le bool) ([]byte, bool) {
			bl, err := R.Blocks(p, le)
			if err != nil {
				return nil, false
			}
			return R.Bytes(R.Absorb(new(big.Int).SetBytes(state), bl)), true
		},
		refused: func(state, p []byte, le bool) ([]byte, int) { return state, 0 },
		validState: func(b []byte) bool {
			return len(b) == m.blockSize && new(big.Int).SetBytes(b).Cmp(R.F.Q) < 0
		},
	}
}

func mdStream(p *p2Inst) *streamInst {
	spec := p2Spec(p.field)
	R := ref.NewPoseidon2(spec, spec.DefT, spec.DefRF, spec.DefRP)
	bs := R.CompressBlockSize()
	md := &ref.MD{BlockSize: bs, IV: make([]byte, bs), F: R.Compress}
	return &streamInst{
		name: p.name, kind: "md", blockSize: bs, elemBytes: spec.ElemBytes, fs: fieldSpec(frName(p.field)),
		ctors: []ctor{{"direct", false, p.newMD}, {"registry", false, func() hash.StateStorer { return p.id.New().(hash.StateStorer) }}},
		iv:    md.IV, digestSize: bs, shortTail: true, idName: p.id.String(),
		absorb: func(state, w []byte, _ bool) ([]byte, bool) {
			s, err := md.Absorb(state, md.Split(w))
			return s, err == nil
		},
		refused: func(state, w []byte, _ bool) ([]byte, int) {
			s, n := append([]byte{}, state...), 0
			for _, b := range md.Split(w) {
				nx, ok := md.F(s, b)
				if !ok {
					break
				}
				s, n = nx, n+bs
			}
			return s, n
		},
	}
}

func allStreams() []*streamInst {
	var out []*streamInst
	for _, m := range allMiMC {
		if selected(m.name) {
			out = append(out, mimcStream(m))
		}
	}
	for _, p := range allP2 {
		if selected(p.name) {
			out = append(out, mdStream(p))
		}
	}
	return out
}

// block draws one block of canonical elements (or, with bad=true, with one non-canonical element).
func (si *streamInst) block(t *rapid.T, le, bad bool, classes map[string]bool) []byte {
	k := si.blockSize / si.elemBytes
	badAt := -1
	if bad {
		badAt = rapid.IntRange(0, k-1).Draw(t, "badAt")
	}
	var out []byte
	for i := 0; i < k; i++ {
		var v *big.Int
		if i == badAt {
			var c string
			v, c = nonCanonical(t, si.fs, si.elemBytes, "nc")
			classes["noncanonical:"+c] = true
		} else {
			var c string
			v, c = si.fs.Elem(t, "e")
			classes["elem:"+c] = true
		}
		out = append(out, encElem(v, si.elemBytes, le)...)
	}
	return out
}

var poisonPatterns = [][]byte{{0xFF}, {0x00, 0x00, 0x00, 0x01}, {0xA5}, {0x00}}

// withSpare returns p re-allocated as the prefix of a larger array whose tail holds poison.
func withSpare(t *rapid.T, p []byte, blockSize int) (buf []byte, view []byte) {
	extra := rapid.OneOf(rapid.IntRange(1, 3), rapid.IntRange(blockSize-2, blockSize+2), rapid.IntRange(1, 3*blockSize)).Draw(t, "spare")
	if extra < 1 {
		extra = 1
	}
	pat := rapid.SampledFrom(poisonPatterns).Draw(t, "poison")
	buf = make([]byte, len(p)+extra)
	copy(buf, p)
	for i := len(p); i < len(buf); i++ {
		buf[i] = pat[(i-len(p))%len(pat)]
	}
	return buf, buf[:len(p):len(buf)]
}

type machine struct {
	t        *rapid.T
	si       *streamInst
	c        ctor
	h        hash.StateStorer
	state    []byte   // model chaining value
	saved    [][]byte // states obtained through State()
	concat   []byte   // concatenation of the block-aligned writes since the last Reset (nil,false after a restore)
	concatOK bool
	needRst  bool
	log      []string
	classes  map[string]bool
	nWrites  int
	between  bool // a Sum/State/SetState/Reset happened between two writes
	lastWasW bool
	nontriv  bool
	tag      string // instance label in multi-instance histories
	pending  bool   // accepted data since the last Sum/State/SetState/Reset (still buffered in a MiMC hasher)
	keep     *keptSet
}

// kept is a slice the hasher handed out (Sum with any prefix kind, State). It belongs to the caller: no
// later call on this or on any other hasher may change it, and writing to it must not disturb a hasher.
type kept struct {
	live, snap []byte
	what       string
	owner      *machine
	digest     []byte // the owner's digest when the slice was returned
	scribbled  bool
}

type keptSet struct{ items []*kept }

func (k *keptSet) add(it *kept) {
	it.snap = append([]byte{}, it.live...)
	k.items = append(k.items, it)
	if len(k.items) > 12 {
		k.items = k.items[1:]
	}
}

// verifyKept compares every slice handed out earlier (by any instance sharing the set) with its snapshot.
func (m *machine) verifyKept(after string) {
	if m.keep == nil {
		return
	}
	for _, it := range m.keep.items {
		if !bytes.Equal(it.live, it.snap) {
			m.fail("the slice returned earlier by %s on instance %s[%s]%s changed after %s: was %x, now %x (returned slices belong to the caller)",
				it.what, it.owner.si.name, it.owner.c.name, it.owner.tag, after, it.snap, it.live)
		}
	}
}

// scribbleKept overwrites one kept slice and appends to it, then checks that no hasher noticed.
func (m *machine) scribbleKept() {
	if m.keep == nil || len(m.keep.items) == 0 {
		m.t.Skip("nothing kept")
	}
	it := m.keep.items[rapid.IntRange(0, len(m.keep.items)-1).Draw(m.t, "keptIdx")]
	for i := range it.live {
		it.live[i] ^= 0x96
	}
	it.live = append(it.live, bytes.Repeat([]byte{0xEE}, rapid.IntRange(1, 5).Draw(m.t, "app"))...)
	it.snap = append([]byte{}, it.live...)
	it.scribbled = true
	m.logf("scribble(%s of %s)", it.what, it.owner.tag)
	m.classes["returned_scribbled:"+m.si.name] = true
	it.owner.check("after scribbling over / appending to a slice returned by " + it.what)
	if it.owner != m {
		m.check("after scribbling over a slice returned by another instance")
	}
}

func (m *machine) logf(f string, a ...interface{}) { m.log = append(m.log, fmt.Sprintf(f, a...)) }
func (m *machine) fail(f string, a ...interface{}) {
	m.t.Fatalf("%s[%s]%s after {%s}: %s", m.si.name, m.c.name, m.tag, strings.Join(m.log, "; "), fmt.Sprintf(f, a...))
}

func (m *machine) reset() {
	m.h.Reset()
	m.state = append([]byte{}, m.si.iv...)
	m.concat, m.concatOK, m.needRst = nil, true, false
	m.pending = false
	m.logf("Reset")
	m.classes["op:reset"] = true
	m.noteNonWrite()
	m.verifyKept("Reset")
}

func (m *machine) noteNonWrite() {
	if m.lastWasW {
		m.lastWasW = false
	}
	if m.nWrites > 0 {
		m.between = true
	}
}

func (m *machine) ensureDefined() {
	if m.needRst {
		m.reset()
	}
}

// check compares the digest with the model (Sum(nil) must not disturb anything).
func (m *machine) check(why string) {
	if m.needRst {
		return
	}
	var d []byte
	if msg := guard(func() { d = m.h.Sum(nil) }); msg != "" {
		m.fail("%s: Sum(nil) panicked: %s", why, msg)
	}
	if !bytes.Equal(d, m.state) {
		m.fail("%s: Sum(nil) = %x, model digest %x", why, d, m.state)
	}
	m.pending = false
	m.verifyKept("Sum(nil) [" + why + "]")
	if m.keep != nil {
		for _, it := range m.keep.items {
			// an earlier, untouched Sum(nil) result of this hasher survived a Sum(nil) that produced another digest
			if it.owner == m && it.what == "Sum(nil)" && !it.scribbled && !bytes.Equal(it.digest, m.state) {
				m.classes["sum_nil_kept_across_calls:"+m.si.name] = true
			}
		}
	}
}

func (m *machine) maybeCheck() {
	if rapid.IntRange(0, 2).Draw(m.t, "chk") == 0 {
		m.logf("Sum(nil)✓")
		m.check("check")
		m.noteNonWrite()
	}
}

func (m *machine) write() {
	kind := rapid.SampledFrom([]string{"empty", "short", "one", "one", "multi", "multi", "nonmultiple", "noncanonical", "shorttail_or_nonmultiple"}).Draw(m.t, "wkind")
	m.writeKind(kind, true)
}

// refusedMid is the history Write(accepted), Write(refused), Write(accepted), Sum: the refused call happens
// while accepted data is still pending and the stream continues afterwards.
func (m *machine) refusedMid() {
	m.writeKind(rapid.SampledFrom([]string{"one", "multi", "short"}).Draw(m.t, "k1"), false)
	m.writeKind(rapid.SampledFrom([]string{"noncanonical", "noncanonical", "nonmultiple"}).Draw(m.t, "k2"), false)
	m.writeKind(rapid.SampledFrom([]string{"one", "multi"}).Draw(m.t, "k3"), false)
	m.logf("Sum(nil)✓")
	m.check("after Write, refused Write, Write")
}

func (m *machine) writeKind(kind string, mayCheck bool) {
	m.ensureDefined()
	si, t := m.si, m.t
	B := si.blockSize
	var p []byte
	switch kind {
	case "empty":
	case "short":
		n := rapid.IntRange(1, B-1).Draw(t, "n")
		if rapid.Bool().Draw(t, "smallshort") { // a short value that certainly is admissible
			p = make([]byte, n)
			p[n-1] = byte(rapid.IntRange(0, 255).Draw(t, "b"))
			if m.c.le { // left-padded then read little-endian: only the top bytes are set; keep the top byte tiny
				p[n-1] = byte(rapid.IntRange(0, 1).Draw(t, "b"))
			}
		} else {
			p = rapid.SliceOfN(rapid.Byte(), n, n).Draw(t, "bytes")
		}
	case "one":
		p = si.block(t, m.c.le, false, m.classes)
	case "multi":
		k := rapid.IntRange(2, 5).Draw(t, "k")
		for i := 0; i < k; i++ {
			p = append(p, si.block(t, m.c.le, false, m.classes)...)
		}
	case "nonmultiple", "shorttail_or_nonmultiple":
		k := rapid.IntRange(1, 3).Draw(t, "k")
		for i := 0; i < k; i++ {
			p = append(p, si.block(t, m.c.le, false, m.classes)...)
		}
		r := rapid.OneOf(rapid.SampledFrom([]int{1, B - 1, B / 2}), rapid.IntRange(1, B-1)).Draw(t, "r")
		if r < 1 {
			r = 1
		}
		tail := make([]byte, r)
		if kind == "nonmultiple" {
			tail = rapid.SliceOfN(rapid.Byte(), r, r).Draw(t, "tail")
		} else {
			tail[r-1] = 1 // small value: admissible as a left-padded block where short tails are allowed
		}
		p = append(p, tail...)
	case "noncanonical":
		k := rapid.IntRange(1, 4).Draw(t, "k")
		at := rapid.IntRange(0, k-1).Draw(t, "at")
		for i := 0; i < k; i++ {
			p = append(p, si.block(t, m.c.le, i == at, m.classes)...)
		}
	}
	spare := rapid.IntRange(0, 2).Draw(t, "sparecap") == 0
	arg, backing := p, p
	if spare {
		backing, arg = withSpare(t, p, B)
		m.classes["write:spare_capacity_poison"] = true
		m.nontriv = true
	} else {
		// exact capacity: any read past len(p) is an immediate bounds panic
		arg = append(make([]byte, 0, len(p)), p...)
		backing = arg
	}
	before := append([]byte{}, backing...)
	next, ok := si.absorb(m.state, p, m.c.le)
	m.logf("Write(%s len=%d cap=%d %x)", kind, len(arg), cap(arg), trunc(p))
	var n int
	var err error
	if msg := guard(func() { n, err = m.h.Write(arg) }); msg != "" {
		m.fail("Write of %d bytes (cap %d, block %d) panicked: %s", len(arg), cap(arg), B, msg)
	}
	if !bytes.Equal(before, backing) {
		m.fail("Write modified its argument (or the bytes beyond len)")
	}
	m.classes["write:"+kind] = true
	m.classes[fmt.Sprintf("write:admissible=%v", ok)] = true
	if ok {
		if err != nil {
			m.fail("Write rejected admissible input: %v", err)
		}
		if n != len(arg) {
			m.fail("Write returned n=%d for %d admissible bytes (io.Writer: 0 <= n <= len(p), n < len(p) only with an error)", n, len(arg))
		}
		m.state = next
		if len(p) > 0 {
			m.pending = true
		}
		if len(p)%B == 0 && m.concatOK {
			m.concat = append(m.concat, p...)
		} else if len(p)%B != 0 {
			m.concatOK = false
		}
	} else {
		m.nontriv = true
		if err == nil {
			m.fail("Write accepted inadmissible input (kind %s, len %d, block %d), n=%d", kind, len(arg), B, n)
		}
		// the stream continues after a refused call: the model keeps what was accepted
		st, wn := si.refused(m.state, p, m.c.le)
		if n != wn {
			m.fail("refused Write (kind %s, %d bytes) returned n=%d, expected %d (bytes consumed before the refused block)", kind, len(arg), n, wn)
		}
		if m.pending {
			m.classes["refused_write_with_pending_data:"+si.name] = true
		}
		m.state = st
		if wn > 0 {
			m.pending = true
			if m.concatOK {
				m.concat = append(m.concat, p[:wn]...)
			}
		}
		m.logf("→error(n=%d)", n)
	}
	m.nWrites++
	if m.nWrites >= 2 {
		m.nontriv = true
	}
	m.lastWasW = true
	m.verifyKept("Write")
	if ok && mayCheck {
		m.maybeCheck()
	}
}

func trunc(p []byte) []byte {
	if len(p) > 12 {
		return p[:12]
	}
	return p
}

func (m *machine) sum() {
	m.ensureDefined()
	t := m.t
	var prefix, backing []byte
	kind := rapid.SampledFrom([]string{"nil", "nil", "prefix", "prefix_exact", "prefix_block", "prefix_spare"}).Draw(t, "skind")
	switch kind {
	case "prefix_exact": // exact capacity: the append must allocate
		p := rapid.SliceOfN(rapid.Byte(), 1, m.si.blockSize+3).Draw(t, "prefix")
		prefix = append(make([]byte, 0, len(p)), p...)
	case "prefix":
		prefix = rapid.SliceOfN(rapid.Byte(), 1, 2*m.si.blockSize+3).Draw(t, "prefix")
	case "prefix_block": // a prefix that looks like admissible input must not be absorbed either
		prefix = m.si.block(t, m.c.le, false, m.classes)
	case "prefix_spare":
		p := rapid.SliceOfN(rapid.Byte(), 0, m.si.blockSize+3).Draw(t, "prefix")
		backing, prefix = withSpare(t, p, m.si.blockSize+m.si.digestSize)
	}
	if backing == nil {
		backing = prefix
	}
	pre := append([]byte{}, prefix...)
	full := append([]byte{}, backing...)
	m.logf("Sum(%s len=%d cap=%d)", kind, len(prefix), cap(prefix))
	var out []byte
	if msg := guard(func() { out = m.h.Sum(prefix) }); msg != "" {
		m.fail("Sum(prefix of %d bytes) panicked: %s", len(prefix), msg)
	}
	want := append(append([]byte{}, pre...), m.state...)
	if !bytes.Equal(out, want) {
		m.fail("Sum(%x) = %x, want prefix‖digest = %x", pre, out, want)
	}
	// bytes of the caller's array beyond prefix‖digest keep their value
	if len(backing) > len(pre)+m.si.digestSize && !bytes.Equal(backing[len(pre)+m.si.digestSize:], full[len(pre)+m.si.digestSize:]) {
		m.fail("Sum wrote beyond the appended digest in the caller's array")
	}
	// the returned slice is kept: no later call (on any instance) may change it. Half of them are scribbled
	// over right away (the hasher must not notice), the others stay untouched until a later scribble action.
	it := &kept{live: out, what: "Sum(" + kind + ")", owner: m, digest: append([]byte{}, m.state...)}
	if rapid.Bool().Draw(t, "scribbleNow") {
		for i := len(pre); i < len(out); i++ {
			out[i] ^= 0x5A
		}
		it.scribbled = true
		m.classes["returned_scribbled:"+m.si.name] = true
	}
	if m.keep != nil {
		m.keep.add(it)
	}
	m.classes["sum:"+kind] = true
	m.pending = false
	m.noteNonWrite()
	m.check("after Sum (idempotence / non-mutation / no aliasing)")
}

func (m *machine) getState() {
	m.ensureDefined()
	var s []byte
	if msg := guard(func() { s = m.h.State() }); msg != "" {
		m.fail("State() panicked: %s", msg)
	}
	m.logf("State")
	if !bytes.Equal(s, m.state) {
		m.fail("State() = %x, model %x", s, m.state)
	}
	m.saved = append(m.saved, append([]byte{}, s...))
	it := &kept{live: s, what: "State()", owner: m, digest: append([]byte{}, m.state...)}
	if rapid.Bool().Draw(m.t, "scribbleNow") {
		for i := range s { // aliasing
			s[i] ^= 0xC3
		}
		it.scribbled = true
		m.classes["returned_scribbled:"+m.si.name] = true
	}
	if m.keep != nil {
		m.keep.add(it)
	}
	m.classes["op:state"] = true
	m.pending = false
	m.noteNonWrite()
	m.check("after State (returned slice mutated)")
}

func (m *machine) setState() {
	m.ensureDefined()
	t := m.t
	kinds := []string{}
	if len(m.saved) > 0 {
		kinds = append(kinds, "saved", "saved")
	}
	if m.si.validState != nil {
		kinds = append(kinds, "canonical", "bad_length", "noncanonical")
	}
	if len(kinds) == 0 {
		t.Skip("no state to restore")
	}
	kind := rapid.SampledFrom(kinds).Draw(t, "stkind")
	var s []byte
	valid := true
	switch kind {
	case "saved":
		s = append([]byte{}, m.saved[rapid.IntRange(0, len(m.saved)-1).Draw(t, "which")]...)
	case "canonical":
		v, _ := m.si.fs.Elem(t, "st")
		s = encElem(v, m.si.blockSize, false)
	case "bad_length":
		n := rapid.SampledFrom([]int{0, 1, m.si.blockSize - 1, m.si.blockSize + 1, 2 * m.si.blockSize}).Draw(t, "stlen")
		s = make([]byte, n)
		valid = false
	case "noncanonical":
		v, _ := nonCanonical(t, m.si.fs, m.si.blockSize, "stnc")
		s = encElem(v, m.si.blockSize, false)
		valid = false
	}
	if m.si.validState != nil && m.si.validState(s) != valid {
		t.Fatalf("HARNESS: state validity")
	}
	if rapid.IntRange(0, 2).Draw(t, "stspare") == 0 { // the state slice is the prefix of a larger poisoned array
		_, s = withSpare(t, s, m.si.blockSize)
		m.classes["setstate:spare_capacity_poison"] = true
	}
	keep := append([]byte{}, s...)
	m.logf("SetState(%s %x)", kind, trunc(s))
	var err error
	if msg := guard(func() { err = m.h.SetState(s) }); msg != "" {
		m.fail("SetState(%d bytes) panicked: %s", len(s), msg)
	}
	m.classes["setstate:"+kind] = true
	m.noteNonWrite()
	if !valid {
		m.nontriv = true
		if err == nil {
			m.fail("SetState accepted an invalid state (%s)", kind)
		}
		// a refused SetState leaves the hasher as it was (the element is decoded before anything is assigned)
		m.check("after a refused SetState")
		return
	}
	if err != nil {
		m.fail("SetState rejected a valid state: %v", err)
	}
	if !bytes.Equal(s, keep) {
		m.fail("SetState modified its argument")
	}
	m.state = keep
	m.concat, m.concatOK = nil, false
	m.pending = false
	for i := range s { // aliasing: the hasher must have copied
		s[i] ^= 0x3C
	}
	m.check("after SetState (argument mutated afterwards)")
}

func (m *machine) writeString() {
	ws, ok := m.h.(interface{ WriteString([]byte) error })
	if !ok || m.si.mimc == nil {
		m.t.Skip("no WriteString")
	}
	m.ensureDefined()
	raw := rapid.SliceOfN(rapid.Byte(), 0, 70).Draw(m.t, "raw")
	if rapid.Bool().Draw(m.t, "rawspare") {
		_, raw = withSpare(m.t, raw, m.si.blockSize)
	}
	m.logf("WriteString(%x)", trunc(raw))
	var err error
	if msg := guard(func() { err = ws.WriteString(raw) }); msg != "" {
		m.fail("WriteString panicked: %s", msg)
	}
	if err != nil {
		m.fail("WriteString: %v", err)
	}
	R := m.si.mimc
	m.state = R.Bytes(R.Absorb(new(big.Int).SetBytes(m.state), []*big.Int{R.StringElement(raw)}))
	m.concatOK = false
	m.classes["op:writestring"] = true
	m.nWrites++
	m.lastWasW = true
	m.pending = true
	m.verifyKept("WriteString")
	m.maybeCheck()
}

// resplit feeds the block-aligned input since the last Reset to a fresh hasher (possibly built
// through another constructor with the same byte order) in a different split and compares digests.
func (m *machine) resplit() {
	if m.needRst || !m.concatOK {
		m.t.Skip("nothing to re-split")
	}
	t := m.t
	var cands []ctor
	for _, c := range m.si.ctors {
		if c.le == m.c.le {
			cands = append(cands, c)
		}
	}
	c2 := rapid.SampledFrom(cands).Draw(t, "ctor2")
	h2 := c2.new()
	nb := len(m.concat) / m.si.blockSize
	pos := 0
	var cuts []int
	for pos < nb {
		k := rapid.IntRange(1, nb-pos).Draw(t, "cut")
		if rapid.IntRange(0, 3).Draw(t, "emptyw") == 0 {
			h2.Write(nil)
		}
		n, err := h2.Write(m.concat[pos*m.si.blockSize : (pos+k)*m.si.blockSize])
		if err != nil || n != k*m.si.blockSize {
			m.fail("re-split through %s: Write(%d blocks) = %d, %v", c2.name, k, n, err)
		}
		cuts = append(cuts, k)
		pos += k
	}
	d := h2.Sum(nil)
	m.logf("resplit(%s %v)", c2.name, cuts)
	if !bytes.Equal(d, m.state) {
		m.fail("digest depends on the write split / constructor: %s with cuts %v gives %x, model %x", c2.name, cuts, d, m.state)
	}
	m.classes["op:resplit"] = true
	if c2.name != m.c.name {
		m.classes["resplit:other_ctor"] = true
	}
	m.check("after resplit")
}

func TestC14_Stream(t *testing.T) {
	for _, si := range allStreams() {
		si := si
		t.Run(strings.ReplaceAll(si.name, "/", "_"), func(t *testing.T) {
			test := "C14_Stream/" + si.name
			// the construction itself: block and digest sizes
			for _, c := range si.ctors {
				h := c.new()
				if h.BlockSize() != si.blockSize || h.Size() != si.digestSize {
					t.Fatalf("%s[%s]: BlockSize()=%d Size()=%d, want %d and %d", si.name, c.name, h.BlockSize(), h.Size(), si.blockSize, si.digestSize)
				}
			}
			rapid.Check(t, func(t *rapid.T) {
				c := rapid.SampledFrom(si.ctors).Draw(t, "ctor")
				m := &machine{t: t, si: si, c: c, h: c.new(), state: append([]byte{}, si.iv...), concatOK: true, classes: map[string]bool{"ctor:" + c.name: true}, keep: &keptSet{}}
				m.check("fresh hasher")
				t.Repeat(map[string]func(*rapid.T){
					"Write":       func(*rapid.T) { m.write() },
					"Write2":      func(*rapid.T) { m.write() },
					"Sum":         func(*rapid.T) { m.sum() },
					"Reset":       func(*rapid.T) { m.ensureDefinedNoop(); m.reset(); m.maybeCheck() },
					"State":       func(*rapid.T) { m.getState() },
					"SetState":    func(*rapid.T) { m.setState() },
					"WriteString": func(*rapid.T) { m.writeString() },
					"Resplit":     func(*rapid.T) { m.resplit() },
					"RefusedMid":  func(*rapid.T) { m.refusedMid() },
					"Scribble":    func(*rapid.T) { m.scribbleKept() },
				})
				if m.needRst {
					m.reset()
				}
				m.check("end of history")
				var cl []string
				for k := range m.classes {
					cl = append(cl, k)
				}
				rep.Case(test, si.name+"["+c.name+"] "+strings.Join(m.log, "; "), m.nontriv || m.between, sorted(cl)...)
			})
		})
	}
}

func (m *machine) ensureDefinedNoop() {}
