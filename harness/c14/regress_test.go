package c14

// Rapid-free regression tests for the defects the C14 checks found on the pinned tree, plus the
// registry check. Each sub-test fails while its defect is present.
//
//   F9   mimc Write: len > BlockSize and not a multiple ⇒ slice past len(p) (panic / over-read);
//        short writes return n = BlockSize > len(p); package-level Sum panics (nil byte order)
//   F10  hash.merkleDamgardHasher: Sum(b) absorbs b and returns the aliased state, State/SetState
//        alias, Write returns n > len(p) for a padded tail
//   F61  small-field Poseidon2: Permutation.BlockSize() = one element while Compress needs Width/2
//        elements ⇒ the Merkle–Damgård hashers reject every non-empty Write
//   F62  hash.Hash.Size() reports base-field sizes for curves whose fr is smaller
//   (F63, registrations missing from hash/all, is checked by the overlay test in hash/all)

import (
	"bytes"
	"math/big"
	"testing"

	"github.com/consensys/gnark-crypto/hash"

	"verif/harness/internal/ref"
	"verif/harness/internal/rep"
)

func TestC14_Regress(t *testing.T) {
	const T = "C14_Regress"
	for _, m := range allMiMC {
		m := m
		R := ref.NewMiMC(mimcSpec(m.curve))
		B := m.blockSize
		t.Run("F9_write_nonmultiple_exact_capacity/"+m.curve, func(t *testing.T) {
			for _, n := range []int{B + 1, 2*B - 1, 2*B + 7} {
				h := m.newDef()
				p := make([]byte, n, n)
				var err error
				if msg := guard(func() { _, err = h.Write(p) }); msg != "" {
					t.Fatalf("Write(len=%d cap=%d) panicked: %s", n, n, msg)
				}
				if err == nil {
					t.Fatalf("Write(len=%d) accepted a length that is not a multiple of %d", n, B)
				}
				rep.Count(T, "F9_exact_capacity", 1, 1, m.name)
			}
		})
		t.Run("F9_write_nonmultiple_spare_capacity/"+m.curve, func(t *testing.T) {
			h := m.newDef()
			buf := make([]byte, 2*B)
			for i := B + 8; i < len(buf); i++ {
				buf[i] = 0x01 // poison that would parse as a canonical element together with the tail
			}
			_, err := h.Write(buf[:B+8])
			if err == nil {
				t.Fatalf("Write(len=%d cap=%d) accepted the input", B+8, 2*B)
			}
			h.Reset()
			if d := h.Sum(nil); !bytes.Equal(d, make([]byte, B)) {
				t.Fatalf("digest after error+Reset = %x, want the initial digest", d)
			}
			// a failed Write is not partially absorbed (first block canonical, second not)
			h2 := m.newDef()
			one := encElem(big.NewInt(1), B, false)
			bad := bytes.Repeat([]byte{0xFF}, B)
			if _, err := h2.Write(append(append([]byte{}, one...), bad...)); err == nil {
				t.Fatalf("non-canonical second block accepted")
			}
			if d := h2.Sum(nil); !bytes.Equal(d, make([]byte, B)) {
				t.Fatalf("a rejected Write left data behind: digest %x", d)
			}
			rep.Count(T, "F9_spare_capacity", 2, 2, m.name)
		})
		t.Run("F9_short_write_n/"+m.curve, func(t *testing.T) {
			h := m.newDef()
			n, err := h.Write([]byte{7})
			if err != nil || n != 1 {
				t.Fatalf("Write(1 byte) = (%d, %v), want (1, nil)", n, err)
			}
			want := R.Bytes(R.Hash([]*big.Int{big.NewInt(7)}))
			if d := h.Sum(nil); !bytes.Equal(d, want) {
				t.Fatalf("digest of the left-padded short value: %x want %x", d, want)
			}
			rep.Count(T, "F9_short_write_n", 1, 1, m.name)
		})
		t.Run("F9_package_sum/"+m.curve, func(t *testing.T) {
			msg := encElem(big.NewInt(3), B, false)
			var d []byte
			var err error
			if p := guard(func() { d, err = m.sum(msg) }); p != "" {
				t.Fatalf("mimc.Sum(one block) panicked: %s", p)
			}
			want := R.Bytes(R.Hash([]*big.Int{big.NewInt(3)}))
			if err != nil || !bytes.Equal(d, want) {
				t.Fatalf("mimc.Sum = %x, %v want %x", d, err, want)
			}
			rep.Count(T, "F9_package_sum", 1, 1, m.name)
		})
	}

	for _, p := range allP2 {
		p := p
		si := mdStream(p)
		B := si.blockSize
		one := make([]byte, B)
		one[B-1] = 1
		t.Run("F61_F10_md_write_one_block/"+p.field, func(t *testing.T) {
			h := p.newMD()
			if h.BlockSize() != B || h.Size() != B {
				t.Fatalf("BlockSize()=%d Size()=%d, want %d (the size of a Compress operand)", h.BlockSize(), h.Size(), B)
			}
			n, err := h.Write(one)
			if err != nil || n != B {
				t.Fatalf("Write(one block) = (%d, %v)", n, err)
			}
			want, ok := si.absorb(si.iv, one, false)
			if d := h.Sum(nil); !ok || !bytes.Equal(d, want) {
				t.Fatalf("digest %x want %x", d, want)
			}
			rep.Count(T, "F61_md_one_block", 1, 1, p.name)
		})
		t.Run("F10_sum_prefix/"+p.field, func(t *testing.T) {
			h := p.newMD()
			h.Write(one)
			d := append([]byte{}, h.Sum(nil)...)
			got := h.Sum([]byte{1, 2, 3})
			if !bytes.Equal(got, append([]byte{1, 2, 3}, d...)) {
				t.Fatalf("Sum(010203) = %x, want 010203‖%x", got, d)
			}
			if d2 := h.Sum(nil); !bytes.Equal(d2, d) {
				t.Fatalf("Sum(prefix) changed the state: %x → %x", d, d2)
			}
			rep.Count(T, "F10_sum_prefix", 1, 1, p.name)
		})
		t.Run("F10_aliasing/"+p.field, func(t *testing.T) {
			h := p.newMD()
			d := h.Sum(nil)
			for i := range d {
				d[i] = 0xEE
			}
			h.Reset()
			if d2 := h.Sum(nil); !bytes.Equal(d2, make([]byte, B)) {
				t.Fatalf("scribbling over Sum(nil) of a fresh hasher corrupted the initial state: %x", d2)
			}
			h.Write(one)
			want := append([]byte{}, h.Sum(nil)...)
			s := h.State()
			for i := range s {
				s[i] ^= 0xFF
			}
			if d2 := h.Sum(nil); !bytes.Equal(d2, want) {
				t.Fatalf("State() aliases the internal state")
			}
			s2 := append([]byte{}, want...)
			if err := h.SetState(s2); err != nil {
				t.Fatal(err)
			}
			for i := range s2 {
				s2[i] ^= 0xFF
			}
			if d2 := h.Sum(nil); !bytes.Equal(d2, want) {
				t.Fatalf("SetState keeps the caller's slice")
			}
			rep.Count(T, "F10_aliasing", 3, 3, p.name)
		})
		t.Run("F10_short_tail_n/"+p.field, func(t *testing.T) {
			h := p.newMD()
			n, err := h.Write([]byte{1})
			if err != nil || n != 1 {
				t.Fatalf("Write(1 byte) = (%d, %v), want (1, nil)", n, err)
			}
			rep.Count(T, "F10_short_tail_n", 1, 1, p.name)
		})
	}
}

// TestC14_Registry: every identifier of hash.Hash constructs the function its name says, with the
// documented digest size. (This binary imports every hash package, so all ids must be available;
// what hash/all alone registers is checked by the overlay test.)
func TestC14_Registry(t *testing.T) {
	const T = "C14_Registry"
	names := map[hash.Hash]string{}
	for _, m := range allMiMC {
		names[m.id] = "MIMC_" + hid(m.curve)
	}
	for _, p := range allP2 {
		names[p.id] = "POSEIDON2_" + hid(p.field)
	}
	n := 0
	for id := hash.Hash(0); id.String() != "unknown hash function"; id++ {
		n++
		want, ok := names[id]
		if !ok || id.String() != want {
			t.Fatalf("hash id %d: String() = %q, registry of this check says %q", id, id.String(), want)
		}
		if !id.Available() {
			t.Fatalf("%s: not available although its package is imported", id)
		}
		h := id.New()
		d := h.Sum(nil)
		if id.Size() != h.Size() || id.Size() != len(d) {
			t.Fatalf("%s: Hash.Size() = %d, hasher.Size() = %d, len(digest) = %d (doc: \"Size returns the size of the digest of the corresponding hash function\")", id, id.Size(), h.Size(), len(d))
		}
		if _, ok := h.(hash.StateStorer); !ok {
			t.Fatalf("%s: registry hasher is not a StateStorer", id)
		}
		rep.Count(T, "id", 1, 1, id.String())
	}
	if n != len(allMiMC)+len(allP2) {
		t.Fatalf("%d hash ids, %d instances known to this check — a hash was added: extend the C14 registry", n, len(allMiMC)+len(allP2))
	}
	bad := hash.Hash(1 << 20)
	if bad.Available() {
		t.Fatalf("unknown id reported available")
	}
	if msg := guard(func() { bad.New() }); msg == "" {
		t.Fatalf("New() of an unregistered id did not panic (documented)")
	}
	rep.Count(T, "unknown_id", 1, 1, "id 2^20")
}

func hid(n string) string {
	out := []byte(n)
	for i, c := range out {
		switch {
		case c == '-':
			out[i] = '_'
		case c >= 'a' && c <= 'z':
			out[i] = c - 32
		}
	}
	return string(out)
}
