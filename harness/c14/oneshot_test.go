package c14

import (
	"bytes"
	"fmt"
	"math/big"
	"strings"
	"testing"

	"pgregory.net/rapid"

	"github.com/consensys/gnark-crypto/hash"

	"verif/harness/internal/gen"
	"verif/harness/internal/ref"
	"verif/harness/internal/rep"
)

// ---- generators -------------------------------------------------------------------------------

// encElem encodes v on n bytes, big or little endian.
func encElem(v *big.Int, n int, le bool) []byte {
	b := v.FillBytes(make([]byte, n))
	if le {
		for i, j := 0, len(b)-1; i < j; i, j = i+1, j-1 {
			b[i], b[j] = b[j], b[i]
		}
	}
	return b
}

// nonCanonical draws an integer in [q, 2^(8n)).
func nonCanonical(t *rapid.T, s gen.FieldSpec, n int, label string) (*big.Int, string) {
	top := new(big.Int).Lsh(big.NewInt(1), uint(8*n))
	var v *big.Int
	var c string
	switch rapid.IntRange(0, 5).Draw(t, label+"nc") {
	case 0:
		v, c = new(big.Int).Set(s.Q), "q"
	case 1:
		v, c = new(big.Int).Add(s.Q, big.NewInt(1)), "q+1"
	case 2:
		v, c = new(big.Int).Sub(top, big.NewInt(1)), "2^8n-1"
	case 3:
		e, _ := s.Elem(t, label+"nce")
		v, c = e.Add(e, s.Q), "q+elem"
	case 4:
		v, c = new(big.Int).Add(s.Q, big.NewInt(int64(rapid.IntRange(2, 300).Draw(t, label+"ncs")))), "q+small"
	default: // uniform in [q, 2^8n)
		span := new(big.Int).Sub(top, s.Q)
		r := new(big.Int).SetBytes(rapid.SliceOfN(rapid.Byte(), n+8, n+8).Draw(t, label+"ncu"))
		v, c = r.Mod(r, span).Add(r, s.Q), "uniform>=q"
	}
	if v.Cmp(top) >= 0 { // q+elem may overflow the encoding: fold back into [q, 2^8n)
		v.Sub(v, s.Q)
		if v.Cmp(s.Q) < 0 {
			v.Set(s.Q)
		}
	}
	return v, c
}

// ---- (1) MiMC one-shot digests ------------------------------------------------------------------

func forMiMC(t *testing.T, body func(t *testing.T, m *mimcInst)) {
	for _, m := range allMiMC {
		if !selected(m.name) {
			continue
		}
		m := m
		t.Run(strings.ReplaceAll(m.name, "/", "_"), func(t *testing.T) { body(t, m) })
	}
}

func TestC14_MiMC_OneShot(t *testing.T) {
	forMiMC(t, func(t *testing.T, m *mimcInst) {
		spec := mimcSpec(m.curve)
		mustQ(t, m.name, spec.Q, m.modulus())
		R := ref.NewMiMC(spec)
		fs := fieldSpec(frName(m.curve))
		test := "C14_MiMC_OneShot/" + m.name
		if m.blockSize != spec.BlockSize {
			t.Fatalf("%s: BlockSize = %d, documented element size %d", m.name, m.blockSize, spec.BlockSize)
		}
		// exported constants (GetConstants "exposed to be used in gnark") = the documented derivation
		lc := m.consts()
		if len(lc) != len(R.C) {
			t.Fatalf("%s: %d round constants, documented number of rounds %d", m.name, len(lc), len(R.C))
		}
		for i := range lc {
			if lc[i].Cmp(R.C[i]) != 0 {
				t.Fatalf("%s: round constant %d = %s, Keccak derivation from %q gives %s", m.name, i, lc[i].Text(16), spec.Seed, R.C[i].Text(16))
			}
		}
		rep.Count(test, "constants", int64(len(lc)), 0, fmt.Sprintf("%s: %d constants", m.name, len(lc)))

		rapid.Check(t, func(t *rapid.T) {
			ctor := rapid.SampledFrom([]string{"default", "BE", "LE", "registry"}).Draw(t, "ctor")
			le := ctor == "LE"
			var h hash.StateStorer
			switch ctor {
			case "default":
				h = m.newDef()
			case "BE":
				h = m.newBE()
			case "LE":
				h = m.newLE()
			default:
				h = m.id.New().(hash.StateStorer)
			}
			n := rapid.OneOf(rapid.IntRange(0, 4), rapid.IntRange(0, rep.Scale(24, 200))).Draw(t, "n")
			var blocks []*big.Int
			var msg []byte
			classes := map[string]bool{"ctor:" + ctor: true}
			key := m.name + " " + ctor
			for i := 0; i < n; i++ {
				v, c := fs.Elem(t, fmt.Sprintf("b%d", i))
				blocks = append(blocks, v)
				msg = append(msg, encElem(v, m.blockSize, le)...)
				classes["elem:"+c] = true
				key += " " + v.Text(16)
			}
			switch {
			case n == 0:
				classes["blocks:0"] = true
			case n == 1:
				classes["blocks:1"] = true
			case n <= 4:
				classes["blocks:2-4"] = true
			default:
				classes["blocks:>4"] = true
			}
			want := R.Bytes(R.Hash(blocks))
			// the reference parser must agree with the constructed block list
			if pb, err := R.Blocks(msg, le); err != nil || !eqBigs(pb, blocks) {
				t.Fatalf("HARNESS: reference block parser disagrees with the constructed message")
			}
			backing := msg
			if rapid.Bool().Draw(t, "spare") { // the message is the prefix of a larger array with a poisoned tail
				backing, msg = withSpare(t, msg, m.blockSize)
				classes["mimc:spare_capacity_poison"] = true
			}
			in := append([]byte{}, backing...)
			wn, err := h.Write(msg)
			if err != nil || wn != len(msg) {
				t.Fatalf("%s: Write(%d canonical blocks) = (%d, %v), want (%d, nil)", key, n, wn, err, len(msg))
			}
			if !bytes.Equal(in, backing) {
				t.Fatalf("%s: Write modified its argument (or the bytes beyond len)", key)
			}
			got := h.Sum(nil)
			if !bytes.Equal(got, want) {
				t.Fatalf("%s: digest %x, reference (Miyaguchi–Preneel, x^%d, %d rounds) %x", key, got, spec.D, spec.Rounds, want)
			}
			if h.Size() != m.blockSize || h.BlockSize() != m.blockSize {
				t.Fatalf("%s: Size()=%d BlockSize()=%d want %d", key, h.Size(), h.BlockSize(), m.blockSize)
			}
			if !le { // the package-level Sum is the big-endian one-shot
				s, err := m.sum(msg)
				if err != nil || !bytes.Equal(s, want) {
					t.Fatalf("%s: package Sum = %x, %v; reference %x", key, s, err, want)
				}
			}
			// digest is a canonical element
			if new(big.Int).SetBytes(got).Cmp(R.F.Q) >= 0 {
				t.Fatalf("%s: digest %x is not a canonical element", key, got)
			}
			var cl []string
			for c := range classes {
				cl = append(cl, c)
			}
			rep.Case(test, key, true, sorted(cl)...)
		})
	})
}

func sorted(s []string) []string {
	for i := 1; i < len(s); i++ {
		for j := i; j > 0 && s[j] < s[j-1]; j-- {
			s[j], s[j-1] = s[j-1], s[j]
		}
	}
	return s
}

// ---- (4) Poseidon2 permutation / compression / parameters --------------------------------------

func forP2(t *testing.T, body func(t *testing.T, p *p2Inst)) {
	for _, p := range allP2 {
		if !selected(p.name) {
			continue
		}
		p := p
		t.Run(strings.ReplaceAll(p.name, "/", "_"), func(t *testing.T) { body(t, p) })
	}
}

func TestC14_Poseidon2_Perm(t *testing.T) {
	forP2(t, func(t *testing.T, pi *p2Inst) {
		spec := p2Spec(pi.field)
		q := mustQ(t, pi.name, spec.Q, pi.modulus())
		fs := fieldSpec(frName(pi.field))
		test := "C14_Poseidon2_Perm/" + pi.name
		if pi.degree() != spec.D {
			t.Fatalf("%s: DegreeSBox() = %d, documented %d", pi.name, pi.degree(), spec.D)
		}
		// default parameters
		dt, drf, drp, drk := pi.defaults()
		if dt != spec.DefT || drf != spec.DefRF || drp != spec.DefRP {
			t.Fatalf("%s: default parameters (%d,%d,%d), documented (%d,%d,%d)", pi.name, dt, drf, drp, spec.DefT, spec.DefRF, spec.DefRP)
		}
		if !eqKeys(drk, ref.Poseidon2RoundKeys(q, spec.SeedString(dt, drf, drp), dt, drf, drp)) {
			t.Fatalf("%s: default round keys differ from the Keccak derivation of %q", pi.name, spec.SeedString(dt, drf, drp))
		}
		// the parameter sets with a vectorised fast path must be hit often
		fast := [][3]int{{spec.DefT, spec.DefRF, spec.DefRP}}
		switch pi.field {
		case "koalabear":
			fast = append(fast, [3]int{24, 6, 21})
		case "babybear":
			fast = append(fast, [3]int{24, 8, 21})
		case "goldilocks":
			fast = append(fast, [3]int{12, 6, 17})
		default:
			fast = append(fast, [3]int{3, 8, 56})
		}

		rapid.Check(t, func(t *rapid.T) {
			var w, rf, rp int
			cls := []string{}
			switch rapid.IntRange(0, 9).Draw(t, "pk") {
			case 0: // width the constructor documents as unsupported: panic expected, nothing else
				w = rapid.SampledFrom([]int{0, 1, 4, 5, 8, 12, 16, 20, 24, 32, -1}).Draw(t, "badw")
				if spec.Supports(w) {
					w++
				}
				msg := guard(func() { pi.newPerm(w, 6, 10) })
				if msg == "" {
					t.Fatalf("%s: NewPermutation(%d,…) did not panic although the width is documented as unsupported", pi.name, w)
				}
				msg = guard(func() { pi.newPermSeed(w, 6, 10, "s") })
				if msg == "" {
					t.Fatalf("%s: NewPermutationWithSeed(%d,…) did not panic", pi.name, w)
				}
				rep.Case(test, fmt.Sprintf("%s badwidth %d", pi.name, w), true, "unsupported_width")
				return
			case 1, 2, 3:
				f := fast[rapid.IntRange(0, len(fast)-1).Draw(t, "fast")]
				w, rf, rp = f[0], f[1], f[2]
				cls = append(cls, "params:default_or_fastpath")
			default:
				w = rapid.SampledFrom(spec.Widths).Draw(t, "w")
				rf = 2 * rapid.IntRange(0, 5).Draw(t, "rf2")
				rp = rapid.OneOf(rapid.IntRange(0, 3), rapid.IntRange(0, 60)).Draw(t, "rp")
				cls = append(cls, "params:generated")
				if rp == 0 {
					cls = append(cls, "rp=0")
				}
				if rf == 0 {
					cls = append(cls, "rf=0")
				}
			}
			seeded := rapid.IntRange(0, 2).Draw(t, "seeded") == 0
			seed := ""
			if seeded {
				seed = rapid.OneOf(rapid.SampledFrom([]string{"", "seed", spec.SeedString(w, rf, rp), "Poseidon2"}), rapid.StringN(0, 40, 64)).Draw(t, "seed")
				cls = append(cls, "seeded")
			} else {
				cls = append(cls, "default_seed")
			}
			var lib p2Perm
			var R *ref.Poseidon2
			if seeded {
				lib, R = pi.newPermSeed(w, rf, rp, seed), ref.NewPoseidon2Seeded(spec, w, rf, rp, seed)
			} else {
				lib, R = pi.newPerm(w, rf, rp), ref.NewPoseidon2(spec, w, rf, rp)
			}
			key := fmt.Sprintf("%s t=%d rf=%d rp=%d seeded=%v seed=%q", pi.name, w, rf, rp, seeded, seed)
			cls = append(cls, fmt.Sprintf("t=%d", w))

			// exported parameters: String() and RoundKeys
			str, rk := pi.roundKeys(w, rf, rp, seed, seeded)
			if str != spec.SeedString(w, rf, rp) {
				t.Fatalf("%s: Parameters.String() = %q, documented form %q", key, str, spec.SeedString(w, rf, rp))
			}
			if !eqKeys(rk, R.RC) {
				t.Fatalf("%s: RoundKeys differ from the Keccak derivation", key)
			}

			// permutation
			in := make([]*big.Int, w)
			for i := range in {
				v, c := fs.Elem(t, fmt.Sprintf("x%d", i))
				in[i] = v
				if i < 3 {
					cls = append(cls, "elem:"+c)
				}
			}
			switch rapid.IntRange(0, 7).Draw(t, "shape") {
			case 0:
				for i := range in {
					in[i] = new(big.Int)
				}
				cls = append(cls, "input:zero")
			case 1:
				for i := range in {
					in[i] = new(big.Int).Sub(q, big.NewInt(1))
				}
				cls = append(cls, "input:all_q-1")
			}
			key += " in=" + bigs(in)
			snapshot := bigs(in)
			// in half of the cases the buffer is the prefix of a larger array whose tail holds poison
			spare := 0
			if rapid.Bool().Draw(t, "spare") {
				spare = rapid.SampledFrom([]int{1, 3, w, 2*w + 1}).Draw(t, "spareN")
				cls = append(cls, "perm:spare_capacity_poison")
			}
			got, err := lib.PermuteSpare(in, spare)
			if err != nil {
				t.Fatalf("%s: Permutation (len %d, cap %d) returned %v", key, w, w+spare, err)
			}
			if bigs(in) != snapshot {
				t.Fatalf("HARNESS: adapter modified the input")
			}
			want := R.Permute(in)
			if !eqBigs(got, want) {
				t.Fatalf("%s: Permutation\n got %s\nwant %s", key, bigs(got), bigs(want))
			}
			// wrong buffer size => ErrInvalidSizebuffer (an error, not a panic). The short/long buffer always lives
			// inside a larger poisoned array, so a kernel that runs over the width regardless of len(input)
			// is observed as a touched tail instead of corrupting the heap of the test process.
			bad := rapid.SampledFrom([]int{0, 1, w - 1, w + 1, 2 * w}).Draw(t, "badlen")
			if bad != w && bad >= 0 {
				short := make([]*big.Int, bad)
				for i := range short {
					short[i] = big.NewInt(int64(i))
				}
				var e2 error
				if msg := guard(func() { _, e2 = lib.PermuteSpare(short, 2*w+8) }); msg != "" {
					t.Fatalf("%s: Permutation on %d elements panicked: %s", key, bad, msg)
				}
				if te, ok := e2.(*tailError); ok {
					t.Fatalf("%s: wrong-size buffer (%d elements, width %d): %s", key, bad, w, te.msg)
				}
				if e2 == nil {
					t.Fatalf("%s: Permutation accepted a buffer of %d elements (width %d)", key, bad, w)
				}
			}

			// compression
			n := w / 2
			bs := R.CompressBlockSize()
			if w%2 == 0 {
				if lib.BlockSize() != bs {
					t.Fatalf("%s: BlockSize() = %d but Compress operands/results are %d bytes (hash.Compressor: \"all the inputs and outputs are of the same size, which is the block size\")", key, lib.BlockSize(), bs)
				}
				l, r := R.EncodeElems(in[:n]), R.EncodeElems(in[n:])
				lb, rb := l, r // backing arrays
				if rapid.Bool().Draw(t, "cspare") {
					lb, l = withSpare(t, l, bs)
					rb, r = withSpare(t, r, bs)
					cls = append(cls, "compress:spare_capacity_poison")
				}
				l0, r0 := append([]byte{}, lb...), append([]byte{}, rb...)
				out, err := lib.Compress(l, r)
				wantC, _ := R.Compress(l, r)
				if err != nil || !bytes.Equal(out, wantC) {
					t.Fatalf("%s: Compress = %x, %v\nwant %x", key, out, err, wantC)
				}
				if !bytes.Equal(lb, l0) || !bytes.Equal(rb, r0) {
					t.Fatalf("%s: Compress modified its operands (or the bytes beyond their length)", key)
				}
				l, r = l[:len(l):len(l)], r[:len(r):len(r)]
				// inadmissible operands => error, never a panic
				bl, br := append([]byte{}, l...), append([]byte{}, r...)
				var what string
				side := rapid.Bool().Draw(t, "side")
				tgt := &bl
				if side {
					tgt = &br
				}
				switch rapid.IntRange(0, 3).Draw(t, "badop") {
				case 0:
					*tgt = (*tgt)[:len(*tgt)-1]
					what = "short"
				case 1:
					*tgt = append(*tgt, 0)
					what = "long"
				case 2:
					*tgt = nil
					what = "nil"
				default:
					i := rapid.IntRange(0, n-1).Draw(t, "bi")
					v, c := nonCanonical(t, fs, spec.ElemBytes, "nc")
					copy((*tgt)[i*spec.ElemBytes:], encElem(v, spec.ElemBytes, false))
					what = "noncanonical:" + c
				}
				cls = append(cls, "compress_bad:"+strings.SplitN(what, ":", 2)[0])
				var e3 error
				var o3 []byte
				if msg := guard(func() { o3, e3 = lib.Compress(bl, br) }); msg != "" {
					t.Fatalf("%s: Compress with a %s operand panicked: %s", key, what, msg)
				}
				if _, ok := R.Compress(bl, br); ok {
					t.Fatalf("HARNESS: reference accepts the bad operand")
				}
				if e3 == nil {
					t.Fatalf("%s: Compress accepted a %s operand (returned %x)", key, what, o3)
				}
			} else {
				var e4 error
				if msg := guard(func() { _, e4 = lib.Compress(make([]byte, spec.ElemBytes), make([]byte, spec.ElemBytes)) }); msg != "" || e4 == nil {
					t.Fatalf("%s: Compress with odd width: panic=%q err=%v, want an error", key, msg, e4)
				}
				cls = append(cls, "compress_odd_width")
			}
			rep.Case(test, key, true, cls...)
		})
	})
}

func eqKeys(a, b [][]*big.Int) bool {
	if len(a) != len(b) {
		return false
	}
	for i := range a {
		if !eqBigs(a[i], b[i]) {
			return false
		}
	}
	return true
}

// ---- (3) ring-SIS ---------------------------------------------------------------------------------

func TestC14_SIS(t *testing.T) {
	for _, si := range allSIS {
		if !selected(si.name) {
			continue
		}
		si := si
		t.Run(strings.ReplaceAll(si.name, "/", "_"), func(t *testing.T) {
			spec := sisSpec(si.field)
			mustQ(t, si.name, spec.Q, si.modulus())
			fs := fieldSpec(frName(si.field))
			test := "C14_SIS/" + si.name
			var okBounds, badBounds []int
			for b := 1; b <= 72; b++ {
				if spec.SISAcceptsBound(b) {
					okBounds = append(okBounds, b)
				} else {
					badBounds = append(badBounds, b)
				}
			}
			rapid.Check(t, func(t *rapid.T) {
				logDeg := rapid.IntRange(1, 9).Draw(t, "logDeg")
				seed := rapid.OneOf(rapid.SampledFrom([]int64{0, 1, 5, -1, 1 << 62, -1 << 63}), rapid.Int64()).Draw(t, "seed")
				if rapid.IntRange(0, 9).Draw(t, "ctor") == 0 {
					b := rapid.SampledFrom(badBounds).Draw(t, "badBound")
					var err error
					if msg := guard(func() { _, err = si.new(seed, logDeg, b, 4) }); msg != "" {
						t.Fatalf("%s: NewRSis(logTwoBound=%d) panicked: %s", si.name, b, msg)
					}
					if err == nil {
						t.Fatalf("%s: NewRSis accepted logTwoBound=%d (documented: multiple of 8, limb size divides the element size, <= min(64, Bits))", si.name, b)
					}
					rep.Case(test, fmt.Sprintf("%s badbound %d", si.name, b), true, "ctor_rejects_bound")
					return
				}
				bound := rapid.SampledFrom(okBounds).Draw(t, "bound")
				// the parameter sets with a dedicated code path (AVX-512 kernel for degree 512 / 16-bit limbs on the
				// 31-bit fields, unrolled FFT for degree 64 / 16-bit limbs on bls12-377) get a quarter of the cases
				fastDeg := 9
				if si.field == "bls12-377" || si.field == "goldilocks" {
					fastDeg = 6
				}
				fastProfile := rapid.IntRange(0, 3).Draw(t, "fastProfile") == 0
				if fastProfile {
					logDeg, bound = fastDeg, 16
				}
				per := 8 * spec.ElemBytes / bound
				d := 1 << logDeg
				// sizes: small (every length is hashed), around one/two/three polynomials, larger
				var maxE int
				mk := rapid.IntRange(0, 5).Draw(t, "maxk")
				if fastProfile && mk < 3 {
					mk = 3 + mk%2
				}
				switch mk {
				case 0:
					maxE = rapid.IntRange(0, 3).Draw(t, "max")
				case 1, 2:
					maxE = rapid.IntRange(1, 24).Draw(t, "max")
				case 3: // around a multiple of the number of elements per polynomial
					k := rapid.IntRange(1, 3).Draw(t, "polys")
					maxE = k*d/per + rapid.IntRange(-1, 1).Draw(t, "off")
					if d < per {
						maxE = k + rapid.IntRange(0, 1).Draw(t, "off2")
					}
				default:
					maxE = rapid.IntRange(0, rep.Scale(3, 6)*d/per+5).Draw(t, "max")
				}
				if maxE < 0 {
					maxE = 0
				}
				if lim := rep.Scale(700, 2048); maxE > lim {
					maxE = lim
				}
				key := fmt.Sprintf("%s seed=%d logDeg=%d bound=%d max=%d", si.name, seed, logDeg, bound, maxE)
				lib, err := si.new(seed, logDeg, bound, maxE)
				if err != nil {
					t.Fatalf("%s: NewRSis: %v", key, err)
				}
				R := ref.NewSIS(spec, seed, logDeg, bound, maxE)
				if lib.Degree() != d || lib.LogBound() != bound {
					t.Fatalf("%s: Degree=%d LogTwoBound=%d", key, lib.Degree(), lib.LogBound())
				}
				if lk := lib.Key(); !eqKeys(lk, R.Key) {
					t.Fatalf("%s: key A (%d polynomials) differs from the documented blake2b derivation (%d polynomials)", key, len(lk), len(R.Key))
				}
				cls := []string{fmt.Sprintf("bound=%d", bound), fmt.Sprintf("logDeg=%d", logDeg)}
				if logDeg == fastDeg && bound == 16 && si.field != "goldilocks" {
					cls = append(cls, "fastpath_params")
				}
				switch {
				case maxE <= 24:
					cls = append(cls, "max<=24")
				case maxE <= 256:
					cls = append(cls, "max<=256")
				default:
					cls = append(cls, "max>256")
				}
				// lengths to hash
				var lens []int
				if maxE <= 24 {
					for l := 0; l <= maxE; l++ {
						lens = append(lens, l)
					}
					cls = append(cls, "every_length")
				} else {
					perPoly := d / per
					cand := []int{0, 1, maxE, maxE - 1, maxE / 2}
					if perPoly >= 1 {
						cand = append(cand, perPoly, perPoly-1, perPoly+1, 2*perPoly, 2*perPoly+1, 255, 256, 257)
					}
					pick := rapid.SliceOfNDistinct(rapid.IntRange(0, len(cand)-1), 2, 4, rapid.ID[int]).Draw(t, "lens")
					for _, i := range pick {
						if cand[i] >= 0 && cand[i] <= maxE {
							lens = append(lens, cand[i])
						}
					}
					lens = append(lens, rapid.IntRange(0, maxE).Draw(t, "len"))
					cls = append(cls, "sampled_lengths")
				}
				shape := rapid.IntRange(0, 5).Draw(t, "shape")
				nonMultiple := false
				spareSeen, sparePartial256, sparePartialPoly := false, false, false
				for _, l := range lens {
					v := make([]*big.Int, l)
					for i := range v {
						switch {
						case shape == 0: // sparse: mostly zero elements (whole zero polynomials are skipped by the library)
							v[i] = new(big.Int)
							if rapid.IntRange(0, 15).Draw(t, "nz") == 0 {
								v[i], _ = fs.Elem(t, "e")
							}
						case shape == 1 && i < l/2: // zero prefix
							v[i] = new(big.Int)
						case l > 64 && shape != 2:
							v[i] = fs.Uniform(t, "u")
						default:
							v[i], _ = fs.Elem(t, "e")
						}
					}
					// in half of the calls the input (and the result) vector is the prefix of a larger array whose
					// tail holds non-zero poison: the digest depends on v[:len(v)] only and the tails stay untouched
					spareIn, spareRes := 0, 0
					if rapid.Bool().Draw(t, "spare") {
						spareIn = rapid.SampledFrom([]int{1, 2, 3, d/per + 1, 255, 256, 300}).Draw(t, "spareIn")
						spareRes = rapid.SampledFrom([]int{0, 1, d}).Draw(t, "spareRes")
						spareSeen = true
						if l%256 != 0 && l > 0 {
							sparePartial256 = true
						}
						if (l*per)%d != 0 {
							sparePartialPoly = true
						}
					}
					got, err := lib.HashSpare(v, d, spareIn, spareRes)
					if err != nil {
						t.Fatalf("%s: Hash(%d elements, cap %d): %v", key, l, l+spareIn, err)
					}
					want, _ := R.Hash(v)
					if !eqBigs(got, want) {
						t.Fatalf("%s: Hash(%d elements) differs from Σ A_i·m_i mod X^%d+1\n in %s\n got %s\nwant %s", key, l, d, bigs(v), bigs(got), bigs(want))
					}
					if (l*per)%d != 0 {
						nonMultiple = true
					}
				}
				cls = append(cls, fmt.Sprintf("shape=%d", shape))
				if spareSeen {
					cls = append(cls, "sis:spare_capacity_poison")
					if sparePartialPoly {
						cls = append(cls, "sis:spare+len_not_multiple_of_poly")
					}
					if logDeg == fastDeg && bound == 16 && si.field != "goldilocks" {
						cls = append(cls, "sis:spare+fastpath_params")
						if sparePartial256 {
							cls = append(cls, "sis:spare+fastpath+len%256!=0")
						}
					}
				}
				// max+1 elements => error; wrong result length => error
				over := make([]*big.Int, maxE+1)
				for i := range over {
					over[i] = big.NewInt(int64(i))
				}
				var e1 error
				if msg := guard(func() { _, e1 = lib.Hash(over, d) }); msg != "" {
					t.Fatalf("%s: Hash(max+1 elements) panicked: %s", key, msg)
				}
				if e1 == nil {
					t.Fatalf("%s: Hash accepted %d elements (max %d)", key, maxE+1, maxE)
				}
				for _, rl := range []int{d - 1, d + 1, 0} {
					var e2 error
					if msg := guard(func() { _, e2 = lib.Hash(nil, rl) }); msg != "" {
						t.Fatalf("%s: Hash with result length %d panicked: %s", key, rl, msg)
					}
					if e2 == nil {
						t.Fatalf("%s: Hash accepted a result vector of length %d (degree %d)", key, rl, d)
					}
				}
				rep.Case(test, key+fmt.Sprintf(" lens=%v shape=%d", lens, shape), nonMultiple || len(lens) > 1, cls...)
			})
		})
	}
}
