package c14

// TestC14_ColdStart: every exported entry point of the hash packages that can be a process's FIRST use
// of its package must already compute the specified function. The round constants / round keys /
// default parameters are initialised lazily (sync.Once, sync.OnceValue); a code path that forgets the
// initialisation is invisible to every test that runs after some other path has done it. Therefore
// each (package, entry) runs in a FRESH child process (this test binary re-executed, entry selected by
// VERIF_COLD): the entry is called cold and its result is compared with the reference model value;
// then the initialisation is forced through the other paths and the entry is called again on equal
// inputs; cold, warm and reference must agree.

import (
	"bytes"
	"context"
	"encoding/hex"
	"fmt"
	stdhash "hash"
	"math/big"
	"os"
	"os/exec"
	"strings"
	"sync"
	"testing"
	"time"

	"verif/harness/internal/ref"
	"verif/harness/internal/rep"
)

type coldEntry struct {
	pkg, name string
	run       func() string // the library call; canonical text of everything it returns
	want      func() string // the reference model value of the same text
	warm      func()        // forces the lazy initialisation through other entry points
}

func hx(b []byte, err error) string {
	if err != nil {
		return "error: " + err.Error()
	}
	return hex.EncodeToString(b)
}

func keysText(rk [][]*big.Int) string {
	var sb strings.Builder
	for _, r := range rk {
		sb.WriteString(bigs(r))
	}
	return sb.String()
}

func coldEntries() []coldEntry {
	var out []coldEntry
	// ---- MiMC -------------------------------------------------------------------------------
	for _, m := range allMiMC {
		m := m
		spec := mimcSpec(m.curve)
		B := m.blockSize
		var R *ref.MiMC // built lazily: the parent only needs the names
		r := func() *ref.MiMC {
			if R == nil {
				R = ref.NewMiMC(spec)
			}
			return R
		}
		q, _ := new(big.Int).SetString(spec.Q, 10)
		blocks := []*big.Int{big.NewInt(5), new(big.Int).Sub(q, big.NewInt(2))}
		msg := func(le bool) []byte {
			return append(encElem(blocks[0], B, le), encElem(blocks[1], B, le)...)
		}
		digest := func() string { return hex.EncodeToString(r().Bytes(r().Hash(blocks))) }
		stream := func(h stdhash.Hash, le bool) string {
			if _, err := h.Write(msg(le)); err != nil {
				return "error: " + err.Error()
			}
			return hex.EncodeToString(h.Sum(nil))
		}
		warm := func() {
			m.consts()
			h := m.newBE()
			h.Write(msg(false))
			h.Sum(nil)
			m.id.New().Sum(nil)
			m.sum(msg(false))
		}
		add := func(name string, run, want func() string) {
			out = append(out, coldEntry{m.name, name, run, want, warm})
		}
		add("Sum", func() string { return hx(m.sum(msg(false))) }, digest)
		add("NewMiMC.Write.Sum", func() string { return stream(m.newDef(), false) }, digest)
		add("NewMiMC(WithByteOrder(BigEndian))", func() string { return stream(m.newBE(), false) }, digest)
		add("NewMiMC(WithByteOrder(LittleEndian))", func() string { return stream(m.newLE(), true) }, digest)
		add("registry.New", func() string { return stream(m.id.New(), false) }, digest)
		add("GetConstants", func() string {
			c := m.consts()
			v := make([]*big.Int, len(c))
			for i := range c {
				v[i] = &c[i]
			}
			return bigs(v)
		}, func() string { return bigs(r().C) })
		add("NewMiMC.SetState.Write.Sum", func() string {
			h := m.newDef()
			if err := h.SetState(encElem(big.NewInt(7), B, false)); err != nil {
				return "error: " + err.Error()
			}
			return stream(h, false)
		}, func() string { return hex.EncodeToString(r().Bytes(r().Absorb(big.NewInt(7), blocks))) })
		add("NewMiMC.Write.State", func() string {
			h := m.newDef()
			h.Write(msg(false))
			return hex.EncodeToString(h.State())
		}, digest)
		add("NewMiMC.WriteString.Sum", func() string {
			h := m.newDef()
			if err := h.(interface{ WriteString([]byte) error }).WriteString([]byte("abc")); err != nil {
				return "error: " + err.Error()
			}
			return hex.EncodeToString(h.Sum(nil))
		}, func() string {
			return hex.EncodeToString(r().Bytes(r().Hash([]*big.Int{r().StringElement([]byte("abc"))})))
		})
	}
	// ---- Poseidon2 --------------------------------------------------------------------------
	for _, p := range allP2 {
		p := p
		spec := p2Spec(p.field)
		t0, rf0, rp0 := spec.DefT, spec.DefRF, spec.DefRP
		var t1, rf1, rp1 int
		switch p.field {
		case "koalabear":
			t1, rf1, rp1 = 24, 6, 21
		case "babybear":
			t1, rf1, rp1 = 24, 8, 21
		case "goldilocks":
			t1, rf1, rp1 = 12, 6, 17
		default:
			t1, rf1, rp1 = 3, 8, 56
		}
		input := func(t int) []*big.Int {
			v := make([]*big.Int, t)
			for i := range v {
				v[i] = big.NewInt(int64(3*i + 1))
			}
			return v
		}
		perm := func(lib p2Perm, t int) string {
			o, err := lib.Permute(input(t))
			if err != nil {
				return "error: " + err.Error()
			}
			return bigs(o)
		}
		block := func(R *ref.Poseidon2) []byte { return R.EncodeElems(input(R.T / 2)) }
		mdWant := func() string {
			R := ref.NewPoseidon2(spec, t0, rf0, rp0)
			md := &ref.MD{BlockSize: R.CompressBlockSize(), IV: make([]byte, R.CompressBlockSize()), F: R.Compress}
			d, err := md.Hash(block(R))
			return hx(d, err)
		}
		mdRun := func(h stdhash.Hash) string {
			R := ref.NewPoseidon2(spec, t0, rf0, rp0)
			if _, err := h.Write(block(R)); err != nil {
				return "error: " + err.Error()
			}
			return hex.EncodeToString(h.Sum(nil))
		}
		warm := func() {
			p.defaults()
			p.newPerm(t0, rf0, rp0).Permute(input(t0))
			p.newPerm(t1, rf1, rp1).Permute(input(t1))
			p.newPerm(t0, 4, 3).Permute(input(t0))
			h := p.newMD()
			h.Write(make([]byte, h.BlockSize()))
			h.Sum(nil)
			p.id.New().Sum(nil)
		}
		add := func(name string, run, want func() string) {
			out = append(out, coldEntry{p.name, name, run, want, warm})
		}
		add(fmt.Sprintf("NewPermutation(%d,%d,%d).Permutation", t0, rf0, rp0),
			func() string { return perm(p.newPerm(t0, rf0, rp0), t0) },
			func() string { return bigs(ref.NewPoseidon2(spec, t0, rf0, rp0).Permute(input(t0))) })
		add(fmt.Sprintf("NewPermutation(%d,%d,%d).Permutation", t1, rf1, rp1),
			func() string { return perm(p.newPerm(t1, rf1, rp1), t1) },
			func() string { return bigs(ref.NewPoseidon2(spec, t1, rf1, rp1).Permute(input(t1))) })
		add(fmt.Sprintf("NewPermutation(%d,4,3).Permutation", t0), // never a vectorised parameter set
			func() string { return perm(p.newPerm(t0, 4, 3), t0) },
			func() string { return bigs(ref.NewPoseidon2(spec, t0, 4, 3).Permute(input(t0))) })
		add("NewPermutationWithSeed.Permutation",
			func() string { return perm(p.newPermSeed(t0, rf0, rp0, "cold"), t0) },
			func() string { return bigs(ref.NewPoseidon2Seeded(spec, t0, rf0, rp0, "cold").Permute(input(t0))) })
		add("NewPermutation.Compress", func() string {
			R := ref.NewPoseidon2(spec, t0, rf0, rp0)
			return hx(p.newPerm(t0, rf0, rp0).Compress(block(R), block(R)))
		}, func() string {
			R := ref.NewPoseidon2(spec, t0, rf0, rp0)
			o, ok := R.Compress(block(R), block(R))
			if !ok {
				return "reference rejects"
			}
			return hex.EncodeToString(o)
		})
		add("NewMerkleDamgardHasher.Write.Sum", func() string { return mdRun(p.newMD()) }, mdWant)
		add("registry.New", func() string { return mdRun(p.id.New()) }, mdWant)
		add("GetDefaultParameters", func() string {
			t, rf, rp, rk := p.defaults()
			return fmt.Sprintf("%d %d %d %s", t, rf, rp, keysText(rk))
		}, func() string {
			return fmt.Sprintf("%d %d %d %s", t0, rf0, rp0, keysText(ref.Poseidon2RoundKeys(spec.Modulus(), spec.SeedString(t0, rf0, rp0), t0, rf0, rp0)))
		})
		add("NewParameters", func() string {
			s, rk := p.roundKeys(t1, rf1, rp1, "", false)
			return s + " " + keysText(rk)
		}, func() string {
			return spec.SeedString(t1, rf1, rp1) + " " + keysText(ref.Poseidon2RoundKeys(spec.Modulus(), spec.SeedString(t1, rf1, rp1), t1, rf1, rp1))
		})
	}
	// ---- ring-SIS -----------------------------------------------------------------------------
	for _, s := range allSIS {
		s := s
		spec := sisSpec(s.field)
		fastDeg, fastMax, fastN := 9, 300, 260
		if s.field == "bls12-377" || s.field == "goldilocks" {
			fastDeg, fastMax, fastN = 6, 12, 11
		}
		input := func(n int) []*big.Int {
			q, _ := new(big.Int).SetString(spec.Q, 10)
			v := make([]*big.Int, n)
			x := big.NewInt(3)
			for i := range v {
				x = new(big.Int).Mod(new(big.Int).Add(new(big.Int).Mul(x, x), big.NewInt(int64(i+1))), q)
				v[i] = x
			}
			return v
		}
		mk := func(logDeg, bound, maxE, n int) (func() string, func() string) {
			return func() string {
					lib, err := s.new(5, logDeg, bound, maxE)
					if err != nil {
						return "error: " + err.Error()
					}
					o, err := lib.Hash(input(n), 1<<logDeg)
					if err != nil {
						return "error: " + err.Error()
					}
					return bigs(o)
				}, func() string {
					o, _ := ref.NewSIS(spec, 5, logDeg, bound, maxE).Hash(input(n))
					return bigs(o)
				}
		}
		warm := func() {
			if lib, err := s.new(1, 2, 8, 4); err == nil {
				lib.Hash(input(3), 4)
			}
			if lib, err := s.new(2, fastDeg, 16, 4); err == nil {
				lib.Hash(input(3), 1<<fastDeg)
			}
		}
		r1, w1 := mk(3, 8, 10, 7)
		out = append(out, coldEntry{s.name, "NewRSis(5,3,8,10).Hash", r1, w1, warm})
		r2, w2 := mk(fastDeg, 16, fastMax, fastN)
		out = append(out, coldEntry{s.name, fmt.Sprintf("NewRSis(5,%d,16,%d).Hash", fastDeg, fastMax), r2, w2, warm})
	}
	return out
}

func coldChild(sel string) {
	for _, e := range coldEntries() {
		if e.pkg+"|"+e.name != sel {
			continue
		}
		call := func() (s string) {
			defer func() {
				if r := recover(); r != nil {
					s = fmt.Sprint("panic: ", r)
				}
			}()
			return e.run()
		}
		cold := call() // must be the first use of the package in this process
		want := e.want()
		e.warm()
		warm := call()
		if cold != want || warm != want {
			trim := func(s string) string {
				if len(s) > 300 {
					return s[:300] + "…"
				}
				return s
			}
			fmt.Printf("COLD-MISMATCH %s\n cold:      %s\n warm:      %s\n reference: %s\n", sel, trim(cold), trim(warm), trim(want))
			os.Exit(1)
		}
		fmt.Println("COLD-OK", sel)
		os.Exit(0)
	}
	fmt.Println("COLD-UNKNOWN", sel)
	os.Exit(3)
}

func TestC14_ColdStart(t *testing.T) {
	if sel := os.Getenv("VERIF_COLD"); sel != "" {
		coldChild(sel)
		return
	}
	entries := coldEntries()
	var wg sync.WaitGroup
	sem := make(chan struct{}, 16)
	var mu sync.Mutex
	for _, e := range entries {
		if !selected(e.pkg) {
			continue
		}
		e := e
		wg.Add(1)
		sem <- struct{}{}
		go func() {
			defer wg.Done()
			defer func() { <-sem }()
			ctx, cancel := context.WithTimeout(context.Background(), 5*time.Minute)
			defer cancel()
			cmd := exec.CommandContext(ctx, os.Args[0], "-test.run=^TestC14_ColdStart$", "-test.count=1")
			cmd.Env = append(os.Environ(), "VERIF_COLD="+e.pkg+"|"+e.name, "VERIF_REPORT=", "VERIF_INST=")
			var buf bytes.Buffer
			cmd.Stdout, cmd.Stderr = &buf, &buf
			err := cmd.Run()
			mu.Lock()
			defer mu.Unlock()
			o := buf.String()
			switch {
			case strings.Contains(o, "COLD-MISMATCH"):
				t.Errorf("%s %s: as the first use of the package in a process the result differs from the specification (lazy initialisation missing on this path):\n%s", e.pkg, e.name, lastLines(o, 5))
			case ctx.Err() != nil:
				t.Errorf("%s %s: cold-start child did not finish within 5 minutes (killed):\n%s", e.pkg, e.name, lastLines(o, 8))
			case err != nil || !strings.Contains(o, "COLD-OK"):
				t.Errorf("%s %s: cold-start child failed (%v):\n%s", e.pkg, e.name, err, lastLines(o, 8))
			}
			rep.Case("C14_ColdStart", e.pkg+" "+e.name, true, "cold_start", "cold_start:"+e.pkg+":"+e.name)
		}()
	}
	wg.Wait()
	if os.Getenv("VERIF_INST") == "" && len(entries) < 8*9+11*9+4*2 {
		t.Errorf("HARNESS: only %d cold-start entries", len(entries))
	}
}

func lastLines(s string, n int) string {
	l := strings.Split(strings.TrimSpace(s), "\n")
	if len(l) > n {
		l = l[len(l)-n:]
	}
	return strings.Join(l, "\n")
}
