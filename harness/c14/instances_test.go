package c14

// Independent instances: "the registry constructs the same functions" — every call of a constructor
// (hash.X.New() for every registered id, and every package constructor) must hand out a hasher of its
// own. Two or three instances are obtained (at least two through the SAME constructor), further ones are
// obtained while the earlier ones hold absorbed data, and Write/Sum/Reset/State/SetState calls with
// different messages are interleaved; each instance must keep producing the digest of its own stream
// according to the reference model.

import (
	"fmt"
	"strings"
	"testing"

	"pgregory.net/rapid"

	"verif/harness/internal/rep"
)

func TestC14_Instances(t *testing.T) {
	for _, si := range allStreams() {
		si := si
		t.Run(strings.ReplaceAll(si.name, "/", "_"), func(t *testing.T) {
			test := "C14_Instances/" + si.name
			rapid.Check(t, func(t *rapid.T) {
				shared := map[string]bool{} // classes of the whole history
				var ms []*machine
				keepAll := &keptSet{} // slices returned by any instance; verified after every call on every instance
				var log []string
				obtain := func(c ctor) *machine {
					m := &machine{t: t, si: si, c: c, h: c.new(), state: append([]byte{}, si.iv...), concatOK: true,
						classes: shared, tag: fmt.Sprintf("#%d", len(ms)), keep: keepAll}
					ms = append(ms, m)
					log = append(log, fmt.Sprintf("#%d=%s()", len(ms)-1, c.name))
					return m
				}
				checkAll := func(why string) {
					for _, m := range ms {
						m.check(why)
					}
				}
				// two instances through the same constructor, the second one possibly after the first absorbed data
				c0 := rapid.SampledFrom(si.ctors).Draw(t, "ctor")
				first := obtain(c0)
				if rapid.Bool().Draw(t, "writeBeforeSecond") {
					first.write()
					shared["instances:second_obtained_after_write"] = true
				}
				obtain(c0)
				checkAll("after obtaining the second instance")
				pick := func() *machine { return ms[rapid.IntRange(0, len(ms)-1).Draw(t, "inst")] }
				act := func(name string, f func(m *machine)) func(*rapid.T) {
					return func(*rapid.T) {
						m := pick()
						f(m)
						log = append(log, fmt.Sprintf("%s.%s", m.tag, name))
						if rapid.Bool().Draw(t, "chkAll") {
							checkAll("after " + name + " on " + m.tag)
						}
					}
				}
				t.Repeat(map[string]func(*rapid.T){
					"Write":      act("Write", func(m *machine) { m.write() }),
					"Write2":     act("Write", func(m *machine) { m.write() }),
					"Sum":        act("Sum", func(m *machine) { m.sum() }),
					"Reset":      act("Reset", func(m *machine) { m.reset() }),
					"State":      act("State", func(m *machine) { m.getState() }),
					"SetState":   act("SetState", func(m *machine) { m.setState() }),
					"RefusedMid": act("RefusedMid", func(m *machine) { m.refusedMid() }),
					"Scribble":   act("Scribble", func(m *machine) { m.scribbleKept() }),
					"New": func(*rapid.T) {
						if len(ms) >= 4 {
							t.Skip("enough instances")
						}
						c := c0
						if rapid.Bool().Draw(t, "otherCtor") {
							c = rapid.SampledFrom(si.ctors).Draw(t, "ctorN")
						}
						obtain(c)
						shared["instances:new_midway"] = true
						checkAll("after obtaining another instance (the earlier ones must be unaffected)")
					},
				})
				for _, m := range ms {
					if m.needRst {
						m.reset()
					}
				}
				checkAll("end of history")
				shared[fmt.Sprintf("instances:n=%d", len(ms))] = true
				if c0.name == "registry" {
					shared["instances:registry:"+si.idName] = true
				} else {
					shared["instances:package_ctor"] = true
					shared["instances:ctor:"+si.name+":"+c0.name] = true
				}
				var cl []string
				for k := range shared {
					if strings.HasPrefix(k, "instances:") || strings.HasPrefix(k, "op:") || strings.HasPrefix(k, "refused_write") ||
						strings.HasPrefix(k, "sum_nil_kept") || strings.HasPrefix(k, "returned_scribbled") {
						cl = append(cl, k)
					}
				}
				rep.Case(test, si.name+" "+strings.Join(log, "; "), true, sorted(cl)...)
			})
		})
	}
}
