package c11

// Serialisation of the multi-point proof objects built on KZG: shplonk.OpeningProof (two G1 points and a
// ragged [][]fr table of claimed values) and fflonk.OpeningProof (a SHPLONK proof plus a [][][]fr table).
// The codec is exercised on arbitrary shapes (including empty and ragged tables), not only on honest proofs:
// WriteTo ∘ ReadFrom is the identity on (points, shape, values), the byte counts are exact, a restored proof
// re-encodes to the same bytes, and the receiver's previous content never survives.

import (
	"bytes"
	"fmt"
	"math/big"
	"reflect"
	"strings"
	"testing"

	"pgregory.net/rapid"

	"verif/harness/internal/inst"
	"verif/harness/internal/reg"
	"verif/harness/internal/rep"
)

// fillTable makes rv (a [][]E or [][][]E slice value) take the drawn shape and values; returns the shape text.
func (c *cx) fillTable(t *rapid.T, rv reflect.Value, depth int, label string, maxOuter, maxInner int) string {
	var sb strings.Builder
	var rec func(v reflect.Value, d int, lab string)
	rec = func(v reflect.Value, d int, lab string) {
		max := maxInner
		if d == depth {
			max = maxOuter
		}
		n := rapid.IntRange(0, max).Draw(t, lab+"_n")
		if n == 0 && rapid.Bool().Draw(t, lab+"_nil") {
			v.Set(reflect.Zero(v.Type()))
			sb.WriteString("[]")
			return
		}
		v.Set(reflect.MakeSlice(v.Type(), n, n))
		sb.WriteString("[")
		for i := 0; i < n; i++ {
			if d > 1 {
				rec(v.Index(i), d-1, fmt.Sprintf("%s_%d", lab, i))
			} else {
				x, _ := c.scalar(t, fmt.Sprintf("%s_%d", lab, i))
				reg.Unflatten(v.Index(i).Addr().Interface(), []*big.Int{x})
				sb.WriteString(hx(x))
			}
			if i+1 < n {
				sb.WriteString(",")
			}
		}
		sb.WriteString("]")
	}
	rec(rv, depth, label)
	return sb.String()
}

// shape renders lengths and values of a nested slice of field elements; nil and empty are the same shape.
func shape(rv reflect.Value) string {
	if rv.Kind() != reflect.Slice {
		return hx(reg.Flatten(rv.Addr().Interface())[0])
	}
	parts := make([]string, rv.Len())
	for i := range parts {
		parts[i] = shape(rv.Index(i))
	}
	return "[" + strings.Join(parts, ",") + "]"
}

// reshapeTable fills dst (a nested slice of field elements of the same type as src) with stale values in
// a shape derived from src: every slice at every level is d shorter ("smaller"), as long ("equal") or d
// longer ("larger") than the corresponding slice of src; slices without a counterpart get length 2.
func reshapeTable(dst, src reflect.Value, rel string, d int) {
	stale := int64(0xbad00)
	var rec func(dv, sv reflect.Value)
	rec = func(dv, sv reflect.Value) {
		if dv.Kind() != reflect.Slice {
			stale++
			reg.Unflatten(dv.Addr().Interface(), []*big.Int{bi(stale)})
			return
		}
		n := 2
		if sv.IsValid() {
			n = sv.Len()
			switch rel {
			case "smaller":
				if n -= d; n < 0 {
					n = 0
				}
			case "larger":
				n += d
			}
		}
		dv.Set(reflect.MakeSlice(dv.Type(), n, n))
		for i := 0; i < n; i++ {
			var child reflect.Value
			if sv.IsValid() && i < sv.Len() {
				child = sv.Index(i)
			}
			rec(dv.Index(i), child)
		}
	}
	rec(dst, src)
}

func (c *cx) setG1(t *rapid.T, dst reflect.Value, label string) string {
	k, _ := c.scalar(t, label)
	if rapid.IntRange(0, 7).Draw(t, label+"_inf") == 0 {
		k = bi(0)
	}
	p := c.k.G1Base(k)
	dst.Set(reflect.ValueOf(p).Elem())
	return hx(k)
}

func propSerialMultiProofs(t *rapid.T, c *cx, which string) {
	pkg := reg.Get("ecc/" + c.name + "/" + which)
	test := "C11_SerialMultiProofs/" + c.name
	rk := rapid.SampledFrom(readerKinds).Draw(t, "reader")
	g1c, frb := inst.FieldByName(c.name+"/fp").Bytes(), c.k.FrBytes()
	mk := func(lab string) (interface{}, string, int) {
		pr := pkg.New("OpeningProof")
		rv := reflect.ValueOf(pr).Elem()
		sp := rv
		if which == "fflonk" {
			sp = rv.FieldByName("SOpeningProof")
		}
		key := "W=" + c.setG1(t, sp.FieldByName("W"), lab+"_W") + " W'=" + c.setG1(t, sp.FieldByName("WPrime"), lab+"_WP")
		key += " S=" + c.fillTable(t, sp.FieldByName("ClaimedValues"), 2, lab+"_S", 4, 4)
		if which == "fflonk" {
			key += " F=" + c.fillTable(t, rv.FieldByName("ClaimedValues"), 3, lab+"_F", 3, 3)
		}
		// documented stream format: a slice is a big-endian uint32 length followed by its items
		var size func(v reflect.Value) int
		size = func(v reflect.Value) int {
			if v.Kind() != reflect.Slice {
				return frb
			}
			n := 4
			for i := 0; i < v.Len(); i++ {
				n += size(v.Index(i))
			}
			return n
		}
		want := 2*g1c + size(sp.FieldByName("ClaimedValues"))
		if which == "fflonk" {
			want += size(rv.FieldByName("ClaimedValues"))
		}
		return pr, key, want
	}
	view := func(pr interface{}) string {
		rv := reflect.ValueOf(pr).Elem()
		sp := rv
		s := ""
		if which == "fflonk" {
			sp = rv.FieldByName("SOpeningProof")
			s = " F=" + shape(rv.FieldByName("ClaimedValues"))
		}
		return fmt.Sprintf("W=%v W'=%v S=%s%s", reg.Flatten(sp.FieldByName("W").Addr().Interface()),
			reg.Flatten(sp.FieldByName("WPrime").Addr().Interface()), shape(sp.FieldByName("ClaimedValues")), s)
	}
	src, key, want := mk("a")
	what := c.name + ": " + which + ".OpeningProof"
	enc := encode(t, what+".WriteTo", src.(writerTo).WriteTo, want)
	// receivers: a fresh one, and used ones whose tables are smaller than, shaped like, and larger than the
	// tables being decoded (every slice at every nesting level shortened / kept / extended), filled with other values
	var recvCls []string
	for i, wantRel := range relations {
		dst := pkg.New("OpeningProof")
		rel := wantRel
		if wantRel != "fresh" {
			d := rapid.IntRange(1, 2).Draw(t, fmt.Sprintf("recv%d_d", i))
			sv, dv := reflect.ValueOf(src).Elem(), reflect.ValueOf(dst).Elem()
			ssp, dsp := sv, dv
			if which == "fflonk" {
				ssp, dsp = sv.FieldByName("SOpeningProof"), dv.FieldByName("SOpeningProof")
				reshapeTable(dv.FieldByName("ClaimedValues"), sv.FieldByName("ClaimedValues"), wantRel, d)
			}
			dsp.FieldByName("W").Set(reflect.ValueOf(c.k.G1Base(bi(77))).Elem())
			dsp.FieldByName("WPrime").Set(reflect.ValueOf(c.k.G1Base(bi(78))).Elem())
			reshapeTable(dsp.FieldByName("ClaimedValues"), ssp.FieldByName("ClaimedValues"), wantRel, d)
			// the relation actually built, measured on the encoded size of the tables
			switch got := encode(t, what+".WriteTo (receiver)", dst.(writerTo).WriteTo, -1); {
			case len(got) < len(enc):
				rel = "smaller"
			case len(got) > len(enc):
				rel = "larger"
			default:
				rel = "equal"
			}
		}
		decode(t, what+".ReadFrom (receiver "+rel+")", rk, dst.(readerFrom).ReadFrom, enc)
		if a, b := view(src), view(dst); a != b {
			t.Fatalf("%s round trip into a %s receiver changed the proof:\n wrote %s\n read  %s", what, rel, a, b)
		}
		if re := encode(t, what+" re-encoding", dst.(writerTo).WriteTo, -1); !bytes.Equal(re, enc) {
			t.Fatalf("%s: re-encoding of the restored proof differs (receiver %s)", what, rel)
		}
		recvCls = append(recvCls, "recv:"+which+".OpeningProof:"+rel)
	}
	cls := append([]string{"serial:" + which + ".OpeningProof", "reader:" + rk}, recvCls...)
	if strings.Contains(key, "[]") {
		cls = append(cls, "table:has_empty")
	}
	rep.Case(test, fmt.Sprintf("%s %s %s reader=%s", c.name, which, key, rk), true, dedup(cls)...)

	// truncation: every proper prefix is an error, never a panic or a silent success
	cut := rapid.IntRange(0, len(enc)-1).Draw(t, "cut")
	tr := pkg.New("OpeningProof")
	n, err := tr.(readerFrom).ReadFrom(bytes.NewReader(enc[:cut]))
	if err == nil {
		t.Fatalf("%s.ReadFrom accepted a %d-byte prefix of a %d-byte encoding", what, cut, len(enc))
	}
	if int(n) > cut {
		t.Fatalf("%s.ReadFrom reports %d bytes read from a %d-byte input", what, n, cut)
	}
	rep.Case(test, fmt.Sprintf("%s %s %s cut=%d", c.name, which, key, cut), true, "serial:"+which+".OpeningProof:truncated")
}

func TestC11_SerialMultiProofs(t *testing.T) {
	forCurves(t, func(t *testing.T, c *cx) {
		for _, which := range []string{"shplonk", "fflonk"} {
			which := which
			t.Run(which, func(t *testing.T) {
				rapid.Check(t, func(t *rapid.T) { propSerialMultiProofs(t, c, which) })
			})
		}
	})
}

// TestC11_RegressF47_FflonkProofReadFrom (rapid-free): fflonk.OpeningProof.ReadFrom handed its claimed-value
// tables to the stream decoder by value, so it rejected every encoding WriteTo produces ("unsupported type,
// need pointer"): a fflonk proof could be written but never read back.
func TestC11_RegressF47_FflonkProofReadFrom(t *testing.T) {
	forCurves(t, func(t *testing.T, c *cx) {
		pkg := reg.Get("ecc/" + c.name + "/fflonk")
		src := pkg.New("OpeningProof")
		rv := reflect.ValueOf(src).Elem()
		sp := rv.FieldByName("SOpeningProof")
		sp.FieldByName("W").Set(reflect.ValueOf(c.k.G1Base(bi(3))).Elem())
		sp.FieldByName("WPrime").Set(reflect.ValueOf(c.k.G1Base(bi(5))).Elem())
		s := sp.FieldByName("ClaimedValues")
		s.Set(reflect.MakeSlice(s.Type(), 1, 1))
		s.Index(0).Set(reflect.MakeSlice(s.Type().Elem(), 2, 2))
		reg.Unflatten(s.Index(0).Addr().Interface(), []*big.Int{bi(7), bi(11)})
		f := rv.FieldByName("ClaimedValues")
		f.Set(reflect.MakeSlice(f.Type(), 1, 1))
		f.Index(0).Set(reflect.MakeSlice(f.Type().Elem(), 1, 1))
		f.Index(0).Index(0).Set(reflect.MakeSlice(f.Type().Elem().Elem(), 2, 2))
		reg.Unflatten(f.Index(0).Index(0).Addr().Interface(), []*big.Int{bi(13), bi(17)})
		var buf bytes.Buffer
		if _, err := src.(writerTo).WriteTo(&buf); err != nil {
			t.Fatal(err)
		}
		dst := pkg.New("OpeningProof")
		if _, err := dst.(readerFrom).ReadFrom(bytes.NewReader(buf.Bytes())); err != nil {
			t.Fatalf("%s: fflonk.OpeningProof.ReadFrom rejects the output of WriteTo: %v (F47)", c.name, err)
		}
		if !reflect.DeepEqual(src, dst) {
			t.Fatalf("%s: fflonk.OpeningProof round trip changed the proof (F47)", c.name)
		}
		rep.Case("C11_RegressF47/"+c.name, c.name+" fflonk proof round trip", true, "regress:F47", "serial:fflonk.OpeningProof")
	})
}
