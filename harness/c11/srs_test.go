package c11

import (
	"fmt"
	"math/big"
	"testing"

	"pgregory.net/rapid"

	"verif/harness/internal/inst"
	"verif/harness/internal/rep"
)

// propSRS: the structure of NewSRS(size, τ) in the exponent — Pk.G1[i] = [τ^i]G1 for every i,
// Vk.G1 = G1, Vk.G2 = (G2, [τ]G2) (reference curve arithmetic over the documented twist), the
// precomputed lines are those of Vk.G2 — and ToLagrangeG1 of the largest power-of-two prefix equals
// ([L_i(τ)]G1)_i with L_i computed from the definition.
func propSRS(t *rapid.T, c *cx) {
	size := drawSize(t, rep.Scale(64, 512))
	s, scls := c.newSRS(t, size, true)
	e, F := s.E, c.F
	g1, g2 := c.cv.G1, c.cv.G2
	pw := bi(1)
	for i := 0; i < size; i++ {
		c.is(t, fmt.Sprintf("NewSRS(%d,tau=%s).Pk.G1[%d]", size, hx(s.Tau), i), s.S.G1(i), pw, i <= 1 || i == size-1)
		pw = F.Mul(pw, s.Tau)
	}
	if !g1.E.Eq(g1.ToRef(s.S.VkG1()), g1.Gen) {
		t.Fatalf("%s: Vk.G1 is not the G1 generator", c.name)
	}
	if !g2.E.Eq(g2.ToRef(s.S.VkG2(0)), g2.Gen) {
		t.Fatalf("%s: Vk.G2[0] is not the G2 generator", c.name)
	}
	if want := g2.E.Mul(s.Tau, g2.Gen); !g2.E.Eq(g2.ToRef(s.S.VkG2(1)), want) {
		t.Fatalf("%s: Vk.G2[1] is not [tau]G2 for tau=%s (%s SRS)", c.name, hx(s.Tau), s.Kind)
	}
	if !s.S.LinesConsistent() {
		t.Fatalf("%s: Vk.Lines are not PrecomputeLines(Vk.G2[i])", c.name)
	}
	cls := []string{scls, sizeClass(size), "srs:structure"}
	// Lagrange form
	m := 1
	for 2*m <= size {
		m *= 2
	}
	if m > 64 {
		m = 64 // the reference Lagrange basis is O(m²)
	}
	w, err := c.k.FrGenerator(uint64(m))
	if err != nil {
		t.Fatalf("%s: fr.Generator(%d): %v", c.name, m, err)
	}
	// the library's choice of ω is accepted after checking that it is a primitive m-th root of unity
	if F.Exp(w, bi(int64(m))).Cmp(bi(1)) != 0 || (m > 1 && F.Exp(w, bi(int64(m/2))).Cmp(F.Neg(bi(1))) != 0) {
		t.Fatalf("%s: fr.Generator(%d) is not a primitive root of unity of that order", c.name, m)
	}
	pts := make([]inst.KPoint, m)
	for i := range pts {
		pts[i] = s.S.G1(i)
	}
	lag, err := c.k.ToLagrangeG1(pts)
	if err != nil {
		t.Fatalf("%s: ToLagrangeG1(%d points): %v", c.name, m, err)
	}
	if len(lag) != m {
		t.Fatalf("%s: ToLagrangeG1 returned %d points for %d", c.name, len(lag), m)
	}
	li := e.LagrangeAtTau(m, w)
	sum := new(big.Int)
	for i := range lag {
		c.is(t, fmt.Sprintf("ToLagrangeG1(%d)[%d] (tau=%s)", m, i, hx(s.Tau)), lag[i], li[i], false)
		sum = F.Add(sum, li[i])
	}
	if sum.Cmp(bi(1)) != 0 {
		t.Fatalf("reference inconsistency: the Lagrange basis does not sum to 1")
	}
	// the input slice is documented as transformed "in place" but a new slice is returned: the SRS must be intact
	c.is(t, "Pk.G1[1] after ToLagrangeG1", s.S.G1(1), s.Tau, false)
	cls = append(cls, fmt.Sprintf("lagrange:%d", m))
	if size >= 3 {
		if _, err := c.k.ToLagrangeG1([]inst.KPoint{s.S.G1(0), s.S.G1(1), s.S.G1(2)}); err == nil {
			t.Fatalf("%s: ToLagrangeG1 accepted 3 points (documented: size must be a power of 2)", c.name)
		}
	}
	rep.Case("C11_SRS/"+c.name, fmt.Sprintf("%s srs size=%d %s tau=%s", c.name, size, s.Kind, hx(s.Tau)), true, cls...)
}

func TestC11_SRS(t *testing.T) {
	forCurves(t, func(t *testing.T, c *cx) {
		rapid.Check(t, func(t *rapid.T) { propSRS(t, c) })
	})
}
