package c11

import (
	"bytes"
	"fmt"
	"io"
	"os"
	"path/filepath"
	"testing"
	"testing/iotest"

	"pgregory.net/rapid"

	"verif/harness/internal/inst"
	"verif/harness/internal/rep"
)

// Stream behaviour of SRS.WriteDump / ReadDump(r, maxPkPoints): on every kind of reader — seekable ones
// (bytes.Reader, a file) as well as plain and short-read wrappers — a complete dump is consumed exactly
// (the reader ends up at the end of the dump, so the next object on the same stream decodes), and every
// truncated dump is an error, wherever the truncation falls: inside the part that is kept, at the
// boundary between the kept points and the skipped tail, inside the tail that maxPkPoints skips, or one
// byte short of the end.

// plainReader hides every optional interface (io.Seeker, io.WriterTo, …) of the wrapped reader.
type plainReader struct{ r io.Reader }

func (p plainReader) Read(b []byte) (int, error) { return p.r.Read(b) }

// streamKinds: the first two are seekable.
var streamKinds = []string{"bytes.Reader", "os.File", "plain", "onebyte", "half", "dataerr"}

// openStream returns a reader of the given kind over data and pos(), the number of bytes of data the
// reader has consumed (-1 when the wrapper reads ahead and the position is not observable).
func openStream(t fataler, kind, dir string, data []byte) (r io.Reader, pos func() int, closeFn func()) {
	closeFn = func() {}
	if kind == "os.File" {
		f, err := os.CreateTemp(dir, "dump")
		if err != nil {
			t.Fatalf("temp file: %v", err)
		}
		if _, err := f.Write(data); err != nil {
			t.Fatalf("temp file: %v", err)
		}
		if _, err := f.Seek(0, io.SeekStart); err != nil {
			t.Fatalf("temp file: %v", err)
		}
		return f, func() int {
			p, err := f.Seek(0, io.SeekCurrent)
			if err != nil {
				return -2
			}
			return int(p)
		}, func() { f.Close(); os.Remove(f.Name()) }
	}
	br := bytes.NewReader(data)
	consumed := func() int { return len(data) - br.Len() }
	switch kind {
	case "plain":
		return plainReader{br}, consumed, closeFn
	case "onebyte":
		return iotest.OneByteReader(br), consumed, closeFn
	case "half":
		return iotest.HalfReader(br), consumed, closeFn
	case "dataerr":
		return iotest.DataErrReader(br), func() int { return -1 }, closeFn
	}
	return br, consumed, closeFn
}

func propDumpStream(t *rapid.T, c *cx, dir string) {
	size := rapid.SampledFrom([]int{2, 3, 4, 5, 8, 9, 16, 17}).Draw(t, "size")
	s, scls := c.newSRS(t, size, false)
	z := c.sizes(s.S)
	test := "C11_DumpStream/" + c.name
	dm := s.S.Native().(dumper)
	// the dump may itself have been limited when written
	stored := size
	var wopt []int
	if rapid.IntRange(0, 2).Draw(t, "wlimit") == 0 {
		stored = rapid.IntRange(1, size).Draw(t, "wmax")
		wopt = []int{stored}
	}
	var buf bytes.Buffer
	if err := dm.WriteDump(&buf, wopt...); err != nil {
		t.Fatalf("%s: WriteDump(%v): %v", c.name, wopt, err)
	}
	dump := buf.Bytes()
	head := z.vkU + 16 // raw verifying key, marker, length
	if len(dump) != head+stored*z.g1u {
		t.Fatalf("%s: WriteDump(%v) wrote %d bytes, the documented layout has %d", c.name, wopt, len(dump), head+stored*z.g1u)
	}
	// the object that follows the dump on the same stream: an opening proof
	next := inst.KProof{H: c.k.G1Base(bi(int64(size) + 41)), V: bi(int64(size) + 42)}
	nextEnc := encode(t, c.name+": OpeningProof.WriteTo", c.k.ProofNative(next).(writerTo).WriteTo, z.g1c+z.fr)
	stream := append(append([]byte{}, dump...), nextEnc...)
	other := rapid.SampledFrom(streamKinds[2:]).Draw(t, "other_reader")
	base := fmt.Sprintf("%s dump size=%d stored=%d tau=%s", c.name, size, stored, hx(s.Tau))

	type lim struct {
		name string
		opt  []int
		kept int
	}
	lims := []lim{{"absent", nil, stored}, {"=len", []int{stored}, stored}, {">len", []int{stored + rapid.IntRange(1, 9).Draw(t, "over")}, stored}}
	if stored >= 2 {
		k := rapid.SampledFrom([]int{1, stored - 1, 1 + (stored-1)/2}).Draw(t, "under")
		lims = append(lims, lim{"<len", []int{k}, k})
	}
	for _, l := range lims {
		keptEnd := head + l.kept*z.g1u
		for _, kind := range []string{"bytes.Reader", "os.File", other} {
			seekable := kind == "bytes.Reader" || kind == "os.File"
			// ---- complete dump followed by another object
			r, pos, done := openStream(t, kind, dir, stream)
			back := c.k.EmptySRS()
			if err := back.Native().(dumper).ReadDump(r, l.opt...); err != nil {
				t.Fatalf("%s: ReadDump(%v) of a complete dump (%d of %d points kept, %s reader): %v", c.name, l.opt, l.kept, stored, kind, err)
			}
			if p := pos(); p >= 0 && p != len(dump) {
				t.Fatalf("%s: after ReadDump(%v) the %s reader stands at byte %d, the dump has %d bytes (%d stored points, %d kept)", c.name, l.opt, kind, p, len(dump), stored, l.kept)
			}
			c.sameSRS(t, fmt.Sprintf("ReadDump(%v) from a %s", l.opt, kind), s.S, back, l.kept)
			follow := c.k.ProofNative(inst.KProof{H: c.k.G1Inf(), V: bi(0)})
			if n, err := follow.(readerFrom).ReadFrom(r); err != nil || int(n) != len(nextEnc) {
				t.Fatalf("%s: the object following the dump on the same %s stream does not decode after ReadDump(%v): n=%d err=%v", c.name, kind, l.opt, n, err)
			}
			if got := c.k.ProofFromNative(follow); !c.k.PtEqual(got.H, next.H) || got.V.Cmp(next.V) != 0 {
				t.Fatalf("%s: the object following the dump on the same %s stream decodes to something else after ReadDump(%v)", c.name, kind, l.opt)
			}
			done()
			cls := []string{"serial:dump", "dump:complete", "dump:max" + l.name, "dump:reader:" + kind, scls}
			if seekable {
				cls = append(cls, "dump:seekable_reader")
			}
			rep.Case(test, fmt.Sprintf("%s max=%v reader=%s complete", base, l.opt, kind), true, cls...)

			// ---- truncated dumps
			type cut struct {
				name string
				at   int
			}
			cuts := []cut{
				{"in_header", rapid.IntRange(0, head-1).Draw(t, "cut_head")},
				{"one_byte_short", len(dump) - 1},
			}
			if l.kept >= 1 {
				cuts = append(cuts, cut{"in_kept_points", head + rapid.IntRange(0, l.kept*z.g1u-1).Draw(t, "cut_kept")})
			}
			if l.kept < stored {
				cuts = append(cuts, cut{"at_boundary", keptEnd})
				cuts = append(cuts, cut{"in_skipped_tail", keptEnd + rapid.IntRange(1, len(dump)-keptEnd-1).Draw(t, "cut_tail")})
				cuts = append(cuts, cut{"in_skipped_tail", keptEnd + 1})
			}
			for _, cu := range cuts {
				r, _, done := openStream(t, kind, dir, dump[:cu.at])
				tr := c.k.EmptySRS()
				err := tr.Native().(dumper).ReadDump(r, l.opt...)
				done()
				if err == nil {
					t.Fatalf("%s: ReadDump(%v) accepted a dump truncated to %d of %d bytes (%s: header %d bytes, kept points end at %d, %d of %d points kept) from a %s reader",
						c.name, l.opt, cu.at, len(dump), cu.name, head, keptEnd, l.kept, stored, kind)
				}
				cls := []string{"serial:dump", "dump:truncated", "dump:truncated_" + cu.name, "dump:max" + l.name, "dump:reader:" + kind, scls}
				if seekable {
					cls = append(cls, "dump:seekable_reader")
				}
				rep.Case(test, fmt.Sprintf("%s max=%v reader=%s cut=%d(%s)", base, l.opt, kind, cu.at, cu.name), true, cls...)
			}
		}
	}
}

func TestC11_DumpStream(t *testing.T) {
	dir := t.TempDir()
	forCurves(t, func(t *testing.T, c *cx) {
		d := filepath.Join(dir, c.name)
		if err := os.MkdirAll(d, 0o755); err != nil {
			t.Fatal(err)
		}
		rapid.Check(t, func(t *rapid.T) { propDumpStream(t, c, d) })
	})
}
