package c11

import (
	"crypto/sha256"
	"fmt"
	"math/big"
	"testing"

	"pgregory.net/rapid"

	"verif/harness/internal/inst"
	"verif/harness/internal/rep"
)

// alt is a replacement for one component: a group element with known discrete log, or a scalar.
type alt struct {
	name string
	pt   xp
	sc   *big.Int
}

// pointAlts are the replacements tried for a group component whose honest value is cur; other is the
// same component of another honest proof, rnd a random subgroup element.
func (c *cx) pointAlts(cur, other, rnd xp, extra ...alt) []alt {
	F := c.F
	a := []alt{
		{name: "random", pt: rnd},
		{name: "infinity", pt: xp{new(big.Int), c.k.G1Inf()}},
		{name: "other_proof", pt: other},
		{name: "+G", pt: c.mk(F.Add(cur.K, bi(1)), false)},
		{name: "-G", pt: c.mk(F.Sub(cur.K, bi(1)), false)},
		{name: "negated", pt: c.mk(F.Neg(cur.K), false)},
		{name: "doubled", pt: c.mk(F.Add(cur.K, cur.K), false)},
		{name: "generator", pt: c.mk(bi(1), false)},
	}
	return append(a, extra...)
}

func (c *cx) scalarAlts(cur, other, rnd *big.Int, extra ...alt) []alt {
	F := c.F
	a := []alt{
		{name: "random", sc: rnd},
		{name: "zero", sc: new(big.Int)},
		{name: "other_proof", sc: other},
		{name: "+1", sc: F.Add(cur, bi(1))},
		{name: "-1", sc: F.Sub(cur, bi(1))},
		{name: "negated", sc: F.Neg(cur)},
		{name: "doubled", sc: F.Add(cur, cur)},
	}
	return append(a, extra...)
}

// propTamper: every single component of an honest opening (H, ClaimedValue, point, digest) is
// replaced by each alternative; Verify must reject exactly when the reference says the tampered
// claim is false (some replacements coincide with the honest value or yield another true claim).
func propTamper(t *rapid.T, c *cx) {
	size := rapid.IntRange(2, 12).Draw(t, "size")
	s, scls := c.newSRS(t, size, true)
	e := s.E
	p1, z1, cls1, _ := c.drawHonestInput(t, s, "a")
	p2, z2, _, _ := c.drawHonestInput(t, s, "b")
	h1 := c.open(t, s, p1, z1, false)
	h2 := c.open(t, s, p2, z2, false)
	rk, _ := c.scalar(t, "rnd")
	rnd := c.mk(rk, rapid.Bool().Draw(t, "viaRef"))
	rs, _ := c.scalar(t, "rnds")
	if err := c.k.Verify(s.S, h1.C.P, h1.Pr, z1); err != nil {
		t.Fatalf("%s: honest proof rejected: %v", c.name, err)
	}
	test := "C11_Tamper/" + c.name
	base := fmt.Sprintf("%s size=%d tau=%s p=%s z=%s | other p=%s z=%s", c.name, size, hx(s.Tau), hxs(p1), hx(z1), hxs(p2), hx(z2))
	try := func(comp, how string, C, H xp, v, z *big.Int) {
		want := e.Holds(C.K, H.K, v, z)
		err := c.k.Verify(s.S, C.P, inst.KProof{H: H.P, V: v}, z)
		if (err == nil) != want {
			t.Fatalf("%s: tampering %s := %s: Verify returned %v but the tampered claim is %v (%s; tampered c=%s h=%s v=%s z=%s)",
				c.name, comp, how, err, want, base, hx(C.K), hx(H.K), hx(v), hx(z))
		}
		cls := []string{"tamper:" + comp, "tamper:" + comp + ":" + how, "tuple:" + verdict(err), scls, "tamper:single"}
		cls = append(cls, purityCls()...)
		if want {
			cls = append(cls, "tamper:still_true")
		}
		rep.Case(test, base+" || "+comp+":="+how, true, dedup(append(cls, cls1...))...)
	}
	for _, a := range c.pointAlts(h1.H, h2.H, rnd, alt{name: "the_digest", pt: h1.C}) {
		try("H", a.name, h1.C, a.pt, h1.V, z1)
	}
	for _, a := range c.pointAlts(h1.C, h2.C, rnd, alt{name: "the_quotient", pt: h1.H}) {
		try("digest", a.name, a.pt, h1.H, h1.V, z1)
	}
	for _, a := range c.scalarAlts(h1.V, h2.V, rs, alt{name: "the_point", sc: z1}) {
		try("value", a.name, h1.C, h1.H, a.sc, z1)
	}
	for _, a := range c.scalarAlts(z1, z2, rs, alt{name: "the_value", sc: h1.V}, alt{name: "tau", sc: s.Tau}) {
		try("point", a.name, h1.C, h1.H, h1.V, a.sc)
	}
	// whole components of the other proof in pairs
	try("H+value", "other_proof", h1.C, h2.H, h2.V, z1)
	try("H+value+point", "other_proof", h1.C, h2.H, h2.V, z2)
	try("digest+point", "other_proof", h2.C, h1.H, h1.V, z2)
}

func TestC11_Tamper(t *testing.T) {
	forCurves(t, func(t *testing.T, c *cx) {
		rapid.Check(t, func(t *rapid.T) { propTamper(t, c) })
	})
}

// propTamperBatch: single-component tampering of an honest batched opening (each claimed value, each
// digest, the order of digests / values, H, the point, the extra transcript data) and of an honest
// multi-point batch.
func propTamperBatch(t *rapid.T, c *cx) {
	size := rapid.IntRange(2, 12).Draw(t, "size")
	s, scls := c.newSRS(t, size, false)
	e, F := s.E, c.F
	ps, z, cls0, _ := c.drawBatchInput(t, s, 5, 4)
	data := drawData(t, "sha256")
	hb := c.batchOpen(t, s, ps, z, data, false, "sha256")
	// another honest batch of the same shape at another point
	z2, _ := c.point(t, s.Tau, "z2")
	ps2 := make([][]*big.Int, len(ps))
	for i := range ps2 {
		ps2[i], _ = c.drawPoly(t, len(ps[0]), fmt.Sprintf("q%d", i))
	}
	hb2 := c.batchOpen(t, s, ps2, z2, nil, false, "sha256")
	n := len(ps)
	j := rapid.IntRange(0, n-1).Draw(t, "j")
	j2 := rapid.IntRange(0, n-1).Draw(t, "j2")
	rk, _ := c.scalar(t, "rnd")
	rnd := c.mk(rk, false)
	rs, _ := c.scalar(t, "rnds")
	test := "C11_TamperBatch/" + c.name
	base := fmt.Sprintf("%s size=%d tau=%s z=%s ps=%s data=%x j=%d j2=%d", c.name, size, hx(s.Tau), hx(z), polysKey(ps), data, j, j2)
	try := func(comp, how string, Cs []xp, H xp, vs []*big.Int, z *big.Int, data [][]byte) {
		ds := make([]inst.KPoint, len(Cs))
		cks := make([]*big.Int, len(Cs))
		for i := range Cs {
			ds[i], cks[i] = Cs[i].P, Cs[i].K
		}
		want := false
		if len(Cs) == len(vs) {
			want = e.BatchHolds(cks, vs, H.K, z, c.gamma("sha256", z, ds, vs, data))
		}
		err := c.k.BatchVerifySinglePoint(s.S, ds, inst.KBatchProof{H: H.P, Vs: vs}, z, sha256.New(), data...)
		if (err == nil) != want {
			t.Fatalf("%s: batch tampering %s := %s: BatchVerifySinglePoint returned %v but the tampered claim is %v (%s)", c.name, comp, how, err, want, base)
		}
		cls := []string{"tamper:" + comp, "tamper:" + comp + ":" + how, "tuple:" + verdict(err), scls, "tamper:batch", "batch>=2"}
		if n < 2 {
			cls = cls[:len(cls)-1]
		}
		cls = append(cls, purityCls()...)
		if want {
			cls = append(cls, "tamper:still_true")
		}
		rep.Case(test, base+" || "+comp+":="+how, true, dedup(append(cls, cls0...))...)
	}
	cpC := func() []xp { return append([]xp{}, hb.Cs...) }
	cpV := func() []*big.Int { return append([]*big.Int{}, hb.Vs...) }
	try("none", "honest", hb.Cs, hb.H, hb.Vs, z, data)
	for _, a := range c.scalarAlts(hb.Vs[j], hb2.Vs[j], rs, alt{name: "value_j2", sc: hb.Vs[j2]}) {
		vs := cpV()
		vs[j] = a.sc
		try("value_j", a.name, hb.Cs, hb.H, vs, z, data)
	}
	for _, a := range c.pointAlts(hb.Cs[j], hb2.Cs[j], rnd, alt{name: "digest_j2", pt: hb.Cs[j2]}) {
		cs := cpC()
		cs[j] = a.pt
		try("digest_j", a.name, cs, hb.H, hb.Vs, z, data)
	}
	for _, a := range c.pointAlts(hb.H, hb2.H, rnd) {
		try("H", a.name, hb.Cs, a.pt, hb.Vs, z, data)
	}
	for _, a := range c.scalarAlts(z, z2, rs, alt{name: "tau", sc: s.Tau}) {
		try("point", a.name, hb.Cs, hb.H, hb.Vs, a.sc, data)
	}
	{ // order
		cs, vs := cpC(), cpV()
		cs[j], cs[j2] = cs[j2], cs[j]
		try("order", "swap_digests", cs, hb.H, hb.Vs, z, data)
		vs[j], vs[j2] = vs[j2], vs[j]
		try("order", "swap_digests_and_values", cs, hb.H, vs, z, data)
		try("order", "swap_values", hb.Cs, hb.H, vs, z, data)
		rc, rv := make([]xp, n), make([]*big.Int, n)
		for i := 0; i < n; i++ {
			rc[i], rv[i] = hb.Cs[n-1-i], hb.Vs[n-1-i]
		}
		try("order", "reverse_all", rc, hb.H, rv, z, data)
		rot := append(cpC()[1:], hb.Cs[0])
		try("order", "rotate_digests", rot, hb.H, hb.Vs, z, data)
	}
	{ // arity
		try("arity", "append_copy_of_first", append(cpC(), hb.Cs[0]), hb.H, append(cpV(), hb.Vs[0]), z, data)
		try("arity", "append_zero_claim", append(cpC(), xp{new(big.Int), c.k.G1Inf()}), hb.H, append(cpV(), new(big.Int)), z, data)
		if n > 1 {
			try("arity", "drop_last", cpC()[:n-1], hb.H, cpV()[:n-1], z, data)
		}
		try("arity", "extra_value", hb.Cs, hb.H, append(cpV(), new(big.Int)), z, data)
	}
	{ // transcript data
		try("data", "append_item", hb.Cs, hb.H, hb.Vs, z, append(append([][]byte{}, data...), []byte("x")))
		try("data", "append_empty_item", hb.Cs, hb.H, hb.Vs, z, append(append([][]byte{}, data...), []byte{}))
		if len(data) > 0 {
			try("data", "drop_item", hb.Cs, hb.H, hb.Vs, z, data[:len(data)-1])
			d := append([][]byte{}, data...)
			d[0] = append(append([]byte{}, d[0]...), 0)
			try("data", "extend_item", hb.Cs, hb.H, hb.Vs, z, d)
		}
		if len(data) == 2 {
			try("data", "concatenate_items", hb.Cs, hb.H, hb.Vs, z, [][]byte{append(append([]byte{}, data[0]...), data[1]...)})
			try("data", "swap_items", hb.Cs, hb.H, hb.Vs, z, [][]byte{data[1], data[0]})
		}
	}
	_ = F
}

func TestC11_TamperBatch(t *testing.T) {
	forCurves(t, func(t *testing.T, c *cx) {
		rapid.Check(t, func(t *rapid.T) { propTamperBatch(t, c) })
	})
}

// propTamperMulti: an honest multi-point batch with one component of one claim replaced.
func propTamperMulti(t *rapid.T, c *cx) {
	size := rapid.IntRange(2, 12).Draw(t, "size")
	s, scls := c.newSRS(t, size, false)
	e := s.E
	n := rapid.IntRange(2, 5).Draw(t, "n")
	zs, _ := c.distinctPoints(t, s.Tau, n)
	hs := make([]*honest, n)
	base := fmt.Sprintf("%s size=%d tau=%s", c.name, size, hx(s.Tau))
	for i := range hs {
		p, _ := c.drawPoly(t, drawLen(t, size, fmt.Sprintf("len%d", i)), fmt.Sprintf("p%d", i))
		hs[i] = c.open(t, s, p, zs[i], false)
		base += fmt.Sprintf(" (%s@%s)", hxs(p), hx(zs[i]))
	}
	j := rapid.IntRange(0, n-1).Draw(t, "j")
	j2 := (j + rapid.IntRange(1, n-1).Draw(t, "dj")) % n
	rk, _ := c.scalar(t, "rnd")
	rnd := c.mk(rk, false)
	rs, _ := c.scalar(t, "rnds")
	test := "C11_TamperMulti/" + c.name
	type claim struct {
		C, H xp
		V, Z *big.Int
	}
	honestClaims := func() []claim {
		cl := make([]claim, n)
		for i, h := range hs {
			cl[i] = claim{h.C, h.H, h.V, h.Z}
		}
		return cl
	}
	try := func(comp, how string, cl []claim) {
		want := true
		var ds []inst.KPoint
		var prs []inst.KProof
		var pts []*big.Int
		for _, x := range cl {
			want = want && e.Holds(x.C.K, x.H.K, x.V, x.Z)
			ds, prs, pts = append(ds, x.C.P), append(prs, inst.KProof{H: x.H.P, V: x.V}), append(pts, x.Z)
		}
		err := c.k.BatchVerifyMultiPoints(s.S, ds, prs, pts)
		if (err == nil) != want {
			t.Fatalf("%s: multi-point tampering %s := %s (claim %d): BatchVerifyMultiPoints returned %v but all-claims-true is %v (%s)", c.name, comp, how, j, err, want, base)
		}
		cls := []string{"tamper:" + comp, "tamper:" + comp + ":" + how, "tuple:" + verdict(err), scls, "tamper:multi", "batch>=2"}
		cls = append(cls, purityCls()...)
		if want {
			cls = append(cls, "tamper:still_true")
		}
		rep.Case(test, fmt.Sprintf("%s j=%d j2=%d || %s:=%s", base, j, j2, comp, how), true, dedup(cls)...)
	}
	try("none", "honest", honestClaims())
	for _, a := range c.pointAlts(hs[j].H, hs[j2].H, rnd) {
		cl := honestClaims()
		cl[j].H = a.pt
		try("H_j", a.name, cl)
	}
	for _, a := range c.pointAlts(hs[j].C, hs[j2].C, rnd) {
		cl := honestClaims()
		cl[j].C = a.pt
		try("digest_j", a.name, cl)
	}
	for _, a := range c.scalarAlts(hs[j].V, hs[j2].V, rs) {
		cl := honestClaims()
		cl[j].V = a.sc
		try("value_j", a.name, cl)
	}
	for _, a := range c.scalarAlts(hs[j].Z, hs[j2].Z, rs) {
		cl := honestClaims()
		cl[j].Z = a.sc
		try("point_j", a.name, cl)
	}
	{
		cl := honestClaims()
		cl[j].H, cl[j2].H = cl[j2].H, cl[j].H
		try("order", "swap_quotients", cl)
		cl = honestClaims()
		cl[j].V, cl[j2].V = cl[j2].V, cl[j].V
		try("order", "swap_values", cl)
		cl = honestClaims()
		cl[j].Z, cl[j2].Z = cl[j2].Z, cl[j].Z
		try("order", "swap_points", cl)
		cl = honestClaims()
		cl[j].C, cl[j2].C = cl[j2].C, cl[j].C
		try("order", "swap_digests", cl)
		cl = honestClaims()
		cl[j], cl[j2] = cl[j2], cl[j]
		try("order", "swap_whole_claims", cl)
		// two errors that cancel for the fixed combination λ = (1,1,…): must still be rejected
		cl = honestClaims()
		cl[j].V = c.F.Add(cl[j].V, bi(1))
		cl[j2].V = c.F.Sub(cl[j2].V, bi(1))
		try("values", "+1_and_-1", cl)
	}
}

func TestC11_TamperMulti(t *testing.T) {
	forCurves(t, func(t *testing.T, c *cx) {
		rapid.Check(t, func(t *rapid.T) { propTamperMulti(t, c) })
	})
}
