package c11

import (
	"bytes"
	"crypto/sha256"
	"fmt"
	"io"
	"math/big"
	"sync"
	"testing"
	"testing/iotest"

	"pgregory.net/rapid"

	"verif/harness/internal/inst"
	"verif/harness/internal/reg"
	"verif/harness/internal/rep"
)

type writerTo interface {
	WriteTo(io.Writer) (int64, error)
}
type rawWriterTo interface {
	WriteRawTo(io.Writer) (int64, error)
}
type readerFrom interface {
	ReadFrom(io.Reader) (int64, error)
}
type unsafeReaderFrom interface {
	UnsafeReadFrom(io.Reader) (int64, error)
}
type dumper interface {
	WriteDump(io.Writer, ...int) error
	ReadDump(io.Reader, ...int) error
}

// sizes of the encodings, derived from the documented formats: a compressed point is one coordinate,
// an uncompressed point two; precomputed lines are written as plain base-field coefficients.
type encSizes struct {
	fp, fr           int
	g1c, g1u         int
	g2c, g2u         int
	linesCoeffs      int
	vkC, vkU, vkDump int
}

var (
	sizesMu sync.Mutex
	sizesOf = map[string]*encSizes{}
)

func (c *cx) sizes(s inst.KSRS) *encSizes {
	sizesMu.Lock()
	defer sizesMu.Unlock()
	if z, ok := sizesOf[c.name]; ok {
		return z
	}
	z := &encSizes{fp: inst.FieldByName(c.name + "/fp").Bytes(), fr: c.k.FrBytes()}
	z.g1c, z.g1u = z.fp, 2*z.fp
	d2 := len(reg.Flatten(s.VkG2(0))) / 2
	z.g2c, z.g2u = d2*z.fp, 2*d2*z.fp
	z.linesCoeffs = len(reg.Flatten(s.VkLines()))
	z.vkC = 2*z.g2c + z.g1c + z.linesCoeffs*z.fp
	z.vkU = 2*z.g2u + z.g1u + z.linesCoeffs*z.fp
	sizesOf[c.name] = z
	return z
}

var sentinel = []byte{0xa5, 0x5a, 0xc3, 0x3c, 0x99}

// reader wraps the encoding followed by sentinel bytes in the drawn reader behaviour; left() reports
// how many bytes were not consumed.
func reader(kind string, enc []byte) (io.Reader, func() int) {
	if kind != "whole" { // no trailing bytes: the last read of a dataerr reader carries io.EOF with data
		br := bytes.NewReader(enc)
		left := func() int { return br.Len() + len(sentinel) }
		switch kind {
		case "onebyte":
			return iotest.OneByteReader(br), left
		case "half":
			return iotest.HalfReader(br), left
		default:
			return iotest.DataErrReader(br), left
		}
	}
	br := bytes.NewReader(append(append([]byte{}, enc...), sentinel...))
	left := func() int { return br.Len() }
	switch kind {
	case "onebyte":
		return iotest.OneByteReader(br), left
	case "half":
		return iotest.HalfReader(br), left
	case "dataerr":
		return iotest.DataErrReader(br), left
	}
	return br, left
}

var readerKinds = []string{"whole", "onebyte", "half", "dataerr"}

// Receiver histories. Every decoder of the property is run on a FRESH receiver and on USED receivers
// that already hold other material of a smaller, an equal and a larger size than the object being
// decoded (all four in every case, for every object type that has a size). After decoding, the
// receiver must equal the source field by field, lengths included: nothing of the previous content
// may survive.
var relations = []string{"fresh", "smaller", "equal", "larger"}

// relSize draws the size of a used receiver in the given relation to n (the size being decoded):
// smaller in [lo, n-1] (boundary-heavy), larger in [n+1, n+extra]. When no smaller size exists the
// relation degrades to "equal" (the returned label says what was built).
func relSize(t *rapid.T, rel string, n, lo, extra int, label string) (int, string) {
	switch rel {
	case "smaller":
		if n-1 < lo {
			return n, "equal"
		}
		switch rapid.IntRange(0, 2).Draw(t, label+"_smcls") {
		case 0:
			return lo, rel
		case 1:
			return n - 1, rel
		}
		return rapid.IntRange(lo, n-1).Draw(t, label+"_sm"), rel
	case "larger":
		return n + rapid.IntRange(1, extra).Draw(t, label+"_lg"), rel
	}
	return n, "equal"
}

// encode runs a writer and checks the returned count against the bytes produced and the expected size.
func encode(t fataler, what string, f func(io.Writer) (int64, error), want int) []byte {
	var buf bytes.Buffer
	n, err := f(&buf)
	if err != nil {
		t.Fatalf("%s: %v", what, err)
	}
	if int(n) != buf.Len() {
		t.Fatalf("%s returned n=%d but wrote %d bytes", what, n, buf.Len())
	}
	if want >= 0 && buf.Len() != want {
		t.Fatalf("%s wrote %d bytes, the documented format has %d", what, buf.Len(), want)
	}
	return buf.Bytes()
}

// decode runs a reader on enc‖sentinel and checks that exactly len(enc) bytes are reported and consumed.
func decode(t fataler, what, rkind string, f func(io.Reader) (int64, error), enc []byte) {
	r, left := reader(rkind, enc)
	n, err := f(r)
	if err != nil {
		t.Fatalf("%s (%s reader) failed on an honest encoding: %v", what, rkind, err)
	}
	if int(n) != len(enc) {
		t.Fatalf("%s (%s reader) returned n=%d for an encoding of %d bytes", what, rkind, n, len(enc))
	}
	if rkind == "whole" && left() != len(sentinel) {
		t.Fatalf("%s consumed %d bytes beyond its encoding", what, len(sentinel)-left())
	}
}

func (c *cx) sameSRS(t fataler, what string, a, b inst.KSRS, npk int) {
	if b.Size() != npk {
		t.Fatalf("%s: %s: restored proving key has %d points, want %d", c.name, what, b.Size(), npk)
	}
	for i := 0; i < npk; i++ {
		if !c.k.PtEqual(a.G1(i), b.G1(i)) {
			t.Fatalf("%s: %s: restored Pk.G1[%d] differs", c.name, what, i)
		}
	}
	if !bytes.Equal(a.VkMem(), b.VkMem()) {
		t.Fatalf("%s: %s: restored verifying key differs from the original (G2, G1 or precomputed lines)", c.name, what)
	}
}

// sameBehaviour: the restored SRS commits, opens and verifies exactly like the original one.
func (c *cx) sameBehaviour(t fataler, what string, s *srsT, b inst.KSRS, p []*big.Int, z *big.Int) {
	rs := &srsT{S: b, E: s.E, Tau: s.Tau, Kind: s.Kind}
	h := c.open(t, rs, p, z, false) // checks digest, value and H against the reference
	if err := c.k.Verify(b, h.C.P, h.Pr, z); err != nil {
		t.Fatalf("%s: %s: restored SRS rejects its own honest opening: %v", c.name, what, err)
	}
	if err := c.k.Verify(s.S, h.C.P, h.Pr, z); err != nil {
		t.Fatalf("%s: %s: original SRS rejects the restored SRS's honest opening: %v", c.name, what, err)
	}
	bad := inst.KProof{H: h.Pr.H, V: c.F.Add(h.V, bi(1))}
	if err := c.k.Verify(b, h.C.P, bad, z); err == nil {
		t.Fatalf("%s: %s: restored SRS accepts a wrong claimed value", c.name, what)
	}
}

// propSerialSRS: WriteTo / WriteRawTo / ReadFrom / UnsafeReadFrom of SRS, ProvingKey, VerifyingKey
// and WriteDump / ReadDump: exact byte counts, byte-exact re-encoding, equal values, equal behaviour.
func propSerialSRS(t *rapid.T, c *cx) {
	size := drawSize(t, rep.Scale(64, 1024))
	s, scls := c.newSRS(t, size, true)
	z := c.sizes(s.S)
	rk := rapid.SampledFrom(readerKinds).Draw(t, "reader")
	p, _ := c.drawPoly(t, drawLen(t, size, "len"), "p")
	pt, _ := c.point(t, s.Tau, "z")
	test := "C11_SerialSRS/" + c.name
	key := fmt.Sprintf("%s size=%d %s tau=%s reader=%s", c.name, size, s.Kind, hx(s.Tau), rk)
	nat := s.S.Native()
	pkN, vkN := s.S.PkPtr(), s.S.VkPtr()

	// used receivers hold (a prefix of) another SRS, built for another trapdoor
	const extra = 5
	tau2 := c.F.Add(s.Tau, bi(1))
	if tau2.Sign() == 0 {
		tau2 = bi(2)
	}
	other, err := c.k.NewSRS(uint64(size+extra), tau2)
	if err != nil {
		t.Fatalf("%s: NewSRS(%d,%s): %v", c.name, size+extra, hx(tau2), err)
	}
	recv := func(rel string, n int, label string) (inst.KSRS, string) {
		if rel == "fresh" {
			return c.k.EmptySRS(), rel
		}
		m, got := relSize(t, rel, n, 0, extra, label)
		return other.CloneN(m), got
	}
	permSRS := rapid.Permutation(relations).Draw(t, "recvSRS")
	permPk := rapid.Permutation(relations).Draw(t, "recvPk")
	k := 0

	type form struct {
		name   string
		write  func(obj interface{}) func(io.Writer) (int64, error)
		g1, vk int
	}
	forms := []form{
		{"WriteTo", func(o interface{}) func(io.Writer) (int64, error) { return o.(writerTo).WriteTo }, z.g1c, z.vkC},
		{"WriteRawTo", func(o interface{}) func(io.Writer) (int64, error) { return o.(rawWriterTo).WriteRawTo }, z.g1u, z.vkU},
	}
	for _, f := range forms {
		pkLen := 4 + size*f.g1
		srsEnc := encode(t, c.name+": SRS."+f.name, f.write(nat), pkLen+f.vk)
		pkEnc := encode(t, c.name+": ProvingKey."+f.name, f.write(pkN), pkLen)
		vkEnc := encode(t, c.name+": VerifyingKey."+f.name, f.write(vkN), f.vk)
		if !bytes.Equal(srsEnc, append(append([]byte{}, pkEnc...), vkEnc...)) {
			t.Fatalf("%s: SRS.%s is not ProvingKey‖VerifyingKey", c.name, f.name)
		}
		for _, rd := range []string{"ReadFrom", "UnsafeReadFrom"} {
			what := "SRS." + f.name + "→" + rd
			r, rel := recv(permSRS[k], size, fmt.Sprintf("rs%d", k))
			if rd == "ReadFrom" {
				decode(t, c.name+": "+what, rk, r.Native().(readerFrom).ReadFrom, srsEnc)
			} else {
				decode(t, c.name+": "+what, rk, r.Native().(unsafeReaderFrom).UnsafeReadFrom, srsEnc)
			}
			c.sameSRS(t, what+" (receiver "+rel+")", s.S, r, size)
			if re := encode(t, c.name+": re-encoding after "+what, f.write(r.Native()), -1); !bytes.Equal(re, srsEnc) {
				t.Fatalf("%s: %s (receiver %s): re-encoding the restored SRS gives different bytes", c.name, what, rel)
			}
			c.sameBehaviour(t, what, s, r, p, pt)
			rep.Case(test, key+" "+what+" recv="+rel, true, "serial:"+what, "reader:"+rk, scls, sizeClass(size), "recv:SRS:"+rel)

			// proving key and verifying key separately, assembled into one SRS
			what = "Pk/Vk." + f.name + "→" + rd
			r2, rel2 := recv(permPk[k], size, fmt.Sprintf("rp%d", k))
			k++
			vkRecv := "used"
			if rel2 == "fresh" {
				vkRecv = "fresh"
			}
			if rd == "ReadFrom" {
				decode(t, c.name+": ProvingKey."+f.name+"→"+rd, rk, r2.PkPtr().(readerFrom).ReadFrom, pkEnc)
			} else {
				decode(t, c.name+": ProvingKey."+f.name+"→"+rd, rk, r2.PkPtr().(unsafeReaderFrom).UnsafeReadFrom, pkEnc)
			}
			decode(t, c.name+": VerifyingKey."+f.name+"→ReadFrom", rk, r2.VkPtr().(readerFrom).ReadFrom, vkEnc)
			c.sameSRS(t, what+" (receiver "+rel2+")", s.S, r2, size)
			if re := encode(t, c.name+": re-encoding after "+what, f.write(r2.Native()), -1); !bytes.Equal(re, srsEnc) {
				t.Fatalf("%s: %s (receiver %s): re-encoding the restored keys gives different bytes", c.name, what, rel2)
			}
			rep.Case(test, key+" "+what+" recv="+rel2, true, "serial:"+what, "reader:"+rk, scls, sizeClass(size), "recv:ProvingKey:"+rel2, "recv:VerifyingKey:"+vkRecv)
		}
	}

	// WriteDump / ReadDump with the optional limits
	dm := nat.(dumper)
	wmax := rapid.SampledFrom([]int{-1, -1, 0, 1, size - 1, size, size + 3}).Draw(t, "wmax")
	rmax := rapid.SampledFrom([]int{-1, -1, 0, 1, size - 1, size, size + 3}).Draw(t, "rmax")
	written := size
	var wopt, ropt []int
	if wmax >= 0 {
		wopt = []int{wmax}
		if wmax > 0 && wmax < size {
			written = wmax
		}
	}
	kept := written
	if rmax >= 0 {
		ropt = []int{rmax}
		if rmax > 0 && rmax < written {
			kept = rmax
		}
	}
	var buf bytes.Buffer
	if err := dm.WriteDump(&buf, wopt...); err != nil {
		t.Fatalf("%s: WriteDump: %v", c.name, err)
	}
	// raw verifying key, 8-byte marker, 8-byte length, the memory image of the points (two coordinates each)
	if want := z.vkU + 16 + written*z.g1u; buf.Len() != want {
		t.Fatalf("%s: WriteDump(%v) wrote %d bytes, the documented layout has %d", c.name, wopt, buf.Len(), want)
	}
	var b2 bytes.Buffer
	if err := dm.WriteDump(&b2, kept); err != nil {
		t.Fatalf("%s: WriteDump(%d): %v", c.name, kept, err)
	}
	what := fmt.Sprintf("WriteDump(%v)→ReadDump(%v)", wopt, ropt)
	for i, want := range relations {
		r, rel := recv(want, kept, fmt.Sprintf("rd%d", i))
		rr, left := reader(rk, buf.Bytes())
		if err := r.Native().(dumper).ReadDump(rr, ropt...); err != nil {
			t.Fatalf("%s: ReadDump(%v) of WriteDump(%v) (%s reader, receiver %s): %v", c.name, ropt, wopt, rk, rel, err)
		}
		if rk == "whole" && left() != len(sentinel) {
			t.Fatalf("%s: ReadDump(%v) of WriteDump(%v) left %d bytes unread / over-read (want %d)", c.name, ropt, wopt, left(), len(sentinel))
		}
		c.sameSRS(t, what+" (receiver "+rel+")", s.S, r, kept)
		// a dump of the restored SRS equals the dump of the original limited to the same number of points
		var b1 bytes.Buffer
		if err := r.Native().(dumper).WriteDump(&b1); err != nil {
			t.Fatalf("%s: WriteDump of the restored SRS: %v", c.name, err)
		}
		if !bytes.Equal(b1.Bytes(), b2.Bytes()) {
			t.Fatalf("%s: %s (receiver %s): dump of the restored SRS differs from the dump of the original limited to %d points", c.name, what, rel, kept)
		}
		if i == len(relations)-1 {
			if len(p) <= kept {
				c.sameBehaviour(t, what, s, r, p, pt)
			} else {
				c.sameBehaviour(t, what, s, r, p[:kept], pt)
			}
		}
		rep.Case(test, key+" "+what+" recv="+rel, true, "serial:dump", "reader:"+rk, scls, sizeClass(size),
			fmt.Sprintf("dump:limit_w=%v", wmax >= 0), fmt.Sprintf("dump:limit_r=%v", rmax >= 0), "recv:SRS.dump:"+rel)
	}
}

func TestC11_SerialSRS(t *testing.T) {
	forCurves(t, func(t *testing.T, c *cx) {
		rapid.Check(t, func(t *rapid.T) { propSerialSRS(t, c) })
	})
}

// propSerialProofs: OpeningProof and BatchOpeningProof codecs on honest proofs (including proofs whose
// quotient is the point at infinity).
func propSerialProofs(t *rapid.T, c *cx) {
	size := drawSize(t, 32)
	s, scls := c.newSRS(t, size, false)
	z := c.sizes(s.S)
	rk := rapid.SampledFrom(readerKinds).Draw(t, "reader")
	test := "C11_SerialProofs/" + c.name
	p, pt, cls, _ := c.drawHonestInput(t, s, "")
	h := c.open(t, s, p, pt, false)
	nat := c.k.ProofNative(h.Pr)
	enc := encode(t, c.name+": OpeningProof.WriteTo", nat.(writerTo).WriteTo, z.g1c+z.fr)
	for _, rel := range []string{"fresh", "used"} {
		back := c.k.ProofNative(inst.KProof{H: c.k.G1Inf(), V: bi(0)})
		if rel == "used" { // the receiver holds another proof (fixed-size object: no size relation)
			back = c.k.ProofNative(inst.KProof{H: c.k.G1Base(bi(12345)), V: bi(777)})
		}
		decode(t, c.name+": OpeningProof.ReadFrom", rk, back.(readerFrom).ReadFrom, enc)
		got := c.k.ProofFromNative(back)
		if !c.k.PtEqual(got.H, h.Pr.H) || got.V.Cmp(h.Pr.V) != 0 {
			t.Fatalf("%s: OpeningProof round trip (%s receiver) changed the proof", c.name, rel)
		}
		if re := encode(t, c.name+": OpeningProof re-encoding", back.(writerTo).WriteTo, -1); !bytes.Equal(re, enc) {
			t.Fatalf("%s: OpeningProof re-encoding differs (%s receiver)", c.name, rel)
		}
		if err := c.k.Verify(s.S, h.C.P, got, pt); err != nil {
			t.Fatalf("%s: restored OpeningProof rejected: %v", c.name, err)
		}
		cls = append(cls, "recv:OpeningProof:"+rel)
	}
	if c.k.PtIsInf(h.Pr.H) {
		cls = append(cls, "H=infinity")
	}
	rep.Case(test, fmt.Sprintf("%s proof tau=%s p=%s z=%s reader=%s", c.name, hx(s.Tau), hxs(p), hx(pt), rk), true,
		dedup(append(cls, "serial:OpeningProof", "reader:"+rk, scls))...)

	ps, bz, bcls, _ := c.drawBatchInput(t, s, 8, 0)
	hb := c.batchOpen(t, s, ps, bz, nil, false, "sha256")
	bnat := c.k.BatchProofNative(hb.Bp)
	benc := encode(t, c.name+": BatchOpeningProof.WriteTo", bnat.(writerTo).WriteTo, z.g1c+4+len(ps)*z.fr)
	// receivers: fresh, and used ones holding fewer / as many / more claimed values
	for i, want := range relations {
		rel := want
		bback := c.k.BatchProofNative(inst.KBatchProof{H: c.k.G1Inf()})
		if want != "fresh" {
			var m int
			m, rel = relSize(t, want, len(ps), 0, 4, fmt.Sprintf("rb%d", i))
			stale := make([]*big.Int, m)
			for j := range stale {
				stale[j] = bi(int64(0xbad00 + j))
			}
			bback = c.k.BatchProofNative(inst.KBatchProof{H: c.k.G1Base(bi(5)), Vs: stale})
		}
		decode(t, c.name+": BatchOpeningProof.ReadFrom", rk, bback.(readerFrom).ReadFrom, benc)
		bgot := c.k.BatchProofFromNative(bback)
		if !c.k.PtEqual(bgot.H, hb.Bp.H) || len(bgot.Vs) != len(hb.Vs) {
			t.Fatalf("%s: BatchOpeningProof round trip (receiver %s) changed H or the number of values (%d, want %d)", c.name, rel, len(bgot.Vs), len(hb.Vs))
		}
		for i := range bgot.Vs {
			if bgot.Vs[i].Cmp(hb.Vs[i]) != 0 {
				t.Fatalf("%s: BatchOpeningProof round trip (receiver %s) changed value %d", c.name, rel, i)
			}
		}
		if re := encode(t, c.name+": BatchOpeningProof re-encoding", bback.(writerTo).WriteTo, -1); !bytes.Equal(re, benc) {
			t.Fatalf("%s: BatchOpeningProof re-encoding differs (receiver %s)", c.name, rel)
		}
		if err := c.k.BatchVerifySinglePoint(s.S, hb.digests(), bgot, bz, sha256.New()); err != nil {
			t.Fatalf("%s: restored BatchOpeningProof rejected: %v", c.name, err)
		}
		bcls = append(bcls, "recv:BatchOpeningProof:"+rel)
	}
	rep.Case(test, fmt.Sprintf("%s batchproof tau=%s ps=%s z=%s reader=%s", c.name, hx(s.Tau), polysKey(ps), hx(bz), rk), true,
		dedup(append(bcls, "serial:BatchOpeningProof", "reader:"+rk, scls))...)
}

func TestC11_SerialProofs(t *testing.T) {
	forCurves(t, func(t *testing.T, c *cx) {
		rapid.Check(t, func(t *rapid.T) { propSerialProofs(t, c) })
	})
}

// propMpc: the transcripts of an MPC setup (after each contribution) round-trip byte-exactly, the
// restored transcript verifies against its predecessor, and sealing the restored transcript gives the
// same SRS as sealing the original, which commits/opens/verifies. Contribute draws its secret from
// crypto/rand inside the library: every assertion below holds for every value of that secret.
func propMpc(t *rapid.T, c *cx) {
	n := rapid.SampledFrom([]int{2, 3, 4, 5, 8, 9, 16}).Draw(t, "n")
	rounds := rapid.IntRange(1, 3).Draw(t, "rounds")
	rk := rapid.SampledFrom(readerKinds).Draw(t, "reader")
	beacon := rapid.SliceOfN(rapid.Byte(), 0, 20).Draw(t, "beacon")
	s0, err := c.k.NewSRS(2, bi(3))
	if err != nil {
		t.Fatalf("NewSRS: %v", err)
	}
	z := c.sizes(s0)
	test := "C11_Mpc/" + c.name
	cur := c.k.InitializeSetup(n)
	prev := c.k.InitializeSetup(n)
	want := z.g1c + z.g2c + 8 + (n-1)*z.g1c + z.g2c + 32
	// usedSetup: a setup of another ceremony with m powers that has contributed and (half of the time)
	// has itself been read from its transcript, as a receiver that walks through a list of transcripts is
	usedSetup := func(m int, label string) inst.KMpc {
		o := c.k.InitializeSetup(m)
		o.Contribute()
		if rapid.Bool().Draw(t, label+"_read") {
			var b bytes.Buffer
			if _, err := o.WriteTo(&b); err != nil {
				t.Fatalf("%s: MpcSetup.WriteTo: %v", c.name, err)
			}
			o2 := c.k.EmptySetup()
			if _, err := o2.ReadFrom(&b); err != nil {
				t.Fatalf("%s: MpcSetup.ReadFrom: %v", c.name, err)
			}
			return o2
		}
		return o
	}
	var last inst.KMpc
	var lastRecv []inst.KMpc
	var lastRel []string
	var old inst.KMpc // the receiver carried two rounds ago: a used object holding an older transcript of this ceremony
	for r := 0; r < rounds; r++ {
		cur.Contribute()
		enc := encode(t, fmt.Sprintf("%s: MpcSetup.WriteTo (N=%d, round %d)", c.name, n, r), cur.WriteTo, want)
		carry := rapid.IntRange(0, len(relations)-1).Draw(t, "carry")
		lastRecv, lastRel = nil, nil
		for i, wantRel := range relations {
			rel := wantRel
			back := c.k.EmptySetup()
			if wantRel != "fresh" {
				var m int
				m, rel = relSize(t, wantRel, n, 2, 5, fmt.Sprintf("rm%d_%d", r, i))
				if rel == "equal" && old != nil {
					back, old = old, nil
				} else {
					back = usedSetup(m, fmt.Sprintf("um%d_%d", r, i))
				}
			}
			decode(t, fmt.Sprintf("%s: MpcSetup.ReadFrom (N=%d, receiver %s)", c.name, n, rel), rk, back.ReadFrom, enc)
			if re := encode(t, fmt.Sprintf("%s: MpcSetup re-encoding (N=%d, receiver %s)", c.name, n, rel), back.WriteTo, want); !bytes.Equal(re, enc) {
				t.Fatalf("%s: MpcSetup re-encoding differs from the transcript it was read from (N=%d, receiver %s)", c.name, n, rel)
			}
			lastRecv, lastRel = append(lastRecv, back), append(lastRel, rel)
			rep.Case(test, fmt.Sprintf("%s mpc n=%d round=%d reader=%s recv=%s", c.name, n, r, rk, rel), true, "serial:MpcSetup", "reader:"+rk, fmt.Sprintf("mpc:n=%d", n), "recv:MpcSetup:"+rel)
		}
		back := lastRecv[carry]
		if err := prev.Verify(back); err != nil {
			t.Fatalf("%s: restored honest contribution %d (receiver %s) does not verify against its predecessor: %v", c.name, r, lastRel[carry], err)
		}
		old, prev, last = prev, back, back
		if r == 0 {
			old = nil // round 0's predecessor is the initial setup, not a read transcript
		}
	}
	// behaviour: Seal is a deterministic function of the transcript and the beacon, whatever the receiver held before
	a := cur.Seal(beacon)
	if a.Size() != n {
		t.Fatalf("%s: Seal of a ceremony of %d powers has %d G1 points", c.name, n, a.Size())
	}
	var b inst.KSRS
	for i, rc := range lastRecv {
		sb := rc.Seal(beacon)
		if sb.Size() != n {
			t.Fatalf("%s: Seal of the restored transcript (receiver %s) has %d G1 points, want %d", c.name, lastRel[i], sb.Size(), n)
		}
		for j := 0; j < n; j++ {
			if !c.k.PtEqual(a.G1(j), sb.G1(j)) {
				t.Fatalf("%s: Seal of the restored transcript (receiver %s): Pk.G1[%d] differs from Seal of the original", c.name, lastRel[i], j)
			}
		}
		if !bytes.Equal(a.VkMem(), sb.VkMem()) {
			g1 := c.k.PtEqual(a.VkG1(), sb.VkG1())
			t.Fatalf("%s: Seal of the restored transcript (receiver %s) gives a different verifying key than Seal of the original (Vk.G1 equal: %v, restored Vk.G1 is infinity: %v)",
				c.name, lastRel[i], g1, c.k.PtIsInf(sb.VkG1()))
		}
		if rc == last {
			b = sb
		}
	}
	if !b.LinesConsistent() {
		t.Fatalf("%s: sealed SRS: Vk.Lines are not the precomputed lines of Vk.G2", c.name)
	}
	// the sealed SRS (trapdoor unknown) is complete
	p, _ := c.drawPoly(t, drawLen(t, n, "len"), "p")
	pt, _ := c.scalar(t, "z")
	dig, err := c.k.Commit(b, p)
	if err != nil {
		t.Fatalf("%s: Commit with the sealed SRS: %v", c.name, err)
	}
	pr, err := c.k.Open(b, p, pt)
	if err != nil {
		t.Fatalf("%s: Open with the sealed SRS (len %d): %v", c.name, len(p), err)
	}
	e := c.F
	_ = e
	if err := c.k.Verify(b, dig, pr, pt); err != nil {
		t.Fatalf("%s: the SRS sealed from a restored transcript rejects its own honest opening: %v", c.name, err)
	}
	bad := inst.KProof{H: pr.H, V: c.F.Add(pr.V, bi(1))}
	if err := c.k.Verify(b, dig, bad, pt); err == nil {
		t.Fatalf("%s: the sealed SRS accepts a wrong claimed value", c.name)
	}
	rep.Case(test, fmt.Sprintf("%s mpc seal n=%d rounds=%d beacon=%x p=%s z=%s", c.name, n, rounds, beacon, hxs(p), hx(pt)), true, "serial:MpcSetup:seal", lenClass(len(p), n))
}

func TestC11_Mpc(t *testing.T) {
	forCurves(t, func(t *testing.T, c *cx) {
		rapid.Check(t, func(t *rapid.T) { propMpc(t, c) })
	})
}

// propVkReuse: one verifying key used for a history of verifications (true and false claims, all
// three entry points, twice, the second time in reverse order) gives the reference verdict every
// time and its memory (G1, G2 and the precomputed lines) is left unchanged.
func propVkReuse(t *rapid.T, c *cx) {
	s, scls := c.newSRS(t, 2, true)
	e := s.E
	snap := s.S.VkMem()
	n := rapid.IntRange(4, 10).Draw(t, "n")
	type job struct {
		run  func() error
		want bool
		desc string
	}
	var jobs []job
	maxBatch := 0
	for i := 0; i < n; i++ {
		switch rapid.IntRange(0, 3).Draw(t, "kind") {
		case 0, 1:
			u, _ := c.drawTuple(t, e, fmt.Sprintf("t%d", i), "")
			d, pr := c.proofOf(u, false)
			jobs = append(jobs, job{func() error { return c.k.Verify(s.S, d, pr, u.Z) }, e.Holds(u.C, u.H, u.V, u.Z), "single " + u.String()})
		case 2:
			u1, _ := c.drawTuple(t, e, fmt.Sprintf("a%d", i), "")
			u2, _ := c.drawTuple(t, e, fmt.Sprintf("b%d", i), "")
			d1, p1 := c.proofOf(u1, false)
			d2, p2 := c.proofOf(u2, false)
			w := e.Holds(u1.C, u1.H, u1.V, u1.Z) && e.Holds(u2.C, u2.H, u2.V, u2.Z)
			jobs = append(jobs, job{func() error {
				return c.k.BatchVerifyMultiPoints(s.S, []inst.KPoint{d1, d2}, []inst.KProof{p1, p2}, []*big.Int{u1.Z, u2.Z})
			}, w, "multi " + u1.String() + " | " + u2.String()})
		default:
			u, _ := c.drawTuple(t, e, fmt.Sprintf("s%d", i), "")
			// a batch whose first claim is the drawn tuple (γ^0 = 1) and whose other m-1 claims have c_i = v_i,
			// so the folded relation is the plain relation of the tuple; m around the block thresholds
			m := rapid.SampledFrom([]int{1, 1, 2, 15, 16, 17, 32}).Draw(t, fmt.Sprintf("m%d", i))
			d, pr := c.proofOf(u, false)
			ds, vs := []inst.KPoint{d}, []*big.Int{u.V}
			for j := 1; j < m; j++ {
				v := bi(int64(1000*i + j))
				ds, vs = append(ds, c.k.G1Base(v)), append(vs, v)
			}
			if m > maxBatch {
				maxBatch = m
			}
			jobs = append(jobs, job{func() error {
				return c.k.BatchVerifySinglePoint(s.S, ds, inst.KBatchProof{H: pr.H, Vs: vs}, u.Z, sha256.New())
			}, e.Holds(u.C, u.H, u.V, u.Z), fmt.Sprintf("batch%d ", m) + u.String()})
		}
	}
	key := fmt.Sprintf("%s vkreuse %s tau=%s", c.name, s.Kind, hx(s.Tau))
	acc := 0
	check := func(pass string, i int) {
		err := jobs[i].run()
		if (err == nil) != jobs[i].want {
			t.Fatalf("%s: %s pass, verification %d of %d sharing one key (%s): got %v, reference says %v", c.name, pass, i, len(jobs), jobs[i].desc, err, jobs[i].want)
		}
		if !bytes.Equal(snap, s.S.VkMem()) {
			t.Fatalf("%s: verifying key memory changed after verification %d (%s)", c.name, i, jobs[i].desc)
		}
		if err == nil {
			acc++
		}
	}
	for i := range jobs {
		check("first", i)
		key += " [" + jobs[i].desc + "]"
	}
	for i := len(jobs) - 1; i >= 0; i-- {
		check("second", i)
	}
	cls := append([]string{scls, "history:vk_reuse", fmt.Sprintf("history:len=%d", 2*len(jobs)), fmt.Sprintf("history:accepts>0=%v", acc > 0)}, purityCls()...)
	if maxBatch >= 16 {
		cls = append(cls, "batch>=16")
	}
	rep.Case("C11_VkReuse/"+c.name, key, true, cls...)
}

func TestC11_VkReuse(t *testing.T) {
	forCurves(t, func(t *testing.T, c *cx) {
		rapid.Check(t, func(t *rapid.T) { propVkReuse(t, c) })
	})
}
