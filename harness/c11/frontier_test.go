package c11

import (
	"crypto/sha256"
	"fmt"
	"math/big"
	"testing"

	"pgregory.net/rapid"

	"verif/harness/internal/inst"
	"verif/harness/internal/ref"
	"verif/harness/internal/rep"
)

// tuple is a claim (commitment [C]G1, quotient [H]G1, value V, point Z) given by scalars.
type tuple struct{ C, H, V, Z *big.Int }

func (u tuple) String() string {
	return fmt.Sprintf("c=%s h=%s v=%s z=%s", hx(u.C), hx(u.H), hx(u.V), hx(u.Z))
}

// forceTrue solves the relation c − v = (τ − z)·h for one of the four variables.
func (c *cx) forceTrue(e *ref.Exponent, u tuple, which string) (tuple, string) {
	F := c.F
	d := F.Sub(e.Tau, u.Z)
	switch which {
	case "v":
		u.V = F.Sub(u.C, F.Mul(d, u.H))
		return u, "solve:v"
	case "h":
		if d.Sign() != 0 {
			u.H = F.Mul(F.Sub(u.C, u.V), F.Inv(d))
			return u, "solve:h"
		}
	case "z":
		if u.H.Sign() != 0 {
			u.Z = F.Sub(e.Tau, F.Mul(F.Sub(u.C, u.V), F.Inv(u.H)))
			return u, "solve:z"
		}
	}
	u.C = F.Add(u.V, F.Mul(d, u.H))
	return u, "solve:c"
}

var nearMisses = []string{"v+1", "v-1", "z+1", "z-1", "h*2", "h+1", "-h", "c+1", "c-1", "-c", "swap_c_h", "swap_v_z", "c<->v"}

func (c *cx) perturb(u tuple, how string) tuple {
	F := c.F
	one := bi(1)
	switch how {
	case "v+1":
		u.V = F.Add(u.V, one)
	case "v-1":
		u.V = F.Sub(u.V, one)
	case "z+1":
		u.Z = F.Add(u.Z, one)
	case "z-1":
		u.Z = F.Sub(u.Z, one)
	case "h*2":
		u.H = F.Add(u.H, u.H)
	case "h+1":
		u.H = F.Add(u.H, one)
	case "-h":
		u.H = F.Neg(u.H)
	case "c+1":
		u.C = F.Add(u.C, one)
	case "c-1":
		u.C = F.Sub(u.C, one)
	case "-c":
		u.C = F.Neg(u.C)
	case "swap_c_h":
		u.C, u.H = u.H, u.C
	case "swap_v_z":
		u.V, u.Z = u.Z, u.V
	case "c<->v":
		u.C, u.V = u.V, u.C
	}
	return u
}

// wrongRelations are the relations a plausibly broken verifier would check instead; tuples that
// satisfy one of them (and, generically, not the true one) must be rejected.
var wrongRelations = []string{"plus_z", "negated", "g2_swapped", "point_ignored", "value_ignored", "tau_ignored", "tau_is_one"}

func (c *cx) forceWrong(e *ref.Exponent, u tuple, rel string) tuple {
	F := c.F
	switch rel {
	case "plus_z": // c − v = (τ + z)h
		u.C = F.Add(u.V, F.Mul(F.Add(e.Tau, u.Z), u.H))
	case "negated": // v − c = (τ − z)h
		u.C = F.Sub(u.V, F.Mul(F.Sub(e.Tau, u.Z), u.H))
	case "g2_swapped": // e(·,[τ]G2)·e(·,G2) exchanged: (c − v + zh)·τ = h
		if e.Tau.Sign() != 0 {
			u.C = F.Add(F.Sub(u.V, F.Mul(u.Z, u.H)), F.Mul(u.H, F.Inv(e.Tau)))
		}
	case "point_ignored": // c − v = τh
		u.C = F.Add(u.V, F.Mul(e.Tau, u.H))
	case "value_ignored": // c = (τ − z)h
		u.C = F.Mul(F.Sub(e.Tau, u.Z), u.H)
	case "tau_ignored": // c − v = −zh
		u.C = F.Sub(u.V, F.Mul(u.Z, u.H))
	case "tau_is_one": // c − v = (1 − z)h
		u.C = F.Add(u.V, F.Mul(F.Sub(bi(1), u.Z), u.H))
	}
	return u
}

func tupleClasses(e *ref.Exponent, u tuple) []string {
	var cls []string
	if u.H.Sign() == 0 {
		cls = append(cls, "H=infinity")
	}
	if u.C.Sign() == 0 {
		cls = append(cls, "C=infinity")
	}
	if u.V.Sign() == 0 {
		cls = append(cls, "v=0")
	}
	if u.Z.Cmp(e.Tau) == 0 {
		cls = append(cls, "z:tau")
	}
	if u.Z.Sign() == 0 {
		cls = append(cls, "z=0")
	}
	return cls
}

// drawTuple draws a claim: ½ true by construction, ¼ a near miss of a true claim, ⅛ a claim that
// satisfies a wrong relation, ⅛ unconstrained. The reference decides what it actually is.
func (c *cx) drawTuple(t *rapid.T, e *ref.Exponent, label string, forceMode string) (tuple, []string) {
	var u tuple
	u.C, _ = c.scalar(t, label+"c")
	u.H, _ = c.scalar(t, label+"h")
	u.V, _ = c.scalar(t, label+"v")
	u.Z, _ = c.point(t, e.Tau, label+"z")
	mode := forceMode
	if mode == "" {
		mode = rapid.SampledFrom([]string{"true", "true", "true", "true", "near", "near", "wrong", "free"}).Draw(t, label+"mode")
	}
	cls := []string{"mode:" + mode}
	switch mode {
	case "true":
		var how string
		u, how = c.forceTrue(e, u, rapid.SampledFrom([]string{"c", "v", "h", "z"}).Draw(t, label+"solve"))
		cls = append(cls, how)
	case "near":
		u, _ = c.forceTrue(e, u, rapid.SampledFrom([]string{"c", "v", "h", "z"}).Draw(t, label+"solve"))
		how := rapid.SampledFrom(nearMisses).Draw(t, label+"near")
		u = c.perturb(u, how)
		cls = append(cls, "near:"+how)
	case "wrong":
		rel := rapid.SampledFrom(wrongRelations).Draw(t, label+"rel")
		u = c.forceWrong(e, u, rel)
		cls = append(cls, "wrong:"+rel)
	}
	return u, cls
}

func (c *cx) proofOf(u tuple, viaRef bool) (inst.KPoint, inst.KProof) {
	return c.mk(u.C, viaRef).P, inst.KProof{H: c.mk(u.H, viaRef).P, V: u.V}
}

// propFrontier: Verify returns nil exactly when c − v = (τ − z)h.
func propFrontier(t *rapid.T, c *cx) {
	s, scls := c.newSRS(t, 2, true)
	u, cls := c.drawTuple(t, s.E, "", "")
	viaRef := rapid.Bool().Draw(t, "viaRef")
	want := s.E.Holds(u.C, u.H, u.V, u.Z)
	dig, pr := c.proofOf(u, viaRef)
	err := c.k.Verify(s.S, dig, pr, u.Z)
	if (err == nil) != want {
		t.Fatalf("%s: Verify returned %v but the relation c-v=(tau-z)h is %v for tau=%s %s (%v)", c.name, err, want, hx(s.Tau), u, cls)
	}
	cls = append(cls, tupleClasses(s.E, u)...)
	cls = append(cls, scls, "tuple:"+verdict(err), "frontier:single")
	cls = append(cls, purityCls()...)
	if viaRef {
		cls = append(cls, "points:reference")
	} else {
		cls = append(cls, "points:library")
	}
	rep.Case("C11_Frontier/"+c.name, fmt.Sprintf("%s %s tau=%s %s", c.name, s.Kind, hx(s.Tau), u), true, dedup(cls)...)
}

func TestC11_Frontier(t *testing.T) {
	forCurves(t, func(t *testing.T, c *cx) {
		rapid.Check(t, func(t *rapid.T) { propFrontier(t, c) })
	})
}

// ---- batched single point -------------------------------------------------------------------------

// btuple is a batched claim in scalars.
type btuple struct {
	Cs, Vs []*big.Int
	H, Z   *big.Int
	Data   [][]byte
}

func (b btuple) String() string {
	return fmt.Sprintf("cs=%s vs=%s h=%s z=%s data=%x", hxs(b.Cs), hxs(b.Vs), hx(b.H), hx(b.Z), b.Data)
}

// bpoints materialises the digests (equal scalars share one point value).
func (c *cx) bpoints(cs []*big.Int, viaRef bool) []inst.KPoint {
	out := make([]inst.KPoint, len(cs))
	memo := map[string]inst.KPoint{}
	for i, k := range cs {
		if p, ok := memo[k.String()]; ok {
			out[i] = p
			continue
		}
		out[i] = c.mk(k, viaRef).P
		memo[k.String()] = out[i]
	}
	return out
}

// batchWant evaluates the folded relation with γ recomputed from exactly what the verifier sees.
func (c *cx) batchWant(e *ref.Exponent, hname string, b btuple, digests []inst.KPoint) (bool, *big.Int) {
	if len(b.Cs) != len(b.Vs) {
		return false, nil
	}
	g := c.gamma(hname, b.Z, digests, b.Vs, b.Data)
	if g == nil {
		return false, nil
	}
	return e.BatchHolds(b.Cs, b.Vs, b.H, b.Z, g), g
}

var batchNear = []string{"h+1", "h*2", "-h", "v_j+1", "v_j-1", "c_j+1", "swap_digests", "swap_values", "swap_both", "z+1", "data_changed", "drop_last", "dup_first"}

// propFrontierBatch: BatchVerifySinglePoint returns nil exactly when Σγ^i(c_i − v_i) = (τ − z)h for
// the γ of the transcript the verifier is given; FoldProof returns the reference folding.
func propFrontierBatch(t *rapid.T, c *cx) {
	s, scls := c.newSRS(t, 2, true)
	e, F := s.E, c.F
	n := drawBatchCount(t, 8, 3, "n")
	viaRef := rapid.IntRange(0, 3).Draw(t, "viaRef") == 0 && n < 15
	var b btuple
	for i := 0; i < n; i++ {
		ck, _ := c.scalar(t, "c")
		vk, _ := c.scalar(t, "v")
		if i > 0 && rapid.IntRange(0, 5).Draw(t, "dup") == 0 {
			ck = b.Cs[rapid.IntRange(0, i-1).Draw(t, "dupof")]
		}
		b.Cs, b.Vs = append(b.Cs, ck), append(b.Vs, vk)
	}
	b.Z, _ = c.point(t, s.Tau, "z")
	b.H, _ = c.scalar(t, "h")
	hname := c.drawHash(t)
	b.Data = drawData(t, hname)
	mode := rapid.SampledFrom([]string{"true", "true", "true", "true", "near", "near", "wrong", "free"}).Draw(t, "mode")
	cls := []string{"mode:" + mode}
	// solve makes the claim true: h from the folded difference, or (z = τ) every v_i := c_i
	solve := func(fold func(a []*big.Int, g *big.Int) *big.Int) {
		d := F.Sub(e.Tau, b.Z)
		if d.Sign() == 0 {
			b.Vs = append([]*big.Int{}, b.Cs...)
			return
		}
		g := c.gamma(hname, b.Z, c.bpoints(b.Cs, false), b.Vs, b.Data)
		if g == nil { // inadmissible MiMC block (probability ~2^-127 per coordinate): keep the drawn h
			return
		}
		b.H = F.Mul(F.Sub(fold(b.Cs, g), fold(b.Vs, g)), F.Inv(d))
	}
	switch mode {
	case "true":
		solve(e.Fold)
	case "near":
		solve(e.Fold)
		how := rapid.SampledFrom(batchNear).Draw(t, "near")
		j := rapid.IntRange(0, n-1).Draw(t, "j")
		j2 := rapid.IntRange(0, n-1).Draw(t, "j2")
		b.Cs, b.Vs = append([]*big.Int{}, b.Cs...), append([]*big.Int{}, b.Vs...)
		switch how {
		case "h+1":
			b.H = F.Add(b.H, bi(1))
		case "h*2":
			b.H = F.Add(b.H, b.H)
		case "-h":
			b.H = F.Neg(b.H)
		case "v_j+1":
			b.Vs[j] = F.Add(b.Vs[j], bi(1))
		case "v_j-1":
			b.Vs[j] = F.Sub(b.Vs[j], bi(1))
		case "c_j+1":
			b.Cs[j] = F.Add(b.Cs[j], bi(1))
		case "swap_digests":
			b.Cs[j], b.Cs[j2] = b.Cs[j2], b.Cs[j]
		case "swap_values":
			b.Vs[j], b.Vs[j2] = b.Vs[j2], b.Vs[j]
		case "swap_both":
			b.Cs[j], b.Cs[j2] = b.Cs[j2], b.Cs[j]
			b.Vs[j], b.Vs[j2] = b.Vs[j2], b.Vs[j]
		case "z+1":
			b.Z = F.Add(b.Z, bi(1))
		case "data_changed":
			b.Data = append(append([][]byte{}, b.Data...), []byte{1})
		case "drop_last":
			if n > 1 {
				b.Cs, b.Vs = b.Cs[:n-1], b.Vs[:n-1]
			}
		case "dup_first":
			b.Cs, b.Vs = append(b.Cs, b.Cs[0]), append(b.Vs, b.Vs[0])
		}
		cls = append(cls, "near:"+how)
	case "wrong":
		// claims that satisfy the relation under a wrong folding
		rel := rapid.SampledFrom([]string{"gamma_offset", "reversed", "gamma_one", "unfolded_first"}).Draw(t, "rel")
		switch rel {
		case "gamma_offset": // Σ γ^(i+1) a_i
			solve(func(a []*big.Int, g *big.Int) *big.Int { return F.Mul(g, e.Fold(a, g)) })
		case "reversed": // Σ γ^(n-1-i) a_i
			solve(func(a []*big.Int, g *big.Int) *big.Int {
				r := make([]*big.Int, len(a))
				for i := range a {
					r[len(a)-1-i] = a[i]
				}
				return e.Fold(r, g)
			})
		case "gamma_one": // Σ a_i
			solve(func(a []*big.Int, g *big.Int) *big.Int { return e.Fold(a, bi(1)) })
		case "unfolded_first": // a_0 only
			solve(func(a []*big.Int, g *big.Int) *big.Int { return a[0] })
		}
		cls = append(cls, "wrong:"+rel)
	}
	digests := c.bpoints(b.Cs, viaRef)
	want, g := c.batchWant(e, hname, b, digests)
	bp := inst.KBatchProof{H: c.mk(b.H, viaRef).P, Vs: b.Vs}
	hf := c.newHash(hname)
	err := c.k.BatchVerifySinglePoint(s.S, digests, bp, b.Z, hf, b.Data...)
	if (err == nil) != want {
		t.Fatalf("%s: BatchVerifySinglePoint returned %v but the folded relation is %v (gamma=%s tau=%s %s %v)", c.name, err, want, hx(g), hx(s.Tau), b, cls)
	}
	// FoldProof in the exponent
	if g == nil { // the transcript rejected an input: both entry points must have returned an error
		rep.Case("C11_FrontierBatch/"+c.name, fmt.Sprintf("%s %s tau=%s %s", c.name, s.Kind, hx(s.Tau), b), true, "tuple:reject", "hash:"+hname, "transcript_error")
		return
	}
	fp, fd, ferr := c.k.FoldProof(digests, bp, b.Z, hf, b.Data...)
	if ferr != nil {
		t.Fatalf("%s: FoldProof failed on %d digests / %d values: %v", c.name, len(digests), len(b.Vs), ferr)
	}
	if w := e.Fold(b.Vs, g); fp.V.Cmp(w) != 0 {
		t.Fatalf("%s: FoldProof.ClaimedValue=%s want %s (gamma=%s, %s)", c.name, hx(fp.V), hx(w), hx(g), b)
	}
	c.is(t, "FoldProof digest", fd, e.Fold(b.Cs, g), false)
	if !c.k.PtEqual(fp.H, bp.H) {
		t.Fatalf("%s: FoldProof changed H", c.name)
	}
	m := len(b.Cs)
	cls = append(cls, scls, "tuple:"+verdict(err), "frontier:batch", fmt.Sprintf("batch:%d", m), "hash:"+hname)
	cls = append(cls, purityCls()...)
	if m >= 2 {
		cls = append(cls, "batch>=2")
	}
	if m >= 16 {
		cls = append(cls, "batch>=16")
	}
	if b.Z.Cmp(s.Tau) == 0 {
		cls = append(cls, "z:tau")
	}
	if b.H.Sign() == 0 {
		cls = append(cls, "H=infinity")
	}
	rep.Case("C11_FrontierBatch/"+c.name, fmt.Sprintf("%s %s tau=%s %s", c.name, s.Kind, hx(s.Tau), b), true, dedup(cls)...)
}

func TestC11_FrontierBatch(t *testing.T) {
	forCurves(t, func(t *testing.T, c *cx) {
		rapid.Check(t, func(t *rapid.T) { propFrontierBatch(t, c) })
	})
}

// propFrontierMulti: BatchVerifyMultiPoints returns nil when every claim's relation holds and an
// error when at least one does not (the library's random combination lets a false batch through
// with probability 1/r only; the verdict does not otherwise depend on that randomness).
func propFrontierMulti(t *rapid.T, c *cx) {
	s, scls := c.newSRS(t, 2, true)
	e := s.E
	n := drawBatchCount(t, 6, 6, "n")
	if n > 33 {
		n = 33
	}
	// ½ all claims true, ¼ exactly one drawn claim not forced true, ¼ every claim drawn freely
	// (and, for n >= 2, true claims with two errors that cancel under the combination λ = (1,…,1))
	shape := rapid.SampledFrom([]string{"all_true", "all_true", "all_true", "one_other", "one_other", "mixed", "mixed", "cancelling_pair"}).Draw(t, "shape")
	odd := rapid.IntRange(0, n-1).Draw(t, "odd")
	viaRef := rapid.IntRange(0, 3).Draw(t, "viaRef") == 0 && n < 15
	var us []tuple
	var cls []string
	want := true
	nfalse := 0
	key := fmt.Sprintf("%s %s tau=%s", c.name, s.Kind, hx(s.Tau))
	for i := 0; i < n; i++ {
		mode := ""
		if shape == "all_true" || shape == "cancelling_pair" || (shape == "one_other" && i != odd) {
			mode = "true"
		} else if shape == "one_other" {
			mode = rapid.SampledFrom([]string{"near", "near", "wrong", "free"}).Draw(t, "oddmode")
		}
		u, cl := c.drawTuple(t, e, fmt.Sprintf("t%d", i), mode)
		if i > 0 && rapid.IntRange(0, 5).Draw(t, "samepoint") == 0 {
			// same evaluation point as the previous claim (re-solved so the drawn mode is kept for "true")
			u.Z = us[i-1].Z
			if mode == "true" || cl[0] == "mode:true" {
				u, _ = c.forceTrue(e, u, "c")
			}
			cl = append(cl, "shared_point")
		}
		ok := e.Holds(u.C, u.H, u.V, u.Z)
		if !ok {
			want = false
			nfalse++
		}
		us = append(us, u)
		cls = append(cls, cl...)
		cls = append(cls, tupleClasses(e, u)...)
		key += " {" + u.String() + "}"
	}
	if shape == "cancelling_pair" && n >= 2 {
		delta, _ := c.scalar(t, "delta")
		k := (odd + 1 + rapid.IntRange(0, n-2).Draw(t, "pair")) % n
		us[odd].C = c.F.Add(us[odd].C, delta)
		us[k].C = c.F.Sub(us[k].C, delta)
		want, nfalse = true, 0
		for _, u := range us {
			if !e.Holds(u.C, u.H, u.V, u.Z) {
				want = false
				nfalse++
			}
		}
		key += fmt.Sprintf(" cancelling delta=%s at %d,%d", hx(delta), odd, k)
	}
	var ds []inst.KPoint
	var prs []inst.KProof
	var zs []*big.Int
	for _, u := range us {
		d, pr := c.proofOf(u, viaRef)
		ds, prs, zs = append(ds, d), append(prs, pr), append(zs, u.Z)
	}
	err := c.k.BatchVerifyMultiPoints(s.S, ds, prs, zs)
	if (err == nil) != want {
		t.Fatalf("%s: BatchVerifyMultiPoints returned %v but %d of %d claims are false (%s)", c.name, err, nfalse, n, key)
	}
	cls = append(cls, scls, "tuple:"+verdict(err), "frontier:multi", fmt.Sprintf("multi:%d", n), fmt.Sprintf("false_claims:%d", min(nfalse, 3)), "shape:"+shape)
	if nfalse == 1 && !e.Holds(us[n-1].C, us[n-1].H, us[n-1].V, us[n-1].Z) {
		cls = append(cls, "only_last_false")
	}
	if nfalse == 1 && !e.Holds(us[0].C, us[0].H, us[0].V, us[0].Z) {
		cls = append(cls, "only_first_false")
	}
	if n >= 2 {
		cls = append(cls, "batch>=2")
	}
	if n >= 16 {
		cls = append(cls, "batch>=16")
	}
	cls = append(cls, purityCls()...)
	rep.Case("C11_FrontierMulti/"+c.name, key, true, dedup(cls)...)
}

func TestC11_FrontierMulti(t *testing.T) {
	forCurves(t, func(t *testing.T, c *cx) {
		rapid.Check(t, func(t *rapid.T) { propFrontierMulti(t, c) })
	})
}

// TestC11_BatchArity: the documented length checks of the batch entry points.
func TestC11_BatchArity(t *testing.T) {
	forCurves(t, func(t *testing.T, c *cx) {
		s, err := c.k.NewSRS(2, bi(5))
		if err != nil {
			t.Fatal(err)
		}
		e := ref.NewExponent(c.R, bi(5))
		u, _ := c.forceTrue(e, tuple{bi(7), bi(3), bi(2), bi(9)}, "c")
		d, pr := c.proofOf(u, false)
		test := "C11_BatchArity/" + c.name
		// one digest, two claimed values
		if err := c.k.BatchVerifySinglePoint(s, []inst.KPoint{d}, inst.KBatchProof{H: pr.H, Vs: []*big.Int{u.V, u.V}}, u.Z, sha256.New()); err == nil {
			t.Fatalf("%s: BatchVerifySinglePoint accepted 1 digest with 2 claimed values", c.name)
		}
		rep.Case(test, c.name+" single: 1 digest 2 values", true, "arity_mismatch", "tuple:reject")
		if err := c.k.BatchVerifyMultiPoints(s, []inst.KPoint{d, d}, []inst.KProof{pr}, []*big.Int{u.Z, u.Z}); err == nil {
			t.Fatalf("%s: BatchVerifyMultiPoints accepted 2 digests with 1 proof", c.name)
		}
		rep.Case(test, c.name+" multi: 2 digests 1 proof", true, "arity_mismatch", "tuple:reject")
		if err := c.k.BatchVerifyMultiPoints(s, []inst.KPoint{d, d}, []inst.KProof{pr, pr}, []*big.Int{u.Z}); err == nil {
			t.Fatalf("%s: BatchVerifyMultiPoints accepted 2 digests with 1 point", c.name)
		}
		rep.Case(test, c.name+" multi: 2 digests 1 point", true, "arity_mismatch", "tuple:reject")
		if err := c.k.BatchVerifyMultiPoints(s, nil, nil, nil); err == nil {
			t.Fatalf("%s: BatchVerifyMultiPoints accepted an empty batch (documented ErrZeroNbDigests)", c.name)
		}
		rep.Case(test, c.name+" multi: empty", true, "arity_zero", "tuple:reject")
		// sanity: the well-formed claim is accepted through all three entry points
		if err := c.k.Verify(s, d, pr, u.Z); err != nil {
			t.Fatalf("%s: Verify rejected a true claim: %v", c.name, err)
		}
		if err := c.k.BatchVerifyMultiPoints(s, []inst.KPoint{d, d}, []inst.KProof{pr, pr}, []*big.Int{u.Z, u.Z}); err != nil {
			t.Fatalf("%s: BatchVerifyMultiPoints rejected a true claim listed twice: %v", c.name, err)
		}
		rep.Case(test, c.name+" multi: same true claim twice", true, "tuple:accept")
	})
}
