package c11

import (
	"crypto/sha256"
	"fmt"
	"hash"
	"math/big"
	"testing"

	fiatshamir "github.com/consensys/gnark-crypto/fiat-shamir"
	"pgregory.net/rapid"

	"verif/harness/internal/inst"
	"verif/harness/internal/ref"
	"verif/harness/internal/reg"
	"verif/harness/internal/rep"
)

// honest is one honest opening with everything tracked in the exponent.
type honest struct {
	P    []*big.Int
	Z    *big.Int
	C    xp // commitment, K = p(τ)
	H    xp // quotient, K = q(τ)
	V    *big.Int
	Pr   inst.KProof
	PCls string
	ZCls string
}

// open commits to p and opens it at z with the library, and checks every output against the
// reference: digest = [p(τ)]G1, ClaimedValue = p(z), H = [q(τ)]G1 with q = (p − p(z))/(X − z).
func (c *cx) open(t fataler, s *srsT, p []*big.Int, z *big.Int, viaRef bool, nbTasks ...int) *honest {
	e := s.E
	dig, err := c.k.Commit(s.S, p, nbTasks...)
	if err != nil {
		t.Fatalf("%s: Commit(len %d, srs %d, nbTasks %v) failed: %v", c.name, len(p), s.S.Size(), nbTasks, err)
	}
	ck := e.Commit(p)
	c.is(t, fmt.Sprintf("Commit(len %d)", len(p)), dig, ck, viaRef)
	pr, err := c.k.Open(s.S, p, z)
	if err != nil {
		t.Fatalf("%s: Open failed on a polynomial with %d coefficient(s) (srs size %d, z=%s): %v", c.name, len(p), s.S.Size(), hx(z), err)
	}
	q, v := e.Quotient(p, z)
	if v.Cmp(e.Horner(p, z)) != 0 {
		t.Fatalf("reference inconsistency: remainder != Horner")
	}
	if pr.V.Cmp(v) != 0 {
		t.Fatalf("%s: Open(len %d).ClaimedValue = %s, p(z) = %s (z=%s)", c.name, len(p), hx(pr.V), hx(v), hx(z))
	}
	hk := e.Commit(q)
	c.is(t, fmt.Sprintf("Open(len %d).H", len(p)), pr.H, hk, viaRef)
	if !e.Holds(ck, hk, v, z) {
		t.Fatalf("reference inconsistency: honest tuple does not satisfy the relation")
	}
	return &honest{P: p, Z: z, C: xp{ck, dig}, H: xp{hk, pr.H}, V: v, Pr: pr}
}

// drawHonestInput draws (p, z) for an SRS: length class, coefficient class, point class, and with
// probability 1/4 makes z a root of p by construction.
func (c *cx) drawHonestInput(t *rapid.T, s *srsT, label string) (p []*big.Int, z *big.Int, cls []string, nontrivial bool) {
	size := s.S.Size()
	n := drawLen(t, size, label+"len")
	p, pcls := c.drawPoly(t, n, label+"p")
	z, zcls := c.point(t, s.Tau, label+"z")
	if rapid.IntRange(0, 3).Draw(t, label+"root") == 0 {
		p = c.withRoot(s.E, p, z)
		if isZero(p) {
			pcls = "zero"
		}
	}
	cls = []string{lenClass(n, size), "p:" + pcls, "z:" + zcls}
	root := s.E.Horner(p, z).Sign() == 0
	if root {
		cls = append(cls, "z:root")
	}
	if s.E.Commit(p).Sign() == 0 {
		cls = append(cls, "digest:infinity")
	}
	nontrivial = n == 1 || n == size || pcls == "zero" || root || z.Cmp(s.Tau) == 0
	return
}

func drawTasks(t *rapid.T) []int {
	switch rapid.IntRange(0, 4).Draw(t, "nbTasks") {
	case 0:
		return []int{1}
	case 1:
		return []int{2}
	case 2:
		return []int{7}
	default:
		return nil
	}
}

// propComplete: one SRS, one honest opening; Commit/Open/Verify must succeed and agree with the
// reference in every output.
func propComplete(t *rapid.T, c *cx) {
	size := drawSize(t, rep.Scale(64, 4096))
	s, scls := c.newSRS(t, size, true)
	p, z, cls, nt := c.drawHonestInput(t, s, "")
	viaRef := rapid.Bool().Draw(t, "viaRef")
	h := c.open(t, s, p, z, viaRef, drawTasks(t)...)
	if err := c.k.Verify(s.S, h.C.P, h.Pr, z); err != nil {
		t.Fatalf("%s: Verify rejected an honest opening (srs %d/%s tau=%s, len(p)=%d p=%s, z=%s): %v",
			c.name, size, s.Kind, hx(s.Tau), len(p), hxs(p), hx(z), err)
	}
	key := fmt.Sprintf("%s size=%d %s tau=%s p=%s z=%s", c.name, size, s.Kind, hx(s.Tau), hxs(p), hx(z))
	cls = append(cls, scls, sizeClass(size), "honest:single")
	cls = append(cls, purityCls()...)
	rep.Case("C11_Complete/"+c.name, key, nt, dedup(cls)...)
}

func TestC11_Complete(t *testing.T) {
	forCurves(t, func(t *testing.T, c *cx) {
		rapid.Check(t, func(t *rapid.T) { propComplete(t, c) })
	})
}

// propAllLengths: one SRS, then every polynomial length 1..size is committed, opened and verified.
func propAllLengths(t *rapid.T, c *cx) {
	size := rapid.IntRange(2, rep.Scale(20, 96)).Draw(t, "size")
	s, scls := c.newSRS(t, size, true)
	full, _ := c.drawPoly(t, size, "p")
	zs := []*big.Int{}
	zc := []string{}
	for i := 0; i < 3; i++ {
		z, cl := c.point(t, s.Tau, fmt.Sprintf("z%d", i))
		zs, zc = append(zs, z), append(zc, cl)
	}
	for n := 1; n <= size; n++ {
		p := full[:n]
		z, zcls := zs[n%3], zc[n%3]
		if n%4 == 3 { // make z a root
			p = c.withRoot(s.E, p, z)
		}
		h := c.open(t, s, p, z, false)
		if err := c.k.Verify(s.S, h.C.P, h.Pr, z); err != nil {
			t.Fatalf("%s: Verify rejected an honest opening (srs %d tau=%s, len(p)=%d p=%s, z=%s): %v",
				c.name, size, hx(s.Tau), len(p), hxs(p), hx(z), err)
		}
		cls := []string{lenClass(n, size), "z:" + zcls, scls, "honest:single", "sweep"}
		root := h.V.Sign() == 0
		if root {
			cls = append(cls, "z:root")
		}
		if isZero(p) {
			cls = append(cls, "p:zero")
		}
		key := fmt.Sprintf("%s sweep size=%d tau=%s n=%d p=%s z=%s", c.name, size, hx(s.Tau), n, hxs(p), hx(z))
		rep.Case("C11_AllLengths/"+c.name, key, n == 1 || n == size || root || isZero(p) || z.Cmp(s.Tau) == 0, dedup(cls)...)
	}
}

func TestC11_AllLengths(t *testing.T) {
	forCurves(t, func(t *testing.T, c *cx) {
		rapid.Check(t, func(t *rapid.T) { propAllLengths(t, c) })
	})
}

// ---- batched openings at one point ---------------------------------------------------------------

// hbatch is an honest batch opening tracked in the exponent.
type hbatch struct {
	Ps    [][]*big.Int
	Z     *big.Int
	Cs    []xp
	Vs    []*big.Int
	Data  [][]byte
	Gamma *big.Int
	H     xp
	Bp    inst.KBatchProof
}

func (h *hbatch) digests() []inst.KPoint {
	d := make([]inst.KPoint, len(h.Cs))
	for i := range h.Cs {
		d[i] = h.Cs[i].P
	}
	return d
}

func (h *hbatch) cks() []*big.Int {
	d := make([]*big.Int, len(h.Cs))
	for i := range h.Cs {
		d[i] = h.Cs[i].K
	}
	return d
}

// newHash returns the transcript hash: "sha256", or "mimc" (the curve's MiMC, bn254 only).
func (c *cx) newHash(name string) hash.Hash {
	if name == "mimc" {
		return reg.Get("ecc/" + c.name + "/fr/mimc").F("NewMiMC")[0].(hash.Hash)
	}
	return sha256.New()
}

// drawHash: SHA-256; on bn254 MiMC in a quarter of the cases (the only curve where the transcript
// inputs are admissible MiMC blocks, see conf/c11.py).
func (c *cx) drawHash(t *rapid.T) string {
	if c.name == "bn254" && rapid.IntRange(0, 3).Draw(t, "mimc") == 0 {
		return "mimc"
	}
	return "sha256"
}

// gamma recomputes the folding challenge. For SHA-256 from the documented transcript layout with
// crypto/sha256 (ref.KZGGamma); for MiMC through the library's fiat-shamir package and MiMC (C14/C15
// decide those). nil when the MiMC transcript rejects an input block (then MiMC is not applicable).
func (c *cx) gamma(hname string, z *big.Int, digests []inst.KPoint, vs []*big.Int, data [][]byte) *big.Int {
	db := make([][]byte, len(digests))
	for i := range digests {
		db[i] = c.k.PtMarshal(digests[i])
	}
	vb := make([][]byte, len(vs))
	for i := range vs {
		vb[i] = c.frBytes(vs[i])
	}
	if hname == "sha256" {
		return ref.KZGGamma(c.R, c.frBytes(z), db, vb, data)
	}
	tr := fiatshamir.NewTranscript(c.newHash(hname), "gamma")
	all := append(append(append([][]byte{c.frBytes(z)}, db...), vb...), data...)
	for _, b := range all {
		if err := tr.Bind("gamma", b); err != nil {
			return nil
		}
	}
	g, err := tr.ComputeChallenge("gamma")
	if err != nil {
		return nil
	}
	v := new(big.Int).SetBytes(g)
	return v.Mod(v, c.R)
}

// mimcAdmissible: b is a list of canonical fr blocks.
func (c *cx) mimcAdmissible(b []byte) bool {
	n := c.k.FrBytes()
	if len(b)%n != 0 {
		return false
	}
	for i := 0; i < len(b); i += n {
		if new(big.Int).SetBytes(b[i:i+n]).Cmp(c.R) >= 0 {
			return false
		}
	}
	return true
}

// drawData draws the optional extra transcript data. For MiMC the items are admissible blocks: at
// most one block long, a full block has its top byte cleared (so it is a canonical fr element).
func drawData(t *rapid.T, hname string) [][]byte {
	n := rapid.SampledFrom([]int{0, 0, 1, 2}).Draw(t, "ndata")
	d := make([][]byte, n)
	for i := range d {
		if hname == "mimc" {
			d[i] = rapid.SliceOfN(rapid.Byte(), 1, 32).Draw(t, "data")
			if len(d[i]) == 32 {
				d[i][0] = 0
			}
			continue
		}
		d[i] = rapid.SliceOfN(rapid.Byte(), 0, 40).Draw(t, "data")
	}
	return d
}

// batchOpen commits to the polynomials, opens the batch at z with SHA-256 and checks every output
// against the reference (claimed values, H = [Σγ^i q_i(τ)]G1).
func (c *cx) batchOpen(t fataler, s *srsT, ps [][]*big.Int, z *big.Int, data [][]byte, viaRef bool, hname string) *hbatch {
	e := s.E
	h := &hbatch{Ps: ps, Z: z, Data: data}
	for i, p := range ps {
		d, err := c.k.Commit(s.S, p)
		if err != nil {
			t.Fatalf("%s: Commit(poly %d, len %d): %v", c.name, i, len(p), err)
		}
		ck := e.Commit(p)
		c.is(t, fmt.Sprintf("Commit(poly %d)", i), d, ck, false)
		h.Cs = append(h.Cs, xp{ck, d})
	}
	bp, err := c.k.BatchOpenSinglePoint(s.S, ps, h.digests(), z, c.newHash(hname), data...)
	if err != nil {
		t.Fatalf("%s: BatchOpenSinglePoint failed on %d polynomial(s) with %d coefficient(s) each (srs size %d): %v",
			c.name, len(ps), len(ps[0]), s.S.Size(), err)
	}
	if len(bp.Vs) != len(ps) {
		t.Fatalf("%s: BatchOpenSinglePoint returned %d claimed values for %d polynomials", c.name, len(bp.Vs), len(ps))
	}
	qk := make([]*big.Int, len(ps))
	for i, p := range ps {
		q, v := e.Quotient(p, z)
		if bp.Vs[i].Cmp(v) != 0 {
			t.Fatalf("%s: BatchOpenSinglePoint.ClaimedValues[%d] = %s, p(z) = %s", c.name, i, hx(bp.Vs[i]), hx(v))
		}
		h.Vs = append(h.Vs, v)
		qk[i] = e.Commit(q)
	}
	h.Gamma = c.gamma(hname, z, h.digests(), h.Vs, data)
	if h.Gamma == nil {
		t.Fatalf("%s: the library opened a batch over a %s transcript that the transcript itself rejects", c.name, hname)
	}
	hk := e.Fold(qk, h.Gamma)
	c.is(t, "BatchOpenSinglePoint.H (= [sum gamma^i q_i(tau)]G1 with the reference gamma)", bp.H, hk, viaRef)
	if !e.BatchHolds(h.cks(), h.Vs, hk, z, h.Gamma) {
		t.Fatalf("reference inconsistency: honest batch does not satisfy the folded relation")
	}
	h.H = xp{hk, bp.H}
	h.Bp = bp
	return h
}

// bigBatches: batch sizes around the thresholds at which implementations switch strategy (blocks of 16
// in the vector kernels, MSM window choices at 32/64 points).
var bigBatches = []int{15, 16, 17, 31, 32, 33, 64}

// drawBatchCount draws a batch size in 1..nmax, or with probability 1/bigOneIn (0: never) one of bigBatches.
func drawBatchCount(t *rapid.T, nmax, bigOneIn int, label string) int {
	if bigOneIn > 0 && rapid.IntRange(0, bigOneIn-1).Draw(t, label+"big") == 0 {
		return rapid.SampledFrom(bigBatches).Draw(t, label)
	}
	return rapid.IntRange(1, nmax).Draw(t, label)
}

func (c *cx) drawBatchInput(t *rapid.T, s *srsT, nmax, bigOneIn int) (ps [][]*big.Int, z *big.Int, cls []string, nt bool) {
	size := s.S.Size()
	nb := drawBatchCount(t, nmax, bigOneIn, "nb")
	n := drawLen(t, size, "len")
	if nb >= 15 && n > 4 && n != size { // many polynomials: keep them tiny (full-size ones only on small SRS)
		n = 1 + n%4
	}
	if nb >= 15 && n > 16 {
		n = 3
	}
	z, zcls := c.point(t, s.Tau, "z")
	cls = []string{lenClass(n, size), "z:" + zcls, fmt.Sprintf("batch:%d", nb)}
	nt = nb >= 2 || n == 1 || n == size || z.Cmp(s.Tau) == 0
	for i := 0; i < nb; i++ {
		var p []*big.Int
		if i > 0 && rapid.IntRange(0, 5).Draw(t, "dup") == 0 {
			p = ps[rapid.IntRange(0, i-1).Draw(t, "dupof")]
			cls = append(cls, "p:duplicate")
		} else {
			var pc string
			p, pc = c.drawPoly(t, n, fmt.Sprintf("p%d", i))
			if rapid.IntRange(0, 4).Draw(t, "root") == 0 {
				p = c.withRoot(s.E, p, z)
			}
			if isZero(p) {
				pc = "zero"
			}
			cls = append(cls, "p:"+pc)
			if pc == "zero" {
				nt = true
			}
		}
		if s.E.Horner(p, z).Sign() == 0 {
			cls = append(cls, "z:root")
			nt = true
		}
		ps = append(ps, p)
	}
	if nb >= 2 {
		cls = append(cls, "batch>=2")
	}
	if nb >= 16 {
		cls = append(cls, "batch>=16")
	}
	return
}

// propBatch: honest BatchOpenSinglePoint / BatchVerifySinglePoint / FoldProof for 1..8 equal-length
// polynomials.
func propBatch(t *rapid.T, c *cx) {
	size := drawSize(t, rep.Scale(64, 1024))
	s, scls := c.newSRS(t, size, true)
	ps, z, cls, nt := c.drawBatchInput(t, s, 8, 4)
	hname := c.drawHash(t)
	if hname == "mimc" {
		// MiMC absorbs canonical fr blocks only: a digest whose encoding has a 32-byte block >= r (the
		// flagged encoding of infinity, or a coordinate in [r,p) such as the ordinate of -G1) makes the
		// transcript return an error, as documented. Such batches are opened over SHA-256.
		for _, p := range ps {
			if !c.mimcAdmissible(c.k.PtMarshal(c.mk(s.E.Commit(p), false).P)) {
				hname = "sha256"
			}
		}
	}
	data := drawData(t, hname)
	viaRef := rapid.Bool().Draw(t, "viaRef")
	h := c.batchOpen(t, s, ps, z, data, viaRef, hname)
	hf := c.newHash(hname) // one instance shared by the calls below, as a caller would
	if err := c.k.BatchVerifySinglePoint(s.S, h.digests(), h.Bp, z, hf, data...); err != nil {
		t.Fatalf("%s: BatchVerifySinglePoint rejected an honest batch of %d (len %d, z=%s): %v", c.name, len(ps), len(ps[0]), hx(z), err)
	}
	fp, fd, err := c.k.FoldProof(h.digests(), h.Bp, z, hf, data...)
	if err != nil {
		t.Fatalf("%s: FoldProof failed on an honest batch: %v", c.name, err)
	}
	if want := s.E.Fold(h.Vs, h.Gamma); fp.V.Cmp(want) != 0 {
		t.Fatalf("%s: FoldProof.ClaimedValue = %s, want sum gamma^i v_i = %s", c.name, hx(fp.V), hx(want))
	}
	if !c.k.PtEqual(fp.H, h.Bp.H) {
		t.Fatalf("%s: FoldProof changed H", c.name)
	}
	c.is(t, "FoldProof digest (= [sum gamma^i c_i]G1)", fd, s.E.Fold(h.cks(), h.Gamma), viaRef)
	if err := c.k.Verify(s.S, fd, fp, z); err != nil {
		t.Fatalf("%s: Verify rejected the folded honest proof: %v", c.name, err)
	}
	key := fmt.Sprintf("%s batch size=%d %s tau=%s z=%s ps=%v data=%x", c.name, size, s.Kind, hx(s.Tau), hx(z), polysKey(ps), data)
	cls = append(cls, scls, sizeClass(size), "honest:batch", fmt.Sprintf("data:%d", len(data)), "hash:"+hname)
	cls = append(cls, purityCls()...)
	rep.Case("C11_Batch/"+c.name, key, nt, dedup(cls)...)
}

func polysKey(ps [][]*big.Int) string {
	s := ""
	for _, p := range ps {
		s += hxs(p)
	}
	return s
}

func TestC11_Batch(t *testing.T) {
	forCurves(t, func(t *testing.T, c *cx) {
		rapid.Check(t, func(t *rapid.T) { propBatch(t, c) })
	})
}

// propBatchUnequal: polynomials of unequal lengths in one batch. The package documents "they are
// supposed to be of the same size", so nothing is asserted (DESIGN §11): the observed behaviour is
// only recorded in the class histogram.
func propBatchUnequal(t *rapid.T, c *cx) {
	size := rapid.IntRange(3, 32).Draw(t, "size")
	s, _ := c.newSRS(t, size, false)
	nb := rapid.IntRange(2, 5).Draw(t, "nb")
	z, _ := c.point(t, s.Tau, "z")
	var ps [][]*big.Int
	var ds []inst.KPoint
	lens := ""
	for i := 0; i < nb; i++ {
		n := rapid.IntRange(2, size).Draw(t, "len")
		if i == 1 { // lengths 2..size, shifted by a non-zero offset: different from the first
			off := rapid.IntRange(1, size-2).Draw(t, "off")
			n = (len(ps[0])-2+off)%(size-1) + 2
		}
		p, _ := c.drawPoly(t, n, fmt.Sprintf("p%d", i))
		d, err := c.k.Commit(s.S, p)
		if err != nil {
			t.Fatalf("%s: Commit: %v", c.name, err)
		}
		ps, ds = append(ps, p), append(ds, d)
		lens += fmt.Sprintf("%d,", n)
	}
	outcome := "unequal:"
	func() {
		defer func() {
			if r := recover(); r != nil {
				outcome += "panic"
			}
		}()
		bp, err := c.k.BatchOpenSinglePoint(s.S, ps, ds, z, sha256.New())
		if err != nil {
			outcome += "open_error"
			return
		}
		if err := c.k.BatchVerifySinglePoint(s.S, ds, bp, z, sha256.New()); err != nil {
			outcome += "proof_rejected"
			return
		}
		outcome += "proof_verifies"
	}()
	rep.Note("C11_BatchUnequal/"+c.name, "unequal polynomial lengths in one batch are outside the documented precondition: behaviour recorded, nothing asserted")
	rep.Case("C11_BatchUnequal/"+c.name, fmt.Sprintf("%s unequal size=%d lens=%s tau=%s z=%s", c.name, size, lens, hx(s.Tau), hx(z)), false, outcome, "unequal_lengths(not asserted)")
}

func TestC11_BatchUnequal(t *testing.T) {
	forCurves(t, func(t *testing.T, c *cx) {
		rapid.Check(t, func(t *rapid.T) { propBatchUnequal(t, c) })
	})
}

// ---- multi-point ----------------------------------------------------------------------------------

// distinctPoints draws n pairwise distinct evaluation points.
func (c *cx) distinctPoints(t *rapid.T, tau *big.Int, n int) ([]*big.Int, []string) {
	var zs []*big.Int
	var cl []string
	for i := 0; i < n; i++ {
		z, zc := c.point(t, tau, fmt.Sprintf("z%d", i))
		for dupe := true; dupe; {
			dupe = false
			for _, o := range zs {
				if o.Cmp(z) == 0 {
					z, zc, dupe = c.F.Add(z, bi(1)), "bumped", true
				}
			}
		}
		zs, cl = append(zs, z), append(cl, zc)
	}
	return zs, cl
}

// propMulti: honest openings of 1..6 polynomials at pairwise distinct points, BatchVerifyMultiPoints.
func propMulti(t *rapid.T, c *cx) {
	size := drawSize(t, 64)
	s, scls := c.newSRS(t, size, true)
	n := rapid.IntRange(1, 6).Draw(t, "n")
	if rapid.IntRange(0, 7).Draw(t, "nbig") == 0 {
		n = rapid.SampledFrom([]int{15, 16, 17}).Draw(t, "n")
	}
	zs, zcl := c.distinctPoints(t, s.Tau, n)
	var ds []inst.KPoint
	var prs []inst.KProof
	cls := []string{scls, sizeClass(size), fmt.Sprintf("multi:%d", n), "honest:multi"}
	if n >= 16 {
		cls = append(cls, "batch>=16")
	}
	key := fmt.Sprintf("%s multi size=%d %s tau=%s", c.name, size, s.Kind, hx(s.Tau))
	nt := n >= 2
	for i := 0; i < n; i++ {
		ln := drawLen(t, size, fmt.Sprintf("len%d", i))
		if n >= 15 && ln > 4 {
			ln = 1 + ln%4
		}
		p, pc := c.drawPoly(t, ln, fmt.Sprintf("p%d", i))
		if rapid.IntRange(0, 4).Draw(t, "root") == 0 {
			p = c.withRoot(s.E, p, zs[i])
			cls = append(cls, "z:root")
			nt = true
		}
		h := c.open(t, s, p, zs[i], false)
		ds, prs = append(ds, h.C.P), append(prs, h.Pr)
		cls = append(cls, lenClass(ln, size), "p:"+pc, "z:"+zcl[i])
		key += fmt.Sprintf(" (%s@%s)", hxs(p), hx(zs[i]))
		nt = nt || ln == 1 || ln == size || zs[i].Cmp(s.Tau) == 0
	}
	if n >= 2 {
		cls = append(cls, "batch>=2")
	}
	if err := c.k.BatchVerifyMultiPoints(s.S, ds, prs, zs); err != nil {
		t.Fatalf("%s: BatchVerifyMultiPoints rejected %d honest openings at distinct points: %v (%s)", c.name, n, err, key)
	}
	rep.Case("C11_Multi/"+c.name, key, nt, dedup(cls)...)
}

func TestC11_Multi(t *testing.T) {
	forCurves(t, func(t *testing.T, c *cx) {
		rapid.Check(t, func(t *rapid.T) { propMulti(t, c) })
	})
}
