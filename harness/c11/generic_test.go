package c11

import (
	"bytes"
	"fmt"
	"io"
	"reflect"
	"testing"

	"github.com/consensys/gnark-crypto/ecc"
	gkzg "github.com/consensys/gnark-crypto/kzg"
	"pgregory.net/rapid"

	"verif/harness/internal/rep"
)

// curveIDs: the ecc.ID of each pairing curve (transcribed from ecc/ecc.go, not derived from names).
var curveIDs = map[string]ecc.ID{
	"bn254": ecc.BN254, "bls12-377": ecc.BLS12_377, "bls12-381": ecc.BLS12_381,
	"bls24-315": ecc.BLS24_315, "bls24-317": ecc.BLS24_317, "bw6-633": ecc.BW6_633, "bw6-761": ecc.BW6_761,
}

// propGenericSRS: the curve-agnostic package kzg exports NewSRS(curveID) (an empty, curve-typed SRS
// behind the Serializable interface) and nothing else per curve. For each curve the object returned
// for that curve's ID must have the concrete type *<curve>/kzg.SRS and must restore an SRS produced
// by that curve's kzg.NewSRS(size, τ) from every encoding reachable through the interface
// (WriteTo / WriteRawTo → ReadFrom / UnsafeReadFrom, WriteDump → ReadDump): exact byte counts,
// byte-exact re-encoding through the interface, equal values and equal behaviour.
func propGenericSRS(t *rapid.T, c *cx) {
	id, ok := curveIDs[c.name]
	if !ok {
		t.Fatalf("no ecc.ID for %s", c.name)
	}
	size := drawSize(t, 32)
	s, scls := c.newSRS(t, size, true)
	rk := rapid.SampledFrom(readerKinds).Draw(t, "reader")
	p, _ := c.drawPoly(t, drawLen(t, size, "len"), "p")
	pt, _ := c.point(t, s.Tau, "z")
	test := "C11_GenericSRS/" + c.name
	key := fmt.Sprintf("%s generic size=%d %s tau=%s reader=%s", c.name, size, s.Kind, hx(s.Tau), rk)
	wantType := reflect.TypeOf(c.k.EmptySRS().Native())

	// the SRS under test as the generic interface sees it
	var orig gkzg.SRS
	orig, ok = s.S.Native().(gkzg.SRS)
	if !ok {
		t.Fatalf("%s: *kzg.SRS does not implement the generic kzg.SRS interface", c.name)
	}
	fresh := func(what string) gkzg.SRS {
		g := gkzg.NewSRS(id)
		if g == nil {
			t.Fatalf("%s: kzg.NewSRS(%v) returned nil", c.name, id)
		}
		if got := reflect.TypeOf(g); got != wantType {
			t.Fatalf("%s: kzg.NewSRS(ecc.ID %d = %s) returned a %s, want %s (%s)", c.name, uint16(id), id.String(), typeName(got), typeName(wantType), what)
		}
		return g
	}
	check := func(what string, g gkzg.SRS, npk int, re func(gkzg.SRS) []byte, enc []byte) {
		r, ok := c.k.WrapSRS(g)
		if !ok {
			t.Fatalf("%s: %s: the object from kzg.NewSRS(%v) is not this curve's *kzg.SRS", c.name, what, id)
		}
		c.sameSRS(t, "generic "+what, s.S, r, npk)
		if re != nil {
			if b := re(g); !bytes.Equal(b, enc) {
				t.Fatalf("%s: generic %s: re-encoding the restored SRS through the interface gives different bytes", c.name, what)
			}
		}
		q := p
		if len(q) > npk {
			q = q[:npk]
		}
		c.sameBehaviour(t, "generic "+what, s, r, q, pt)
		rep.Case(test, key+" "+what, true, "generic_kzg:"+c.name, "generic_kzg:"+what, "reader:"+rk, scls)
	}
	for _, f := range []struct {
		name  string
		write func(gkzg.SRS) func(io.Writer) (int64, error)
	}{
		{"WriteTo", func(g gkzg.SRS) func(io.Writer) (int64, error) { return g.WriteTo }},
		{"WriteRawTo", func(g gkzg.SRS) func(io.Writer) (int64, error) { return g.WriteRawTo }},
	} {
		enc := encode(t, c.name+": generic SRS."+f.name, f.write(orig), -1)
		reenc := func(g gkzg.SRS) []byte {
			return encode(t, c.name+": generic re-encoding "+f.name, f.write(g), len(enc))
		}
		g := fresh(f.name + "→ReadFrom")
		decode(t, c.name+": kzg.NewSRS(id).ReadFrom of "+f.name, rk, g.ReadFrom, enc)
		check(f.name+"→ReadFrom", g, size, reenc, enc)
		g = fresh(f.name + "→UnsafeReadFrom")
		decode(t, c.name+": kzg.NewSRS(id).UnsafeReadFrom of "+f.name, rk, g.UnsafeReadFrom, enc)
		check(f.name+"→UnsafeReadFrom", g, size, reenc, enc)
	}
	// dump, with an optional limit on the reading side
	var buf bytes.Buffer
	if err := orig.WriteDump(&buf); err != nil {
		t.Fatalf("%s: generic WriteDump: %v", c.name, err)
	}
	kept := size
	var ropt []int
	if lim := rapid.SampledFrom([]int{-1, -1, 1, size - 1, size}).Draw(t, "rmax"); lim > 0 {
		ropt = []int{lim}
		if lim < kept {
			kept = lim
		}
	}
	g := fresh("WriteDump→ReadDump")
	rr, _ := reader(rk, buf.Bytes())
	if err := g.ReadDump(rr, ropt...); err != nil {
		t.Fatalf("%s: kzg.NewSRS(%v).ReadDump(%v) of an honest dump (%s reader): %v", c.name, id, ropt, rk, err)
	}
	var want bytes.Buffer
	if err := orig.WriteDump(&want, kept); err != nil {
		t.Fatalf("%s: generic WriteDump(%d): %v", c.name, kept, err)
	}
	check("WriteDump→ReadDump", g, kept, func(g gkzg.SRS) []byte {
		var b bytes.Buffer
		if err := g.WriteDump(&b); err != nil {
			t.Fatalf("%s: WriteDump of the restored generic SRS: %v", c.name, err)
		}
		return b.Bytes()
	}, want.Bytes())
}

// typeName prints a pointer type with the import path of its package (all seven are "*kzg.SRS").
func typeName(t reflect.Type) string {
	if t != nil && t.Kind() == reflect.Ptr {
		return "*" + t.Elem().PkgPath() + "." + t.Elem().Name()
	}
	return fmt.Sprint(t)
}

func TestC11_GenericSRS(t *testing.T) {
	forCurves(t, func(t *testing.T, c *cx) {
		rapid.Check(t, func(t *rapid.T) { propGenericSRS(t, c) })
	})
}

// TestC11_GenericSRSTypes (rapid-free): the dispatch table of kzg.NewSRS — every pairing-curve ID maps
// to the SRS type of that curve's own package, and the seven types are pairwise distinct. For IDs
// without a KZG package the source panics ("not implemented") but documents nothing: the observed
// behaviour is recorded, not asserted.
func TestC11_GenericSRSTypes(t *testing.T) {
	seen := map[reflect.Type]string{}
	forCurves(t, func(t *testing.T, c *cx) {
		id := curveIDs[c.name]
		got := reflect.TypeOf(gkzg.NewSRS(id))
		want := reflect.TypeOf(c.k.EmptySRS().Native())
		if got != want {
			t.Fatalf("%s: kzg.NewSRS(ecc.ID %d = %s) returned a %s, want %s", c.name, uint16(id), id.String(), typeName(got), typeName(want))
		}
		if o, dup := seen[got]; dup {
			t.Fatalf("%s and %s share the SRS type %v", c.name, o, got)
		}
		seen[got] = c.name
		if _, ok := c.k.WrapSRS(gkzg.NewSRS(id)); !ok {
			t.Fatalf("%s: the generic SRS is not this curve's *kzg.SRS", c.name)
		}
		rep.Case("C11_GenericSRSTypes/"+c.name, c.name+" generic type", true, "generic_kzg:"+c.name, "generic_kzg:type")
	})
	if selected("unknown-id") || selected("bn254") {
		for _, id := range []ecc.ID{ecc.UNKNOWN, ecc.SECP256K1, ecc.STARK_CURVE, ecc.GRUMPKIN, ecc.ID(999)} {
			outcome := "returns"
			func() {
				defer func() {
					if recover() != nil {
						outcome = "panics"
					}
				}()
				gkzg.NewSRS(id)
			}()
			rep.Case("C11_GenericSRSTypes/unknown", fmt.Sprintf("kzg.NewSRS(ecc.ID %d)", uint16(id)), false, "generic_kzg:unknown_id:"+outcome+"(not asserted)")
		}
	}
}
