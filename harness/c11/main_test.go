// Package c11: KZG openings are complete and verification accepts exactly the true claims.
//
// Oracle: "verification in the exponent" (ref.Exponent). Every SRS is built with a rapid-drawn,
// known trapdoor τ, and every group element handed to the library is [k]G1 for a scalar k the
// harness knows, so the verifier's pairing equation is decided exactly by a scalar identity in F_r
// (math/big). Polynomial values and quotients come from Horner / long division in ref.Fp; the
// folding challenge γ is recomputed with crypto/sha256 from the documented transcript layout.
package c11

import (
	"fmt"
	"math/big"
	"os"
	"regexp"
	"sort"
	"strings"
	"testing"

	"pgregory.net/rapid"

	"verif/harness/internal/gen"
	"verif/harness/internal/inst"
	"verif/harness/internal/ref"
	"verif/harness/internal/rep"
)

func TestMain(m *testing.M) {
	// every verifier / folder call of the adapter is followed by a bit-level input-purity check; with
	// KZGRepeat each call is also made twice on the same native proof / digests / key
	inst.KZGRepeat = true
	rep.Main(m)
}

// purityCls labels a case whose verifier calls went through the adapter's purity checks.
func purityCls() []string {
	if inst.KZGPurityChecks() == 0 {
		return nil
	}
	if inst.KZGRepeat {
		return []string{"purity:proof_after_verify", "purity:same_call_repeated"}
	}
	return []string{"purity:proof_after_verify"}
}

func selected(name string) bool {
	p := os.Getenv("VERIF_INST")
	if p == "" {
		return true
	}
	ok, _ := regexp.MatchString(p, name)
	return ok
}

// cx is the per-curve context.
type cx struct {
	name string
	k    inst.KZG
	cv   *inst.Curve
	R    *big.Int
	F    *ref.Fp
	fs   gen.FieldSpec
}

func newCx(name string) *cx {
	k := inst.KZGByName(name)
	if k == nil {
		panic("c11: no kzg adapter for " + name)
	}
	cv := inst.GetCurve(name)
	fr := inst.FieldByName(name + "/fr")
	return &cx{name: name, k: k, cv: cv, R: cv.R, F: ref.NewFp(cv.R),
		fs: gen.FieldSpec{Q: cv.R, NLimbs: fr.NLimbs(), LimbBits: fr.LimbBits()}}
}

func forCurves(t *testing.T, body func(t *testing.T, c *cx)) {
	for _, n := range inst.PairingNames {
		if !selected(n) {
			continue
		}
		c := newCx(n)
		t.Run(n, func(t *testing.T) { body(t, c) })
	}
}

// fataler is what both *testing.T and *rapid.T offer.
type fataler interface {
	Fatalf(format string, args ...any)
}

func bi(x int64) *big.Int { return big.NewInt(x) }

func hx(v *big.Int) string { return v.Text(16) }

func hxs(vs []*big.Int) string {
	s := make([]string, len(vs))
	for i, v := range vs {
		s[i] = v.Text(16)
	}
	return "[" + strings.Join(s, ",") + "]"
}

// ---- scalars -----------------------------------------------------------------------------------

// scalar draws an element of F_r from the two-domain boundary lattice.
func (c *cx) scalar(t *rapid.T, label string) (*big.Int, string) { return c.fs.Elem(t, label) }

// tau draws a trapdoor in [1, r-1].
func (c *cx) tau(t *rapid.T) (*big.Int, string) {
	v, cls := c.fs.Elem(t, "tau")
	if v.Sign() == 0 {
		v = bi(1)
	}
	return v, cls
}

// point draws an evaluation point: lattice, 0, τ, τ±1, −τ.
func (c *cx) point(t *rapid.T, tau *big.Int, label string) (*big.Int, string) {
	switch rapid.IntRange(0, 9).Draw(t, label+"cls") {
	case 0:
		return new(big.Int).Set(tau), "tau"
	case 1:
		return c.F.Add(tau, bi(1)), "tau+1"
	case 2:
		return c.F.Sub(tau, bi(1)), "tau-1"
	case 3:
		return c.F.Neg(tau), "-tau"
	case 4:
		return new(big.Int), "0"
	default:
		v, _ := c.scalar(t, label)
		if v.Cmp(tau) == 0 {
			return v, "tau"
		}
		return v, "lattice"
	}
}

// frBytes is the fixed-size big-endian encoding of a canonical scalar (fr.Element.Marshal).
func (c *cx) frBytes(v *big.Int) []byte { return v.FillBytes(make([]byte, c.k.FrBytes())) }

// ---- points with a known discrete logarithm -----------------------------------------------------

// xp is [K]G1 together with K.
type xp struct {
	K *big.Int
	P inst.KPoint
}

// mk builds [k]G1: with the reference curve arithmetic (affine chord-and-tangent over math/big,
// no library code) when viaRef, else with the library's ScalarMultiplicationBase.
func (c *cx) mk(k *big.Int, viaRef bool) xp {
	k = c.F.Red(k)
	if viaRef {
		g := c.cv.G1
		return xp{k, g.FromRef(g.E.Mul(k, g.Gen))}
	}
	return xp{k, c.k.G1Base(k)}
}

// is asserts that a library point equals [k]G1.
func (c *cx) is(t fataler, what string, got inst.KPoint, k *big.Int, viaRef bool) {
	want := c.mk(k, viaRef)
	if !c.k.PtEqual(got, want.P) {
		t.Fatalf("%s: %s is not [k]G1 for the reference discrete log k=%s (got %x)", c.name, what, hx(want.K), c.k.PtRaw(got))
	}
	// IsInfinity must agree with k == 0
	if c.k.PtIsInf(got) != (want.K.Sign() == 0) {
		t.Fatalf("%s: %s: IsInfinity=%v but k=%s", c.name, what, c.k.PtIsInf(got), hx(want.K))
	}
}

// ---- SRS ---------------------------------------------------------------------------------------

var srsSizesQuick = []int{2, 2, 3, 4, 5, 7, 8, 9, 15, 16, 17, 31, 32, 33, 63, 64}
var srsSizesThorough = []int{127, 128, 129, 255, 256, 257, 1023, 1024, 2048, 4095, 4096}

func drawSize(t *rapid.T, max int) int {
	var n int
	switch rapid.IntRange(0, 9).Draw(t, "sizecls") {
	case 0, 1, 2, 3, 4:
		n = rapid.SampledFrom(srsSizesQuick).Draw(t, "size")
	case 5:
		if rep.Thorough() {
			n = rapid.SampledFrom(srsSizesThorough).Draw(t, "size")
		} else {
			n = rapid.SampledFrom(srsSizesQuick).Draw(t, "size")
		}
	default:
		n = rapid.IntRange(2, 64).Draw(t, "size")
	}
	if n > max {
		n = max
	}
	return n
}

func sizeClass(n int) string {
	switch {
	case n == 2:
		return "size:2"
	case n <= 8:
		return "size:3-8"
	case n <= 32:
		return "size:9-32"
	case n <= 64:
		return "size:33-64"
	default:
		return "size:>64"
	}
}

// srsT is an SRS with its trapdoor.
type srsT struct {
	S    inst.KSRS
	E    *ref.Exponent
	Tau  *big.Int
	Kind string // "tau" | "minus1"
}

// newSRS builds NewSRS(size, τ) for a drawn τ∈[1,r-1]; with probability 1/8 (minusOne allowed) the
// documented quick SRS NewSRS(size, -1), whose effective trapdoor (an element of order 4) is
// recovered by the reference from Pk.G1[1].
func (c *cx) newSRS(t *rapid.T, size int, minusOne bool) (*srsT, string) {
	if minusOne && rapid.IntRange(0, 7).Draw(t, "minus1") == 0 {
		s, err := c.k.NewSRS(uint64(size), bi(-1))
		if err != nil {
			t.Fatalf("%s: NewSRS(%d,-1): %v", c.name, size, err)
		}
		tau := c.tauOfMinusOne(t, s)
		return &srsT{s, ref.NewExponent(c.R, tau), tau, "minus1"}, "srs:minus1"
	}
	tau, cls := c.tau(t)
	s, err := c.k.NewSRS(uint64(size), tau)
	if err != nil {
		t.Fatalf("%s: NewSRS(%d,%s): %v", c.name, size, hx(tau), err)
	}
	if s.Size() != size {
		t.Fatalf("%s: NewSRS(%d) has %d G1 points", c.name, size, s.Size())
	}
	return &srsT{s, ref.NewExponent(c.R, tau), tau, "tau"}, "tau:" + cls
}

// tauOfMinusOne finds the square root i of -1 with Pk.G1[1] = [i]G1 (reference arithmetic only).
func (c *cx) tauOfMinusOne(t fataler, s inst.KSRS) *big.Int {
	i := c.F.Sqrt(c.F.Neg(bi(1)))
	if i == nil {
		t.Fatalf("%s: -1 is not a square mod r, the documented alpha=-1 SRS cannot exist", c.name)
	}
	for _, cand := range []*big.Int{i, c.F.Neg(i)} {
		if c.k.PtEqual(s.G1(1), c.mk(cand, true).P) {
			return cand
		}
	}
	t.Fatalf("%s: NewSRS(size,-1): Pk.G1[1] is not [w]G1 for a primitive 4th root of unity w", c.name)
	return nil
}

// ---- polynomials -------------------------------------------------------------------------------

// drawPoly draws a polynomial with exactly n coefficients (n>=1). The returned class is one of
// zero, const, lattice, sparse, leadzero, ones.
func (c *cx) drawPoly(t *rapid.T, n int, label string) ([]*big.Int, string) {
	p := make([]*big.Int, n)
	cls := rapid.SampledFrom([]string{"lattice", "lattice", "lattice", "zero", "sparse", "leadzero", "ones"}).Draw(t, label+"cls")
	// a small pool of lattice values indexed by a drawn pattern keeps the number of draws small
	k := rapid.IntRange(1, 5).Draw(t, label+"pool")
	pool := make([]*big.Int, k)
	for i := range pool {
		pool[i], _ = c.scalar(t, label+"c")
	}
	idx := rapid.SliceOfN(rapid.IntRange(0, k-1), n, n).Draw(t, label+"idx")
	for i := range p {
		p[i] = pool[idx[i]]
	}
	switch cls {
	case "zero":
		for i := range p {
			p[i] = new(big.Int)
		}
	case "sparse":
		keep := rapid.IntRange(0, n-1).Draw(t, label+"keep")
		for i := range p {
			if i != keep {
				p[i] = new(big.Int)
			}
		}
	case "leadzero":
		for i := (n + 1) / 2; i < n; i++ {
			p[i] = new(big.Int)
		}
	case "ones":
		v := rapid.SampledFrom([]*big.Int{bi(1), c.F.Neg(bi(1))}).Draw(t, label+"one")
		for i := range p {
			p[i] = v
		}
	}
	if isZero(p) {
		cls = "zero"
	}
	return p, cls
}

func isZero(p []*big.Int) bool {
	for _, x := range p {
		if x.Sign() != 0 {
			return false
		}
	}
	return true
}

// withRoot replaces p (n>=2 coefficients) by (X − z)·q for q = p[:n-1]; a constant becomes 0.
func (c *cx) withRoot(e *ref.Exponent, p []*big.Int, z *big.Int) []*big.Int {
	if len(p) == 1 {
		return []*big.Int{new(big.Int)}
	}
	return e.MulXMinus(p[:len(p)-1], z)
}

// drawLen draws a polynomial length in 1..size, boundary-heavy.
func drawLen(t *rapid.T, size int, label string) int {
	switch rapid.IntRange(0, 7).Draw(t, label+"cls") {
	case 0, 1:
		return 1
	case 2, 3:
		return size
	case 4:
		if size > 2 {
			return size - 1
		}
		return size
	case 5:
		return 2
	default:
		return rapid.IntRange(1, size).Draw(t, label)
	}
}

func lenClass(n, size int) string {
	switch {
	case n == 1:
		return "len:1"
	case n == size:
		return "len:size"
	default:
		return "len:mid"
	}
}

func dedup(cls []string) []string {
	sort.Strings(cls)
	out := cls[:0]
	for i, s := range cls {
		if i == 0 || s != cls[i-1] {
			out = append(out, s)
		}
	}
	return out
}

func verdict(err error) string {
	if err == nil {
		return "accept"
	}
	return "reject"
}

var _ = fmt.Sprintf
