package c11

import (
	"bytes"
	"crypto/sha256"
	"hash"
	"math/big"
	"testing"

	"verif/harness/internal/inst"
	"verif/harness/internal/ref"
	"verif/harness/internal/reg"
	"verif/harness/internal/rep"
)

// TestC11_RegressF7_OpenConstant (rapid-free): F7 — kzg.Open and kzg.BatchOpenSinglePoint returned
// ErrInvalidPolynomialSize for constant polynomials (one coefficient) because the empty quotient
// was handed to Commit. A constant p opens at every z with ClaimedValue p_0 and H = infinity.
// The size checks for genuinely invalid inputs must stay in place.
func TestC11_RegressF7_OpenConstant(t *testing.T) {
	forCurves(t, func(t *testing.T, c *cx) {
		test := "C11_RegressF7/" + c.name
		tau := bi(5)
		s, err := c.k.NewSRS(4, tau)
		if err != nil {
			t.Fatal(err)
		}
		e := ref.NewExponent(c.R, tau)
		for _, tc := range []struct{ p0, z *big.Int }{{bi(7), bi(3)}, {bi(0), bi(3)}, {bi(7), tau}, {c.F.Neg(bi(1)), bi(0)}} {
			p := []*big.Int{tc.p0}
			dig, err := c.k.Commit(s, p)
			if err != nil {
				t.Fatalf("%s: Commit(constant): %v", c.name, err)
			}
			pr, err := c.k.Open(s, p, tc.z)
			if err != nil {
				t.Fatalf("%s: Open of the constant polynomial %s at %s failed: %v (F7)", c.name, tc.p0, tc.z, err)
			}
			if pr.V.Cmp(tc.p0) != 0 || !c.k.PtIsInf(pr.H) {
				t.Fatalf("%s: Open(constant %s): ClaimedValue=%s H.IsInfinity=%v, want the constant and infinity", c.name, tc.p0, pr.V, c.k.PtIsInf(pr.H))
			}
			if !e.Holds(e.Commit(p), bi(0), pr.V, tc.z) {
				t.Fatal("reference inconsistency")
			}
			if err := c.k.Verify(s, dig, pr, tc.z); err != nil {
				t.Fatalf("%s: Verify rejected the opening of a constant polynomial: %v", c.name, err)
			}
			if err := c.k.Verify(s, dig, inst.KProof{H: pr.H, V: c.F.Add(pr.V, bi(1))}, tc.z); err == nil {
				t.Fatalf("%s: Verify accepted a wrong value for a constant polynomial", c.name)
			}
			rep.Case(test, c.name+" const "+tc.p0.String()+"@"+tc.z.String(), true, "len:1", "regress:F7")
		}
		// batch of constants
		ps := [][]*big.Int{{bi(7)}, {bi(0)}, {bi(11)}}
		var ds []inst.KPoint
		for _, p := range ps {
			d, err := c.k.Commit(s, p)
			if err != nil {
				t.Fatal(err)
			}
			ds = append(ds, d)
		}
		bp, err := c.k.BatchOpenSinglePoint(s, ps, ds, bi(9), sha256.New())
		if err != nil {
			t.Fatalf("%s: BatchOpenSinglePoint of constant polynomials failed: %v (F7)", c.name, err)
		}
		if !c.k.PtIsInf(bp.H) {
			t.Fatalf("%s: BatchOpenSinglePoint(constants).H is not infinity", c.name)
		}
		if err := c.k.BatchVerifySinglePoint(s, ds, bp, bi(9), sha256.New()); err != nil {
			t.Fatalf("%s: BatchVerifySinglePoint rejected the batch of constants: %v", c.name, err)
		}
		rep.Case(test, c.name+" batch of constants", true, "len:1", "batch>=2", "regress:F7")

		// invalid sizes are still errors
		if _, err := c.k.Commit(s, nil); err == nil {
			t.Fatalf("%s: Commit(empty polynomial) must fail", c.name)
		}
		if _, err := c.k.Open(s, nil, bi(1)); err == nil {
			t.Fatalf("%s: Open(empty polynomial) must fail", c.name)
		}
		five := []*big.Int{bi(1), bi(2), bi(3), bi(4), bi(5)}
		if _, err := c.k.Commit(s, five); err == nil {
			t.Fatalf("%s: Commit(polynomial longer than the SRS) must fail", c.name)
		}
		if _, err := c.k.Open(s, five, bi(1)); err == nil {
			t.Fatalf("%s: Open(polynomial longer than the SRS) must fail", c.name)
		}
		if _, err := c.k.BatchOpenSinglePoint(s, [][]*big.Int{{bi(1)}, {}}, []inst.KPoint{ds[0], ds[0]}, bi(1), sha256.New()); err == nil {
			t.Fatalf("%s: BatchOpenSinglePoint with an empty polynomial must fail", c.name)
		}
		if _, err := c.k.BatchOpenSinglePoint(s, [][]*big.Int{{bi(1)}}, nil, bi(1), sha256.New()); err == nil {
			t.Fatalf("%s: BatchOpenSinglePoint with 1 polynomial and 0 digests must fail", c.name)
		}
		if _, err := c.k.NewSRS(1, tau); err == nil {
			t.Fatalf("%s: NewSRS(1) must fail (documented minimum 2)", c.name)
		}
		rep.Case(test, c.name+" invalid sizes rejected", false, "invalid_size_rejected")
	})
}

// TestC11_RegressF27_MpcReadFromSeal (rapid-free): MpcSetup.ReadFrom restored Pk.G1[0] and Vk.G2[0]
// (the generators, which are not part of the transcript) but left Vk.G1 at its zero value, so an SRS
// sealed from a deserialised transcript carried Vk.G1 = infinity and its verifying key rejected every
// honest opening with a non-zero claimed value (and differed from the SRS sealed by the in-memory
// original).
func TestC11_RegressF27_MpcReadFromSeal(t *testing.T) {
	forCurves(t, func(t *testing.T, c *cx) {
		m := c.k.InitializeSetup(4)
		m.Contribute()
		var buf bytes.Buffer
		if _, err := m.WriteTo(&buf); err != nil {
			t.Fatal(err)
		}
		back := c.k.EmptySetup()
		if _, err := back.ReadFrom(bytes.NewReader(buf.Bytes())); err != nil {
			t.Fatal(err)
		}
		if err := c.k.InitializeSetup(4).Verify(back); err != nil {
			t.Fatalf("%s: restored contribution does not verify: %v", c.name, err)
		}
		a, b := m.Seal([]byte("beacon")), back.Seal([]byte("beacon"))
		if c.k.PtIsInf(b.VkG1()) || !c.k.PtEqual(a.VkG1(), b.VkG1()) {
			t.Fatalf("%s: SRS sealed from a deserialised MpcSetup has Vk.G1 = infinity / different from the original (F27)", c.name)
		}
		if !c.k.PtEqual(b.VkG1(), c.k.G1Base(bi(1))) {
			t.Fatalf("%s: sealed Vk.G1 is not the generator", c.name)
		}
		p := []*big.Int{bi(3), bi(1), bi(4)}
		dig, err := c.k.Commit(b, p)
		if err != nil {
			t.Fatal(err)
		}
		pr, err := c.k.Open(b, p, bi(2))
		if err != nil {
			t.Fatal(err)
		}
		if err := c.k.Verify(b, dig, pr, bi(2)); err != nil {
			t.Fatalf("%s: SRS sealed from a deserialised MpcSetup rejects an honest opening: %v (F27)", c.name, err)
		}
		rep.Case("C11_RegressF27/"+c.name, c.name+" mpc readfrom+seal", true, "regress:F27", "serial:MpcSetup:seal")
	})
}

// TestC11_MimcTranscriptProbe (rapid-free, nothing asserted): records what BatchOpenSinglePoint does
// when the transcript hash is the curve's MiMC. The values bound into the transcript (compressed G1
// encodings with flag bits, 5-byte challenge name) are not lists of canonical fr blocks, so MiMC is
// not an admissible hash for this transcript; the library itself only ever uses SHA-256 here.
func TestC11_MimcTranscriptProbe(t *testing.T) {
	forCurves(t, func(t *testing.T, c *cx) {
		test := "C11_MimcProbe/" + c.name
		pk := reg.Get("ecc/" + c.name + "/fr/mimc")
		if pk == nil || !pk.Has("NewMiMC") {
			rep.Note(test, "no mimc package in the registry for "+c.name)
			return
		}
		hf, ok := pk.F("NewMiMC")[0].(hash.Hash)
		if !ok {
			rep.Note(test, "NewMiMC does not return a hash.Hash")
			return
		}
		s, err := c.k.NewSRS(4, bi(5))
		if err != nil {
			t.Fatal(err)
		}
		ps := [][]*big.Int{{bi(1), bi(2)}, {bi(3), bi(4)}}
		var ds []inst.KPoint
		for _, p := range ps {
			d, _ := c.k.Commit(s, p)
			ds = append(ds, d)
		}
		outcome := "mimc:"
		func() {
			defer func() {
				if r := recover(); r != nil {
					outcome += "panic"
				}
			}()
			bp, err := c.k.BatchOpenSinglePoint(s, ps, ds, bi(9), hf)
			if err != nil {
				outcome += "open_error"
				return
			}
			if err := c.k.BatchVerifySinglePoint(s, ds, bp, bi(9), hf); err != nil {
				outcome += "opens_but_rejected"
				return
			}
			outcome += "opens_and_verifies"
		}()
		rep.Note(test, "MiMC as transcript hash for KZG batch openings is not asserted (inputs are not admissible fr blocks); observed on "+c.name+": "+outcome)
		rep.Case(test, c.name+" mimc transcript", false, outcome, "mimc(not asserted)")
	})
}
