package c02

import (
	"math/big"
	"testing"

	"verif/harness/internal/reg"
	"verif/harness/internal/rep"
)

// TestC02_RegressF50: PointExtended.MixedAdd(p1, p2) with p1 and p2 the same point and p1.Z != 1
// used to dispatch to MixedDouble, a formula valid for Z=1 only, and returned a point that is not
// even on the curve. Rapid-free; fails while the defect is present.
func TestC02_RegressF50(t *testing.T) {
	forEdwards(t, func(t *testing.T, w *ed) {
		e := w.e
		dbl, _ := e.E.Add(e.Base, e.Base)
		for _, z := range []int64{1, 2, 3, -1} {
			pe := e.NewExtended(e.Base, big.NewInt(z))
			r := e.Pkg.New("PointExtended")
			reg.M(r, "MixedAdd", pe, e.NewAffine(e.Base))
			if got := e.ToRef(r); !e.E.Eq(got, dbl) {
				t.Errorf("%s: MixedAdd((B scaled by Z=%d), B) = %s, want 2B = %s", e.Name, z, estr(got), estr(dbl))
			}
			// identity in a non-normalised representative plus affine identity
			oe := e.NewExtended(e.E.Zero(), big.NewInt(z))
			reg.M(r, "MixedAdd", oe, e.NewAffine(e.E.Zero()))
			if got := e.ToRef(r); !e.E.Eq(got, e.E.Zero()) {
				t.Errorf("%s: MixedAdd((O scaled by Z=%d), O) = %s, want O", e.Name, z, estr(got))
			}
		}
	})
}

// TestC02_RegressF51: the dedicated extended mixed addition (madd-2008-hwcd-2) degenerates to
// (0,0,0,0) when x1*y2 = y1*x2 or y1*y2 + a*x1*x2 = 0 with P != Q, e.g. O + (0,-1) or
// B + (B + (0,-1)). Rapid-free; fails while the defect is present.
func TestC02_RegressF51(t *testing.T) {
	forEdwards(t, func(t *testing.T, w *ed) {
		e, E, F := w.e, w.e.E, w.e.E.F
		t2 := E.Zero()
		t2.Y = F.Neg(big.NewInt(1)) // (0,-1), order 2
		bt, _ := E.Add(e.Base, t2)
		for i, c := range [][2]struct{ X, Y *big.Int }{
			{{E.Zero().X, E.Zero().Y}, {t2.X, t2.Y}},
			{{t2.X, t2.Y}, {E.Zero().X, E.Zero().Y}},
			{{e.Base.X, e.Base.Y}, {bt.X, bt.Y}},
		} {
			P, Q := E.Zero(), E.Zero()
			P.X, P.Y, Q.X, Q.Y = c[0].X, c[0].Y, c[1].X, c[1].Y
			want, _ := E.Add(P, Q)
			for _, z := range []int64{1, 5} {
				r := e.Pkg.New("PointExtended")
				reg.M(r, "MixedAdd", e.NewExtended(P, big.NewInt(z)), e.NewAffine(Q))
				v := reg.Flatten(r)
				if F.IsZero(v[2]) {
					t.Errorf("%s: case %d z=%d: MixedAdd returned the invalid point %v", e.Name, i, z, v)
				} else if got := e.ToRef(r); !E.Eq(got, want) {
					t.Errorf("%s: case %d z=%d: MixedAdd = %s want %s", e.Name, i, z, estr(got), estr(want))
				}
			}
		}
	})
}

// TestC02_ProbeF41 re-observes the known finding F41 on its two groups with the order-3 point
// (0, sqrt b) and T + G; prints the KNOWN-FINDING line while the defect is present.
func TestC02_ProbeF41(t *testing.T) {
	forGroups(t, func(t *testing.T, w *wg) {
		if !w.f41Group() {
			return
		}
		g, E := w.g, w.g.E
		T, ok := E.LiftX(E.F.Zero())
		if !ok || !E.Mul(big.NewInt(3), T).Inf || T.Inf {
			t.Fatalf("%s: expected an order-3 point with x=0", g.ID())
		}
		seen := 0
		for _, p := range []struct {
			nm string
			P  interface{}
		}{{"T=(0,sqrt b)", g.FromRef(T)}, {"G+T", g.FromRef(E.Add(g.Gen, T))}} {
			in := g.InSubgroup(g.ToRef(p.P))
			got := reg.Bool(p.P, "IsInSubGroup")
			if in {
				t.Fatalf("%s: probe point %s is in the subgroup according to the reference", g.ID(), p.nm)
			}
			if got {
				seen++
			}
		}
		if seen > 0 {
			if rep.Known("C02", kfF41) {
				rep.StillPresent("C02", kfF41, g.ID()+": IsInSubGroup accepts a point with a cofactor component of order 3")
			} else {
				t.Errorf("%s: IsInSubGroup accepts points with an order-3 component ([r]P != O) and %s is not listed in known_findings.json", g.ID(), kfF41)
			}
		}
		rep.Case("C02_ProbeF41", g.ID(), true, "probe_F41")
	})
}
