// Package c02: point arithmetic implements the group law in every coordinate system; Equal,
// IsOnCurve, IsInSubGroup are exact. Oracle: ref.Curve / ref.Edwards (affine textbook law over
// math/big towers); every library result is converted to affine by the reference.
package c02

import (
	"fmt"
	"math/big"
	"os"
	"reflect"
	"regexp"
	"testing"

	"pgregory.net/rapid"

	"verif/harness/internal/gen"
	"verif/harness/internal/inst"
	"verif/harness/internal/ref"
	"verif/harness/internal/reg"
	"verif/harness/internal/rep"
)

func TestMain(m *testing.M) { rep.Main(m) }

func selected(name string) bool {
	p := os.Getenv("VERIF_INST")
	if p == "" {
		return true
	}
	ok, _ := regexp.MatchString(p, name)
	return ok
}

// wg is one Weierstrass group with the capabilities discovered by reflection (the hand-written
// stark-curve lacks Double / DoubleMixed / SetInfinity).
type wg struct {
	g              *inst.Group
	s              gen.FieldSpec
	affDouble      bool
	jacDoubleMixed bool
	batch          string // BatchJacobianToAffineG1|G2 when exported
	primeOrder     bool   // cofactor 1 (Hasse: 2r > p+1+2sqrt(p)), only meaningful for G1
}

func newWG(g *inst.Group) *wg {
	w := &wg{g: g, s: gen.BaseSpec(g.C)}
	w.affDouble = reg.HasM(g.NewAff(), "Double")
	w.jacDoubleMixed = reg.HasM(g.NewJac(), "DoubleMixed")
	if n := "BatchJacobianToAffine" + g.Name; g.C.Pkg.Has(n) {
		w.batch = n
	}
	if g.E.F.Deg() == 1 {
		// #E(Fp) <= p+1+2sqrt(p); if 2r exceeds it the cofactor is 1
		p := g.C.P
		bound := new(big.Int).Add(p, big.NewInt(1))
		bound.Add(bound, new(big.Int).Lsh(new(big.Int).Add(new(big.Int).Sqrt(p), big.NewInt(1)), 1))
		w.primeOrder = new(big.Int).Lsh(g.R, 1).Cmp(bound) > 0
	}
	return w
}

func forGroups(t *testing.T, body func(t *testing.T, w *wg)) {
	for _, cn := range inst.CurveNames {
		any := false
		for _, gn := range []string{"G1", "G2"} {
			if selected(cn + "/" + gn) {
				any = true
			}
		}
		if !any {
			continue
		}
		c := inst.GetCurve(cn)
		for _, g := range c.Groups() {
			if !selected(g.ID()) {
				continue
			}
			w := newWG(g)
			t.Run(g.ID(), func(t *testing.T) { body(t, w) })
		}
	}
}

func flatEq(a, b interface{}) bool {
	x, y := reg.Flatten(a), reg.Flatten(b)
	if len(x) != len(y) {
		return false
	}
	for i := range x {
		if x[i].Cmp(y[i]) != 0 {
			return false
		}
	}
	return true
}

// affIs asserts that the library affine point equals want exactly (infinity = (0,0)).
func (w *wg) affIs(t *rapid.T, what string, aff interface{}, want ref.Pt) {
	g := w.g
	got := g.ToRef(aff)
	if !g.E.Eq(got, want) {
		t.Fatalf("%s: %s: got %s want %s", g.ID(), what, g.E.Str(got), g.E.Str(want))
	}
}

// jacIs asserts that the library Jacobian point represents want; a finite result must satisfy
// the projective curve equation according to the library's own IsOnCurve when want is on the curve.
func (w *wg) jacIs(t *rapid.T, what string, jac interface{}, want ref.Pt) {
	g := w.g
	got := g.JacToRef(jac)
	if !g.E.Eq(got, want) {
		t.Fatalf("%s: %s: got %s want %s (raw %s)", g.ID(), what, g.E.Str(got), g.E.Str(want), ref.String(reg.Flatten(jac)))
	}
	if !got.Inf && !reg.Bool(jac, "IsOnCurve") {
		t.Fatalf("%s: %s: result %s is a curve point but IsOnCurve()=false on the returned representative", g.ID(), what, g.E.Str(got))
	}
	// the identity as RETURNED by a group operation must be recognised by the Jacobian-level predicates too
	// (a caller may test the sum before converting it); representatives of O handed in by the harness with
	// Y^2 != X^3 are a different matter and are not generated
	if got.Inf && (!reg.Bool(jac, "IsOnCurve") || !reg.Bool(jac, "IsInSubGroup")) {
		t.Fatalf("%s: %s: the result is the identity but the returned representative %s has IsOnCurve()=%v IsInSubGroup()=%v",
			g.ID(), what, ref.String(reg.Flatten(jac)), reg.Bool(jac, "IsOnCurve"), reg.Bool(jac, "IsInSubGroup"))
	}
}

func (w *wg) poisonAff() interface{} { return w.g.FromRef(w.g.Gen) }
func (w *wg) poisonJac() interface{} {
	return w.g.JacFromRef(w.g.Gen, ref.Scalar(w.g.E.F, big.NewInt(3)))
}

func mand(id string, cls ...string) []string {
	out := make([]string, 0, 2*len(cls))
	for _, c := range cls {
		out = append(out, c, id+"|"+c)
	}
	return out
}

// propLaw: one generated pair (P,Q) with representatives, all group-law operations and Equal.
func propLaw(t *rapid.T, w *wg) {
	g, E := w.g, w.g.E
	P := gen.AnyPoint(t, g, w.s, "P")
	Q := gen.RelatedPoint(t, g, w.s, P, "Q")
	pj, zp := gen.JacRep(t, g, w.s, P.P, "zp")
	qj, zq := gen.JacRep(t, g, w.s, Q.P, "zq")
	pj2, zp2 := gen.JacRep(t, g, w.s, P.P, "zp2")
	pa, qa := g.FromRef(P.P), g.FromRef(Q.P)
	pj0, qj0 := reg.Clone(pj), reg.Clone(qj)

	sum, diff, dbl, neg := E.Add(P.P, Q.P), E.Sub(P.P, Q.P), E.Double(P.P), E.Neg(P.P)
	eq := E.Eq(P.P, Q.P)

	// ---- affine
	r := w.poisonAff()
	reg.M(r, "Add", pa, qa)
	w.affIs(t, "Affine.Add", r, sum)
	r = w.poisonAff()
	reg.M(r, "Sub", pa, qa)
	w.affIs(t, "Affine.Sub", r, diff)
	if w.affDouble {
		r = w.poisonAff()
		reg.M(r, "Double", pa)
		w.affIs(t, "Affine.Double", r, dbl)
	}
	r = w.poisonAff()
	reg.M(r, "Neg", pa)
	w.affIs(t, "Affine.Neg", r, neg)
	if got := reg.Bool(pa, "Equal", qa); got != eq {
		t.Fatalf("%s: Affine.Equal(%s,%s)=%v", g.ID(), E.Str(P.P), E.Str(Q.P), got)
	}
	if got := reg.Bool(pa, "IsInfinity"); got != P.P.Inf {
		t.Fatalf("%s: Affine.IsInfinity(%s)=%v", g.ID(), E.Str(P.P), got)
	}

	// ---- Jacobian
	j := reg.Clone(pj)
	reg.M(j, "AddAssign", qj)
	w.jacIs(t, "Jac.AddAssign["+zp+","+zq+"]", j, sum)
	j = reg.Clone(pj)
	reg.M(j, "SubAssign", qj)
	w.jacIs(t, "Jac.SubAssign["+zp+","+zq+"]", j, diff)
	j = reg.Clone(pj)
	reg.M(j, "AddMixed", qa)
	w.jacIs(t, "Jac.AddMixed["+zp+"]", j, sum)
	j = reg.Clone(pj)
	reg.M(j, "AddAssign", pj2) // the same point in two representations: doubling through add
	w.jacIs(t, "Jac.AddAssign(same point, other representative)["+zp+","+zp2+"]", j, dbl)
	j = reg.Clone(pj)
	reg.M(j, "SubAssign", pj2)
	w.jacIs(t, "Jac.SubAssign(same point, other representative)", j, E.Infinity())
	j = reg.Clone(pj)
	reg.M(j, "DoubleAssign")
	w.jacIs(t, "Jac.DoubleAssign["+zp+"]", j, dbl)
	j = w.poisonJac()
	reg.M(j, "Double", pj)
	w.jacIs(t, "Jac.Double["+zp+"]", j, dbl)
	if w.jacDoubleMixed {
		j = w.poisonJac()
		reg.M(j, "DoubleMixed", pa)
		w.jacIs(t, "Jac.DoubleMixed", j, dbl)
	}
	j = w.poisonJac()
	reg.M(j, "Neg", pj)
	w.jacIs(t, "Jac.Neg", j, neg)

	// ---- conversions
	j = w.poisonJac()
	reg.M(j, "FromAffine", pa)
	w.jacIs(t, "Jac.FromAffine", j, P.P)
	r = w.poisonAff()
	reg.M(r, "FromJacobian", pj)
	w.affIs(t, "Affine.FromJacobian["+zp+"]", r, P.P)
	nb := 0
	if w.batch != "" {
		// a batch mixing finite points, both infinity encodings and repeated points
		sj := reg.Clone(pj)
		reg.M(sj, "AddAssign", qj)
		items := []interface{}{pj, qj, sj, pj2}
		wants := []ref.Pt{P.P, Q.P, sum, P.P}
		perm := rapid.IntRange(0, 4).Draw(t, "batchlen")
		items, wants = items[:perm], wants[:perm]
		nb = perm
		in := reg.SliceOf(g.JacType(), items...)
		out := g.C.Pkg.F(w.batch, in)[0]
		if reg.Len(out) != len(items) {
			t.Fatalf("%s: %s: %d results for %d inputs", g.ID(), w.batch, reg.Len(out), len(items))
		}
		for i := range items {
			w.affIs(t, fmt.Sprintf("%s[%d/%d]", w.batch, i, len(items)), reg.Index(out, i), wants[i])
			if !flatEq(reg.Index(in, i), items[i]) {
				t.Fatalf("%s: %s modified its input %d", g.ID(), w.batch, i)
			}
		}
	}

	// ---- Equal on Jacobian representatives (must not depend on the scaling)
	if got := reg.Bool(pj, "Equal", qj); got != eq {
		t.Fatalf("%s: Jac.Equal(P=%s [%s], Q=%s [%s]) = %v, points equal = %v", g.ID(), E.Str(P.P), zp, E.Str(Q.P), zq, got, eq)
	}
	if got := reg.Bool(qj, "Equal", pj2); got != eq {
		t.Fatalf("%s: Jac.Equal(Q [%s], P [%s]) = %v, points equal = %v", g.ID(), zq, zp2, got, eq)
	}
	if !reg.Bool(pj, "Equal", pj2) || !reg.Bool(pj2, "Equal", pj) {
		t.Fatalf("%s: Jac.Equal is false on two representatives [%s],[%s] of %s", g.ID(), zp, zp2, E.Str(P.P))
	}

	// operands are not modified
	if !flatEq(pj, pj0) || !flatEq(qj, qj0) {
		t.Fatalf("%s: a Jacobian operand was modified", g.ID())
	}
	w.affIs(t, "operand pa after calls", pa, P.P)
	w.affIs(t, "operand qa after calls", qa, Q.P)

	// ---- evidence
	var cls []string
	if P.P.Inf {
		cls = append(cls, "P=O")
	}
	if Q.P.Inf {
		cls = append(cls, "Q=O")
	}
	if eq && !P.P.Inf {
		cls = append(cls, "P=Q")
	}
	if !P.P.Inf && !eq && E.Eq(P.P, E.Neg(Q.P)) {
		cls = append(cls, "P=-Q")
	}
	if zp == "Z!=1" || zq == "Z!=1" {
		cls = append(cls, "Z!=1")
	}
	if !flatEq(pj, pj2) {
		cls = append(cls, "same_pt_diff_rep")
	}
	if eq && !flatEq(pj, qj) {
		cls = append(cls, "same_pt_diff_rep_Q")
	}
	// ---- the identity written as the Go zero value (0,0,0) (`var acc G1Jac`; also what DoubleMixed of
	// the affine identity returns), on either side of every binary entry point
	{
		O := ref.Pt{Inf: true}
		zero := func() interface{} { return g.NewJac() }
		zeros := []struct {
			nm string
			mk func() interface{}
		}{{"zero value", zero}}
		if w.jacDoubleMixed {
			zeros = append(zeros, struct {
				nm string
				mk func() interface{}
			}{"DoubleMixed(affine O)", func() interface{} {
				z := w.poisonJac()
				reg.M(z, "DoubleMixed", g.NewAff())
				return z
			}})
		}
		for _, zr := range zeros {
			for _, o := range []struct {
				nm  string
				jac interface{}
				aff interface{}
				pt  ref.Pt
				zc  string
			}{{"P", pj, pa, P.P, zp}, {"Q", qj, qa, Q.P, zq}} {
				what := "identity as " + zr.nm + " vs " + o.nm + "[" + o.zc + "]=" + E.Str(o.pt)
				if got := reg.Bool(zr.mk(), "Equal", o.jac); got != o.pt.Inf {
					t.Fatalf("%s: Jac.Equal(%s) = %v, want %v", g.ID(), what, got, o.pt.Inf)
				}
				if got := reg.Bool(o.jac, "Equal", zr.mk()); got != o.pt.Inf {
					t.Fatalf("%s: Jac.Equal(%s, reversed) = %v, want %v", g.ID(), what, got, o.pt.Inf)
				}
				z := zr.mk()
				reg.M(z, "AddAssign", o.jac)
				w.jacIs(t, "O.AddAssign: "+what, z, o.pt)
				z = reg.Clone(o.jac)
				reg.M(z, "AddAssign", zr.mk())
				w.jacIs(t, "AddAssign(O): "+what, z, o.pt)
				z = zr.mk()
				reg.M(z, "SubAssign", o.jac)
				w.jacIs(t, "O.SubAssign: "+what, z, E.Neg(o.pt))
				z = reg.Clone(o.jac)
				reg.M(z, "SubAssign", zr.mk())
				w.jacIs(t, "SubAssign(O): "+what, z, o.pt)
				z = zr.mk()
				reg.M(z, "AddMixed", o.aff)
				w.jacIs(t, "O.AddMixed: "+what, z, o.pt)
			}
			z := zr.mk()
			reg.M(z, "DoubleAssign")
			w.jacIs(t, "DoubleAssign of the identity as "+zr.nm, z, O)
			z = w.poisonJac()
			reg.M(z, "Double", zr.mk())
			w.jacIs(t, "Double of the identity as "+zr.nm, z, O)
			z = w.poisonJac()
			reg.M(z, "Neg", zr.mk())
			w.jacIs(t, "Neg of the identity as "+zr.nm, z, O)
			a := w.poisonAff()
			reg.M(a, "FromJacobian", zr.mk())
			w.affIs(t, "FromJacobian of the identity as "+zr.nm, a, O)
			if !reg.Bool(a, "IsInfinity") {
				t.Fatalf("%s: FromJacobian(identity as %s) is not IsInfinity", g.ID(), zr.nm)
			}
			if !reg.Bool(zr.mk(), "Equal", zr.mk()) || !reg.Bool(zr.mk(), "Equal", zero()) || !reg.Bool(zero(), "Equal", zr.mk()) {
				t.Fatalf("%s: two identities (%s) are not Equal", g.ID(), zr.nm)
			}
		}
		cls = append(cls, "inf_zero_value_operand")
		if zp == "inf_zero" || zq == "inf_zero" || zp2 == "inf_zero" {
			cls = append(cls, "rep_000")
		}
	}

	// ---- P = Q as ONE object (receiver is also the operand): p+p = 2p, p-p = O
	inf := ref.Pt{Inf: true}
	sj := reg.Clone(pj)
	reg.M(sj, "AddAssign", sj)
	w.jacIs(t, "Jac p.AddAssign(&p)", sj, dbl)
	sj = reg.Clone(pj)
	reg.M(sj, "SubAssign", sj)
	w.jacIs(t, "Jac p.SubAssign(&p)", sj, inf)
	sj = reg.Clone(pj)
	reg.M(sj, "Double", sj)
	w.jacIs(t, "Jac p.Double(&p)", sj, dbl)
	sa := reg.Clone(pa)
	reg.M(sa, "Add", sa, sa)
	w.affIs(t, "Affine p.Add(&p,&p)", sa, dbl)
	sa = reg.Clone(pa)
	reg.M(sa, "Sub", sa, sa)
	w.affIs(t, "Affine p.Sub(&p,&p)", sa, inf)
	cls = append(cls, "same_object")

	nt := len(cls) > 0
	all := mand(g.ID(), cls...)
	all = append(all, "P:"+P.Class, "Q:"+Q.Class, "zp:"+zp, "zq:"+zq)
	if nb > 0 || w.batch != "" {
		all = append(all, fmt.Sprintf("batchconv_len=%d", nb))
	}
	key := fmt.Sprintf("%s P=%s Q=%s zp=%s zq=%s zp2=%s", g.ID(), E.Str(P.P), E.Str(Q.P), ref.String(reg.Flatten(pj)), ref.String(reg.Flatten(qj)), ref.String(reg.Flatten(pj2)))
	rep.Case("C02_Law/"+g.ID(), key, nt, all...)
}

// Known finding F41 (decided by the lead: recorded, not repaired): the lattice-based subgroup
// tests of bw6-633 G1 and bw6-761 G2 only prove [3r]P = O, so they accept points whose
// cofactor component has order 3.
const kfF41 = "F41-bw6-subgroup-check-accepts-order3"

func (w *wg) f41Group() bool { return w.g.ID() == "bw6-633/G1" || w.g.ID() == "bw6-761/G2" }

// subgroupOracle returns (on curve and [r]P = O, P is in the F41 class: [r]P != O but [3r]P = O
// on one of the two affected groups). known is true when membership follows from the construction.
func (w *wg) subgroupOracle(p ref.Pt, known bool) (in, f41 bool) {
	if known || p.Inf {
		return true, false
	}
	E := w.g.E
	if !E.OnCurve(p) {
		return false, false
	}
	rp := E.Mul(w.g.R, p)
	if rp.Inf {
		return true, false
	}
	return false, w.f41Group() && E.Mul(big.NewInt(3), rp).Inf
}

// checkSub asserts IsInSubGroup on recv unless the case lies in the known-finding class F41.
// It returns the evidence labels to add.
func (w *wg) checkSub(t *rapid.T, test, what string, recv interface{}, in, f41 bool) []string {
	if f41 && rep.Known("C02", kfF41) {
		rep.Excluded(test, "C02", kfF41)
		return nil
	}
	if got := reg.Bool(recv, "IsInSubGroup"); got != in {
		t.Fatalf("%s: %s.IsInSubGroup(%s) = %v, reference (on curve and [r]P=O) says %v", w.g.ID(), what, ref.String(reg.Flatten(recv)), got, in)
	}
	return nil
}

// jacOnCurve evaluates Y^2 = X^3 + a X Z^4 + b Z^6 in the reference.
func jacOnCurve(E *ref.Curve, c ref.V) bool {
	F := E.F
	n := len(c) / 3
	x, y, z := c[:n], c[n:2*n], c[2*n:]
	z2 := F.Mul(z, z)
	z4 := F.Mul(z2, z2)
	z6 := F.Mul(z4, z2)
	rhs := F.Add(F.Add(F.Mul(F.Mul(x, x), x), F.Mul(E.A, F.Mul(x, z4))), F.Mul(E.B, z6))
	return F.Eq(F.Mul(y, y), rhs)
}

// propPred: IsOnCurve / IsInSubGroup / IsInfinity on subgroup points, curve points outside the
// subgroup, and points off the curve, in affine and Jacobian form.
func propPred(t *rapid.T, w *wg) {
	g, E, F := w.g, w.g.E, w.g.E.F
	P := gen.AnyPoint(t, g, w.s, "P")
	mode := rapid.SampledFrom([]string{"on", "on", "off_x", "off_y", "off_swap", "off_jacX", "off_jacY", "off_jacZ"}).Draw(t, "mode")
	var aff, jac interface{}
	var zc string
	test := "C02_Pred/" + g.ID()
	cls := []string{"mode:" + mode, "P:" + P.Class}

	if mode == "on" || P.P.Inf && (mode == "off_x" || mode == "off_y" || mode == "off_swap") {
		aff = g.FromRef(P.P)
		jac, zc = gen.JacRep(t, g, w.s, P.P, "z")
		in, f41 := w.subgroupOracle(P.P, P.K != nil)
		for _, c := range []struct {
			nm   string
			recv interface{}
		}{{"Affine", aff}, {"Jac[" + zc + "]", jac}} {
			if !reg.Bool(c.recv, "IsOnCurve") {
				t.Fatalf("%s: %s.IsOnCurve(%s) = false for a curve point (class %s)", g.ID(), c.nm, E.Str(P.P), P.Class)
			}
			w.checkSub(t, test, c.nm, c.recv, in, f41)
		}
		if f41 {
			cls = append(cls, "F41_class")
		}
		if got := reg.Bool(aff, "IsInfinity"); got != P.P.Inf {
			t.Fatalf("%s: IsInfinity(%s)=%v", g.ID(), E.Str(P.P), got)
		}
		// the identity written as the zero value (0,0,0) (Y^2 = X^3 holds): on the curve and in the subgroup
		if z := g.NewJac(); !reg.Bool(z, "IsOnCurve") || !reg.Bool(z, "IsInSubGroup") {
			t.Fatalf("%s: the identity as the zero value (0,0,0): IsOnCurve=%v IsInSubGroup=%v", g.ID(), reg.Bool(z, "IsOnCurve"), reg.Bool(z, "IsInSubGroup"))
		}
		var m []string
		if zc == "inf_zero" {
			m = append(m, "rep_000")
		}
		cls = append(cls, mand(g.ID(), "inf_zero_value_operand")...)
		if !in {
			m = append(m, "non_subgroup")
		}
		if P.P.Inf {
			m = append(m, "P=O")
		}
		if zc == "Z!=1" {
			m = append(m, "Z!=1")
		}
		if in {
			cls = append(cls, "in_subgroup")
		}
		cls = append(cls, "z:"+zc)
		cls = append(cls, mand(g.ID(), m...)...)
		rep.Case(test, fmt.Sprintf("%s on %s z=%s", g.ID(), E.Str(P.P), ref.String(reg.Flatten(jac))), len(m) > 0, cls...)
		return
	}

	d, _ := gen.NonZeroV(t, F, w.s, "delta")
	switch mode {
	case "off_x", "off_y", "off_swap":
		x, y := P.P.X, P.P.Y
		switch mode {
		case "off_x":
			x = F.Add(x, d)
		case "off_y":
			y = F.Add(y, d)
		default:
			x, y = y, x
		}
		cand := ref.Pt{X: x, Y: y}
		if F.IsZero(x) && F.IsZero(y) {
			cand = ref.Pt{Inf: true}
		}
		on := E.OnCurve(cand)
		in, f41 := w.subgroupOracle(cand, false)
		if f41 {
			cls = append(cls, "F41_class")
		}
		aff = g.NewAff()
		reg.Unflatten(aff, append(append(ref.V{}, ref.Red(F, x)...), ref.Red(F, y)...))
		if got := reg.Bool(aff, "IsOnCurve"); got != on {
			t.Fatalf("%s: Affine.IsOnCurve(%s,%s) = %v, curve equation says %v", g.ID(), ref.String(x), ref.String(y), got, on)
		}
		w.checkSub(t, test, "Affine", aff, in, f41)
		// the same point embedded with an arbitrary Z
		if !cand.Inf {
			z, _ := gen.NonZeroV(t, F, w.s, "z")
			jac = g.JacFromRef(cand, z)
			if got := reg.Bool(jac, "IsOnCurve"); got != on {
				t.Fatalf("%s: Jac.IsOnCurve(%s) = %v, curve equation says %v", g.ID(), ref.String(reg.Flatten(jac)), got, on)
			}
			w.checkSub(t, test, "Jac", jac, in, f41)
		}
		m := []string{}
		if !on {
			m = append(m, "off_curve")
		} else if !in {
			m = append(m, "non_subgroup")
		}
		cls = append(cls, mand(g.ID(), m...)...)
		rep.Case(test, fmt.Sprintf("%s aff (%s,%s)", g.ID(), ref.String(x), ref.String(y)), true, cls...)
	default:
		jac, zc = gen.JacRep(t, g, w.s, P.P, "z")
		c := reg.Flatten(jac)
		n := len(c) / 3
		k := map[string]int{"off_jacX": 0, "off_jacY": 1, "off_jacZ": 2}[mode]
		nv := F.Add(ref.V(c[k*n:(k+1)*n]), d)
		copy(c[k*n:(k+1)*n], nv)
		reg.Unflatten(jac, c)
		z := ref.V(c[2*n:])
		on := jacOnCurve(E, c)
		if F.IsZero(z) && !on {
			// Z=0 with Y^2 != X^3: no convention to assert
			rep.Case(test, "skipped Z=0 non-canonical", false, "skipped_Z=0_noncanonical")
			return
		}
		in, f41 := false, false
		if on {
			in, f41 = w.subgroupOracle(g.JacToRef(jac), false)
		}
		if got := reg.Bool(jac, "IsOnCurve"); got != on {
			t.Fatalf("%s: Jac.IsOnCurve(%s) = %v, projective curve equation says %v", g.ID(), ref.String(c), got, on)
		}
		w.checkSub(t, test, "Jac", jac, in, f41)
		m := []string{}
		if !on {
			m = append(m, "off_curve")
		} else if !in {
			m = append(m, "non_subgroup")
		}
		cls = append(cls, mand(g.ID(), m...)...)
		rep.Case(test, fmt.Sprintf("%s jac %s", g.ID(), ref.String(c)), true, cls...)
	}
}

func TestC02_Law(t *testing.T) {
	forGroups(t, func(t *testing.T, w *wg) {
		rapid.Check(t, func(t *rapid.T) { propLaw(t, w) })
	})
}

func TestC02_Pred(t *testing.T) {
	forGroups(t, func(t *testing.T, w *wg) {
		if w.primeOrder {
			rep.Note("C02_Pred/"+w.g.ID(), w.g.ID()+": cofactor 1 by the Hasse bound (2r > p+1+2sqrt p): no curve point outside the subgroup exists, class non_subgroup is empty by construction")
		}
		rapid.Check(t, func(t *rapid.T) { propPred(t, w) })
	})
}

var _ = reflect.TypeOf
