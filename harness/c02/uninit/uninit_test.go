// Package uninit holds the regression test of F52. It must run in a process in which nothing has
// initialised the twisted-Edwards curve parameters yet, hence its own test binary.
package uninit

import (
	"math/big"
	"testing"

	"verif/harness/internal/reg"
	"verif/harness/internal/rep"
)

func TestMain(m *testing.M) { rep.Main(m) }

var names = []string{"bn254/twistededwards", "bls12-377/twistededwards", "bls12-381/twistededwards", "bls12-381/bandersnatch",
	"bls24-315/twistededwards", "bls24-317/twistededwards", "bw6-633/twistededwards", "bw6-761/twistededwards"}

func same(a, b []*big.Int) bool {
	for i := range a {
		if a[i].Cmp(b[i]) != 0 {
			return false
		}
	}
	return true
}

// TestC02_RegressF52: PointExtended.Add read curveParams.D without initOnce.Do(initCurveParams);
// in a fresh process (points built from coordinates, no call to GetEdwardsCurve/IsOnCurve/...)
// it computed with d = 0, and so did PointAffine/PointExtended.ScalarMultiplication.
// The formulas are polynomial, so any input triple shows the dependence on the hidden state.
func TestC02_RegressF52(t *testing.T) {
	for _, n := range names {
		pkg := reg.Get("ecc/" + n)
		mk := func() interface{} {
			p := pkg.New("PointExtended")
			reg.Unflatten(p, []*big.Int{big.NewInt(2), big.NewInt(3), big.NewInt(1), big.NewInt(6)})
			return p
		}
		before := pkg.New("PointExtended")
		reg.M(before, "Add", mk(), mk())
		sb := pkg.New("PointExtended")
		reg.M(sb, "ScalarMultiplication", mk(), big.NewInt(5))
		pkg.F("GetEdwardsCurve") // initialises the parameters
		after := pkg.New("PointExtended")
		reg.M(after, "Add", mk(), mk())
		sa := pkg.New("PointExtended")
		reg.M(sa, "ScalarMultiplication", mk(), big.NewInt(5))
		if !same(reg.Flatten(before), reg.Flatten(after)) {
			t.Errorf("%s: PointExtended.Add gives different results before and after the curve parameters are initialised", n)
		}
		if !same(reg.Flatten(sb), reg.Flatten(sa)) {
			t.Errorf("%s: PointExtended.ScalarMultiplication gives different results before and after the curve parameters are initialised", n)
		}
		rep.Case("C02_RegressF52", n, true, "regress_F52")
	}
}
