package uninit

import (
	"fmt"
	"math/big"
	"os"
	"os/exec"
	"reflect"
	"sort"
	"strings"
	"sync"
	"testing"

	"verif/harness/internal/reg"
	"verif/harness/internal/rep"
)

// TestC02_ColdStart: every exported method of the twisted-Edwards point types must give the same
// result whether or not the lazily initialised curve parameters have been touched before. Each
// (package, type, method) runs in a FRESH child process: the method is called cold, then
// GetEdwardsCurve() forces the initialisation, then the method is called again on equal inputs.
// The formulas are polynomial in the parameters, so arbitrary coordinates expose any dependence
// on the hidden state (a missing initOnce.Do on one code path).
func TestC02_ColdStart(t *testing.T) {
	if spec := os.Getenv("VERIF_COLD"); spec != "" {
		coldChild(spec)
		return
	}
	type job struct{ pkg, typ, meth string }
	var jobs []job
	for _, n := range names {
		pkg := reg.Get("ecc/" + n)
		for _, ty := range []string{"PointAffine", "PointProj", "PointExtended"} {
			pt := reflect.PtrTo(pkg.Types[ty])
			for i := 0; i < pt.NumMethod(); i++ {
				m := pt.Method(i)
				if coldArgs(pkg, m.Type, 1) != nil {
					jobs = append(jobs, job{n, ty, m.Name})
				}
			}
		}
	}
	sort.Slice(jobs, func(i, j int) bool { return fmt.Sprint(jobs[i]) < fmt.Sprint(jobs[j]) })
	var wg sync.WaitGroup
	sem := make(chan struct{}, 16)
	var mu sync.Mutex
	for _, j := range jobs {
		j := j
		wg.Add(1)
		sem <- struct{}{}
		go func() {
			defer wg.Done()
			defer func() { <-sem }()
			cmd := exec.Command(os.Args[0], "-test.run=^TestC02_ColdStart$")
			cmd.Env = append(os.Environ(), "VERIF_COLD="+j.pkg+"|"+j.typ+"|"+j.meth, "VERIF_REPORT=")
			out, err := cmd.CombinedOutput()
			mu.Lock()
			defer mu.Unlock()
			if err != nil || strings.Contains(string(out), "COLD-MISMATCH") {
				t.Errorf("%s %s.%s: result depends on whether the curve parameters were initialised before the call (cold start):\n%s", j.pkg, j.typ, j.meth, lastLines(string(out), 6))
			}
			rep.Case("C02_ColdStart", j.pkg+" "+j.typ+"."+j.meth, true, "cold_start:"+j.typ)
		}()
	}
	wg.Wait()
	if len(jobs) < 100 {
		t.Errorf("only %d methods discovered", len(jobs))
	}
}

func lastLines(s string, n int) string {
	l := strings.Split(strings.TrimSpace(s), "\n")
	if len(l) > n {
		l = l[len(l)-n:]
	}
	return strings.Join(l, "\n")
}

// coldArgs builds arguments for a method type (receiver at index 0 when from is 1); nil if unsupported.
func coldArgs(pkg *reg.Pkg, mt reflect.Type, from int) []reflect.Value {
	args := []reflect.Value{}
	for i := from; i < mt.NumIn(); i++ {
		v, ok := coldValue(pkg, mt.In(i))
		if !ok {
			return nil
		}
		args = append(args, v)
	}
	return args
}

func coldValue(pkg *reg.Pkg, t reflect.Type) (reflect.Value, bool) {
	coords := map[string][]int64{"PointAffine": {2, 3}, "PointProj": {2, 3, 1}, "PointExtended": {2, 3, 1, 6}}
	if t.Kind() == reflect.Ptr {
		if c, ok := coords[t.Elem().Name()]; ok && t.Elem() == pkg.Types[t.Elem().Name()] {
			p := reflect.New(t.Elem())
			vals := make([]*big.Int, len(c))
			for i := range c {
				vals[i] = big.NewInt(c[i])
			}
			reg.Unflatten(p.Interface(), vals)
			return p, true
		}
		if t == reflect.TypeOf((*big.Int)(nil)) {
			return reflect.ValueOf(big.NewInt(5)), true
		}
		return reflect.Value{}, false
	}
	switch t.Kind() {
	case reflect.Slice:
		if t.Elem().Kind() == reflect.Uint8 { // SetBytes / Unmarshal: a fixed buffer
			b := make([]byte, 128)
			b[len(b)-1] = 3
			b[31] = 2
			return reflect.ValueOf(b), true
		}
	case reflect.Int:
		return reflect.ValueOf(3), true
	}
	return reflect.Value{}, false
}

func coldChild(spec string) {
	p := strings.Split(spec, "|")
	pkg := reg.Get("ecc/" + p[0])
	run := func() (out string) {
		defer func() {
			if r := recover(); r != nil {
				out = "panic"
			}
		}()
		recv, _ := coldValue(pkg, reflect.PtrTo(pkg.Types[p[1]]))
		m := recv.MethodByName(p[2])
		args := coldArgs(pkg, m.Type(), 0)
		res := m.Call(args)
		s := fmt.Sprint(reg.Flatten(recv.Interface()))
		for _, r := range res {
			if r.Kind() == reflect.Ptr && !r.IsNil() && r.Type().Elem().Kind() == reflect.Struct {
				s += fmt.Sprint(reg.Flatten(r.Interface()))
			} else if r.Kind() == reflect.Interface && !r.IsNil() {
				s += " err"
			} else if r.CanInterface() {
				s += fmt.Sprint(" ", r.Interface())
			}
		}
		for _, a := range args {
			if a.Kind() == reflect.Ptr && a.Type() != reflect.TypeOf((*big.Int)(nil)) {
				s += fmt.Sprint(reg.Flatten(a.Interface()))
			}
		}
		return s
	}
	cold := run()
	pkg.F("GetEdwardsCurve")
	warm := run()
	if cold != warm {
		fmt.Printf("COLD-MISMATCH %s\n cold: %s\n warm: %s\n", spec, cold, warm)
		os.Exit(1)
	}
	os.Exit(0)
}
