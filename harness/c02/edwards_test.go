package c02

import (
	"fmt"
	"math/big"
	"testing"

	"pgregory.net/rapid"

	"verif/harness/internal/gen"
	"verif/harness/internal/inst"
	"verif/harness/internal/ref"
	"verif/harness/internal/reg"
	"verif/harness/internal/rep"
)

// Known-finding key: the dedicated extended-coordinates mixed addition (madd-2008-hwcd-2, chosen
// for speed) is not unified: besides P=Q (dispatched) it degenerates to (0,0,0,0) when
// x1*y2 = y1*x2 (Q = P + (0,-1)) or y1*y2 + a*x1*x2 = 0. Both need a point of even order, i.e. an
// operand outside the prime-order subgroup.
const kfMixedAddExceptional = "edwards-extended-mixedadd-even-order-exceptional"

type ed struct {
	e *inst.Edwards
	s gen.FieldSpec
}

func forEdwards(t *testing.T, body func(t *testing.T, w *ed)) {
	for _, n := range inst.EdwardsNames {
		if !selected(n) {
			continue
		}
		e := inst.GetEdwards(n)
		host := "bls12-381"
		if n != "bls12-381/bandersnatch" {
			host = n[:len(n)-len("/twistededwards")]
		}
		w := &ed{e: e, s: gen.SpecOf(inst.FieldByName(host + "/fr"))}
		t.Run(n, func(t *testing.T) { body(t, w) })
	}
}

func estr(p ref.EPt) string { return "(" + p.X.Text(16) + "," + p.Y.Text(16) + ")" }

// is asserts that a library point (affine / projective / extended) represents want; extended
// results must also satisfy the invariant T*Z = X*Y and Z != 0.
func (w *ed) is(t *rapid.T, what string, p interface{}, want ref.EPt) {
	F := w.e.E.F
	v := reg.Flatten(p)
	if len(v) >= 3 && F.IsZero(v[2]) {
		t.Fatalf("%s: %s: result has Z=0: %s (want %s)", w.e.Name, what, ref.String(v), estr(want))
	}
	got := w.e.ToRef(p)
	if !w.e.E.Eq(got, want) {
		t.Fatalf("%s: %s: got %s want %s (raw %s)", w.e.Name, what, estr(got), estr(want), ref.String(v))
	}
	if len(v) == 4 && !F.Eq(F.Mul(v[3], v[2]), F.Mul(v[0], v[1])) {
		t.Fatalf("%s: %s: extended result violates T*Z = X*Y: %s", w.e.Name, what, ref.String(v))
	}
}

func (w *ed) nz(t *rapid.T, label string) (*big.Int, string) {
	z, c := w.s.Elem(t, label)
	if z.Sign() == 0 {
		return big.NewInt(1), "one"
	}
	if z.Cmp(big.NewInt(1)) == 0 {
		return z, "one"
	}
	return z, c
}

func (w *ed) poison(ty string) interface{} {
	switch ty {
	case "PointAffine":
		return w.e.NewAffine(w.e.Base)
	case "PointProj":
		return w.e.NewProj(w.e.Base, big.NewInt(3))
	}
	return w.e.NewExtended(w.e.Base, big.NewInt(3))
}

// mixedAddExceptional reports whether (P,Q), P != Q, is an exceptional pair of the dedicated
// addition formulas: x1 y2 = y1 x2 or y1 y2 + a x1 x2 = 0.
func (w *ed) mixedAddExceptional(P, Q ref.EPt) bool {
	F, E := w.e.E.F, w.e.E
	if E.Eq(P, Q) {
		return false
	}
	c1 := F.Sub(F.Mul(P.X, Q.Y), F.Mul(P.Y, Q.X))
	c2 := F.Add(F.Mul(P.Y, Q.Y), F.Mul(E.A, F.Mul(P.X, Q.X)))
	return c1.Sign() == 0 || c2.Sign() == 0
}

func propEdLaw(t *rapid.T, w *ed) {
	e, E := w.e, w.e.E
	test := "C02_EdLaw/" + e.Name
	P := gen.EdAnyPoint(t, e, w.s, "P")
	Q := gen.EdRelatedPoint(t, e, w.s, P, "Q")
	z1, z1c := w.nz(t, "z1")
	z2, z2c := w.nz(t, "z2")
	z3, _ := w.nz(t, "z3")
	sum, okS := E.Add(P.P, Q.P)
	dbl, okD := E.Add(P.P, P.P)
	neg := E.Neg(P.P)
	eq := E.Eq(P.P, Q.P)
	isO := E.Eq(P.P, E.Zero())
	if !E.OnCurve(P.P) || !E.OnCurve(Q.P) {
		t.Fatalf("generator produced an off-curve point")
	}
	key := fmt.Sprintf("%s P=%s Q=%s z1=%s z2=%s", e.Name, estr(P.P), estr(Q.P), z1.Text(16), z2.Text(16))
	var cls []string
	if isO {
		cls = append(cls, "P=O")
	}
	if E.Eq(Q.P, E.Zero()) {
		cls = append(cls, "Q=O")
	}
	if eq && !isO {
		cls = append(cls, "P=Q")
	}
	if !eq && E.Eq(P.P, E.Neg(Q.P)) {
		cls = append(cls, "P=-Q")
	}
	if z1c != "one" || z2c != "one" {
		cls = append(cls, "Z!=1")
	}
	if z1.Cmp(z3) != 0 {
		cls = append(cls, "same_pt_diff_rep")
	}
	if eq && z1.Cmp(z2) != 0 {
		cls = append(cls, "same_pt_diff_rep_Q")
	}
	nt := len(cls) > 0
	all := mand(e.Name, cls...)
	all = append(all, "P:"+P.Class, "Q:"+Q.Class)

	pa, qa := e.NewAffine(P.P), e.NewAffine(Q.P)
	pp, qp, pp2 := e.NewProj(P.P, z1), e.NewProj(Q.P, z2), e.NewProj(P.P, z3)
	pe, qe, pe2 := e.NewExtended(P.P, z1), e.NewExtended(Q.P, z2), e.NewExtended(P.P, z3)

	// ---- representation-only operations (no addition law involved)
	r := w.poison("PointAffine")
	reg.M(r, "Neg", pa)
	w.is(t, "Affine.Neg", r, neg)
	r = w.poison("PointAffine")
	reg.M(r, "FromProj", pp)
	w.is(t, "Affine.FromProj", r, P.P)
	r = w.poison("PointAffine")
	reg.M(r, "FromExtended", pe)
	w.is(t, "Affine.FromExtended", r, P.P)
	r = w.poison("PointProj")
	reg.M(r, "FromAffine", pa)
	w.is(t, "Proj.FromAffine", r, P.P)
	r = w.poison("PointProj")
	reg.M(r, "Neg", pp)
	w.is(t, "Proj.Neg", r, neg)
	r = w.poison("PointExtended")
	reg.M(r, "FromAffine", pa)
	w.is(t, "Extended.FromAffine", r, P.P)
	pe1 := r // Z=1 representative for MixedDouble
	r = w.poison("PointExtended")
	reg.M(r, "Neg", pe)
	w.is(t, "Extended.Neg", r, neg)

	// ---- predicates
	if !reg.Bool(pa, "IsOnCurve") {
		t.Fatalf("%s: IsOnCurve(%s) = false for a curve point", e.Name, estr(P.P))
	}
	for _, c := range []struct {
		nm   string
		a, b interface{}
		want bool
	}{{"Affine.Equal", pa, qa, eq}, {"Proj.Equal(P,Q)", pp, qp, eq}, {"Proj.Equal(Q,P')", qp, pp2, eq}, {"Proj.Equal(P,P')", pp, pp2, true},
		{"Extended.Equal(P,Q)", pe, qe, eq}, {"Extended.Equal(Q,P')", qe, pe2, eq}, {"Extended.Equal(P,P')", pe, pe2, true}} {
		if got := reg.Bool(c.a, "Equal", c.b); got != c.want {
			t.Fatalf("%s: %s = %v want %v; %s", e.Name, c.nm, got, c.want, key)
		}
	}
	for _, c := range []struct {
		nm string
		a  interface{}
	}{{"Affine.IsZero", pa}, {"Proj.IsZero", pp}, {"Extended.IsZero", pe}} {
		if got := reg.Bool(c.a, "IsZero"); got != isO {
			t.Fatalf("%s: %s(%s) = %v (z=%s)", e.Name, c.nm, estr(P.P), got, z1.Text(16))
		}
	}

	// ---- doubling
	if okD {
		r = w.poison("PointAffine")
		reg.M(r, "Double", pa)
		w.is(t, "Affine.Double", r, dbl)
		r = w.poison("PointProj")
		reg.M(r, "Double", pp)
		w.is(t, "Proj.Double", r, dbl)
		r = w.poison("PointExtended")
		reg.M(r, "Double", pe)
		w.is(t, "Extended.Double", r, dbl)
		r = w.poison("PointExtended")
		reg.M(r, "MixedDouble", pe1)
		w.is(t, "Extended.MixedDouble(Z=1)", r, dbl)
		// the same point in two representations through the addition entry points
		r = w.poison("PointProj")
		reg.M(r, "Add", pp, pp2)
		w.is(t, "Proj.Add(P,P')", r, dbl)
		r = w.poison("PointExtended")
		reg.M(r, "Add", pe, pe2)
		w.is(t, "Extended.Add(P,P')", r, dbl)
		r = w.poison("PointProj")
		reg.M(r, "MixedAdd", pp, pa)
		w.is(t, "Proj.MixedAdd(P [z], P affine)", r, dbl)
		r = w.poison("PointExtended")
		reg.M(r, "MixedAdd", pe, pa)
		w.is(t, "Extended.MixedAdd(P [z="+z1c+"], P affine)", r, dbl)
	} else {
		all = append(all, "exceptional_unified_dbl")
	}

	// ---- addition
	if okS {
		r = w.poison("PointAffine")
		reg.M(r, "Add", pa, qa)
		w.is(t, "Affine.Add", r, sum)
		r = w.poison("PointProj")
		reg.M(r, "Add", pp, qp)
		w.is(t, "Proj.Add", r, sum)
		r = w.poison("PointProj")
		reg.M(r, "MixedAdd", pp, qa)
		w.is(t, "Proj.MixedAdd", r, sum)
		r = w.poison("PointExtended")
		reg.M(r, "Add", pe, qe)
		w.is(t, "Extended.Add", r, sum)
		if w.mixedAddExceptional(P.P, Q.P) && rep.Known("C02", kfMixedAddExceptional) {
			rep.Excluded(test, "C02", kfMixedAddExceptional)
		} else {
			if w.mixedAddExceptional(P.P, Q.P) {
				all = append(all, "ext_mixedadd_exceptional_pair")
			}
			r = w.poison("PointExtended")
			reg.M(r, "MixedAdd", pe, qa)
			w.is(t, "Extended.MixedAdd[z="+z1c+"]", r, sum)
		}
	} else {
		all = append(all, "exceptional_unified_add")
	}

	// operands unchanged
	w.is(t, "operand pa", pa, P.P)
	w.is(t, "operand pe", pe, P.P)
	w.is(t, "operand pp", pp, P.P)
	w.is(t, "operand qa", qa, Q.P)

	rep.Case(test, key, nt, all...)
}

// propEdPred: IsOnCurve on curve points (inside and outside the prime subgroup) and on perturbed
// points, both directions.
func propEdPred(t *rapid.T, w *ed) {
	e, E, F := w.e, w.e.E, w.e.E.F
	test := "C02_EdPred/" + e.Name
	P := gen.EdAnyPoint(t, e, w.s, "P")
	mode := rapid.SampledFrom([]string{"on", "off_x", "off_y", "swap", "negy"}).Draw(t, "mode")
	x, y := P.P.X, P.P.Y
	d, _ := w.nz(t, "delta")
	switch mode {
	case "off_x":
		x = F.Add(x, d)
	case "off_y":
		y = F.Add(y, d)
	case "swap":
		x, y = y, x
	case "negy":
		y = F.Neg(y) // (x,-y) = P' + (0,-1) reflected: still on the curve
	}
	cand := ref.EPt{X: x, Y: y}
	on := E.OnCurve(cand)
	a := e.NewAffine(cand)
	if got := reg.Bool(a, "IsOnCurve"); got != on {
		t.Fatalf("%s: IsOnCurve(%s) = %v, curve equation says %v", e.Name, estr(cand), got, on)
	}
	if got, want := reg.Bool(a, "IsZero"), E.Eq(cand, E.Zero()); got != want {
		t.Fatalf("%s: IsZero(%s) = %v", e.Name, estr(cand), got)
	}
	var m []string
	if !on {
		m = append(m, "off_curve")
	} else if k, ok := gen.EdMul(e, e.Order, cand); !ok || !E.Eq(k, E.Zero()) {
		m = append(m, "non_subgroup")
	}
	cls := append(mand(e.Name, m...), "mode:"+mode, "P:"+P.Class)
	rep.Case(test, fmt.Sprintf("%s %s", e.Name, estr(cand)), len(m) > 0, cls...)
}

func TestC02_EdLaw(t *testing.T) {
	forEdwards(t, func(t *testing.T, w *ed) {
		rapid.Check(t, func(t *rapid.T) { propEdLaw(t, w) })
	})
}

func TestC02_EdPred(t *testing.T) {
	forEdwards(t, func(t *testing.T, w *ed) {
		rapid.Check(t, func(t *rapid.T) { propEdPred(t, w) })
	})
}
