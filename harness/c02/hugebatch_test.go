package c02

// TestC02_HugeBatch (rapid-free): the batch conversion Jacobian -> affine splits its work over the CPUs through the
// shared internal/parallel helper; the way an index range is cut into chunks depends on len/NumCPU and on the
// remainders, which the small batches of the law property never reach. Batches around k*NumCPU*4096 (+1, +100,
// +4095, and a size that is no multiple of anything) are converted and EVERY slot is compared with the reference
// affine point of its input; the inputs must be unchanged.

import (
	"fmt"
	"math/big"
	"reflect"
	"runtime"
	"testing"

	"verif/harness/internal/ref"
	"verif/harness/internal/reg"
	"verif/harness/internal/rep"
)

func TestC02_HugeBatch(t *testing.T) {
	forGroups(t, func(t *testing.T, w *wg) {
		g := w.g
		if w.batch == "" {
			return
		}
		// a pool of Jacobian representatives with known affine images (finite with Z != 1, finite with Z = 1, both
		// encodings of the identity)
		type item struct {
			jac  interface{}
			want interface{} // library affine point built from the reference value
		}
		var pool []item
		for k := 1; k <= 29; k++ {
			p := g.E.Mul(big.NewInt(int64(k*k+1)), g.Gen)
			z := ref.Scalar(g.E.F, big.NewInt(int64(3*k+2)))
			if k%7 == 0 {
				z = ref.Scalar(g.E.F, big.NewInt(1))
			}
			pool = append(pool, item{g.JacFromRef(p, z), g.FromRef(p)})
		}
		inf := ref.Pt{Inf: true}
		pool = append(pool, item{g.NewJac(), g.FromRef(inf)}) // (0,0,0)
		ij := g.NewJac()
		reg.M(ij, "Set", pool[0].jac)
		reg.M(ij, "SubAssign", pool[0].jac) // the library's own identity
		pool = append(pool, item{ij, g.FromRef(inf)})

		ncpu := runtime.NumCPU()
		sizes := []int{ncpu*4096 + 1, ncpu*4096 + 100, ncpu*4096 + 4095, 2*ncpu*4096 + 1000, 3*ncpu*1000 + 7}
		if !rep.Thorough() {
			sizes = []int{ncpu*4096 + 4095, ncpu*4096 + 1}
		}
		jt := g.JacType()
		for _, n := range sizes {
			in := reflect.MakeSlice(reflect.SliceOf(jt), n, n)
			idx := func(i int) int { return (i*7 + i/13 + i/4099) % len(pool) }
			for i := 0; i < n; i++ {
				in.Index(i).Set(reflect.ValueOf(pool[idx(i)].jac).Elem())
			}
			out := g.C.Pkg.F(w.batch, in.Interface())[0]
			if reg.Len(out) != n {
				t.Fatalf("%s: %s: %d results for %d inputs", g.ID(), w.batch, reg.Len(out), n)
			}
			for i := 0; i < n; i++ {
				if !reg.Bool(reg.Index(out, i), "Equal", pool[idx(i)].want) {
					t.Fatalf("%s: %s on %d points: slot %d is %s, the affine image of its input is %s", g.ID(), w.batch, n, i,
						g.E.Str(g.ToRef(reg.Index(out, i))), g.E.Str(g.ToRef(pool[idx(i)].want)))
				}
				if !flatEq(in.Index(i).Addr().Interface(), pool[idx(i)].jac) {
					t.Fatalf("%s: %s on %d points modified its input %d", g.ID(), w.batch, n, i)
				}
			}
			rep.Case("C02_HugeBatch/"+g.ID(), fmt.Sprintf("%s %s n=%d", g.ID(), w.batch, n), true, "hugebatch", fmt.Sprintf("hugebatch:n/NumCPU>4096=%v", n/ncpu > 4096))
		}
	})
}
