package c01

import (
	"fmt"
	"math/big"
	"testing"

	"pgregory.net/rapid"

	"verif/harness/internal/guard"
	"verif/harness/internal/inst"
	"verif/harness/internal/ref"
	"verif/harness/internal/rep"
)

// vecLen draws a vector length around every implementation switch.
func vecLen(t *rapid.T) int {
	switch rapid.IntRange(0, 5).Draw(t, "lenclass") {
	case 0:
		return rapid.IntRange(0, 3).Draw(t, "n")
	case 1:
		return rapid.IntRange(0, 4*16+15).Draw(t, "n")
	case 2:
		return 112 + rapid.IntRange(-17, 40).Draw(t, "n")
	case 3:
		return 16*rapid.IntRange(1, 20).Draw(t, "n") + rapid.SampledFrom([]int{0, 0, 1, 15}).Draw(t, "tail")
	case 4:
		return rapid.SampledFrom([]int{255, 256, 257, 511, 512, 513}).Draw(t, "n")
	default:
		return rapid.IntRange(0, 600).Draw(t, "n")
	}
}

var vecOps = []string{"Add", "Sub", "Mul", "ScalarMul", "Sum", "InnerProduct", "BatchInvert"}

// elemSize is the size in bytes of one stored element.
func elemSize(f inst.Field) int { return f.NLimbs() * f.LimbBits() / 8 }

// guardVec returns a vector of n elements placed flush against an inaccessible page (after its last element for
// guard.AtEnd, before its first for guard.AtStart): a kernel that touches one byte outside faults.
func guardVec(f inst.Field, n int, where guard.Placement, frees *[]func()) inst.Vec {
	mem, free := guard.Alloc(n*elemSize(f), where)
	*frees = append(*frees, free)
	return f.NewVecAt(mem, n)
}

// placements of an operand: inside a larger heap vector with poisoned neighbours, or fenced by guard pages
var placements = []string{"heap", "heap", "guard_end", "guard_end", "guard_start"}

func drawVec(t *rapid.T, f inst.Field, n int, label string, frees *[]func()) (inst.Vec, []*big.Int, string) {
	s := spec(f)
	place := rapid.SampledFrom(placements).Draw(t, label+"place")
	o := rapid.IntRange(0, 15).Draw(t, label+"off")
	var base inst.Vec
	switch place {
	case "guard_end":
		base = guardVec(f, n+o, guard.AtEnd, frees)
	case "guard_start":
		base = guardVec(f, n+1, guard.AtStart, frees)
		o = 0
	default:
		base = f.NewVec(n + o + 1)
	}
	vals := make([]*big.Int, n)
	// a few distinct lattice values repeated with a drawn pattern keeps the draw count small
	k := rapid.IntRange(1, 6).Draw(t, label+"pool")
	pool := make([]*big.Int, k)
	for i := range pool {
		pool[i], _ = s.Elem(t, label+"p")
	}
	idx := rapid.SliceOfN(rapid.IntRange(0, k-1), n, n).Draw(t, label+"idx")
	for i := 0; i < n; i++ {
		vals[i] = pool[idx[i]]
		base.At(o + i).SetBig(vals[i])
	}
	// poison around the slice
	for i := 0; i < o; i++ {
		base.At(i).SetBig(big.NewInt(0xbad))
	}
	if place != "guard_end" {
		base.At(n + o).SetBig(big.NewInt(0xbad))
	}
	return base.Slice(o, o+n), vals, place
}

func propVector(t *rapid.T, f inst.Field) {
	R := ref.NewFp(f.Q())
	op := rapid.SampledFrom(vecOps).Draw(t, "op")
	n := vecLen(t)
	var frees []func()
	defer func() {
		for _, fr := range frees {
			fr()
		}
	}()
	defer guard.PanicOnFault()() // a fault on a guard page is a panic rapid can report and shrink
	a, av, pa := drawVec(t, f, n, "a", &frees)
	b, bv, pb := drawVec(t, f, n, "b", &frees)
	test := "C01_Vector/" + f.Name()
	key := fmt.Sprintf("%s Vector.%s n=%d a0=%v b0=%v place=%s,%s", f.Name(), op, n, first(av), first(bv), pa, pb)
	cls := []string{op, lenClass(n), "place_a:" + pa, "place_b:" + pb}
	var res inst.Vec
	switch pr := rapid.SampledFrom(placements).Draw(t, "resplace"); pr {
	case "guard_end":
		res = guardVec(f, n, guard.AtEnd, &frees)
	case "guard_start":
		res = guardVec(f, n, guard.AtStart, &frees)
	default:
		res = f.NewVec(n+1).Slice(0, n)
	}
	check := func(want func(i int) *big.Int) {
		for i := 0; i < n; i++ {
			checkVal(t, f, fmt.Sprintf("Vector.%s[%d/%d]", op, i, n), res.At(i), want(i))
		}
		for i := 0; i < n; i++ {
			checkVal(t, f, "operand a unchanged", a.At(i), av[i])
			checkVal(t, f, "operand b unchanged", b.At(i), bv[i])
		}
	}
	switch op {
	case "Add":
		res.Add(a, b)
		check(func(i int) *big.Int { return R.Add(av[i], bv[i]) })
	case "Sub":
		res.Sub(a, b)
		check(func(i int) *big.Int { return R.Sub(av[i], bv[i]) })
	case "Mul":
		if n > 0 && rapid.IntRange(0, 2).Draw(t, "finalsub") == 0 {
			// a few positions get operand pairs whose unreduced product sits on a borrow boundary of the final
			// subtraction (every lane of the SIMD blocks must propagate that borrow)
			for k := rapid.IntRange(1, 4).Draw(t, "fs_n"); k > 0; k-- {
				i := rapid.IntRange(0, n-1).Draw(t, "fs_pos")
				xv, yv, mc := spec(f).MontFinalSubPair(t, "fs")
				av[i], bv[i] = xv, yv
				a.At(i).SetBig(xv)
				b.At(i).SetBig(yv)
				cls = append(cls, mc, fmt.Sprintf("finalsub_lane:%d", i%16))
			}
		}
		res.Mul(a, b)
		check(func(i int) *big.Int { return R.Mul(av[i], bv[i]) })
	case "ScalarMul":
		cv, _ := spec(f).Elem(t, "c")
		if n > 0 && rapid.IntRange(0, 2).Draw(t, "finalsub") == 0 {
			// the scalar and one vector entry form a final-subtraction boundary pair
			i := rapid.IntRange(0, n-1).Draw(t, "fs_pos")
			xv, yv, mc := spec(f).MontFinalSubPair(t, "fs")
			av[i], cv = xv, yv
			a.At(i).SetBig(xv)
			cls = append(cls, mc, fmt.Sprintf("finalsub_lane:%d", i%16))
		}
		c := f.FromBig(cv)
		res.ScalarMul(a, c)
		check(func(i int) *big.Int { return R.Mul(av[i], cv) })
	case "Sum":
		want := new(big.Int)
		for _, v := range av {
			want = R.Add(want, v)
		}
		checkVal(t, f, fmt.Sprintf("Vector.Sum n=%d", n), a.Sum(), want)
	case "InnerProduct":
		want := new(big.Int)
		for i := range av {
			want = R.Add(want, R.Mul(av[i], bv[i]))
		}
		checkVal(t, f, fmt.Sprintf("Vector.InnerProduct n=%d", n), a.InnerProduct(b), want)
	case "BatchInvert":
		r := a.BatchInvert()
		if r.Len() != n {
			t.Fatalf("BatchInvert length %d want %d", r.Len(), n)
		}
		for i := 0; i < n; i++ {
			checkVal(t, f, fmt.Sprintf("BatchInvert[%d/%d]", i, n), r.At(i), R.Inv(av[i]))
			checkVal(t, f, "BatchInvert input unchanged", a.At(i), av[i])
		}
	}
	rep.Case(test, key, n == 0 || n%16 != 0 || n >= 112, cls...)
}

func first(v []*big.Int) string {
	if len(v) == 0 {
		return "-"
	}
	return v[0].Text(16)
}

func lenClass(n int) string {
	switch {
	case n == 0:
		return "n=0"
	case n < 16:
		return "n<16"
	case n%16 == 0:
		return "n%16=0"
	case n >= 112:
		return "n>=112,tail"
	default:
		return "n>=16,tail"
	}
}

func TestC01_Vector(t *testing.T) {
	forFields(t, func(t *testing.T, f inst.Field) {
		rapid.Check(t, func(t *rapid.T) { propVector(t, f) })
	})
}

// TestC01_Regress re-executes, without rapid, the shrunk failures found so far (see
// /verif/known_findings.json, status "fixed").
func TestC01_Regress(t *testing.T) {
	forFields(t, func(t *testing.T, f inst.Field) {
		// F1: empty vectors must be accepted by every vector operation.
		for _, op := range vecOps {
			func() {
				defer func() {
					if r := recover(); r != nil {
						t.Errorf("%s: Vector.%s on empty vectors panicked: %v", f.Name(), op, r)
					}
				}()
				a, b, r := f.NewVec(0), f.NewVec(0), f.NewVec(0)
				switch op {
				case "Add":
					r.Add(a, b)
				case "Sub":
					r.Sub(a, b)
				case "Mul":
					r.Mul(a, b)
				case "ScalarMul":
					r.ScalarMul(a, f.One())
				case "Sum":
					if !a.Sum().IsZero() {
						t.Errorf("%s: empty Sum != 0", f.Name())
					}
				case "InnerProduct":
					if !a.InnerProduct(b).IsZero() {
						t.Errorf("%s: empty InnerProduct != 0", f.Name())
					}
				case "BatchInvert":
					a.BatchInvert()
				}
				rep.Case("C01_Regress/"+f.Name(), f.Name()+" empty Vector."+op, true, "regress:F1")
			}()
		}
	})
}

// TestC01_RegressF29_InnerProductOverread (rapid-free): the AVX-512 inner-product kernel of the 4-word fields
// read the words of its first operand through 8-byte broadcast loads placed 4 bytes apart, so the load of the
// last word of the last element extended 4 bytes past the end of the vector: a vector ending at the end of a
// mapped region made Vector.InnerProduct crash the process (SIGSEGV, "fatal error: fault"). The operands are
// placed flush against an inaccessible page; every vector operation must stay inside its operands.
func TestC01_RegressF29_InnerProductOverread(t *testing.T) {
	forFields(t, func(t *testing.T, f inst.Field) {
		R := ref.NewFp(f.Q())
		for _, n := range []int{1, 2, 15, 16, 17, 33, 255, 256} {
			for _, where := range []guard.Placement{guard.AtEnd, guard.AtStart} {
				func() {
					var frees []func()
					defer func() {
						for _, fr := range frees {
							fr()
						}
					}()
					defer guard.PanicOnFault()()
					defer func() {
						if r := recover(); r != nil {
							t.Fatalf("%s: a vector operation on %d elements placed against a guard page (placement %d) touched memory outside its operands: %v (F29)", f.Name(), n, where, r)
						}
					}()
					a, b, res := guardVec(f, n, where, &frees), guardVec(f, n, where, &frees), guardVec(f, n, where, &frees)
					want, sum := new(big.Int), new(big.Int)
					for i := 0; i < n; i++ {
						x, y := big.NewInt(int64(3*i+1)), new(big.Int).Sub(f.Q(), big.NewInt(int64(i+1)))
						a.At(i).SetBig(x)
						b.At(i).SetBig(y)
						want = R.Add(want, R.Mul(x, y))
						sum = R.Add(sum, x)
					}
					if got := a.InnerProduct(b).Big(); got.Cmp(want) != 0 {
						t.Fatalf("%s: InnerProduct n=%d = %s want %s", f.Name(), n, got, want)
					}
					if got := a.Sum().Big(); got.Cmp(sum) != 0 {
						t.Fatalf("%s: Sum n=%d = %s want %s", f.Name(), n, got, sum)
					}
					res.Add(a, b)
					res.Sub(a, b)
					res.Mul(a, b)
					res.ScalarMul(a, b.At(0))
				}()
			}
		}
		rep.Case("C01_RegressF29/"+f.Name(), f.Name()+" guard-page vectors", true, "regress:F29")
	})
}
