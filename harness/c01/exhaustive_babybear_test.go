package c01

import (
	"fmt"
	"os"
	"strconv"
	"strings"
	"testing"

	fr "github.com/consensys/gnark-crypto/field/babybear"

	"verif/harness/internal/ref"
	"verif/harness/internal/rep"
)

// TestC01_Exhaustive_babybear sweeps ALL q inputs of every unary entry point (and Mul/Add/Sub by a
// set of lattice constants) against a native uint64 reference. Thorough tier; sharded by VERIF_SHARD=k/n.
func TestC01_Exhaustive_babybear(t *testing.T) {
	if !rep.Thorough() && os.Getenv("VERIF_EXHAUSTIVE") == "" {
		t.Skip("thorough tier only")
	}
	q := fr.Modulus().Uint64()
	S := ref.Small{Q: q}
	k, n := 0, 1
	if sh := os.Getenv("VERIF_SHARD"); sh != "" {
		p := strings.Split(sh, "/")
		k, _ = strconv.Atoi(p[0])
		n, _ = strconv.Atoi(p[1])
	}
	lo, hi := q*uint64(k)/uint64(n), q*uint64(k+1)/uint64(n)
	// canonical value v <-> Montgomery limb: build elements through SetUint64 once per value
	R := (uint64(1) << 32) % q
	consts := []uint64{0, 1, 2, 3, q - 1, q - 2, (q - 1) / 2, (q + 1) / 2, 1 << 16, 1 << 30, (1<<31 - 1) % q, R, R * R % q, S.Inv(R), 0x12345678 % q, q / 3}
	ce := make([]fr.Element, len(consts))
	for i, c := range consts {
		ce[i].SetUint64(c)
	}
	rinv := S.Inv(R)
	val := func(e *fr.Element) uint64 { // canonical value from the Montgomery limb, independent of the library's FromMont
		return uint64(e[0]) % q * rinv % q
	}
	fail := func(op string, x, got, want uint64) {
		t.Fatalf("babybear: %s(%d) = %d, want %d", op, x, got, want)
	}
	chk := func(op string, x uint64, z *fr.Element, want uint64) {
		if uint64(z[0]) >= q {
			t.Fatalf("babybear: %s(%d): result limb %d not reduced", op, x, z[0])
		}
		if g := val(z); g != want {
			fail(op, x, g, want)
		}
	}
	var nsq uint64
	var inv2 [33]uint64
	for i := range inv2 {
		inv2[i] = S.Inv(S.Exp(2, uint64(i)))
	}
	for x := lo; x < hi; x++ {
		var e, z fr.Element
		e.SetUint64(x)
		if uint64(e[0]) != x*R%q {
			t.Fatalf("babybear: SetUint64(%d) limb %d want %d", x, e[0], x*R%q)
		}
		chk("Neg", x, z.Neg(&e), S.Neg(x))
		chk("Double", x, z.Double(&e), S.Add(x, x))
		chk("Square", x, z.Square(&e), S.Mul(x, x))
		z = e
		z.Halve()
		chk("Halve", x, &z, S.Halve(x))
		z = e
		fr.MulBy3(&z)
		chk("MulBy3", x, &z, 3*x%q)
		z = e
		fr.MulBy5(&z)
		chk("MulBy5", x, &z, 5*x%q)
		z = e
		fr.MulBy13(&z)
		chk("MulBy13", x, &z, 13*x%q)
		z.Inverse(&e)
		// inverse checked by multiplication (cheaper than a reference exponentiation per value)
		if x == 0 {
			chk("Inverse", x, &z, 0)
		} else if val(&z)*x%q != 1 || uint64(z[0]) >= q {
			fail("Inverse", x, val(&z), S.Inv(x))
		}
		leg := e.Legendre()
		var s fr.Element
		rs := s.Sqrt(&e)
		if (rs != nil) != (leg >= 0) {
			t.Fatalf("babybear: Sqrt(%d) root=%v but Legendre=%d", x, rs != nil, leg)
		}
		if rs != nil {
			if r := val(&s); r*r%q != x || uint64(s[0]) >= q {
				fail("Sqrt^2", x, r*r%q, x)
			}
			if leg == 0 != (x == 0) {
				t.Fatalf("babybear: Legendre(%d)=%d", x, leg)
			}
		} else {
			nsq++
		}
		for i := range ce {
			c := consts[i]
			chk("Mul", x, z.Mul(&e, &ce[i]), S.Mul(x, c))
			chk("Add", x, z.Add(&e, &ce[i]), S.Add(x, c))
			chk("Sub", x, z.Sub(&e, &ce[i]), S.Sub(x, c))
		}
		if x%64 == uint64(k)%64 { // Mul2ExpNegN for every n on a 1/64 stride (all residues covered across shards of other strides)
			for nn := uint32(0); nn <= 32; nn++ {
				z.Mul2ExpNegN(&e, nn)
				chk(fmt.Sprintf("Mul2ExpNegN[%d]", nn), x, &z, x*inv2[nn]%q)
			}
		}
	}
	// Euler: exactly (q-1)/2 non-squares overall; per shard we only record the count
	cnt := int64(hi - lo)
	rep.Count("C01_Exhaustive/babybear", "exhaustive_unary", cnt*(10+3*int64(len(consts))), cnt, fmt.Sprintf("babybear x in [%d,%d): Neg Double Square Halve MulBy3/5/13 Inverse Sqrt Legendre + Mul/Add/Sub by %d constants; %d non-squares", lo, hi, len(consts), nsq))
	rep.Exhaustive("C01_Exhaustive/babybear")
}
