// Package c01: prime-field arithmetic is exact arithmetic modulo q with canonical results.
package c01

import (
	"fmt"
	"math/big"
	"os"
	"regexp"
	"testing"

	"pgregory.net/rapid"

	"verif/harness/internal/gen"
	"verif/harness/internal/inst"
	"verif/harness/internal/ref"
	"verif/harness/internal/rep"
)

func TestMain(m *testing.M) { rep.Main(m) }

func selected(name string) bool {
	p := os.Getenv("VERIF_INST")
	if p == "" {
		return true
	}
	ok, _ := regexp.MatchString(p, name)
	return ok
}

func spec(f inst.Field) gen.FieldSpec {
	return gen.FieldSpec{Q: f.Q(), NLimbs: f.NLimbs(), LimbBits: f.LimbBits()}
}

// rawInt returns the raw limbs of e as an integer.
func rawInt(e inst.E) *big.Int {
	l := e.Raw()
	v := new(big.Int)
	w := uint(e.F().LimbBits())
	for i := len(l) - 1; i >= 0; i-- {
		v.Lsh(v, w)
		v.Or(v, new(big.Int).SetUint64(l[i]))
	}
	return v
}

// checkVal asserts that the library element holds exactly want, in canonical (fully reduced)
// representation: raw limbs < q and raw limbs == want*R mod q.
func checkVal(t *rapid.T, f inst.Field, what string, got inst.E, want *big.Int) {
	raw := rawInt(got)
	if raw.Cmp(f.Q()) >= 0 {
		t.Fatalf("%s: %s: result not reduced: raw limbs %s >= q", f.Name(), what, raw.Text(16))
	}
	exp := new(big.Int).Mul(want, f.R())
	exp.Mod(exp, f.Q())
	if raw.Cmp(exp) != 0 {
		t.Fatalf("%s: %s: got %s want %s", f.Name(), what, got.Big().String(), want.String())
	}
	if g := got.Big(); g.Cmp(want) != 0 {
		t.Fatalf("%s: %s: BigInt()=%s want %s", f.Name(), what, g, want)
	}
}

var unaryOps = []string{"Neg", "Double", "Square", "Inverse", "Halve", "MulBy3", "MulBy5", "MulBy13", "Sqrt", "Legendre", "LexLargest", "IsZeroOne", "Set", "Mul2ExpNegN", "SetUint64", "SetInt64"}
var binaryOps = []string{"Add", "Sub", "Mul", "Div", "Cmp", "Equal", "Butterfly", "Select", "Exp", "MulRound", "MulFinalSub"}

func propUnary(t *rapid.T, f inst.Field) {
	s := spec(f)
	R := ref.NewFp(f.Q())
	op := rapid.SampledFrom(unaryOps).Draw(t, "op")
	xv, xc := s.Elem(t, "x")
	x := f.FromBig(xv)
	checkVal(t, f, "SetBigInt", x, xv)
	z := f.New()
	// poison the receiver so that a routine that forgets to write is caught
	z.SetBig(big.NewInt(0xdead))
	var want *big.Int
	key := fmt.Sprintf("%s %s(%s)", f.Name(), op, xv.Text(16))
	nt := s.OnBoundary(xv)
	switch op {
	case "Neg":
		z.Neg(x)
		want = R.Neg(xv)
	case "Double":
		z.Double(x)
		want = R.Add(xv, xv)
		nt = nt || new(big.Int).Lsh(xv, 1).Cmp(f.Q()) >= 0
	case "Square":
		z.Square(x)
		want = R.Sqr(xv)
	case "Inverse":
		z.Inverse(x)
		want = R.Inv(xv)
	case "Halve":
		z.Set(x)
		z.Halve()
		want = R.Halve(xv)
	case "MulBy3":
		z.Set(x)
		z.MulBy3()
		want = R.MulI(xv, 3)
	case "MulBy5":
		z.Set(x)
		z.MulBy5()
		want = R.MulI(xv, 5)
	case "MulBy13":
		z.Set(x)
		z.MulBy13()
		want = R.MulI(xv, 13)
	case "Sqrt":
		leg := R.Legendre(xv)
		before := z.Clone()
		ok := z.Sqrt(x)
		if ok != (leg >= 0) {
			t.Fatalf("%s: Sqrt(%s) returned root=%v but Euler criterion says %d", f.Name(), xv, ok, leg)
		}
		if !ok {
			if !z.Equal(before) {
				t.Fatalf("%s: Sqrt(non-square %s) modified the receiver", f.Name(), xv)
			}
			rep.Case("C01_Unary/"+f.Name(), key, true, op, "x:"+xc, "nonsquare")
			return
		}
		zz := f.New().Square(z)
		checkVal(t, f, "Sqrt(x)^2", zz, xv)
		want = z.Big()
		nt = true
	case "Legendre":
		if g, w := x.Legendre(), R.Legendre(xv); g != w {
			t.Fatalf("%s: Legendre(%s)=%d want %d", f.Name(), xv, g, w)
		}
		rep.Case("C01_Unary/"+f.Name(), key, nt, op, "x:"+xc)
		return
	case "LexLargest":
		half := new(big.Int).Rsh(new(big.Int).Sub(f.Q(), big.NewInt(1)), 1)
		if g, w := x.LexicographicallyLargest(), xv.Cmp(half) > 0; g != w {
			t.Fatalf("%s: LexicographicallyLargest(%s)=%v want %v", f.Name(), xv, g, w)
		}
		rep.Case("C01_Unary/"+f.Name(), key, nt, op, "x:"+xc)
		return
	case "IsZeroOne":
		if x.IsZero() != (xv.Sign() == 0) || x.IsOne() != (xv.Cmp(big.NewInt(1)) == 0) {
			t.Fatalf("%s: IsZero/IsOne wrong on %s", f.Name(), xv)
		}
		rep.Case("C01_Unary/"+f.Name(), key, nt, op, "x:"+xc)
		return
	case "Set":
		z.Set(x)
		want = xv
	case "Mul2ExpNegN":
		if !f.HasMul2ExpNegN() {
			z.Set(x)
			want = xv
			break
		}
		n := uint32(rapid.IntRange(0, 32).Draw(t, "n"))
		key += fmt.Sprintf(" n=%d", n)
		z.Mul2ExpNegN(x, n)
		want = R.Mul(xv, R.Inv(new(big.Int).Lsh(big.NewInt(1), uint(n))))
	case "SetUint64":
		v := rapid.OneOf(rapid.Uint64(), rapid.SampledFrom([]uint64{0, 1, 1<<32 - 1, 1 << 32, 1<<63 - 1, 1 << 63, ^uint64(0), f.Q().Uint64(), f.Q().Uint64() - 1, f.Q().Uint64() + 1})).Draw(t, "v")
		key = fmt.Sprintf("%s SetUint64(%d)", f.Name(), v)
		z.SetUint64(v)
		want = R.Red(new(big.Int).SetUint64(v))
		checkVal(t, f, "NewElement", f.NewElement(v), want)
		nt = true
	case "SetInt64":
		v := rapid.OneOf(rapid.Int64(), rapid.SampledFrom([]int64{0, 1, -1, -2, 1<<31 - 1, -1 << 31, 1<<63 - 1, -1 << 63, int64(f.Q().Uint64() & (1<<63 - 1)), -int64(f.Q().Uint64() & (1<<63 - 1))})).Draw(t, "v")
		key = fmt.Sprintf("%s SetInt64(%d)", f.Name(), v)
		z.SetInt64(v)
		want = R.Red(big.NewInt(v))
		nt = true
	}
	checkVal(t, f, op+"("+xv.String()+")", z, want)
	// operand must be unchanged
	checkVal(t, f, op+": operand after call", x, xv)
	rep.Case("C01_Unary/"+f.Name(), key, nt || s.OnBoundary(want), op, "x:"+xc)
}

func propBinary(t *rapid.T, f inst.Field) {
	s := spec(f)
	R := ref.NewFp(f.Q())
	op := rapid.SampledFrom(binaryOps).Draw(t, "op")
	xv, xc := s.Elem(t, "x")
	yv, yc := s.Related(t, xv, "y")
	x, y := f.FromBig(xv), f.FromBig(yv)
	z := f.New().SetBig(big.NewInt(0xdead))
	key := fmt.Sprintf("%s %s(%s,%s)", f.Name(), op, xv.Text(16), yv.Text(16))
	nt := s.OnBoundary(xv) || s.OnBoundary(yv)
	test := "C01_Binary/" + f.Name()
	var want *big.Int
	switch op {
	case "Add":
		z.Add(x, y)
		want = R.Add(xv, yv)
		d := new(big.Int).Sub(new(big.Int).Add(xv, yv), f.Q())
		nt = nt || d.CmpAbs(big.NewInt(1)) <= 0
	case "Sub":
		z.Sub(x, y)
		want = R.Sub(xv, yv)
		nt = nt || new(big.Int).Sub(xv, yv).CmpAbs(big.NewInt(1)) <= 0
	case "Mul":
		z.Mul(x, y)
		want = R.Mul(xv, yv)
	case "Div":
		z.Div(x, y)
		want = R.Div(xv, yv)
	case "Cmp":
		if g, w := x.Cmp(y), xv.Cmp(yv); g != w {
			t.Fatalf("%s: Cmp(%s,%s)=%d want %d", f.Name(), xv, yv, g, w)
		}
		rep.Case(test, key, nt, op, "y:"+yc)
		return
	case "Equal":
		if g, w := x.Equal(y), xv.Cmp(yv) == 0; g != w {
			t.Fatalf("%s: Equal(%s,%s)=%v want %v", f.Name(), xv, yv, g, w)
		}
		rep.Case(test, key, nt, op, "y:"+yc)
		return
	case "Butterfly":
		a, b := x.Clone(), y.Clone()
		f.Butterfly(a, b)
		checkVal(t, f, "Butterfly.a", a, R.Add(xv, yv))
		checkVal(t, f, "Butterfly.b", b, R.Sub(xv, yv))
		rep.Case(test, key, nt, op, "y:"+yc)
		return
	case "Select":
		c := rapid.SampledFrom([]int{0, 1, -1, 2, 1 << 30, -1 << 31}).Draw(t, "c")
		key += fmt.Sprintf(" c=%d", c)
		z.Select(c, x, y)
		want = xv
		if c != 0 {
			want = yv
		}
	case "MulRound":
		// operands whose Montgomery limbs put the first reduction round on a carry boundary of m*q
		xv, yv, mc := s.MontRoundPair(t, "mr")
		x, y = f.FromBig(xv), f.FromBig(yv)
		key = fmt.Sprintf("%s MulRound(%s,%s)", f.Name(), xv.Text(16), yv.Text(16))
		z.Mul(x, y)
		checkVal(t, f, "Mul (round boundary) x*y", z, R.Mul(xv, yv))
		z.Mul(y, x)
		checkVal(t, f, "Mul (round boundary) y*x", z, R.Mul(xv, yv))
		z.Square(x)
		checkVal(t, f, "Square (round boundary)", z, R.Sqr(xv))
		z.Div(x, y)
		checkVal(t, f, "Div (round boundary)", z, R.Div(xv, yv))
		rep.Case(test, key, true, op, mc)
		return
	case "MulFinalSub":
		// operands whose unreduced Montgomery product sits on a borrow boundary of the final subtraction
		xv, yv, mc := s.MontFinalSubPair(t, "fs")
		x, y = f.FromBig(xv), f.FromBig(yv)
		key = fmt.Sprintf("%s MulFinalSub(%s,%s)", f.Name(), xv.Text(16), yv.Text(16))
		z.Mul(x, y)
		checkVal(t, f, "Mul (final-subtraction boundary) x*y", z, R.Mul(xv, yv))
		z.Mul(y, x)
		checkVal(t, f, "Mul (final-subtraction boundary) y*x", z, R.Mul(xv, yv))
		rep.Case(test, key, true, op, mc)
		return
	case "Exp":
		k, kc := gen.Int(t, f.Q(), rep.Scale(4*f.Q().BitLen(), 8*f.Q().BitLen()), "k")
		if rapid.IntRange(0, 3).Draw(t, "kord") == 0 {
			// exponents around multiples of the group order q-1 (the period of k -> x^k): m*(q-1)+d with m small,
			// a power of two, or wide — the inputs on which any "reduce the exponent first" shortcut is decided
			var m *big.Int
			switch rapid.IntRange(0, 2).Draw(t, "kordm") {
			case 0:
				m = big.NewInt(int64(rapid.IntRange(1, 5).Draw(t, "kordsmall")))
			case 1:
				m = new(big.Int).Lsh(big.NewInt(1), uint(rapid.IntRange(1, 3*f.Q().BitLen()).Draw(t, "kordpow")))
			default:
				m = new(big.Int).SetBytes(rapid.SliceOfN(rapid.Byte(), 1, 2*((f.Q().BitLen()+7)/8)).Draw(t, "kordwide"))
			}
			k = new(big.Int).Mul(m, new(big.Int).Sub(f.Q(), big.NewInt(1)))
			k.Add(k, big.NewInt(int64(rapid.IntRange(-1, 1).Draw(t, "kordd"))))
			kc = "near_m(q-1)"
			if rapid.Bool().Draw(t, "kordneg") {
				k.Neg(k)
				kc = "neg_" + kc
			}
		}
		key = fmt.Sprintf("%s Exp(%s,%s)", f.Name(), xv.Text(16), k.Text(16))
		z.Exp(x, k)
		want = R.Exp(xv, k)
		checkVal(t, f, "Exp", z, want)
		rep.Case(test, key, true, op, "k:"+kc)
		return
	}
	checkVal(t, f, fmt.Sprintf("%s(%s,%s)", op, xv, yv), z, want)
	checkVal(t, f, op+": x after call", x, xv)
	checkVal(t, f, op+": y after call", y, yv)
	rep.Case(test, key, nt || s.OnBoundary(want), op, "x:"+xc, "y:"+yc)
}

func forFields(t *testing.T, body func(t *testing.T, f inst.Field)) {
	for _, f := range inst.Fields() {
		if !selected(f.Name()) {
			continue
		}
		f := f
		t.Run(f.Name(), func(t *testing.T) { body(t, f) })
	}
}

func TestC01_Unary(t *testing.T) {
	forFields(t, func(t *testing.T, f inst.Field) {
		rapid.Check(t, func(t *rapid.T) { propUnary(t, f) })
	})
}

func TestC01_Binary(t *testing.T) {
	forFields(t, func(t *testing.T, f inst.Field) {
		rapid.Check(t, func(t *rapid.T) { propBinary(t, f) })
	})
}
