package c16

import (
	"testing"

	"github.com/consensys/gnark-crypto/field/koalabear/vortex"

	"verif/harness/internal/rep"
)

// TestC16_RegressF18: vortex.MerkleProof.Verify used only the low `depth` bits of the index, so a proof for
// position i also verified for i+2^depth, i+2·2^depth, … and for negative indices with the same low bits;
// MerkleTree.Open did not range-check negative indices (panic for depth >= 1, a proof without error for
// the one-leaf tree) although it documents an error for an out-of-range index.
func TestC16_RegressF18(t *testing.T) {
	leaves := make([]vortex.Hash, 8)
	for j := range leaves {
		leaves[j][0].SetUint64(uint64(j) + 1)
	}
	mt := vortex.BuildMerkleTree(append([]vortex.Hash{}, leaves...))
	root := mt.Root()
	proof, err := mt.Open(3)
	if err != nil {
		t.Fatal(err)
	}
	if err := proof.Verify(3, leaves[3], root); err != nil {
		t.Fatalf("honest proof rejected: %v", err)
	}
	for _, bad := range []int{3 + 8, 3 + 16, 3 - 8, 3 - 16, 3 | 1<<40} {
		if err := proof.Verify(bad, leaves[3], root); err == nil {
			t.Errorf("proof for position 3 of an 8-leaf tree verifies for position %d", bad)
		}
	}
	for _, bad := range []int{-1, -8} {
		func() {
			defer func() {
				if r := recover(); r != nil {
					t.Errorf("Open(%d) panicked instead of returning the documented out-of-range error: %v", bad, r)
				}
			}()
			if _, err := mt.Open(bad); err == nil {
				t.Errorf("Open(%d) returned no error", bad)
			}
		}()
	}
	one := vortex.BuildMerkleTree([]vortex.Hash{leaves[0]})
	if _, err := one.Open(-1); err == nil {
		t.Errorf("one-leaf tree: Open(-1) returned no error")
	}
	if p, err := one.Open(0); err != nil || p.Verify(1, leaves[0], one.Root()) == nil {
		t.Errorf("one-leaf tree: the (empty) proof for position 0 verifies for position 1 (err=%v)", err)
	}
	rep.Case("C16_Regress", "F18 vortex index range", true, "regress_F18")
}
