package c16

import (
	"bytes"
	"fmt"
	"io"
	"math/bits"
	"testing"
	"testing/iotest"

	"github.com/consensys/gnark-crypto/accumulator/merkletree"

	"verif/harness/internal/ref"
	"verif/harness/internal/rep"
)

// ---- construction paths ------------------------------------------------------------------------

// provePush builds the tree by plain pushes. With dirty, every leaf is handed to Push as a window of a
// larger caller buffer whose surroundings (incl. the window's spare capacity) hold non-zero bytes, and the
// buffers must be byte-identical after Prove().
func (a *acc) provePush(leaves [][]byte, n, i int, dirty bool) ([]byte, [][]byte, uint64, uint64) {
	tr := merkletree.New(a.h.lib())
	if err := tr.SetIndex(uint64(i)); err != nil {
		panic(err)
	}
	var checks []func() bool
	refuseAt := (n*7 + i*3) % n // after this many + 1 leaves, a SetIndex call that must be refused
	for p, l := range leaves[:n] {
		if dirty {
			w, ok := window(l)
			checks = append(checks, ok)
			l = w
		}
		tr.Push(l)
		if p == refuseAt {
			j := uint64((i + 1 + p) % (n + 2)) // any index: other, same, not yet reached, already passed, out of range
			if err := refusedSetIndex(tr, j); err != nil {
				a.t.Fatalf("%s/%s n=%d i=%d after %d pushes: %v", a.h.name, a.flav, n, i, p+1, err)
			}
			a.count("refused_call_then_continue:SetIndex", fmt.Sprintf("n=%d i=%d after %d pushes SetIndex(%d)", n, i, p+1, j))
		}
	}
	root, ps, idx, nl := tr.Prove()
	for j, ok := range checks {
		if !ok() {
			a.t.Fatalf("%s/%s n=%d i=%d: Push/Prove modified the caller's buffer around leaf %d (data or spare capacity)", a.h.name, a.flav, n, i, j)
		}
	}
	if dirty {
		a.count("input:slice_with_dirty_spare_capacity", fmt.Sprintf("Push n=%d i=%d", n, i))
	}
	return root, ps, idx, nl
}

// observe reads Root() and Prove() of a partially built tree (m leaves so far, proof index i) and compares
// them with the reference for those m leaves. Both calls are documented as pure observations.
func (a *acc) observe(tr *merkletree.Tree, R *ref.MerkleRef, m, i int, after, what string) {
	what = fmt.Sprintf("%s: after %s, %d leaves so far", what, after, m)
	var wantRoot []byte
	if m > 0 {
		wantRoot = R.Root(m)
	}
	if got := tr.Root(); !bytes.Equal(got, wantRoot) || (got == nil) != (m == 0) {
		a.t.Fatalf("%s/%s %s: Root() = %x, MTH of the leaves so far = %x", a.h.name, a.flav, what, got, wantRoot)
	}
	root, ps, idx, nl := tr.Prove()
	if !bytes.Equal(root, wantRoot) || idx != uint64(i) || nl != uint64(m) {
		a.t.Fatalf("%s/%s %s: Prove() root = %x (MTH %x) index=%d numLeaves=%d", a.h.name, a.flav, what, root, wantRoot, idx, nl)
	}
	if m <= i {
		if ps != nil {
			a.t.Fatalf("%s/%s %s: proof set %s although the proof index has not been reached", a.h.name, a.flav, what, hexs(ps))
		}
	} else {
		want := R.ProofSet(i, m)
		if len(ps) != len(want) {
			a.t.Fatalf("%s/%s %s: proof set %s, want %s", a.h.name, a.flav, what, hexs(ps), hexs(want))
		}
		for j := range ps {
			if !bytes.Equal(ps[j], want[j]) {
				a.t.Fatalf("%s/%s %s: proof set %s, want %s", a.h.name, a.flav, what, hexs(ps), hexs(want))
			}
		}
		if !a.verify(root, ps, idx, nl) {
			a.t.Fatalf("%s/%s %s: the proof handed out does not verify against the root handed out with it\nroot=%x proofSet=%s", a.h.name, a.flav, what, root, hexs(ps))
		}
	}
	a.count("observe_mid:after_"+after, what)
}

// proveSubTrees builds the tree for (n, i) out of cached complete sub-trees whose sums come from the
// reference, never containing i. strategy 0: the largest aligned sub-tree at every position; 1: one
// height less (so equal-height cached trees get joined by the library); 2: height 0 only (every leaf but
// i enters as a cached sum). With probes, the two documented refusals are attempted at every position
// and must return an error without changing the tree. With observeMid, Root() and Prove() are read and
// compared with the reference after every single operation (refused ones included); cached sums are handed
// over as windows of dirty buffers.
func (a *acc) proveSubTrees(R *ref.MerkleRef, leaves [][]byte, n, i, strategy int, probes, observeMid bool) ([]byte, [][]byte, uint64, uint64) {
	tr := merkletree.New(a.h.lib())
	if err := tr.SetIndex(uint64(i)); err != nil {
		panic(err)
	}
	junk := R.MTH(0, 1)
	what := fmt.Sprintf("n=%d i=%d strategy=%d", n, i, strategy)
	var checks []func() bool
	obs := func(after string, m int) {
		if observeMid {
			a.observe(tr, R, m, i, after, what)
		}
	}
	obs("nothing", 0)
	for p := 0; p < n; {
		if probes {
			if p > 0 {
				// larger than the smallest sub-tree currently on the stack (height = trailing zeros of p)
				hb := bits.TrailingZeros(uint(p)) + 1
				if err := tr.PushSubTree(hb, junk); err == nil {
					a.t.Fatalf("%s/%s %s: PushSubTree(height %d) at position %d accepted although the smallest sub-tree has height %d", a.h.name, a.flav, what, hb, p, hb-1)
				}
				a.count("refusal:larger_than_smallest_subtree", fmt.Sprintf("%s p=%d height=%d", what, p, hb))
				a.count("refused_call_then_continue:PushSubTree", fmt.Sprintf("%s p=%d height=%d (too large)", what, p, hb))
				obs("refused_pushsubtree", p)
				if err := refusedSetIndex(tr, uint64(p)); err != nil {
					a.t.Fatalf("%s/%s %s at position %d: %v", a.h.name, a.flav, what, p, err)
				}
				a.count("refused_call_then_continue:SetIndex", fmt.Sprintf("%s p=%d SetIndex(%d)", what, p, p))
				obs("refused_setindex", p)
			}
			if p <= i {
				// smallest height whose range [p, p+2^h) contains i
				hc := 0
				for p+1<<hc <= i {
					hc++
				}
				if err := tr.PushSubTree(hc, junk); err == nil {
					a.t.Fatalf("%s/%s %s: PushSubTree(height %d) at position %d accepted although it contains the proof index", a.h.name, a.flav, what, hc, p)
				}
				a.count("refusal:contains_proof_index", fmt.Sprintf("%s p=%d height=%d", what, p, hc))
				a.count("refused_call_then_continue:PushSubTree", fmt.Sprintf("%s p=%d height=%d (contains the proof index)", what, p, hc))
				obs("refused_pushsubtree", p)
			}
		}
		if p == i {
			tr.Push(leaves[p])
			p++
			obs("push", p)
			continue
		}
		hmax := 0
		for hh := 1; p%(1<<hh) == 0 && p+1<<hh <= n && !(p <= i && i < p+1<<hh); hh++ {
			hmax = hh
		}
		hh := hmax
		switch strategy {
		case 1:
			if hh > 0 {
				hh--
			}
		case 2:
			hh = 0
		}
		if hh == 0 && strategy != 2 && p%2 == 1 {
			tr.Push(leaves[p])
			p++
			obs("push", p)
			continue
		}
		sum, ok := window(R.MTH(p, p+1<<hh))
		checks = append(checks, ok)
		if err := tr.PushSubTree(hh, sum); err != nil {
			a.t.Fatalf("%s/%s %s: PushSubTree(height %d) of the aligned complete sub-tree [%d,%d) refused: %v", a.h.name, a.flav, what, hh, p, p+1<<hh, err)
		}
		p += 1 << hh
		obs("pushsubtree", p)
	}
	root, ps, idx, nl := tr.Prove()
	for _, ok := range checks {
		if !ok() {
			a.t.Fatalf("%s/%s %s: PushSubTree/Prove modified the caller's buffer around a cached sum (data or spare capacity)", a.h.name, a.flav, what)
		}
	}
	if len(checks) > 0 {
		a.count("input:slice_with_dirty_spare_capacity", "PushSubTree "+what)
	}
	return root, ps, idx, nl
}

// ---- the (n, i) sweep --------------------------------------------------------------------------

type sweepCfg struct {
	flavour  string
	maxN     int // all n in 1..maxN
	allIdxN  int // every i' < n is tried as a tampered index for n <= allIdxN, a structured subset above
	subTrees bool
}

func sweep(t *testing.T, h hashKind, c sweepCfg) {
	k, nsh := shard()
	a := newAcc(t, h, c.flavour)
	leaves := leafSet(h, c.flavour, c.maxN)
	R := ref.NewMerkleRef(h.model, leaves)
	for n := 1; n <= c.maxN; n++ {
		if n%nsh != k {
			continue
		}
		// root of a tree that builds no proof. Half-way, the two calls such a tree refuses: Prove() (documented
		// usage panic: SetIndex was never called) and SetIndex (documented error: the tree is not empty); the
		// tree is used further afterwards.
		tr := merkletree.New(h.lib())
		for p, l := range leaves[:n] {
			tr.Push(l)
			if p == n/2 {
				if o := tryProve(tr); !o.panicked {
					t.Fatalf("%s/%s n=%d: Prove() on a tree without SetIndex did not panic as documented: %v", h.name, c.flavour, n, o)
				}
				a.count("refused_call_then_continue:Prove", fmt.Sprintf("n=%d after %d pushes", n, p+1))
				if err := refusedSetIndex(tr, uint64(p)); err != nil {
					t.Fatalf("%s/%s n=%d plain tree after %d pushes: %v", h.name, c.flavour, n, p+1, err)
				}
				a.count("refused_call_then_continue:SetIndex", fmt.Sprintf("n=%d plain tree after %d pushes", n, p+1))
				if got := tr.Root(); !bytes.Equal(got, R.Root(p+1)) {
					t.Fatalf("%s/%s n=%d: Root() after the refused calls = %x, MTH of %d leaves = %x", h.name, c.flavour, n, got, p+1, R.Root(p+1))
				}
			}
		}
		if got := tr.Root(); !bytes.Equal(got, R.Root(n)) {
			t.Fatalf("%s/%s n=%d: Root() = %x, MTH = %x", h.name, c.flavour, n, got, R.Root(n))
		}
		if o := tryProve(tr); !o.panicked {
			t.Fatalf("%s/%s n=%d: Prove() on a tree without (successful) SetIndex did not panic as documented: %v", h.name, c.flavour, n, o)
		}
		for i := 0; i < n; i++ {
			// dirty caller buffers for every (n,i) up to 130 leaves, one (n,i) in eight above
			root, ps, idx, nl := a.provePush(leaves, n, i, n <= 130 || (n+i)%8 == 0)
			a.honest("push", R, n, i, root, ps, idx, nl)
			a.tamper(root, ps, i, n, n <= c.allIdxN)
			if c.subTrees {
				for s, name := range []string{"subtree_max", "subtree_half", "subtree_height0"} {
					// Root()/Prove() after every operation: always for the two strategies with O(log n) operations,
					// for the height-0 strategy (n operations) always with SHA-256 and for one (n,i) in eight with MiMC
					mid := s < 2 || !h.field || (n+i)%8 == 0
					root, ps, idx, nl = a.proveSubTrees(R, leaves, n, i, s, s == 0, mid)
					a.honest(name, R, n, i, root, ps, idx, nl)
				}
			}
		}
	}
	a.flush("C16_Accumulator/" + h.name)
}

func forHashes(t *testing.T, body func(t *testing.T, h hashKind)) {
	for _, h := range hashes {
		if !selected(h.name) {
			continue
		}
		h := h
		t.Run(h.name, func(t *testing.T) { body(t, h) })
	}
}

// TestC16_Accumulator: all n in 1..N, all i < n, plain pushes and cached sub-trees, full tamper suite.
func TestC16_Accumulator(t *testing.T) {
	forHashes(t, func(t *testing.T, h hashKind) {
		N := rep.EnvInt("VERIF_C16_N", rep.Scale(130, 520))
		allIdx := N
		if h.field {
			// MiMC costs ~8 µs per block: every-i' index tampering up to 64 (thorough 130) leaves, a structured
			// subset of i' above (SHA-256 runs every i' for every n; the index logic does not depend on the hash)
			allIdx = rep.Scale(64, 130)
		}
		sweep(t, h, sweepCfg{flavour: "distinct", maxN: N, allIdxN: allIdx, subTrees: true})
		D := rep.Scale(48, 130)
		for _, f := range []string{"period2", "allequal", "oneodd"} {
			sweep(t, h, sweepCfg{flavour: f, maxN: D, allIdxN: D, subTrees: f == "period2"})
		}
		test := "C16_Accumulator/" + h.name
		rep.Exhaustive(test)
		rep.Note(test, fmt.Sprintf("%s: every (n,i), n<=%d, pairwise distinct leaves: Push, 3 PushSubTree decompositions (+ both documented refusals at every position), tamper suite with every i'<n for n<=%d; duplicate-leaf flavours period2/allequal/oneodd to n<=%d", h.name, N, allIdx, D))
		if h.field {
			rep.Note(test, "MiMC: leaves and tampered proof elements are restricted to chunks MiMC.Write documents (shorter than a block, or whole canonical blocks): merkletree.sum panics when the hash returns an error, by its own comment a precondition on the hash")
		}
	})
}

// TestC16_Incremental: one proof tree per index i, Prove()/Root() after every Push ("Prove does not modify
// the Tree"): the proof for (n, i) must be the audit path for every n > i, and nil before i is reached.
func TestC16_Incremental(t *testing.T) {
	forHashes(t, func(t *testing.T, h hashKind) {
		k, nsh := shard()
		N := rep.EnvInt("VERIF_C16_N", rep.Scale(130, 520))
		a := newAcc(t, h, "distinct")
		leaves := leafSet(h, "distinct", N)
		R := ref.NewMerkleRef(h.model, leaves)
		for i := 0; i < N; i++ {
			if i%nsh != k {
				continue
			}
			tr := merkletree.New(h.lib())
			if err := tr.SetIndex(uint64(i)); err != nil {
				t.Fatal(err)
			}
			if root, ps, _, nl := tr.Prove(); root != nil || ps != nil || nl != 0 {
				t.Fatalf("%s: Prove on an empty tree: root=%x proofSet=%v numLeaves=%d", h.name, root, ps, nl)
			}
			for n := 1; n <= N; n++ {
				tr.Push(leaves[n-1])
				root, ps, idx, nl := tr.Prove()
				if n <= i {
					// documented: nil proof set while the index has not been reached
					if ps != nil || !bytes.Equal(root, R.Root(n)) || nl != uint64(n) {
						t.Fatalf("%s n=%d i=%d: index not reached yet: proofSet=%s root=%x (MTH %x) numLeaves=%d", h.name, n, i, hexs(ps), root, R.Root(n), nl)
					}
					a.count("build:index_not_reached_nil_proof", fmt.Sprintf("n=%d i=%d", n, i))
					continue
				}
				a.honest("incremental", R, n, i, root, ps, idx, nl)
			}
		}
		test := "C16_Incremental/" + h.name
		a.flush(test)
		rep.Exhaustive(test)
	})
}

// ---- segmented readers -------------------------------------------------------------------------

// readerLeaves returns n leaves of seg bytes each, the last one cut to 1..seg bytes.
func readerLeaves(h hashKind, n int) (leaves [][]byte, seg int) {
	seg = 5
	if h.field {
		seg = 32
	}
	for j := 0; j < n; j++ {
		if h.field {
			leaves = append(leaves, frBlock("seg", j))
		} else {
			b := prf("seg", j, seg)
			b[0], b[1] = byte(j>>8), byte(j)
			leaves = append(leaves, b)
		}
	}
	r := 1 + (n*3)%seg // 1..seg: exact multiple of the segment size when r == seg
	leaves[n-1] = leaves[n-1][:r]
	return
}

func mkReader(kind int, data []byte) io.Reader {
	switch kind % 3 {
	case 0:
		return bytes.NewReader(data)
	case 1:
		return iotest.OneByteReader(bytes.NewReader(data))
	default:
		return iotest.DataErrReader(iotest.HalfReader(bytes.NewReader(data)))
	}
}

// TestC16_Readers: ReadAll on a proof tree, BuildReaderProof and ReaderRoot over a byte stream whose last
// segment is short (or exactly full), through whole-buffer, one-byte and short-read readers.
func TestC16_Readers(t *testing.T) {
	forHashes(t, func(t *testing.T, h hashKind) {
		k, nsh := shard()
		N := rep.EnvInt("VERIF_C16_N", rep.Scale(130, 520))
		if h.field && rep.Thorough() && N > 260 {
			N = 260 // two builds per (n,i) at ~25 µs per MiMC push: 260 keeps the thorough tier within its budget
		}
		a := newAcc(t, h, "segments")
		for n := 1; n <= N; n++ {
			if n%nsh != k {
				continue
			}
			leaves, seg := readerLeaves(h, n)
			stream := bytes.Join(leaves, nil)
			R := ref.NewMerkleRef(h.model, leaves)
			short := ""
			if len(leaves[n-1]) < seg {
				short = "_short_last"
			}
			root, err := merkletree.ReaderRoot(mkReader(n, stream), h.lib(), seg)
			if err != nil || !bytes.Equal(root, R.Root(n)) {
				t.Fatalf("%s n=%d seg=%d: ReaderRoot = %x, %v; MTH = %x", h.name, n, seg, root, err, R.Root(n))
			}
			a.count("build:reader_root"+short, fmt.Sprintf("n=%d", n))
			// documented: an index that is never reached is an error
			for _, bad := range []uint64{uint64(n), uint64(n) + 1, ^uint64(0)} {
				if _, ps, _, err := merkletree.BuildReaderProof(mkReader(n+1, stream), h.lib(), seg, bad); err == nil {
					t.Fatalf("%s n=%d: BuildReaderProof(index %d) returned no error, proofSet=%s", h.name, n, bad, hexs(ps))
				}
				a.count("refusal:reader_index_not_reached", fmt.Sprintf("n=%d index=%d", n, bad))
			}
			for i := 0; i < n; i++ {
				// ReadAll on a tree with SetIndex
				tr := merkletree.New(h.lib())
				if err := tr.SetIndex(uint64(i)); err != nil {
					t.Fatal(err)
				}
				if err := tr.ReadAll(mkReader(n+i, stream), seg); err != nil {
					t.Fatalf("%s n=%d i=%d: ReadAll: %v", h.name, n, i, err)
				}
				root, ps, idx, nl := tr.Prove()
				a.honest("readall"+short, R, n, i, root, ps, idx, nl)
				// BuildReaderProof
				root, ps, nl, err = merkletree.BuildReaderProof(mkReader(n+i+1, stream), h.lib(), seg, uint64(i))
				if err != nil {
					t.Fatalf("%s n=%d i=%d: BuildReaderProof: %v", h.name, n, i, err)
				}
				a.honest("reader_proof"+short, R, n, i, root, ps, uint64(i), nl)
				// the proof equals the reference proof (just asserted); the tamper suite is repeated on these
				// fixed-size-segment leaves for every (n,i) with SHA-256 and for a quarter of them with MiMC
				if !h.field || (n+i)%4 == 0 {
					a.tamper(root, ps, i, n, false)
				}
			}
		}
		// the empty stream: no leaf, nil root, no error (Root documents nil for the empty tree)
		if root, err := merkletree.ReaderRoot(bytes.NewReader(nil), h.lib(), 4); root != nil || err != nil {
			t.Fatalf("%s: ReaderRoot of the empty stream = %x, %v", h.name, root, err)
		}
		test := "C16_Readers/" + h.name
		a.flush(test)
		rep.Exhaustive(test)
		rep.Note(test, fmt.Sprintf("%s: ReadAll+Prove, BuildReaderProof, ReaderRoot for every (n,i), n<=%d, segment size %d, last segment 1..%d bytes; readers: whole buffer, one byte at a time, half reads with data+EOF", h.name, N, map[bool]int{false: 5, true: 32}[h.field], map[bool]int{false: 5, true: 32}[h.field]))
	})
}
