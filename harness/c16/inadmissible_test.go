package c16

import (
	"bytes"
	"fmt"
	"hash"
	"math/big"
	"testing"

	"github.com/consensys/gnark-crypto/accumulator/merkletree"
	"github.com/consensys/gnark-crypto/ecc/bn254/fr/mimc"
	"github.com/consensys/gnark-crypto/ecc/bn254/fr/poseidon2"

	"verif/harness/internal/rep"
)

// Leaves that the configured hash REFUSES (its Write returns an error): with the algebraic hashes a block
// that is not a canonical field element, or (MiMC) a length that is neither shorter than a block nor a
// multiple of it. merkletree documents nothing for them, and on the unchanged tree every call panics
// (tree.go sum: "the Hash interface specifies that Write never returns an error" → panic(err)). Panicking or
// returning an error is fine: it fails closed. What must NEVER happen is a normal return that treats the
// refused data as if it were something else:
//
//	(R) two different leaf sequences of which at least one contains a refused leaf must not be given the same root
//	    (Push+Root, Push+Prove, ReaderRoot, BuildReaderProof);
//	(V) VerifyProof must not return true for a refused leaf (or sibling) that differs from the committed one —
//	    neither against a tree that was (somehow) built with another refused leaf in that place, nor against an
//	    honest tree whose leaf there is an admissible value (the empty string, the reduced value, a zero block, …).
//
// Every call is classified as panic / error / returned, and only the "returned" branch is asserted.

type refusingHash struct {
	name  string
	new   func() hash.Hash
	block int
	lens  bool // Write also refuses lengths > block that are not a multiple of the block size
}

var refusingHashes = []refusingHash{
	{"mimc", func() hash.Hash { return mimc.NewMiMC() }, mimc.BlockSize, true},
	{"poseidon2", func() hash.Hash { return poseidon2.NewMerkleDamgardHasher() }, 32, false},
}

func (rh refusingHash) accepts(b []byte) bool {
	h := rh.new()
	_, err := h.Write(b)
	return err == nil
}

func blockOfInt(v *big.Int) []byte {
	out := make([]byte, 32)
	v.FillBytes(out)
	return out
}

// refusedLeaves: byte strings the hash must refuse; each comes with admissible strings a sloppy
// implementation could confuse it with.
func (rh refusingHash) refusedLeaves() (bad [][]byte) {
	ok := frBlock("adm", 7)
	q := blockOfInt(frQ)
	q1 := blockOfInt(new(big.Int).Add(frQ, big.NewInt(1)))
	qs := blockOfInt(new(big.Int).Add(frQ, new(big.Int).SetBytes(prf("bad", 1, 8))))
	ff := bytes.Repeat([]byte{0xff}, 32)
	bad = [][]byte{q, q1, qs, ff,
		append(append([]byte{}, ok...), q...),  // good block, then a refused one
		append(append([]byte{}, q1...), ok...), // refused block first
		append(append([]byte{}, ff...), ff...),
	}
	if rh.lens {
		bad = append(bad,
			append(append([]byte{}, ok...), 0x01),             // block + 1 byte
			append(append([]byte{}, ok...), ok[:8]...),        // 40 bytes
			append(append([]byte{}, ok...), ok[:31]...),       // 63 bytes
			append(append(append([]byte{}, ok...), ok...), 0), // 65 bytes
			append(append([]byte{}, ok...), prf("bad", 2, 5)...),
		)
	}
	return
}

// lookalikes: admissible strings that refused data could be silently turned into.
func (rh refusingHash) lookalikes(b []byte) [][]byte {
	out := [][]byte{{}, make([]byte, 32), {0x00}}
	// every block reduced modulo q (a trailing partial block kept as the short value it is)
	var red []byte
	for o := 0; o < len(b); o += 32 {
		e := o + 32
		if e > len(b) {
			red = append(red, blockOfInt(new(big.Int).SetBytes(b[o:]))...)
			break
		}
		red = append(red, blockOfInt(new(big.Int).Mod(new(big.Int).SetBytes(b[o:e]), frQ))...)
	}
	out = append(out, red)
	// whole leading blocks only / first block / last (partial) block, when admissible
	for _, c := range [][]byte{b[:len(b)/32*32], b[:32], b[len(b)/32*32:], b[len(b)-min(len(b), 32):]} {
		out = append(out, append([]byte{}, c...))
	}
	var adm [][]byte
	for _, c := range out {
		if rh.accepts(c) {
			adm = append(adm, c)
		}
	}
	return adm
}

type outcome struct {
	kind string // "panic" | "error" | "returned"
	root []byte
	ps   [][]byte
	ok   bool
}

func guard(f func() outcome) (o outcome) {
	defer func() {
		if r := recover(); r != nil {
			o = outcome{kind: "panic"}
		}
	}()
	return f()
}

func TestC16_InadmissibleLeaves(t *testing.T) {
	for _, rh := range refusingHashes {
		rh := rh
		t.Run(rh.name, func(t *testing.T) {
			test := "C16_Inadmissible/" + rh.name
			cnt := counter{}
			sample := map[string]string{}
			count := func(c, s string) {
				cnt[c]++
				if _, ok := sample[c]; !ok {
					sample[c] = s
				}
			}
			bad := rh.refusedLeaves()
			for k, b := range bad {
				if rh.accepts(b) {
					t.Fatalf("harness: %s accepts the supposedly refused leaf #%d %x", rh.name, k, b)
				}
			}
			pushRoot := func(leaves [][]byte) outcome {
				return guard(func() outcome {
					tr := merkletree.New(rh.new())
					for _, l := range leaves {
						tr.Push(l)
					}
					return outcome{kind: "returned", root: tr.Root()}
				})
			}
			pushProve := func(leaves [][]byte, i int) outcome {
				return guard(func() outcome {
					tr := merkletree.New(rh.new())
					if err := tr.SetIndex(uint64(i)); err != nil {
						return outcome{kind: "error"}
					}
					for _, l := range leaves {
						tr.Push(l)
					}
					root, ps, _, _ := tr.Prove()
					return outcome{kind: "returned", root: root, ps: ps}
				})
			}
			readerRoot := func(stream []byte, seg int) outcome {
				return guard(func() outcome {
					root, err := merkletree.ReaderRoot(bytes.NewReader(stream), rh.new(), seg)
					if err != nil {
						return outcome{kind: "error"}
					}
					return outcome{kind: "returned", root: root}
				})
			}
			readerProof := func(stream []byte, seg, i int) outcome {
				return guard(func() outcome {
					root, ps, _, err := merkletree.BuildReaderProof(bytes.NewReader(stream), rh.new(), seg, uint64(i))
					if err != nil {
						return outcome{kind: "error"}
					}
					return outcome{kind: "returned", root: root, ps: ps}
				})
			}
			verify := func(root []byte, ps [][]byte, i, n int) outcome {
				return guard(func() outcome {
					return outcome{kind: "returned", ok: merkletree.VerifyProof(rh.new(), root, ps, uint64(i), uint64(n))}
				})
			}
			// (R): all returned roots of one family of sequences (same length, same other leaves, different leaf i)
			type member struct {
				leaf    []byte
				refused bool
				o       outcome
			}
			distinctRoots := func(api, what string, fam []member) {
				for x := range fam {
					count("outcome:"+api+":"+fam[x].o.kind, what)
					for y := 0; y < x; y++ {
						if fam[x].o.kind != "returned" || fam[y].o.kind != "returned" || !(fam[x].refused || fam[y].refused) || bytes.Equal(fam[x].leaf, fam[y].leaf) {
							continue
						}
						if bytes.Equal(fam[x].o.root, fam[y].o.root) {
							t.Fatalf("%s %s (%s): returned the SAME root %x for two different leaves at the varied position, one of which the hash refuses:\n  %x (refused: %v)\n  %x (refused: %v)",
								rh.name, api, what, fam[x].o.root, fam[x].leaf, fam[x].refused, fam[y].leaf, fam[y].refused)
						}
					}
				}
			}
			for _, n := range []int{1, 2, 3, 5, 8} {
				others := make([][]byte, n)
				for j := range others {
					others[j] = frBlock("inadm", j)
				}
				for i := 0; i < n; i++ {
					with := func(x []byte) [][]byte {
						l := append([][]byte{}, others...)
						l[i] = x
						return l
					}
					what := fmt.Sprintf("n=%d i=%d", n, i)
					// the family: every refused leaf, and every admissible look-alike of each
					var leaves []member
					seen := map[string]bool{}
					add := func(x []byte, refused bool) {
						if !seen[string(x)] {
							seen[string(x)] = true
							leaves = append(leaves, member{leaf: x, refused: refused})
						}
					}
					for _, b := range bad {
						add(b, true)
					}
					for _, b := range bad {
						for _, s := range rh.lookalikes(b) {
							add(s, false)
						}
					}
					// (R) Push + Root, Push + Prove
					famRoot := append([]member{}, leaves...)
					famProve := append([]member{}, leaves...)
					for x := range leaves {
						famRoot[x].o = pushRoot(with(leaves[x].leaf))
						famProve[x].o = pushProve(with(leaves[x].leaf), i)
					}
					distinctRoots("Push+Root", what, famRoot)
					distinctRoots("Push+Prove", what, famProve)
					// (V) VerifyProof against every tree that came back, presenting every OTHER member as the leaf
					for x := range famProve {
						if famProve[x].o.kind != "returned" || len(famProve[x].o.ps) == 0 {
							continue
						}
						for y := range leaves {
							if x == y || !(leaves[x].refused || leaves[y].refused) {
								continue // both admissible: the main sweep's business (and MiMC's padding equivalences)
							}
							ps := append([][]byte{leaves[y].leaf}, famProve[x].o.ps[1:]...)
							v := verify(famProve[x].o.root, ps, i, n)
							count("outcome:VerifyProof(other leaf):"+v.kind, what)
							if v.kind == "returned" && v.ok {
								t.Fatalf("%s %s: VerifyProof accepts leaf %x (refused: %v) against the tree whose leaf there is %x (refused: %v)\nroot=%x proofSet=%s",
									rh.name, what, leaves[y].leaf, leaves[y].refused, leaves[x].leaf, leaves[x].refused, famProve[x].o.root, hexs(ps))
							}
						}
						// a refused sibling in place of an honest one
						for j := 1; j < len(famProve[x].o.ps); j++ {
							for _, b := range bad[:4] {
								ps := append([][]byte{}, famProve[x].o.ps...)
								ps[j] = b
								v := verify(famProve[x].o.root, ps, i, n)
								count("outcome:VerifyProof(refused sibling):"+v.kind, what)
								if v.kind == "returned" && v.ok {
									t.Fatalf("%s %s: VerifyProof accepts the refused sibling %x at proof position %d\nroot=%x proofSet=%s", rh.name, what, b, j, famProve[x].o.root, hexs(ps))
								}
							}
						}
					}
					count("inadmissible_leaf:"+rh.name, what)
				}
				// (R) readers: n segments of one refused length, sequences differing in one segment
				for _, b := range bad {
					seg := len(b)
					var fam, famP []member
					variants := [][]byte{b}
					for _, c := range bad {
						if len(c) == seg && !bytes.Equal(c, b) {
							variants = append(variants, c)
						}
					}
					for _, s := range rh.lookalikes(b) {
						if len(s) == seg {
							variants = append(variants, s)
						}
					}
					pos := n / 2
					for _, v := range variants {
						var stream []byte
						for j := 0; j < n; j++ {
							if j == pos {
								stream = append(stream, v...)
							} else {
								stream = append(stream, b...)
							}
						}
						// every sequence contains the refused b unless n == 1 and v is admissible
						refused := !rh.accepts(v) || n > 1
						fam = append(fam, member{leaf: v, refused: refused, o: readerRoot(stream, seg)})
						famP = append(famP, member{leaf: v, refused: refused, o: readerProof(stream, seg, pos)})
					}
					what := fmt.Sprintf("n=%d segment=%d varied position %d", n, seg, pos)
					distinctRoots("ReaderRoot", what, fam)
					distinctRoots("BuildReaderProof", what, famP)
				}
			}
			for c, n := range cnt {
				rep.Count(test, func() string {
					if len(c) > 18 && c[:18] == "inadmissible_leaf:" {
						return c
					}
					return rh.name + "/" + c
				}(), n, n, sample[c])
			}
			rep.Note(test, rh.name+": leaves / proof elements the hash refuses: every call may panic or fail, but a normal return must not give one root to two different sequences nor accept a refused element that differs from the committed one")
		})
	}
}
