// Package c16: Merkle proofs verify for, and only for, the committed leaf and position.
//
// (a) accumulator/merkletree against ref.MerkleRef (RFC 6962 recursion with the repository's hashing rules),
// (b) the Vortex Poseidon2 tree against ref.Complete* (complete binary tree over the exported compression).
//
// Oracle for tampering: the library verifier must return exactly what the reference verifier returns on
// the tampered object. With pairwise distinct leaves that is "false" for every tampering (asserted as a
// sanity check of the oracle itself); with deliberately duplicated leaves some index changes are honest
// proofs of the same root and both verifiers must accept them.
package c16

import (
	"bytes"
	"crypto/sha256"
	"encoding/binary"
	"fmt"
	"hash"
	"math/big"
	"os"
	"regexp"
	"strconv"
	"strings"
	"testing"

	"github.com/consensys/gnark-crypto/accumulator/merkletree"
	"github.com/consensys/gnark-crypto/ecc/bn254/fr/mimc"

	"verif/harness/internal/ref"
	"verif/harness/internal/rep"
)

func TestMain(m *testing.M) { rep.Main(m) }

// ---- environment -------------------------------------------------------------------------------

func selected(name string) bool {
	p := os.Getenv("VERIF_INST")
	if p == "" {
		return true
	}
	ok, _ := regexp.MatchString(p, name)
	return ok
}

func shard() (int, int) {
	s := os.Getenv("VERIF_SHARD")
	if i := strings.IndexByte(s, '/'); i > 0 {
		k, e1 := strconv.Atoi(s[:i])
		n, e2 := strconv.Atoi(s[i+1:])
		if e1 == nil && e2 == nil && n > 0 && k >= 0 && k < n {
			return k, n
		}
	}
	return 0, 1
}

func seed() uint64 {
	v, err := strconv.ParseUint(os.Getenv("VERIF_SEED"), 10, 64)
	if err != nil {
		return 1
	}
	return v
}

// prf returns n bytes that are a pure function of (VERIF_SEED, tag, j): SHA-256 in counter mode.
func prf(tag string, j int, n int) []byte {
	var out []byte
	for c := 0; len(out) < n; c++ {
		var hdr [24]byte
		binary.BigEndian.PutUint64(hdr[0:], seed())
		binary.BigEndian.PutUint64(hdr[8:], uint64(j))
		binary.BigEndian.PutUint64(hdr[16:], uint64(c))
		d := sha256.Sum256(append(hdr[:], tag...))
		out = append(out, d[:]...)
	}
	return out[:n]
}

// ---- hashes ------------------------------------------------------------------------------------

type hashKind struct {
	name  string
	lib   func() hash.Hash
	model ref.ChunkHash
	field bool // inputs must be canonical bn254-fr blocks (or shorter than a block)
}

func mimcChunks(chunks [][]byte) []byte {
	h := mimc.NewMiMC()
	for _, c := range chunks {
		if _, err := h.Write(c); err != nil {
			panic("harness: the model was fed a chunk MiMC refuses: " + err.Error())
		}
	}
	return h.Sum(nil)
}

var hashes = []hashKind{
	{"sha256", func() hash.Hash { return sha256.New() }, ref.SHA256Chunks, false},
	{"mimc", func() hash.Hash { return mimc.NewMiMC() }, mimcChunks, true},
}

var frQ, _ = new(big.Int).SetString("21888242871839275222246405745257275088548364400416034343698204186575808495617", 10)

// frBlock returns the canonical 32-byte block (rnd mod 2^200) * 2^16 + j: distinct for distinct j < 2^16.
func frBlock(tag string, j int) []byte {
	v := new(big.Int).SetBytes(prf(tag, j, 25))
	v.Lsh(v, 16)
	v.Or(v, big.NewInt(int64(j&0xffff)))
	out := make([]byte, 32)
	v.FillBytes(out)
	return out
}

// ---- leaf sets ---------------------------------------------------------------------------------

// leafSet builds N leaves for a hash and a flavour.
//
//	distinct   pairwise distinct leaves of varying length (SHA-256: 0 and 2..40 bytes; MiMC: one block,
//	           every 7th two blocks, every 11th a 3-byte value that Write left-pads)
//	period2    A,B,A,B,…: every aligned sub-tree equals its sibling, most index changes stay honest
//	allequal   one value everywhere
//	oneodd     one value everywhere except one seed-dependent position
func leafSet(h hashKind, flavour string, N int) [][]byte {
	mk := func(j int) []byte {
		if h.field {
			switch {
			case j%11 == 10:
				return []byte{0x01, byte(j >> 8), byte(j)}
			case j%7 == 6:
				return append(frBlock("leafA", j), frBlock("leafB", j)...)
			}
			return frBlock("leaf", j)
		}
		if j == 5 {
			return []byte{}
		}
		l := 2 + (j*7)%39
		b := prf("leaf", j, l)
		b[0], b[1] = byte(j>>8), byte(j)
		return b
	}
	out := make([][]byte, N)
	odd := int(seed()*2654435761) % N
	if odd < 0 {
		odd = -odd
	}
	for j := range out {
		switch flavour {
		case "distinct":
			out[j] = mk(j)
		case "period2":
			out[j] = mk(100 + j%2)
		case "allequal":
			out[j] = mk(200)
		case "oneodd":
			out[j] = mk(200)
			if j == odd {
				out[j] = mk(201)
			}
		default:
			panic("flavour")
		}
	}
	return out
}

// ---- element tampering -------------------------------------------------------------------------

// mutations returns altered copies of b that the hash still accepts as a chunk.
func mutations(h hashKind, b []byte) [][]byte {
	cp := func() []byte { return append([]byte{}, b...) }
	var out [][]byte
	if h.field {
		if len(b) >= 32 && len(b)%32 == 0 {
			// +1 mod q on the last and on the first block: stays canonical
			for _, off := range []int{len(b) - 32, 0} {
				c := cp()
				v := new(big.Int).SetBytes(c[off : off+32])
				v.Add(v, big.NewInt(1)).Mod(v, frQ)
				v.FillBytes(c[off : off+32])
				out = append(out, c)
				if len(b) == 32 {
					break
				}
			}
			return out
		}
		// shorter than a block: any bytes are fine
		if len(b) == 0 {
			return [][]byte{{0x01}}
		}
		c := cp()
		c[len(c)-1] ^= 1
		out = append(out, c)
		c = cp()
		c[0] ^= 0x80
		return append(out, c)
	}
	if len(b) == 0 {
		return [][]byte{{0x00}}
	}
	c := cp()
	c[len(c)-1] ^= 1
	out = append(out, c)
	c = cp()
	c[0] ^= 0x80
	out = append(out, c)
	out = append(out, append(cp(), 0x00)) // one byte longer
	out = append(out, cp()[:len(b)-1])    // one byte shorter
	return out
}

// ---- lock-step checks --------------------------------------------------------------------------

type counter map[string]int64

type acc struct {
	t      *testing.T
	h      hashKind
	flav   string
	vh     hash.Hash // hash instance handed to VerifyProof
	cnt    counter
	sample map[string]string
}

func newAcc(t *testing.T, h hashKind, flav string) *acc {
	return &acc{t: t, h: h, flav: flav, vh: h.lib(), cnt: counter{}, sample: map[string]string{}}
}

func (a *acc) count(class, sample string) {
	a.cnt[class]++
	if _, ok := a.sample[class]; !ok {
		a.sample[class] = sample
	}
}

// flush reports the counters: every counted object is a distinct (construction | tampering, n, i, …) tuple.
func (a *acc) flush(test string) {
	for c, n := range a.cnt {
		nt := n
		if strings.HasPrefix(c, "trivial:") {
			nt = 0
		}
		name := a.h.name + "/" + a.flav + "/" + c
		if strings.HasPrefix(c, "observe_mid:") || strings.HasPrefix(c, "input:") || strings.HasPrefix(c, "refused_call_then_continue:") {
			name = c // cross-cutting classes that conf/c16.py declares mandatory
		}
		rep.Count(test, name, n, nt, a.sample[c])
	}
}

// ---- refused calls -------------------------------------------------------------------------------

// proveOutcome is everything Prove() lets a caller observe, including the documented usage panic of a
// tree on which SetIndex was never (successfully) called.
type proveOutcome struct {
	panicked bool
	root     []byte
	ps       [][]byte
	idx, nl  uint64
}

func tryProve(tr *merkletree.Tree) (o proveOutcome) {
	defer func() {
		if r := recover(); r != nil {
			o = proveOutcome{panicked: true}
		}
	}()
	o.root, o.ps, o.idx, o.nl = tr.Prove()
	return
}

func (o proveOutcome) equal(p proveOutcome) bool {
	if o.panicked != p.panicked || !bytes.Equal(o.root, p.root) || (o.root == nil) != (p.root == nil) || o.idx != p.idx || o.nl != p.nl || len(o.ps) != len(p.ps) || (o.ps == nil) != (p.ps == nil) {
		return false
	}
	for j := range o.ps {
		if !bytes.Equal(o.ps[j], p.ps[j]) {
			return false
		}
	}
	return true
}

func (o proveOutcome) String() string {
	if o.panicked {
		return "panic"
	}
	return fmt.Sprintf("root=%x proofSet=%s index=%d numLeaves=%d", o.root, hexs(o.ps), o.idx, o.nl)
}

// refusedSetIndex calls SetIndex(j) on a NON-EMPTY tree: the documented error must come back, and the tree
// must behave exactly as if the call had not been made — immediately (Root, Prove incl. the usage panic of a
// plain tree) and, as the caller goes on using the tree, in everything that is compared later.
func refusedSetIndex(tr *merkletree.Tree, j uint64) error {
	rootBefore, proveBefore := tr.Root(), tryProve(tr)
	if err := tr.SetIndex(j); err == nil {
		return fmt.Errorf("SetIndex(%d) on a non-empty tree returned no error", j)
	}
	if got := tr.Root(); !bytes.Equal(got, rootBefore) {
		return fmt.Errorf("refused SetIndex(%d) changed Root(): %x -> %x", j, rootBefore, got)
	}
	if got := tryProve(tr); !got.equal(proveBefore) {
		return fmt.Errorf("refused SetIndex(%d) changed what Prove() does:\nbefore: %v\n after: %v", j, proveBefore, got)
	}
	return nil
}

// ---- slices with dirty spare capacity ----------------------------------------------------------

const dirtyByte = 0xEE

// window returns b as a window buf[3:3+len(b)] of a larger caller buffer whose other bytes (in front, and
// behind in the spare capacity of the window) are non-zero, plus a function that reports whether the call
// under test left every byte of the buffer as it was.
func window(b []byte) (w []byte, intact func() bool) {
	const lo, extra = 3, 37
	buf := make([]byte, lo+len(b)+extra)
	for i := range buf {
		buf[i] = dirtyByte
	}
	copy(buf[lo:], b)
	snapshot := append([]byte{}, buf...)
	return buf[lo : lo+len(b)], func() bool { return bytes.Equal(buf, snapshot) }
}

// dirtyProofSet copies ps into an outer slice with spare capacity that holds further, well-formed but
// foreign elements (a verifier that looks beyond len would consume them); inner: every element is a
// window of a dirty buffer as well.
func dirtyProofSet(ps [][]byte, inner bool) (q [][]byte, intact func() bool) {
	if ps == nil {
		return nil, func() bool { return true }
	}
	const spare = 3
	q = make([][]byte, len(ps), len(ps)+spare)
	var checks []func() bool
	for j := range ps {
		q[j] = ps[j]
		if inner {
			var ok func() bool
			q[j], ok = window(ps[j])
			checks = append(checks, ok)
		}
	}
	full := q[:cap(q)]
	foreign := make([]byte, 32)
	foreign[31] = 0x2a // a canonical block for MiMC, an ordinary string for SHA-256
	for j := len(ps); j < len(full); j++ {
		full[j] = foreign
	}
	return q, func() bool {
		for _, c := range checks {
			if !c() {
				return false
			}
		}
		for j := len(ps); j < len(full); j++ {
			if len(full[j]) != 32 || &full[j][0] != &foreign[0] || foreign[31] != 0x2a {
				return false
			}
		}
		return true
	}
}

func (a *acc) verify(root []byte, ps [][]byte, i, n uint64) (ok bool) {
	defer func() {
		if r := recover(); r != nil {
			a.t.Fatalf("%s/%s: VerifyProof panicked on index=%d numLeaves=%d len(proofSet)=%d: %v", a.h.name, a.flav, i, n, len(ps), r)
		}
	}()
	// every proof set is handed over with dirty spare capacity in the outer slice
	q, intact := dirtyProofSet(ps, false)
	ok = merkletree.VerifyProof(a.vh, root, q, i, n)
	if !intact() {
		a.t.Fatalf("%s/%s: VerifyProof wrote into the spare capacity of the proof set (index=%d numLeaves=%d)", a.h.name, a.flav, i, n)
	}
	return ok
}

// verifyDirty: root and every proof element are windows of larger dirty buffers, too.
func (a *acc) verifyDirty(root []byte, ps [][]byte, i, n uint64) bool {
	q, intact := dirtyProofSet(ps, true)
	r, rintact := window(root)
	ok := merkletree.VerifyProof(a.vh, r, q, i, n)
	if !intact() || !rintact() {
		a.t.Fatalf("%s/%s: VerifyProof modified its inputs or their spare capacity (index=%d numLeaves=%d)", a.h.name, a.flav, i, n)
	}
	a.count("input:slice_with_dirty_spare_capacity", fmt.Sprintf("VerifyProof n=%d i=%d", n, i))
	return ok
}

func hexs(ps [][]byte) string {
	var s []string
	for _, p := range ps {
		s = append(s, fmt.Sprintf("%x", p))
	}
	return "[" + strings.Join(s, " ") + "]"
}

// agree checks library verifier == reference verifier on one (possibly tampered) object.
func (a *acc) agree(kind string, root []byte, ps [][]byte, i, n uint64, what string) {
	got := a.verify(root, ps, i, n)
	want := ref.MerkleVerify(a.h.model, root, ps, i, n)
	if got != want {
		a.t.Fatalf("%s/%s: %s (%s): VerifyProof = %v, reference verifier = %v\nroot=%x index=%d numLeaves=%d proofSet=%s",
			a.h.name, a.flav, kind, what, got, want, root, i, n, hexs(ps))
	}
	if want {
		if a.flav == "distinct" {
			a.t.Fatalf("%s/distinct: oracle sanity: a tampered object (%s, %s) is accepted by the reference verifier although all leaves are distinct\nroot=%x index=%d numLeaves=%d proofSet=%s",
				a.h.name, kind, what, root, i, n, hexs(ps))
		}
		a.count("tamper_is_honest:"+kind, what)
	}
	a.count("tamper:"+kind, what)
}

// honest asserts that a library-produced proof equals the reference proof and verifies.
func (a *acc) honest(path string, R *ref.MerkleRef, n, i int, root []byte, ps [][]byte, idx, nl uint64) {
	what := fmt.Sprintf("n=%d i=%d", n, i)
	wantRoot, want := R.Root(n), R.ProofSet(i, n)
	if !bytes.Equal(root, wantRoot) {
		a.t.Fatalf("%s/%s %s %s: root = %x, MTH = %x", a.h.name, a.flav, path, what, root, wantRoot)
	}
	if idx != uint64(i) || nl != uint64(n) {
		a.t.Fatalf("%s/%s %s %s: Prove returned index=%d numLeaves=%d", a.h.name, a.flav, path, what, idx, nl)
	}
	if len(ps) != len(want) {
		a.t.Fatalf("%s/%s %s %s: proof set has %d elements, audit path + leaf has %d\n got %s\nwant %s", a.h.name, a.flav, path, what, len(ps), len(want), hexs(ps), hexs(want))
	}
	for j := range ps {
		if !bytes.Equal(ps[j], want[j]) {
			a.t.Fatalf("%s/%s %s %s: proof element %d differs\n got %s\nwant %s", a.h.name, a.flav, path, what, j, hexs(ps), hexs(want))
		}
	}
	if !a.verify(root, ps, idx, nl) || !a.verifyDirty(root, ps, idx, nl) {
		a.t.Fatalf("%s/%s %s %s: honest proof does not verify\nroot=%x proofSet=%s", a.h.name, a.flav, path, what, root, hexs(ps))
	}
	if !ref.MerkleVerify(a.h.model, root, ps, idx, nl) {
		a.t.Fatalf("harness: reference verifier rejects the reference proof (%s)", what)
	}
	cls := "build:" + path
	if n&(n-1) == 0 && (path == "push" || path == "incremental") {
		// power-of-two tree built by plain pushes: the only class the property calls trivial
		cls = "trivial:" + cls + "_pow2"
	} else if n&(n-1) != 0 && i >= n-(n&-n) {
		// i lies in the last (smallest) complete sub-tree of an unbalanced tree
		cls += "_last_subtree"
	}
	a.count(cls, what)
}

func log2ceil(n int) int {
	d := 0
	for 1<<d < n {
		d++
	}
	return d
}

// tamper runs the tamper suite on the honest object (root, ps, i, n). allIdx: try every i' < n.
func (a *acc) tamper(root []byte, ps [][]byte, i, n int, allIdx bool) {
	what := fmt.Sprintf("n=%d i=%d", n, i)
	I, N := uint64(i), uint64(n)
	// root
	roots := append(mutations(hashKind{}, root), []byte{}, nil)
	for k, r := range roots {
		a.agree("root", r, ps, I, N, fmt.Sprintf("%s variant %d", what, k))
	}
	// each proof element, leaf first
	for j := range ps {
		kind := "sibling"
		if j == 0 {
			kind = "leaf"
		}
		for k, m := range mutations(a.h, ps[j]) {
			q := append([][]byte{}, ps...)
			q[j] = m
			a.agree(kind, root, q, I, N, fmt.Sprintf("%s element %d variant %d", what, j, k))
		}
	}
	// index
	if allIdx {
		for j := 0; j < n; j++ {
			if j != i {
				a.agree("index", root, ps, uint64(j), N, fmt.Sprintf("%s i'=%d", what, j))
			}
		}
	} else {
		seen := map[int]bool{i: true}
		cand := []int{0, n - 1, i + 1, i - 1, n / 2, merkleSplitPoint(n), merkleSplitPoint(n) - 1}
		for b := 0; 1<<b < n; b++ {
			cand = append(cand, i^(1<<b))
		}
		for _, j := range cand {
			if j >= 0 && j < n && !seen[j] {
				seen[j] = true
				a.agree("index_subset", root, ps, uint64(j), N, fmt.Sprintf("%s i'=%d", what, j))
			}
		}
	}
	// shortened by one
	for j := range ps {
		q := append(append([][]byte{}, ps[:j]...), ps[j+1:]...)
		a.agree("shortened", root, q, I, N, fmt.Sprintf("%s without element %d", what, j))
	}
	// extended by one
	zero := make([]byte, 32)
	last := ps[len(ps)-1]
	ext := [][][]byte{
		append(append([][]byte{}, ps...), last),
		append(append([][]byte{}, ps...), root),
		append(append([][]byte{}, ps...), zero),
		append([][]byte{ps[0]}, ps...),
	}
	if m := len(ps) / 2; m > 0 {
		ext = append(ext, append(append(append([][]byte{}, ps[:m+1]...), ps[m]), ps[m+1:]...))
	}
	for k, q := range ext {
		a.agree("extended", root, q, I, N, fmt.Sprintf("%s variant %d", what, k))
	}
	// out-of-range index
	depth := uint(len(ps) - 1)
	for _, j := range []uint64{N, N + 1, I + 1<<depth, I + 1<<uint(log2ceil(n)), I + 2<<uint(log2ceil(n)), ^uint64(0), 1<<63 | I, 1<<32 | I} {
		if j < N {
			continue
		}
		a.agree("index_out_of_range", root, ps, j, N, fmt.Sprintf("%s i'=%d", what, j))
	}
	// documented nonsense inputs
	a.agree("documented_false", root, nil, I, N, what+" nil proof set")
	a.agree("documented_false", root, [][]byte{}, I, N, what+" empty proof set")
	a.agree("documented_false", root, ps, I, 0, what+" numLeaves=0")
}

func merkleSplitPoint(n int) int {
	k := 1
	for 2*k < n {
		k *= 2
	}
	return k
}
