package c16

import (
	"bytes"
	"fmt"
	"math/bits"
	"strings"
	"testing"

	"pgregory.net/rapid"

	"github.com/consensys/gnark-crypto/accumulator/merkletree"

	"verif/harness/internal/ref"
	"verif/harness/internal/rep"
)

// TestC16_Decompose: one tree built by an arbitrary interleaving of Push, PushSubTree (aligned complete
// cached sub-trees not containing the proof index, sums from the reference) and ReadAll calls (each call
// pushes a run of equal-sized segments whose last one may be short), with refusal probes in between.
// Root and proof must equal the reference for the resulting leaf list, and a drawn tampering must be
// judged like the reference verifier judges it.
func TestC16_Decompose(t *testing.T) {
	forHashes(t, func(t *testing.T, h hashKind) {
		rapid.Check(t, func(t *rapid.T) { propDecompose(t, h) })
	})
}

func drawN(t *rapid.T) int {
	switch rapid.IntRange(0, 3).Draw(t, "ncls") {
	case 0:
		return rapid.IntRange(1, 9).Draw(t, "n")
	case 1:
		p := 1 << rapid.IntRange(1, 6).Draw(t, "log")
		return p + rapid.IntRange(-1, 1).Draw(t, "d")
	default:
		return rapid.IntRange(1, 96).Draw(t, "n")
	}
}

func propDecompose(t *rapid.T, h hashKind) {
	n := drawN(t)
	i := rapid.IntRange(0, n-1).Draw(t, "i")
	if rapid.IntRange(0, 3).Draw(t, "iedge") == 0 {
		i = rapid.SampledFrom([]int{0, n - 1, n / 2, n - (n & -n)}).Draw(t, "ipick") % n
	}
	dup := rapid.IntRange(0, 3).Draw(t, "dup") == 0 // leaves from a pool of two values
	seg := 32
	if !h.field {
		seg = rapid.IntRange(1, 9).Draw(t, "seg")
	}
	// plan the calls first (they fix the leaf lengths), then fill in contents
	type op struct {
		kind   string // push | sub | read
		p, cnt int    // first leaf, number of leaves
		height int
		last   int // read: length of the last segment
	}
	var ops []op
	lens := make([]int, n) // -1: free
	for j := range lens {
		lens[j] = -1
	}
	for p := 0; p < n; {
		choice := rapid.IntRange(0, 2).Draw(t, "op")
		switch {
		case choice == 1 && p != i:
			hmax := 0
			for hh := 1; p%(1<<hh) == 0 && p+1<<hh <= n && !(p <= i && i < p+1<<hh); hh++ {
				hmax = hh
			}
			hh := rapid.IntRange(0, hmax).Draw(t, "height")
			ops = append(ops, op{kind: "sub", p: p, cnt: 1 << hh, height: hh})
			p += 1 << hh
		case choice == 2:
			cnt := rapid.IntRange(1, min(5, n-p)).Draw(t, "cnt")
			last := seg
			if rapid.Bool().Draw(t, "shortLast") {
				last = rapid.IntRange(1, seg).Draw(t, "last")
			}
			for j := p; j < p+cnt; j++ {
				lens[j] = seg
			}
			lens[p+cnt-1] = last
			ops = append(ops, op{kind: "read", p: p, cnt: cnt, last: last})
			p += cnt
		default:
			ops = append(ops, op{kind: "push", p: p, cnt: 1})
			p++
		}
	}
	leaves := make([][]byte, n)
	for j := range leaves {
		src := j
		if dup {
			src = 1000 + rapid.IntRange(0, 1).Draw(t, "pool")
		}
		l := lens[j]
		switch {
		case h.field && l < 0:
			leaves[j] = frBlock("dleaf", src)
		case h.field:
			leaves[j] = frBlock("dleaf", src)[:l] // a prefix of a canonical block: < 32 bytes, or the block
		default:
			if l < 0 {
				l = rapid.IntRange(0, 12).Draw(t, "len")
			}
			leaves[j] = prf("dleaf", src, l+2)[:l]
			if !dup && l >= 2 {
				leaves[j][0], leaves[j][1] = byte(j>>8), byte(j)
			}
		}
	}
	R := ref.NewMerkleRef(h.model, leaves)

	tr := merkletree.New(h.lib())
	if err := tr.SetIndex(uint64(i)); err != nil {
		t.Fatal(err)
	}
	classes := map[string]bool{h.name: true}
	var log []string
	junk := R.MTH(0, 1)
	vh := h.lib()
	// observe: Root() and/or Prove() may be read after EVERY operation (also after a refused one); what they
	// return must be the reference root/proof of the leaves pushed so far, and the proof handed out must
	// verify against the root handed out with it.
	observe := func(after string, m int) {
		kind := rapid.SampledFrom([]string{"none", "root", "prove", "root+prove", "prove+root"}).Draw(t, "observe")
		if kind == "none" {
			return
		}
		var wantRoot []byte
		if m > 0 {
			wantRoot = R.Root(m)
		}
		where := fmt.Sprintf("%s n=%d i=%d after %v (%d leaves so far)", h.name, n, i, log, m)
		for _, call := range strings.Split(kind, "+") {
			if call == "root" {
				if got := tr.Root(); !bytes.Equal(got, wantRoot) || (got == nil) != (m == 0) {
					t.Fatalf("%s: Root() = %x, MTH of the leaves so far = %x", where, got, wantRoot)
				}
				continue
			}
			root, ps, idx, nl := tr.Prove()
			if !bytes.Equal(root, wantRoot) || idx != uint64(i) || nl != uint64(m) {
				t.Fatalf("%s: Prove() root = %x (MTH %x) index=%d numLeaves=%d", where, root, wantRoot, idx, nl)
			}
			if m <= i {
				if ps != nil {
					t.Fatalf("%s: proof set %s before the proof index is reached", where, hexs(ps))
				}
				continue
			}
			want := R.ProofSet(i, m)
			if len(ps) != len(want) {
				t.Fatalf("%s: proof set %s, want %s", where, hexs(ps), hexs(want))
			}
			for j := range ps {
				if !bytes.Equal(ps[j], want[j]) {
					t.Fatalf("%s: proof set %s, want %s", where, hexs(ps), hexs(want))
				}
			}
			if !merkletree.VerifyProof(vh, root, ps, idx, nl) {
				t.Fatalf("%s: the proof handed out does not verify against the root handed out with it", where)
			}
		}
		classes["observe_mid:after_"+after] = true
		log = append(log, "Observe("+kind+")")
	}
	var intact []func() bool
	observe("nothing", 0)
	for _, o := range ops {
		// refused SetIndex on the non-empty tree (documented error), then the tree is used further
		if o.p > 0 && rapid.IntRange(0, 3).Draw(t, "refusedSetIndex") == 0 {
			j := uint64(rapid.IntRange(0, n+1).Draw(t, "otherIndex"))
			if err := refusedSetIndex(tr, j); err != nil {
				t.Fatalf("n=%d i=%d after %v: %v", n, i, log, err)
			}
			log = append(log, fmt.Sprintf("RefusedSetIndex(%d)", j))
			classes["refused_call_then_continue:SetIndex"] = true
			observe("refused_setindex", o.p)
		}
		// refusal probes before the call
		if rapid.IntRange(0, 3).Draw(t, "probe") == 0 {
			if o.p > 0 {
				hb := bits.TrailingZeros(uint(o.p)) + 1 + rapid.IntRange(0, 2).Draw(t, "over")
				if err := tr.PushSubTree(hb, junk); err == nil {
					t.Fatalf("n=%d i=%d after %v: PushSubTree(height %d) at position %d accepted (smallest sub-tree has height %d)", n, i, log, hb, o.p, bits.TrailingZeros(uint(o.p)))
				}
				classes["refusal_too_large"] = true
				classes["refused_call_then_continue:PushSubTree"] = true
				observe("refused_pushsubtree", o.p)
			}
			if o.p <= i {
				hc := 0
				for o.p+1<<hc <= i {
					hc++
				}
				if err := tr.PushSubTree(hc, junk); err == nil {
					t.Fatalf("n=%d i=%d after %v: PushSubTree(height %d) at position %d accepted although it contains the proof index", n, i, log, hc, o.p)
				}
				classes["refusal_contains_index"] = true
				classes["refused_call_then_continue:PushSubTree"] = true
				observe("refused_pushsubtree", o.p)
			}
		}
		switch o.kind {
		case "push":
			data := leaves[o.p]
			if rapid.Bool().Draw(t, "dirtyBuffer") {
				// the leaf is a window of a larger caller buffer with non-zero bytes around it
				var ok func() bool
				data, ok = window(data)
				intact = append(intact, ok)
				classes["input:slice_with_dirty_spare_capacity"] = true
			}
			tr.Push(data)
			log = append(log, fmt.Sprintf("Push@%d", o.p))
		case "sub":
			sum := R.MTH(o.p, o.p+o.cnt)
			if rapid.Bool().Draw(t, "dirtyBuffer") {
				var ok func() bool
				sum, ok = window(sum)
				intact = append(intact, ok)
				classes["input:slice_with_dirty_spare_capacity"] = true
			}
			if err := tr.PushSubTree(o.height, sum); err != nil {
				t.Fatalf("n=%d i=%d after %v: PushSubTree(height %d) of [%d,%d) refused: %v", n, i, log, o.height, o.p, o.p+o.cnt, err)
			}
			log = append(log, fmt.Sprintf("Sub@%d^%d", o.p, o.height))
			classes[fmt.Sprintf("subtree_h%d", min(o.height, 4))] = true
		case "read":
			stream := bytes.Join(leaves[o.p:o.p+o.cnt], nil)
			if err := tr.ReadAll(mkReader(rapid.IntRange(0, 2).Draw(t, "reader"), stream), seg); err != nil {
				t.Fatalf("ReadAll: %v", err)
			}
			log = append(log, fmt.Sprintf("Read@%d+%d(last %d/%d)", o.p, o.cnt, o.last, seg))
			classes["readall"] = true
			if o.last < seg {
				classes["readall_short_last"] = true
			}
		}
		observe(map[string]string{"push": "push", "sub": "pushsubtree", "read": "readall"}[o.kind], o.p+o.cnt)
	}
	root, ps, idx, nl := tr.Prove()
	for _, ok := range intact {
		if !ok() {
			t.Fatalf("%s n=%d i=%d ops=%v: a caller buffer handed to Push/PushSubTree was modified (data or spare capacity)", h.name, n, i, log)
		}
	}
	what := fmt.Sprintf("%s n=%d i=%d seg=%d dup=%v ops=%s", h.name, n, i, seg, dup, strings.Join(log, ","))
	wantRoot, want := R.Root(n), R.ProofSet(i, n)
	if !bytes.Equal(root, wantRoot) || idx != uint64(i) || nl != uint64(n) {
		t.Fatalf("%s: root=%x (MTH %x) index=%d numLeaves=%d", what, root, wantRoot, idx, nl)
	}
	if len(ps) != len(want) {
		t.Fatalf("%s: proof set %s, want %s", what, hexs(ps), hexs(want))
	}
	for j := range ps {
		if !bytes.Equal(ps[j], want[j]) {
			t.Fatalf("%s: proof set %s, want %s", what, hexs(ps), hexs(want))
		}
	}
	if got := tr.Root(); !bytes.Equal(got, wantRoot) {
		t.Fatalf("%s: Root() after Prove() = %x", what, got)
	}
	if !merkletree.VerifyProof(vh, root, ps, idx, nl) {
		t.Fatalf("%s: honest proof does not verify", what)
	}
	{
		// the same proof handed over as windows of dirty buffers, outer slice with foreign elements in its spare capacity
		dq, ok := dirtyProofSet(ps, true)
		droot, rok := window(root)
		if !merkletree.VerifyProof(vh, droot, dq, idx, nl) {
			t.Fatalf("%s: honest proof does not verify when handed over in slices with dirty spare capacity", what)
		}
		if !ok() || !rok() {
			t.Fatalf("%s: VerifyProof modified its inputs or their spare capacity", what)
		}
		classes["input:slice_with_dirty_spare_capacity"] = true
	}
	// one drawn tampering, judged by the reference verifier
	q := append([][]byte{}, ps...)
	qi, qroot := uint64(i), root
	switch kind := rapid.SampledFrom([]string{"index", "element", "root", "drop", "insert", "oob"}).Draw(t, "tamper"); kind {
	case "index":
		qi = uint64(rapid.IntRange(0, n-1).Draw(t, "i2"))
		classes["tamper_index"] = true
	case "element":
		j := rapid.IntRange(0, len(q)-1).Draw(t, "elem")
		m := mutations(h, q[j])
		q[j] = m[rapid.IntRange(0, len(m)-1).Draw(t, "variant")]
		classes["tamper_element"] = true
	case "root":
		m := mutations(hashKind{}, root)
		qroot = m[rapid.IntRange(0, len(m)-1).Draw(t, "variant")]
		classes["tamper_root"] = true
	case "drop":
		j := rapid.IntRange(0, len(q)-1).Draw(t, "elem")
		q = append(q[:j:j], q[j+1:]...)
		classes["tamper_shortened"] = true
	case "insert":
		j := rapid.IntRange(0, len(q)).Draw(t, "at")
		x := q[rapid.IntRange(0, len(q)-1).Draw(t, "copyOf")]
		q = append(append(append([][]byte{}, q[:j]...), x), q[j:]...)
		classes["tamper_extended"] = true
	case "oob":
		qi = rapid.SampledFrom([]uint64{uint64(n), uint64(n) + 1, uint64(i) + 1<<uint(len(ps)-1), ^uint64(0), 1<<63 | uint64(i)}).Draw(t, "oob")
		classes["tamper_oob"] = true
	}
	q, _ = dirtyProofSet(q, false)
	got := merkletree.VerifyProof(vh, qroot, q, qi, nl)
	exp := ref.MerkleVerify(h.model, qroot, q, qi, nl)
	if got != exp {
		t.Fatalf("%s: tampered object: VerifyProof=%v reference=%v\nroot=%x index=%d proofSet=%s", what, got, exp, qroot, qi, hexs(q))
	}
	if exp {
		classes["tamper_is_honest"] = true
	}
	if dup {
		classes["duplicate_leaves"] = true
	}
	if n&(n-1) != 0 {
		classes["unbalanced"] = true
	}
	var cl []string
	for c := range classes {
		cl = append(cl, c)
	}
	rep.Case("C16_Decompose/"+h.name, what, true, cl...)
}
