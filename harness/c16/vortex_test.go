package c16

import (
	"encoding/binary"
	"fmt"
	"math"
	"strings"
	"testing"

	"github.com/consensys/gnark-crypto/field/koalabear"
	"github.com/consensys/gnark-crypto/field/koalabear/vortex"

	"verif/harness/internal/ref"
	"verif/harness/internal/rep"
)

// The Vortex tree: complete binary tree over Poseidon2 compression (vortex.CompressPoseidon2, used as a
// black box by the reference as well — the hash is C14's subject).

func vHash(tag string, j int) vortex.Hash {
	var h vortex.Hash
	b := prf(tag, j, 64)
	for k := range h {
		h[k].SetUint64(binary.BigEndian.Uint64(b[8*k:]))
	}
	// make leaves with different j differ by construction
	h[0].SetUint64(uint64(j) + 1)
	return h
}

func vLeaves(flavour string, n int) []vortex.Hash {
	out := make([]vortex.Hash, n)
	odd := int(seed()*2654435761>>8) % n
	for j := range out {
		switch flavour {
		case "distinct":
			out[j] = vHash("vleaf", j)
		case "period2":
			out[j] = vHash("vleaf", 1000+j%2)
		case "allequal":
			out[j] = vHash("vleaf", 2000)
		case "oneodd":
			out[j] = vHash("vleaf", 2000)
			if j == odd {
				out[j] = vHash("vleaf", 2001)
			}
		case "zero": // the padding value itself
		}
	}
	return out
}

// bump returns h with coordinate k incremented by one (a different canonical element).
func bump(h vortex.Hash, k int) vortex.Hash {
	var one koalabear.Element
	one.SetOne()
	h[k].Add(&h[k], &one)
	return h
}

func hstr(h vortex.Hash) string { return vortex.HashHex(&h) }

func pstr(p []vortex.Hash) string {
	var s []string
	for _, h := range p {
		s = append(s, hstr(h))
	}
	return "[" + strings.Join(s, " ") + "]"
}

type vx struct {
	t      *testing.T
	flav   string
	sanity bool // all leaves of the current tree are pairwise distinct: no tampering can be an honest proof
	cnt    counter
	sample map[string]string
}

func (v *vx) count(class, sample string) {
	v.cnt[class]++
	if _, ok := v.sample[class]; !ok {
		v.sample[class] = sample
	}
}

func (v *vx) verify(proof []vortex.Hash, i int, leaf, root vortex.Hash) (ok bool) {
	defer func() {
		if r := recover(); r != nil {
			v.t.Fatalf("vortex/%s: MerkleProof.Verify(i=%d, len(proof)=%d) panicked: %v", v.flav, i, len(proof), r)
		}
	}()
	// the proof is handed over with foreign hashes in the spare capacity of its slice
	q := make([]vortex.Hash, len(proof), len(proof)+2)
	copy(q, proof)
	full := q[:cap(q)]
	for j := len(proof); j < len(full); j++ {
		full[j] = vHash("foreign", 7000+j)
	}
	ok = vortex.MerkleProof(q).Verify(i, leaf, root) == nil
	for j := len(proof); j < len(full); j++ {
		if full[j] != vHash("foreign", 7000+j) {
			v.t.Fatalf("vortex/%s: MerkleProof.Verify wrote into the spare capacity of the proof", v.flav)
		}
	}
	return ok
}

// agree: library verifier == reference verifier for a tree with P (power of two) leaves.
func (v *vx) agree(kind string, proof []vortex.Hash, i, P int, leaf, root vortex.Hash, what string) {
	got := v.verify(proof, i, leaf, root)
	want := ref.CompleteVerify(root, leaf, i, P, proof, vortex.CompressPoseidon2)
	if got != want {
		v.t.Fatalf("vortex/%s: %s (%s): MerkleProof.Verify accepts = %v, reference verifier = %v\nindex=%d leaves=%d leaf=%s root=%s proof=%s",
			v.flav, kind, what, got, want, i, P, hstr(leaf), hstr(root), pstr(proof))
	}
	if want {
		if v.sanity {
			v.t.Fatalf("vortex/distinct: oracle sanity: tampered object (%s, %s) accepted by the reference verifier although all leaves are distinct", kind, what)
		}
		v.count("tamper_is_honest:"+kind, what)
	}
	v.count("tamper:"+kind, what)
}

// one tree size n (padded by the library to P = next power of two)
func (v *vx) size(n int, allIdx bool, k, nsh int) {
	leaves := vLeaves(v.flav, n)
	P := 1
	for P < n {
		P *= 2
	}
	padded := make([]vortex.Hash, P)            // documented: padded with zero hashes
	v.sanity = v.flav == "distinct" && P-n <= 1 // two or more padding leaves are equal leaves
	copy(padded, leaves)
	// The leaves are handed over twice: as a slice of exactly n elements, and as the window pool[3:3+n] of a
	// larger caller buffer whose other elements (in front of the window and behind it, in its spare capacity)
	// hold non-zero foreign hashes. Both must give the documented zero-padded tree, and the call must leave
	// the whole buffer as it was.
	wantRoot := ref.CompleteRoot(padded, vortex.CompressPoseidon2)
	exact := make([]vortex.Hash, n)
	copy(exact, leaves)
	if r := vortex.BuildMerkleTree(exact).Root(); r != wantRoot {
		v.t.Fatalf("vortex/%s n=%d (slice without spare capacity): Root = %s, reference root over %d padded leaves = %s", v.flav, n, hstr(r), P, hstr(wantRoot))
	}
	pool := make([]vortex.Hash, 3+2*P+5)
	for j := range pool {
		pool[j] = vHash("foreign", 5000+j)
	}
	copy(pool[3:], leaves)
	snapshot := append([]vortex.Hash{}, pool...)
	mt := vortex.BuildMerkleTree(pool[3 : 3+n])
	for j := range pool {
		if pool[j] != snapshot[j] {
			v.t.Fatalf("vortex/%s n=%d: BuildMerkleTree modified element %d of the caller's buffer (the leaves are the window [3,%d))", v.flav, n, j, 3+n)
		}
	}
	v.count("input:slice_with_dirty_spare_capacity", fmt.Sprintf("BuildMerkleTree n=%d window of %d", n, len(pool)))
	root := mt.Root()
	if root != wantRoot {
		v.t.Fatalf("vortex/%s n=%d (window of a larger populated buffer): Root = %s, reference root over %d padded leaves = %s", v.flav, n, hstr(root), P, hstr(wantRoot))
	}
	if d := mt.Depth(); 1<<d != P {
		v.t.Fatalf("vortex n=%d: Depth() = %d", n, d)
	}
	// documented: Open returns an error when the index is out of range
	for _, bad := range []int{P, P + 1, 2 * P, math.MaxInt, -1, -P, math.MinInt} {
		func() {
			defer func() {
				if r := recover(); r != nil {
					v.t.Fatalf("vortex n=%d: Open(%d) panicked instead of returning the documented out-of-range error: %v", n, bad, r)
				}
			}()
			if _, err := mt.Open(bad); err == nil {
				v.t.Fatalf("vortex n=%d: Open(%d) returned no error on a tree with %d leaves", n, bad, P)
			}
		}()
		v.count("refusal:open_out_of_range", fmt.Sprintf("n=%d index=%d", n, bad))
	}
	for i := 0; i < P; i++ {
		if i%nsh != k {
			continue
		}
		what := fmt.Sprintf("n=%d i=%d", n, i)
		proof, err := mt.Open(i)
		if err != nil {
			v.t.Fatalf("vortex %s: Open: %v", what, err)
		}
		want := ref.CompletePath(padded, i, vortex.CompressPoseidon2)
		if len(proof) != len(want) {
			v.t.Fatalf("vortex %s: proof has %d hashes, want %d", what, len(proof), len(want))
		}
		for j := range want {
			if proof[j] != want[j] {
				v.t.Fatalf("vortex %s: proof[%d] = %s, reference sibling %s", what, j, hstr(proof[j]), hstr(want[j]))
			}
		}
		leaf := padded[i]
		if !v.verify(proof, i, leaf, root) {
			v.t.Fatalf("vortex %s: honest proof does not verify", what)
		}
		if !ref.CompleteVerify(root, leaf, i, P, []vortex.Hash(proof), vortex.CompressPoseidon2) {
			v.t.Fatalf("harness: reference verifier rejects the reference path (%s)", what)
		}
		switch {
		case i >= n:
			v.count("build:open_padding_leaf", what)
		case n != P:
			v.count("build:padded_tree", what)
		default:
			v.count("trivial:build:pow2", what)
		}
		// --- tampering ---
		pr := []vortex.Hash(proof)
		for c := 0; c < 8; c++ {
			v.agree("root", pr, i, P, leaf, bump(root, c), fmt.Sprintf("%s coordinate %d", what, c))
			v.agree("leaf", pr, i, P, bump(leaf, c), root, fmt.Sprintf("%s coordinate %d", what, c))
		}
		for j := range pr {
			for _, c := range []int{j % 8, (j + 5) % 8} {
				q := append([]vortex.Hash{}, pr...)
				q[j] = bump(q[j], c)
				v.agree("sibling", q, i, P, leaf, root, fmt.Sprintf("%s sibling %d coordinate %d", what, j, c))
			}
		}
		if allIdx {
			for j := 0; j < P; j++ {
				if j != i {
					v.agree("index", pr, j, P, leaf, root, fmt.Sprintf("%s i'=%d", what, j))
				}
			}
		} else {
			seen := map[int]bool{i: true}
			cand := []int{0, P - 1, i + 1, i - 1, n - 1, n}
			for b := 0; 1<<b < P; b++ {
				cand = append(cand, i^(1<<b))
			}
			for _, j := range cand {
				if j >= 0 && j < P && !seen[j] {
					seen[j] = true
					v.agree("index_subset", pr, j, P, leaf, root, fmt.Sprintf("%s i'=%d", what, j))
				}
			}
		}
		for j := range pr {
			q := append(append([]vortex.Hash{}, pr[:j]...), pr[j+1:]...)
			v.agree("shortened", q, i, P, leaf, root, fmt.Sprintf("%s without sibling %d", what, j))
		}
		var zero vortex.Hash
		ext := [][]vortex.Hash{
			append(append([]vortex.Hash{}, pr...), zero),
			append(append([]vortex.Hash{}, pr...), root),
			append([]vortex.Hash{leaf}, pr...),
		}
		if len(pr) > 0 {
			ext = append(ext, append(append([]vortex.Hash{}, pr...), pr[len(pr)-1]))
		}
		for e, q := range ext {
			v.agree("extended", q, i, P, leaf, root, fmt.Sprintf("%s variant %d", what, e))
		}
		// indices outside [0, P): same low bits, negative, shifted, extreme
		oob := []int{P, P + 1, i + P, i + 2*P, i + 3*P, i - P, i - 2*P, -1, -i - 1, i | 1<<40, i + P<<20, math.MaxInt, math.MinInt, math.MinInt + i}
		for s := 1; s <= 3; s++ {
			oob = append(oob, i<<uint(s))
		}
		seen := map[int]bool{}
		for _, j := range oob {
			if j >= 0 && j < P || seen[j] {
				continue
			}
			seen[j] = true
			v.agree("index_out_of_range", pr, j, P, leaf, root, fmt.Sprintf("%s i'=%d", what, j))
		}
	}
}

// TestC16_Vortex: every power-of-two size up to 2^9 (every i, every i' as tampered index), every size
// 1..40 (padded trees), duplicate-leaf flavours.
func TestC16_Vortex(t *testing.T) {
	k, nsh := shard()
	test := "C16_Vortex"
	maxLog := rep.EnvInt("VERIF_C16_VLOG", rep.Scale(9, 10))
	maxPad := rep.Scale(40, 130)
	for _, flav := range []string{"distinct", "period2", "allequal", "oneodd", "zero"} {
		v := &vx{t: t, flav: flav, cnt: counter{}, sample: map[string]string{}}
		for d := 0; d <= maxLog; d++ {
			if flav != "distinct" && d > 6 {
				break
			}
			v.size(1<<d, true, k, nsh)
		}
		if flav == "distinct" {
			// levels of >= 512 nodes are hashed by parallel workers: cross the threshold in every tier
			for _, n := range []int{600, 1024, 1025, 2048} {
				if n > 1<<maxLog {
					v.size(n, false, k, nsh)
				}
			}
		}
		if flav == "distinct" || flav == "period2" {
			for n := 1; n <= maxPad; n++ {
				if n&(n-1) != 0 {
					v.size(n, n <= 20, k, nsh)
				}
			}
		}
		for c, n := range v.cnt {
			nt := n
			if strings.HasPrefix(c, "trivial:") {
				nt = 0
			}
			name := "vortex/" + flav + "/" + c
			if strings.HasPrefix(c, "input:") {
				name = c // cross-cutting class declared mandatory in conf/c16.py
			}
			rep.Count(test, name, n, nt, v.sample[c])
		}
	}
	rep.Exhaustive(test)
	rep.Note(test, fmt.Sprintf("vortex: all sizes 2^0..2^%d, every i, every i' as tampered index; all non-power-of-two sizes up to %d against the documented zero-hash padding; sharded %d-way by i", maxLog, maxPad, nsh))
}
