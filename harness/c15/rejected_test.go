package c15

import (
	"bytes"
	"fmt"
	"math/big"
	"testing"

	"pgregory.net/rapid"

	fiatshamir "github.com/consensys/gnark-crypto/fiat-shamir"

	"verif/harness/internal/ref"
	"verif/harness/internal/rep"
)

// badValue draws a value that MiMC (bn254) refuses: a 32-byte block >= q, or a length > 32 that is not
// a multiple of 32 (read from the documented Write contract; MiMC itself is decided by C14).
func badValue(t *rapid.T, label string) ([]byte, string) {
	switch rapid.IntRange(0, 2).Draw(t, label+"bad") {
	case 0:
		out := make([]byte, 32)
		new(big.Int).Add(frQ, big.NewInt(int64(rapid.IntRange(0, 3).Draw(t, label+"d")))).FillBytes(out)
		return out, "bad:block>=q"
	case 1:
		out := bytes.Repeat([]byte{0xff}, 32)
		return out, "bad:block=ff"
	default:
		v := append(block(t, label), rapid.SliceOfN(rapid.Byte(), 1, 31).Draw(t, label+"tail")...)
		return v, "bad:len_not_multiple"
	}
}

// TestC15_RejectedBinding: "each computed challenge equals the hash of its name, the previous challenge
// and the values bound to it". A value the hash refuses has no hash, so a challenge that has such a value
// among its bindings — at ANY position, not only the last — cannot be computed: ComputeChallenge must
// return an error (and keep doing so), never a value that silently ignores the binding; challenges
// computed before it are unaffected and later ones stay blocked.
func TestC15_RejectedBinding(t *testing.T) {
	h := hashes[1] // mimc
	rapid.Check(t, func(t *rapid.T) {
		k := rapid.IntRange(1, 3).Draw(t, "k")
		names := []string{"a", "b", "c"}[:k]
		target := rapid.IntRange(0, k-1).Draw(t, "target")
		lib := fiatshamir.NewTranscript(h.lib(), names...)
		mod := ref.NewTranscript(h.model, names...)
		nb := rapid.IntRange(1, 4).Draw(t, "nbBindings")
		badAt := rapid.IntRange(0, nb-1).Draw(t, "badAt")
		var cls string
		// honest bindings on the challenges before the target, then compute them
		for i := 0; i < target; i++ {
			v := block(t, "pre")
			if err := lib.Bind(names[i], v); err != nil {
				t.Fatalf("Bind: %v", err)
			}
			mod.Bind(names[i], v)
			got, err := lib.ComputeChallenge(names[i])
			want, _ := mod.Compute(names[i])
			if err != nil || !bytes.Equal(got, want) {
				t.Fatalf("ComputeChallenge(%q) before the rejected binding: %x, %v; specification %x", names[i], got, err, want)
			}
		}
		var log string
		for j := 0; j < nb; j++ {
			var v []byte
			if j == badAt {
				v, cls = badValue(t, "bv")
			} else {
				v = block(t, "ok")
			}
			log += fmt.Sprintf(" Bind(%q,%x)", names[target], v)
			if err := lib.Bind(names[target], v); err != nil {
				t.Fatalf("Bind: %v", err)
			}
		}
		for try := 0; try < 2; try++ {
			got, err := lib.ComputeChallenge(names[target])
			if err == nil {
				t.Fatalf("ComputeChallenge(%q) returned %x with a nil error although binding %d of %d is a value the hash refuses (%s);%s",
					names[target], got, badAt+1, nb, cls, log)
			}
		}
		if target+1 < k {
			if _, err := lib.ComputeChallenge(names[target+1]); err == nil {
				t.Fatalf("ComputeChallenge(%q) succeeded although its predecessor could not be computed", names[target+1])
			}
		}
		pos := "last"
		if badAt < nb-1 {
			pos = "not_last"
		}
		rep.Case("C15_RejectedBinding", fmt.Sprintf("k=%d target=%d%s", k, target, log), true, cls, "rejected_binding:"+pos)
	})
}
