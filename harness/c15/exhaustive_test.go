package c15

import (
	"fmt"
	"math/big"
	"strings"
	"testing"

	"verif/harness/internal/rep"
)

// Bounded-exhaustive enumeration of call histories.
//
// Transcript: three declared names, one name that is not declared. Two values.
// Alphabet (14 symbols):
//
//	0..7   Bind(name = s/2 in {n0,n1,n2,unknown}, value = s%2)
//	8..11  ComputeChallenge(name = s-8)
//	12     overwrite every buffer handed to Bind so far
//	13     overwrite every slice returned by ComputeChallenge so far
//
// Every history of every length 0..L is executed from a fresh transcript, compared with the model after
// every step, and closed by pair.drain.
const nSym = 14

type exhCfg struct {
	names   []string // 3 declared
	unknown string
	values  [2][]byte
}

var exhSHA = exhCfg{
	names:   []string{"alpha", "beta", "gamma"},
	unknown: "delta",
	values:  [2][]byte{{0x01}, {0x02, 0x03}},
}

// exhField: algebraic hashes. Names shorter than a block (left-padded by Write); values = one canonical
// block (q-1) and a short value.
func exhField(h hashKind) exhCfg {
	qm1 := make([]byte, h.block)
	new(big.Int).Sub(h.q, big.NewInt(1)).FillBytes(qm1)
	return exhCfg{
		names:   []string{"a", "b", "c"},
		unknown: "d",
		values:  [2][]byte{qm1, {0x07, 0x08, 0x09}},
	}
}

func (c exhCfg) name(i int) string {
	if i < len(c.names) {
		return c.names[i]
	}
	return c.unknown
}

func (c exhCfg) symString(s int) string {
	switch {
	case s < 8:
		return fmt.Sprintf("Bind(%s,v%d)", c.name(s/2), s%2)
	case s < 12:
		return fmt.Sprintf("Compute(%s)", c.name(s-8))
	case s == 12:
		return "MutateBound"
	default:
		return "MutateReturned"
	}
}

func (c exhCfg) describe(l int, idx int64) string {
	var parts []string
	for j := 0; j < l; j++ {
		parts = append(parts, c.symString(int(idx%nSym)))
		idx /= nSym
	}
	return strings.Join(parts, "; ")
}

// runHistory executes history idx of length l (symbols = base-14 digits, least significant first).
func runHistory(h hashKind, c exhCfg, l int, idx int64) (ev int, err error) {
	p := newPair(h, c.names)
	for j := 0; j < l; j++ {
		s := int(idx % nSym)
		idx /= nSym
		var e error
		switch {
		case s < 8:
			e = p.bind(c.name(s/2), c.values[s%2])
		case s < 12:
			e = p.compute(c.name(s - 8))
		case s == 12:
			p.mutBound()
		default:
			p.mutRet()
		}
		if e != nil {
			return p.ev, fmt.Errorf("step %d: %w", j+1, e)
		}
	}
	if e := p.drain(); e != nil {
		return p.ev, e
	}
	return p.ev, nil
}

func exhaustive(t *testing.T, h hashKind, c exhCfg, maxLen int) {
	test := "C15_Exhaustive/" + h.name
	k, n := shard()
	var count [evAll + 1]int64
	var first [evAll + 1]string
	var total int64
	pow := int64(1)
	for l := 0; l <= maxLen; l++ {
		for idx := int64(k); idx < pow; idx += int64(n) {
			ev, err := runHistory(h, c, l, idx)
			if err != nil {
				t.Fatalf("%s: names=%q unknown=%q v0=%x v1=%x\nhistory: %s\n%v", h.name, c.names, c.unknown, c.values[0], c.values[1], c.describe(l, idx), err)
			}
			if count[ev] == 0 {
				first[ev] = c.describe(l, idx)
			}
			count[ev]++
			total++
		}
		pow *= nSym
	}
	for ev, cnt := range count {
		if cnt == 0 {
			continue
		}
		nt := cnt
		if ev == 0 {
			nt = 0
		}
		// every enumerated history is distinct by construction
		rep.Count(test, h.name+":"+evString(ev), cnt, nt, first[ev])
	}
	// one marker per shard so that the digest-size class of this hash shows up for the enumeration, too
	rep.Count(test, h.digestClass(), 1, 0, fmt.Sprintf("%s (%d-byte digest): histories to length %d", h.name, h.digest, maxLen))
	rep.Exhaustive(test)
	rep.Note(test, fmt.Sprintf("%s: all histories of length 0..%d over the 14-symbol alphabet (3 declared names + 1 undeclared, 2 values, 2 mutation events = append to + overwrite every bound / every returned slice), each closed by 3 rounds of compute-all + mutate-all; sharded %d-way by history index", h.name, maxLen, n))
	t.Logf("shard %d/%d: %d histories, max length %d", k, n, total, maxLen)
}

func TestC15_Exhaustive(t *testing.T) {
	for _, h := range hashes {
		if !selected(h.name) {
			continue
		}
		h := h
		t.Run(h.name, func(t *testing.T) {
			// depth: SHA-256 6 (thorough 7), MiMC/bn254 4 (5); the other members of the hash family (digest sizes
			// 20..64 bytes) get a shorter depth: byte-stream hashes 4 (5), algebraic hashes 3 (4)
			cfg, depth := exhSHA, rep.Scale(4, 5)
			if h.field() {
				cfg, depth = exhField(h), rep.Scale(3, 4)
			}
			switch h.name {
			case "sha256":
				depth = rep.EnvInt("VERIF_C15_LEN", rep.Scale(6, 7))
			case "mimc":
				depth = rep.EnvInt("VERIF_C15_LEN_MIMC", rep.Scale(4, 5))
			default:
				depth = rep.EnvInt("VERIF_C15_LEN_MORE", depth)
			}
			exhaustive(t, h, cfg, depth)
		})
	}
}
