// Package c15: the Fiat–Shamir transcript obeys its sequential specification on every call history.
//
// The library transcript (fiat-shamir.Transcript) is driven in lock step with ref.Transcript (the
// specification written as a small state machine over a black-box hash) and every observation — error
// or not, returned bytes — is compared after every step. Caller-side mutation of slices handed in
// (Bind) or out (ComputeChallenge) is part of the alphabet: the model is never told about it, so any
// aliasing shows up as a divergence in a present or future challenge.
package c15

import (
	"bytes"
	"crypto/sha256"
	"fmt"
	"hash"
	"os"
	"regexp"
	"strconv"
	"strings"
	"testing"

	"github.com/consensys/gnark-crypto/ecc/bn254/fr/mimc"
	fiatshamir "github.com/consensys/gnark-crypto/fiat-shamir"

	"verif/harness/internal/ref"
	"verif/harness/internal/rep"
)

func TestMain(m *testing.M) { rep.Main(m) }

// ---- hashes ------------------------------------------------------------------------------------

type hashKind struct {
	name  string
	lib   func() hash.Hash // instance handed to the library transcript
	model ref.ChunkHash    // black-box hash of the model (fresh state per call)
}

// mimcChunks feeds each chunk with its own Write into a *fresh* MiMC instance. MiMC itself is decided by
// C14; here it is a black box. The chunks are always ones MiMC accepts (empty, shorter than a block, or
// whole canonical blocks) — anything else is a harness bug, hence the panic.
func mimcChunks(chunks [][]byte) []byte {
	h := mimc.NewMiMC()
	for _, c := range chunks {
		if _, err := h.Write(c); err != nil {
			panic("harness: the model was fed a chunk MiMC refuses: " + err.Error())
		}
	}
	return h.Sum(nil)
}

var hashes = []hashKind{
	{"sha256", func() hash.Hash { return sha256.New() }, ref.SHA256Chunks},
	{"mimc", func() hash.Hash { return mimc.NewMiMC() }, mimcChunks},
}

func selected(name string) bool {
	p := os.Getenv("VERIF_INST")
	if p == "" {
		return true
	}
	ok, _ := regexp.MatchString(p, name)
	return ok
}

// shard returns (k, n) from VERIF_SHARD=k/n (default 0/1).
func shard() (int, int) {
	s := os.Getenv("VERIF_SHARD")
	if i := strings.IndexByte(s, '/'); i > 0 {
		k, e1 := strconv.Atoi(s[:i])
		n, e2 := strconv.Atoi(s[i+1:])
		if e1 == nil && e2 == nil && n > 0 && k >= 0 && k < n {
			return k, n
		}
	}
	return 0, 1
}

// ---- lock-step pair ----------------------------------------------------------------------------

// event kinds observed in a history (bit flags)
const (
	evBindUnknown    = 1 << iota // BU: Bind to a name that was not declared
	evBindComputed               // BC: Bind to an already computed challenge
	evComputeUnknown             // CU: ComputeChallenge of a name that was not declared
	evComputeOrder               // CO: ComputeChallenge before its predecessor
	evRecompute                  // RC: ComputeChallenge of an already computed challenge
	evMutation                   // MU: caller-side mutation of >=1 non-empty bound or returned slice
	evAll            = 1<<iota - 1
)

var evNames = []string{"BU", "BC", "CU", "CO", "RC", "MU"}

func evString(m int) string {
	if m == 0 {
		return "legal_plain"
	}
	var s []string
	for i, n := range evNames {
		if m&(1<<i) != 0 {
			s = append(s, n)
		}
	}
	return strings.Join(s, "+")
}

type pair struct {
	lib   *fiatshamir.Transcript
	mod   *ref.Transcript
	names []string
	bound [][]byte // caller-owned buffers that were handed to Bind (whole backing buffers)
	ret   [][]byte // slices returned by successful ComputeChallenge calls
	ev    int
}

func newPair(h hashKind, names []string) *pair {
	return &pair{
		lib:   fiatshamir.NewTranscript(h.lib(), names...),
		mod:   ref.NewTranscript(h.model, names...),
		names: names,
	}
}

// bindBuf hands buf[lo:hi] to the library (the model gets its own copy); the whole buffer stays with the
// caller and is the target of later mutation events.
func (p *pair) bindBuf(name string, buf []byte, lo, hi int) error {
	v := buf[lo:hi]
	want := append([]byte(nil), v...)
	merr := p.mod.Bind(name, want)
	lerr := p.lib.Bind(name, v)
	p.bound = append(p.bound, buf)
	if !bytes.Equal(v, want) {
		return fmt.Errorf("Bind(%q, %x) modified the caller's slice: now %x", name, want, v)
	}
	switch merr {
	case ref.ErrTranscriptUnknown:
		p.ev |= evBindUnknown
	case ref.ErrTranscriptComputed:
		p.ev |= evBindComputed
	}
	if (lerr != nil) != (merr != nil) {
		return fmt.Errorf("Bind(%q, %x): library error = %v, specification = %v", name, want, lerr, merr)
	}
	return nil
}

func (p *pair) bind(name string, v []byte) error {
	buf := append([]byte(nil), v...)
	return p.bindBuf(name, buf, 0, len(buf))
}

func (p *pair) compute(name string) error {
	pos := -1
	for i, n := range p.names {
		if n == name {
			pos = i
		}
	}
	if pos >= 0 && p.mod.Computed(pos) {
		p.ev |= evRecompute
	}
	want, merr := p.mod.Compute(name)
	got, lerr := p.lib.ComputeChallenge(name)
	switch merr {
	case ref.ErrTranscriptUnknown:
		p.ev |= evComputeUnknown
	case ref.ErrTranscriptOrder:
		p.ev |= evComputeOrder
	}
	if (lerr != nil) != (merr != nil) {
		return fmt.Errorf("ComputeChallenge(%q): library error = %v, specification = %v", name, lerr, merr)
	}
	if merr != nil {
		return nil
	}
	if !bytes.Equal(got, want) {
		return fmt.Errorf("ComputeChallenge(%q) = %x, specification says %x", name, got, want)
	}
	p.ret = append(p.ret, got)
	return nil
}

func flip(bufs [][]byte, mask byte) bool {
	any := false
	for _, b := range bufs {
		for i := range b {
			b[i] ^= mask
			any = true
		}
	}
	return any
}

// mutBound overwrites every buffer that was ever handed to Bind.
func (p *pair) mutBound() {
	if flip(p.bound, 0xA5) {
		p.ev |= evMutation
	}
}

// mutRet overwrites every slice that ComputeChallenge ever returned.
func (p *pair) mutRet() {
	if flip(p.ret, 0x5A) {
		p.ev |= evMutation
	}
}

// drain is the fixed suffix run after every history: it makes the complete remaining state observable
// (all bindings of uncomputed challenges, all cached values) and re-observes it across two more rounds of
// caller-side mutation. The events of the suffix are not counted in the history's class.
func (p *pair) drain() error {
	ev := p.ev
	defer func() { p.ev = ev }()
	for round := 0; round < 3; round++ {
		for _, n := range p.names {
			if err := p.compute(n); err != nil {
				return fmt.Errorf("closing round %d: %w", round, err)
			}
		}
		p.mutBound()
		p.mutRet()
	}
	return nil
}
