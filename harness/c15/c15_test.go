// Package c15: the Fiat–Shamir transcript obeys its sequential specification on every call history.
//
// The library transcript (fiat-shamir.Transcript) is driven in lock step with ref.Transcript (the
// specification written as a small state machine over a black-box hash) and every observation — error
// or not, returned bytes — is compared after every step. Caller-side mutation of slices handed in
// (Bind) or out (ComputeChallenge) is part of the alphabet: the model is never told about it, so any
// aliasing shows up as a divergence in a present or future challenge.
package c15

import (
	"bytes"
	"crypto/sha1"
	"crypto/sha256"
	"crypto/sha512"
	"fmt"
	"hash"
	"math/big"
	"os"
	"regexp"
	"strconv"
	"strings"
	"testing"

	fr377 "github.com/consensys/gnark-crypto/ecc/bls12-377/fr"
	mimc377 "github.com/consensys/gnark-crypto/ecc/bls12-377/fr/mimc"
	fr381 "github.com/consensys/gnark-crypto/ecc/bls12-381/fr"
	mimc381 "github.com/consensys/gnark-crypto/ecc/bls12-381/fr/mimc"
	fr315 "github.com/consensys/gnark-crypto/ecc/bls24-315/fr"
	mimc315 "github.com/consensys/gnark-crypto/ecc/bls24-315/fr/mimc"
	fr317 "github.com/consensys/gnark-crypto/ecc/bls24-317/fr"
	mimc317 "github.com/consensys/gnark-crypto/ecc/bls24-317/fr/mimc"
	frbn254 "github.com/consensys/gnark-crypto/ecc/bn254/fr"
	"github.com/consensys/gnark-crypto/ecc/bn254/fr/mimc"
	fr633 "github.com/consensys/gnark-crypto/ecc/bw6-633/fr"
	mimc633 "github.com/consensys/gnark-crypto/ecc/bw6-633/fr/mimc"
	fr761 "github.com/consensys/gnark-crypto/ecc/bw6-761/fr"
	mimc761 "github.com/consensys/gnark-crypto/ecc/bw6-761/fr/mimc"
	frgrumpkin "github.com/consensys/gnark-crypto/ecc/grumpkin/fr"
	mimcgrumpkin "github.com/consensys/gnark-crypto/ecc/grumpkin/fr/mimc"
	fiatshamir "github.com/consensys/gnark-crypto/fiat-shamir"

	"verif/harness/internal/ref"
	"verif/harness/internal/rep"
)

func TestMain(m *testing.M) { rep.Main(m) }

// ---- hashes ------------------------------------------------------------------------------------

type hashKind struct {
	name   string
	lib    func() hash.Hash // instance handed to the library transcript
	model  ref.ChunkHash    // black-box hash of the model (fresh state per call)
	digest int              // digest size in bytes
	block  int              // 0: byte-stream hash; else the block size of an algebraic hash whose Write accepts the
	// empty string, fewer than block bytes (left-padded) or whole canonical blocks
	q *big.Int // modulus of the field of an algebraic hash
}

func (h hashKind) field() bool { return h.block > 0 }

// digestClass is the mandatory coverage class of the hash: the transcript must not assume a digest size.
func (h hashKind) digestClass() string {
	switch {
	case h.digest < 32:
		return "digest:<32"
	case h.digest == 32:
		return "digest:=32"
	}
	return "digest:>32"
}

// fieldChunks feeds each chunk with its own Write into a *fresh* instance of an algebraic hash. The hash
// itself is decided by C14; here it is a black box. The chunks are always ones it accepts (empty, shorter
// than a block, or whole canonical blocks) — anything else is a harness bug, hence the panic.
func fieldChunks(newH func() hash.Hash) ref.ChunkHash {
	return func(chunks [][]byte) []byte {
		h := newH()
		for _, c := range chunks {
			if _, err := h.Write(c); err != nil {
				panic("harness: the model was fed a chunk the hash refuses: " + err.Error())
			}
		}
		return h.Sum(nil)
	}
}

func mimcBn254() hash.Hash  { return mimc.NewMiMC() }
func mimcBls381() hash.Hash { return mimc381.NewMiMC() }
func mimcBw633() hash.Hash  { return mimc633.NewMiMC() }
func mimcBw761() hash.Hash  { return mimc761.NewMiMC() }
func mimcBls377() hash.Hash { return mimc377.NewMiMC() }
func mimcBls315() hash.Hash { return mimc315.NewMiMC() }
func mimcBls317() hash.Hash { return mimc317.NewMiMC() }
func mimcGrump() hash.Hash  { return mimcgrumpkin.NewMiMC() }

var mimcChunks = fieldChunks(mimcBn254)

// hashes[0] is SHA-256 and hashes[1] MiMC over bn254 (other files index them); the rest spans digest sizes
// 20..64 bytes: a transcript must work with any hash.Hash.
var hashes = []hashKind{
	{"sha256", sha256.New, ref.SHA256Chunks, 32, 0, nil},
	{"mimc", mimcBn254, mimcChunks, 32, mimc.BlockSize, frbn254.Modulus()},
	{"sha1", sha1.New, ref.StdChunks(sha1.New), 20, 0, nil},
	{"sha224", sha256.New224, ref.StdChunks(sha256.New224), 28, 0, nil},
	{"sha384", sha512.New384, ref.StdChunks(sha512.New384), 48, 0, nil},
	{"sha512", sha512.New, ref.StdChunks(sha512.New), 64, 0, nil},
	{"mimc_bls12381", mimcBls381, fieldChunks(mimcBls381), 32, mimc381.BlockSize, fr381.Modulus()},
	{"mimc_bw6633", mimcBw633, fieldChunks(mimcBw633), 40, mimc633.BlockSize, fr633.Modulus()},
	{"mimc_bw6761", mimcBw761, fieldChunks(mimcBw761), 48, mimc761.BlockSize, fr761.Modulus()},
	// every other curve's fr/mimc (generated from one template, but each package is its own code)
	{"mimc_bls12377", mimcBls377, fieldChunks(mimcBls377), 32, mimc377.BlockSize, fr377.Modulus()},
	{"mimc_bls24315", mimcBls315, fieldChunks(mimcBls315), 32, mimc315.BlockSize, fr315.Modulus()},
	{"mimc_bls24317", mimcBls317, fieldChunks(mimcBls317), 32, mimc317.BlockSize, fr317.Modulus()},
	{"mimc_grumpkin", mimcGrump, fieldChunks(mimcGrump), 32, mimcgrumpkin.BlockSize, frgrumpkin.Modulus()},
}

func hashByName(n string) hashKind {
	for _, h := range hashes {
		if h.name == n {
			return h
		}
	}
	panic("unknown hash " + n)
}

func selected(name string) bool {
	p := os.Getenv("VERIF_INST")
	if p == "" {
		return true
	}
	ok, _ := regexp.MatchString(p, name)
	return ok
}

// shard returns (k, n) from VERIF_SHARD=k/n (default 0/1).
func shard() (int, int) {
	s := os.Getenv("VERIF_SHARD")
	if i := strings.IndexByte(s, '/'); i > 0 {
		k, e1 := strconv.Atoi(s[:i])
		n, e2 := strconv.Atoi(s[i+1:])
		if e1 == nil && e2 == nil && n > 0 && k >= 0 && k < n {
			return k, n
		}
	}
	return 0, 1
}

// ---- lock-step pair ----------------------------------------------------------------------------

// event kinds observed in a history (bit flags)
const (
	evBindUnknown    = 1 << iota // BU: Bind to a name that was not declared
	evBindComputed               // BC: Bind to an already computed challenge
	evComputeUnknown             // CU: ComputeChallenge of a name that was not declared
	evComputeOrder               // CO: ComputeChallenge before its predecessor
	evRecompute                  // RC: ComputeChallenge of an already computed challenge
	evMutation                   // MU: caller-side mutation (overwrite / append) of >=1 bound or returned slice
	evAll            = 1<<iota - 1
)

var evNames = []string{"BU", "BC", "CU", "CO", "RC", "MU"}

func evString(m int) string {
	if m == 0 {
		return "legal_plain"
	}
	var s []string
	for i, n := range evNames {
		if m&(1<<i) != 0 {
			s = append(s, n)
		}
	}
	return strings.Join(s, "+")
}

// bnd is a caller-owned buffer of which the window buf[lo:hi] was handed to Bind.
type bnd struct {
	buf    []byte
	lo, hi int
}

type pair struct {
	lib   *fiatshamir.Transcript
	mod   *ref.Transcript
	names []string
	bound []bnd    // caller-owned buffers (whole backing buffers) whose window was handed to Bind
	ret   [][]byte // EVERY slice ever returned by a successful ComputeChallenge call (first computation or recomputation)
	snap  [][]byte // what the caller last knew each of them to contain (full capacity), see checkHeld
	retBy []string // the call that returned it
	ev    int
}

// checkHeld: a challenge value the caller holds does not change behind its back. Every slice ever returned
// is compared (over its full capacity) with the snapshot taken when it was returned, resp. after the
// caller's own last modification of it. Called after every Bind and every ComputeChallenge.
func (p *pair) checkHeld(after string) error {
	for i, r := range p.ret {
		if !bytes.Equal(r[:cap(r)], p.snap[i]) {
			return fmt.Errorf("the slice returned earlier by %s (result #%d) changed behind the caller's back during %s: %x -> %x", p.retBy[i], i+1, after, p.snap[i][:len(r)], r)
		}
	}
	return nil
}

func (p *pair) resnap() {
	for i, r := range p.ret {
		p.snap[i] = append(p.snap[i][:0], r[:cap(r)]...)
	}
}

func newPair(h hashKind, names []string) *pair {
	return &pair{
		lib:   fiatshamir.NewTranscript(h.lib(), names...),
		mod:   ref.NewTranscript(h.model, names...),
		names: names,
	}
}

// bindBuf hands buf[lo:hi] to the library (the model gets its own copy); the whole buffer stays with the
// caller and is the target of later mutation events.
func (p *pair) bindBuf(name string, buf []byte, lo, hi int) error {
	v := buf[lo:hi]
	want := append([]byte(nil), v...)
	before := append([]byte(nil), buf...)
	merr := p.mod.Bind(name, want)
	lerr := p.lib.Bind(name, v)
	p.bound = append(p.bound, bnd{buf, lo, hi})
	if err := p.checkHeld(fmt.Sprintf("Bind(%q)", name)); err != nil {
		return err
	}
	if !bytes.Equal(buf, before) {
		return fmt.Errorf("Bind(%q, %x) modified the caller's buffer (the value or the bytes around it / its spare capacity): %x -> %x", name, want, before, buf)
	}
	switch merr {
	case ref.ErrTranscriptUnknown:
		p.ev |= evBindUnknown
	case ref.ErrTranscriptComputed:
		p.ev |= evBindComputed
	}
	if (lerr != nil) != (merr != nil) {
		return fmt.Errorf("Bind(%q, %x): library error = %v, specification = %v", name, want, lerr, merr)
	}
	return nil
}

// bind hands v over as a window of a larger caller buffer (2 bytes in front, spare capacity behind).
func (p *pair) bind(name string, v []byte) error {
	buf := make([]byte, 2+len(v)+len(v)+3)
	for i := range buf {
		buf[i] = 0xEE
	}
	copy(buf[2:], v)
	return p.bindBuf(name, buf, 2, 2+len(v))
}

func (p *pair) compute(name string) error {
	pos := -1
	for i, n := range p.names {
		if n == name {
			pos = i
		}
	}
	if pos >= 0 && p.mod.Computed(pos) {
		p.ev |= evRecompute
	}
	want, merr := p.mod.Compute(name)
	got, lerr := p.lib.ComputeChallenge(name)
	switch merr {
	case ref.ErrTranscriptUnknown:
		p.ev |= evComputeUnknown
	case ref.ErrTranscriptOrder:
		p.ev |= evComputeOrder
	}
	if err := p.checkHeld(fmt.Sprintf("ComputeChallenge(%q)", name)); err != nil {
		return err
	}
	if (lerr != nil) != (merr != nil) {
		return fmt.Errorf("ComputeChallenge(%q): library error = %v, specification = %v", name, lerr, merr)
	}
	if merr != nil {
		return nil
	}
	if !bytes.Equal(got, want) {
		return fmt.Errorf("ComputeChallenge(%q) = %x, specification says %x", name, got, want)
	}
	p.ret = append(p.ret, got)
	p.snap = append(p.snap, append([]byte(nil), got[:cap(got)]...))
	p.retBy = append(p.retBy, fmt.Sprintf("ComputeChallenge(%q)", name))
	return nil
}

func flip(b []byte, mask byte) {
	for i := range b {
		b[i] ^= mask
	}
}

// appendTo is what a caller does who treats s as its own slice: it appends 1, len(s) and 2·len(s)+1 bytes
// (each time to s itself, so the appends land in s's spare capacity whenever there is any), and finally
// writes to every byte of the spare capacity directly.
func appendTo(s []byte, junk byte) {
	n := len(s)
	for _, extra := range []int{1, n, 2*n + 1} {
		_ = append(s, bytes.Repeat([]byte{junk}, extra)...)
	}
	full := s[:cap(s)]
	for i := n; i < len(full); i++ {
		full[i] ^= junk
	}
}

// flipBound / appendBound: the caller overwrites in place, resp. appends to, every slice it handed to Bind
// (and the rest of the buffers these slices are windows of).
func (p *pair) flipBound() {
	for _, b := range p.bound {
		flip(b.buf, 0xA5)
	}
	if len(p.bound) > 0 {
		p.ev |= evMutation
	}
}

func (p *pair) appendBound() {
	for _, b := range p.bound {
		appendTo(b.buf[b.lo:b.hi], 0xC3)
	}
	if len(p.bound) > 0 {
		p.ev |= evMutation
	}
}

// flipRet / appendRet: the same for every slice ComputeChallenge returned.
func (p *pair) flipRet() {
	for _, r := range p.ret {
		flip(r, 0x5A)
	}
	p.resnap()
	if len(p.ret) > 0 {
		p.ev |= evMutation
	}
}

func (p *pair) appendRet() {
	for _, r := range p.ret {
		appendTo(r, 0x3C)
	}
	p.resnap()
	if len(p.ret) > 0 {
		p.ev |= evMutation
	}
}

// mutBound: every caller-side mutation of the slices handed to Bind (append, then overwrite).
func (p *pair) mutBound() {
	p.appendBound()
	p.flipBound()
}

// mutRet: every caller-side mutation of the returned challenges (append, then overwrite).
func (p *pair) mutRet() {
	p.appendRet()
	p.flipRet()
}

// drain is the fixed suffix run after every history: it makes the complete remaining state observable
// (all bindings of uncomputed challenges, all cached values) and re-observes it across two more rounds of
// caller-side mutation. The events of the suffix are not counted in the history's class.
func (p *pair) drain() error {
	ev := p.ev
	defer func() { p.ev = ev }()
	for round := 0; round < 3; round++ {
		for _, n := range p.names {
			if err := p.compute(n); err != nil {
				return fmt.Errorf("closing round %d: %w", round, err)
			}
		}
		p.mutBound()
		p.mutRet()
	}
	return nil
}
