package c15

import (
	"bytes"
	"crypto/sha256"
	"testing"

	fiatshamir "github.com/consensys/gnark-crypto/fiat-shamir"

	"verif/harness/internal/rep"
)

// Rapid-free regression tests and anchors of C15.

func sha(parts ...[]byte) []byte {
	d := sha256.Sum256(bytes.Join(parts, nil))
	return d[:]
}

// TestC15_Anchor pins the specification itself (and the model) on a hand-computed history:
// c_a = SHA256("a" ‖ "x" ‖ "y"), c_b = SHA256("b" ‖ c_a ‖ "z"), c_c = SHA256("c" ‖ c_b).
func TestC15_Anchor(t *testing.T) {
	ca := sha([]byte("a"), []byte("x"), []byte("y"))
	cb := sha([]byte("b"), ca, []byte("z"))
	cc := sha([]byte("c"), cb)
	p := newPair(hashes[0], []string{"a", "b", "c"})
	for _, s := range []struct{ n, v string }{{"a", "x"}, {"b", "z"}, {"a", "y"}} {
		if err := p.bind(s.n, []byte(s.v)); err != nil {
			t.Fatal(err)
		}
	}
	for i, want := range [][]byte{ca, cb, cc} {
		name := p.names[i]
		if err := p.compute(name); err != nil {
			t.Fatal(err)
		}
		if got := p.ret[len(p.ret)-1]; !bytes.Equal(got, want) {
			t.Fatalf("challenge %q = %x, hand-computed %x", name, got, want)
		}
	}
	rep.Case("C15_Anchor", "a:x,y b:z c:-", false, "anchor")
}

// TestC15_RegressRecomputeAlias: F23 — ComputeChallenge of an already computed challenge returned the
// transcript's cached slice itself. A caller that modified the returned bytes thereby changed (a) what every
// later recomputation of that challenge returns and (b) the "previous challenge" input of the next challenge.
func TestC15_RegressRecomputeAlias(t *testing.T) {
	tr := fiatshamir.NewTranscript(sha256.New(), "a", "b")
	if err := tr.Bind("a", []byte("x")); err != nil {
		t.Fatal(err)
	}
	ca := sha([]byte("a"), []byte("x"))
	cb := sha([]byte("b"), ca)
	first, err := tr.ComputeChallenge("a")
	if err != nil || !bytes.Equal(first, ca) {
		t.Fatalf("first computation: %x, %v", first, err)
	}
	for i := range first {
		first[i] ^= 0xff // the first returned slice is a private copy already
	}
	second, err := tr.ComputeChallenge("a")
	if err != nil || !bytes.Equal(second, ca) {
		t.Fatalf("recomputation: %x, %v", second, err)
	}
	for i := range second {
		second[i] ^= 0xff // caller-side mutation of a returned challenge
	}
	third, err := tr.ComputeChallenge("a")
	if err != nil {
		t.Fatal(err)
	}
	if !bytes.Equal(third, ca) {
		t.Errorf("present challenge changed by mutating a returned slice: recomputation gives %x, want %x", third, ca)
	}
	for i := range third {
		third[i] = 0
	}
	next, err := tr.ComputeChallenge("b")
	if err != nil {
		t.Fatal(err)
	}
	if !bytes.Equal(next, cb) {
		t.Errorf("future challenge changed by mutating a returned slice: b = %x, want SHA256(\"b\" ‖ c_a) = %x", next, cb)
	}
	rep.Case("C15_Regress", "recompute alias (F23)", true, "regress_recompute_alias")
}
