package c15

import (
	"fmt"
	"testing"

	"verif/harness/internal/rep"
)

// TestC15_Bursts: many bindings per challenge. The bounded-exhaustive enumeration reaches at most 6-7
// bindings in total; storage schemes for the bindings (pre-sized or shared backing arrays, growth at 4, 8,
// 16, 32 elements) only misbehave beyond that. For three challenges, every triple of binding counts from
// {0,1,3,4,5,8,9,16,17,33} (SHA-256; smaller sets for the other hashes of the family) and every interleaving pattern below, each value distinct, bound buffers
// overwritten before the challenges are computed; the usual lock-step comparison and closing rounds.
func TestC15_Bursts(t *testing.T) {
	orders := []string{"a*b*c*", "c*b*a*", "round_robin", "b*a*c*_compute_a_first"}
	for _, h := range hashes {
		if !selected(h.name) {
			continue
		}
		names := []string{"alpha", "beta", "gamma"}
		counts := []int{0, 1, 4, 5, 9, 17}
		switch {
		case h.name == "sha256":
			counts = []int{0, 1, 3, 4, 5, 8, 9, 16, 17, 33}
		case h.field() && h.name != "mimc":
			counts = []int{0, 1, 4, 5, 9}
		}
		test := "C15_Bursts/" + h.name
		var n int64
		for _, ca := range counts {
			for _, cb := range counts {
				for _, cc := range counts {
					for _, order := range orders {
						want := []int{ca, cb, cc}
						p := newPair(h, names)
						what := fmt.Sprintf("%s bindings=%v order=%s", h.name, want, order)
						done := []int{0, 0, 0}
						bind := func(c int) {
							v := []byte{byte(c + 1), byte(done[c] + 1)}
							done[c]++
							if err := p.bind(names[c], v); err != nil {
								t.Fatalf("%s: %v", what, err)
							}
						}
						seq := []int{0, 1, 2}
						switch order {
						case "c*b*a*":
							seq = []int{2, 1, 0}
						case "b*a*c*_compute_a_first":
							seq = []int{1, 0, 2}
						}
						if order == "round_robin" {
							for more := true; more; {
								more = false
								for c := range want {
									if done[c] < want[c] {
										bind(c)
										more = true
									}
								}
							}
						} else {
							for _, c := range seq {
								for done[c] < want[c] {
									bind(c)
								}
								if order == "b*a*c*_compute_a_first" && c == 0 {
									// the first challenge is computed while the others still collect bindings
									if err := p.compute(names[0]); err != nil {
										t.Fatalf("%s: %v", what, err)
									}
								}
							}
						}
						p.mutBound()
						if err := p.drain(); err != nil {
							t.Fatalf("%s: %v", what, err)
						}
						n++
					}
				}
			}
		}
		rep.Count(test, h.digestClass(), 1, 0, h.name)
		rep.Count(test, h.name+":many_bindings", n, n, fmt.Sprintf("%s counts=%v orders=%v", h.name, counts, orders))
		rep.Exhaustive(test)
	}
}
