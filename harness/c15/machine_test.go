package c15

import (
	"fmt"
	"hash"
	"math/big"
	"strings"
	"testing"

	"pgregory.net/rapid"

	"github.com/consensys/gnark-crypto/ecc/bn254/fr/mimc"
	fiatshamir "github.com/consensys/gnark-crypto/fiat-shamir"

	"verif/harness/internal/rep"
)

// bn254 scalar field modulus (ecc/bn254/fr doc comment), needed to build canonical MiMC blocks.
var frQ, _ = new(big.Int).SetString("21888242871839275222246405745257275088548364400416034343698204186575808495617", 10)

// block draws one canonical 32-byte big-endian bn254-fr element, boundary heavy.
func block(t *rapid.T, label string) []byte { return blockOf(t, hashes[1], label) }

// blockOf draws one canonical big-endian block of the field of an algebraic hash, boundary heavy.
func blockOf(t *rapid.T, h hashKind, label string) []byte {
	var v *big.Int
	switch rapid.IntRange(0, 6).Draw(t, label+"cls") {
	case 0:
		v = big.NewInt(0)
	case 1:
		v = big.NewInt(1)
	case 2:
		v = new(big.Int).Sub(h.q, big.NewInt(1))
	case 3:
		v = new(big.Int).Lsh(big.NewInt(1), uint(rapid.IntRange(0, h.q.BitLen()-2).Draw(t, label+"bit")))
	default:
		b := rapid.SliceOfN(rapid.Byte(), h.block, h.block).Draw(t, label+"raw")
		v = new(big.Int).SetBytes(b)
		v.Mod(v, h.q)
	}
	out := make([]byte, h.block)
	v.FillBytes(out)
	return out
}

// drawName draws a challenge name that the hash accepts as its first chunk.
func drawName(t *rapid.T, h hashKind, label string) string {
	if h.field() {
		// MiMC.Write accepts: empty, 1..block-1 bytes (left-padded), whole canonical blocks
		switch rapid.IntRange(0, 4).Draw(t, label+"cls") {
		case 0:
			return ""
		case 1:
			return string(blockOf(t, h, label+"blk"))
		case 2:
			return string(blockOf(t, h, label+"blk0")) + string(blockOf(t, h, label+"blk1"))
		default:
			return string(rapid.SliceOfN(rapid.Byte(), 1, h.block-1).Draw(t, label))
		}
	}
	switch rapid.IntRange(0, 5).Draw(t, label+"cls") {
	case 0:
		return ""
	case 1:
		return rapid.SampledFrom([]string{"alpha", "beta", "gamma", "a", "aa", "ab", "b", "\x00", "a\x00"}).Draw(t, label)
	case 2:
		return rapid.String().Draw(t, label)
	default:
		return string(rapid.SliceOfN(rapid.Byte(), 0, 70).Draw(t, label))
	}
}

// drawValue draws a value the hash accepts as a chunk (any bytes for SHA-256).
func drawValue(t *rapid.T, h hashKind, p *pair, label string) ([]byte, string) {
	if h.field() {
		switch rapid.IntRange(0, 4).Draw(t, label+"cls") {
		case 0:
			return []byte{}, "v_empty"
		case 1:
			return rapid.SliceOfN(rapid.Byte(), 1, h.block-1).Draw(t, label), "v_short"
		case 2:
			return blockOf(t, h, label), "v_block"
		default:
			n := rapid.IntRange(2, 3).Draw(t, label+"n")
			var v []byte
			for i := 0; i < n; i++ {
				v = append(v, blockOf(t, h, label)...)
			}
			return v, "v_blocks"
		}
	}
	switch rapid.IntRange(0, 5).Draw(t, label+"cls") {
	case 0:
		return []byte{}, "v_empty"
	case 1:
		// confusable with other parts of the hash input: a declared name, or an earlier challenge value
		if len(p.ret) > 0 && rapid.Bool().Draw(t, label+"useret") {
			return append([]byte(nil), p.ret[rapid.IntRange(0, len(p.ret)-1).Draw(t, label+"ri")]...), "v_is_challenge"
		}
		return []byte(p.names[rapid.IntRange(0, len(p.names)-1).Draw(t, label+"ni")]), "v_is_name"
	case 2:
		return rapid.SliceOfN(rapid.Byte(), 1, 3).Draw(t, label), "v_tiny"
	default:
		return rapid.SliceOfN(rapid.Byte(), 0, 100).Draw(t, label), "v_bytes"
	}
}

func propMachine(t *rapid.T, h hashKind) {
	k := rapid.IntRange(1, 4).Draw(t, "k")
	var names []string
	seen := map[string]bool{}
	for len(names) < k {
		n := drawName(t, h, "name")
		for ctr := 1; seen[n]; ctr++ {
			// make it distinct constructively (no filtering): for MiMC keep it a valid (short) chunk
			if h.field() {
				n = string([]byte{0x7f, byte(ctr)})
			} else {
				n += "'"
			}
		}
		seen[n] = true
		names = append(names, n)
	}
	// undeclared names: near misses of declared ones
	var unknown []string
	for _, c := range []string{"", "undeclared", names[0] + "x", names[0] + "\x00", names[len(names)-1] + names[0], strings.ToUpper(names[0])} {
		if !seen[c] {
			unknown = append(unknown, c)
		}
	}
	if len(names[0]) > 0 && !seen[names[0][:len(names[0])-1]] {
		unknown = append(unknown, names[0][:len(names[0])-1])
	}
	fresh := "u"
	for seen[fresh] {
		fresh += "u"
	}
	unknown = append(unknown, fresh)

	p := newPair(h, names)
	classes := map[string]bool{h.name: true, h.digestClass(): true, fmt.Sprintf("k=%d", k): true}
	if seen[""] {
		classes["empty_name_declared"] = true
	}
	var log []string
	steps := 0
	fail := func(e error) {
		if e != nil {
			t.Fatalf("%s names=%q\nhistory: %s\n%v", h.name, names, strings.Join(log, "; "), e)
		}
	}
	declared := func(t *rapid.T) string { return names[rapid.IntRange(0, k-1).Draw(t, "which")] }
	bindDrawn := func(t *rapid.T, name string) {
		v, vc := drawValue(t, h, p, "value")
		classes[vc] = true
		// sometimes hand over a sub-slice of a larger caller buffer (spare capacity on both sides)
		lo, extra := 0, 0
		if rapid.IntRange(0, 3).Draw(t, "subslice") == 0 {
			lo, extra = rapid.IntRange(0, 5).Draw(t, "lo"), rapid.IntRange(0, 40).Draw(t, "extra")
			classes["bind_subslice"] = true
		}
		buf := make([]byte, lo+len(v)+extra)
		for i := range buf {
			buf[i] = 0xEE
		}
		copy(buf[lo:], v)
		log = append(log, fmt.Sprintf("Bind(%q,%x)", name, v))
		fail(p.bindBuf(name, buf, lo, lo+len(v)))
	}
	t.Repeat(map[string]func(*rapid.T){
		"bind": func(t *rapid.T) {
			steps++
			bindDrawn(t, declared(t))
		},
		"bind_next": func(t *rapid.T) {
			// bind to the first uncomputed challenge (always legal unless all are computed)
			steps++
			name := names[k-1]
			for i := range names {
				if !p.mod.Computed(i) {
					name = names[i]
					break
				}
			}
			bindDrawn(t, name)
		},
		"bind_burst": func(t *rapid.T) {
			// many bindings to one challenge in a row: crosses the growth points (4, 8, 16, 32) of whatever
			// container holds them
			steps++
			name := declared(t)
			m := rapid.SampledFrom([]int{4, 5, 8, 9, 16, 17, 33}).Draw(t, "burst")
			classes["bind_burst"] = true
			for j := 0; j < m; j++ {
				bindDrawn(t, name)
			}
		},
		"bind_shared_buffer": func(t *rapid.T) {
			// one caller buffer bound twice (possibly to two challenges), mutated later by mut_bound
			steps++
			v, vc := drawValue(t, h, p, "value")
			classes[vc] = true
			classes["bind_shared_buffer"] = true
			buf := append([]byte(nil), v...)
			a, b := declared(t), declared(t)
			log = append(log, fmt.Sprintf("BindShared(%q,%q,%x)", a, b, v))
			fail(p.bindBuf(a, buf, 0, len(buf)))
			fail(p.bindBuf(b, buf, 0, len(buf)))
		},
		"bind_unknown": func(t *rapid.T) {
			steps++
			bindDrawn(t, rapid.SampledFrom(unknown).Draw(t, "unknown"))
		},
		"compute": func(t *rapid.T) {
			steps++
			n := declared(t)
			log = append(log, fmt.Sprintf("Compute(%q)", n))
			fail(p.compute(n))
		},
		"compute_next": func(t *rapid.T) {
			// the first uncomputed challenge: always legal; recompute of the last one when all are computed
			steps++
			n := names[k-1]
			for i := range names {
				if !p.mod.Computed(i) {
					n = names[i]
					break
				}
			}
			log = append(log, fmt.Sprintf("Compute(%q)", n))
			fail(p.compute(n))
		},
		"compute_unknown": func(t *rapid.T) {
			steps++
			n := rapid.SampledFrom(unknown).Draw(t, "unknown")
			log = append(log, fmt.Sprintf("Compute(%q)", n))
			fail(p.compute(n))
		},
		"flip_bound": func(t *rapid.T) {
			steps++
			log = append(log, "OverwriteBound")
			classes["mut:overwrite_bound"] = true
			p.flipBound()
		},
		"append_bound": func(t *rapid.T) {
			// the caller keeps appending to the slices it handed to Bind (1, n, 2n+1 bytes) and writes to their spare capacity
			steps++
			log = append(log, "AppendToBound")
			classes["mut:append_bound"] = true
			p.appendBound()
		},
		"flip_returned": func(t *rapid.T) {
			steps++
			log = append(log, "OverwriteReturned")
			classes["mut:overwrite_returned"] = true
			p.flipRet()
		},
		"append_returned": func(t *rapid.T) {
			// msg := append(challenge, …): 1, n and 2n+1 extra bytes on every returned challenge, plus its spare capacity
			steps++
			log = append(log, "AppendToReturned")
			classes["mut:append_returned"] = true
			p.appendRet()
		},
	})
	allComputed := true
	for i := range names {
		allComputed = allComputed && p.mod.Computed(i)
	}
	if allComputed {
		classes["all_computed_before_closing"] = true
	}
	fail(p.drain())

	for i, n := range evNames {
		if p.ev&(1<<i) != 0 {
			classes[n] = true
		}
	}
	if p.ev == 0 {
		classes["legal_plain"] = true
	}
	switch {
	case steps == 0:
		classes["steps=0"] = true
	case steps <= 8:
		classes["steps=1..8"] = true
	case steps <= 30:
		classes["steps=9..30"] = true
	default:
		classes["steps>30"] = true
	}
	var cl []string
	for c := range classes {
		cl = append(cl, c)
	}
	key := fmt.Sprintf("%s %q %s", h.name, names, strings.Join(log, ";"))
	rep.Case("C15_Machine/"+h.name, key, p.ev != 0, cl...)
}

func TestC15_Machine(t *testing.T) {
	for _, h := range hashes {
		if !selected(h.name) {
			continue
		}
		h := h
		t.Run(h.name, func(t *testing.T) {
			rapid.Check(t, func(t *rapid.T) { propMachine(t, h) })
		})
	}
}

// Duplicate challenge names: NewTranscript neither documents nor refuses them (the later declaration
// silently replaces the earlier one in its map, leaving a position that no name reaches). The sequential
// specification is stated for distinct names only, so nothing but "does not panic, and a recomputation
// returns the same bytes" is asserted for this class.
func TestC15_DuplicateNames(t *testing.T) {
	rep.Note("C15_DuplicateNames", "duplicate names are not documented by NewTranscript: only absence of panics and stability of recomputation are asserted; the empty name is an ordinary map key and is part of the specified domain")
	rapid.Check(t, func(t *rapid.T) {
		pool := []string{"a", "b", ""}
		k := rapid.IntRange(2, 4).Draw(t, "k")
		names := make([]string, k)
		for i := range names {
			names[i] = rapid.SampledFrom(pool).Draw(t, "name")
		}
		names[k-1] = names[rapid.IntRange(0, k-2).Draw(t, "dupOf")] // at least one duplicate
		tr := fiatshamir.NewTranscript(mimcOrSha(rapid.Bool().Draw(t, "mimc")), names...)
		got := map[string][]byte{}
		n := rapid.IntRange(0, 20).Draw(t, "steps")
		var log []string
		for s := 0; s < n; s++ {
			name := rapid.SampledFrom(pool).Draw(t, "on")
			if rapid.Bool().Draw(t, "isBind") {
				v := rapid.SliceOfN(rapid.Byte(), 0, 8).Draw(t, "v")
				_ = tr.Bind(name, v)
				log = append(log, fmt.Sprintf("Bind(%q,%x)", name, v))
				continue
			}
			log = append(log, fmt.Sprintf("Compute(%q)", name))
			c, err := tr.ComputeChallenge(name)
			if err != nil {
				continue
			}
			if prev, ok := got[name]; ok && string(prev) != string(c) {
				t.Fatalf("names=%q history=%v: recomputing %q returned different bytes", names, log, name)
			}
			got[name] = append([]byte(nil), c...)
		}
		rep.Case("C15_DuplicateNames", fmt.Sprintf("%q %v", names, log), true, "dup_names_no_panic")
	})
}

func mimcOrSha(m bool) hash.Hash {
	if m {
		return mimc.NewMiMC()
	}
	return hashes[0].lib()
}
