package c17a

// Glue between the tamper engine, rapid and the scheme oracles.

import (
	"fmt"
	"math/big"
	"reflect"
	"strings"

	"pgregory.net/rapid"

	"verif/harness/internal/reg"
	"verif/harness/internal/rep"
)

// rsrc implements Source with rapid draws; every point it hands out has a known discrete logarithm when
// its input had one.
type rsrc struct {
	c *cv
	t *rapid.T
	n int
}

func (s *rsrc) label(l string) string { s.n++; return fmt.Sprintf("%s%d", l, s.n) }

func (s *rsrc) Scalar(l string) *big.Int { return s.c.spec.Uniform(s.t, s.label(l)) }

func (s *rsrc) Point(g int, k *big.Int) interface{} { return s.c.pt(g, k) }

func (s *rsrc) Shift(g int, p interface{}, k int64) interface{} { return s.c.shift(g, p, k) }

func (s *rsrc) Neg(g int, p interface{}) interface{} { return s.c.neg(g, p) }

func (s *rsrc) Cofactor(g int) interface{} { return s.c.cofactorPoint(g) }

func (s *rsrc) Modulus(k Kind) *big.Int {
	if k == KFr {
		return s.c.r
	}
	return s.c.C.P
}

func (s *rsrc) Bytes(l string, n int) []byte {
	return rapid.SliceOfN(rapid.Byte(), n, n).Draw(s.t, s.label(l))
}

// shift returns *p + [k]G, with its logarithm when that of *p is known.
func (c *cv) shift(g int, p interface{}, k int64) interface{} {
	if l, ok := c.log(g, p); ok && isValidPoint(p) {
		return c.pt(g, new(big.Int).Add(l, bi(k)))
	}
	q := reflect.New(c.ptType(g)).Interface()
	reg.M(q, "Add", p, c.pt(g, bi(k)))
	return q
}

// neg returns -*p, with its logarithm when that of *p is known.
func (c *cv) neg(g int, p interface{}) interface{} {
	q := reflect.New(c.ptType(g)).Interface()
	reg.M(q, "Neg", p)
	if l, ok := c.log(g, p); ok {
		c.setLog(g, q, new(big.Int).Neg(l))
	}
	return q
}

func isValidPoint(p interface{}) bool {
	return reg.Bool(p, "IsOnCurve")
}

// A point counts as a subgroup element for the oracles when the harness built it as a multiple of the generator
// (logarithm known, cv.log). Everything else the harness produces is such a multiple plus T with T of order
// coprime to r, i.e. outside the subgroup.

// ---- the generic tamper loop -----------------------------------------------------------------------

const (
	mustReject = -1
	noAssert   = 0
	mustAccept = 1
)

type tamperRun struct {
	test   string // rep test name
	scheme string
	c      *cv
	honest interface{} // pointer to the honest object (statement + proof, or proof)
	donor  interface{} // another honest object of the same type (different statement), may be nil
	skip   func(path string) bool
	verify func(obj interface{}) error
	// expect decides what a correct verifier must do with the mutated object: mustAccept / mustReject /
	// noAssert, plus a short reason that becomes a class label.
	expect func(obj interface{}, s Site, mut string) (int, string)
	// filter (optional) limits the (site, mutation) pairs.
	filter func(s Site, mut string) bool
	max    int // maximal number of mutations executed per honest object (sampled when more are possible)
	key    string
}

type sitemut struct {
	s   Site
	mut string
}

func runTamper(t *rapid.T, tr tamperRun) {
	sites, skipped := Sites(tr.honest, tr.skip)
	noteSites(tr.test, tr.scheme, sites)
	if len(skipped) > 0 {
		seen := map[string]bool{}
		for _, s := range skipped {
			seen[classPath(s)] = true
		}
		rep.Note(tr.test, tr.scheme+" sub-trees not tampered (not part of the proof/wire object): "+strings.Join(sortedKeys(seen), " "))
	}
	var all []sitemut
	for _, s := range sites {
		for _, m := range mutationsOf[s.Kind] {
			if tr.filter == nil || tr.filter(s, m) {
				all = append(all, sitemut{s, m})
			}
		}
	}
	if tr.max > 0 && len(all) > tr.max {
		// keep a rapid-chosen subset, evenly spread: a random offset and stride
		off := rapid.IntRange(0, len(all)-1).Draw(t, "tamper_off")
		var sub []sitemut
		stride := len(all)/tr.max + 1
		for i := 0; i < len(all) && len(sub) < tr.max; i += stride {
			sub = append(sub, all[(off+i)%len(all)])
		}
		all = sub
	}
	src := &rsrc{c: tr.c, t: t}
	for _, sm := range all {
		obj := DeepCopy(tr.honest)
		a := Apply(obj, sm.s, sm.mut, tr.donor, src)
		cp := classPath(sm.s.Path)
		if !a.OK {
			continue
		}
		want, why := mustAccept, "unchanged"
		if a.Changed {
			want, why = tr.expect(obj, sm.s, sm.mut)
		}
		err, pan := guard(func() error { return tr.verify(obj) })
		key := fmt.Sprintf("%s %s site=%s mut=%s | %s", tr.scheme, tr.c.name, sm.s.Path, sm.mut, tr.key)
		classes := []string{tr.scheme, "curve:" + tr.c.name, "site:" + tr.scheme + cp, "mut:" + sm.mut, "why:" + why}
		if pan != "" {
			lenMut := strings.HasPrefix(sm.mut, "len") || sm.s.Kind == KLen
			if !lenMut || want == mustAccept {
				t.Fatalf("%s: verifier panicked on tampered object (site %s, mutation %s): %s", tr.scheme, sm.s.Path, sm.mut, pan)
			}
			rep.Note(tr.test, fmt.Sprintf("%s: the verifier panics (index out of range) instead of returning an error when the length at %s is tampered; counted as a rejection", tr.scheme, cp))
			rep.Case(tr.test, key, true, append(classes, "verdict:panic")...)
			continue
		}
		switch want {
		case mustReject:
			if err == nil {
				t.Fatalf("%s/%s: FORGERY ACCEPTED: site %s mutation %s (%s) — verifier returned nil for %s", tr.scheme, tr.c.name, sm.s.Path, sm.mut, why, tr.key)
			}
			classes = append(classes, "verdict:rejected")
		case mustAccept:
			if err != nil {
				t.Fatalf("%s/%s: valid proof rejected: site %s mutation %s (%s): %v", tr.scheme, tr.c.name, sm.s.Path, sm.mut, why, err)
			}
			classes = append(classes, "verdict:accepted")
		default:
			if err == nil {
				classes = append(classes, "verdict:unasserted_accepted")
			} else {
				classes = append(classes, "verdict:unasserted_rejected")
			}
		}
		rep.Case(tr.test, key, a.Changed, classes...)
	}
}
