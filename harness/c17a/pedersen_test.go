package c17a

// Pedersen commitments with proofs of knowledge.
//
// Keys are built by the harness from known scalars (so σ is known): Basis[j] = [b_j]G1,
// BasisExpSigma[j] = [σ b_j]G1, vk.G = [h]G2, vk.GSigmaNeg = [s]G2 with s = -σh for an honest key.
// With C = [c]G1 and π = [p]G1 the verifier's pairing equation e(C,GSigmaNeg)·e(π,G) = 1 is the scalar identity
//     c·s + p·h ≡ 0 (mod r)           (honest key: p = σ·c),
// and BatchVerifyMultiVk's equation is  Σ_i ρ^i c_i s_i + h·Σ_j ρ^j p_j ≡ 0  (one p when a folded proof is given).
// These identities, evaluated in math/big, are the oracle — in both directions.

import (
	"fmt"
	"math/big"
	"reflect"
	"testing"

	"pgregory.net/rapid"

	"verif/harness/internal/reg"
	"verif/harness/internal/rep"
)

type pedKey struct {
	b     []*big.Int // basis logarithms
	sigma *big.Int
	h, s  *big.Int // vk.G = [h]G2, vk.GSigmaNeg = [s]G2
	pk    interface{}
	vk    interface{}
}

// pedMakeKey builds a proving/verifying key pair from scalars.
func (c *cv) pedMakeKey(b []*big.Int, sigma, h, s *big.Int) *pedKey {
	k := &pedKey{b: b, sigma: sigma, h: h, s: s}
	bs := make([]*big.Int, len(b))
	for i := range b {
		bs[i] = c.F.Mul(b[i], sigma)
	}
	pk := c.ped.New("ProvingKey")
	reflect.ValueOf(pk).Elem().FieldByName("Basis").Set(c.ptVec(kG1, b))
	reflect.ValueOf(pk).Elem().FieldByName("BasisExpSigma").Set(c.ptVec(kG1, bs))
	vk := c.ped.New("VerifyingKey")
	reflect.ValueOf(vk).Elem().FieldByName("G").Set(reflect.ValueOf(c.pt(kG2, h)).Elem())
	reflect.ValueOf(vk).Elem().FieldByName("GSigmaNeg").Set(reflect.ValueOf(c.pt(kG2, s)).Elem())
	k.pk, k.vk = pk, vk
	return k
}

func (c *cv) inner(a, b []*big.Int) *big.Int {
	acc := new(big.Int)
	for i := range a {
		acc.Add(acc, new(big.Int).Mul(a[i], b[i]))
	}
	return acc.Mod(acc, c.r)
}

func (c *cv) pedVerify(vk interface{}, C, pi interface{}) error {
	return errOf(reg.M(vk, "Verify", C, pi))
}

// pedObj is the object handed to the tamper engine: struct{ C, Pok G1Affine } built with reflect.StructOf.
func (c *cv) pedObjType() reflect.Type {
	return reflect.StructOf([]reflect.StructField{
		{Name: "Commitment", Type: c.g1T},
		{Name: "Pok", Type: c.g1T},
	})
}

func (c *cv) pedBatchObjType() reflect.Type {
	return reflect.StructOf([]reflect.StructField{
		{Name: "Commitments", Type: reflect.SliceOf(c.g1T)},
		{Name: "Poks", Type: reflect.SliceOf(c.g1T)},
		{Name: "CombinationCoeff", Type: c.frT},
	})
}

// pedExpectSingle evaluates the scalar identity for Verify.
func (c *cv) pedExpectSingle(k *pedKey, C, pi interface{}) (int, string) {
	lc, ok1 := c.log(kG1, C)
	lp, ok2 := c.log(kG1, pi)
	if !ok1 || !ok2 {
		return mustReject, "not_in_subgroup"
	}
	v := new(big.Int).Mul(lc, k.s)
	v.Add(v, new(big.Int).Mul(lp, k.h))
	if v.Mod(v, c.r).Sign() == 0 {
		return mustAccept, "relation_holds"
	}
	return mustReject, "relation_fails"
}

// pedExpectBatch evaluates BatchVerifyMultiVk's documented behaviour in the exponent.
func (c *cv) pedExpectBatch(keys []*pedKey, Cs, Ps reflect.Value, rho *big.Int) (int, string) {
	n := len(keys)
	if Cs.Len() != n {
		return mustReject, "commitments_length"
	}
	if Ps.Len() != n && Ps.Len() != 1 {
		return mustReject, "pok_length"
	}
	for i := 1; i < n; i++ {
		if keys[i].h.Cmp(keys[0].h) != 0 {
			return mustReject, "g2_mismatch"
		}
	}
	acc := new(big.Int)
	pw := bi(1)
	for i := 0; i < n; i++ {
		lc, ok := c.log(kG1, Cs.Index(i).Addr().Interface())
		if !ok {
			return mustReject, "not_in_subgroup"
		}
		acc.Add(acc, new(big.Int).Mul(pw, new(big.Int).Mul(lc, keys[i].s)))
		pw = c.F.Mul(pw, rho)
	}
	pw = bi(1)
	for j := 0; j < Ps.Len(); j++ {
		lp, ok := c.log(kG1, Ps.Index(j).Addr().Interface())
		if !ok {
			return mustReject, "not_in_subgroup"
		}
		acc.Add(acc, new(big.Int).Mul(pw, new(big.Int).Mul(lp, keys[0].h)))
		pw = c.F.Mul(pw, rho)
	}
	if acc.Mod(acc, c.r).Sign() == 0 {
		return mustAccept, "relation_holds"
	}
	return mustReject, "relation_fails"
}

func (c *cv) pedBatchVerify(keys []*pedKey, Cs, Ps reflect.Value, rho *big.Int) error {
	vks := reflect.MakeSlice(reflect.SliceOf(c.ped.Types["VerifyingKey"]), len(keys), len(keys))
	for i, k := range keys {
		vks.Index(i).Set(reflect.ValueOf(k.vk).Elem())
	}
	return errOf(c.ped.F("BatchVerifyMultiVk", vks.Interface(), Cs.Interface(), Ps.Interface(), c.fe(rho)))
}

type pedInstance struct {
	keys   []*pedKey
	values [][]*big.Int
	cLog   []*big.Int
	C, Pi  []interface{}
}

// pedDraw draws keys (n bases, sizes 1..maxM, shared h, independent σ_i unless sameSigma) and values,
// commits and proves with the library and checks both against the prediction in the exponent.
func (c *cv) pedDraw(t *rapid.T, test, tag string, n, maxM int, sameSigma bool) *pedInstance {
	h := c.drawNonZero(t, tag+"h")
	in := &pedInstance{}
	var sigma0 *big.Int
	for i := 0; i < n; i++ {
		m := rapid.IntRange(1, maxM).Draw(t, fmt.Sprintf("%sm%d", tag, i))
		b := make([]*big.Int, m)
		v := make([]*big.Int, m)
		for j := range b {
			b[j] = c.drawNonZero(t, fmt.Sprintf("%sb%d_%d", tag, i, j))
			v[j] = c.drawScalar(t, fmt.Sprintf("%sv%d_%d", tag, i, j))
		}
		sigma := c.drawNonZero(t, fmt.Sprintf("%ssigma%d", tag, i))
		if sameSigma {
			if i == 0 {
				sigma0 = sigma
			}
			sigma = sigma0
		}
		k := c.pedMakeKey(b, sigma, h, c.F.Neg(c.F.Mul(sigma, h)))
		in.keys = append(in.keys, k)
		in.values = append(in.values, v)
		// honest commitment and proof of knowledge
		res := reg.M(k.pk, "Commit", c.feVec(v).Interface())
		if err := errOf(res); err != nil {
			t.Fatalf("pedersen/%s: Commit failed: %v", c.name, err)
		}
		C := ptrOf(res[0])
		res = reg.M(k.pk, "ProveKnowledge", c.feVec(v).Interface())
		if err := errOf(res); err != nil {
			t.Fatalf("pedersen/%s: ProveKnowledge failed: %v", c.name, err)
		}
		P := ptrOf(res[0])
		cl := c.inner(v, b)
		if !ptEqual(C, c.pt(kG1, cl)) {
			t.Fatalf("pedersen/%s: Commit(values) != [Σ v_j b_j]G1 (basis logs %v, values %v)", c.name, b, v)
		}
		if !ptEqual(P, c.pt(kG1, c.F.Mul(cl, sigma))) {
			t.Fatalf("pedersen/%s: ProveKnowledge(values) != [σ·c]G1", c.name)
		}
		in.cLog = append(in.cLog, cl)
		in.C = append(in.C, C)
		in.Pi = append(in.Pi, P)
	}
	return in
}

func ptrOf(v interface{}) interface{} {
	rv := reflect.ValueOf(v)
	p := reflect.New(rv.Type())
	p.Elem().Set(rv)
	return p.Interface()
}

// propPedersenSingle: completeness, reflective tampering of (commitment, pok), accept ⇔ relation for
// arbitrary subgroup elements and arbitrary (also dishonest) verifying keys.
func propPedersenSingle(t *rapid.T, c *cv) {
	test := "C17a_Pedersen/" + c.name
	in := c.pedDraw(t, test, "a", 1, rep.Scale(5, 12), false)
	don := c.pedDraw(t, test, "d", 1, 3, false)
	k := in.keys[0]
	m := len(k.b)
	key := fmt.Sprintf("%s m=%d sigma=%s h=%s c=%s", c.name, m, k.sigma.Text(16), k.h.Text(16), in.cLog[0].Text(16))

	// (1) completeness
	if err := c.pedVerify(k.vk, in.C[0], in.Pi[0]); err != nil {
		t.Fatalf("pedersen/%s: honest proof rejected (%s): %v", c.name, key, err)
	}
	rep.Case(test, "honest "+key, m == 1 || m&(m-1) != 0, "pedersen", "curve:"+c.name, "honest", fmt.Sprintf("basis_size:%d", m))

	// (2) reflective tampering
	mk := func(in *pedInstance) interface{} {
		o := reflect.New(c.pedObjType())
		o.Elem().Field(0).Set(reflect.ValueOf(in.C[0]).Elem())
		o.Elem().Field(1).Set(reflect.ValueOf(in.Pi[0]).Elem())
		return o.Interface()
	}
	runTamper(t, tamperRun{
		test: test, scheme: "pedersen", c: c, honest: mk(in), donor: mk(don), key: key,
		verify: func(o interface{}) error {
			v := reflect.ValueOf(o).Elem()
			return c.pedVerify(k.vk, v.Field(0).Addr().Interface(), v.Field(1).Addr().Interface())
		},
		expect: func(o interface{}, s Site, mut string) (int, string) {
			v := reflect.ValueOf(o).Elem()
			return c.pedExpectSingle(k, v.Field(0).Addr().Interface(), v.Field(1).Addr().Interface())
		},
	})

	// (3) accept ⇔ relation on arbitrary subgroup elements; the key may be dishonest as well
	//     (GSigmaNeg = [s]G2 for any s): e(C,[s]G2)·e(π,[h]G2) = 1 ⇔ c·s + p·h = 0.
	for round := 0; round < 6; round++ {
		kk := k
		keyKind := "honest_key"
		if rapid.IntRange(0, 3).Draw(t, fmt.Sprintf("kk%d", round)) == 0 {
			keyKind = "arbitrary_key"
			kk = c.pedMakeKey(k.b, k.sigma, c.drawNonZero(t, "h2"), c.drawScalar(t, "s2"))
		}
		cl := c.drawScalar(t, fmt.Sprintf("c%d", round))
		// the accepting proof for this commitment and key: p = -c·s/h
		good := c.F.Mul(c.F.Neg(c.F.Mul(cl, kk.s)), c.F.Inv(kk.h))
		kind := rapid.SampledFrom([]string{"exact", "plus1", "minus1", "negated", "sigma_of_c_plus1", "c_itself", "zero", "random", "double", "by_inverse_sigma"}).Draw(t, fmt.Sprintf("pk%d", round))
		var pl *big.Int
		switch kind {
		case "exact":
			pl = good
		case "plus1":
			pl = c.F.Add(good, bi(1))
		case "minus1":
			pl = c.F.Sub(good, bi(1))
		case "negated":
			pl = c.F.Neg(good)
		case "sigma_of_c_plus1":
			pl = c.F.Mul(c.F.Add(cl, bi(1)), kk.sigma)
		case "c_itself":
			pl = cl
		case "zero":
			pl = new(big.Int)
		case "random":
			pl = c.drawScalar(t, fmt.Sprintf("p%d", round))
		case "double":
			pl = c.F.Add(good, good)
		case "by_inverse_sigma":
			pl = c.F.Mul(cl, c.F.Inv(kk.sigma))
		}
		C, P := c.pt(kG1, cl), c.pt(kG1, pl)
		want, why := c.pedExpectSingle(kk, C, P)
		err := c.pedVerify(kk.vk, C, P)
		ck := fmt.Sprintf("%s exponent sigma=%s h=%s s=%s c=%s p=%s", c.name, kk.sigma.Text(16), kk.h.Text(16), kk.s.Text(16), cl.Text(16), pl.Text(16))
		if want == mustAccept && err != nil {
			t.Fatalf("pedersen/%s: relation c·s+p·h=0 holds but Verify rejects (%s, %s): %v", c.name, kind, ck, err)
		}
		if want == mustReject && err == nil {
			t.Fatalf("pedersen/%s: FORGERY ACCEPTED: relation c·s+p·h=0 fails but Verify accepts (%s, %s)", c.name, kind, ck)
		}
		rep.Case(test, ck, true, "pedersen", "curve:"+c.name, "exponent", "exp:"+kind, "exp:"+keyKind, "why:"+why)
	}
}

// propPedersenBatch: BatchProve / BatchVerifyMultiVk / Fold+Verify.
func propPedersenBatch(t *rapid.T, c *cv) {
	test := "C17a_PedersenBatch/" + c.name
	n := rapid.IntRange(1, rep.Scale(4, 6)).Draw(t, "n")
	same := rapid.Bool().Draw(t, "same_sigma")
	in := c.pedDraw(t, test, "a", n, 4, same)
	don := c.pedDraw(t, test, "d", n, 2, same)
	rho := c.drawScalar(t, "rho")
	key := fmt.Sprintf("%s n=%d same_sigma=%v rho=%s c=%v", c.name, n, same, rho.Text(16), in.cLog)

	pks := reflect.MakeSlice(reflect.SliceOf(c.ped.Types["ProvingKey"]), n, n)
	for i, k := range in.keys {
		pks.Index(i).Set(reflect.ValueOf(k.pk).Elem())
	}
	res := c.ped.F("BatchProve", pks.Interface(), c.feVec2(in.values).Interface(), c.fe(rho))
	if err := errOf(res); err != nil {
		t.Fatalf("pedersen/%s: BatchProve failed: %v", c.name, err)
	}
	folded := ptrOf(res[0])
	// prediction: Σ ρ^i σ_i c_i
	want := new(big.Int)
	pw := bi(1)
	for i := range in.keys {
		want.Add(want, new(big.Int).Mul(pw, c.F.Mul(in.keys[i].sigma, in.cLog[i])))
		pw = c.F.Mul(pw, rho)
	}
	if !ptEqual(folded, c.pt(kG1, want)) {
		t.Fatalf("pedersen/%s: BatchProve != [Σ ρ^i σ_i c_i]G1 (%s)", c.name, key)
	}
	mkObj := func(in *pedInstance, poks []interface{}) interface{} {
		o := reflect.New(c.pedBatchObjType())
		cs := reflect.MakeSlice(reflect.SliceOf(c.g1T), len(in.C), len(in.C))
		for i := range in.C {
			cs.Index(i).Set(reflect.ValueOf(in.C[i]).Elem())
		}
		ps := reflect.MakeSlice(reflect.SliceOf(c.g1T), len(poks), len(poks))
		for i := range poks {
			ps.Index(i).Set(reflect.ValueOf(poks[i]).Elem())
		}
		o.Elem().Field(0).Set(cs)
		o.Elem().Field(1).Set(ps)
		o.Elem().Field(2).Set(reflect.ValueOf(c.fe(rho)).Elem())
		return o.Interface()
	}
	verify := func(o interface{}) error {
		v := reflect.ValueOf(o).Elem()
		return c.pedBatchVerify(in.keys, v.Field(0), v.Field(1), feBig(v.Field(2)))
	}
	expect := func(o interface{}, s Site, mut string) (int, string) {
		v := reflect.ValueOf(o).Elem()
		if v.Field(0).Len() == 0 {
			return noAssert, "no_commitments" // BatchVerifyMultiVk indexes commitments[0]; the empty batch is not a documented input
		}
		return c.pedExpectBatch(in.keys, v.Field(0), v.Field(1), feBig(v.Field(2)))
	}
	// completeness: individual proofs, and the single folded proof
	for _, form := range []string{"individual", "folded"} {
		poks := in.Pi
		if form == "folded" {
			poks = []interface{}{folded}
		}
		o := mkObj(in, poks)
		if err := verify(o); err != nil {
			t.Fatalf("pedersen/%s: BatchVerifyMultiVk rejects honest %s proofs (%s): %v", c.name, form, key, err)
		}
		rep.Case(test, "honest "+form+" "+key, true, "pedersen_batch", "curve:"+c.name, "honest", "honest:"+form, fmt.Sprintf("n:%d", n))
		dp := don.Pi
		if form == "folded" {
			dp = dp[:1]
		}
		runTamper(t, tamperRun{
			test: test, scheme: "pedersen_batch", c: c, honest: o, donor: mkObj(don, dp), key: form + " " + key,
			verify: verify, expect: expect, max: 40,
		})
	}
	// same σ: the folded proof verifies against the folded commitment with the plain verifier (doc of BatchProve)
	if same {
		fc := reflect.New(c.g1T).Interface()
		cs := reflect.ValueOf(mkObj(in, nil)).Elem().Field(0)
		cfg := reflect.New(reg.Get("ecc").Types["MultiExpConfig"]).Elem()
		cfg.FieldByName("NbTasks").SetInt(1)
		if err := errOf(reg.M(fc, "Fold", cs.Interface(), c.fe(rho), cfg.Interface())); err != nil {
			t.Fatalf("pedersen/%s: Fold: %v", c.name, err)
		}
		if err := c.pedVerify(in.keys[0].vk, fc, folded); err != nil {
			t.Fatalf("pedersen/%s: BatchProve proof rejected against the folded commitment (%s): %v", c.name, key, err)
		}
		rep.Case(test, "fold "+key, true, "pedersen_batch", "curve:"+c.name, "honest", "honest:fold_then_verify")
	}
	// different G2 bases: the pairing product alone cannot see it when the proofs are scaled accordingly
	// (p_1 = σ_1 c_1 h'/h), only the documented parameter check "the G2 point must be the same" rejects
	if n >= 2 {
		h2 := c.drawNonZero(t, "h_other")
		if h2.Cmp(in.keys[0].h) == 0 {
			h2 = c.F.Add(h2, bi(1))
		}
		keys2 := append([]*pedKey{}, in.keys...)
		k1 := in.keys[1]
		keys2[1] = c.pedMakeKey(k1.b, k1.sigma, h2, c.F.Neg(c.F.Mul(k1.sigma, h2)))
		ps := append([]interface{}{}, in.Pi...)
		ps[1] = c.pt(kG1, c.F.Mul(c.F.Mul(k1.sigma, in.cLog[1]), c.F.Mul(h2, c.F.Inv(in.keys[0].h))))
		o := mkObj(in, ps)
		v := reflect.ValueOf(o).Elem()
		w, why := c.pedExpectBatch(keys2, v.Field(0), v.Field(1), rho)
		err := c.pedBatchVerify(keys2, v.Field(0), v.Field(1), rho)
		if w != mustReject || why != "g2_mismatch" {
			t.Fatalf("harness error: expected g2_mismatch, got %s", why)
		}
		if err == nil {
			t.Fatalf("pedersen/%s: FORGERY ACCEPTED: verifying keys with different G2 points accepted by BatchVerifyMultiVk (%s)", c.name, key)
		}
		rep.Case(test, "g2_mismatch "+key, true, "pedersen_batch", "curve:"+c.name, "exponent", "exp:g2_mismatch_compensated", "why:"+why)
	}
	// compensating errors: individually wrong proofs whose folding is right for THIS ρ are accepted by design
	// (ρ is the verifier's challenge); the same proofs with another ρ are rejected.
	if n >= 2 && rho.Sign() != 0 {
		d := c.drawNonZero(t, "delta")
		ps := make([]interface{}, n)
		copy(ps, in.Pi)
		l0 := c.F.Mul(in.keys[0].sigma, in.cLog[0])
		l1 := c.F.Mul(in.keys[1].sigma, in.cLog[1])
		ps[0] = c.pt(kG1, c.F.Add(l0, c.F.Mul(d, rho)))
		ps[1] = c.pt(kG1, c.F.Sub(l1, d))
		o := mkObj(in, ps)
		v := reflect.ValueOf(o).Elem()
		w, why := c.pedExpectBatch(in.keys, v.Field(0), v.Field(1), rho)
		err := verify(o)
		if (w == mustAccept) != (err == nil) {
			t.Fatalf("pedersen/%s: compensated batch: oracle %s, verifier %v (%s)", c.name, why, err, key)
		}
		rho2 := c.F.Add(rho, bi(1))
		v.Field(2).Set(reflect.ValueOf(c.fe(rho2)).Elem())
		w2, why2 := c.pedExpectBatch(in.keys, v.Field(0), v.Field(1), rho2)
		err2 := verify(o)
		if (w2 == mustAccept) != (err2 == nil) {
			t.Fatalf("pedersen/%s: compensated batch at another ρ: oracle %s, verifier %v (%s)", c.name, why2, err2, key)
		}
		rep.Case(test, "compensated "+key, true, "pedersen_batch", "curve:"+c.name, "exponent", "exp:compensated_pair", "why:"+why, "why2:"+why2)
	}
}

// propPedersenSetup: the library's own (randomised) Setup: keys satisfy the PoK relation element-wise,
// honest proofs verify, proofs made for another Setup's σ do not.
func propPedersenSetup(t *rapid.T, c *cv) {
	test := "C17a_PedersenSetup/" + c.name
	n := rapid.IntRange(1, 3).Draw(t, "n")
	logs := make([][]*big.Int, n)
	bases := reflect.MakeSlice(reflect.SliceOf(reflect.SliceOf(c.g1T)), n, n)
	for i := range logs {
		m := rapid.IntRange(1, 4).Draw(t, fmt.Sprintf("m%d", i))
		logs[i] = make([]*big.Int, m)
		for j := range logs[i] {
			logs[i][j] = c.drawNonZero(t, fmt.Sprintf("b%d_%d", i, j))
		}
		bases.Index(i).Set(c.ptVec(kG1, logs[i]))
	}
	withG2 := rapid.Bool().Draw(t, "with_g2")
	args := []interface{}{bases.Interface()}
	if withG2 {
		g := c.pt(kG2, c.drawNonZero(t, "h"))
		args = append(args, c.ped.F("WithG2Point", g)[0])
	}
	setup := func() (reflect.Value, interface{}) {
		res := c.ped.F("Setup", args...)
		if err := errOf(res); err != nil {
			t.Fatalf("pedersen/%s: Setup: %v", c.name, err)
		}
		return reflect.ValueOf(res[0]), ptrOf(res[1])
	}
	pks, vk := setup()
	pks2, _ := setup()
	key := fmt.Sprintf("%s setup n=%d withG2=%v logs=%v", c.name, n, withG2, logs)
	for i := 0; i < n; i++ {
		pk := pks.Index(i).Addr().Interface()
		vals := make([]*big.Int, len(logs[i]))
		for j := range vals {
			vals[j] = c.drawScalar(t, fmt.Sprintf("v%d_%d", i, j))
		}
		C := ptrOf(reg.M(pk, "Commit", c.feVec(vals).Interface())[0])
		P := ptrOf(reg.M(pk, "ProveKnowledge", c.feVec(vals).Interface())[0])
		if !ptEqual(C, c.pt(kG1, c.inner(vals, logs[i]))) {
			t.Fatalf("pedersen/%s: Commit over Setup keys != [Σ v_j b_j]G1", c.name)
		}
		if err := c.pedVerify(vk, C, P); err != nil {
			t.Fatalf("pedersen/%s: honest proof under library Setup rejected (%s): %v", c.name, key, err)
		}
		// every basis element with its σ-power is itself a valid (commitment, proof) pair
		bs := reflect.ValueOf(pk).Elem().FieldByName("Basis")
		be := reflect.ValueOf(pk).Elem().FieldByName("BasisExpSigma")
		for j := 0; j < bs.Len(); j++ {
			if err := c.pedVerify(vk, bs.Index(j).Addr().Interface(), be.Index(j).Addr().Interface()); err != nil {
				t.Fatalf("pedersen/%s: Setup key relation BasisExpSigma[j] = [σ]Basis[j] not accepted by Verify: %v", c.name, err)
			}
		}
		// a proof made with the σ of an independent Setup is a proof for another relation; it must not verify
		// unless the commitment is the identity (then both proofs are the identity)
		P2 := ptrOf(reg.M(pks2.Index(i).Addr().Interface(), "ProveKnowledge", c.feVec(vals).Interface())[0])
		err := c.pedVerify(vk, C, P2)
		isId := c.inner(vals, logs[i]).Sign() == 0
		if isId && err != nil {
			t.Fatalf("pedersen/%s: identity commitment with identity proof rejected: %v", c.name, err)
		}
		if !isId && err == nil {
			t.Fatalf("pedersen/%s: FORGERY ACCEPTED: proof of knowledge made with another setup's σ verifies (%s)", c.name, key)
		}
		rep.Case(test, key+fmt.Sprintf(" i=%d v=%v", i, vals), true, "pedersen_setup", "curve:"+c.name, "honest", "other_setup_sigma", fmt.Sprintf("with_g2:%v", withG2))
	}
}

func TestC17a_Pedersen(t *testing.T) {
	forCurves(t, func(t *testing.T, c *cv) { rapid.Check(t, func(t *rapid.T) { propPedersenSingle(t, c) }) })
}

func TestC17a_PedersenBatch(t *testing.T) {
	forCurves(t, func(t *testing.T, c *cv) { rapid.Check(t, func(t *rapid.T) { propPedersenBatch(t, c) }) })
}

func TestC17a_PedersenSetup(t *testing.T) {
	forCurves(t, func(t *testing.T, c *cv) { rapid.Check(t, func(t *rapid.T) { propPedersenSetup(t, c) }) })
}
