package c17a

// Setup-ceremony update proofs (ecc/<curve>/mpcsetup): UpdateValues / UpdateProof.Verify and SameRatioMany.
//
// An update with contribution a turns every representation X into [a]X and publishes
// (commitment = [a]G1, pok = [a]R) with R = HashToG2(commitment ‖ challenge, dst) (doc comment of pokBase).
// In the exponent, UpdateProof.Verify must accept exactly when
//
//	commitment, pok ∈ subgroup ∧ a ≠ 0 ∧ pok = [a]R ∧ next1_i = a·prev1_i ∀i ∧ next2_j = a·prev2_j ∀j
//
// (a = log commitment; the random linear combination used by the verifier fails with probability ≤ n/r).
// SameRatioMany(slices…) accepts exactly when  a_{i,j}·b_{k,l+1} = a_{i,j+1}·b_{k,l}  for all consecutive pairs of
// all G1 slices a_i and all G2 slices b_k (that is: all are geometric with one common ratio), given the
// documented non-zero preconditions.

import (
	"fmt"
	"math/big"
	"reflect"
	"testing"

	"pgregory.net/rapid"

	"verif/harness/internal/reg"
	"verif/harness/internal/rep"
)

// pokBase recomputes R = HashToG2(commitment.Marshal() ‖ challenge, [dst]).
func (c *cv) pokBase(commitment interface{}, challenge []byte, dst byte) interface{} {
	msg := append(append([]byte{}, ptBytes(commitment)...), challenge...)
	res := c.ecc.F("HashToG2", msg, []byte{dst})
	if err := errOf(res); err != nil {
		panic(err)
	}
	return ptrOf(res[0])
}

func (c *cv) mulPoint(g int, p interface{}, k *big.Int) interface{} {
	q := reflect.New(c.ptType(g)).Interface()
	reg.M(q, "ScalarMultiplication", p, c.red(k))
	return q
}

// mpcProof builds an UpdateProof from its two (unexported) components.
func (c *cv) mpcProof(commitment, pok interface{}) interface{} {
	p := c.mpc.New("UpdateProof")
	v := reflect.ValueOf(p).Elem()
	access(v.FieldByName("contributionCommitment")).Set(reflect.ValueOf(commitment).Elem())
	access(v.FieldByName("contributionPok")).Set(reflect.ValueOf(pok).Elem())
	return p
}

// mpcObj is the object handed to the tamper engine.
func (c *cv) mpcObjType() reflect.Type {
	return reflect.StructOf([]reflect.StructField{
		{Name: "Proof", Type: c.mpc.Types["UpdateProof"]},
		{Name: "Challenge", Type: reflect.TypeOf([]byte(nil))},
		{Name: "Dst", Type: reflect.TypeOf(uint8(0))},
		{Name: "G1Prev", Type: reflect.SliceOf(c.g1T)},
		{Name: "G1Next", Type: reflect.SliceOf(c.g1T)},
		{Name: "G2Prev", Type: reflect.SliceOf(c.g2T)},
		{Name: "G2Next", Type: reflect.SliceOf(c.g2T)},
	})
}

func (c *cv) valueUpdate(prev, next interface{}) interface{} {
	vu := reflect.New(c.mpc.Types["ValueUpdate"]).Elem()
	vu.Field(0).Set(reflect.ValueOf(prev))
	vu.Field(1).Set(reflect.ValueOf(next))
	return vu.Interface()
}

func (c *cv) mpcVerifyObj(o interface{}) error {
	v := reflect.ValueOf(o).Elem()
	args := []interface{}{v.Field(1).Interface(), uint8(v.Field(2).Uint())}
	if v.Field(3).Len() > 0 || v.Field(4).Len() > 0 {
		args = append(args, c.valueUpdate(v.Field(3).Interface(), v.Field(4).Interface()))
	}
	if v.Field(5).Len() > 0 || v.Field(6).Len() > 0 {
		args = append(args, c.valueUpdate(v.Field(5).Interface(), v.Field(6).Interface()))
	}
	return errOf(reg.M(v.Field(0).Addr().Interface(), "Verify", args...))
}

// mpcExpect evaluates the acceptance predicate of UpdateProof.Verify in the exponent.
func (c *cv) mpcExpect(proof reflect.Value, challenge []byte, dst byte, p1, n1, p2, n2 reflect.Value) (int, string) {
	com := access(proof.FieldByName("contributionCommitment")).Addr().Interface()
	pok := access(proof.FieldByName("contributionPok")).Addr().Interface()
	a, ok := c.log(kG1, com)
	if !ok {
		return mustReject, "commitment_not_in_subgroup"
	}
	if a.Sign() == 0 {
		return mustReject, "zero_contribution"
	}
	if p1.Len() != n1.Len() || p2.Len() != n2.Len() {
		return mustReject, "length_mismatch"
	}
	R := c.pokBase(com, challenge, dst)
	if !ptEqual(pok, c.mulPoint(kG2, R, a)) {
		return mustReject, "pok_is_not_a_times_R"
	}
	for g, pr := range [][2]reflect.Value{{p1, n1}, {p2, n2}} {
		for i := 0; i < pr[0].Len(); i++ {
			lp, ok1 := c.log(g, pr[0].Index(i).Addr().Interface())
			ln, ok2 := c.log(g, pr[1].Index(i).Addr().Interface())
			if !ok1 || !ok2 {
				return noAssert, "representation_outside_subgroup" // documented: representations are not subgroup-checked
			}
			if c.F.Mul(a, lp).Cmp(ln) != 0 {
				if g == kG1 {
					return mustReject, "g1_update_inconsistent"
				}
				return mustReject, "g2_update_inconsistent"
			}
		}
	}
	return mustAccept, "relation_holds"
}

func (c *cv) mpcExpectObj(o interface{}) (int, string) {
	v := reflect.ValueOf(o).Elem()
	return c.mpcExpect(v.Field(0), v.Field(1).Bytes(), uint8(v.Field(2).Uint()), v.Field(3), v.Field(4), v.Field(5), v.Field(6))
}

type mpcInstance struct {
	a         *big.Int
	challenge []byte
	dst       byte
	p1, p2    []*big.Int // previous logarithms
	obj       interface{}
}

// mpcHonest draws previous values, updates them with the library (UpdateValues with a known contribution) and
// checks the outputs against the prediction.
func (c *cv) mpcHonest(t *rapid.T, tag string, max1, max2 int) *mpcInstance {
	in := &mpcInstance{}
	in.a = c.drawNonZero(t, tag+"a")
	in.challenge = rapid.SliceOfN(rapid.Byte(), 0, 40).Draw(t, tag+"challenge")
	in.dst = rapid.Byte().Draw(t, tag+"dst")
	n1 := rapid.IntRange(0, max1).Draw(t, tag+"n1")
	n2 := rapid.IntRange(0, max2).Draw(t, tag+"n2")
	if n1+n2 == 0 {
		n1 = 1
	}
	for i := 0; i < n1; i++ {
		in.p1 = append(in.p1, c.drawScalar(t, fmt.Sprintf("%sp1_%d", tag, i)))
	}
	for i := 0; i < n2; i++ {
		in.p2 = append(in.p2, c.drawScalar(t, fmt.Sprintf("%sp2_%d", tag, i)))
	}
	prev1, prev2 := c.ptVec(kG1, in.p1), c.ptVec(kG2, in.p2)
	next1, next2 := c.ptVec(kG1, in.p1), c.ptVec(kG2, in.p2)
	// hand the library a mixture of shapes: the first element of each group through a pointer, the rest as a slice
	var reprs []interface{}
	if n1 > 0 {
		reprs = append(reprs, next1.Index(0).Addr().Interface())
		if n1 > 1 {
			reprs = append(reprs, next1.Slice(1, n1).Interface())
		}
	}
	if n2 > 0 {
		reprs = append(reprs, next2.Index(0).Addr().Interface())
		if n2 > 1 {
			reprs = append(reprs, next2.Slice(1, n2).Interface())
		}
	}
	args := append([]interface{}{c.fe(in.a), in.challenge, in.dst}, reprs...)
	proof := ptrOf(c.mpc.F("UpdateValues", args...)[0])
	// prediction
	for i := 0; i < n1; i++ {
		if !ptEqual(next1.Index(i).Addr().Interface(), c.pt(kG1, c.F.Mul(in.a, in.p1[i]))) {
			t.Fatalf("mpcsetup/%s: UpdateValues: G1 representation %d is not [a]·previous", c.name, i)
		}
	}
	for i := 0; i < n2; i++ {
		if !ptEqual(next2.Index(i).Addr().Interface(), c.pt(kG2, c.F.Mul(in.a, in.p2[i]))) {
			t.Fatalf("mpcsetup/%s: UpdateValues: G2 representation %d is not [a]·previous", c.name, i)
		}
	}
	pv := reflect.ValueOf(proof).Elem()
	com := access(pv.FieldByName("contributionCommitment")).Addr().Interface()
	pok := access(pv.FieldByName("contributionPok")).Addr().Interface()
	if !ptEqual(com, c.pt(kG1, in.a)) {
		t.Fatalf("mpcsetup/%s: contribution commitment != [a]G1", c.name)
	}
	if !ptEqual(pok, c.mulPoint(kG2, c.pokBase(com, in.challenge, in.dst), in.a)) {
		t.Fatalf("mpcsetup/%s: contribution PoK != [a]·HashToG2(commitment‖challenge, dst)", c.name)
	}
	o := reflect.New(c.mpcObjType())
	o.Elem().Field(0).Set(pv)
	o.Elem().Field(1).SetBytes(append([]byte{}, in.challenge...))
	o.Elem().Field(2).SetUint(uint64(in.dst))
	o.Elem().Field(3).Set(prev1)
	o.Elem().Field(4).Set(next1)
	o.Elem().Field(5).Set(prev2)
	o.Elem().Field(6).Set(next2)
	in.obj = o.Interface()
	// the same statement through the other documented shapes (values and pointers) must verify as well
	var vus []interface{}
	for i := 0; i < n1; i++ {
		if i%2 == 0 {
			vus = append(vus, c.valueUpdate(prev1.Index(i).Interface(), next1.Index(i).Interface()))
		} else {
			vus = append(vus, c.valueUpdate(prev1.Index(i).Addr().Interface(), next1.Index(i).Addr().Interface()))
		}
	}
	for i := 0; i < n2; i++ {
		if i%2 == 1 {
			vus = append(vus, c.valueUpdate(prev2.Index(i).Interface(), next2.Index(i).Interface()))
		} else {
			vus = append(vus, c.valueUpdate(prev2.Index(i).Addr().Interface(), next2.Index(i).Addr().Interface()))
		}
	}
	if err := errOf(reg.M(proof, "Verify", append([]interface{}{in.challenge, in.dst}, vus...)...)); err != nil {
		t.Fatalf("mpcsetup/%s: honest update rejected when passed element-wise: %v", c.name, err)
	}
	return in
}

func propMpcUpdate(t *rapid.T, c *cv) {
	test := "C17a_MpcUpdate/" + c.name
	in := c.mpcHonest(t, "a", rep.Scale(4, 8), rep.Scale(3, 6))
	don := c.mpcHonest(t, "d", 4, 3)
	key := fmt.Sprintf("%s a=%s challenge=%x dst=%d prev1=%v prev2=%v", c.name, in.a.Text(16), in.challenge, in.dst, in.p1, in.p2)

	// (1) completeness
	if err := c.mpcVerifyObj(in.obj); err != nil {
		t.Fatalf("mpcsetup/%s: honest update proof rejected: %v (%s)", c.name, err, key)
	}
	n := len(in.p1) + len(in.p2)
	rep.Case(test, "honest "+key, n == 1 || n&(n-1) != 0, "mpcsetup", "curve:"+c.name, "honest",
		fmt.Sprintf("g1:%d", len(in.p1)), fmt.Sprintf("g2:%d", len(in.p2)))

	// (2) reflective tampering; verdict decided in the exponent
	runTamper(t, tamperRun{
		test: test, scheme: "mpcsetup", c: c, honest: in.obj, donor: don.obj, key: key, max: 70,
		verify: c.mpcVerifyObj,
		expect: func(o interface{}, s Site, mut string) (int, string) { return c.mpcExpectObj(o) },
	})

	// (3) multi-component forgeries and trapdoor-made updates (not produced by UpdateValues)
	kind := rapid.SampledFrom([]string{"consistent_by_hand", "g1_and_g2_different_ratio", "pok_for_other_value", "pok_for_other_challenge",
		"commitment_other_value", "g1_other_ratio", "g2_other_ratio", "one_power_replaced", "zero_contribution", "pok_plus_generator", "commitment_plus_cofactor_point",
		"identity_first_of_each_next_slice", "identity_all_g2_next", "identity_all_g1_next", "identity_all_prev", "identity_all_prev_and_next"}).Draw(t, "forgery")
	a := in.a
	b := c.drawNonZero(t, "b")
	if b.Cmp(a) == 0 {
		b = c.F.Add(b, bi(1))
	}
	scale := func(ps []*big.Int, k *big.Int) []*big.Int {
		out := make([]*big.Int, len(ps))
		for i := range ps {
			out[i] = c.F.Mul(ps[i], k)
		}
		return out
	}
	comLog, pokLog, pokChal := a, a, in.challenge
	r1, r2 := a, a
	n1 := scale(in.p1, a)
	n2 := scale(in.p2, a)
	extraG2 := int64(0)
	switch kind {
	case "g1_and_g2_different_ratio": // G1 part and PoK made with b, G2 part and commitment with a
		pokLog, r1 = b, b
		n1 = scale(in.p1, b)
	case "pok_for_other_value":
		pokLog = b
	case "pok_for_other_challenge":
		pokChal = append(append([]byte{}, in.challenge...), 1)
	case "commitment_other_value": // everything consistent with a, commitment (and hence R) for b
		comLog = b
	case "g1_other_ratio":
		r1 = b
		n1 = scale(in.p1, b)
	case "g2_other_ratio":
		r2 = b
		n2 = scale(in.p2, b)
	case "one_power_replaced":
		if len(n1) > 0 {
			i := rapid.IntRange(0, len(n1)-1).Draw(t, "which")
			n1[i] = c.drawScalar(t, "repl")
		} else {
			i := rapid.IntRange(0, len(n2)-1).Draw(t, "which")
			n2[i] = c.drawScalar(t, "repl")
		}
	case "zero_contribution":
		comLog, pokLog = new(big.Int), new(big.Int)
		n1, n2 = scale(in.p1, new(big.Int)), scale(in.p2, new(big.Int))
	case "pok_plus_generator":
		extraG2 = 1
	}
	_, _ = r1, r2
	com := c.pt(kG1, comLog)
	var pok interface{}
	if kind == "commitment_other_value" {
		pok = c.mulPoint(kG2, c.pokBase(c.pt(kG1, a), pokChal, in.dst), pokLog) // PoK made for [a]G1
	} else {
		pok = c.mulPoint(kG2, c.pokBase(com, pokChal, in.dst), pokLog)
	}
	if extraG2 != 0 {
		q := reflect.New(c.g2T).Interface()
		reg.M(q, "Add", pok, c.pt(kG2, bi(extraG2)))
		pok = q
	}
	// zero / identity substitutions on whole sides of the update (decided by the same predicate: a·0 = 0 is a
	// consistent update of the identity, anything else is not)
	p1, p2 := in.p1, in.p2
	zeros := func(n int) []*big.Int {
		out := make([]*big.Int, n)
		for i := range out {
			out[i] = new(big.Int)
		}
		return out
	}
	switch kind {
	case "identity_first_of_each_next_slice":
		if len(n1) > 0 {
			n1[0] = new(big.Int)
		}
		if len(n2) > 0 {
			n2[0] = new(big.Int)
		}
	case "identity_all_g2_next":
		n2 = zeros(len(n2))
	case "identity_all_g1_next":
		n1 = zeros(len(n1))
	case "identity_all_prev":
		p1, p2 = zeros(len(p1)), zeros(len(p2))
	case "identity_all_prev_and_next":
		p1, p2, n1, n2 = zeros(len(p1)), zeros(len(p2)), zeros(len(n1)), zeros(len(n2))
	}
	if kind == "commitment_plus_cofactor_point" {
		// commitment [a]G1 + T with T of order coprime to r, PoK [a]·R made for exactly that commitment: every pairing
		// equation holds (T pairs trivially), only the subgroup check of the proof rejects. (Needs a cofactor: not on bn254 G1.)
		if T := c.cofactorPoint(kG1); T != nil {
			q := reflect.New(c.g1T).Interface()
			reg.M(q, "Add", com, T)
			com = q
			pok = c.mulPoint(kG2, c.pokBase(com, pokChal, in.dst), a)
		}
	}
	o := DeepCopy(in.obj)
	ov := reflect.ValueOf(o).Elem()
	ov.Field(0).Set(reflect.ValueOf(c.mpcProof(com, pok)).Elem())
	ov.Field(3).Set(c.ptVec(kG1, p1))
	ov.Field(4).Set(c.ptVec(kG1, n1))
	ov.Field(5).Set(c.ptVec(kG2, p2))
	ov.Field(6).Set(c.ptVec(kG2, n2))
	want, why := c.mpcExpectObj(o)
	err := c.mpcVerifyObj(o)
	fk := fmt.Sprintf("forgery %s b=%s %s", kind, b.Text(16), key)
	if want == mustReject && err == nil {
		t.Fatalf("mpcsetup/%s: FORGERY ACCEPTED: %s (%s) — %s", c.name, kind, why, fk)
	}
	if want == mustAccept && err != nil {
		t.Fatalf("mpcsetup/%s: consistent update (%s) rejected: %v — %s", c.name, kind, err, fk)
	}
	rep.Case(test, fk, true, "mpcsetup", "curve:"+c.name, "exponent", "forgery:"+kind, "why:"+why)
}

// ---- SameRatioMany -----------------------------------------------------------------------------------

func propSameRatio(t *rapid.T, c *cv) {
	test := "C17a_SameRatioMany/" + c.name
	rho := c.drawScalar(t, "rho")
	kind := rapid.SampledFrom([]string{"all_geometric", "all_geometric", "one_element_off", "one_slice_other_ratio", "g2_other_ratio", "last_element_off", "zero_slice_added"}).Draw(t, "kind")
	// substitutions of zero / identity at the head of slices or of whole slices, in one group or in a whole group at once
	sub := rapid.SampledFrom([]string{"none", "none", "none", "zero_first_one_g1_slice", "zero_first_one_g2_slice", "zero_first_all_g1", "zero_first_all_g2",
		"all_infinity_one_g1_slice", "all_infinity_one_g2_slice", "all_infinity_all_g1", "all_infinity_all_g2", "all_infinity_both_groups"}).Draw(t, "sub")
	k1 := rapid.IntRange(1, 3).Draw(t, "k1")
	k2 := rapid.IntRange(1, 3).Draw(t, "k2")
	geo := func(start, ratio *big.Int, n int) []*big.Int {
		out := make([]*big.Int, n)
		cur := start
		for i := range out {
			out[i] = cur
			cur = c.F.Mul(cur, ratio)
		}
		return out
	}
	var s1, s2 [][]*big.Int
	for i := 0; i < k1; i++ {
		s1 = append(s1, geo(c.drawNonZero(t, fmt.Sprintf("a%d", i)), rho, rapid.IntRange(2, 5).Draw(t, fmt.Sprintf("n%d", i))))
	}
	for i := 0; i < k2; i++ {
		s2 = append(s2, geo(c.drawNonZero(t, fmt.Sprintf("b%d", i)), rho, rapid.IntRange(2, 4).Draw(t, fmt.Sprintf("m%d", i))))
	}
	other := c.F.Add(rho, c.drawNonZero(t, "drho"))
	switch kind {
	case "one_element_off":
		i := rapid.IntRange(0, k1-1).Draw(t, "i")
		j := rapid.IntRange(0, len(s1[i])-1).Draw(t, "j")
		s1[i][j] = c.F.Add(s1[i][j], bi(1))
	case "last_element_off":
		i := rapid.IntRange(0, k1-1).Draw(t, "i")
		s1[i][len(s1[i])-1] = c.F.Add(s1[i][len(s1[i])-1], bi(1))
	case "one_slice_other_ratio":
		i := rapid.IntRange(0, k1-1).Draw(t, "i")
		s1[i] = geo(s1[i][0], other, len(s1[i]))
	case "g2_other_ratio":
		i := rapid.IntRange(0, k2-1).Draw(t, "i")
		s2[i] = geo(s2[i][0], other, len(s2[i]))
	case "zero_slice_added": // an all-zero sequence is geometric with every ratio
		z := make([]*big.Int, rapid.IntRange(2, 4).Draw(t, "nz"))
		for i := range z {
			z[i] = new(big.Int)
		}
		s1 = append(s1, z)
	}
	zeroFirst := func(a []*big.Int) { a[0] = new(big.Int) }
	zeroAll := func(a []*big.Int) {
		for i := range a {
			a[i] = new(big.Int)
		}
	}
	forAll := func(ss [][]*big.Int, f func([]*big.Int)) {
		for _, a := range ss {
			f(a)
		}
	}
	switch sub {
	case "zero_first_one_g1_slice":
		zeroFirst(s1[rapid.IntRange(0, len(s1)-1).Draw(t, "si")])
	case "zero_first_one_g2_slice":
		zeroFirst(s2[rapid.IntRange(0, len(s2)-1).Draw(t, "si")])
	case "zero_first_all_g1":
		forAll(s1, zeroFirst)
	case "zero_first_all_g2":
		forAll(s2, zeroFirst)
	case "all_infinity_one_g1_slice":
		zeroAll(s1[rapid.IntRange(0, len(s1)-1).Draw(t, "si")])
	case "all_infinity_one_g2_slice":
		zeroAll(s2[rapid.IntRange(0, len(s2)-1).Draw(t, "si")])
	case "all_infinity_all_g1":
		forAll(s1, zeroAll)
	case "all_infinity_all_g2":
		forAll(s2, zeroAll)
	case "all_infinity_both_groups":
		forAll(s1, zeroAll)
		forAll(s2, zeroAll)
	}
	// oracle. (1) documented guard: each group needs a slice whose FIRST element is non-zero ("need a nonzero
	// representative in both groups": a degenerate side proves nothing) — whatever the order of the arguments;
	// (2) otherwise: accepted exactly when a_{i,j}·b_{k,l+1} = a_{i,j+1}·b_{k,l} for all consecutive pairs.
	someFirst := func(ss [][]*big.Int) bool {
		for _, a := range ss {
			if a[0].Sign() != 0 {
				return true
			}
		}
		return false
	}
	holds := true
	for _, a := range s1 {
		for j := 0; j+1 < len(a); j++ {
			for _, b := range s2 {
				for l := 0; l+1 < len(b); l++ {
					if c.F.Mul(a[j], b[l+1]).Cmp(c.F.Mul(a[j+1], b[l])) != 0 {
						holds = false
					}
				}
			}
		}
	}
	why := fmt.Sprintf("srm_relation:%v", holds)
	want := holds
	if !someFirst(s1) || !someFirst(s2) {
		want, why = false, "srm_no_nonzero_first_element_in_a_group"
	}
	// the argument list in a rapid-drawn order of all G1 and G2 slices
	type arg struct {
		g int
		v []*big.Int
	}
	var all []arg
	for _, a := range s1 {
		all = append(all, arg{kG1, a})
	}
	for _, b := range s2 {
		all = append(all, arg{kG2, b})
	}
	perm := rapid.Permutation(all).Draw(t, "order")
	var args []interface{}
	order := ""
	for _, a := range perm {
		args = append(args, c.ptVec(a.g, a.v).Interface())
		order += fmt.Sprint(a.g + 1)
	}
	lastOf := func(ch byte) int {
		for i := len(order) - 1; i >= 0; i-- {
			if order[i] == ch {
				return i
			}
		}
		return -1
	}
	firstOf := func(ch byte) int {
		for i := 0; i < len(order); i++ {
			if order[i] == ch {
				return i
			}
		}
		return -1
	}
	oclass := "interleaved"
	if lastOf('1') < firstOf('2') {
		oclass = "all_g1_before_g2"
	} else if lastOf('2') < firstOf('1') {
		oclass = "all_g2_before_g1"
	}
	err, pan := guard(func() error { return errOf(c.mpc.F("SameRatioMany", args...)) })
	key := fmt.Sprintf("%s %s sub=%s order=%s rho=%s g1=%v g2=%v", c.name, kind, sub, order, rho.Text(16), s1, s2)
	if pan != "" {
		t.Fatalf("mpcsetup/%s: SameRatioMany panics: %s (%s)", c.name, pan, key)
	}
	if want && err != nil {
		t.Fatalf("mpcsetup/%s: SameRatioMany rejects (%v) sequences that all have the same ratio (%s)", c.name, err, key)
	}
	if !want && err == nil {
		t.Fatalf("mpcsetup/%s: FORGERY ACCEPTED: SameRatioMany returned nil although %s (%s)", c.name, why, key)
	}
	rep.Case(test, key, true, "same_ratio_many", "curve:"+c.name, "exponent", "srm:"+kind, "srm_sub:"+sub, "srm_order:"+oclass, "srm_first_arg:g"+order[:1], why,
		fmt.Sprintf("srm_verdict_accept:%v", want), fmt.Sprintf("srm_g1_slices:%d", len(s1)), fmt.Sprintf("srm_g2_slices:%d", len(s2)))
}

func TestC17a_MpcUpdate(t *testing.T) {
	forCurves(t, func(t *testing.T, c *cv) { rapid.Check(t, func(t *rapid.T) { propMpcUpdate(t, c) }) })
}

func TestC17a_SameRatioMany(t *testing.T) {
	forCurves(t, func(t *testing.T, c *cv) { rapid.Check(t, func(t *rapid.T) { propSameRatio(t, c) }) })
}
