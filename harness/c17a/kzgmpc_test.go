package c17a

// kzg.MpcSetup (ecc/<curve>/kzg/mpcsetup.go): a contribution multiplies τ by a secret a.
// prev.Verify(next) must accept exactly the consistent τ'-power updates of prev:
//
//	next.challenge ∈ {empty, H(prev)} ∧ same size ∧ subgroup(next.G2[1], next.G1[1:]) ∧
//	update proof valid for (prev.G2[1] → next.G2[1]) under challenge "KZG Setup"‖H(prev) ∧
//	next.G1[i+1]·next.G2[0] = next.G1[i]·next.G2[1] for all i (in the exponent), next.G1[0], next.G2[0] ≠ 0.
//
// The harness builds contributions itself from a known a (and therefore known τ) by writing the unexported
// fields, so all logarithms are known; the library's own Contribute() (secret a) is used for completeness, for
// the wire round trip and for a "one wire component changed ⇒ rejected" sweep.
// Wire components (what WriteTo/ReadFrom transport): proof, Pk.G1[1:], Vk.G2[1], challenge. Pk.G1[0], Vk.G2[0],
// Vk.G1 and Vk.Lines are fixed by ReadFrom / recomputed by Seal and are therefore not asserted.

import (
	"bytes"
	"fmt"
	"math/big"
	"reflect"
	"strings"
	"testing"

	"pgregory.net/rapid"

	"verif/harness/internal/reg"
	"verif/harness/internal/rep"
)

func (c *cv) kmInit(n int) interface{} {
	return ptrOf(c.kzg.F("InitializeSetup", n)[0])
}

// kmHash is MpcSetup.hash(): SHA-256 of the WriteTo stream.
func (c *cv) kmHash(s interface{}) []byte {
	var bb bytes.Buffer
	if err := errOf(reg.M(s, "WriteTo", &bb)); err != nil {
		panic(err)
	}
	return sha(bb.Bytes())
}

type kmFields struct {
	g1        reflect.Value // []G1Affine (srs.Pk.G1)
	vkG1      reflect.Value
	g2        reflect.Value // [2]G2Affine
	proof     reflect.Value
	challenge reflect.Value
}

func kmAccess(s interface{}) kmFields {
	v := reflect.ValueOf(s).Elem()
	srs := access(v.FieldByName("srs"))
	vk := srs.FieldByName("Vk")
	return kmFields{
		g1:        srs.FieldByName("Pk").FieldByName("G1"),
		vkG1:      vk.FieldByName("G1"),
		g2:        vk.FieldByName("G2"),
		proof:     access(v.FieldByName("proof")),
		challenge: access(v.FieldByName("challenge")),
	}
}

// kmContribute builds the contribution of a on top of prev (whose τ is tauPrev) the way Contribute() is documented
// to: τ' = a·τ, G1[i] = [τ'^i]G1, G2[1] = [τ']G2, proof for (a, "KZG Setup"‖H(prev), dst 0).
func (c *cv) kmContribute(prev interface{}, tauPrev, a *big.Int) (next interface{}, tau *big.Int) {
	next = DeepCopy(prev)
	f := kmAccess(next)
	tau = c.F.Mul(a, tauPrev)
	n := f.g1.Len()
	pw := bi(1)
	logs := make([]*big.Int, n)
	for i := range logs {
		logs[i] = pw
		pw = c.F.Mul(pw, tau)
	}
	f.g1.Set(c.ptVec(kG1, logs))
	f.g2.Index(0).Set(reflect.ValueOf(c.pt(kG2, bi(1))).Elem())
	f.g2.Index(1).Set(reflect.ValueOf(c.pt(kG2, tau)).Elem())
	ch := c.kmHash(prev)
	com := c.pt(kG1, a)
	pok := c.mulPoint(kG2, c.pokBase(com, append([]byte("KZG Setup"), ch...), 0), a)
	f.proof.Set(reflect.ValueOf(c.mpcProof(com, pok)).Elem())
	f.challenge.SetBytes(ch)
	return
}

func (c *cv) kmVerify(prev, next interface{}) error {
	// Verify stores the challenge into next and must not modify prev: work on copies
	return errOf(reg.M(DeepCopy(prev), "Verify", DeepCopy(next)))
}

// kmExpect evaluates the acceptance predicate in the exponent.
func (c *cv) kmExpect(prev, next interface{}, site string) (int, string) {
	p, n := kmAccess(prev), kmAccess(next)
	wire := !(strings.HasSuffix(site, ".Pk.G1[0]") || strings.HasSuffix(site, ".Vk.G2[0]") || strings.HasSuffix(site, ".Vk.G1") || strings.Contains(site, ".Lines"))
	if !wire {
		return noAssert, "not_a_wire_component"
	}
	h := c.kmHash(prev)
	if ch := n.challenge.Bytes(); len(ch) == 0 {
		return noAssert, "empty_challenge_is_filled_in_by_verify" // accepted today; nothing is claimed about it
	} else if !bytes.Equal(ch, h) {
		return mustReject, "challenge_mismatch"
	}
	if p.g1.Len() != n.g1.Len() {
		return mustReject, "size_mismatch"
	}
	l2 := make([]*big.Int, 2)
	for i := 0; i < 2; i++ {
		l, ok := c.log(kG2, n.g2.Index(i).Addr().Interface())
		if !ok {
			return mustReject, "g2_not_in_subgroup"
		}
		l2[i] = l
	}
	l1 := make([]*big.Int, n.g1.Len())
	for i := range l1 {
		l, ok := c.log(kG1, n.g1.Index(i).Addr().Interface())
		if !ok {
			return mustReject, "g1_not_in_subgroup"
		}
		l1[i] = l
	}
	pl, ok := c.log(kG2, p.g2.Index(1).Addr().Interface())
	if !ok {
		panic("harness: previous τ unknown")
	}
	w, why := c.mpcExpect(n.proof, append([]byte("KZG Setup"), h...), 0,
		reflect.MakeSlice(reflect.SliceOf(c.g1T), 0, 0), reflect.MakeSlice(reflect.SliceOf(c.g1T), 0, 0),
		c.ptVec(kG2, []*big.Int{pl}), c.ptVec(kG2, []*big.Int{l2[1]}))
	if w != mustAccept {
		return w, why
	}
	if l1[0].Sign() == 0 || l2[0].Sign() == 0 {
		return mustReject, "zero_first_element"
	}
	for i := 0; i+1 < len(l1); i++ {
		if c.F.Mul(l1[i+1], l2[0]).Cmp(c.F.Mul(l1[i], l2[1])) != 0 {
			return mustReject, "g1_powers_inconsistent"
		}
	}
	return mustAccept, "relation_holds"
}

func kmSkip(path string) bool { return strings.Contains(path, ".Lines") }

func propKzgMpc(t *rapid.T, c *cv) {
	test := "C17a_KzgMpcSetup/" + c.name
	N := rapid.IntRange(2, rep.Scale(9, 20)).Draw(t, "N")
	depth := rapid.IntRange(0, 2).Draw(t, "depth")
	prev := c.kmInit(N)
	tau := bi(1)
	for d := 0; d < depth; d++ {
		prev, tau = c.kmContribute(prev, tau, c.drawNonZero(t, fmt.Sprintf("a_prev%d", d)))
	}
	a := c.drawNonZero(t, "a")
	next, tauNext := c.kmContribute(prev, tau, a)
	donor, _ := c.kmContribute(prev, tau, c.drawNonZero(t, "a_donor"))
	key := fmt.Sprintf("%s N=%d depth=%d tau_prev=%s a=%s", c.name, N, depth, tau.Text(16), a.Text(16))

	// (1) completeness of a contribution made by hand with a known secret
	if err := c.kmVerify(prev, next); err != nil {
		t.Fatalf("kzg.MpcSetup/%s: consistent contribution (built from known a) rejected: %v (%s)", c.name, err, key)
	}
	rep.Case(test, "honest "+key, N == 2 || N&(N-1) != 0, "kzg_mpcsetup", "curve:"+c.name, "honest", fmt.Sprintf("N:%d", N), fmt.Sprintf("depth:%d", depth))

	// (2) reflective tampering of the contribution (unexported fields included)
	runTamper(t, tamperRun{
		test: test, scheme: "kzg_mpcsetup", c: c, honest: next, donor: donor, key: key, skip: kmSkip, max: 80,
		verify: func(o interface{}) error { return c.kmVerify(prev, o) },
		expect: func(o interface{}, s Site, mut string) (int, string) { return c.kmExpect(prev, o, s.Path) },
	})

	// (3) multi-component forgeries
	kind := rapid.SampledFrom([]string{"g1_powers_of_other_tau", "g1_arbitrary_points", "g1_one_power_replaced", "g2_other_tau_with_matching_g1",
		"pok_for_other_value", "everything_for_b_but_commitment_a", "consistent_other_secret",
		"g2_all_infinity_g1_arbitrary", "g2_starts_with_infinity_g1_arbitrary", "degenerate_prev_g2_all_infinity_g1_arbitrary", "g1_all_infinity"}).Draw(t, "forgery")
	b := c.drawNonZero(t, "b")
	if b.Cmp(a) == 0 {
		b = c.F.Add(b, bi(1))
	}
	forged := DeepCopy(next)
	f := kmAccess(forged)
	vprev := prev // the state the forged contribution is verified against
	powers := func(tt *big.Int) []*big.Int {
		out := make([]*big.Int, N)
		pw := bi(1)
		for i := range out {
			out[i] = pw
			pw = c.F.Mul(pw, tt)
		}
		return out
	}
	ch := append([]byte("KZG Setup"), c.kmHash(prev)...)
	tauB := c.F.Mul(b, tau)
	switch kind {
	case "g1_powers_of_other_tau": // G1 part updated with b, G2 part and proof with a
		f.g1.Set(c.ptVec(kG1, powers(tauB)))
	case "g1_arbitrary_points":
		ls := make([]*big.Int, N)
		ls[0] = bi(1)
		for i := 1; i < N; i++ {
			ls[i] = c.drawScalar(t, fmt.Sprintf("arb%d", i))
		}
		ls[N-1] = c.F.Add(c.F.Exp(tauNext, bi(int64(N-1))), bi(1)) // guaranteed different from the honest power
		f.g1.Set(c.ptVec(kG1, ls))
	case "g1_one_power_replaced":
		i := rapid.IntRange(1, N-1).Draw(t, "which")
		cur, _ := c.log(kG1, f.g1.Index(i).Addr().Interface())
		f.g1.Index(i).Set(reflect.ValueOf(c.pt(kG1, c.F.Add(cur, c.drawNonZero(t, "d")))).Elem())
	case "g2_other_tau_with_matching_g1": // SRS self-consistent for b·τ, proof for a
		f.g1.Set(c.ptVec(kG1, powers(tauB)))
		f.g2.Index(1).Set(reflect.ValueOf(c.pt(kG2, tauB)).Elem())
	case "pok_for_other_value":
		com := c.pt(kG1, a)
		f.proof.Set(reflect.ValueOf(c.mpcProof(com, c.mulPoint(kG2, c.pokBase(com, ch, 0), b))).Elem())
	case "everything_for_b_but_commitment_a":
		f.g1.Set(c.ptVec(kG1, powers(tauB)))
		f.g2.Index(1).Set(reflect.ValueOf(c.pt(kG2, tauB)).Elem())
		com := c.pt(kG1, a)
		f.proof.Set(reflect.ValueOf(c.mpcProof(com, c.mulPoint(kG2, c.pokBase(com, ch, 0), b))).Elem())
	case "consistent_other_secret": // a perfectly valid contribution with secret b (must be accepted)
		forged, _ = c.kmContribute(prev, tau, b)
	case "g2_all_infinity_g1_arbitrary", "g2_starts_with_infinity_g1_arbitrary", "degenerate_prev_g2_all_infinity_g1_arbitrary":
		// a degenerate (identity) G2 side proves nothing about the G1 powers: SameRatioMany documents that it needs a
		// non-zero representative in both groups, so a non-geometric G1 sequence must not get through
		if kind == "degenerate_prev_g2_all_infinity_g1_arbitrary" {
			// even when the previous state itself is degenerate ([τ]₂ = identity, so identity → identity is a valid
			// update of the G2 part and the update proof holds)
			vprev = DeepCopy(prev)
			kmAccess(vprev).g2.Index(1).Set(reflect.Zero(c.g2T))
			forged, _ = c.kmContribute(vprev, new(big.Int), a)
			f = kmAccess(forged)
		}
		ls := make([]*big.Int, N)
		ls[0] = bi(1)
		for i := 1; i < N; i++ {
			ls[i] = c.drawNonZero(t, fmt.Sprintf("arbg1_%d", i))
		}
		if N == 2 { // any two elements are "geometric": make the pair inconsistent with every ratio a G2 side could have
			ls[1] = c.F.Add(c.F.Mul(a, tau), bi(1))
		} else if c.F.Mul(ls[1], ls[1]).Cmp(ls[2]) == 0 {
			ls[2] = c.F.Add(ls[2], bi(1))
		}
		f.g1.Set(c.ptVec(kG1, ls))
		f.g2.Index(0).Set(reflect.Zero(c.g2T))
		if kind != "g2_starts_with_infinity_g1_arbitrary" {
			f.g2.Index(1).Set(reflect.Zero(c.g2T))
		}
	case "g1_all_infinity":
		zs := make([]*big.Int, N)
		for i := range zs {
			zs[i] = new(big.Int)
		}
		f.g1.Set(c.ptVec(kG1, zs))
	}
	want, why := c.kmExpect(vprev, forged, "")
	err := c.kmVerify(vprev, forged)
	fk := fmt.Sprintf("forgery %s b=%s %s", kind, b.Text(16), key)
	if strings.Contains(kind, "infinity") && want != mustReject {
		t.Fatalf("harness error: degenerate forgery %s expected to be rejected, oracle says %s", kind, why)
	}
	if want == mustReject && err == nil {
		t.Fatalf("kzg.MpcSetup/%s: FORGERY ACCEPTED: %s (%s) — prev.Verify(next) returned nil; %s", c.name, kind, why, fk)
	}
	if want == mustAccept && err != nil {
		t.Fatalf("kzg.MpcSetup/%s: consistent contribution (%s) rejected: %v; %s", c.name, kind, err, fk)
	}
	rep.Case(test, fk, true, "kzg_mpcsetup", "curve:"+c.name, "exponent", "forgery:"+kind, "why:"+why)
}

// propKzgMpcLibrary: the library's own Contribute() (secret contribution): completeness, wire round trip, and
// "one wire component changed ⇒ rejected".
func propKzgMpcLibrary(t *rapid.T, c *cv) {
	test := "C17a_KzgMpcSetupLib/" + c.name
	N := rapid.IntRange(2, rep.Scale(8, 16)).Draw(t, "N")
	depth := rapid.IntRange(0, 2).Draw(t, "depth")
	prev := c.kmInit(N)
	for d := 0; d < depth; d++ {
		reg.M(prev, "Contribute")
	}
	next := DeepCopy(prev)
	reg.M(next, "Contribute")
	donor := DeepCopy(prev)
	reg.M(donor, "Contribute")
	key := fmt.Sprintf("%s N=%d depth=%d (library Contribute, secret randomness)", c.name, N, depth)
	if err := c.kmVerify(prev, next); err != nil {
		t.Fatalf("kzg.MpcSetup/%s: honest Contribute() rejected: %v (%s)", c.name, err, key)
	}
	// wire round trip, then verify the decoded contribution
	var bb bytes.Buffer
	if err := errOf(reg.M(next, "WriteTo", &bb)); err != nil {
		t.Fatalf("WriteTo: %v", err)
	}
	back := c.kzg.New("MpcSetup")
	if err := errOf(reg.M(back, "ReadFrom", bytes.NewReader(bb.Bytes()))); err != nil {
		t.Fatalf("kzg.MpcSetup/%s: ReadFrom(WriteTo(next)): %v", c.name, err)
	}
	if err := c.kmVerify(prev, back); err != nil {
		t.Fatalf("kzg.MpcSetup/%s: decoded honest contribution rejected: %v (%s)", c.name, err, key)
	}
	rep.Case(test, "honest "+key, N == 2 || N&(N-1) != 0, "kzg_mpcsetup_lib", "curve:"+c.name, "honest", "wire_round_trip", fmt.Sprintf("N:%d", N))
	runTamper(t, tamperRun{
		test: test, scheme: "kzg_mpcsetup_lib", c: c, honest: next, donor: donor, key: key, skip: kmSkip, max: 40,
		verify: func(o interface{}) error { return c.kmVerify(prev, o) },
		expect: func(o interface{}, s Site, mut string) (int, string) {
			p := s.Path
			if strings.HasSuffix(p, ".Pk.G1[0]") || strings.HasSuffix(p, ".Vk.G2[0]") || strings.HasSuffix(p, ".Vk.G1") {
				return noAssert, "not_a_wire_component"
			}
			if s.Kind == KBytes && mut == "len0" {
				return noAssert, "empty_challenge_is_filled_in_by_verify"
			}
			// any other single change of a wire component of an honest contribution makes it inconsistent
			return mustReject, "single_wire_component_changed"
		},
	})
}

func TestC17a_KzgMpcSetup(t *testing.T) {
	forCurves(t, func(t *testing.T, c *cv) { rapid.Check(t, func(t *rapid.T) { propKzgMpc(t, c) }) })
}

func TestC17a_KzgMpcSetupLib(t *testing.T) {
	forCurves(t, func(t *testing.T, c *cv) { rapid.Check(t, func(t *rapid.T) { propKzgMpcLibrary(t, c) }) })
}
