package c17a

// SHPLONK batch openings (ecc/<curve>/shplonk).
//
// The harness creates the SRS from a rapid-drawn τ (kzg.NewSRS(size, τ)), so every group element of an
// instance has a known logarithm: digests c_i = f_i(τ), and — because the prover is deterministic — the honest
// proof itself: w = Σ_i γ^i Z_{T\S_i}(τ)(f_i(τ) − r_i(τ)) / Z_T(τ),  w' = L(τ)/(τ − z) with
// L(X) = Σ_i γ^i Z_{T\S_i}(z)(f_i(X) − r_i(z)) − Z_T(z) w(X). γ and z are re-derived with the reference
// transcript (harness/internal/ref/transcript.go over crypto/sha256), not with the library's.
// The verifier's pairing equation e(F + zW', G2) = e(W', [τ]G2) is then the scalar identity
//
//	Σ_i γ^i Z_{T\S_i}(z) c_i − Σ_i γ^i Z_{T\S_i}(z) r_i(z) − Z_T(z) w + z w' − τ w' ≡ 0 (mod r)
//
// which decides the expected verdict of EVERY tampered proof exactly (both directions).

import (
	"crypto/sha256"
	"fmt"
	"math/big"
	"reflect"
	"testing"

	"pgregory.net/rapid"

	"verif/harness/internal/ref"
	"verif/harness/internal/reg"
	"verif/harness/internal/rep"
)

// ---- scalar-field polynomial helpers (reference side) -------------------------------------------

func (c *cv) polyEval(f []*big.Int, x *big.Int) *big.Int {
	y := new(big.Int)
	for i := len(f) - 1; i >= 0; i-- {
		y.Mul(y, x)
		y.Add(y, f[i])
		y.Mod(y, c.r)
	}
	return y
}

// vanish evaluates Π (x − p) over pts.
func (c *cv) vanish(pts []*big.Int, x *big.Int) *big.Int {
	y := bi(1)
	for _, p := range pts {
		y = c.F.Mul(y, c.F.Sub(x, p))
	}
	return y
}

// lagrangeAt returns ℓ_j(z) for the nodes xs (pairwise distinct).
func (c *cv) lagrangeAt(xs []*big.Int, j int, z *big.Int) *big.Int {
	num, den := bi(1), bi(1)
	for k := range xs {
		if k == j {
			continue
		}
		num = c.F.Mul(num, c.F.Sub(z, xs[k]))
		den = c.F.Mul(den, c.F.Sub(xs[j], xs[k]))
	}
	return c.F.Mul(num, c.F.Inv(den))
}

// interpAt evaluates at z the polynomial of degree < len(xs) through (xs[j], ys[j]).
func (c *cv) interpAt(xs, ys []*big.Int, z *big.Int) *big.Int {
	acc := new(big.Int)
	for j := range xs {
		acc = c.F.Add(acc, c.F.Mul(ys[j], c.lagrangeAt(xs, j, z)))
	}
	return acc
}

func flat(x [][]*big.Int) []*big.Int {
	var out []*big.Int
	for _, s := range x {
		out = append(out, s...)
	}
	return out
}

func without(x [][]*big.Int, i int) []*big.Int {
	var out []*big.Int
	for j, s := range x {
		if j != i {
			out = append(out, s...)
		}
	}
	return out
}

// ---- instance --------------------------------------------------------------------------------------

type shpInstance struct {
	tau     *big.Int
	srs     interface{} // *kzg.SRS
	polys   [][]*big.Int
	points  [][]*big.Int
	data    [][]byte
	cLog    []*big.Int    // f_i(τ)
	digests reflect.Value // []kzg.Digest
	proof   interface{}   // *shplonk.OpeningProof (honest)
	gamma   *big.Int
	z       *big.Int
}

func (c *cv) newSRS(size int, tau *big.Int) interface{} {
	res := c.kzg.F("NewSRS", uint64(size), tau)
	if err := errOf(res); err != nil {
		panic(fmt.Sprintf("kzg.NewSRS(%d): %v", size, err))
	}
	return res[0]
}

// shpChallenges re-derives γ and z like the documented transcript: γ = H("gamma" ‖ points ‖ digests ‖ data),
// z = H("z" ‖ γ-bytes ‖ W), both reduced modulo r from big-endian bytes.
func (c *cv) shpChallenges(points [][]*big.Int, digests reflect.Value, W interface{}, data [][]byte) (gamma, z *big.Int) {
	tr := ref.NewTranscript(ref.SHA256Chunks, "gamma", "z")
	for _, s := range points {
		for _, p := range s {
			tr.Bind("gamma", c.frMarshal(p))
		}
	}
	for i := 0; i < digests.Len(); i++ {
		tr.Bind("gamma", ptBytes(digests.Index(i).Addr().Interface()))
	}
	for _, d := range data {
		tr.Bind("gamma", d)
	}
	gb, _ := tr.Compute("gamma")
	tr.Bind("z", ptBytes(W))
	zb, _ := tr.Compute("z")
	return c.red(new(big.Int).SetBytes(gb)), c.red(new(big.Int).SetBytes(zb))
}

// shpCoef returns, for every claimed-value slot (i,j), its coefficient γ^i Z_{T\S_i}(z) ℓ_{i,j}(z) in
// S = Σ_i γ^i Z_{T\S_i}(z) r_i(z), plus the per-polynomial factors γ^i Z_{T\S_i}(z).
func (c *cv) shpCoef(points [][]*big.Int, gamma, z *big.Int) (slot [][]*big.Int, per []*big.Int) {
	g := bi(1)
	for i := range points {
		f := c.F.Mul(g, c.vanish(without(points, i), z))
		per = append(per, f)
		row := make([]*big.Int, len(points[i]))
		for j := range row {
			row[j] = c.F.Mul(f, c.lagrangeAt(points[i], j, z))
		}
		slot = append(slot, row)
		g = c.F.Mul(g, gamma)
	}
	return
}

// shpRelation evaluates the verifier's equation in the exponent. ok=false: some logarithm is unknown.
func (c *cv) shpRelation(tau *big.Int, points [][]*big.Int, cLogs []*big.Int, cv [][]*big.Int, w, wp, gamma, z *big.Int) bool {
	slot, per := c.shpCoef(points, gamma, z)
	acc := new(big.Int)
	for i := range points {
		acc = c.F.Add(acc, c.F.Mul(per[i], cLogs[i]))
		for j := range points[i] {
			acc = c.F.Sub(acc, c.F.Mul(slot[i][j], cv[i][j]))
		}
	}
	acc = c.F.Sub(acc, c.F.Mul(c.vanish(flat(points), z), w))
	acc = c.F.Add(acc, c.F.Mul(z, wp))
	acc = c.F.Sub(acc, c.F.Mul(tau, wp))
	return acc.Sign() == 0
}

// shpHonestLogs computes the logarithms of the honest proof (W, W') for the statement.
func (c *cv) shpHonestLogs(tau *big.Int, polys, points [][]*big.Int, gamma *big.Int, z func(w *big.Int) *big.Int) (w, wp, zz *big.Int) {
	// w(τ) = Σ γ^i Z_{T\S_i}(τ)(f_i(τ) − r_i(τ)) / Z_T(τ)
	num := new(big.Int)
	g := bi(1)
	for i := range polys {
		ys := make([]*big.Int, len(points[i]))
		for j := range ys {
			ys[j] = c.polyEval(polys[i], points[i][j])
		}
		d := c.F.Sub(c.polyEval(polys[i], tau), c.interpAt(points[i], ys, tau))
		num = c.F.Add(num, c.F.Mul(c.F.Mul(g, c.vanish(without(points, i), tau)), d))
		g = c.F.Mul(g, gamma)
	}
	w = c.F.Mul(num, c.F.Inv(c.vanish(flat(points), tau)))
	zz = z(w)
	// L(τ) = Σ γ^i Z_{T\S_i}(z)(f_i(τ) − r_i(z)) − Z_T(z) w(τ)
	L := new(big.Int)
	g = bi(1)
	for i := range polys {
		ys := make([]*big.Int, len(points[i]))
		for j := range ys {
			ys[j] = c.polyEval(polys[i], points[i][j])
		}
		d := c.F.Sub(c.polyEval(polys[i], tau), c.interpAt(points[i], ys, zz))
		L = c.F.Add(L, c.F.Mul(c.F.Mul(g, c.vanish(without(points, i), zz)), d))
		g = c.F.Mul(g, gamma)
	}
	L = c.F.Sub(L, c.F.Mul(c.vanish(flat(points), zz), w))
	wp = c.F.Mul(L, c.F.Inv(c.F.Sub(tau, zz)))
	return
}

func containsBig(xs []*big.Int, v *big.Int) bool {
	for _, x := range xs {
		if x.Cmp(v) == 0 {
			return true
		}
	}
	return false
}

// shpDraw draws an admissible statement: nPolys polynomials of sizes 1..maxSize, point sets of 1..maxPts
// pairwise distinct points (a point may be shared between two sets), optional transcript data.
func (c *cv) shpDraw(t *rapid.T, tag string, maxPolys, maxSize, maxPts int) (polys, points [][]*big.Int, data [][]byte, classes []string) {
	n := rapid.IntRange(1, maxPolys).Draw(t, tag+"n")
	var all []*big.Int
	shared := false
	for i := 0; i < n; i++ {
		sz := rapid.IntRange(1, maxSize).Draw(t, fmt.Sprintf("%ssize%d", tag, i))
		f := make([]*big.Int, sz)
		for j := range f {
			f[j] = c.drawScalar(t, fmt.Sprintf("%sf%d_%d", tag, i, j))
		}
		np := rapid.IntRange(1, maxPts).Draw(t, fmt.Sprintf("%snpts%d", tag, i))
		var s []*big.Int
		for j := 0; j < np; j++ {
			var p *big.Int
			if len(all) > 0 && rapid.IntRange(0, 7).Draw(t, fmt.Sprintf("%sshare%d_%d", tag, i, j)) == 0 {
				p = all[rapid.IntRange(0, len(all)-1).Draw(t, "which")]
			} else {
				p = c.drawScalar(t, fmt.Sprintf("%sx%d_%d", tag, i, j))
			}
			for containsBig(s, p) { // within one set the points are pairwise distinct (it is a set)
				p = c.F.Add(p, bi(1))
			}
			if containsBig(all, p) {
				shared = true
			}
			s = append(s, p)
		}
		all = append(all, s...)
		polys = append(polys, f)
		points = append(points, s)
	}
	var dclass string
	data, dclass = c.drawExtraData(t, tag+"xd")
	classes = append(classes, "extra_data_kind:"+dclass)
	if len(data) > 0 {
		classes = append(classes, "with_transcript_data")
	}
	if shared {
		classes = append(classes, "point_shared_between_sets")
	}
	if n == 1 {
		classes = append(classes, "single_polynomial")
	}
	return
}

// shpProve commits, opens with the library and checks digests and proof against the prediction in the exponent.
func (c *cv) shpProve(t fataler, tau *big.Int, srs interface{}, polys, points [][]*big.Int, data [][]byte) *shpInstance {
	in := &shpInstance{tau: tau, srs: srs, polys: polys, points: points, data: data}
	pk := reg.Field(srs, "Pk")
	n := len(polys)
	in.digests = reflect.MakeSlice(reflect.SliceOf(c.g1T), n, n)
	for i := range polys {
		res := c.kzg.F("Commit", c.feVec(polys[i]).Interface(), pk)
		if err := errOf(res); err != nil {
			t.Fatalf("shplonk/%s: kzg.Commit: %v", c.name, err)
		}
		in.digests.Index(i).Set(reflect.ValueOf(res[0]))
		l := c.polyEval(polys[i], tau)
		in.cLog = append(in.cLog, l)
		if !ptEqual(in.digests.Index(i).Addr().Interface(), c.pt(kG1, l)) {
			t.Fatalf("shplonk/%s: kzg.Commit(f) != [f(τ)]G1", c.name)
		}
	}
	args := []interface{}{c.feVec2(polys).Interface(), in.digests.Interface(), c.feVec2(points).Interface(), sha256.New(), pk}
	for _, d := range data {
		args = append(args, d)
	}
	res := c.shp.F("BatchOpen", args...)
	if err := errOf(res); err != nil {
		t.Fatalf("shplonk/%s: BatchOpen failed on an admissible statement: %v", c.name, err)
	}
	in.proof = ptrOf(res[0])
	W := reg.Field(in.proof, "W")
	WP := reg.Field(in.proof, "WPrime")
	gamma, _ := c.shpChallenges(points, in.digests, W, data) // γ does not depend on W
	w, wp, z := c.shpHonestLogs(tau, polys, points, gamma, func(w *big.Int) *big.Int {
		_, z := c.shpChallenges(points, in.digests, c.pt(kG1, w), data)
		return z
	})
	in.gamma, in.z = gamma, z
	if !ptEqual(W, c.pt(kG1, w)) {
		t.Fatalf("shplonk/%s: prover's W differs from the reference quotient commitment [w(τ)]G1 (γ=%s)", c.name, gamma.Text(16))
	}
	if !ptEqual(WP, c.pt(kG1, wp)) {
		t.Fatalf("shplonk/%s: prover's W' differs from the reference [L(τ)/(τ−z)]G1 (z=%s)", c.name, z.Text(16))
	}
	// claimed values are the evaluations
	cvs := bigVec2(reflect.ValueOf(in.proof).Elem().FieldByName("ClaimedValues"))
	for i := range polys {
		if len(cvs[i]) != len(points[i]) {
			t.Fatalf("shplonk/%s: wrong number of claimed values", c.name)
		}
		for j := range points[i] {
			if cvs[i][j].Cmp(c.polyEval(polys[i], points[i][j])) != 0 {
				t.Fatalf("shplonk/%s: ClaimedValues[%d][%d] != f_i(x_ij)", c.name, i, j)
			}
		}
	}
	return in
}

func (c *cv) shpVerify(proof interface{}, digests reflect.Value, points [][]*big.Int, srs interface{}, data [][]byte) error {
	args := []interface{}{proof, digests.Interface(), c.feVec2(points).Interface(), sha256.New(), reg.Field(srs, "Vk")}
	for _, d := range data {
		args = append(args, d)
	}
	return errOf(c.shp.F("BatchVerify", args...))
}

// shpObj bundles statement and proof for the tamper engine:
// struct{ Digests []G1Affine; Points [][]fr.Element; Proof shplonk.OpeningProof }.
func (c *cv) shpObjType() reflect.Type {
	return reflect.StructOf([]reflect.StructField{
		{Name: "Digests", Type: reflect.SliceOf(c.g1T)},
		{Name: "Points", Type: reflect.SliceOf(reflect.SliceOf(c.frT))},
		{Name: "Proof", Type: c.shp.Types["OpeningProof"]},
	})
}

func (c *cv) shpObj(in *shpInstance) interface{} {
	o := reflect.New(c.shpObjType())
	o.Elem().Field(0).Set(in.digests)
	o.Elem().Field(1).Set(c.feVec2(in.points))
	o.Elem().Field(2).Set(reflect.ValueOf(in.proof).Elem())
	return DeepCopy(o.Interface())
}

// shpExpectObj computes the expected verdict of BatchVerify on a (tampered) object.
func (c *cv) shpExpectObj(in *shpInstance, o interface{}) (int, string) {
	v := reflect.ValueOf(o).Elem()
	digests, pts, proof := v.Field(0), bigVec2(v.Field(1)), v.Field(2)
	cvs := bigVec2(proof.FieldByName("ClaimedValues"))
	if digests.Len() != len(cvs) || digests.Len() != len(pts) {
		return mustReject, "length_mismatch"
	}
	if len(pts) == 0 {
		return noAssert, "empty_statement"
	}
	for i := range pts {
		if len(cvs[i]) < len(pts[i]) {
			return mustReject, "too_few_claimed_values"
		}
		for j := range pts[i] {
			for k := 0; k < j; k++ {
				if pts[i][j].Cmp(pts[i][k]) == 0 {
					return noAssert, "repeated_point_in_set" // interpolation through a repeated node is undefined
				}
			}
		}
	}
	extra := false
	for i := range pts {
		if len(cvs[i]) > len(pts[i]) {
			extra = true // surplus claimed values are ignored by the verifier
		}
	}
	cl := make([]*big.Int, digests.Len())
	for i := range cl {
		l, ok := c.log(kG1, digests.Index(i).Addr().Interface())
		if !ok {
			return noAssert, "digest_outside_subgroup" // KZG/SHPLONK document no subgroup check
		}
		cl[i] = l
	}
	W, WP := proof.FieldByName("W").Addr().Interface(), proof.FieldByName("WPrime").Addr().Interface()
	w, ok1 := c.log(kG1, W)
	wp, ok2 := c.log(kG1, WP)
	if !ok1 || !ok2 {
		return noAssert, "proof_point_outside_subgroup"
	}
	gamma, z := c.shpChallenges(pts, digests, W, in.data)
	if c.shpRelation(in.tau, pts, cl, cvs, w, wp, gamma, z) {
		if extra {
			return noAssert, "relation_holds_surplus_values_ignored" // a malformed proof: nothing is claimed about it
		}
		return mustAccept, "relation_holds"
	}
	return mustReject, "relation_fails"
}

// shpStatementTrue: every claimed value is the evaluation of the committed polynomial (digests honest).
func (c *cv) shpStatementTrue(in *shpInstance, cvs [][]*big.Int) bool {
	for i := range in.polys {
		for j := range in.points[i] {
			if cvs[i][j].Cmp(c.polyEval(in.polys[i], in.points[i][j])) != 0 {
				return false
			}
		}
	}
	return true
}

// shpShift builds the F15 forgery: after γ and z are known (they depend on points, digests and W only), two
// claimed values are moved by δ and −δ·coef_a/coef_b where coef is the slot's coefficient in
// S = Σ_i γ^i Z_{T\S_i}(z) r_i(z); S — the only place where the verifier uses the claimed values — is unchanged.
func (c *cv) shpShift(in *shpInstance, a, b [2]int, delta *big.Int) (forged interface{}, ok bool) {
	slot, _ := c.shpCoef(in.points, in.gamma, in.z)
	ca, cb := slot[a[0]][a[1]], slot[b[0]][b[1]]
	if cb.Sign() == 0 || ca.Sign() == 0 {
		return nil, false
	}
	forged = DeepCopy(in.proof)
	cvs := reflect.ValueOf(forged).Elem().FieldByName("ClaimedValues")
	va := cvs.Index(a[0]).Index(a[1])
	vb := cvs.Index(b[0]).Index(b[1])
	na := c.F.Add(feBig(va), delta)
	nb := c.F.Sub(feBig(vb), c.F.Mul(delta, c.F.Mul(ca, c.F.Inv(cb))))
	va.Set(reflect.ValueOf(c.fe(na)).Elem())
	vb.Set(reflect.ValueOf(c.fe(nb)).Elem())
	return forged, true
}

func propShplonk(t *rapid.T, c *cv) {
	test := "C17a_Shplonk/" + c.name
	polys, points, data, classes := c.shpDraw(t, "a", rep.Scale(4, 6), rep.Scale(9, 20), rep.Scale(3, 5))
	dpolys, dpoints, _, _ := c.shpDraw(t, "d", len(polys), 4, 3)
	for len(dpolys) < len(polys) { // donor with the same number of polynomials where possible
		dpolys = append(dpolys, dpolys[0])
		dpoints = append(dpoints, dpoints[0])
	}
	tau := c.drawNonZero(t, "tau")
	for c.vanish(flat(points), tau).Sign() == 0 || c.vanish(flat(dpoints), tau).Sign() == 0 {
		tau = c.F.Add(tau, bi(1))
	}
	srs := c.newSRS(rep.Scale(32, 64), tau) // ≥ max polynomial size + number of points
	in := c.shpProve(t, tau, srs, polys, points, data)
	don := c.shpProve(t, tau, srs, dpolys, dpoints, data)
	npts := len(flat(points))
	key := fmt.Sprintf("%s tau=%s polys=%v points=%v data=%x", c.name, tau.Text(16), polys, points, data)

	// (1) completeness
	if err := c.shpVerify(in.proof, in.digests, points, srs, data); err != nil {
		t.Fatalf("shplonk/%s: honest proof rejected: %v (%s)", c.name, err, key)
	}
	minimal := len(polys) == 1 && npts == 1
	rep.Case(test, "honest "+key, minimal || npts&(npts-1) != 0,
		append([]string{"shplonk", "curve:" + c.name, "honest", fmt.Sprintf("polys:%d", len(polys)), fmt.Sprintf("points:%d", npts)}, classes...)...)

	// (1b) the optional transcript data: accepted with exactly the prover's data, rejected with any other byte string
	c.extraDataCheck(t, test, "shplonk", data, key, func(B [][]byte) (int, string) {
		inB := *in
		inB.data = B
		return c.shpExpectObj(&inB, c.shpObj(in))
	}, func(B [][]byte) error { return c.shpVerify(in.proof, in.digests, points, srs, B) })

	// (2) reflective tampering of statement and proof, verdict decided in the exponent
	runTamper(t, tamperRun{
		test: test, scheme: "shplonk", c: c, honest: c.shpObj(in), donor: c.shpObj(don), key: key, max: 90,
		verify: func(o interface{}) error {
			v := reflect.ValueOf(o).Elem()
			return c.shpVerify(v.Field(2).Addr().Interface(), v.Field(0), bigVec2(v.Field(1)), srs, data)
		},
		expect: func(o interface{}, s Site, mut string) (int, string) { return c.shpExpectObj(in, o) },
	})

	// (3) accept ⇔ relation on arbitrary group elements: W arbitrary, W' solved from the equation (or missed by
	//     one), claimed values arbitrary — a "proof" made with the trapdoor, not by the prover.
	{
		w := c.drawScalar(t, "w_any")
		W := c.pt(kG1, w)
		cvs := make([][]*big.Int, len(points))
		for i := range cvs {
			cvs[i] = make([]*big.Int, len(points[i]))
			for j := range cvs[i] {
				cvs[i][j] = c.drawScalar(t, fmt.Sprintf("cv%d_%d", i, j))
			}
		}
		gamma, z := c.shpChallenges(points, in.digests, W, data)
		slot, per := c.shpCoef(points, gamma, z)
		acc := new(big.Int)
		for i := range points {
			acc = c.F.Add(acc, c.F.Mul(per[i], in.cLog[i]))
			for j := range points[i] {
				acc = c.F.Sub(acc, c.F.Mul(slot[i][j], cvs[i][j]))
			}
		}
		acc = c.F.Sub(acc, c.F.Mul(c.vanish(flat(points), z), w))
		if d := c.F.Sub(tau, z); d.Sign() != 0 {
			wp := c.F.Mul(acc, c.F.Inv(d))
			miss := rapid.SampledFrom([]string{"exact", "plus1", "minus1", "negated", "zero"}).Draw(t, "miss")
			switch miss {
			case "plus1":
				wp = c.F.Add(wp, bi(1))
			case "minus1":
				wp = c.F.Sub(wp, bi(1))
			case "negated":
				wp = c.F.Neg(wp)
			case "zero":
				wp = new(big.Int)
			}
			pr := c.shp.New("OpeningProof")
			reflect.ValueOf(pr).Elem().FieldByName("W").Set(reflect.ValueOf(W).Elem())
			reflect.ValueOf(pr).Elem().FieldByName("WPrime").Set(reflect.ValueOf(c.pt(kG1, wp)).Elem())
			reflect.ValueOf(pr).Elem().FieldByName("ClaimedValues").Set(c.feVec2(cvs))
			holds := c.shpRelation(tau, points, in.cLog, cvs, w, wp, gamma, z)
			err := c.shpVerify(pr, in.digests, points, srs, data)
			if holds != (err == nil) {
				t.Fatalf("shplonk/%s: verdict differs from the relation in the exponent (%s): relation=%v verifier=%v (%s)", c.name, miss, holds, err, key)
			}
			rep.Case(test, fmt.Sprintf("exponent %s w=%s wp=%s %s", miss, w.Text(16), wp.Text(16), key), true,
				"shplonk", "curve:"+c.name, "exponent", "exp:"+miss, fmt.Sprintf("exp_relation:%v", holds))
		}
	}

	// (4) adaptive forgery (weak Fiat–Shamir): claimed values chosen after γ and z. Class F15.
	if npts >= 2 {
		var slots [][2]int
		for i := range points {
			for j := range points[i] {
				slots = append(slots, [2]int{i, j})
			}
		}
		ia := rapid.IntRange(0, len(slots)-1).Draw(t, "shift_a")
		ib := rapid.IntRange(0, len(slots)-2).Draw(t, "shift_b")
		if ib >= ia {
			ib++
		}
		delta := c.drawNonZero(t, "delta")
		forged, ok := c.shpShift(in, slots[ia], slots[ib], delta)
		if ok {
			cvs := bigVec2(reflect.ValueOf(forged).Elem().FieldByName("ClaimedValues"))
			if c.shpStatementTrue(in, cvs) {
				t.Fatalf("harness error: shifted claims are still true")
			}
			fk := fmt.Sprintf("adaptive shift a=%v b=%v delta=%s %s", slots[ia], slots[ib], delta.Text(16), key)
			// The known finding tolerates exactly one thing: the verdict of the exactly compensated shift (for which the
			// verifier's relation holds although the claims are false). Pin the class: the construction must satisfy the
			// relation, and its nearest neighbour — the same shift with the compensation off by one — must be rejected,
			// known finding or not.
			{
				o := c.shpObj(in)
				reflect.ValueOf(o).Elem().Field(2).Set(reflect.ValueOf(forged).Elem())
				if w, why := c.shpExpectObj(in, o); w != mustAccept {
					t.Fatalf("harness error: the F15 construction does not satisfy the verifier's relation (%s)", why)
				}
				near := DeepCopy(forged)
				e := reflect.ValueOf(near).Elem().FieldByName("ClaimedValues").Index(slots[ib][0]).Index(slots[ib][1])
				e.Set(reflect.ValueOf(c.fe(c.F.Add(feBig(e), bi(1)))).Elem())
				reflect.ValueOf(o).Elem().Field(2).Set(reflect.ValueOf(near).Elem())
				if w, why := c.shpExpectObj(in, o); w != mustReject {
					t.Fatalf("harness error: miscompensated shift expected to break the relation (%s)", why)
				}
				if err := c.shpVerify(near, in.digests, points, srs, data); err == nil {
					t.Fatalf("shplonk/%s: FORGERY ACCEPTED: jointly shifted claimed values with the compensation off by one verify — NOT the known finding F15 (only the exactly compensated shift is) (%s)", c.name, fk)
				}
				rep.Case(test, "miscompensated "+fk, true, "shplonk", "curve:"+c.name, "adaptive_shift_miscompensated", "verdict:rejected")
			}
			if rep.Known(prop, keyF15) {
				// known finding: the class is excluded from the asserting generator; only the exactness of the
				// verdict w.r.t. the relation is still checked (the relation holds by construction)
				rep.Excluded(test, prop, keyF15)
				if err := c.shpVerify(forged, in.digests, points, srs, data); err != nil {
					rep.Note(test, "F15 shift no longer verifies on "+c.name+": "+err.Error())
				}
			} else {
				if err := c.shpVerify(forged, in.digests, points, srs, data); err == nil {
					t.Fatalf("shplonk/%s: FORGERY ACCEPTED: claimed values shifted jointly after γ,z (slots %v,%v by δ=%s and −δ·coef_a/coef_b) verify although both claims are false [F15] (%s)",
						c.name, slots[ia], slots[ib], delta.Text(16), key)
				}
				rep.Case(test, fk, true, "shplonk", "curve:"+c.name, "adaptive_shift", "verdict:rejected")
			}
		}
	}
}

func TestC17a_Shplonk(t *testing.T) {
	forCurves(t, func(t *testing.T, c *cv) { rapid.Check(t, func(t *rapid.T) { propShplonk(t, c) }) })
}

// ---- optional extra transcript data (dataTranscript ...[]byte of shplonk and fflonk) ---------------------

// drawExtraData draws the prover's extra transcript data: none, one element, several elements, an empty element,
// a long element.
func (c *cv) drawExtraData(t *rapid.T, tag string) ([][]byte, string) {
	bs := func(lo, hi int, l string) []byte { return rapid.SliceOfN(rapid.Byte(), lo, hi).Draw(t, tag+l) }
	switch kind := rapid.SampledFrom([]string{"none", "none", "one_element", "several_elements", "empty_element", "long_element"}).Draw(t, tag+"kind"); kind {
	case "one_element":
		return [][]byte{bs(1, 40, "e0")}, kind
	case "several_elements":
		n := rapid.IntRange(2, 4).Draw(t, tag+"n")
		var d [][]byte
		for i := 0; i < n; i++ {
			d = append(d, bs(1, 24, fmt.Sprintf("e%d", i)))
		}
		return d, kind
	case "empty_element":
		if rapid.Bool().Draw(t, tag+"alone") {
			return [][]byte{{}}, kind
		}
		return [][]byte{bs(1, 16, "e0"), {}, bs(1, 16, "e2")}, kind
	case "long_element":
		return [][]byte{bs(200, 700, "long")}, kind
	default:
		return nil, "none"
	}
}

func concatAll(d [][]byte) []byte {
	var out []byte
	for _, e := range d {
		out = append(out, e...)
	}
	return out
}

func cloneData(d [][]byte) [][]byte {
	out := make([][]byte, len(d))
	for i := range d {
		out[i] = append([]byte{}, d[i]...)
	}
	return out
}

// extraDataCheck verifies an honest proof made with data A against A itself and against every variant B of A.
// The documented layout ("appended at the end of the original transcript"; challenge = H(name ‖ previous ‖ bound
// values…)) makes the challenge a function of the CONCATENATION of the elements: a variant with the same bytes in
// another framing (split / merged elements, an added empty element) is the same transcript and is decided — like
// everything else — by the relation in the exponent (expect); every variant with other bytes must be rejected.
func (c *cv) extraDataCheck(t *rapid.T, test, scheme string, A [][]byte, key string, expect func(B [][]byte) (int, string), verify func(B [][]byte) error) {
	type variant struct {
		name string
		B    [][]byte
	}
	vs := []variant{{"same", cloneData(A)}}
	rb := func(l string, lo, hi int) []byte { return rapid.SliceOfN(rapid.Byte(), lo, hi).Draw(t, "xdv_"+l) }
	if len(A) == 0 {
		vs = append(vs, variant{"none_vs_one_element", [][]byte{rb("some", 1, 20)}},
			variant{"none_vs_several_elements", [][]byte{rb("s0", 1, 8), rb("s1", 1, 8)}},
			variant{"none_vs_empty_element", [][]byte{{}}})
	} else {
		vs = append(vs, variant{"some_vs_none", nil})
		all := concatAll(A)
		if len(all) > 0 {
			// one byte changed (position drawn over the whole data)
			pos := rapid.IntRange(0, len(all)-1).Draw(t, "xdv_pos")
			B := cloneData(A)
			for i, off := 0, 0; i < len(B); i++ {
				if pos < off+len(B[i]) {
					B[i][pos-off] ^= byte(1 << uint(rapid.IntRange(0, 7).Draw(t, "xdv_bit")))
					break
				}
				off += len(B[i])
			}
			vs = append(vs, variant{"one_bit_changed", B})
			// last byte dropped / one byte appended
			B = cloneData(A)
			for i := len(B) - 1; i >= 0; i-- {
				if len(B[i]) > 0 {
					B[i] = B[i][:len(B[i])-1]
					break
				}
			}
			vs = append(vs, variant{"last_byte_dropped", B})
			B = cloneData(A)
			B[len(B)-1] = append(B[len(B)-1], rb("app", 1, 1)...)
			vs = append(vs, variant{"byte_appended", B})
			// same bytes, other framing: split one element, merge all elements, add an empty element
			B = nil
			for _, e := range A {
				if len(e) >= 2 {
					B = append(B, append([]byte{}, e[:len(e)/2]...), append([]byte{}, e[len(e)/2:]...))
				} else {
					B = append(B, append([]byte{}, e...))
				}
			}
			vs = append(vs, variant{"framing_split", B}, variant{"framing_merged", [][]byte{all}})
		}
		vs = append(vs, variant{"framing_empty_element_added", append(cloneData(A), []byte{})})
		vs = append(vs, variant{"element_added", append(cloneData(A), rb("add", 1, 12))})
		if len(A) >= 2 {
			B := cloneData(A)
			B[0], B[len(B)-1] = B[len(B)-1], B[0]
			vs = append(vs, variant{"elements_swapped", B}, variant{"last_element_dropped", cloneData(A)[:len(A)-1]})
		}
	}
	for _, v := range vs {
		want, why := expect(v.B)
		sameBytes := string(concatAll(v.B)) == string(concatAll(A))
		// harness sanity: the oracle can only keep accepting when the transcript bytes are the same
		if want == mustAccept && !sameBytes {
			// possible only for degenerate statements where the relation does not depend on the challenges
			// (all polynomials constant: W = W' = identity); decided by the relation, labelled separately
			why = "relation_independent_of_challenges"
		}
		if sameBytes && want != mustAccept {
			t.Fatalf("harness error: same transcript bytes but the oracle does not accept (%s)", why)
		}
		err := verify(v.B)
		cls := "extra_data:different_reject"
		switch {
		case v.name == "same":
			cls = "extra_data:same_accept"
		case sameBytes:
			cls = "extra_data:same_bytes_other_framing_accept"
		case want == mustAccept:
			cls = "extra_data:different_but_relation_holds_accept"
		}
		if want == mustAccept && err != nil {
			t.Fatalf("%s/%s: proof made with transcript data %x rejected when verified with %s data %x (%s): %v — %s", scheme, c.name, A, v.name, v.B, why, err, key)
		}
		if want == mustReject && err == nil {
			t.Fatalf("%s/%s: FORGERY ACCEPTED: proof made with transcript data %x verifies with OTHER data (%s) %x — the extra data is not bound to the challenges — %s", scheme, c.name, A, v.name, v.B, key)
		}
		rep.Case(test, fmt.Sprintf("%s extra_data %s A=%x B=%x %s", scheme, v.name, A, v.B, key), true, scheme, "curve:"+c.name,
			cls, cls+":"+scheme, "extra_data_variant:"+v.name, "why:"+why)
	}
}
