package c17a

// Rapid-free regression tests for the defects this check found on the unchanged tree, and the probe that
// re-observes the known finding F15.

import (
	"fmt"
	"math/big"
	"reflect"
	"testing"

	"verif/harness/internal/reg"
	"verif/harness/internal/rep"
)

type fataler interface {
	Fatalf(format string, args ...any)
}

func bigs(xs ...int64) []*big.Int {
	out := make([]*big.Int, len(xs))
	for i, x := range xs {
		out[i] = bi(x)
	}
	return out
}

// F19: kzg.MpcSetup.Verify(next) ran its final SameRatioMany on the receiver's SRS instead of next's, so a
// contribution whose G1 powers are not the powers of the contributed τ was accepted.
func TestC17a_RegressF19_KzgMpcSetupVerifyChecksNext(t *testing.T) {
	forCurves(t, func(t *testing.T, c *cv) {
		for _, N := range []int{2, 5} {
			prev := c.kmInit(N)
			next, _ := c.kmContribute(prev, bi(1), bi(5))
			if err := c.kmVerify(prev, next); err != nil {
				t.Fatalf("%s: consistent contribution rejected: %v", c.name, err)
			}
			// (a) one G1 power replaced by another subgroup point
			bad := DeepCopy(next)
			kmAccess(bad).g1.Index(N - 1).Set(reflect.ValueOf(c.pt(kG1, bi(123456789))).Elem())
			if err := c.kmVerify(prev, bad); err == nil {
				t.Fatalf("%s N=%d: F19: contribution with G1[%d] replaced by an arbitrary subgroup point is accepted by prev.Verify(next)", c.name, N, N-1)
			}
			// (b) all G1 powers replaced by the powers of another τ (G2 part and proof untouched)
			bad = DeepCopy(next)
			ls := make([]*big.Int, N)
			pw := bi(1)
			for i := range ls {
				ls[i] = pw
				pw = c.F.Mul(pw, bi(7))
			}
			kmAccess(bad).g1.Set(c.ptVec(kG1, ls))
			if err := c.kmVerify(prev, bad); err == nil {
				t.Fatalf("%s N=%d: F19: contribution whose G1 powers belong to another τ than its G2 element is accepted", c.name, N)
			}
			// (c) the same with the library's own Contribute (secret randomness)
			lib := DeepCopy(prev)
			reg.M(lib, "Contribute")
			if err := c.kmVerify(prev, lib); err != nil {
				t.Fatalf("%s: honest Contribute() rejected: %v", c.name, err)
			}
			kmAccess(lib).g1.Index(1).Set(reflect.ValueOf(c.pt(kG1, bi(3))).Elem())
			if err := c.kmVerify(prev, lib); err == nil {
				t.Fatalf("%s N=%d: F19: Contribute() output with G1[1] replaced is accepted", c.name, N)
			}
		}
		rep.Case("C17a_Regress/"+c.name, "F19 "+c.name, true, "regress:F19")
	})
}

// F90: mpcsetup.SameRatioMany (linearCombinationsG1/G2) panicked (index out of range) when every slice of a group
// had length 2, and rejected valid same-ratio sequences when the first of several slices of a group had length 2
// (the random base r = powers[1] was zeroed before it was inverted). Slices of length 2 are documented as admissible.
func TestC17a_RegressF90_SameRatioManyLengthTwoSlices(t *testing.T) {
	forCurves(t, func(t *testing.T, c *cv) {
		run := func(name string, want bool, g1 [][]*big.Int, g2 [][]*big.Int) {
			var args []interface{}
			for _, s := range g1 {
				args = append(args, c.ptVec(kG1, s).Interface())
			}
			for _, s := range g2 {
				args = append(args, c.ptVec(kG2, s).Interface())
			}
			err, pan := guard(func() error { return errOf(c.mpc.F("SameRatioMany", args...)) })
			if pan != "" {
				t.Fatalf("%s: F90: SameRatioMany panics on %s: %s", c.name, name, pan)
			}
			if want != (err == nil) {
				t.Fatalf("%s: F90: SameRatioMany on %s: got %v, same-ratio relation is %v", c.name, name, err, want)
			}
		}
		run("g1 (2,3) ratio 1", true, [][]*big.Int{bigs(1, 1), bigs(1, 1, 1)}, [][]*big.Int{bigs(1, 1)})
		run("g1 (2,3) ratio 2", true, [][]*big.Int{bigs(3, 6), bigs(5, 10, 20)}, [][]*big.Int{bigs(1, 2)})
		run("g1 (2,2)", true, [][]*big.Int{bigs(3, 6), bigs(5, 10)}, [][]*big.Int{bigs(1, 2)})
		run("g1 (2,2,2) g2 (2,2)", true, [][]*big.Int{bigs(3, 6), bigs(5, 10), bigs(7, 14)}, [][]*big.Int{bigs(1, 2), bigs(9, 18)})
		run("g1 (3) g2 (2,4)", true, [][]*big.Int{bigs(3, 6, 12)}, [][]*big.Int{bigs(1, 2), bigs(5, 10, 20, 40)})
		run("g1 (2,3) second slice other ratio", false, [][]*big.Int{bigs(3, 6), bigs(5, 15, 45)}, [][]*big.Int{bigs(1, 2)})
		run("g1 (2,2) first slice other ratio", false, [][]*big.Int{bigs(3, 9), bigs(5, 10)}, [][]*big.Int{bigs(1, 2)})
		run("g1 (3,2) order of the repository's own test", true, [][]*big.Int{bigs(1, 2, 4), bigs(1, 2)}, [][]*big.Int{bigs(1, 2)})
		rep.Case("C17a_Regress/"+c.name, "F90 "+c.name, true, "regress:F90")
	})
}

// F15 probe (known finding, not repaired): SHPLONK binds neither γ nor z to the claimed values, so claimed values
// shifted jointly after the challenges are fixed still verify. One polynomial opened at two points suffices.
func TestC17a_ProbeF15(t *testing.T) {
	forCurves(t, func(t *testing.T, c *cv) {
		tau := bi(424242)
		srs := c.newSRS(64, tau)
		polys := [][]*big.Int{bigs(1, 2, 3)}
		points := [][]*big.Int{bigs(5, 7)}
		in := c.shpProve(t, tau, srs, polys, points, nil)
		if err := c.shpVerify(in.proof, in.digests, points, srs, nil); err != nil {
			t.Fatalf("%s: honest SHPLONK proof rejected: %v", c.name, err)
		}
		forged, ok := c.shpShift(in, [2]int{0, 0}, [2]int{0, 1}, bi(1000))
		if !ok {
			t.Fatalf("%s: probe could not build the shift", c.name)
		}
		cvs := bigVec2(reflect.ValueOf(forged).Elem().FieldByName("ClaimedValues"))
		if c.shpStatementTrue(in, cvs) {
			t.Fatalf("harness error: forged claims are true")
		}
		shp := c.shpVerify(forged, in.digests, points, srs, nil) == nil

		packs := [][][]*big.Int{{bigs(1, 2, 3), bigs(4, 5)}}
		fin := c.fflProve(t, tau, srs, packs, [][]*big.Int{bigs(5)})
		if err := c.fflVerify(fin.proof, fin.digests, fin.points, srs); err != nil {
			t.Fatalf("%s: honest fflonk proof rejected: %v", c.name, err)
		}
		fforged, ok := c.fflShift(fin, [3]int{0, 0, 0}, [3]int{0, 1, 0}, bi(1000))
		ffl := false
		if ok {
			if c.fflStatementTrue(fin, bigVec3(reflect.ValueOf(fforged).Elem().FieldByName("ClaimedValues"))) {
				t.Fatalf("harness error: forged fflonk claims are true")
			}
			ffl = c.fflVerify(fforged, fin.digests, fin.points, srs) == nil
		}
		if shp || ffl {
			rep.StillPresent(prop, keyF15, fmt.Sprintf("%s: shplonk forged claims accepted=%v, fflonk forged claims accepted=%v (f=1+2X+3X² at {5,7}: claimed %v instead of %v)",
				c.name, shp, ffl, cvs[0], []*big.Int{c.polyEval(polys[0], bi(5)), c.polyEval(polys[0], bi(7))}))
			if !rep.Known(prop, keyF15) {
				t.Fatalf("%s: FORGERY ACCEPTED [F15]: jointly shifted SHPLONK claimed values verify (shplonk=%v fflonk=%v) and the finding is not listed as known", c.name, shp, ffl)
			}
		} else {
			rep.Note("C17a_ProbeF15/"+c.name, "F15 no longer observed on "+c.name+": the known-finding entry is stale")
		}
		rep.Case("C17a_ProbeF15/"+c.name, "probe "+c.name, true, "probe:F15", fmt.Sprintf("f15_shplonk_accepted:%v", shp), fmt.Sprintf("f15_fflonk_accepted:%v", ffl))
	})
}
