package c17a

// Reflective tamper engine.
//
// Sites(root) walks a proof value — structs (exported AND unexported fields, the latter reached through
// reflect.NewAt(f.Type(), unsafe.Pointer(f.UnsafeAddr()))), slices, arrays, pointers — and returns one tamper
// site per leaf of kind scalar-field element, base-field element, G1 point, G2 point, byte string, integer,
// bool, plus one "len" site per slice. New fields of a proof type are therefore picked up without editing the
// harness. DeepCopy clones a value completely (no shared backing arrays), Apply performs one mutation on a
// copy. The engine knows nothing about the schemes: what a mutation means for the truth of the statement is
// decided by the caller (scheme oracle).

import (
	"bytes"
	"fmt"
	"math/big"
	"reflect"
	"strings"
	"unsafe"

	"verif/harness/internal/reg"
)

type Kind string

const (
	KFr    Kind = "fr"    // scalar-field element
	KFp    Kind = "fp"    // base-field element (only met inside non-point structures)
	KG1    Kind = "g1"    // G1Affine
	KG2    Kind = "g2"    // G2Affine
	KBytes Kind = "bytes" // []byte or [n]byte
	KInt   Kind = "int"   // any integer kind
	KBool  Kind = "bool"
	KLen   Kind = "len" // the length of a slice
)

type navStep struct {
	field int // struct field index, or -1
	index int // slice/array index, or -1
	deref bool
}

// Site is one tamperable leaf of a value.
type Site struct {
	Path string
	Kind Kind
	Type reflect.Type
	nav  []navStep
}

// Mutation kinds per site kind.
var mutationsOf = map[Kind][]string{
	KFr:    {"random", "zero", "other", "plus1", "neg"},
	KFp:    {"random", "zero", "other", "plus1"},
	KG1:    {"random", "identity", "other", "plus1", "neg", "cofactor"},
	KG2:    {"random", "identity", "other", "plus1", "neg", "cofactor"},
	KBytes: {"random", "zero", "other", "plus1", "len-1", "len+1", "len0"},
	KInt:   {"random", "zero", "other", "plus1"},
	KBool:  {"flip"},
	KLen:   {"len-1", "len+1", "len0"},
}

func isFieldElem(t reflect.Type) bool {
	if t.Kind() != reflect.Array || t.Elem().Kind() != reflect.Uint64 || t.Name() != "Element" {
		return false
	}
	_, ok := reflect.PtrTo(t).MethodByName("SetBigInt")
	return ok
}

func leafKind(t reflect.Type) (Kind, bool) {
	switch {
	case isFieldElem(t):
		if strings.HasSuffix(t.PkgPath(), "/fr") {
			return KFr, true
		}
		return KFp, true
	case t.Kind() == reflect.Struct && t.Name() == "G1Affine":
		return KG1, true
	case t.Kind() == reflect.Struct && t.Name() == "G2Affine":
		return KG2, true
	case (t.Kind() == reflect.Slice || t.Kind() == reflect.Array) && t.Elem().Kind() == reflect.Uint8:
		return KBytes, true
	}
	switch t.Kind() {
	case reflect.Int, reflect.Int8, reflect.Int16, reflect.Int32, reflect.Int64,
		reflect.Uint, reflect.Uint8, reflect.Uint16, reflect.Uint32, reflect.Uint64:
		return KInt, true
	case reflect.Bool:
		return KBool, true
	}
	return "", false
}

// access makes a (possibly unexported) addressable field readable and settable.
func access(v reflect.Value) reflect.Value {
	if v.CanSet() {
		return v
	}
	if !v.CanAddr() {
		panic("tamper: value is not addressable")
	}
	return reflect.NewAt(v.Type(), unsafe.Pointer(v.UnsafeAddr())).Elem()
}

// Sites enumerates the tamper sites of *root (root must be a pointer). skip (may be nil) prunes sub-trees by
// path; pruned paths are returned in skipped.
func Sites(root interface{}, skip func(path string) bool) (sites []Site, skipped []string) {
	rv := reflect.ValueOf(root)
	if rv.Kind() != reflect.Ptr {
		panic("tamper.Sites: need a pointer")
	}
	var walk func(v reflect.Value, path string, nav []navStep)
	walk = func(v reflect.Value, path string, nav []navStep) {
		if skip != nil && skip(path) {
			skipped = append(skipped, path)
			return
		}
		t := v.Type()
		nv := append([]navStep(nil), nav...)
		if k, ok := leafKind(t); ok {
			sites = append(sites, Site{Path: path, Kind: k, Type: t, nav: nv})
			return
		}
		switch t.Kind() {
		case reflect.Struct:
			for i := 0; i < t.NumField(); i++ {
				walk(access(v.Field(i)), path+"."+t.Field(i).Name, append(nv, navStep{field: i, index: -1}))
			}
		case reflect.Slice:
			sites = append(sites, Site{Path: path + "#len", Kind: KLen, Type: t, nav: nv})
			for i := 0; i < v.Len(); i++ {
				walk(v.Index(i), fmt.Sprintf("%s[%d]", path, i), append(nv, navStep{field: -1, index: i}))
			}
		case reflect.Array:
			for i := 0; i < v.Len(); i++ {
				walk(v.Index(i), fmt.Sprintf("%s[%d]", path, i), append(nv, navStep{field: -1, index: i}))
			}
		case reflect.Ptr:
			if !v.IsNil() {
				walk(v.Elem(), path, append(nv, navStep{field: -1, index: -1, deref: true}))
			}
		default:
			skipped = append(skipped, path+"("+t.Kind().String()+")")
		}
	}
	walk(rv.Elem(), "", nil)
	return
}

// resolve navigates to the site inside *root; ok=false when the path does not exist there (shorter slice).
func resolve(root interface{}, s Site) (v reflect.Value, ok bool) {
	v = reflect.ValueOf(root).Elem()
	for _, st := range s.nav {
		switch {
		case st.deref:
			if v.Kind() != reflect.Ptr || v.IsNil() {
				return v, false
			}
			v = v.Elem()
		case st.field >= 0:
			if v.Kind() != reflect.Struct || st.field >= v.NumField() {
				return v, false
			}
			v = access(v.Field(st.field))
		default:
			if (v.Kind() != reflect.Slice && v.Kind() != reflect.Array) || st.index >= v.Len() {
				return v, false
			}
			v = v.Index(st.index)
		}
	}
	if v.Type() != s.Type {
		return v, false
	}
	return v, true
}

// DeepCopy returns a pointer to a complete copy of *root.
func DeepCopy(root interface{}) interface{} {
	src := reflect.ValueOf(root).Elem()
	dst := reflect.New(src.Type())
	deepCopy(dst.Elem(), src)
	return dst.Interface()
}

func deepCopy(dst, src reflect.Value) {
	switch src.Kind() {
	case reflect.Struct:
		for i := 0; i < src.NumField(); i++ {
			deepCopy(access(dst.Field(i)), access(src.Field(i)))
		}
	case reflect.Slice:
		if src.IsNil() {
			dst.Set(reflect.Zero(src.Type()))
			return
		}
		n := reflect.MakeSlice(src.Type(), src.Len(), src.Len())
		for i := 0; i < src.Len(); i++ {
			deepCopy(n.Index(i), src.Index(i))
		}
		dst.Set(n)
	case reflect.Array:
		for i := 0; i < src.Len(); i++ {
			deepCopy(dst.Index(i), src.Index(i))
		}
	case reflect.Ptr:
		if src.IsNil() {
			dst.Set(reflect.Zero(src.Type()))
			return
		}
		n := reflect.New(src.Type().Elem())
		deepCopy(n.Elem(), src.Elem())
		dst.Set(n)
	default:
		dst.Set(src)
	}
}

// leafBytes is a canonical byte image of a leaf (used to decide whether a mutation changed anything).
func leafBytes(v reflect.Value, k Kind) []byte {
	switch k {
	case KFr, KFp:
		return feBig(v).Bytes()
	case KG1, KG2:
		// raw coordinates (Marshal would fail/alias on deliberately invalid points)
		var out []byte
		for _, c := range reg.Flatten(v.Addr().Interface()) {
			out = append(out, c.FillBytes(make([]byte, 128))...)
		}
		return out
	case KBytes:
		b := make([]byte, v.Len())
		reflect.Copy(reflect.ValueOf(b), v)
		return append([]byte{byte(len(b) >> 8), byte(len(b))}, b...)
	case KInt:
		if v.CanInt() {
			return big.NewInt(v.Int()).Bytes()
		}
		return new(big.Int).SetUint64(v.Uint()).Bytes()
	case KBool:
		if v.Bool() {
			return []byte{1}
		}
		return []byte{0}
	case KLen:
		return []byte{byte(v.Len() >> 8), byte(v.Len())}
	}
	panic("tamper: unknown kind")
}

// Source supplies the values a mutation needs. All of them come from rapid draws in the callers.
type Source interface {
	Scalar(label string) *big.Int                    // a fresh scalar
	Point(g int, k *big.Int) interface{}             // pointer to [k]G in group g (kG1/kG2)
	Shift(g int, p interface{}, k int64) interface{} // pointer to *p + [k]G
	Neg(g int, p interface{}) interface{}            // pointer to -*p
	Cofactor(g int) interface{}                      // a point of order coprime to r, or nil
	Modulus(k Kind) *big.Int                         // modulus of the field of an fr/fp site
	Bytes(label string, n int) []byte                // n fresh bytes
}

// Applied describes the outcome of Apply.
type Applied struct {
	OK      bool   // the mutation could be carried out (donor site exists, cofactor available, …)
	Changed bool   // the site now holds a different value than before
	Detail  string // short human-readable description
}

// Apply mutates site s of *root in place (root must be a private deep copy). donor is another honest value of
// the same type used by the "other" mutation (same path when it exists there, otherwise any site of that kind).
func Apply(root interface{}, s Site, mut string, donor interface{}, src Source) Applied {
	v, ok := resolve(root, s)
	if !ok {
		return Applied{}
	}
	before := leafBytes(v, s.Kind)
	done := func(detail string) Applied {
		return Applied{OK: true, Changed: !bytes.Equal(before, leafBytes(v, s.Kind)), Detail: detail}
	}
	g := kG1
	if s.Kind == KG2 {
		g = kG2
	}
	if mut == "other" {
		if donor == nil {
			return Applied{}
		}
		dv, ok := resolve(donor, s)
		if !ok {
			ds, _ := Sites(donor, nil)
			found := false
			for _, d := range ds {
				if d.Kind == s.Kind && d.Type == s.Type {
					if dv, ok = resolve(donor, d); ok {
						found = true
						break
					}
				}
			}
			if !found {
				return Applied{}
			}
		}
		tmp := reflect.New(s.Type).Elem()
		deepCopy(tmp, dv)
		v.Set(tmp)
		return done("donor")
	}
	switch s.Kind {
	case KFr, KFp:
		q := src.Modulus(s.Kind)
		cur := feBig(v)
		var nv *big.Int
		switch mut {
		case "random":
			nv = new(big.Int).Mod(src.Scalar("rnd"), q)
		case "zero":
			nv = new(big.Int)
		case "plus1":
			nv = new(big.Int).Add(cur, big.NewInt(1))
			nv.Mod(nv, q)
		case "neg":
			nv = new(big.Int).Neg(cur)
			nv.Mod(nv, q)
		default:
			return Applied{}
		}
		v.Addr().MethodByName("SetBigInt").Call([]reflect.Value{reflect.ValueOf(nv)})
		return done(mut)
	case KG1, KG2:
		p := v.Addr().Interface()
		switch mut {
		case "random":
			v.Set(reflect.ValueOf(src.Point(g, src.Scalar("rnd"))).Elem())
		case "identity":
			v.Set(reflect.Zero(s.Type))
		case "plus1":
			v.Set(reflect.ValueOf(src.Shift(g, p, 1)).Elem())
		case "neg":
			v.Set(reflect.ValueOf(src.Neg(g, p)).Elem())
		case "cofactor":
			T := src.Cofactor(g)
			if T == nil {
				return Applied{}
			}
			sum := reflect.New(s.Type).Interface()
			reg.M(sum, "Add", p, T)
			v.Set(reflect.ValueOf(sum).Elem())
		default:
			return Applied{}
		}
		return done(mut)
	case KBytes:
		n := v.Len()
		set := func(b []byte) {
			if v.Kind() == reflect.Slice {
				v.Set(reflect.ValueOf(b).Convert(s.Type))
			} else {
				reflect.Copy(v, reflect.ValueOf(b))
			}
		}
		cur := make([]byte, n)
		reflect.Copy(reflect.ValueOf(cur), v)
		switch mut {
		case "random":
			set(src.Bytes("rnd", n))
		case "zero":
			set(make([]byte, n))
		case "plus1":
			if n == 0 {
				return Applied{}
			}
			cur[n-1]++
			set(cur)
		case "len-1":
			if n == 0 || v.Kind() != reflect.Slice {
				return Applied{}
			}
			set(cur[:n-1])
		case "len+1":
			if v.Kind() != reflect.Slice {
				return Applied{}
			}
			set(append(cur, 0))
		case "len0":
			if n == 0 || v.Kind() != reflect.Slice {
				return Applied{}
			}
			set([]byte{})
		default:
			return Applied{}
		}
		return done(mut)
	case KInt:
		var nv int64
		cur := int64(0)
		if v.CanInt() {
			cur = v.Int()
		} else {
			cur = int64(v.Uint())
		}
		switch mut {
		case "random":
			nv = src.Scalar("rnd").Int64() & 0xffff
		case "zero":
			nv = 0
		case "plus1":
			nv = cur + 1
		default:
			return Applied{}
		}
		if v.CanInt() {
			v.SetInt(nv)
		} else {
			v.SetUint(uint64(nv))
		}
		return done(mut)
	case KBool:
		v.SetBool(!v.Bool())
		return done(mut)
	case KLen:
		n := v.Len()
		switch mut {
		case "len-1":
			if n == 0 {
				return Applied{}
			}
			v.Set(v.Slice(0, n-1))
		case "len+1":
			nv := reflect.MakeSlice(s.Type, n+1, n+1)
			reflect.Copy(nv, v)
			if n > 0 { // duplicate the last element (deep) so that the extension is well-formed
				deepCopy(nv.Index(n), v.Index(n-1))
			}
			v.Set(nv)
		case "len0":
			if n == 0 {
				return Applied{}
			}
			v.Set(reflect.MakeSlice(s.Type, 0, 0))
		default:
			return Applied{}
		}
		return done(mut)
	}
	return Applied{}
}
