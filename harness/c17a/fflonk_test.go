package c17a

// fflonk batch openings (ecc/<curve>/fflonk): packs of polynomials are interleaved ("folded") into one
// polynomial F_i(X) = Σ_k f_{i,k}(X^t) X^k (t = smallest divisor of r−1 that is ≥ the pack size), F_i is opened with
// SHPLONK at the t-th roots {ω^l x} of every point, and the verifier checks that the outer claimed values
// f_{i,k}(x^t) fold to the inner SHPLONK claimed values.
//
// Oracle: expected verdict = sizes consistent ∧ folding identity (recomputed here from the definition with
// ω = g^((r−1)/t), g the documented generator of F_r^*) ∧ SHPLONK relation in the exponent (shplonk_test.go).

import (
	"crypto/sha256"
	"fmt"
	"math/big"
	"reflect"
	"testing"

	"pgregory.net/rapid"

	"verif/harness/internal/reg"
	"verif/harness/internal/rep"
)

// nextDivisor returns the smallest i ≥ n dividing r−1.
func (c *cv) nextDivisor(n int) int {
	rm := new(big.Int).Sub(c.r, bi(1))
	for i := n; i < n+100; i++ {
		if new(big.Int).Mod(rm, bi(int64(i))).Sign() == 0 {
			return i
		}
	}
	panic("no divisor")
}

// rootOfOne returns a primitive t-th root of unity, g^((r−1)/t) for the library's documented generator g of F_r^*
// (validated: the result has order exactly t). ok=false when t does not divide r−1.
func (c *cv) rootOfOne(t int) (*big.Int, bool) {
	rm := new(big.Int).Sub(c.r, bi(1))
	if t <= 0 || new(big.Int).Mod(rm, bi(int64(t))).Sign() != 0 {
		return nil, false
	}
	g := feBig(reflect.ValueOf(ptrOf(c.fft.F("GeneratorFullMultiplicativeGroup")[0])))
	w := c.F.Exp(g, new(big.Int).Div(rm, bi(int64(t))))
	// order exactly t
	if c.F.Exp(w, bi(int64(t))).Cmp(bi(1)) != 0 {
		panic("c17a: ω^t != 1")
	}
	for d := 1; d < t; d++ {
		if t%d == 0 && c.F.Exp(w, bi(int64(d))).Cmp(bi(1)) == 0 {
			panic("c17a: ω is not a primitive t-th root (documented generator is not a generator?)")
		}
	}
	return w, true
}

func (c *cv) foldPolys(p [][]*big.Int, t int) []*big.Int {
	m := 0
	for _, f := range p {
		if len(f) > m {
			m = len(f)
		}
	}
	out := make([]*big.Int, m*t)
	for i := range out {
		out[i] = new(big.Int)
	}
	for k, f := range p {
		for j, v := range f {
			out[j*t+k] = v
		}
	}
	return out
}

func (c *cv) extendPoints(xs []*big.Int, t int) []*big.Int {
	w, _ := c.rootOfOne(t)
	var out []*big.Int
	for _, x := range xs {
		cur := new(big.Int).Set(x)
		for l := 0; l < t; l++ {
			out = append(out, cur)
			cur = c.F.Mul(cur, w)
		}
	}
	return out
}

type fflInstance struct {
	tau     *big.Int
	srs     interface{}
	packs   [][][]*big.Int
	points  [][]*big.Int
	data    [][]byte
	ts      []int
	folded  [][]*big.Int
	ext     [][]*big.Int
	cLog    []*big.Int
	digests reflect.Value
	proof   interface{}
	gamma   *big.Int
	z       *big.Int
}

// fflDraw draws an admissible statement: packs of 1..maxPack polynomials, point sets of non-zero points whose
// t-th powers are pairwise distinct (so that the extended set has no repeated node).
func (c *cv) fflDraw(t *rapid.T, tag string, maxPacks, maxPack, maxSize, maxPts int) (packs [][][]*big.Int, points [][]*big.Int, classes []string) {
	n := rapid.IntRange(1, maxPacks).Draw(t, tag+"n")
	for i := 0; i < n; i++ {
		np := rapid.IntRange(1, maxPack).Draw(t, fmt.Sprintf("%spack%d", tag, i))
		tt := c.nextDivisor(np)
		if tt != np {
			classes = append(classes, "pack_padded_to_divisor")
		}
		var pack [][]*big.Int
		for k := 0; k < np; k++ {
			sz := rapid.IntRange(1, maxSize).Draw(t, fmt.Sprintf("%ssz%d_%d", tag, i, k))
			f := make([]*big.Int, sz)
			for j := range f {
				f[j] = c.drawScalar(t, fmt.Sprintf("%sf%d_%d_%d", tag, i, k, j))
			}
			pack = append(pack, f)
		}
		ns := rapid.IntRange(1, maxPts).Draw(t, fmt.Sprintf("%snpts%d", tag, i))
		var s, pw []*big.Int
		for j := 0; j < ns; j++ {
			x := c.drawNonZero(t, fmt.Sprintf("%sx%d_%d", tag, i, j))
			for containsBig(pw, c.F.Exp(x, bi(int64(tt)))) || x.Sign() == 0 {
				x = c.F.Add(x, bi(1))
			}
			s = append(s, x)
			pw = append(pw, c.F.Exp(x, bi(int64(tt))))
		}
		packs = append(packs, pack)
		points = append(points, s)
	}
	return
}

func (c *cv) fflProve(t fataler, tau *big.Int, srs interface{}, packs [][][]*big.Int, points [][]*big.Int, data ...[]byte) *fflInstance {
	in := &fflInstance{tau: tau, srs: srs, packs: packs, points: points, data: data}
	pk := reg.Field(srs, "Pk")
	n := len(packs)
	in.digests = reflect.MakeSlice(reflect.SliceOf(c.g1T), n, n)
	for i := range packs {
		tt := c.nextDivisor(len(packs[i]))
		in.ts = append(in.ts, tt)
		in.folded = append(in.folded, c.foldPolys(packs[i], tt))
		in.ext = append(in.ext, c.extendPoints(points[i], tt))
		res := c.ffl.F("FoldAndCommit", c.feVec2(packs[i]).Interface(), pk)
		if err := errOf(res); err != nil {
			t.Fatalf("fflonk/%s: FoldAndCommit: %v", c.name, err)
		}
		in.digests.Index(i).Set(reflect.ValueOf(res[0]))
		// F_i(τ) = Σ_k f_{i,k}(τ^t) τ^k, from the definition
		l := new(big.Int)
		tt_ := c.F.Exp(tau, bi(int64(tt)))
		for k, f := range packs[i] {
			l = c.F.Add(l, c.F.Mul(c.polyEval(f, tt_), c.F.Exp(tau, bi(int64(k)))))
		}
		if l.Cmp(c.polyEval(in.folded[i], tau)) != 0 {
			t.Fatalf("harness error: folded polynomial")
		}
		in.cLog = append(in.cLog, l)
		if !ptEqual(in.digests.Index(i).Addr().Interface(), c.pt(kG1, l)) {
			t.Fatalf("fflonk/%s: FoldAndCommit(pack) != [Σ_k f_k(τ^t)τ^k]G1", c.name)
		}
	}
	oargs := []interface{}{c.feVec3(packs).Interface(), in.digests.Interface(), c.feVec2(points).Interface(), sha256.New(), pk}
	for _, d := range data {
		oargs = append(oargs, d)
	}
	res := c.ffl.F("BatchOpen", oargs...)
	if err := errOf(res); err != nil {
		t.Fatalf("fflonk/%s: BatchOpen failed on an admissible statement: %v", c.name, err)
	}
	in.proof = ptrOf(res[0])
	sp := reg.Field(in.proof, "SOpeningProof")
	W, WP := reg.Field(sp, "W"), reg.Field(sp, "WPrime")
	gamma, _ := c.shpChallenges(in.ext, in.digests, W, data)
	w, wp, z := c.shpHonestLogs(tau, in.folded, in.ext, gamma, func(w *big.Int) *big.Int {
		_, z := c.shpChallenges(in.ext, in.digests, c.pt(kG1, w), data)
		return z
	})
	in.gamma, in.z = gamma, z
	if !ptEqual(W, c.pt(kG1, w)) || !ptEqual(WP, c.pt(kG1, wp)) {
		t.Fatalf("fflonk/%s: embedded SHPLONK proof differs from the reference quotient commitments", c.name)
	}
	// outer claimed values: f_{i,k}(x^t), zero rows for the padding polynomials
	cvs := bigVec3(reflect.ValueOf(in.proof).Elem().FieldByName("ClaimedValues"))
	if !c.fflStatementTrue(in, cvs) {
		t.Fatalf("fflonk/%s: prover's outer claimed values are not the evaluations f_{i,k}(x_j^t)", c.name)
	}
	// inner claimed values: F_i at the extended points
	inner := bigVec2(reflect.ValueOf(sp).Elem().FieldByName("ClaimedValues"))
	for i := range in.ext {
		for j := range in.ext[i] {
			if inner[i][j].Cmp(c.polyEval(in.folded[i], in.ext[i][j])) != 0 {
				t.Fatalf("fflonk/%s: inner claimed value != F_i(ω^l x)", c.name)
			}
		}
	}
	return in
}

// fflStatementTrue: outer claimed values have the documented shape and are the evaluations.
func (c *cv) fflStatementTrue(in *fflInstance, cvs [][][]*big.Int) bool {
	if len(cvs) != len(in.packs) {
		return false
	}
	for i := range in.packs {
		if len(cvs[i]) != in.ts[i] {
			return false
		}
		for k := range cvs[i] {
			if len(cvs[i][k]) != len(in.points[i]) {
				return false
			}
			for j, x := range in.points[i] {
				want := new(big.Int)
				if k < len(in.packs[i]) {
					want = c.polyEval(in.packs[i][k], c.F.Exp(x, bi(int64(in.ts[i]))))
				}
				if cvs[i][k][j].Cmp(want) != 0 {
					return false
				}
			}
		}
	}
	return true
}

func (c *cv) fflVerify(proof interface{}, digests reflect.Value, points [][]*big.Int, srs interface{}, data ...[]byte) error {
	args := []interface{}{proof, digests.Interface(), c.feVec2(points).Interface(), sha256.New(), reg.Field(srs, "Vk")}
	for _, d := range data {
		args = append(args, d)
	}
	return errOf(c.ffl.F("BatchVerify", args...))
}

func (c *cv) fflObjType() reflect.Type {
	return reflect.StructOf([]reflect.StructField{
		{Name: "Digests", Type: reflect.SliceOf(c.g1T)},
		{Name: "Points", Type: reflect.SliceOf(reflect.SliceOf(c.frT))},
		{Name: "Proof", Type: c.ffl.Types["OpeningProof"]},
	})
}

func (c *cv) fflObj(in *fflInstance) interface{} {
	o := reflect.New(c.fflObjType())
	o.Elem().Field(0).Set(in.digests)
	o.Elem().Field(1).Set(c.feVec2(in.points))
	o.Elem().Field(2).Set(reflect.ValueOf(in.proof).Elem())
	return DeepCopy(o.Interface())
}

// fflExpectObj: expected verdict of fflonk.BatchVerify on a (tampered) object.
func (c *cv) fflExpectObj(in *fflInstance, o interface{}) (int, string) {
	v := reflect.ValueOf(o).Elem()
	digests, pts, proof := v.Field(0), bigVec2(v.Field(1)), v.Field(2)
	outer := bigVec3(proof.FieldByName("ClaimedValues"))
	sp := proof.FieldByName("SOpeningProof")
	inner := bigVec2(sp.FieldByName("ClaimedValues"))
	if len(outer) != len(pts) || digests.Len() != len(pts) || len(inner) != len(pts) {
		return mustReject, "length_mismatch"
	}
	if len(pts) == 0 {
		return noAssert, "empty_statement"
	}
	ext := make([][]*big.Int, len(pts))
	for i := range pts {
		t := len(outer[i])
		if t == 0 {
			return mustReject, "empty_pack"
		}
		for k := range outer[i] {
			if len(outer[i][k]) != len(pts[i]) {
				return mustReject, "values_per_point_mismatch"
			}
		}
		if len(pts[i])*t != len(inner[i]) {
			return mustReject, "inner_outer_count_mismatch"
		}
		w, ok := c.rootOfOne(t)
		if !ok {
			return mustReject, "pack_size_not_dividing_r_minus_1"
		}
		// folding identity: Σ_k outer[i][k][j]·(ω^l x_j)^k = inner[i][j·t+l]
		for j, x := range pts[i] {
			cur := new(big.Int).Set(x)
			for l := 0; l < t; l++ {
				col := make([]*big.Int, t)
				for k := 0; k < t; k++ {
					col[k] = outer[i][k][j]
				}
				if c.polyEval(col, cur).Cmp(inner[i][j*t+l]) != 0 {
					return mustReject, "folding_inconsistent"
				}
				cur = c.F.Mul(cur, w)
			}
		}
		ext[i] = c.extendPoints(pts[i], t)
		for a := range ext[i] {
			for b := 0; b < a; b++ {
				if ext[i][a].Cmp(ext[i][b]) == 0 {
					return noAssert, "repeated_point_in_extended_set"
				}
			}
		}
	}
	cl := make([]*big.Int, digests.Len())
	for i := range cl {
		l, ok := c.log(kG1, digests.Index(i).Addr().Interface())
		if !ok {
			return noAssert, "digest_outside_subgroup"
		}
		cl[i] = l
	}
	W, WP := sp.FieldByName("W").Addr().Interface(), sp.FieldByName("WPrime").Addr().Interface()
	w, ok1 := c.log(kG1, W)
	wp, ok2 := c.log(kG1, WP)
	if !ok1 || !ok2 {
		return noAssert, "proof_point_outside_subgroup"
	}
	gamma, z := c.shpChallenges(ext, digests, W, in.data)
	if c.shpRelation(in.tau, ext, cl, inner, w, wp, gamma, z) {
		return mustAccept, "relation_holds"
	}
	return mustReject, "relation_fails"
}

// fflShift builds the F15 forgery through the folding: two OUTER claimed values (i,k,j) are moved by δ_a and
// δ_b, the inner values are recomputed from the folding identity, and δ_b is chosen such that
// S = Σ γ^i Z_{T\S_i}(z) r_i(z) of the embedded SHPLONK proof is unchanged.
func (c *cv) fflShift(in *fflInstance, a, b [3]int, delta *big.Int) (forged interface{}, ok bool) {
	slot, _ := c.shpCoef(in.ext, in.gamma, in.z)
	coef := func(s [3]int) *big.Int { // effect on S of adding 1 to outer slot s
		i, k, j := s[0], s[1], s[2]
		t := in.ts[i]
		acc := new(big.Int)
		for l := 0; l < t; l++ {
			acc = c.F.Add(acc, c.F.Mul(slot[i][j*t+l], c.F.Exp(in.ext[i][j*t+l], bi(int64(k)))))
		}
		return acc
	}
	ca, cb := coef(a), coef(b)
	if ca.Sign() == 0 || cb.Sign() == 0 {
		return nil, false
	}
	forged = DeepCopy(in.proof)
	apply := func(s [3]int, d *big.Int) { c.fflBump(in, forged, s, d) }
	apply(a, delta)
	apply(b, c.F.Neg(c.F.Mul(delta, c.F.Mul(ca, c.F.Inv(cb)))))
	return forged, true
}

// fflBump adds d to the outer claimed value s = (pack, polynomial, point) of proof and re-folds the inner values, so
// that the folding identity keeps holding.
func (c *cv) fflBump(in *fflInstance, proof interface{}, s [3]int, d *big.Int) {
	fv := reflect.ValueOf(proof).Elem()
	outer := fv.FieldByName("ClaimedValues")
	inner := fv.FieldByName("SOpeningProof").FieldByName("ClaimedValues")
	i, k, j := s[0], s[1], s[2]
	t := in.ts[i]
	e := outer.Index(i).Index(k).Index(j)
	e.Set(reflect.ValueOf(c.fe(c.F.Add(feBig(e), d))).Elem())
	for l := 0; l < t; l++ {
		ie := inner.Index(i).Index(j*t + l)
		ie.Set(reflect.ValueOf(c.fe(c.F.Add(feBig(ie), c.F.Mul(d, c.F.Exp(in.ext[i][j*t+l], bi(int64(k))))))).Elem())
	}
}

func propFflonk(t *rapid.T, c *cv) {
	test := "C17a_Fflonk/" + c.name
	packs, points, classes := c.fflDraw(t, "a", rep.Scale(2, 3), rep.Scale(5, 8), rep.Scale(4, 6), rep.Scale(2, 3))
	dpacks, dpoints, _ := c.fflDraw(t, "d", len(packs), 3, 3, 2)
	for len(dpacks) < len(packs) {
		dpacks = append(dpacks, dpacks[0])
		dpoints = append(dpoints, dpoints[0])
	}
	tau := c.drawNonZero(t, "tau")
	bad := func(tau *big.Int) bool { // τ must not be one of the extended opening points: τ^t = x^t
		for _, st := range []struct {
			packs  [][][]*big.Int
			points [][]*big.Int
		}{{packs, points}, {dpacks, dpoints}} {
			for i := range st.points {
				tt := bi(int64(c.nextDivisor(len(st.packs[i]))))
				for _, x := range st.points[i] {
					if c.F.Exp(tau, tt).Cmp(c.F.Exp(x, tt)) == 0 {
						return true
					}
				}
			}
		}
		return false
	}
	for bad(tau) {
		tau = c.F.Add(tau, bi(1))
	}
	srs := c.newSRS(rep.Scale(64, 128), tau) // ≥ folded size (t·max size) + number of extended points
	data, dclass := c.drawExtraData(t, "xd")
	classes = append(classes, "extra_data_kind:"+dclass)
	in := c.fflProve(t, tau, srs, packs, points, data...)
	don := c.fflProve(t, tau, srs, dpacks, dpoints, data...)
	key := fmt.Sprintf("%s tau=%s packs=%v points=%v data=%x", c.name, tau.Text(16), packs, points, data)

	// (1) completeness
	if err := c.fflVerify(in.proof, in.digests, points, srs, data...); err != nil {
		t.Fatalf("fflonk/%s: honest proof rejected: %v (%s)", c.name, err, key)
	}
	nontriv := false
	for i := range packs {
		n := len(packs[i])
		if n == 1 || n&(n-1) != 0 {
			nontriv = true
		}
		classes = append(classes, fmt.Sprintf("pack_size:%d", n))
	}
	rep.Case(test, "honest "+key, nontriv, append([]string{"fflonk", "curve:" + c.name, "honest", fmt.Sprintf("packs:%d", len(packs))}, classes...)...)

	// (1b) the optional transcript data: accepted with exactly the prover's data, rejected with any other byte string
	c.extraDataCheck(t, test, "fflonk", data, key, func(B [][]byte) (int, string) {
		inB := *in
		inB.data = B
		return c.fflExpectObj(&inB, c.fflObj(in))
	}, func(B [][]byte) error { return c.fflVerify(in.proof, in.digests, points, srs, B...) })

	// (2) reflective tampering (statement and proof)
	runTamper(t, tamperRun{
		test: test, scheme: "fflonk", c: c, honest: c.fflObj(in), donor: c.fflObj(don), key: key, max: 110,
		verify: func(o interface{}) error {
			v := reflect.ValueOf(o).Elem()
			return c.fflVerify(v.Field(2).Addr().Interface(), v.Field(0), bigVec2(v.Field(1)), srs, data...)
		},
		expect: func(o interface{}, s Site, mut string) (int, string) { return c.fflExpectObj(in, o) },
	})

	// (3) targeted consistent forgery: outer value moved AND inner values re-folded (folding check satisfied,
	//     only the SHPLONK equation can reject), and its adaptive F15 variant with compensation.
	var slots [][3]int
	for i := range packs {
		for k := 0; k < in.ts[i]; k++ {
			for j := range points[i] {
				slots = append(slots, [3]int{i, k, j})
			}
		}
	}
	ia := rapid.IntRange(0, len(slots)-1).Draw(t, "slot_a")
	delta := c.drawNonZero(t, "delta")
	{
		// consistent single shift: relation must fail
		forged := DeepCopy(in.proof)
		fv := reflect.ValueOf(forged).Elem()
		s := slots[ia]
		tt := in.ts[s[0]]
		e := fv.FieldByName("ClaimedValues").Index(s[0]).Index(s[1]).Index(s[2])
		e.Set(reflect.ValueOf(c.fe(c.F.Add(feBig(e), delta))).Elem())
		inner := fv.FieldByName("SOpeningProof").FieldByName("ClaimedValues")
		for l := 0; l < tt; l++ {
			ie := inner.Index(s[0]).Index(s[2]*tt + l)
			ie.Set(reflect.ValueOf(c.fe(c.F.Add(feBig(ie), c.F.Mul(delta, c.F.Exp(in.ext[s[0]][s[2]*tt+l], bi(int64(s[1]))))))).Elem())
		}
		o := c.fflObj(in)
		reflect.ValueOf(o).Elem().Field(2).Set(fv)
		want, why := c.fflExpectObj(in, o)
		err := c.fflVerify(forged, in.digests, points, srs, data...)
		if want == mustReject && err == nil {
			t.Fatalf("fflonk/%s: FORGERY ACCEPTED: outer claimed value %v shifted with consistently re-folded inner values (%s) (%s)", c.name, s, why, key)
		}
		if want == mustAccept && err != nil {
			t.Fatalf("fflonk/%s: oracle says the relation holds but the verifier rejects: %v", c.name, err)
		}
		rep.Case(test, fmt.Sprintf("consistent_shift slot=%v delta=%s %s", s, delta.Text(16), key), true, "fflonk", "curve:"+c.name, "consistent_refolded_shift", "why:"+why)
	}
	// outer values moved inside the kernel of ONE folding equation (the one for the root ω^l0·x): only the
	// equations for the other roots reject, so every root of unity of the opening set is individually necessary
	{
		var cand [][2]int // (pack, point) with t ≥ 2
		for i := range packs {
			if in.ts[i] >= 2 {
				for j := range points[i] {
					cand = append(cand, [2]int{i, j})
				}
			}
		}
		if len(cand) > 0 {
			pj := cand[rapid.IntRange(0, len(cand)-1).Draw(t, "kernel_slot")]
			i, j := pj[0], pj[1]
			tt := in.ts[i]
			l0 := rapid.IntRange(0, tt-1).Draw(t, "kernel_root")
			k1 := rapid.IntRange(0, tt-2).Draw(t, "kernel_k1")
			k2 := rapid.IntRange(k1+1, tt-1).Draw(t, "kernel_k2")
			X := in.ext[i][j*tt+l0]
			d2 := delta
			d1 := c.F.Neg(c.F.Mul(d2, c.F.Exp(X, bi(int64(k2-k1))))) // d1·X^k1 + d2·X^k2 = 0
			forged := DeepCopy(in.proof)
			outer := reflect.ValueOf(forged).Elem().FieldByName("ClaimedValues")
			e1, e2 := outer.Index(i).Index(k1).Index(j), outer.Index(i).Index(k2).Index(j)
			e1.Set(reflect.ValueOf(c.fe(c.F.Add(feBig(e1), d1))).Elem())
			e2.Set(reflect.ValueOf(c.fe(c.F.Add(feBig(e2), d2))).Elem())
			o := c.fflObj(in)
			reflect.ValueOf(o).Elem().Field(2).Set(reflect.ValueOf(forged).Elem())
			want, why := c.fflExpectObj(in, o)
			err := c.fflVerify(forged, in.digests, points, srs, data...)
			if want == mustReject && err == nil {
				t.Fatalf("fflonk/%s: FORGERY ACCEPTED: outer claimed values (pack %d, polys %d,%d, point %d) moved within the kernel of the folding equation of root %d (%s) (%s)", c.name, i, k1, k2, j, l0, why, key)
			}
			if want == mustAccept && err != nil {
				t.Fatalf("fflonk/%s: oracle says the relation holds but the verifier rejects: %v", c.name, err)
			}
			rep.Case(test, fmt.Sprintf("kernel_shift pack=%d k=%d,%d point=%d root=%d delta=%s %s", i, k1, k2, j, l0, delta.Text(16), key), true,
				"fflonk", "curve:"+c.name, "kernel_of_one_folding_equation", fmt.Sprintf("kernel_root:%d", l0), "why:"+why)
		}
	}
	if len(slots) >= 2 {
		ib := rapid.IntRange(0, len(slots)-2).Draw(t, "slot_b")
		if ib >= ia {
			ib++
		}
		forged, ok := c.fflShift(in, slots[ia], slots[ib], delta)
		if ok {
			if c.fflStatementTrue(in, bigVec3(reflect.ValueOf(forged).Elem().FieldByName("ClaimedValues"))) {
				t.Fatalf("harness error: shifted claims still true")
			}
			// pin the known class (see propShplonk): the construction satisfies the relation; the same shift with the
			// compensation off by one (folding still consistent) must be rejected whether or not F15 is listed
			{
				o := c.fflObj(in)
				reflect.ValueOf(o).Elem().Field(2).Set(reflect.ValueOf(forged).Elem())
				if w, why := c.fflExpectObj(in, o); w != mustAccept {
					t.Fatalf("harness error: the F15 construction (through the folding) does not satisfy the verifier's relations (%s)", why)
				}
				near := DeepCopy(forged)
				c.fflBump(in, near, slots[ib], bi(1))
				reflect.ValueOf(o).Elem().Field(2).Set(reflect.ValueOf(near).Elem())
				if w, why := c.fflExpectObj(in, o); w != mustReject {
					t.Fatalf("harness error: miscompensated shift expected to break the relation (%s)", why)
				}
				if err := c.fflVerify(near, in.digests, points, srs, data...); err == nil {
					t.Fatalf("fflonk/%s: FORGERY ACCEPTED: jointly shifted outer claimed values %v,%v with the compensation off by one verify — NOT the known finding F15 (%s)", c.name, slots[ia], slots[ib], key)
				}
				rep.Case(test, "miscompensated adaptive "+key, true, "fflonk", "curve:"+c.name, "adaptive_shift_miscompensated", "verdict:rejected")
			}
			if rep.Known(prop, keyF15) {
				rep.Excluded(test, prop, keyF15)
				if err := c.fflVerify(forged, in.digests, points, srs, data...); err != nil {
					rep.Note(test, "F15 shift (through the folding) no longer verifies on "+c.name+": "+err.Error())
				}
			} else {
				if err := c.fflVerify(forged, in.digests, points, srs, data...); err == nil {
					t.Fatalf("fflonk/%s: FORGERY ACCEPTED: outer claimed values %v,%v shifted jointly after γ,z (inner values re-folded) verify although the claims are false [F15] (%s)",
						c.name, slots[ia], slots[ib], key)
				}
				rep.Case(test, "adaptive "+key, true, "fflonk", "curve:"+c.name, "adaptive_shift", "verdict:rejected")
			}
		}
	}
}

func TestC17a_Fflonk(t *testing.T) {
	forCurves(t, func(t *testing.T, c *cv) { rapid.Check(t, func(t *rapid.T) { propFflonk(t, c) }) })
}
