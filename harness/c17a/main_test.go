// Package c17a: property C17, part A — the pairing-based argument systems (Pedersen PoK, SHPLONK, fflonk,
// mpcsetup update proofs, kzg.MpcSetup). Verifiers accept honest proofs, reject well-formed forgeries, and —
// with the trapdoor known to the harness — accept exactly when the algebraic relation holds in the exponent.
//
// All library calls go through the reflective registry (harness/internal/reg), so one body serves the seven
// pairing curves. Scalars live in math/big (ref.Fp over the scalar modulus r); every group element the harness
// feeds to a verifier is built as a known multiple of the generator and its discrete logarithm is remembered
// (cv.logs), which turns every pairing equation into a scalar identity the harness evaluates on its own.
package c17a

import (
	"bytes"
	"crypto/sha256"
	"fmt"
	"math/big"
	"os"
	"reflect"
	"regexp"
	"sort"
	"strings"
	"sync"
	"testing"

	"pgregory.net/rapid"

	"verif/harness/internal/gen"
	"verif/harness/internal/inst"
	"verif/harness/internal/ref"
	"verif/harness/internal/reg"
	"verif/harness/internal/rep"
)

func TestMain(m *testing.M) { rep.Main(m) }

const prop = "C17"
const keyF15 = "F15-shplonk-gamma-not-binding-claimed-values"

func selected(name string) bool {
	p := os.Getenv("VERIF_INST")
	if p == "" {
		return true
	}
	ok, _ := regexp.MatchString(p, name)
	return ok
}

// forCurves runs body once per selected pairing curve (sub-test named after the curve).
func forCurves(t *testing.T, body func(t *testing.T, c *cv)) {
	n := 0
	for _, name := range inst.PairingNames {
		if !selected(name) {
			continue
		}
		n++
		name := name
		t.Run(name, func(t *testing.T) { body(t, getCV(name)) })
	}
	if n == 0 {
		t.Skip("no curve selected by VERIF_INST")
	}
}

// cv is the per-curve context: library packages, reflect types, scalar field, known discrete logs.
type cv struct {
	name                                  string
	C                                     *inst.Curve
	r                                     *big.Int
	F                                     *ref.Fp // arithmetic modulo r
	spec                                  gen.FieldSpec
	ecc, fr, fft, kzg, ped, shp, ffl, mpc *reg.Pkg
	frT, g1T, g2T                         reflect.Type
	frBytes                               int

	mu   sync.Mutex
	logs map[string]*big.Int // kind+marshalled point -> discrete log w.r.t. the group generator

	cofOnce [2]sync.Once
	cofPt   [2]interface{} // a point of order coprime to r (nil when the group has cofactor 1)
}

var (
	cvMu    sync.Mutex
	cvCache = map[string]*cv{}
)

func getCV(name string) *cv {
	cvMu.Lock()
	defer cvMu.Unlock()
	if c, ok := cvCache[name]; ok {
		return c
	}
	C := inst.GetCurve(name)
	c := &cv{name: name, C: C, r: C.R, F: ref.NewFp(C.R), logs: map[string]*big.Int{}}
	c.ecc = reg.Get("ecc/" + name)
	c.fr = reg.Get("ecc/" + name + "/fr")
	c.fft = reg.Get("ecc/" + name + "/fr/fft")
	c.kzg = reg.Get("ecc/" + name + "/kzg")
	c.ped = reg.Get("ecc/" + name + "/fr/pedersen")
	c.shp = reg.Get("ecc/" + name + "/shplonk")
	c.ffl = reg.Get("ecc/" + name + "/fflonk")
	c.mpc = reg.Get("ecc/" + name + "/mpcsetup")
	for _, p := range []*reg.Pkg{c.ecc, c.fr, c.fft, c.kzg, c.ped, c.shp, c.ffl, c.mpc} {
		if p == nil {
			panic("c17a: package missing from the registry for " + name)
		}
	}
	c.frT = c.fr.Funcs["One"].Type().Out(0) // (the registry lists no types for fr: Element comes from a signature)
	c.g1T = c.ecc.Types["G1Affine"]
	c.g2T = c.ecc.Types["G2Affine"]
	f := inst.FieldByName(name + "/fr")
	c.spec = gen.FieldSpec{Q: f.Q(), NLimbs: f.NLimbs(), LimbBits: f.LimbBits()}
	c.frBytes = (c.r.BitLen() + 7) / 8
	// the library's scalar modulus must be the documented one
	if m := c.fr.F("Modulus")[0].(*big.Int); m.Cmp(c.r) != 0 {
		panic("c17a: fr.Modulus() differs from the documented r for " + name)
	}
	c.frBytes = reflect.New(c.frT).Elem().Len() * 8 // fr.Bytes: Marshal is big-endian over all limbs
	// the identity of both groups has logarithm 0
	c.pt(kG1, new(big.Int))
	c.pt(kG2, new(big.Int))
	cvCache[name] = c
	return c
}

// ---- scalars -------------------------------------------------------------------------------------

func bi(x int64) *big.Int { return big.NewInt(x) }

func (c *cv) red(v *big.Int) *big.Int { return new(big.Int).Mod(v, c.r) }

// fe returns *fr.Element holding v mod r.
func (c *cv) fe(v *big.Int) interface{} {
	e := reflect.New(c.frT)
	e.MethodByName("SetBigInt").Call([]reflect.Value{reflect.ValueOf(v)})
	return e.Interface()
}

// feBig reads an fr.Element (pointer or addressable value).
func feBig(e reflect.Value) *big.Int {
	if e.Kind() != reflect.Ptr {
		e = e.Addr()
	}
	return e.MethodByName("BigInt").Call([]reflect.Value{reflect.ValueOf(new(big.Int))})[0].Interface().(*big.Int)
}

// feVec builds []fr.Element.
func (c *cv) feVec(vs []*big.Int) reflect.Value {
	s := reflect.MakeSlice(reflect.SliceOf(c.frT), len(vs), len(vs))
	for i, v := range vs {
		s.Index(i).Addr().MethodByName("SetBigInt").Call([]reflect.Value{reflect.ValueOf(v)})
	}
	return s
}

// feVec2 builds [][]fr.Element.
func (c *cv) feVec2(vs [][]*big.Int) reflect.Value {
	s := reflect.MakeSlice(reflect.SliceOf(reflect.SliceOf(c.frT)), len(vs), len(vs))
	for i := range vs {
		s.Index(i).Set(c.feVec(vs[i]))
	}
	return s
}

// feVec3 builds [][][]fr.Element.
func (c *cv) feVec3(vs [][][]*big.Int) reflect.Value {
	s := reflect.MakeSlice(reflect.SliceOf(reflect.SliceOf(reflect.SliceOf(c.frT))), len(vs), len(vs))
	for i := range vs {
		s.Index(i).Set(c.feVec2(vs[i]))
	}
	return s
}

func bigVec(s reflect.Value) []*big.Int {
	out := make([]*big.Int, s.Len())
	for i := range out {
		out[i] = feBig(s.Index(i))
	}
	return out
}
func bigVec2(s reflect.Value) [][]*big.Int {
	out := make([][]*big.Int, s.Len())
	for i := range out {
		out[i] = bigVec(s.Index(i))
	}
	return out
}
func bigVec3(s reflect.Value) [][][]*big.Int {
	out := make([][][]*big.Int, s.Len())
	for i := range out {
		out[i] = bigVec2(s.Index(i))
	}
	return out
}

// frMarshal is the documented fixed-size big-endian encoding of a scalar (fr.Element.Marshal).
func (c *cv) frMarshal(v *big.Int) []byte {
	return c.red(v).FillBytes(make([]byte, c.frBytes))
}

// drawScalar draws a scalar: boundary lattice half of the time, uniform otherwise.
func (c *cv) drawScalar(t *rapid.T, label string) *big.Int {
	if rapid.IntRange(0, 3).Draw(t, label+"?") == 0 {
		v, _ := c.spec.Elem(t, label)
		return v
	}
	return c.spec.Uniform(t, label)
}

// drawNonZero draws a non-zero scalar.
func (c *cv) drawNonZero(t *rapid.T, label string) *big.Int {
	v := c.drawScalar(t, label)
	if v.Sign() == 0 {
		return bi(1)
	}
	return v
}

// ---- group elements with known discrete logarithm -----------------------------------------------

const (
	kG1 = 0
	kG2 = 1
)

func (c *cv) ptType(g int) reflect.Type {
	if g == kG1 {
		return c.g1T
	}
	return c.g2T
}

func ptBytes(p interface{}) []byte {
	return reg.M(p, "Marshal")[0].([]byte)
}

func (c *cv) logKey(g int, p interface{}) string {
	return fmt.Sprintf("%d:%x", g, ptBytes(p))
}

// pt returns a pointer to [k]G (G the generator of group g) and remembers its logarithm.
func (c *cv) pt(g int, k *big.Int) interface{} {
	p := reflect.New(c.ptType(g)).Interface()
	kr := c.red(k)
	reg.M(p, "ScalarMultiplicationBase", kr)
	c.mu.Lock()
	c.logs[c.logKey(g, p)] = kr
	c.mu.Unlock()
	return p
}

// setLog records that *p = [k]G (after the caller established it).
func (c *cv) setLog(g int, p interface{}, k *big.Int) {
	c.mu.Lock()
	c.logs[c.logKey(g, p)] = c.red(k)
	c.mu.Unlock()
}

// log returns the known discrete logarithm of *p.
func (c *cv) log(g int, p interface{}) (*big.Int, bool) {
	c.mu.Lock()
	defer c.mu.Unlock()
	k, ok := c.logs[c.logKey(g, p)]
	return k, ok
}

// ptVec builds []G?Affine of the points [k_i]G.
func (c *cv) ptVec(g int, ks []*big.Int) reflect.Value {
	s := reflect.MakeSlice(reflect.SliceOf(c.ptType(g)), len(ks), len(ks))
	for i, k := range ks {
		s.Index(i).Set(reflect.ValueOf(c.pt(g, k)).Elem())
	}
	return s
}

func ptEqual(a, b interface{}) bool { return bytes.Equal(ptBytes(a), ptBytes(b)) }

// cofactorPoint returns a non-zero curve point of order coprime to r in group g (so that P+T is on the
// curve, outside the r-torsion subgroup, and pairs exactly like P), or nil when the group has no cofactor.
// Built with the reference curve model: T = [r]R for a curve point R found by lifting small x-coordinates.
func (c *cv) cofactorPoint(g int) interface{} {
	c.cofOnce[g].Do(func() {
		G := c.C.G1
		if g == kG2 {
			G = c.C.G2
		}
		F := G.E.F
		for x := int64(1); x < 200; x++ {
			xs := make([]int64, F.Deg())
			xs[0] = x
			if F.Deg() > 1 {
				xs[1] = 1
			}
			R, ok := G.E.LiftX(ref.FromInt64s(F, xs...))
			if !ok {
				continue
			}
			T := G.E.Mul(c.r, R)
			if T.Inf {
				continue // R happened to lie in the subgroup (cofactor 1, e.g. bn254 G1)
			}
			if !G.E.OnCurve(T) || G.InSubgroup(T) {
				panic("c17a: cofactor point construction failed")
			}
			c.cofPt[g] = G.FromRef(T)
			return
		}
	})
	return c.cofPt[g]
}

// ---- misc ----------------------------------------------------------------------------------------

func errOf(res []interface{}) error { return reg.Err(res) }

// call runs f and converts a panic into (nil, panic text).
func guard(f func() error) (err error, panicked string) {
	defer func() {
		if r := recover(); r != nil {
			panicked = fmt.Sprint(r)
		}
	}()
	return f(), ""
}

func sha(chunks ...[]byte) []byte {
	h := sha256.New()
	for _, c := range chunks {
		h.Write(c)
	}
	return h.Sum(nil)
}

var idxRe = regexp.MustCompile(`\[\d+\]`)

// classPath normalises a site path for the histogram (indices collapsed).
func classPath(p string) string { return idxRe.ReplaceAllString(p, "[*]") }

func sortedKeys(m map[string]bool) []string {
	out := make([]string, 0, len(m))
	for k := range m {
		out = append(out, k)
	}
	sort.Strings(out)
	return out
}

func noteSites(test, what string, sites []Site) {
	seen := map[string]bool{}
	for _, s := range sites {
		seen[classPath(s.Path)+":"+string(s.Kind)] = true
	}
	rep.Note(test, what+" tamper sites discovered by reflection: "+strings.Join(sortedKeys(seen), " "))
}
