package c17a

// History dimension: key / SRS / proof objects are REUSED across ReadFrom / UnsafeReadFrom / re-assignment.
//
// An object X is used with material A (so that anything the implementation caches lazily — precomputed
// pairing lines, tables, slices — is filled), then material B is loaded into the SAME object through its own
// decoder (or, for structs whose fields are exported and undocumented as cached, by plain assignment), then X is
// used again. Every verdict after the reload must be the one the in-the-exponent oracle computes for material B
// and must equal the verdict of a freshly constructed object holding the same material.
// Objects: pedersen.VerifyingKey / ProvingKey, kzg.SRS (ProvingKey + VerifyingKey as used by SHPLONK and fflonk),
// shplonk / fflonk OpeningProof, mpcsetup.UpdateProof, kzg.MpcSetup (as contribution and as verifying receiver).

import (
	"bytes"
	"fmt"
	"math/big"
	"reflect"
	"testing"

	"pgregory.net/rapid"

	"verif/harness/internal/reg"
	"verif/harness/internal/rep"
)

const histClass = "history:key_object_reloaded"

func wbytes(obj interface{}, method string) []byte {
	var bb bytes.Buffer
	if err := errOf(reg.M(obj, method, &bb)); err != nil {
		panic(fmt.Sprintf("%T.%s: %v", obj, method, err))
	}
	return bb.Bytes()
}

func rinto(obj interface{}, method string, b []byte) error {
	return errOf(reg.M(obj, method, bytes.NewReader(b)))
}

// histCheck asserts one verdict observed on a reloaded object.
func (c *cv) histCheck(t *rapid.T, test, scheme, mode, what string, want int, why string, got, fresh error) {
	if (got == nil) != (fresh == nil) {
		t.Fatalf("%s/%s: REUSED OBJECT DISAGREES WITH A FRESH ONE (%s, reloaded through %s): reused object says %v, freshly constructed object with the same material says %v [oracle: %s]",
			scheme, c.name, what, mode, got, fresh, why)
	}
	verdict := "verdict:unasserted"
	switch want {
	case mustAccept:
		if got != nil {
			t.Fatalf("%s/%s: after reloading the object through %s a valid proof for the NEW material is rejected (%s): %v", scheme, c.name, mode, what, got)
		}
		verdict = "verdict:accepted"
	case mustReject:
		if got == nil {
			t.Fatalf("%s/%s: FORGERY ACCEPTED after reloading the object through %s: %s (%s) — the object still decides with stale material", scheme, c.name, mode, what, why)
		}
		verdict = "verdict:rejected"
	}
	rep.Case(test, fmt.Sprintf("%s %s %s %s", scheme, c.name, mode, what), true, histClass, histClass+":"+scheme, "curve:"+c.name,
		"reload:"+scheme+":"+mode, "why:"+why, verdict)
}

// ---- Pedersen --------------------------------------------------------------------------------------

func (c *cv) histPedersen(t *rapid.T, test string) {
	h1, h2 := c.drawNonZero(t, "ped_hA"), c.drawNonZero(t, "ped_hB")
	sA, sB := c.drawNonZero(t, "ped_sigmaA"), c.drawNonZero(t, "ped_sigmaB")
	if sA.Cmp(sB) == 0 {
		sB = c.F.Add(sB, bi(1))
		if sB.Sign() == 0 {
			sB = bi(2)
		}
	}
	mA := rapid.IntRange(1, 4).Draw(t, "ped_mA")
	mB := rapid.IntRange(1, 4).Draw(t, "ped_mB")
	mk := func(m int, tag string, sigma, h *big.Int) *pedKey {
		b := make([]*big.Int, m)
		for i := range b {
			b[i] = c.drawNonZero(t, fmt.Sprintf("ped_b%s%d", tag, i))
		}
		return c.pedMakeKey(b, sigma, h, c.F.Neg(c.F.Mul(sigma, h)))
	}
	kA, kB := mk(mA, "A", sA, h1), mk(mB, "B", sB, h2)
	cA, cB := c.drawNonZero(t, "ped_cA"), c.drawNonZero(t, "ped_cB")

	// --- verifying key
	mode := rapid.SampledFrom([]string{"ReadFrom", "UnsafeReadFrom", "ReadFrom(raw)", "assign_fields"}).Draw(t, "ped_vk_mode")
	X := DeepCopy(kA.vk)
	if err := c.pedVerify(X, c.pt(kG1, cA), c.pt(kG1, c.F.Mul(sA, cA))); err != nil {
		t.Fatalf("pedersen/%s: honest proof under key A rejected: %v", c.name, err)
	}
	fresh := c.ped.New("VerifyingKey")
	switch mode {
	case "ReadFrom":
		b := wbytes(kB.vk, "WriteTo")
		if err := rinto(X, "ReadFrom", b); err != nil {
			t.Fatalf("pedersen/%s: vk.ReadFrom: %v", c.name, err)
		}
		rinto(fresh, "ReadFrom", b)
	case "UnsafeReadFrom":
		b := wbytes(kB.vk, "WriteTo")
		if err := rinto(X, "UnsafeReadFrom", b); err != nil {
			t.Fatalf("pedersen/%s: vk.UnsafeReadFrom: %v", c.name, err)
		}
		rinto(fresh, "UnsafeReadFrom", b)
	case "ReadFrom(raw)":
		b := wbytes(kB.vk, "WriteRawTo")
		if err := rinto(X, "ReadFrom", b); err != nil {
			t.Fatalf("pedersen/%s: vk.ReadFrom(raw): %v", c.name, err)
		}
		rinto(fresh, "ReadFrom", b)
	case "assign_fields": // G and GSigmaNeg are exported, plain fields
		for _, o := range []interface{}{X, fresh} {
			reflect.ValueOf(o).Elem().FieldByName("G").Set(reflect.ValueOf(kB.vk).Elem().FieldByName("G"))
			reflect.ValueOf(o).Elem().FieldByName("GSigmaNeg").Set(reflect.ValueOf(kB.vk).Elem().FieldByName("GSigmaNeg"))
		}
	}
	probes := []struct {
		name string
		c, p *big.Int
	}{
		{"honest_proof_for_new_key", cB, c.F.Mul(sB, cB)},
		{"proof_made_with_old_sigma", cB, c.F.Mul(sA, cB)},
		{"old_key_honest_pair", cA, c.F.Mul(sA, cA)},
		{"new_key_proof_plus_one", cB, c.F.Add(c.F.Mul(sB, cB), bi(1))},
		{"identity_pair", new(big.Int), new(big.Int)},
	}
	for _, pr := range probes {
		C, P := c.pt(kG1, pr.c), c.pt(kG1, pr.p)
		want, why := c.pedExpectSingle(kB, C, P)
		c.histCheck(t, test, "pedersen_vk", mode, pr.name, want, why, c.pedVerify(X, C, P), c.pedVerify(fresh, C, P))
	}
	// the reloaded key inside BatchVerifyMultiVk (two keys sharing G)
	{
		s2 := c.drawNonZero(t, "ped_sigma2")
		k2 := c.pedMakeKey(kB.b, s2, kB.h, c.F.Neg(c.F.Mul(s2, kB.h)))
		rho := c.drawScalar(t, "ped_rho")
		c2 := c.drawScalar(t, "ped_c2")
		for _, pr := range []struct {
			name string
			p0   *big.Int
		}{{"batch_honest_for_new_key", c.F.Mul(sB, cB)}, {"batch_first_proof_with_old_sigma", c.F.Mul(sA, cB)}} {
			Cs := c.ptVec(kG1, []*big.Int{cB, c2})
			Ps := c.ptVec(kG1, []*big.Int{pr.p0, c.F.Mul(k2.sigma, c2)})
			keys := []*pedKey{kB, k2}
			want, why := c.pedExpectBatch(keys, Cs, Ps, rho)
			run := func(vk0 interface{}) error {
				vks := reflect.MakeSlice(reflect.SliceOf(c.ped.Types["VerifyingKey"]), 2, 2)
				vks.Index(0).Set(reflect.ValueOf(vk0).Elem())
				vks.Index(1).Set(reflect.ValueOf(k2.vk).Elem())
				return errOf(c.ped.F("BatchVerifyMultiVk", vks.Interface(), Cs.Interface(), Ps.Interface(), c.fe(rho)))
			}
			c.histCheck(t, test, "pedersen_vk", mode, pr.name, want, why, run(X), run(fresh))
		}
	}

	// --- proving key: commit/prove with basis A, reload basis B (another size), commit/prove again
	pmode := rapid.SampledFrom([]string{"ReadFrom", "ReadFrom(raw)"}).Draw(t, "ped_pk_mode")
	PX := DeepCopy(kA.pk)
	vA := make([]*big.Int, mA)
	for i := range vA {
		vA[i] = c.drawScalar(t, fmt.Sprintf("ped_vA%d", i))
	}
	if res := reg.M(PX, "Commit", c.feVec(vA).Interface()); errOf(res) != nil || !ptEqual(ptrOf(res[0]), c.pt(kG1, c.inner(vA, kA.b))) {
		t.Fatalf("pedersen/%s: Commit under proving key A wrong", c.name)
	}
	reg.M(PX, "ProveKnowledge", c.feVec(vA).Interface())
	wm := "WriteTo"
	if pmode == "ReadFrom(raw)" {
		wm = "WriteRawTo"
	}
	if err := rinto(PX, "ReadFrom", wbytes(kB.pk, wm)); err != nil {
		t.Fatalf("pedersen/%s: pk.ReadFrom: %v", c.name, err)
	}
	vB := make([]*big.Int, mB)
	for i := range vB {
		vB[i] = c.drawScalar(t, fmt.Sprintf("ped_vB%d", i))
	}
	res := reg.M(PX, "Commit", c.feVec(vB).Interface())
	res2 := reg.M(PX, "ProveKnowledge", c.feVec(vB).Interface())
	if errOf(res) != nil || errOf(res2) != nil {
		t.Fatalf("pedersen/%s: reloaded proving key refuses values of the new basis size: %v %v", c.name, errOf(res), errOf(res2))
	}
	cl := c.inner(vB, kB.b)
	if !ptEqual(ptrOf(res[0]), c.pt(kG1, cl)) || !ptEqual(ptrOf(res2[0]), c.pt(kG1, c.F.Mul(sB, cl))) {
		t.Fatalf("pedersen/%s: proving key reloaded through %s commits/proves with stale material (expected [Σ v b_B]G1 and [σ_B Σ v b_B]G1)", c.name, pmode)
	}
	c.histCheck(t, test, "pedersen_pk", pmode, "proof_by_reloaded_proving_key", mustAccept, "relation_holds",
		c.pedVerify(X, ptrOf(res[0]), ptrOf(res2[0])), c.pedVerify(fresh, ptrOf(res[0]), ptrOf(res2[0])))
}

// ---- kzg SRS as used by SHPLONK and fflonk; proof objects -------------------------------------------

func (c *cv) histKzg(t *rapid.T, test string) {
	polys1, points1, _, _ := c.shpDraw(t, "h1", 3, 5, 2)
	polys2, points2, _, _ := c.shpDraw(t, "h2", 3, 5, 2)
	packs1, fpts1, _ := c.fflDraw(t, "hf1", 2, 3, 3, 2)
	packs2, fpts2, _ := c.fflDraw(t, "hf2", 2, 3, 3, 2)
	tauA, tauB := c.drawNonZero(t, "h_tauA"), c.drawNonZero(t, "h_tauB")
	ok := func(tau *big.Int) bool {
		for _, pts := range [][][]*big.Int{points1, points2} {
			if c.vanish(flat(pts), tau).Sign() == 0 {
				return false
			}
		}
		for _, st := range []struct {
			packs  [][][]*big.Int
			points [][]*big.Int
		}{{packs1, fpts1}, {packs2, fpts2}} {
			for i := range st.points {
				tt := bi(int64(c.nextDivisor(len(st.packs[i]))))
				for _, x := range st.points[i] {
					if c.F.Exp(tau, tt).Cmp(c.F.Exp(x, tt)) == 0 {
						return false
					}
				}
			}
		}
		return true
	}
	for !ok(tauA) {
		tauA = c.F.Add(tauA, bi(1))
	}
	for !ok(tauB) || tauB.Cmp(tauA) == 0 {
		tauB = c.F.Add(tauB, bi(1))
	}
	sizeA := rapid.SampledFrom([]int{64, 128}).Draw(t, "h_sizeA")
	X := c.newSRS(sizeA, tauA)
	// use X with material A: prover and verifier of both schemes
	sA := c.shpProve(t, tauA, X, polys1, points1, nil)
	fA := c.fflProve(t, tauA, X, packs1, fpts1)
	if err := c.shpVerify(sA.proof, sA.digests, points1, X, nil); err != nil {
		t.Fatalf("shplonk/%s: honest proof rejected: %v", c.name, err)
	}
	if err := c.fflVerify(fA.proof, fA.digests, fpts1, X); err != nil {
		t.Fatalf("fflonk/%s: honest proof rejected: %v", c.name, err)
	}
	// reload X with the SRS of τB
	srsB := c.newSRS(64, tauB)
	mode := rapid.SampledFrom([]string{"SRS.ReadFrom", "SRS.UnsafeReadFrom", "SRS.ReadFrom(raw)", "Pk.ReadFrom+Vk.ReadFrom"}).Draw(t, "h_srs_mode")
	fresh := c.kzg.New("SRS")
	var err error
	switch mode {
	case "SRS.ReadFrom":
		b := wbytes(srsB, "WriteTo")
		err = rinto(X, "ReadFrom", b)
		rinto(fresh, "ReadFrom", b)
	case "SRS.UnsafeReadFrom":
		b := wbytes(srsB, "WriteTo")
		err = rinto(X, "UnsafeReadFrom", b)
		rinto(fresh, "UnsafeReadFrom", b)
	case "SRS.ReadFrom(raw)":
		b := wbytes(srsB, "WriteRawTo")
		err = rinto(X, "ReadFrom", b)
		rinto(fresh, "ReadFrom", b)
	default:
		bp, bv := wbytes(reg.Field(srsB, "Pk"), "WriteTo"), wbytes(reg.Field(srsB, "Vk"), "WriteTo")
		if err = rinto(reg.Field(X, "Pk"), "ReadFrom", bp); err == nil {
			err = rinto(reg.Field(X, "Vk"), "ReadFrom", bv)
		}
		rinto(reg.Field(fresh, "Pk"), "ReadFrom", bp)
		rinto(reg.Field(fresh, "Vk"), "ReadFrom", bv)
	}
	if err != nil {
		t.Fatalf("kzg/%s: reloading the SRS through %s failed: %v", c.name, mode, err)
	}
	// prover side of the reloaded object: shpProve / fflProve compare digests and proof points with [f(τB)]G1 etc.
	sB := c.shpProve(t, tauB, X, polys2, points2, nil)
	fB := c.fflProve(t, tauB, X, packs2, fpts2)
	// verifier side
	c.histCheck(t, test, "shplonk_srs", mode, "honest_proof_under_new_srs", mustAccept, "relation_holds",
		c.shpVerify(sB.proof, sB.digests, points2, X, nil), c.shpVerify(sB.proof, sB.digests, points2, fresh, nil))
	{
		o := c.shpObj(sA)
		want, why := c.shpExpectObj(&shpInstance{tau: tauB}, o)
		c.histCheck(t, test, "shplonk_srs", mode, "proof_and_digests_made_under_old_srs", want, why,
			c.shpVerify(sA.proof, sA.digests, points1, X, nil), c.shpVerify(sA.proof, sA.digests, points1, fresh, nil))
	}
	c.histCheck(t, test, "fflonk_srs", mode, "honest_proof_under_new_srs", mustAccept, "relation_holds",
		c.fflVerify(fB.proof, fB.digests, fpts2, X), c.fflVerify(fB.proof, fB.digests, fpts2, fresh))
	{
		o := c.fflObj(fA)
		want, why := c.fflExpectObj(&fflInstance{tau: tauB}, o)
		c.histCheck(t, test, "fflonk_srs", mode, "proof_and_digests_made_under_old_srs", want, why,
			c.fflVerify(fA.proof, fA.digests, fpts1, X), c.fflVerify(fA.proof, fA.digests, fpts1, fresh))
	}

	// proof objects: the object that held proof A receives proof B through its own ReadFrom
	{
		PX := DeepCopy(sA.proof)
		b := wbytes(sB.proof, "WriteTo")
		if err := rinto(PX, "ReadFrom", b); err != nil {
			t.Fatalf("shplonk/%s: OpeningProof.ReadFrom into a used proof object: %v", c.name, err)
		}
		fp := c.shp.New("OpeningProof")
		rinto(fp, "ReadFrom", b)
		c.histCheck(t, test, "shplonk_proof", "OpeningProof.ReadFrom", "proof_B_loaded_into_object_of_proof_A", mustAccept, "relation_holds",
			c.shpVerify(PX, sB.digests, points2, X, nil), c.shpVerify(fp, sB.digests, points2, X, nil))
		o := c.shpObj(sA)
		reflect.ValueOf(o).Elem().Field(2).Set(reflect.ValueOf(PX).Elem())
		want, why := c.shpExpectObj(&shpInstance{tau: tauB}, o)
		if why != "length_mismatch" && why != "too_few_claimed_values" { // shape mismatches make BatchVerify panic (see the notes of C17a_Shplonk)
			c.histCheck(t, test, "shplonk_proof", "OpeningProof.ReadFrom", "proof_B_against_statement_A", want, why,
				c.shpVerify(PX, sA.digests, points1, X, nil), c.shpVerify(fp, sA.digests, points1, X, nil))
		}
	}
	{
		b := wbytes(fB.proof, "WriteTo")
		fp := c.ffl.New("OpeningProof")
		// fflonk's decoder needs the claimed-value slices to be pre-shaped by the caller (it decodes INTO them):
		// a fresh zero object cannot be decoded into; this is a codec matter (C07), so only the documented use —
		// decoding into an object of the right shape — is exercised: the used object of proof A reshaped like B.
		shape := func(dst interface{}) {
			d, z := reflect.ValueOf(dst).Elem(), reflect.ValueOf(fB.proof).Elem()
			d.FieldByName("ClaimedValues").Set(c.feVec3(zeroLike3(bigVec3(z.FieldByName("ClaimedValues")))))
			d.FieldByName("SOpeningProof").FieldByName("ClaimedValues").Set(c.feVec2(zeroLike2(bigVec2(z.FieldByName("SOpeningProof").FieldByName("ClaimedValues")))))
		}
		PX := DeepCopy(fA.proof)
		shape(PX)
		shape(fp)
		e1, e2 := rinto(PX, "ReadFrom", b), rinto(fp, "ReadFrom", b)
		if (e1 == nil) != (e2 == nil) {
			t.Fatalf("fflonk/%s: OpeningProof.ReadFrom behaves differently on a used object (%v) and a fresh one (%v)", c.name, e1, e2)
		}
		if e1 == nil {
			c.histCheck(t, test, "fflonk_proof", "OpeningProof.ReadFrom", "proof_B_loaded_into_object_of_proof_A", mustAccept, "relation_holds",
				c.fflVerify(PX, fB.digests, fpts2, X), c.fflVerify(fp, fB.digests, fpts2, X))
		} else {
			rep.Note(test, "fflonk.OpeningProof.ReadFrom cannot decode its own WriteTo output even into a pre-shaped object ("+e1.Error()+"); the proof-object reload history is exercised for shplonk only")
			// keep the mandatory class populated with the in-memory equivalent: assign B's fields into A's object
			reflect.ValueOf(PX).Elem().Set(reflect.ValueOf(DeepCopy(fB.proof)).Elem())
			c.histCheck(t, test, "fflonk_proof", "assign_fields", "proof_B_assigned_into_object_of_proof_A", mustAccept, "relation_holds",
				c.fflVerify(PX, fB.digests, fpts2, X), c.fflVerify(fB.proof, fB.digests, fpts2, X))
		}
	}
}

func zeroLike2(v [][]*big.Int) [][]*big.Int {
	out := make([][]*big.Int, len(v))
	for i := range v {
		out[i] = make([]*big.Int, len(v[i]))
		for j := range out[i] {
			out[i][j] = new(big.Int)
		}
	}
	return out
}

func zeroLike3(v [][][]*big.Int) [][][]*big.Int {
	out := make([][][]*big.Int, len(v))
	for i := range v {
		out[i] = zeroLike2(v[i])
	}
	return out
}

// ---- mpcsetup.UpdateProof and kzg.MpcSetup -----------------------------------------------------------

func (c *cv) histMpc(t *rapid.T, test string) {
	// UpdateProof object reused
	inA, inB := c.mpcHonest(t, "hA", 2, 2), c.mpcHonest(t, "hB", 2, 2)
	if inA.a.Cmp(inB.a) == 0 {
		return
	}
	oA, oB := DeepCopy(inA.obj), DeepCopy(inB.obj)
	X := reflect.ValueOf(oA).Elem().Field(0).Addr().Interface() // the proof object inside oA
	if err := c.mpcVerifyObj(oA); err != nil {
		t.Fatalf("mpcsetup/%s: honest update rejected: %v", c.name, err)
	}
	b := wbytes(reflect.ValueOf(oB).Elem().Field(0).Addr().Interface(), "WriteTo")
	if err := rinto(X, "ReadFrom", b); err != nil {
		t.Fatalf("mpcsetup/%s: UpdateProof.ReadFrom into a used object: %v", c.name, err)
	}
	fresh := c.mpc.New("UpdateProof")
	rinto(fresh, "ReadFrom", b)
	// statement B with the reloaded object / with a fresh one
	withProof := func(o interface{}, p interface{}) interface{} {
		n := DeepCopy(o)
		reflect.ValueOf(n).Elem().Field(0).Set(reflect.ValueOf(p).Elem())
		return n
	}
	{
		o := withProof(oB, X)
		want, why := c.mpcExpectObj(o)
		c.histCheck(t, test, "mpcsetup_proof", "UpdateProof.ReadFrom", "proof_B_with_statement_B", want, why, c.mpcVerifyObj(o), c.mpcVerifyObj(withProof(oB, fresh)))
	}
	{
		want, why := c.mpcExpectObj(oA) // oA now holds proof B with statement A
		c.histCheck(t, test, "mpcsetup_proof", "UpdateProof.ReadFrom", "proof_B_with_statement_A", want, why, c.mpcVerifyObj(oA), c.mpcVerifyObj(withProof(oA, fresh)))
	}

	// kzg.MpcSetup as contribution object and as verifying receiver
	N := rapid.IntRange(2, 6).Draw(t, "h_N")
	N2 := rapid.IntRange(2, 6).Draw(t, "h_N2")
	a1, a1b, a2 := c.drawNonZero(t, "h_a1"), c.drawNonZero(t, "h_a1b"), c.drawNonZero(t, "h_a2")
	if a1b.Cmp(a1) == 0 {
		a1b = c.F.Add(a1b, bi(1))
		if a1b.Sign() == 0 {
			a1b = bi(2)
		}
	}
	prev0 := c.kmInit(N)
	c1, tau1 := c.kmContribute(prev0, bi(1), a1)
	c1b, _ := c.kmContribute(prev0, bi(1), a1b)
	direct := func(p, n interface{}) error { return errOf(reg.M(p, "Verify", n)) }
	load := func(dst, src interface{}) {
		if err := rinto(dst, "ReadFrom", wbytes(src, "WriteTo")); err != nil {
			t.Fatalf("kzg.MpcSetup/%s: ReadFrom(WriteTo(x)) into a used object: %v", c.name, err)
		}
	}
	freshOf := func(src interface{}) interface{} {
		f := c.kzg.New("MpcSetup")
		if err := rinto(f, "ReadFrom", wbytes(src, "WriteTo")); err != nil {
			t.Fatalf("kzg.MpcSetup/%s: ReadFrom(WriteTo(x)): %v", c.name, err)
		}
		return f
	}
	{
		// contribution object: first a contribution of ANOTHER ceremony (size N2), verified there; then reloaded
		other0 := c.kmInit(N2)
		XC, _ := c.kmContribute(other0, bi(1), a2)
		if err := direct(DeepCopy(other0), XC); err != nil {
			t.Fatalf("kzg.MpcSetup/%s: consistent contribution rejected: %v", c.name, err)
		}
		load(XC, c1b)
		want, why := c.kmExpect(prev0, XC, "")
		c.histCheck(t, test, "kzg_mpcsetup", "MpcSetup.ReadFrom", "contribution_object_reloaded_with_valid_contribution", want, why,
			direct(DeepCopy(prev0), XC), direct(DeepCopy(prev0), freshOf(c1b)))
		// a forged contribution (one G1 power replaced) loaded into the same object
		forged := DeepCopy(c1)
		kmAccess(forged).g1.Index(N - 1).Set(reflect.ValueOf(c.pt(kG1, c.F.Add(c.F.Exp(tau1, bi(int64(N-1))), bi(1)))).Elem())
		load(XC, forged)
		want, why = c.kmExpect(prev0, XC, "")
		c.histCheck(t, test, "kzg_mpcsetup", "MpcSetup.ReadFrom", "contribution_object_reloaded_with_forged_contribution", want, why,
			direct(DeepCopy(prev0), XC), direct(DeepCopy(prev0), freshOf(forged)))
	}
	{
		// receiver object: verifies c1, is advanced in place to c1, verifies the next round
		P := DeepCopy(prev0)
		if err := direct(P, DeepCopy(c1)); err != nil {
			t.Fatalf("kzg.MpcSetup/%s: consistent contribution rejected: %v", c.name, err)
		}
		load(P, c1)
		c2, _ := c.kmContribute(c1, tau1, a2)
		want, why := c.kmExpect(c1, c2, "")
		c.histCheck(t, test, "kzg_mpcsetup", "MpcSetup.ReadFrom", "receiver_advanced_in_place_verifies_next_round", want, why,
			direct(P, DeepCopy(c2)), direct(freshOf(c1), DeepCopy(c2)))
		want, why = c.kmExpect(c1, c1b, "")
		c.histCheck(t, test, "kzg_mpcsetup", "MpcSetup.ReadFrom", "receiver_advanced_in_place_gets_contribution_of_previous_round", want, why,
			direct(P, DeepCopy(c1b)), direct(freshOf(c1), DeepCopy(c1b)))
	}
}

func propHistory(t *rapid.T, c *cv) {
	test := "C17a_History/" + c.name
	c.histPedersen(t, test)
	c.histKzg(t, test)
	c.histMpc(t, test)
}

func TestC17a_History(t *testing.T) {
	forCurves(t, func(t *testing.T, c *cv) { rapid.Check(t, func(t *rapid.T) { propHistory(t, c) }) })
}
