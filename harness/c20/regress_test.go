package c20

import (
	"fmt"
	"math/big"
	"testing"

	"verif/harness/internal/inst"
	"verif/harness/internal/ref"
	"verif/harness/internal/rep"
)

// Rapid-free regression tests of the defect cluster F12 (DESIGN §6) found by the C20 checks on the
// pinned tree, on all seven instantiations. Each fails while its defect is present
// (fixes: /verif/fixes/F12[a-e]-*.patch).

func regressPoly(c *cx, size int) (*shared, []*big.Int) {
	co := make([]*big.Int, size)
	for i := range co {
		co[i] = bi(int64(3*i + 2))
	}
	sh := &shared{c: c, p: ref.NewPoly(c.F, co), size: size, tabs: map[int]*tables{}}
	return sh, co
}

func forIops(t *testing.T, body func(t *testing.T, c *cx)) {
	for _, I := range inst.Iops() {
		I := I
		t.Run(I.Name(), func(t *testing.T) { body(t, ctxOf(I)) })
	}
}

var canReg = inst.IopForm{Basis: inst.Canonical, Layout: inst.Regular}

// F12a: Evaluate with shift > 5 used an uninitialised generator (x·0), negative shifts smallExp(…, k<0) = 0.
func TestC20_RegressF12a_EvaluateShift(t *testing.T) {
	forIops(t, func(t *testing.T, c *cx) {
		sh, _ := regressPoly(c, 8)
		x := bi(12345)
		for _, f := range allForms[:4] {
			m := newModel(sh, f, 8)
			for _, k := range []int{6, 7, 8, 9, 100, -1, -3, -8, -9} {
				m.checkEval(t, x, k, "regress")
				rep.Case("C20_Regress", fmt.Sprintf("%s F12a %s shift=%d", c.I.Name(), f, k), true, "F12a")
			}
		}
	})
}

// F12b: GetCoeff indexed negatively for negative shifts.
func TestC20_RegressF12b_GetCoeffNegativeShift(t *testing.T) {
	forIops(t, func(t *testing.T, c *cx) {
		sh, _ := regressPoly(c, 8)
		for _, f := range allForms[2:] {
			for _, n := range []int{8, 16} {
				m := newModel(sh, f, n)
				for _, k := range []int{-1, -2, -7, -8, -9} {
					if m.checkCoeffs(t, k, indices(n, 0)) != n {
						t.Fatalf("not all entries compared")
					}
					rep.Case("C20_Regress", fmt.Sprintf("%s F12b %s len=%d shift=%d", c.I.Name(), f, n, k), true, "F12b")
				}
			}
		}
	})
}

// F12c: barycentric evaluation returned 0 at the points of the domain (and, for LagrangeCoset, of the coset).
func TestC20_RegressF12c_EvaluateAtDomainPoint(t *testing.T) {
	forIops(t, func(t *testing.T, c *cx) {
		for _, size := range []int{1, 2, 8} {
			sh, _ := regressPoly(c, size)
			d := c.dom(size, nil).ref
			for _, f := range allForms[2:4] {
				m := newModel(sh, f, size)
				for i := 0; i < size; i++ {
					m.checkEval(t, d.Point(i), 0, "domain")
					m.checkEval(t, d.Point(i), 1, "domain")
					rep.Case("C20_Regress", fmt.Sprintf("%s F12c %s size=%d i=%d", c.I.Name(), f, size, i), true, "F12c")
				}
			}
			if size == 1 {
				continue // needs ToLagrangeCoset on a size-1 domain, which is F12d
			}
			m := newModel(sh, canReg, size)
			m.apply(t, opToLagrangeCoset, 0, size)
			for i := 0; i < size; i++ {
				m.checkEval(t, d.CosetPoint(i), 0, "coset")
			}
		}
	})
}

// F12d: ToLagrangeCoset read cosetTable[1], which does not exist for a domain of size 1.
func TestC20_RegressF12d_ToLagrangeCosetSizeOne(t *testing.T) {
	forIops(t, func(t *testing.T, c *cx) {
		sh, _ := regressPoly(c, 1)
		for _, f := range allForms {
			m := newModel(sh, f, 1)
			m.apply(t, opToLagrangeCoset, 0, 1)
			m.checkShape(t)
			m.checkEval(t, bi(777), 0, "random")
			m.checkEval(t, c.dom(1, nil).ref.S, 3, "coset")
			rep.Case("C20_Regress", fmt.Sprintf("%s F12d %s", c.I.Name(), f), true, "F12d")
		}
	})
}

// F12e: BuildRatioShuffledVectors panicked (index out of range in checkSize) when numerator and
// denominator consist of a single polynomial each.
func TestC20_RegressF12e_RatioSinglePolynomial(t *testing.T) {
	forIops(t, func(t *testing.T, c *cx) {
		n := 4
		d := c.dom(n, nil)
		num := []*big.Int{bi(3), bi(5), bi(7), bi(11)}
		den := []*big.Int{bi(7), bi(11), bi(3), bi(5)}
		beta := bi(1000)
		lr := inst.IopForm{Basis: inst.Lagrange, Layout: inst.Regular}
		var z inst.IopPoly
		var err error
		func() {
			defer func() {
				if r := recover(); r != nil {
					t.Fatalf("C20: BuildRatioShuffledVectors with one polynomial per side panicked: %v", r)
				}
			}()
			z, err = c.I.BuildRatioShuffledVectors([]inst.IopPoly{c.I.NewPoly(num, lr)}, []inst.IopPoly{c.I.NewPoly(den, lr)}, beta, lr, d.lib)
		}()
		if err != nil {
			t.Fatalf("C20: unexpected error %v", err)
		}
		want := shuffledRatio(c.F, [][]*big.Int{num}, [][]*big.Int{den}, beta)
		got := z.Coefficients()
		for i := range want {
			if got[i].Cmp(want[i]) != 0 {
				t.Fatalf("C20: ratio[%d]=%s want %s", i, hx(got[i]), hx(want[i]))
			}
		}
		rep.Case("C20_Regress", c.I.Name()+" F12e", true, "F12e")
	})
}

// F12f: EvalEq on zero variables returned 0; Π over an empty index set is 1, which is also what
// MultiLin.Eq (table [m0·1]) and MultiLin.Evaluate use for a table of size 1.
func TestC20_RegressF12f_EvalEqEmptyProduct(t *testing.T) {
	for _, P := range inst.FrPolys() {
		if g := P.EvalEq(nil, nil); g.Cmp(bi(1)) != 0 {
			t.Errorf("C20: %s: EvalEq(), the empty product, = %s, want 1", P.Name(), hx(g))
		}
		if g := P.EvalEq([]*big.Int{}, []*big.Int{}); g.Cmp(bi(1)) != 0 {
			t.Errorf("C20: %s: EvalEq([], []) = %s, want 1", P.Name(), hx(g))
		}
		// consistency with the table builder on zero variables
		tab := P.MLEq(bi(1), nil)
		if v, _ := P.MLEvaluate(tab, nil, false); v.Cmp(bi(1)) != 0 {
			t.Errorf("C20: %s: Eq() table on zero variables evaluates to %s", P.Name(), hx(v))
		}
		rep.Case("C20_Regress", P.Name()+" F12f", true, "F12f")
	}
}

// F12g: a Canonical/BitReverse coefficient vector converted on a larger domain was zero-padded at the end of
// the bit-reversed vector (i.e. at the wrong degrees); only Canonical/Regular objects grew correctly.
func TestC20_RegressF12g_GrowCanonicalBitReverse(t *testing.T) {
	forIops(t, func(t *testing.T, c *cx) {
		for _, size := range []int{1, 2, 8} {
			sh, _ := regressPoly(c, size)
			for _, rho := range []int{2, 4} {
				for _, op := range []int{opGrowLagrange, opGrowCoset, opGrowCanonical} {
					for _, f := range allForms[:2] {
						m := newModel(sh, f, size)
						for m.n < size*rho/2 {
							m.apply(t, opGrowCanonical, 0, size*rho)
						}
						if !m.apply(t, op, 0, size*rho) || m.n != size*rho {
							t.Fatalf("harness: grow step not applied")
						}
						m.checkShape(t)
						m.checkEval(t, bi(12345), 0, "random")
						m.checkEval(t, c.dom(m.n, nil).ref.Point(3), 1, "domain")
						m.checkEval(t, c.dom(m.n, nil).ref.CosetPoint(5), -1, "coset")
						m.checkCoeffs(t, 0, indices(m.n, 0))
						rep.Case("C20_Regress", fmt.Sprintf("%s F12g %s size=%d rho=%d %s", c.I.Name(), f, size, rho, opNames[op]), true, "F12g")
					}
				}
			}
		}
	})
}

// F12i: GetCoeff moves an entry by (len/size)*shift positions (integer division) while the shift refers to
// w = fft.Generator(size), of order NextPowerOfTwo(size) (what Evaluate uses): for a size that is not a power of
// two on a vector with len/size != len/NextPowerOfTwo(size) GetCoeff returns entries of another polynomial
// (size 5 on 16 entries: 3 positions per unit shift instead of 2). Probe when the finding is listed as known,
// regression test otherwise.
func TestC20_RegressF12i_GetCoeffRhoSizeNotPowerOfTwo(t *testing.T) {
	forIops(t, func(t *testing.T, c *cx) {
		bad := ""
		for _, sz := range [][2]int{{5, 16}, {3, 16}, {6, 32}, {12, 64}} {
			sh, _ := regressPoly(c, sz[0])
			for _, f := range allForms[2:4] {
				lib := c.I.NewPoly(sh.entries(f, sz[1]), f)
				lib.SetSize(sz[0])
				m := &model{shared: sh, lib: lib, form: f, n: sz[1]}
				for _, k := range []int{1, -1, sz[0], 7} {
					lib.Shift(k)
					want, _ := m.wantCoeff(0, k)
					// Evaluate of the same object is the arbiter of what Shift(k) means
					m.checkEval(t, bi(12345), k, "random")
					lib.Shift(k)
					if got := lib.GetCoeff(0); got.Cmp(want) != 0 && bad == "" {
						bad = fmt.Sprintf("size=%d len=%d %s Shift(%d): GetCoeff(0)=%s, p(w^%d)=%s", sz[0], sz[1], f, k, hx(got), k, hx(want))
					}
					rep.Case("C20_Regress", fmt.Sprintf("%s F12i size=%d len=%d %s shift=%d", c.I.Name(), sz[0], sz[1], f, k), true, "F12i")
				}
			}
		}
		switch {
		case bad != "" && rep.Known("C20", keyF12i):
			rep.StillPresent("C20", keyF12i, c.I.Name()+": "+bad)
		case bad != "":
			t.Fatalf("C20: %s", bad)
		}
	})
}
