package c20

import (
	"fmt"
	"strings"
	"testing"

	"pgregory.net/rapid"

	"verif/harness/internal/inst"
	"verif/harness/internal/ref"
	"verif/harness/internal/rep"
)

// Rapid state machine: long random histories over the same alphabet as the exhaustive walk, with the
// shift as part of the state (it must survive conversions, clones and serialisation), varied
// polynomials (zero, constant, sparse, boundary coefficients) and drawn evaluation points / indices.

func propMachine(t *rapid.T, c *cx) {
	test := "C20_Machine/" + c.I.Name()
	size, f, n0, classes0 := drawInit(t, rep.Scale(6, 8), "")
	pal := shiftPalette(c, 8*np2(size))
	s := rapid.SampledFrom(pal).Draw(t, "cosetshift")
	co, coClass := drawElems(t, c, size, "coef")
	sh := &shared{c: c, p: ref.NewPoly(c.F, co), size: size, s: s, pal: pal, tabs: map[int]*tables{}}
	m := newModel(sh, f, n0)
	if n0 == size && rapid.IntRange(0, 2).Draw(t, "spare") == 0 {
		m = newModelSpare(sh, f, size, rapid.SampledFrom([]int{1, size, 3*size + 3}).Draw(t, "sparecap"))
		classes0 = append(classes0, "init_spare_capacity")
	}
	maxLen := 4 * size
	if m.n > maxLen {
		maxLen = m.n
	}
	classes := append(classes0, "init:"+f.String(), fmt.Sprintf("size:%d", size), "coeffs:"+coClass)
	conv, domainPoint, shifted, rt := 0, false, false, false
	probe := func(label string) {
		m.checkShape(t)
		if m.canEvaluate() {
			pc := rapid.SampledFrom(pointClasses).Draw(t, label+"pc")
			j := rapid.IntRange(0, 2*m.n).Draw(t, label+"pj")
			m.checkEvalCurrent(t, m.point(pc, j), pc)
			classes = append(classes, "eval_x:"+pc, "eval_"+shiftClass(m.shift, size), "eval_in:"+m.form.String())
			domainPoint = domainPoint || (pc != "random" && pc != "zero")
		} else {
			classes = append(classes, "eval_skipped:coset_not_stored")
		}
		i := rapid.IntRange(0, m.n-1).Draw(t, label+"i")
		if m.checkCoeffCurrent(t, i) {
			classes = append(classes, "coeff_"+shiftClass(m.shift, size))
		}
	}
	probe("init")
	steps := rapid.IntRange(1, rep.Scale(14, 30)).Draw(t, "steps")
	for st := 0; st < steps; st++ {
		lbl := fmt.Sprintf("s%d", st)
		a := rapid.IntRange(0, nOps+3).Draw(t, lbl+"op")
		switch {
		case a < nOps:
			if !m.apply(t, a, rapid.IntRange(0, 14).Draw(t, lbl+"variant"), maxLen) {
				classes = append(classes, "op_skipped_precondition")
				continue
			}
			name := opNames[a]
			classes = append(classes, "op:"+name)
			classes = append(classes, m.tags...)
			if strings.HasPrefix(name, "To") || strings.HasPrefix(name, "Grow") {
				conv++
			}
			if a == opWriteRead {
				rt = true
				classes = append(classes, "writeread_"+shiftClass(m.shift, size))
				classes = append(classes, rtClasses(size, m.shift)...)
			}
		case a == nOps, a == nOps+1:
			k := drawRtShift(t, size, lbl+"shift")
			m.shift = k
			m.lib.Shift(k)
			m.hist = append(m.hist, fmt.Sprintf("Shift(%d)", k))
			shifted = shifted || k != 0
			classes = append(classes, "op:Shift")
		case a == nOps+2:
			m.lib.SetSize(size)
			m.hist = append(m.hist, "SetSize(same)")
			classes = append(classes, "op:SetSize")
		default:
			classes = append(classes, "op:probe_only")
		}
		probe(lbl)
	}
	if m.n > size {
		classes = append(classes, fmt.Sprintf("final_rho:%d", m.n/size))
	}
	classes = append(classes, fmt.Sprintf("conversions:%d", min(conv, 6)))
	nontrivial := conv >= 2 || shifted || domainPoint || size == 1 || rt
	rep.Case(test, c.I.Name()+" "+strings.Join(m.hist, ">")+" p="+hxs(co), nontrivial, dedup(classes)...)
}

func TestC20_Machine(t *testing.T) { forIopsRapid(t, propMachine) }

var _ = inst.Canonical
