package c20

import (
	"math/big"
	"testing"

	"verif/harness/internal/ref"
	"verif/harness/internal/rep"
)

// Fixed points of the reference model that do not come from the library (hand-computed over F_17 / F_97).

func ints(f *ref.Fp, xs ...int64) []*big.Int {
	out := make([]*big.Int, len(xs))
	for i, x := range xs {
		out[i] = f.Red(bi(x))
	}
	return out
}

func TestC20_RefSelf(t *testing.T) {
	f17 := ref.NewFp(bi(17))
	p := ref.NewPoly(f17, ints(f17, 1, 2, 3))
	if p.Eval(bi(2)).Sign() != 0 || p.Eval(bi(1)).Int64() != 6 || p.Eval(bi(0)).Int64() != 1 {
		t.Fatalf("Horner wrong")
	}
	if _, err := ref.NewPolyDomain(f17, 4, bi(16), bi(3)); err == nil {
		t.Fatalf("order-2 element accepted as generator of a size-4 domain")
	}
	if _, err := ref.NewPolyDomain(f17, 4, bi(4), bi(13)); err == nil { // 13 = 4^3 lies in the subgroup
		t.Fatalf("coset shift inside the subgroup accepted")
	}
	if _, err := ref.NewPolyDomain(f17, 3, bi(4), bi(3)); err == nil {
		t.Fatalf("size 3 accepted")
	}
	if _, err := ref.NewPolyDomain(f17, 4, bi(4), bi(0)); err == nil {
		t.Fatalf("zero coset shift accepted")
	}
	d, err := ref.NewPolyDomain(f17, 4, bi(4), bi(3))
	if err != nil {
		t.Fatal(err)
	}
	x := ref.NewPoly(f17, ints(f17, 0, 1))
	if !sameVec(x.LagrangeValues(d), ints(f17, 1, 4, 16, 13)) || !sameVec(x.CosetValues(d), ints(f17, 3, 12, 14, 5)) {
		t.Fatalf("domain points wrong: %v %v", x.LagrangeValues(d), x.CosetValues(d))
	}
	if d.Point(-1).Int64() != 13 || d.Point(5).Int64() != 4 || d.CosetPoint(2).Int64() != 14 {
		t.Fatalf("Point with out-of-range index wrong")
	}
	back, err := ref.PolyFromLagrange(d, ints(f17, 1, 4, 16, 13))
	if err != nil || !back.Equal(x) {
		t.Fatalf("interpolation on the domain wrong: %v %v", back.C, err)
	}
	back, err = ref.PolyFromCoset(d, p.CosetValues(d))
	if err != nil || !back.Equal(p) {
		t.Fatalf("interpolation on the coset wrong: %v %v", back.C, err)
	}
	q, err := ref.PolyInterpolate(f17, ints(f17, 0, 1, 2), ints(f17, 1, 3, 7))
	if err != nil || !q.Equal(ref.NewPoly(f17, ints(f17, 1, 1, 1))) {
		t.Fatalf("interpolation through (0,1),(1,3),(2,7) is not 1+X+X^2: %v", q.C)
	}
	if _, err := ref.PolyInterpolate(f17, ints(f17, 1, 1), ints(f17, 1, 2)); err == nil {
		t.Fatalf("repeated abscissa accepted")
	}
	v := ref.PolyXnMinusOne(f17, 4)
	for i := 0; i < 4; i++ {
		if v.Eval(d.Point(i)).Sign() != 0 {
			t.Fatalf("X^4-1 does not vanish on the domain")
		}
		if v.Eval(d.CosetPoint(i)).Int64() != 12 { // 3^4-1 = 80 = 12 mod 17
			t.Fatalf("X^4-1 on the coset is not s^4-1")
		}
	}
	pr := ref.NewPoly(f17, ints(f17, 1, 1)).Mul(ref.NewPoly(f17, ints(f17, 1, -1)))
	if !pr.Equal(ref.NewPoly(f17, ints(f17, 1, 0, -1))) || pr.Degree() != 2 || (ref.Poly{F: f17}).Degree() != -1 {
		t.Fatalf("Mul/Degree wrong")
	}
	want := []int{0, 4, 2, 6, 1, 5, 3, 7}
	for i, w := range want {
		if ref.PolyBitRev(i, 8) != w {
			t.Fatalf("PolyBitRev(%d,8)", i)
		}
	}
	if ref.PolyBitRev(0, 1) != 0 || ref.PolyBitRev(1, 2) != 1 {
		t.Fatalf("PolyBitRev on tiny sizes")
	}
	br := ref.PolyBitReversed(ints(f17, 0, 1, 2, 3, 4, 5, 6, 7))
	if !sameVec(br, ints(f17, 0, 4, 2, 6, 1, 5, 3, 7)) {
		t.Fatalf("PolyBitReversed wrong")
	}
	// multilinear: a(1-x1)(1-x2) + b(1-x1)x2 + c x1(1-x2) + d x1x2 at (2,3) with (a,b,c,d)=(1,2,3,4) is 2-6-12+24 = 8
	f97 := ref.NewFp(bi(97))
	tab := ints(f97, 1, 2, 3, 4)
	if f97.MultilinEval(tab, ints(f97, 2, 3)).Int64() != 8 {
		t.Fatalf("MultilinEval wrong")
	}
	if f97.MultilinEval(tab, ints(f97, 1, 0)).Int64() != 3 || ref.MultilinIndex([]int{1, 0}) != 2 {
		t.Fatalf("vertex convention wrong (first variable = most significant bit)")
	}
	if !sameVec(f97.MultilinFix(tab, bi(2)), ints(f97, 5, 6)) { // (1-2)·[1,2] + 2·[3,4]
		t.Fatalf("MultilinFix wrong")
	}
	if f97.EvalEq(ints(f97, 2), ints(f97, 3)).Int64() != 8 || f97.EvalEq(nil, nil).Int64() != 1 {
		t.Fatalf("EvalEq wrong")
	}
	if !sameVec(f97.EqTable(ints(f97, 2, 3), bi(5)), ints(f97, 10, -15, -20, 30)) {
		t.Fatalf("EqTable wrong: %v", f97.EqTable(ints(f97, 2, 3), bi(5)))
	}
	m, err := parsePolyText("-3X² + 10×X - 1", 10, bi(97))
	if err != nil || m[2].Int64() != 94 || m[1].Int64() != 10 || m[0].Int64() != 96 {
		t.Fatalf("parsePolyText: %v %v", m, err)
	}
	if _, err := parsePolyText("X + X²", 10, bi(97)); err == nil {
		t.Fatalf("parsePolyText accepts increasing degrees")
	}
	rep.Case("C20_RefSelf", "fixed points", false, "ref_selftest")
}
