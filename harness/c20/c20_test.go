// Package c20: polynomial values are invariant under every change of representation
// (iop.Polynomial and its derived builders, fr/polynomial) — DESIGN §5 C20.
//
// A reference polynomial (coefficient list over ref.Fp) is carried alongside every library object;
// after every step the library object must denote that same polynomial: Evaluate(x) = p(ω^shift·x)
// by Horner, the stored entries and GetCoeff(i) are the entries its current form denotes.
package c20

import (
	"bytes"
	"crypto/sha256"
	"encoding/binary"
	"fmt"
	"math"
	"math/big"
	"os"
	"regexp"
	"strconv"
	"strings"
	"sync"
	"testing"

	"verif/harness/internal/inst"
	"verif/harness/internal/ref"
	"verif/harness/internal/rep"
)

func TestMain(m *testing.M) { rep.Main(m) }

// TB is the part of *testing.T / *rapid.T the checks need.
type TB interface {
	Fatalf(format string, args ...any)
	Logf(format string, args ...any)
}

func selected(name string) bool {
	p := os.Getenv("VERIF_INST")
	if p == "" {
		return true
	}
	ok, _ := regexp.MatchString(p, name)
	return ok
}

// shard returns (k, n) of VERIF_SHARD=k/n (0,1 when unset).
func shard() (int, int) {
	s := os.Getenv("VERIF_SHARD")
	if i := strings.IndexByte(s, '/'); i > 0 {
		k, e1 := strconv.Atoi(s[:i])
		n, e2 := strconv.Atoi(s[i+1:])
		if e1 == nil && e2 == nil && n > 0 && k >= 0 && k < n {
			return k, n
		}
	}
	return 0, 1
}

func bi(x int64) *big.Int { return big.NewInt(x) }

func hx(v *big.Int) string { return v.Text(16) }

func hxs(v []*big.Int) string {
	var b strings.Builder
	b.WriteByte('[')
	for i, x := range v {
		if i > 0 {
			b.WriteByte(' ')
		}
		if i >= 8 {
			fmt.Fprintf(&b, "…(%d)", len(v))
			break
		}
		b.WriteString(x.Text(16))
	}
	b.WriteByte(']')
	return b.String()
}

// ---- per-curve context --------------------------------------------------------------------------

type dom struct {
	lib inst.IopDomain
	ref *ref.PolyDomain
	n   int
}

type cx struct {
	I    inst.Iop    // nil for a field that has only fr/polynomial (grumpkin)
	P    inst.FrPoly // always set
	F    *ref.Fp
	mu   sync.Mutex
	doms map[string]*dom
}

var (
	cxMu  sync.Mutex
	cxAll = map[string]*cx{}
)

func ctxOf(i inst.Iop) *cx { return ctxOfPoly(i) }

func ctxOfPoly(p inst.FrPoly) *cx {
	cxMu.Lock()
	defer cxMu.Unlock()
	c := cxAll[p.Name()]
	if c == nil {
		q := p.Q()
		if !q.ProbablyPrime(32) {
			panic("harness configuration: modulus of " + p.Name() + " is not prime")
		}
		c = &cx{P: p, I: inst.IopByName(p.Name()), F: ref.NewFp(q), doms: map[string]*dom{}}
		cxAll[p.Name()] = c
	}
	return c
}

// dom returns the (cached) library domain of cardinality n with coset shift s (nil = package
// default) together with its reference twin. The reference validates what it takes from the
// library: the generator has order exactly n, the shift generates a coset disjoint from the
// subgroup, fft.Generator(n) is that same generator and generators of nested domains are powers of
// each other (which is what lets a shift by ω_size be an index shift on a larger domain).
func (c *cx) dom(n int, s *big.Int) *dom {
	key := fmt.Sprint(n, "/", s)
	c.mu.Lock()
	defer c.mu.Unlock()
	if d := c.doms[key]; d != nil {
		return d
	}
	ld := c.I.NewDomain(uint64(n), s, true)
	if ld.Cardinality() != n {
		panic(fmt.Sprintf("harness configuration: %s NewDomain(%d) has cardinality %d", c.I.Name(), n, ld.Cardinality()))
	}
	rd, err := ref.NewPolyDomain(c.F, n, ld.Generator(), ld.CosetShift())
	if err != nil {
		panic(fmt.Sprintf("harness configuration: %s domain %d: %v", c.I.Name(), n, err))
	}
	if s != nil && rd.S.Cmp(c.F.Red(s)) != 0 {
		panic("harness configuration: WithShift not honoured")
	}
	g, err := c.I.FFTGenerator(uint64(n))
	if err != nil || g.Cmp(rd.W) != 0 {
		panic(fmt.Sprintf("harness configuration: %s fft.Generator(%d) differs from Domain.Generator", c.I.Name(), n))
	}
	if n > 1 {
		h, _ := c.I.FFTGenerator(uint64(n / 2))
		if c.F.Sqr(g).Cmp(h) != 0 {
			panic(fmt.Sprintf("harness configuration: %s Generator(%d)^2 != Generator(%d)", c.I.Name(), n, n/2))
		}
	}
	d := &dom{lib: ld, ref: rd, n: n}
	c.doms[key] = d
	return d
}

// validShift reports whether s can serve as coset shift for all domains up to maxN.
func (c *cx) validShift(s *big.Int, maxN int) bool {
	if s == nil {
		return true
	}
	s = c.F.Red(s)
	return s.Sign() != 0 && c.F.Exp(s, bi(int64(maxN))).Cmp(bi(1)) != 0
}

// hashElem derives a field element from a label (deterministic, seed-dependent, no PRNG state).
func (c *cx) hashElem(parts ...any) *big.Int {
	h := sha256.New()
	fmt.Fprint(h, os.Getenv("VERIF_SEED"), "|", c.P.Name(), "|")
	fmt.Fprintln(h, parts...)
	var ctr [8]byte
	out := make([]byte, 0, 128)
	for len(out) < (c.F.Q.BitLen()+7)/8+8 {
		binary.BigEndian.PutUint64(ctr[:], uint64(len(out)))
		hh := sha256.Sum256(append(h.Sum(nil), ctr[:]...))
		out = append(out, hh[:]...)
	}
	v := new(big.Int).SetBytes(out)
	return v.Mod(v, c.F.Q)
}

// ---- the model ------------------------------------------------------------------------------------

type tables struct {
	lag []*big.Int
	cos map[string][]*big.Int // by coset shift
}

// shared is the part of a model that no operation changes.
type shared struct {
	c    *cx
	p    ref.Poly // the denoted polynomial, degree < size
	size int
	s    *big.Int // coset shift of the domain the initial object refers to (nil = package default)
	// pal: the coset shifts (fft.WithShift; nil = package default) of the domains later conversions may be
	// given. Empty: every domain of the history has shift s.
	pal  []*big.Int
	mu   sync.Mutex
	tabs map[int]*tables
}

func (sh *shared) tab(n int) *tables {
	t := sh.tabs[n]
	if t == nil {
		t = &tables{lag: sh.p.LagrangeValues(sh.c.dom(n, nil).ref), cos: map[string][]*big.Int{}}
		sh.tabs[n] = t
	}
	return t
}

// lagTab / cosTab: p on <w_n> and on s<w_n>, point by point.
func (sh *shared) lagTab(n int) []*big.Int {
	sh.mu.Lock()
	defer sh.mu.Unlock()
	return sh.tab(n).lag
}

func (sh *shared) cosTab(n int, s *big.Int) []*big.Int {
	sh.mu.Lock()
	defer sh.mu.Unlock()
	t := sh.tab(n)
	key := fmt.Sprint(s)
	v := t.cos[key]
	if v == nil {
		v = sh.p.CosetValues(sh.c.dom(n, s).ref)
		t.cos[key] = v
	}
	return v
}

// model = library object + what it must denote.
type model struct {
	*shared
	lib     inst.IopPoly
	form    inst.IopForm
	n       int  // length of the coefficient vector
	shift   int  // the Shift() currently set on lib
	cosetOK bool // the coset needed by Evaluate in LagrangeCoset basis has been stored by ToLagrangeCoset
	hist    []string
	// spare: the coefficient slice still is the caller's buf[:n] with non-zero data in its spare capacity
	spare     bool
	initSpare int // spare capacity the initial object was built with (0: plain)
	initForm  inst.IopForm
	initLen   int
	ops       []opRec  // operations applied so far (to rebuild an object with spare capacity, which Clone would lose)
	tags      []string // class labels of the last operation
	// cs: coset shift of the domain the object currently refers to (meaningful in LagrangeCoset basis: the values
	// are p on cs<w>); lastDom: shift of the domain passed to the last conversion. Unset: the initial shift s.
	cs, lastDom       *big.Int
	csSet, lastDomSet bool
	autoShift         bool // WriteRead first sets a shift from rtShiftList (the exhaustive walk, which has no shift state)
}

func (m *model) curShift() *big.Int {
	if m.csSet {
		return m.cs
	}
	return m.s
}

func (m *model) lastDomShift() *big.Int {
	if m.lastDomSet {
		return m.lastDom
	}
	return m.s
}

type opRec struct{ op, variant, maxLen int }

func (m *model) desc() string {
	return fmt.Sprintf("%s size=%d len=%d form=%s shift=%d cosetshift(initial)=%v cosetshift(current)=%v history=%v p=%s",
		m.c.I.Name(), m.size, m.n, m.form, m.shift, m.s, m.curShift(), m.hist, hxs(m.p.C))
}

// entryS returns the k-th entry (natural order, shift 0) the form denotes on a vector of length n; for the
// LagrangeCoset basis relative to the coset s<w_n>.
func (sh *shared) entryS(basis, n, k int, s *big.Int) *big.Int {
	switch basis {
	case inst.Canonical:
		return sh.p.Coeff(k)
	case inst.Lagrange:
		return sh.lagTab(n)[k]
	default:
		return sh.cosTab(n, s)[k]
	}
}

// entriesS returns the storage-order vector of the given form on length n (coset basis: on s<w_n>).
func (sh *shared) entriesS(f inst.IopForm, n int, s *big.Int) []*big.Int {
	out := make([]*big.Int, n)
	for k := 0; k < n; k++ {
		i := k
		if f.Layout == inst.BitReverse {
			i = ref.PolyBitRev(k, n)
		}
		out[i] = sh.entryS(f.Basis, n, k, s)
	}
	return out
}

// entries: the same relative to the initial coset shift (how initial objects are built).
func (sh *shared) entries(f inst.IopForm, n int) []*big.Int { return sh.entriesS(f, n, sh.s) }

// newModel builds the library polynomial directly in the given form on a vector of length n
// (n = rho·size; for rho > 1 the object is declared "extended" with SetSize(size)).
func newModel(sh *shared, f inst.IopForm, n int) *model {
	lib := sh.c.I.NewPoly(sh.entries(f, n), f)
	if n != sh.size {
		lib.SetSize(sh.size)
	}
	return &model{shared: sh, lib: lib, form: f, n: n, initForm: f, initLen: n, hist: []string{"new:" + f.String() + fmt.Sprintf("/len%d", n)}}
}

// newModelSpare is newModel over buf[:n] of a buffer with `spare` further non-zero entries.
func newModelSpare(sh *shared, f inst.IopForm, n, spare int) *model {
	lib := sh.c.I.NewPolySpare(sh.entries(f, n), f, spare)
	if n != sh.size {
		lib.SetSize(sh.size)
	}
	return &model{shared: sh, lib: lib, form: f, n: n, initForm: f, initLen: n, initSpare: spare, spare: true,
		hist: []string{"new:" + f.String() + fmt.Sprintf("/len%d+spare%d", n, spare)}}
}

// np2 is the smallest power of two >= n: the order of fft.Generator(n), the root of unity a Shift refers to.
func np2(n int) int {
	p := 1
	for p < n {
		p <<= 1
	}
	return p
}

func isPow2(n int) bool { return n > 0 && n&(n-1) == 0 }

// keyF12i: GetCoeff derives the index offset of a shift as len/size (integer division) while the root of unity
// of the shift (fft.Generator(size), used by Evaluate) has order NextPowerOfTwo(size): for a size that is not a
// power of two and a vector extended far enough (len/size != len/NextPowerOfTwo(size)) the two disagree.
const keyF12i = "F12i-iop-getcoeff-rho-size-not-power-of-two"

// rhoMismatch reports whether GetCoeff under Shift(k) falls in the F12i class for this object.
func (m *model) rhoMismatch(k int) bool {
	if m.form.Basis == inst.Canonical {
		return false
	}
	d := m.n/m.size - m.n/np2(m.size)
	return d != 0 && mod(d*mod(k, m.n), m.n) != 0
}

func mod(a, n int) int {
	a %= n
	if a < 0 {
		a += n
	}
	return a
}

// guard runs a library call and turns a panic into a readable failure.
func (m *model) guard(t TB, what string, f func()) {
	defer func() {
		if r := recover(); r != nil {
			if !libraryPanic(r) {
				panic(r)
			}
			t.Fatalf("C20: %s panicked: %v\n  state: %s", what, r, m.desc())
		}
	}()
	f()
}

// checkShape: form flags, size, length, and every stored entry.
func (m *model) checkShape(t TB) {
	var f inst.IopForm
	m.guard(t, "Form()", func() { f = m.lib.Form() })
	if f != m.form {
		t.Fatalf("C20: form is %s, want %s\n  state: %s", f, m.form, m.desc())
	}
	if m.lib.Size() != m.size || m.lib.Len() != m.n {
		t.Fatalf("C20: Size()=%d len=%d, want %d, %d\n  state: %s", m.lib.Size(), m.lib.Len(), m.size, m.n, m.desc())
	}
	got := m.lib.Coefficients()
	want := m.entriesS(m.form, m.n, m.curShift())
	for i := range want {
		if got[i].Cmp(want[i]) != 0 {
			t.Fatalf("C20: stored entry %d is %s, the form %s denotes %s\n  state: %s", i, hx(got[i]), m.form, hx(want[i]), m.desc())
		}
	}
}

// wantCoeff is the value GetCoeff(i) must return under Shift(k): the i-th entry of p(ω_size^k·X)
// in the current basis. Defined for the two evaluation bases for every k; for the canonical basis
// only k = 0 (the doc comment of GetCoeff does not say what a shifted coefficient would be).
func (m *model) wantCoeff(i, k int) (*big.Int, bool) {
	if m.form.Basis == inst.Canonical {
		if k != 0 {
			return nil, false
		}
		return m.entryS(inst.Canonical, m.n, i, nil), true
	}
	// Shift(k) means p(w^k X) with w = fft.Generator(size) of order N0 = NextPowerOfTwo(size) (that is what Evaluate
	// uses); on the len-sized domain w = w_len^(len/N0), so the entry moves by (len/N0)*k positions
	N0 := np2(m.size)
	return m.entryS(m.form.Basis, m.n, mod(i+(m.n/N0)*mod(k, N0), m.n), m.curShift()), true
}

// checkCoeffs compares GetCoeff(i) under Shift(k) for the given indices; restores m.shift afterwards.
func (m *model) checkCoeffs(t TB, k int, idx []int) int {
	done := 0
	m.lib.Shift(k)
	for _, i := range idx {
		want, ok := m.wantCoeff(i, k)
		if !ok {
			break
		}
		if m.rhoMismatch(k) && rep.Known("C20", keyF12i) {
			rep.Excluded("C20_known", "C20", keyF12i)
			break
		}
		var got *big.Int
		m.guard(t, fmt.Sprintf("GetCoeff(%d) with Shift(%d)", i, k), func() { got = m.lib.GetCoeff(i) })
		if got.Cmp(want) != 0 {
			t.Fatalf("C20: GetCoeff(%d) with Shift(%d) = %s, want %s\n  state: %s", i, k, hx(got), hx(want), m.desc())
		}
		done++
	}
	m.lib.Shift(m.shift)
	return done
}

// canEvaluate: Evaluate in LagrangeCoset basis needs the coset stored by ToLagrangeCoset (DESIGN §11).
func (m *model) canEvaluate() bool { return m.form.Basis != inst.LagrangeCoset || m.cosetOK }

// wantEval is p(ω_size^k · x) by Horner.
func (m *model) wantEval(x *big.Int, k int) *big.Int {
	w := m.c.dom(np2(m.size), nil).ref.W
	g := m.c.F.Exp(w, bi(int64(k)))
	return m.p.Eval(m.c.F.Mul(g, x))
}

// checkEval compares Evaluate(x) under Shift(k); restores m.shift afterwards.
func (m *model) checkEval(t TB, x *big.Int, k int, xclass string) {
	m.lib.Shift(k)
	var got *big.Int
	m.guard(t, fmt.Sprintf("Evaluate(%s) with Shift(%d)", hx(x), k), func() { got = m.lib.Evaluate(x) })
	want := m.wantEval(x, k)
	if got.Cmp(want) != 0 {
		t.Fatalf("C20: Evaluate(x=%s [%s]) with Shift(%d) = %s, want p(w^%d·x) = %s\n  state: %s",
			hx(x), xclass, k, hx(got), k, hx(want), m.desc())
	}
	m.lib.Shift(m.shift)
}

// checkEvalCurrent compares Evaluate(x) under the shift the object currently carries (m.shift in the
// model), without touching Shift() — used after deserialisation and in the state machine.
func (m *model) checkEvalCurrent(t TB, x *big.Int, xclass string) {
	var got *big.Int
	m.guard(t, fmt.Sprintf("Evaluate(%s)", hx(x)), func() { got = m.lib.Evaluate(x) })
	want := m.wantEval(x, m.shift)
	if got.Cmp(want) != 0 {
		t.Fatalf("C20: Evaluate(x=%s [%s]) = %s, want p(w^%d·x) = %s\n  state: %s",
			hx(x), xclass, hx(got), m.shift, hx(want), m.desc())
	}
}

// checkCoeffCurrent compares GetCoeff(i) under the shift the object currently carries.
func (m *model) checkCoeffCurrent(t TB, i int) bool {
	want, ok := m.wantCoeff(i, m.shift)
	if !ok {
		return false
	}
	if m.rhoMismatch(m.shift) && rep.Known("C20", keyF12i) {
		rep.Excluded("C20_known", "C20", keyF12i)
		return false
	}
	var got *big.Int
	m.guard(t, fmt.Sprintf("GetCoeff(%d)", i), func() { got = m.lib.GetCoeff(i) })
	if got.Cmp(want) != 0 {
		t.Fatalf("C20: GetCoeff(%d) = %s, want %s\n  state: %s", i, hx(got), hx(want), m.desc())
	}
	return true
}

// shiftList is the DESIGN list for a polynomial of the given size.
func shiftList(size int) []int {
	return []int{0, 1, 2, 3, 4, 5, 6, 7, size - 1, size, size + 1, -1, -size,
		-(np2(size) + 1), math.MaxInt32, math.MinInt32, 1<<32 + 1, -(1<<32 + 1), math.MaxInt64}
}

// rtShiftList: the shifts a serialised object is given (the encoding has a uint32 field for an int).
func rtShiftList(size int) []int {
	N0 := np2(size)
	return []int{0, 1, -1, size - 1, size, size + 1, -size, N0 - 1, N0, N0 + 1, -(N0 + 1), 2*size + 3, math.MaxInt32, math.MinInt32,
		1 << 32, 1<<32 + 1, -(1<<32 + 1), 1<<40 + 3, math.MaxInt64, math.MinInt64}
}

// rtClasses labels a WriteTo->ReadFrom round trip of an object of the given size carrying Shift(k).
func rtClasses(size, k int) []string {
	var out []string
	if k < 0 {
		out = append(out, "roundtrip:negative_shift")
	}
	if !isPow2(size) {
		out = append(out, "roundtrip:size_not_pow2")
		if k < 0 || k >= size {
			out = append(out, "roundtrip:size_not_pow2+shift_outside_[0,size)")
		}
	}
	if k >= np2(size) {
		out = append(out, "roundtrip:shift_ge_nextpow2")
	}
	if k > math.MaxUint32 || k < -math.MaxUint32 {
		out = append(out, "roundtrip:shift_beyond_uint32")
	}
	return out
}

func shiftClass(k, size int) string {
	switch {
	case k == 0:
		return "shift:0"
	case k > math.MaxUint32 || k < -math.MaxUint32:
		return "shift:beyond_uint32"
	case k == math.MaxInt32 || k == math.MinInt32:
		return "shift:int32_edge"
	case k < 0:
		return "shift:neg"
	case k >= size:
		return "shift:ge_size"
	case k > 5:
		return "shift:gt5"
	default:
		return "shift:1..5"
	}
}

var pointClasses = []string{"random", "zero", "one", "domain", "coset", "minus_one_or_sub"}

// point returns an evaluation point of the named class; j varies the member.
func (m *model) point(class string, j int) *big.Int {
	d := m.c.dom(np2(m.n), m.curShift()).ref // coset points: of the coset the object currently refers to
	switch class {
	case "zero":
		return bi(0)
	case "one":
		return bi(1)
	case "domain":
		return d.Point(j)
	case "coset":
		return d.CosetPoint(j)
	case "minus_one_or_sub": // an element of the size-sized subgroup (−1 when size = 2); the coset shift itself for size 1
		N0 := np2(m.size)
		if N0 == 1 {
			return new(big.Int).Set(d.S)
		}
		return m.c.dom(N0, nil).ref.Point(1 + j%(N0-1))
	default:
		return m.c.hashElem("x", m.size, j)
	}
}

// ---- operations -----------------------------------------------------------------------------------

const (
	opToCanonical = iota
	opToLagrange
	opToLagrangeCoset
	opToRegular
	opToBitReverse
	opClone
	opShallowClone
	opWriteRead
	opGrowCanonical
	opGrowLagrange
	opGrowCoset
	nOps
)

var opNames = [nOps]string{"ToCanonical", "ToLagrange", "ToLagrangeCoset", "ToRegular", "ToBitReverse", "Clone",
	"ShallowClone", "WriteRead", "GrowCanonical", "GrowLagrange", "GrowCoset"}

var taskVariants = [][]int{nil, {1}, {2}, {3}, {16}}

// adoptLayout: the layout a basis conversion leaves behind is not documented (each FFT pass flips it
// in the current implementation), so the model takes it from the object; what is asserted is that
// flag and stored entries agree (checkShape).
func (m *model) adoptLayout(t TB, basis int) {
	var f inst.IopForm
	m.guard(t, "Form()", func() { f = m.lib.Form() })
	if f.Basis != basis {
		t.Fatalf("C20: basis after the conversion is %s\n  state: %s", f, m.desc())
	}
	m.form = f
}

// apply performs op on the model (variant selects task counts / capacities). It returns false when
// the operation's precondition does not hold in this state (nothing is done then).
func (m *model) apply(t TB, op, variant, maxLen int) bool {
	name := opNames[op]
	tv := taskVariants[mod(variant, len(taskVariants))]
	if len(tv) > 0 && (op == opToCanonical || op == opToLagrange || op == opGrowCanonical || op == opGrowLagrange) {
		name += fmt.Sprintf("(nbTasks=%d)", tv[0])
	}
	n := m.n
	switch op {
	case opGrowCanonical, opGrowLagrange, opGrowCoset:
		// A coefficient vector (either layout) does not refer to a domain, so it can be converted on any
		// larger one. Lagrange / LagrangeCoset values are values ON a domain: converting them with a domain
		// of another cardinality is passing the wrong domain (not generated; see the Note of the exhaustive test).
		n = 2 * m.n
		if !isPow2(m.n) { // a coefficient vector of any length: the next domain is the next power of two
			n = np2(m.n)
		}
		if m.form.Basis != inst.Canonical || n > maxLen {
			return false
		}
	case opToCanonical, opToLagrange, opToLagrangeCoset, opToBitReverse:
		// a domain (and the bit reversal permutation) has a power of two cardinality: a vector of another length can
		// only be converted on a larger domain (the grow operations); BitReverse panics on it (documented)
		if !isPow2(m.n) {
			return false
		}
	}
	// the domain handed to a conversion: an object in LagrangeCoset basis refers to one coset, so its domain is
	// given; otherwise any domain of the right cardinality serves, whatever its coset shift (fft.WithShift)
	ds := m.curShift()
	conv := op == opToCanonical || op == opToLagrange || op == opToLagrangeCoset || n != m.n
	if conv && m.form.Basis != inst.LagrangeCoset && len(m.pal) > 0 {
		ds = m.pal[mod(variant/3, len(m.pal))]
	}
	var d *dom
	if conv {
		d = m.c.dom(n, ds)
	}
	m.tags = nil
	if conv {
		name += "{s=" + fmt.Sprint(ds) + "}"
		m.tags = append(m.tags, "domshift:"+shiftKind(ds))
		if fmt.Sprint(ds) != fmt.Sprint(m.lastDomShift()) {
			m.tags = append(m.tags, "domshift_changes")
		}
	}
	if n != m.n {
		m.tags = append(m.tags, shiftPairClass(m.lastDomShift(), ds))
		m.tags = append(m.tags, "grow_from:"+m.form.String())
		if m.spare && m.lib.Cap() >= n {
			m.tags = append(m.tags, "grow_into_spare")
		}
	}
	m.ops = append(m.ops, opRec{op, variant, maxLen})
	m.hist = append(m.hist, name)
	switch op {
	case opToCanonical, opGrowCanonical:
		m.guard(t, name, func() { m.lib.ToCanonical(d.lib, tv...) })
		m.adoptLayout(t, inst.Canonical)
	case opToLagrange, opGrowLagrange:
		m.guard(t, name, func() { m.lib.ToLagrange(d.lib, tv...) })
		m.adoptLayout(t, inst.Lagrange)
	case opToLagrangeCoset, opGrowCoset:
		m.guard(t, name, func() { m.lib.ToLagrangeCoset(d.lib) })
		m.cs, m.csSet = ds, true
		m.adoptLayout(t, inst.LagrangeCoset)
		m.cosetOK = true
	case opToRegular:
		m.guard(t, name, func() { m.lib.ToRegular() })
		m.form.Layout = inst.Regular
	case opToBitReverse:
		m.guard(t, name, func() { m.lib.ToBitReverse() })
		m.form.Layout = inst.BitReverse
	case opClone:
		var caps []int
		switch mod(variant, 3) {
		case 1:
			caps = []int{m.n}
		case 2:
			caps = []int{2*m.n + 1}
		}
		old := m.lib
		m.guard(t, name, func() { m.lib = old.Clone(caps...) })
		if len(caps) > 0 && m.lib.Cap() < caps[0] {
			t.Fatalf("C20: Clone(%d) has capacity %d\n  state: %s", caps[0], m.lib.Cap(), m.desc())
		}
		// a deep copy is independent of its origin
		old.Poison()
		old.Shift(m.shift + 3)
		m.spare = false
	case opShallowClone:
		old := m.lib
		m.guard(t, name, func() { m.lib = old.ShallowClone() })
		// shift and size belong to the wrapper, not to the shared coefficient vector
		old.Shift(m.shift + 3)
		old.SetSize(1)
	case opWriteRead:
		if m.autoShift { // the walker gives the object a shift to carry through the encoding
			l := rtShiftList(m.size)
			m.shift = l[mod(variant, len(l))]
			m.lib.Shift(m.shift)
			m.hist[len(m.hist)-1] += fmt.Sprintf("[shift=%d]", m.shift)
		}
		m.tags = append(m.tags, rtClasses(m.size, m.shift)...)
		var buf bytes.Buffer
		var w int64
		var err error
		m.guard(t, name, func() { w, err = m.lib.WriteTo(&buf) })
		if err != nil || w != int64(buf.Len()) {
			t.Fatalf("C20: WriteTo returned (%d, %v) after writing %d bytes\n  state: %s", w, err, buf.Len(), m.desc())
		}
		total := buf.Len()
		var back inst.IopPoly
		var r int64
		m.guard(t, name, func() { back, r, err = m.c.I.ReadPoly(&buf) })
		if err != nil || r != int64(total) || buf.Len() != 0 {
			t.Fatalf("C20: ReadFrom returned (%d, %v) on a %d-byte encoding, %d bytes left\n  state: %s", r, err, total, buf.Len(), m.desc())
		}
		m.lib.Poison()
		m.lib = back
		m.spare = false
		m.checkDecoded(t)
	}
	m.n = n
	if conv {
		m.lastDom, m.lastDomSet = ds, true
	}
	if op == opGrowCanonical {
		// ToCanonical on an object that already is canonical converts nothing; that it still zero-pads to the
		// domain size is an implementation detail, so both lengths are accepted (the denoted polynomial is the same)
		if l := m.lib.Len(); l == n/2 || l == n {
			m.n = l
		}
	}
	return true
}

// checkDecoded compares a freshly decoded object with the model BEFORE anything touches its Shift(): entries, size,
// Evaluate at a free, a domain, a coset and a subgroup point and GetCoeff everywhere, all under the decoded shift
// (the encoding stores the int shift in a uint32 field: what comes back must still denote p(w^shift X)).
func (m *model) checkDecoded(t TB) {
	m.checkShape(t)
	if m.canEvaluate() {
		for j, pc := range []string{"random", "domain", "coset", "minus_one_or_sub", "one"} {
			m.checkEvalCurrent(t, m.point(pc, 3*j+1), pc)
		}
	}
	for _, i := range indices(m.n, 1) {
		if !m.checkCoeffCurrent(t, i) {
			break
		}
	}
}

// fork deep-copies the library object (through the library's Clone) and the mutable model part.
func (m *model) fork(t TB) *model {
	if m.initSpare > 0 {
		// Clone would drop the spare capacity: rebuild the object and replay the operations
		c := newModelSpare(m.shared, m.initForm, m.initLen, m.initSpare)
		c.autoShift = m.autoShift
		for _, o := range m.ops {
			c.apply(t, o.op, o.variant, o.maxLen)
		}
		return c
	}
	c := *m
	c.lib = m.lib.Clone()
	c.hist = append([]string(nil), m.hist...)
	c.ops = append([]opRec(nil), m.ops...)
	return &c
}

// iopsSelected lists the instantiations selected by VERIF_INST.
func iopsSelected() []inst.Iop {
	var out []inst.Iop
	for _, i := range inst.Iops() {
		if selected(i.Name()) {
			out = append(out, i)
		}
	}
	return out
}

func shiftKind(s *big.Int) string {
	if s == nil {
		return "default"
	}
	return "custom"
}

// shiftPairClass classifies the coset shifts of a (small, big) pair of domains.
func shiftPairClass(small, big *big.Int) string {
	switch {
	case small == nil && big == nil:
		return "shift:none"
	case small != nil && big == nil:
		return "shift:small"
	case small == nil:
		return "shift:big"
	case small.Cmp(big) == 0:
		return "shift:both_same"
	default:
		return "shift:both_diff"
	}
}

// shiftPalette returns the domain shifts a history may use: the package default and two constants the
// reference accepts for every cardinality up to maxN (s^maxN != 1).
func shiftPalette(c *cx, maxN int) []*big.Int {
	pal := []*big.Int{nil}
	def := c.dom(1, nil).ref.S // constants equal to the package default would duplicate the nil entry
	for _, v := range []int64{7, 11, 13, 17, 19} {
		if s := bi(v); c.validShift(s, maxN) && len(pal) < 3 && c.F.Red(s).Cmp(def) != 0 {
			pal = append(pal, s)
		}
	}
	return pal
}
