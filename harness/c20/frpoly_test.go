package c20

import (
	"fmt"
	"math/big"
	"sort"
	"strings"
	"testing"

	"pgregory.net/rapid"

	"verif/harness/internal/ref"
	"verif/harness/internal/rep"
)

// fr/polynomial: Polynomial (Eval, Add, Sub, Scale, Clone, Equal, Text, …), InterpolateOnRange with
// its process-wide basis cache, MultiLin (Evaluate, Fold, Eq, EvalEq, …) against the sum formula.

func wantVec(t *rapid.T, what string, got, want []*big.Int) {
	if !sameVec(got, want) {
		t.Fatalf("C20: %s = %s (len %d), want %s (len %d)", what, hxs(got), len(got), hxs(want), len(want))
	}
}

// parsePolyText parses the output of Polynomial.Text(base) back into coefficients (index = degree).
func parsePolyText(s string, base int, q *big.Int) (map[int]*big.Int, error) {
	out := map[int]*big.Int{}
	if s == "0" {
		return out, nil
	}
	s = strings.ReplaceAll(s, " - ", " + -")
	sup := map[rune]int{'⁰': 0, '¹': 1, '²': 2, '³': 3, '⁴': 4, '⁵': 5, '⁶': 6, '⁷': 7, '⁸': 8, '⁹': 9}
	last := -1
	for ti, term := range strings.Split(s, " + ") {
		r := []rune(term)
		i := 0
		neg := false
		if i < len(r) && r[i] == '-' {
			neg = true
			i++
		}
		j := i
		for j < len(r) && (r[j] >= '0' && r[j] <= '9' || r[j] >= 'a' && r[j] <= 'z') {
			j++
		}
		coef := bi(1)
		if j > i {
			v, ok := new(big.Int).SetString(string(r[i:j]), base)
			if !ok {
				return nil, fmt.Errorf("term %d %q: bad coefficient", ti, term)
			}
			coef = v
		}
		i = j
		if i < len(r) && r[i] == '×' {
			i++
		}
		deg := 0
		if i < len(r) && r[i] == 'X' {
			deg = 1
			i++
			if i < len(r) {
				deg = 0
				for ; i < len(r); i++ {
					d, ok := sup[r[i]]
					if !ok {
						return nil, fmt.Errorf("term %d %q: bad exponent", ti, term)
					}
					deg = deg*10 + d
				}
			}
		} else if j == 0 || (neg && j == 1) {
			return nil, fmt.Errorf("term %d %q: empty", ti, term)
		}
		if i != len(r) {
			return nil, fmt.Errorf("term %d %q: trailing text", ti, term)
		}
		if last >= 0 && deg >= last {
			return nil, fmt.Errorf("term %d %q: degrees not strictly decreasing", ti, term)
		}
		last = deg
		if neg {
			coef.Neg(coef)
		}
		out[deg] = coef.Mod(coef, q)
	}
	return out, nil
}

var polyOps = []string{"Eval", "Degree", "Clone", "Set", "AddConstantInPlace", "SubConstantInPlace", "ScaleInPlace", "Scale",
	"Add", "Add", "Sub", "Equal", "SetZero", "Text"}

func propPoly(t *rapid.T, c *cx) {
	test := "C20_Poly/" + c.P.Name()
	F, I := c.F, c.P
	op := rapid.SampledFrom(polyOps).Draw(t, "op")
	maxLen := rep.Scale(40, 200)
	n := rapid.IntRange(1, maxLen).Draw(t, "n")
	a, acl := drawElems(t, c, n, "a")
	pa := ref.NewPoly(F, a)
	classes := []string{"op:" + op, "coeffs:" + acl}
	key := fmt.Sprintf("%s %s n=%d a=%s", I.Name(), op, n, hxs(a))
	guardT(t, "polynomial."+op, func() {
		switch op {
		case "Eval":
			x := drawElem(t, c, "x")
			if g, w := I.PolEval(a, x), pa.Eval(x); g.Cmp(w) != 0 {
				t.Fatalf("C20: Eval(%s) = %s want %s (p=%s)", hx(x), hx(g), hx(w), hxs(a))
			}
		case "Degree":
			if g := I.PolDegree(a); g != uint64(n-1) {
				t.Fatalf("C20: Degree() = %d on %d coefficients", g, n)
			}
		case "Clone":
			wantVec(t, "Clone (after overwriting the original)", I.PolClone(a), a)
		case "Set":
			dl := rapid.SampledFrom([]int{n, 0, 1, n + 3}).Draw(t, "dstlen")
			dst, src := I.PolSet(dl, a)
			wantVec(t, "Set: destination", dst, a)
			wantVec(t, "Set: source after overwriting the destination", src, a)
			classes = append(classes, fmt.Sprintf("dst_same_len:%v", dl == n))
		case "AddConstantInPlace", "SubConstantInPlace", "ScaleInPlace":
			k := drawElem(t, c, "k")
			want := make([]*big.Int, n)
			var got []*big.Int
			for i := range want {
				switch op {
				case "AddConstantInPlace":
					want[i] = F.Add(a[i], k)
				case "SubConstantInPlace":
					want[i] = F.Sub(a[i], k)
				default:
					want[i] = F.Mul(a[i], k)
				}
			}
			switch op {
			case "AddConstantInPlace":
				got = I.PolAddConstantInPlace(a, k)
			case "SubConstantInPlace":
				got = I.PolSubConstantInPlace(a, k)
			default:
				got = I.PolScaleInPlace(a, k)
			}
			wantVec(t, op, got, want)
		case "Scale":
			k := drawElem(t, c, "k")
			dl := rapid.SampledFrom([]int{n, 0, 1, n + 3}).Draw(t, "dstlen")
			dst, src := I.PolScale(dl, k, a)
			wantVec(t, "Scale", dst, pa.Scale(k).C)
			wantVec(t, "Scale: operand", src, a)
		case "Add":
			nb := rapid.SampledFrom([]int{n, 1, n + 1, 2 * n, maxLen}).Draw(t, "nb")
			b, _ := drawElems(t, c, nb, "b")
			alias := rapid.IntRange(0, 2).Draw(t, "alias")
			dl := rapid.SampledFrom([]int{0, n, nb, 5}).Draw(t, "dstlen")
			res, a1, b1, isRecv := I.PolAdd(alias, dl, a, b)
			wantVec(t, fmt.Sprintf("Add (alias=%d)", alias), res, pa.Add(ref.NewPoly(F, b)).C)
			if a1 != nil {
				wantVec(t, "Add: p1 afterwards", a1, a)
			}
			if b1 != nil {
				wantVec(t, "Add: p2 afterwards", b1, b)
			}
			if !isRecv {
				t.Fatalf("C20: Add did not return its receiver")
			}
			classes = append(classes, fmt.Sprintf("alias:%d", alias), lenRel(n, nb))
			key += " b=" + hxs(b)
		case "Sub":
			same := rapid.IntRange(0, 3).Draw(t, "samelen") != 0
			nb, dl := n, n
			if !same {
				nb = rapid.SampledFrom([]int{n, n + 1, 1}).Draw(t, "nb")
				dl = rapid.SampledFrom([]int{n, nb, n + 2}).Draw(t, "dstlen")
			}
			b, _ := drawElems(t, c, nb, "b")
			res, isNil := I.PolSub(dl, a, b)
			if nb == n && dl == n {
				if isNil {
					t.Fatalf("C20: Sub returned nil on equal lengths")
				}
				wantVec(t, "Sub", res, pa.Sub(ref.NewPoly(F, b)).C)
				classes = append(classes, "sub:equal_len")
			} else {
				// mismatching lengths: undocumented (the code returns nil); only "a returned result is the difference"
				if !isNil && !sameVec(res, pa.Sub(ref.NewPoly(F, b)).C) {
					t.Fatalf("C20: Sub on lengths (%d,%d,%d) returned a non-nil wrong result", dl, n, nb)
				}
				classes = append(classes, "sub:len_mismatch_unasserted")
			}
		case "Equal":
			kind := rapid.SampledFrom([]string{"same", "one_differs", "longer_nonzero_tail", "nil_nil"}).Draw(t, "kind")
			b := append([]*big.Int(nil), a...)
			want := true
			aNil, bNil := false, false
			switch kind {
			case "one_differs":
				i := rapid.IntRange(0, n-1).Draw(t, "pos")
				b[i] = F.Add(b[i], bi(1))
				want = false
			case "longer_nonzero_tail":
				b = append(b, bi(1))
				want = false
			case "nil_nil":
				aNil, bNil = true, true
			}
			if g := I.PolEqual(a, b, aNil, bNil); g != want {
				t.Fatalf("C20: Equal (%s) = %v", kind, g)
			}
			if kind == "longer_nonzero_tail" {
				if I.PolEqual(b, a, false, false) {
					t.Fatalf("C20: Equal (shorter argument) = true")
				}
			}
			classes = append(classes, "equal:"+kind)
		case "SetZero":
			z := make([]*big.Int, n)
			for i := range z {
				z[i] = new(big.Int)
			}
			wantVec(t, "SetZero", I.PolSetZero(a), z)
		case "Text":
			base := rapid.SampledFrom([]int{10, 10, 16, 2, 36}).Draw(t, "base")
			if rapid.Bool().Draw(t, "small") { // small and small-negative coefficients take the "-k" path of Element.Text
				for i := range a {
					if i%2 == 0 {
						a[i] = F.Red(bi(int64(rapid.IntRange(-3, 3).Draw(t, fmt.Sprintf("sm%d", i)))))
					}
				}
				classes = append(classes, "text:small_coeffs")
			}
			s := I.PolText(a, base)
			got, err := parsePolyText(s, base, F.Q)
			if err != nil {
				t.Fatalf("C20: Text(%d) = %q does not parse: %v", base, s, err)
			}
			for i := range a {
				g := got[i]
				if g == nil {
					g = new(big.Int)
				}
				if g.Cmp(a[i]) != 0 {
					t.Fatalf("C20: Text(%d) = %q: coefficient of X^%d reads %s, polynomial has %s", base, s, i, hx(g), hx(a[i]))
				}
				delete(got, i)
			}
			if len(got) != 0 {
				t.Fatalf("C20: Text(%d) = %q has terms beyond the degree", base, s)
			}
			classes = append(classes, fmt.Sprintf("base:%d", base))
			key += " " + s
		}
	})
	rep.Case(test, key, true, classes...)
}

func lenRel(n, nb int) string {
	switch {
	case n == nb:
		return "len:equal"
	case n < nb:
		return "len:p1_shorter"
	default:
		return "len:p1_longer"
	}
}

func TestC20_Poly(t *testing.T) { forFrPolysRapid(t, propPoly) }

// ---- InterpolateOnRange ---------------------------------------------------------------------------

func propInterpolate(t *rapid.T, c *cx) {
	test := "C20_Interpolate/" + c.P.Name()
	F := c.F
	calls := rapid.IntRange(1, 5).Draw(t, "calls")
	maxN := rep.Scale(64, 128)
	prev := 0
	for k := 0; k < calls; k++ {
		lbl := fmt.Sprintf("c%d", k)
		n := rapid.IntRange(1, maxN).Draw(t, lbl+"n")
		switch rapid.IntRange(0, 5).Draw(t, lbl+"pick") {
		case 0:
			if prev > 0 {
				n = prev // immediate reuse of the cached basis
			}
		case 1:
			n = rapid.SampledFrom([]int{1, 2, 3, maxN}).Draw(t, lbl+"edge")
		case 2:
			if prev > 1 {
				n = prev - 1
			}
		}
		v, vcl := drawElems(t, c, n, lbl+"v")
		var got []*big.Int
		guardT(t, fmt.Sprintf("InterpolateOnRange(len %d)", n), func() { got = c.P.InterpolateOnRange(v) })
		if len(got) != n {
			t.Fatalf("C20: InterpolateOnRange on %d values returned %d coefficients", n, len(got))
		}
		gp := ref.NewPoly(F, got)
		xs := make([]*big.Int, n)
		for i := range xs {
			xs[i] = bi(int64(i))
			if e := gp.Eval(xs[i]); e.Cmp(v[i]) != 0 {
				t.Fatalf("C20: InterpolateOnRange(n=%d, previous n=%d): f(%d) = %s, want v[%d] = %s", n, prev, i, hx(e), i, hx(v[i]))
			}
		}
		want, err := ref.PolyInterpolate(F, xs, v)
		if err != nil {
			t.Fatalf("harness: %v", err)
		}
		wantVec(t, fmt.Sprintf("InterpolateOnRange(n=%d) coefficients", n), got, want.C)
		cls := []string{"values:" + vcl, nClass(n)}
		if n == prev {
			cls = append(cls, "reuse_same_n")
		} else if prev != 0 {
			cls = append(cls, "other_n_after_cached")
		}
		rep.Case(test, fmt.Sprintf("%s n=%d prev=%d v=%s", c.P.Name(), n, prev, hxs(v)), true, cls...)
		prev = n
	}
}

func nClass(n int) string {
	switch {
	case n <= 2:
		return fmt.Sprintf("n:%d", n)
	case n <= 8:
		return "n:3..8"
	case n <= 32:
		return "n:9..32"
	case n <= 64:
		return "n:33..64"
	default:
		return "n:>64"
	}
}

func TestC20_Interpolate(t *testing.T) { forFrPolysRapid(t, propInterpolate) }

// ---- MultiLin -------------------------------------------------------------------------------------

var mlOps = []string{"Evaluate", "Evaluate", "Fold", "FoldParallel", "FoldParallel", "FoldParallelPool", "Eq", "EvalEq", "Clone", "Add", "Sum", "NumVars", "PoolClone"}

// drawChunks partitions [0,n) into consecutive chunks the way a scheduler might: k near-equal blocks (what
// parallel.Execute does for k workers), blocks of a fixed size (WorkerPool.Submit), arbitrary cut points
// (duplicates give empty chunks), or one chunk per index; then a drawn execution order.
func drawChunks(t *rapid.T, n int) ([][2]int, []string) {
	var ch [][2]int
	kind := rapid.SampledFrom([]string{"equal_blocks", "equal_blocks", "fixed_size", "cuts", "cuts", "singletons"}).Draw(t, "chunking")
	switch kind {
	case "equal_blocks":
		k := rapid.IntRange(1, 9).Draw(t, "workers")
		if k > n {
			k = n
		}
		per, extra, start := n/k, n%k, 0
		for i := 0; i < k; i++ {
			end := start + per
			if i < extra {
				end++
			}
			ch = append(ch, [2]int{start, end})
			start = end
		}
	case "fixed_size":
		b := rapid.SampledFrom([]int{1, 2, 3, 5, 7, n, n + 1}).Draw(t, "block")
		for start := 0; start < n; start += b {
			ch = append(ch, [2]int{start, min(start+b, n)})
		}
	case "cuts":
		k := rapid.IntRange(0, 6).Draw(t, "ncuts")
		cuts := []int{0, n}
		for i := 0; i < k; i++ {
			cuts = append(cuts, rapid.IntRange(0, n).Draw(t, fmt.Sprintf("cut%d", i)))
		}
		sort.Ints(cuts)
		for i := 0; i+1 < len(cuts); i++ {
			ch = append(ch, [2]int{cuts[i], cuts[i+1]})
		}
	default:
		for i := 0; i < n; i++ {
			ch = append(ch, [2]int{i, i + 1})
		}
	}
	cls := []string{"chunking:" + kind, fmt.Sprintf("chunks:%d", min(len(ch), 8))}
	for _, c := range ch {
		l := c[1] - c[0]
		switch {
		case l == 0:
			cls = append(cls, "chunk:empty")
		case c[0]%2 == 1 && l%2 == 1:
			cls = append(cls, "chunk:odd_start_odd_len")
		case c[0]%2 == 1:
			cls = append(cls, "chunk:odd_start_even_len")
		case l%2 == 1:
			cls = append(cls, "chunk:even_start_odd_len")
		}
	}
	if len(ch) > 1 && rapid.Bool().Draw(t, "permuted") {
		ch = rapid.Permutation(ch).Draw(t, "order")
		cls = append(cls, "chunks_permuted")
	}
	return ch, dedup(cls)
}

// drawCoords draws n coordinates: free field elements, hypercube vertices, or a mix.
func drawCoords(t *rapid.T, c *cx, n int, label string) ([]*big.Int, string) {
	kind := rapid.SampledFrom([]string{"free", "free", "vertex", "mixed"}).Draw(t, label+"kind")
	out := make([]*big.Int, n)
	for i := range out {
		switch {
		case kind == "vertex", kind == "mixed" && rapid.Bool().Draw(t, fmt.Sprintf("%sb%d", label, i)):
			out[i] = bi(int64(rapid.IntRange(0, 1).Draw(t, fmt.Sprintf("%sv%d", label, i))))
		default:
			out[i] = drawElem(t, c, fmt.Sprintf("%s%d", label, i))
		}
	}
	return out, kind
}

func propMultiLin(t *rapid.T, c *cx) {
	test := "C20_MultiLin/" + c.P.Name()
	F, I := c.F, c.P
	op := rapid.SampledFrom(mlOps).Draw(t, "op")
	nv := rapid.IntRange(0, rep.Scale(6, 9)).Draw(t, "nv")
	if strings.HasPrefix(op, "FoldParallel") { // enough entries for chunk boundaries of both parities
		nv = rapid.SampledFrom([]int{1, 2, 3, 3, 4, 4, 5, 5, 6, 6}).Draw(t, "nvfold")
	}
	if strings.HasPrefix(op, "Fold") && nv == 0 {
		nv = 1
	}
	table, tcl := drawElems(t, c, 1<<nv, "table")
	classes := []string{"op:" + op, fmt.Sprintf("vars:%d", nv), "table:" + tcl}
	key := fmt.Sprintf("%s %s nv=%d table=%s", I.Name(), op, nv, hxs(table))
	guardT(t, "MultiLin."+op, func() {
		switch op {
		case "Evaluate":
			x, xcl := drawCoords(t, c, nv, "x")
			usePool := rapid.Bool().Draw(t, "pool")
			got, after := I.MLEvaluate(table, x, usePool)
			want := F.MultilinEval(table, x)
			if got.Cmp(want) != 0 {
				t.Fatalf("C20: MultiLin.Evaluate(%s) = %s, sum formula gives %s (table %s)", hxs(x), hx(got), hx(want), hxs(table))
			}
			if xcl == "vertex" {
				b := make([]int, nv)
				for i := range b {
					b[i] = int(x[i].Int64())
				}
				if got.Cmp(table[ref.MultilinIndex(b)]) != 0 {
					t.Fatalf("harness: sum formula disagrees with the table at a vertex")
				}
			}
			wantVec(t, "Evaluate: receiver afterwards", after, table)
			classes = append(classes, "coords:"+xcl, fmt.Sprintf("pool:%v", usePool))
			key += " x=" + hxs(x)
		case "FoldParallel", "FoldParallelPool":
			r := drawElem(t, c, "r")
			if rapid.IntRange(0, 3).Draw(t, "bit") == 0 {
				r = bi(int64(rapid.IntRange(0, 1).Draw(t, "rb")))
			}
			mid := len(table) / 2
			want := F.MultilinFix(table, r)
			if op == "FoldParallelPool" {
				mb := rapid.SampledFrom([]int{1, 2, 3, 5, 7, mid, mid + 1, 2*mid + 1}).Draw(t, "minBlock")
				wantVec(t, fmt.Sprintf("FoldParallel through WorkerPool.Submit(minBlock=%d)", mb), I.MLFoldParallelPool(table, r, mb), want)
				classes = append(classes, fmt.Sprintf("minBlock_odd:%v", mb%2 == 1))
				key += fmt.Sprintf(" r=%s minBlock=%d", hx(r), mb)
				break
			}
			ch, ccl := drawChunks(t, mid)
			conc := rapid.Bool().Draw(t, "concurrent")
			got, l := I.MLFoldParallel(table, r, ch, conc)
			if l != mid {
				t.Fatalf("C20: FoldParallel left a table of length %d, want %d", l, mid)
			}
			wantVec(t, fmt.Sprintf("FoldParallel, task run on the chunks %v (concurrent=%v)", ch, conc), got, want)
			classes = append(append(classes, ccl...), fmt.Sprintf("concurrent:%v", conc))
			key += fmt.Sprintf(" r=%s chunks=%v", hx(r), ch)
		case "PoolClone":
			got, ml := I.PoolClone(table)
			if ml != len(table) {
				t.Fatalf("C20: Pool.Make(%d) has length %d", len(table), ml)
			}
			wantVec(t, "Pool.Clone (after overwriting the original)", got, table)
		case "Fold":
			r := drawElem(t, c, "r")
			if rapid.IntRange(0, 3).Draw(t, "bit") == 0 {
				r = bi(int64(rapid.IntRange(0, 1).Draw(t, "rb")))
				classes = append(classes, "fold_at_bit")
			}
			wantVec(t, "Fold", I.MLFold(table, r), F.MultilinFix(table, r))
			key += " r=" + hx(r)
		case "Eq":
			q, qcl := drawCoords(t, c, nv, "q")
			m0 := drawElem(t, c, "m0")
			if rapid.Bool().Draw(t, "m0one") {
				m0 = bi(1)
			}
			wantVec(t, "Eq", I.MLEq(m0, q), F.EqTable(q, m0))
			classes = append(classes, "coords:"+qcl)
			key += " q=" + hxs(q)
		case "EvalEq":
			q, qcl := drawCoords(t, c, nv, "q")
			h, hcl := drawCoords(t, c, nv, "h")
			if rapid.IntRange(0, 3).Draw(t, "same") == 0 {
				h = q
				hcl = "equal_to_q"
			}
			if g, w := I.EvalEq(q, h), F.EvalEq(q, h); g.Cmp(w) != 0 {
				t.Fatalf("C20: EvalEq(%s, %s) = %s want %s", hxs(q), hxs(h), hx(g), hx(w))
			}
			classes = append(classes, "q:"+qcl, "h:"+hcl)
			key += " q=" + hxs(q) + " h=" + hxs(h)
		case "Clone":
			wantVec(t, "Clone (after overwriting the original)", I.MLClone(table), table)
		case "Add":
			b, _ := drawElems(t, c, 1<<nv, "b")
			want := make([]*big.Int, len(table))
			for i := range want {
				want[i] = F.Add(table[i], b[i])
			}
			wantVec(t, "Add", I.MLAdd(table, b), want)
		case "Sum":
			want := new(big.Int)
			for _, v := range table {
				want = F.Add(want, v)
			}
			if g := I.MLSum(table); g.Cmp(want) != 0 {
				t.Fatalf("C20: Sum = %s want %s", hx(g), hx(want))
			}
		case "NumVars":
			if g := I.MLNumVars(table); g != nv {
				t.Fatalf("C20: NumVars = %d on a table of 2^%d", g, nv)
			}
		}
	})
	rep.Case(test, key, true, classes...)
}

func TestC20_MultiLin(t *testing.T) { forFrPolysRapid(t, propMultiLin) }
