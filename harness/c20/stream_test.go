package c20

import (
	"bufio"
	"bytes"
	"errors"
	"fmt"
	"io"
	"testing"
	"testing/iotest"

	"pgregory.net/rapid"

	"verif/harness/internal/inst"
	"verif/harness/internal/ref"
	"verif/harness/internal/rep"
)

// Serialisation histories: several objects (polynomials, interleaved foreign bytes) on ONE stream, written and
// read back through every kind of writer / reader. A polynomial is one record of such a stream (this is how the
// provers' keys are stored: many WriteTo calls on one writer, as many ReadFrom calls on one reader), so
//   * WriteTo returns exactly the number of bytes it put on the stream (also when the writer fails),
//   * ReadFrom consumes exactly its own encoding - no more (the next record must decode), no less - and returns
//     that count (also on a truncated stream: the number of bytes it took),
//   * the decoded object denotes the same polynomial (form, size, shift, stored coset).

// plainReader hides every method of the underlying reader except Read, and counts what it hands out.
type plainReader struct {
	r io.Reader
	n int64
}

func (p *plainReader) Read(b []byte) (int, error) {
	k, err := p.r.Read(b)
	p.n += int64(k)
	return k, err
}

// chunkReader returns at most the next size of a cyclic list per call (never 0 bytes without error).
type chunkReader struct {
	r     io.Reader
	sizes []int
	i     int
	n     int64
}

func (c *chunkReader) Read(b []byte) (int, error) {
	k := c.sizes[c.i%len(c.sizes)]
	c.i++
	if k < len(b) {
		b = b[:k]
	}
	m, err := c.r.Read(b)
	c.n += int64(m)
	return m, err
}

// plainWriter hides everything but Write and counts.
type plainWriter struct {
	w io.Writer
	n int64
}

func (p *plainWriter) Write(b []byte) (int, error) {
	k, err := p.w.Write(b)
	p.n += int64(k)
	return k, err
}

var errLimit = errors.New("verif: writer full")

// limitWriter accepts limit bytes in total. partial: the call that crosses the limit is accepted up to the limit
// (n < len(b) with an error, as io.Writer allows); otherwise that call is refused as a whole.
type limitWriter struct {
	limit   int64
	n       int64
	partial bool
}

func (l *limitWriter) Write(b []byte) (int, error) {
	room := l.limit - l.n
	if int64(len(b)) <= room {
		l.n += int64(len(b))
		return len(b), nil
	}
	if l.partial && room > 0 {
		l.n += room
		return int(room), errLimit
	}
	return 0, errLimit
}

var readerKinds = []string{"bytes.Buffer", "bytes.Reader", "bufio.Reader", "bufio.Reader16", "plain_wrapper", "one_byte", "half", "data_err", "chunks"}

// mkReader wraps the stream; consumed reports how many bytes of the underlying stream have been taken so far
// (nil when the wrapper legitimately reads ahead, i.e. for the bufio kinds, where the position is checked
// through what the next read returns instead).
func mkReader(t *rapid.T, kind string, data []byte) (io.Reader, func() int64) {
	base := bytes.NewReader(data)
	taken := func() int64 { return int64(len(data) - base.Len()) }
	switch kind {
	case "bytes.Buffer":
		b := bytes.NewBuffer(append([]byte(nil), data...))
		return b, func() int64 { return int64(len(data) - b.Len()) }
	case "bytes.Reader":
		return base, taken
	case "bufio.Reader":
		return bufio.NewReader(base), nil
	case "bufio.Reader16":
		return bufio.NewReaderSize(base, 16), nil
	case "plain_wrapper":
		return &plainReader{r: base}, taken
	case "one_byte":
		return iotest.OneByteReader(base), taken
	case "half":
		return iotest.HalfReader(base), taken
	case "data_err": // returns the final bytes together with io.EOF
		return iotest.DataErrReader(&plainReader{r: base}), nil
	default:
		sizes := rapid.SliceOfN(rapid.IntRange(1, 70), 1, 5).Draw(t, "chunksizes")
		return &chunkReader{r: base, sizes: sizes}, taken
	}
}

type record struct {
	m   *model // nil: foreign bytes
	raw []byte // the foreign bytes / after writing: the encoding
}

func drawStreamPoly(t *rapid.T, c *cx, label string) *model {
	size, f, n0, _ := drawInit(t, 4, label)
	pal := shiftPalette(c, 8*np2(size))
	co, _ := drawElems(t, c, size, label+"coef")
	sh := &shared{c: c, p: ref.NewPoly(c.F, co), size: size, s: rapid.SampledFrom(pal).Draw(t, label+"cosetshift"), pal: pal, tabs: map[int]*tables{}}
	m := newModel(sh, f, n0)
	for k := rapid.IntRange(0, 3).Draw(t, label+"nops"); k > 0; k-- {
		op := rapid.SampledFrom([]int{opToCanonical, opToLagrange, opToLagrangeCoset, opToLagrangeCoset, opToBitReverse, opToRegular, opGrowCoset, opGrowLagrange, opGrowCanonical}).Draw(t, label+"op")
		m.apply(t, op, rapid.IntRange(0, 14).Draw(t, label+"variant"), max(4*np2(size), m.n))
	}
	m.shift = drawRtShift(t, size, label+"shift")
	m.lib.Shift(m.shift)
	return m
}

func propStream(t *rapid.T, c *cx) {
	test := "C20_Stream/" + c.I.Name()
	nrec := rapid.IntRange(1, 4).Draw(t, "records")
	var recs []record
	npoly := 0
	for i := 0; i < nrec; i++ {
		if i > 0 && rapid.IntRange(0, 3).Draw(t, fmt.Sprintf("foreign%d", i)) == 0 {
			recs = append(recs, record{raw: rapid.SliceOfN(rapid.Byte(), 1, 40).Draw(t, fmt.Sprintf("bytes%d", i))})
			continue
		}
		recs = append(recs, record{m: drawStreamPoly(t, c, fmt.Sprintf("p%d", i))})
		npoly++
	}
	if npoly == 0 {
		recs[0] = record{m: drawStreamPoly(t, c, "p0")}
		npoly = 1
	}
	classes := []string{fmt.Sprintf("stream:%d_records", len(recs))}
	if npoly >= 2 {
		classes = append(classes, "stream:two_objects")
	}

	// ---- writing: all records through one writer -----------------------------------------------------
	wkind := rapid.SampledFrom([]string{"bytes.Buffer", "plain_wrapper", "bufio.Writer", "bufio.Writer16"}).Draw(t, "writer")
	classes = append(classes, "writer:"+wkind)
	var sink bytes.Buffer
	var w io.Writer = &sink
	pw := &plainWriter{w: &sink}
	var bw *bufio.Writer
	switch wkind {
	case "plain_wrapper":
		w = pw
	case "bufio.Writer":
		bw = bufio.NewWriter(&sink)
		w = bw
	case "bufio.Writer16":
		bw = bufio.NewWriterSize(&sink, 16)
		w = bw
	}
	pos := func() int {
		if bw != nil {
			return sink.Len() + bw.Buffered()
		}
		return sink.Len()
	}
	var offsets []int
	for i := range recs {
		before := pos()
		offsets = append(offsets, before)
		if recs[i].m == nil {
			w.Write(recs[i].raw)
			classes = append(classes, "stream:foreign_bytes_between")
			continue
		}
		var n int64
		var err error
		recs[i].m.guard(t, "WriteTo", func() { n, err = recs[i].m.lib.WriteTo(w) })
		if err != nil || n != int64(pos()-before) {
			t.Fatalf("C20: WriteTo (record %d, writer %s) returned (%d, %v), the stream grew by %d bytes\n  state: %s", i, wkind, n, err, pos()-before, recs[i].m.desc())
		}
	}
	if bw != nil {
		bw.Flush()
	}
	stream := append([]byte(nil), sink.Bytes()...)
	offsets = append(offsets, len(stream))
	for i := range recs {
		if recs[i].m != nil {
			recs[i].raw = stream[offsets[i]:offsets[i+1]]
		}
	}
	// the same object written on its own gives the same bytes (the encoding does not depend on the stream position)
	for i := range recs {
		if recs[i].m != nil {
			var solo bytes.Buffer
			recs[i].m.lib.WriteTo(&solo)
			if !bytes.Equal(solo.Bytes(), recs[i].raw) {
				t.Fatalf("C20: record %d encodes differently alone and inside a stream (writer %s)", i, wkind)
			}
		}
	}

	// ---- a writer that fails: the failure must be reported (a truncated stream does not denote the object) --
	if rapid.IntRange(0, 2).Draw(t, "failing_writer") == 0 {
		i := 0
		for recs[i].m == nil {
			i++
		}
		enc := recs[i].raw
		lw := &limitWriter{limit: int64(rapid.IntRange(0, len(enc)-1).Draw(t, "limit")), partial: rapid.Bool().Draw(t, "partial")}
		if rapid.IntRange(0, 2).Draw(t, "limit_in_trailer") == 0 { // inside the four uint32 fields / the coset
			lw.limit = int64(len(enc) - 1 - rapid.IntRange(0, min(47, len(enc)-1)).Draw(t, "back"))
		}
		var n int64
		var err error
		recs[i].m.guard(t, "WriteTo", func() { n, err = recs[i].m.lib.WriteTo(lw) })
		if err == nil {
			t.Fatalf("C20: WriteTo on a writer that accepts only %d of %d bytes returned no error", lw.limit, len(enc))
		}
		// The count returned together with an error is outside C20's statement (the property is about what a
		// serialised object denotes): recorded in the histogram, not asserted. (Observed on the unchanged tree:
		// a write refused inside one of the four uint32 header fields is under-counted by 1..3 bytes because
		// binary.Write drops the count of a partial write; candidate patch in fixes/unapplied/.)
		classes = append(classes, fmt.Sprintf("writer:failing_partial=%v", lw.partial), fmt.Sprintf("writer:error_count_exact=%v", n == lw.n))
	}

	// ---- reading all records back from one reader -----------------------------------------------------
	rkind := rapid.SampledFrom(readerKinds).Draw(t, "reader")
	classes = append(classes, "reader:"+rkind)
	truncate := -1
	data := stream
	if rapid.IntRange(0, 4).Draw(t, "truncate") == 0 {
		truncate = rapid.IntRange(0, len(stream)-1).Draw(t, "cut")
		data = stream[:truncate]
		classes = append(classes, "stream:truncated")
	}
	r, taken := mkReader(t, rkind, data)
	reuse := rapid.Bool().Draw(t, "reuse_receiver")
	var prev inst.IopPoly
	for i := range recs {
		end := offsets[i+1]
		if recs[i].m == nil {
			got := make([]byte, len(recs[i].raw))
			k, err := io.ReadFull(r, got)
			if truncate >= 0 && truncate < end {
				return0(test, c, recs, classes, rkind)
				return
			}
			if err != nil || !bytes.Equal(got[:k], recs[i].raw) {
				t.Fatalf("C20: foreign bytes after record %d read back as %x (%v), want %x: a ReadFrom before them did not stop at the end of its encoding (reader %s)", i-1, got[:k], err, recs[i].raw, rkind)
			}
			continue
		}
		m := recs[i].m
		var back inst.IopPoly
		var n int64
		var err error
		m.guard(t, "ReadFrom", func() {
			if reuse && prev != nil { // decode into an object that already holds another polynomial
				back = prev
				n, err = back.ReadFrom(r)
				classes = append(classes, "reader:reused_receiver")
			} else {
				back, n, err = c.I.ReadPoly(r)
			}
		})
		if truncate >= 0 && truncate < end {
			// the stream ends inside this record: an error, and n = what was left of the stream
			avail := int64(max(truncate-offsets[i], 0))
			if err == nil {
				t.Fatalf("C20: ReadFrom on a stream cut %d bytes into a %d-byte record returned no error (reader %s)", avail, len(recs[i].raw), rkind)
			}
			// the count returned together with the error is outside C20's statement: recorded, not asserted
			classes = append(classes, fmt.Sprintf("reader:error_count_exact=%v", n == avail))
			return0(test, c, recs, classes, rkind)
			return
		}
		if err != nil || n != int64(len(recs[i].raw)) {
			t.Fatalf("C20: ReadFrom of record %d (reader %s) returned (%d, %v), its encoding has %d bytes\n  state: %s", i, rkind, n, err, len(recs[i].raw), m.desc())
		}
		if taken != nil && taken() != int64(end) {
			t.Fatalf("C20: ReadFrom of record %d (reader %s) took the stream to offset %d, its encoding ends at %d\n  state: %s", i, rkind, taken(), end, m.desc())
		}
		// the decoded object denotes the same polynomial: form, size, entries, shift, coset
		m.lib = back
		m.spare = false
		m.hist = append(m.hist, fmt.Sprintf("WriteTo(%s)>ReadFrom(%s, record %d of %d)", wkind, rkind, i, len(recs)))
		m.checkDecoded(t) // entries, Evaluate at free / domain / coset / subgroup points, GetCoeff everywhere, under the decoded shift
		classes = append(classes, rtClasses(m.size, m.shift)...)
		if m.canEvaluate() {
			pc := rapid.SampledFrom(pointClasses).Draw(t, fmt.Sprintf("pc%d", i))
			m.checkEvalCurrent(t, m.point(pc, rapid.IntRange(0, 2*m.n).Draw(t, fmt.Sprintf("pj%d", i))), pc)
			classes = append(classes, "decoded_eval:"+m.form.String(), "decoded_"+shiftClass(m.shift, m.size))
		}
		m.checkCoeffCurrent(t, rapid.IntRange(0, m.n-1).Draw(t, fmt.Sprintf("ci%d", i)))
		prev = back
	}
	// nothing but the end of the stream may be left
	rest, err := io.ReadAll(r)
	if err != nil || len(rest) != 0 {
		t.Fatalf("C20: after the last record the reader (%s) still yields %d bytes (%v)", rkind, len(rest), err)
	}
	return0(test, c, recs, classes, rkind)
}

func return0(test string, c *cx, recs []record, classes []string, rkind string) {
	key := c.I.Name() + " " + rkind
	for _, r := range recs {
		if r.m == nil {
			key += fmt.Sprintf(" bytes(%d)", len(r.raw))
		} else {
			key += fmt.Sprintf(" [%s len=%d shift=%d %s]", r.m.form, r.m.n, r.m.shift, hxs(r.m.p.C))
		}
	}
	rep.Case(test, key, true, dedup(classes)...)
}

func TestC20_Stream(t *testing.T) { forIopsRapid(t, propStream) }
